#!/usr/bin/env python3
"""Regenerates MANIFEST.json from tools/manifest_src.py (single source of truth for the per-property texts)."""
import json, os, sys
sys.path.insert(0, os.path.dirname(os.path.abspath(__file__)))
from manifest_src import CHECKS, NOT_APPLICABLE, HOOK_COMMITS, READY
V = os.path.dirname(os.path.dirname(os.path.abspath(__file__)))
m = {
 "version": 1,
 "setup_cmd": "bin/setup",
 "hooks": {
  "guard": "UCL_STIR_VERIF",
  "enable": "bin/setup configures /verif/.build/stir and /verif/.build/stir-omp with -DCMAKE_CXX_FLAGS='-Wno-error -DUCL_STIR_VERIF'; drivers are compiled with -DUCL_STIR_VERIF and define the weak call-out stir_verif_event()",
  "baseline_off_cmd": "bin/baseline_off",
  "source_commits": HOOK_COMMITS,
  "add_only": True
 },
 "engines": [
  {"name": "tlc", "path": "/opt/veriftools/tla/tla2tools.jar", "serves_properties": [c["property_id"] for c in CHECKS],
   "kind_free_text": "TLC 1.8.0 explicit-state model checker: exhaustive model checks of spec/MC_*.tla and trace validation (spec/Trace_*.tla) of ndjson logs recorded from the real STIR libraries by the C++ drivers in harness/"}
 ],
 "checks": [],
 "notes": "All verdicts come from TLC; the C++ drivers only drive the implementation and record. See DESIGN.md.",
 "not_applicable": NOT_APPLICABLE
}
import glob
have = {c["property_id"] for c in CHECKS}
for f in sorted(glob.glob(os.path.join(V, "checks", "*.manifest.json"))):
    c = json.load(open(f))
    if c["property_id"] not in have and c["property_id"] in READY:
        CHECKS.append(c); have.add(c["property_id"])
CHECKS.sort(key=lambda c: c["property_id"])
m["engines"][0]["serves_properties"] = [c["property_id"] for c in CHECKS]
m["not_applicable"] = [n for n in NOT_APPLICABLE if n["property_id"] not in have]
for c in CHECKS:
    pid = c["property_id"]
    m["checks"].append({
        "property_id": pid,
        "quick_cmd": "bin/check %s --tier quick" % pid,
        "thorough_cmd": "bin/check %s --tier thorough" % pid,
        "evidence_file": "/verif/evidence/%s.json" % pid,
        "replay_cmd_template": "bin/check %s --replay {path}" % pid,
        "engine": "tlc",
        "level_claimed": {"category": "model_checking", "text": c["text"], "design_ref": c.get("design_ref", "DESIGN.md section 7, " + pid)},
        "level_note": c["note"],
        "technique": c["technique"],
    })
json.dump(m, open(os.path.join(V, "MANIFEST.json"), "w"), indent=1)
print("MANIFEST.json: %d checks, %d not_applicable" % (len(m["checks"]), len(m["not_applicable"])))
