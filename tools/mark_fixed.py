#!/usr/bin/env python3
"""tools/mark_fixed.py <known-finding-id> <commit>  — after a `fix:` commit in /repo: flips the
known_findings.jsonl entry from known to fixed (adds the 'entry' line "fixed: property=<id> <commit> <what>")
and stores the revert of the commit as selftest/<PID>/revert_<commit>.diff (a mandatory selftest mutation)."""
import json, os, subprocess, sys
V = os.path.dirname(os.path.dirname(os.path.abspath(__file__)))
kid, commit = sys.argv[1], sys.argv[2]
commit = subprocess.check_output(["git", "-C", "/repo", "rev-parse", "--short=9", commit], text=True).strip()
p = os.path.join(V, "known_findings.jsonl")
out, pid = [], None
for l in open(p):
    s = l.strip()
    if s:
        d = json.loads(s)
        if d.get("id") == kid:
            pid = d["property"]
            what = d.get("what", "")
            d2 = {"entry": "fixed: property=%s %s %s" % (pid, commit, what), "property": pid, "id": kid, "status": "fixed", "commit": commit, "what": what}
            if "signature" in d:
                d2["signature"] = d["signature"]
            s = json.dumps(d2)
    out.append(s)
if pid is None:
    sys.exit("no entry " + kid)
open(p, "w").write("\n".join(x for x in out if x) + "\n")
os.makedirs(os.path.join(V, "selftest", pid), exist_ok=True)
diff = subprocess.check_output(["git", "-C", "/repo", "diff", commit, commit + "~1"], text=True)
f = os.path.join(V, "selftest", pid, "revert_%s.diff" % commit)
open(f, "w").write(diff)
rc = subprocess.call(["git", "-C", "/repo", "apply", "--check", f])
print(kid, "->", "fixed", commit, f, "(applies to HEAD)" if rc == 0 else "(DOES NOT APPLY to HEAD: re-make by hand)")
