HOOK_COMMITS = ["c8f347152", "b47eca310"]
# properties whose check the lead has run on the unchanged tree and accepted (fragments of other checks are ignored)
READY = ["C01", "C02", "C03", "C04", "C05", "C06", "C07", "C08", "C09", "C10", "C11", "C12", "C13", "C14", "C15", "C16", "C17", "C18", "C19", "C20"]
CHECKS = [
 {"property_id": "C01",
  "text": "TLC proves the partition theorems (unique in-plane preimage, Michelogram partition, pair count per bin, detector exchange negates TOF, uncompressed bijection, closed-form ring-pair sets) of spec/Geometry.tla exhaustively for every small configuration; every answer recorded from the real ProjDataInfoCylindricalNoArcCorr / ProjDataInfoBlocksOnCylindricalNoArcCorr objects (all pairs of small generated scanners, samples of the whole scanner database and of rings up to 1000 detectors) must be explained by that specification in TLC trace validation.",
  "note": "Trusted: TLC, the ndjson recording in harness/c01_geometry.cxx (records only), uniqueness theorem T1 extrapolated beyond the model-checked N. Blocks/Generic restricted to span 1, unmashed, non-TOF (documented restriction of those classes). One known finding (C01-truncseg).",
  "technique": "TLA+ specification + TLC model checking + TLC trace validation of recorded implementation answers"},
]
_pending = "check not built yet in this session (specification not yet bound to the implementation); see DESIGN.md section 13"
NOT_APPLICABLE = [{"property_id": "C%02d" % i, "reason": _pending} for i in range(1, 21) if "C%02d" % i not in {c["property_id"] for c in CHECKS}]
