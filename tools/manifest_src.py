HOOK_COMMITS = ["c8f347152", "b47eca310"]
# properties whose check the lead has run on the unchanged tree and accepted (fragments of other checks are ignored)
READY = ["C01", "C02", "C03", "C04", "C05", "C06", "C07", "C08", "C09", "C10", "C11", "C12", "C13", "C14", "C15", "C16", "C17", "C18", "C19", "C20"]
CHECKS = [
]  # all per-property texts now live in checks/*.manifest.json
_pending = "check not built yet in this session (specification not yet bound to the implementation); see DESIGN.md section 13"
NOT_APPLICABLE = [{"property_id": "C%02d" % i, "reason": _pending} for i in range(1, 21) if "C%02d" % i not in {c["property_id"] for c in CHECKS}]
