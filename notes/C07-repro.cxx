// Stand-alone reproduction of finding C07-restart-positivity against the real STIR libraries (no TLC involved).
//
// OSEM (OSMAPOSLReconstruction without prior), 2 subsets, 6 sub-iterations on a tiny system given through the
// explicit-matrix seam.  Voxel 7 is seen by the first view only, so subset 1 has sensitivity 0 there and the
// first sub-iteration on subset 1 sets it to 0, where it stays for the rest of the uninterrupted run.
// The run is then resumed at sub-iteration 3 from the image saved after sub-iteration 2
//   (a) the way a user would: new objects, `initial estimate` = saved image, `start at subiteration number` = 3,
//       everything else at its default (enforce initial positivity condition = 1)
//   (b) the same with enforce initial positivity condition = 0.
// (b) reproduces the uninterrupted run bit for bit; (a) does not: set_up replaced the zeros of the saved image by
// 1e-6 * smallest positive value, the revived voxel grows again and the other voxels move with it.
//
// build + run:  python3 -c "from checks import lib; print(lib.build_driver('c07_repro', sources=['/verif/notes/C07-repro.cxx']))"
//               STIR_CONFIG_DIR=/repo/src/config /verif/.build/drivers/c07_repro /var/tmp/C07-repro
#include "vh_explicit_matrix.h"
#include "stir/OSMAPOSL/OSMAPOSLReconstruction.h"
#include "stir/recon_buildblock/PoissonLogLikelihoodWithLinearModelForMeanAndProjData.h"
#include "stir/ProjDataInMemory.h"
#include "stir/IO/read_from_file.h"
#include "stir/Succeeded.h"
#include <cstdio>
#include <sys/stat.h>
using namespace stir;
typedef DiscretisedDensity<3, float> Img;
typedef PoissonLogLikelihoodWithLinearModelForMeanAndProjData<Img> PLL;

static vh::TinySystem sys_;
static shared_ptr<vh::ExplicitMatrixData> P;
static std::vector<Bin> bins;
static std::vector<float> y;

static shared_ptr<OSMAPOSLReconstruction<Img>> make(const std::string& prefix, int start, bool eip) {
  shared_ptr<ProjDataInMemory> pd(new ProjDataInMemory(sys_.exam_info, sys_.proj_data_info));
  pd->fill(0.F);
  for (size_t b = 0; b < bins.size(); ++b) { Bin bin = bins[b]; bin.set_bin_value(y[b]); pd->set_bin_value(bin); }
  shared_ptr<PLL> of(new PLL);
  of->set_proj_data_sptr(pd);
  of->set_projector_pair_sptr(vh::make_explicit_projector_pair(P));
  of->set_use_subset_sensitivities(true);
  of->set_recompute_sensitivity(true);
  shared_ptr<OSMAPOSLReconstruction<Img>> r(new OSMAPOSLReconstruction<Img>);
  r->set_objective_function_sptr(of);
  r->set_num_subsets(2);
  r->set_num_subiterations(6);
  r->set_start_subiteration_num(start);
  r->set_save_interval(1);
  r->set_output_filename_prefix(prefix);
  r->set_enforce_initial_positivity(eip);
  return r;
}

static void show(const char* what, const Img& im) {
  printf("%-34s", what);
  for (auto it = im.begin_all_const(); it != im.end_all_const(); ++it) printf(" %.9g", *it);
  printf("\n");
}

int main(int argc, char** argv) {
  const std::string dir = argc > 1 ? argv[1] : "/var/tmp/C07-repro";
  mkdir(dir.c_str(), 0755);
  vh::quiet();
  sys_ = vh::make_tiny_system(8, 2, 3, 0, 2, 2, 2);
  bins = vh::xm_all_bins(*sys_.proj_data_info);
  const std::vector<std::array<int, 3>> vox = vh::xm_voxels(*sys_.image);
  P.reset(new vh::ExplicitMatrixData);
  // every bin sees voxel (b mod 6) with weight 1 and voxel ((b+1) mod 6) with weight 2; bins of view 0 also voxel 6 (0-based)
  for (size_t b = 0; b < bins.size(); ++b) {
    std::vector<vh::XmElem> row;
    auto add = [&](int v, float w) { row.push_back(vh::XmElem{ vox[v][0], vox[v][1], vox[v][2], w }); };
    add((int)(b % 6), 1.F);
    add((int)((b + 1) % 6), 2.F);
    if (bins[b].view_num() == 0) add(6, 1.F);
    P->set_row(bins[b], row);
    y.push_back((float)(3 + (b * 7) % 11));
  }
  shared_ptr<Img> start(sys_.image->get_empty_copy());
  start->fill(1.F);

  shared_ptr<Img> u(start->clone());
  auto ru = make(dir + "/uninterrupted", 1, true);
  ru->set_up(u);
  ru->reconstruct(u);
  shared_ptr<Img> saved2 = read_from_file<Img>(dir + "/uninterrupted_2.hv");
  show("uninterrupted, saved after 2:", *saved2);
  show("uninterrupted, saved after 6:", *read_from_file<Img>(dir + "/uninterrupted_6.hv"));

  for (int eip = 1; eip >= 0; --eip) {
    shared_ptr<Img> from = read_from_file<Img>(dir + "/uninterrupted_2.hv");
    const std::string prefix = dir + (eip ? "/resumed_default" : "/resumed_no_enforcement");
    auto rr = make(prefix, 3, eip != 0);
    rr->set_up(from);
    show(eip ? "resumed (default): after set_up:" : "resumed (no enforcement): set_up:", *from);
    rr->reconstruct(from);
    shared_ptr<Img> a = read_from_file<Img>(prefix + "_6.hv"), b = read_from_file<Img>(dir + "/uninterrupted_6.hv");
    show(eip ? "resumed (default): saved after 6:" : "resumed (no enforcement): after 6:", *a);
    int ndiff = 0;
    auto ib = b->begin_all_const();
    for (auto ia = a->begin_all_const(); ia != a->end_all_const(); ++ia, ++ib) if (*ia != *ib) ++ndiff;
    printf("  -> voxels differing from the uninterrupted run after sub-iteration 6: %d of 8\n", ndiff);
  }
  return 0;
}
