// Standalone reproduction of finding C08-resume-nonidentifiable against the real STIR libraries (no framework code):
// OSSPS with a quadratic prior and voxels of zero sensitivity (image corners outside the cylindrical FOV of the
// ray-tracing matrix): a run resumed from the image saved after sub-iteration k differs from the uninterrupted run,
// because update_estimate re-applies fill_nonidentifiable_target_parameters(image, 0) at the first sub-iteration of
// EVERY run, while in the uninterrupted run the prior has moved those voxels away from 0 after sub-iteration 1.
// Without a prior the resumed runs are bit-identical.
// Build like any driver (see BUILDING.md), e.g. from python:
//   lib.build_driver("c08_repro", sources=["/verif/notes/C08-repro.cxx"]); run with STIR_CONFIG_DIR=/repo/src/config
//   usage: c08_repro <scratch-dir>
// Output on the unchanged tree is quoted in notes/C08.md.
#include "stir/OSSPS/OSSPSReconstruction.h"
#include "stir/recon_buildblock/PoissonLogLikelihoodWithLinearModelForMeanAndProjData.h"
#include "stir/recon_buildblock/ProjMatrixByBinUsingRayTracing.h"
#include "stir/recon_buildblock/ProjectorByBinPairUsingProjMatrixByBin.h"
#include "stir/recon_buildblock/QuadraticPrior.h"
#include "stir/ProjDataInMemory.h"
#include "stir/ProjDataInfo.h"
#include "stir/Scanner.h"
#include "stir/VoxelsOnCartesianGrid.h"
#include "stir/IO/read_from_file.h"
#include "stir/Verbosity.h"
#include "stir/Succeeded.h"
#include <cstdio>
#include <cmath>
#include <cstring>
#include <string>
using namespace stir;
typedef DiscretisedDensity<3, float> Img;
typedef PoissonLogLikelihoodWithLinearModelForMeanAndProjData<Img> PLL;

struct Setup {
  shared_ptr<ProjDataInfo> pdi;
  shared_ptr<ExamInfo> ei;
  shared_ptr<VoxelsOnCartesianGrid<float>> image;
  shared_ptr<ProjDataInMemory> data, additive;
};

static shared_ptr<OSSPSReconstruction<Img>> make_recon(const Setup& s, bool with_prior, int N, int start, int last, const std::string& prefix) {
  shared_ptr<PLL> obj(new PLL);
  shared_ptr<ProjMatrixByBin> pm(new ProjMatrixByBinUsingRayTracing);   // default: restricted to the cylindrical FOV
  shared_ptr<ProjectorByBinPair> pair(new ProjectorByBinPairUsingProjMatrixByBin(pm));
  obj->set_proj_data_sptr(s.data);
  obj->set_additive_proj_data_sptr(s.additive);
  obj->set_projector_pair_sptr(pair);
  obj->set_use_subset_sensitivities(true);
  obj->set_recompute_sensitivity(true);
  if (with_prior) obj->set_prior_sptr(shared_ptr<GeneralisedPrior<Img>>(new QuadraticPrior<float>(false, 0.5F)));
  shared_ptr<OSSPSReconstruction<Img>> r(new OSSPSReconstruction<Img>);   // defaults: relaxation 1, gamma 0.1, no upper bound
  r->set_objective_function_sptr(obj);
  r->set_num_subsets(N);
  r->set_start_subiteration_num(start);
  r->set_num_subiterations(last);
  r->set_save_interval(1);
  r->set_output_filename_prefix(prefix);
  return r;
}

int main(int argc, char** argv) {
  const std::string scratch = argc > 1 ? argv[1] : "/tmp";
  Verbosity::set(0);
  Setup s;
  shared_ptr<Scanner> sc(new Scanner(Scanner::User_defined_scanner, "tiny", 16, 2, 9, 9, 40.F, 0.F, 4.F, 3.F, 0.F, 1, 1, 1, 1, 1, 1, 1));
  s.pdi = ProjDataInfo::construct_proj_data_info(sc, 1, 1, 8, 9, false);
  s.ei.reset(new ExamInfo);
  s.ei->imaging_modality = ImagingModality::PT;
  s.image.reset(new VoxelsOnCartesianGrid<float>(s.ei, *s.pdi, 1.F, CartesianCoordinate3D<float>(0.F, 0.F, 0.F), CartesianCoordinate3D<int>(-1, 9, 9)));
  // data: projection of a small block + constant additive term (noise-free floats)
  {
    s.image->fill(0.F);
    for (int z = s.image->get_min_index(); z <= s.image->get_max_index(); ++z)
      for (int y = -1; y <= 1; ++y) for (int x = -2; x <= 1; ++x) (*s.image)[z][y][x] = 3.F + y + 0.5F * x;
    shared_ptr<ProjMatrixByBin> pm(new ProjMatrixByBinUsingRayTracing);
    ProjectorByBinPairUsingProjMatrixByBin pair(pm);
    pair.set_up(s.pdi, s.image);
    s.data.reset(new ProjDataInMemory(s.ei, s.pdi));
    pair.get_forward_projector_sptr()->forward_project(*s.data, *s.image);
    s.additive.reset(new ProjDataInMemory(s.ei, s.pdi));
    s.additive->fill(0.5F);
    for (auto d = s.data->begin(), a = s.additive->begin(); d != s.data->end(); ++d, ++a) *d += *a;   // y = P x + a
  }
  const int N = 2, K = 6;
  for (int with_prior = 0; with_prior <= 1; ++with_prior) {
    const std::string pre = scratch + (with_prior ? "/c08repro_prior" : "/c08repro_noprior");
    shared_ptr<Img> ref(s.image->get_empty_copy());
    ref->fill(1.F);
    auto r = make_recon(s, with_prior, N, 1, K, pre);
    if (r->set_up(ref) != Succeeded::yes) { printf("set_up failed\n"); return 1; }
    r->reconstruct(ref);
    // how many voxels have zero sensitivity?
    int nzero = 0, nvox = 0;
    { const Img& sens = dynamic_cast<PLL&>(const_cast<GeneralisedObjectiveFunction<Img>&>(r->get_objective_function())).get_sensitivity();
      for (auto it = sens.begin_all_const(); it != sens.end_all_const(); ++it) { ++nvox; if (*it == 0) ++nzero; } }
    printf("%s: %d voxels, %d of them with zero sensitivity; uninterrupted run of %d sub-iterations (%d subsets)\n",
           with_prior ? "quadratic prior" : "no prior", nvox, nzero, K, N);
    for (int k = 1; k < K; ++k) {
      shared_ptr<Img> cur = read_from_file<Img>(pre + "_" + std::to_string(k) + ".hv");
      auto r2 = make_recon(s, with_prior, N, k + 1, K, pre + "_resumed");
      if (r2->set_up(cur) != Succeeded::yes) { printf("set_up failed\n"); return 1; }
      r2->reconstruct(cur);
      double maxabs = 0, maxrel = 0;
      int ndiff = 0;
      auto a = ref->begin_all_const();
      for (auto b = cur->begin_all_const(); b != cur->end_all_const(); ++a, ++b)
        if (std::memcmp(&*a, &*b, sizeof(float)) != 0) {
          ++ndiff;
          maxabs = std::max(maxabs, (double)std::fabs(*a - *b));
          maxrel = std::max(maxrel, std::fabs(*a - *b) / std::max(std::fabs((double)*a), 1e-30));
        }
      printf("  resumed from the image saved after sub-iteration %d: %d voxels differ from the uninterrupted result, max abs %.4g, max rel %.4g\n",
             k, ndiff, maxabs, maxrel);
    }
  }
  return 0;
}
