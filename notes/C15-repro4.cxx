// Stand-alone reproduction of finding C15-vgidentity.
// zoom_viewgram(Viewgram<float>& out_viewgram, const Viewgram<float>& in_viewgram, x_offset, y_offset)
// ("zoom in_viewgram, replacing out_viewgram with the new data") with identical tangential sampling and range and zero offsets:
// the function returns early WITHOUT copying in_viewgram into out_viewgram, which keeps whatever it held.
#include "vh_stir.h"
#include "stir/ProjDataInfoCylindricalArcCorr.h"
#include "stir/Viewgram.h"
#include "stir/zoom.h"
#include <cstdio>
using namespace stir;
int main() {
  vh::quiet();
  shared_ptr<Scanner> sc = vh::make_scanner(8, 1);
  shared_ptr<ProjDataInfo> info = ProjDataInfo::construct_proj_data_info(sc, 1, 0, 4, 4, /*arc_corrected=*/true);
  Viewgram<float> in = info->get_empty_viewgram(0, 0), out = info->get_empty_viewgram(0, 0);
  for (int t = in.get_min_tangential_pos_num(); t <= in.get_max_tangential_pos_num(); ++t) in[0][t] = 10.F + t;
  out.fill(7.F);
  zoom_viewgram(out, in, 0.F, 0.F);
  printf("in :");
  for (int t = in.get_min_tangential_pos_num(); t <= in.get_max_tangential_pos_num(); ++t) printf(" %g", in[0][t]);
  printf("\nout:");
  for (int t = out.get_min_tangential_pos_num(); t <= out.get_max_tangential_pos_num(); ++t) printf(" %g", out[0][t]);
  printf("   (was filled with 7 before the call)\n");
  return 0;
}
