#include "vh_stir.h"
#include "stir/VoxelsOnCartesianGrid.h"
#include "stir/IndexRange3D.h"
#include "stir/ProjDataInMemory.h"
#include "stir/ExamInfo.h"
#include "stir/SegmentByView.h"
#include "stir/num_threads.h"
#include "stir/recon_buildblock/ProjMatrixByBinUsingRayTracing.h"
#include "stir/recon_buildblock/BackProjectorByBinUsingProjMatrixByBin.h"
#include <omp.h>
#include <cstdio>
using namespace stir;
int main(int argc, char** argv) {
  vh::quiet();
  const int T1 = atoi(argv[1]), T2 = atoi(argv[2]);
  shared_ptr<Scanner> sc = vh::make_scanner(16, 3);
  shared_ptr<ProjDataInfo> pdi = ProjDataInfo::construct_proj_data_info(sc, 1, 2, 8, 7, false, 0);
  shared_ptr<VoxelsOnCartesianGrid<float>> image(new VoxelsOnCartesianGrid<float>(IndexRange3D(0, 4, -5, 5, -5, 5), CartesianCoordinate3D<float>(0, 0, 0), CartesianCoordinate3D<float>(2, 4, 4)));
  shared_ptr<ExamInfo> ex(new ExamInfo); ex->imaging_modality = ImagingModality::PT;
  ProjDataInMemory pd(ex, pdi); pd.fill(1.F);
  shared_ptr<ProjMatrixByBin> pm(new ProjMatrixByBinUsingRayTracing);
  BackProjectorByBinUsingProjMatrixByBin bp(pm);
  stir::set_num_threads(T1);
  bp.set_up(pdi, image);
  stir::set_num_threads(T2);
  bp.back_project(*image, pd);
  double s = 0; for (auto it = image->begin_all(); it != image->end_all(); ++it) s += *it;
  printf("set_up with %d threads, back_project with %d threads: sum %.6g\n", T1, T2, s);
  return 0;
}
