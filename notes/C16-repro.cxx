#include "vh_stir.h"
#include "stir/scatter/SingleScatterSimulation.h"
#include "stir/VoxelsOnCartesianGrid.h"
#include "stir/IndexRange3D.h"
#include "stir/ProjDataInMemory.h"
#include "stir/ExamInfo.h"
#include "stir/Succeeded.h"
#include <map>
using namespace stir;
static long nev[8];
extern "C" void stir_verif_event(const char* site, long a, long b, long c, long d) {
  std::string s(site);
  (void)a;(void)b;(void)c;(void)d;
}
struct T : SingleScatterSimulation {
  bool asu() const { return _already_set_up; }
  double pair(unsigned a, unsigned b) { double r; actual_scatter_estimate(r,a,b); return r; }
  size_t ndetpts() const { return detection_points_vector.size(); }
};
typedef VoxelsOnCartesianGrid<float> Img;
static shared_ptr<Img> mkimg(shared_ptr<ExamInfo> ex, int nz,int ny,int nx, float vz,float vy,float vx, vh::Rng& rng, int mode, float scale) {
  shared_ptr<Img> im(new Img(ex, IndexRange3D(0,nz-1,-(ny/2),-(ny/2)+ny-1,-(nx/2),-(nx/2)+nx-1), CartesianCoordinate3D<float>(0,0,0), CartesianCoordinate3D<float>(vz,vy,vx)));
  for (int z=0;z<nz;++z) for(int y=-(ny/2);y<=-(ny/2)+ny-1;++y) for (int x=-(nx/2);x<=-(nx/2)+nx-1;++x) {
    float v = rng.range(0,15)*scale;
    if (mode==1 && (std::abs(x)>nx/3 || std::abs(y)>ny/3)) v=0;
    (*im)[z][y][x]=v; }
  return im;
}
static shared_ptr<ProjDataInfo> mkpdi(int N,int R, float eres) {
  auto sc = vh::make_scanner(N,R);
  sc->set_reference_energy(511.F); sc->set_energy_resolution(eres);
  return shared_ptr<ProjDataInfo>(ProjDataInfo::ProjDataInfoCTI(sc,1,R-1,N/2,N-1,false));
}
static shared_ptr<ExamInfo> mkexam(float lo,float hi){ shared_ptr<ExamInfo> e(new ExamInfo); e->set_low_energy_thres(lo); e->set_high_energy_thres(hi); e->imaging_modality=ImagingModality::PT; return e; }
static std::vector<double> run(T& s) {
  auto pdi = s.get_template_proj_data_info_sptr();
  shared_ptr<ProjDataInMemory> out(new ProjDataInMemory(s.get_exam_info_sptr(), pdi));
  s.set_output_proj_data_sptr(out);
  std::string m; 
  if (vh::threw([&]{ if (s.set_up()!=Succeeded::yes) printf("set_up no\n"); }, &m)) printf("set_up threw %s\n", m.c_str());
  if (vh::threw([&]{ if (s.process_data()!=Succeeded::yes) printf("process no\n"); }, &m)) printf("process threw %s\n", m.c_str());
  std::vector<double> v; for (auto it=out->begin_all(); it!=out->end_all(); ++it) v.push_back(*it);
  return v;
}
static void cmp(const char* what, const std::vector<double>&a, const std::vector<double>&b){ double mx=0,md=0; if(a.size()!=b.size()){printf("%s: size differs %zu %zu\n",what,a.size(),b.size());return;} for(size_t i=0;i<a.size();++i){mx=std::max(mx,std::fabs(a[i])); md=std::max(md,std::fabs(a[i]-b[i]));} printf("%s: n=%zu max=%g maxdiff=%g rel=%g\n",what,a.size(),mx,md,mx>0?md/mx:0); }
int main(){
  vh::quiet(); vh::Rng rng(1);
  auto ex1=mkexam(350,650), ex2=mkexam(450,600);
  auto pdi1=mkpdi(16,2,0.2F), pdi2=mkpdi(24,3,0.2F);
  auto act=mkimg(ex1,3,9,9,4,4,4,rng,1,0.125F);
  auto att=mkimg(ex1,3,9,9,4,4,4,rng,1,1.F/128);
  auto sp=mkimg(ex1,2,5,5,8,8,8,rng,0,1.F/128);
  auto conf=[&](T& s, shared_ptr<ProjDataInfo> pdi, shared_ptr<ExamInfo> ex, bool withsp){ s.set_randomly_place_scatter_points(false); s.set_attenuation_threshold(0.01F);
    s.set_template_proj_data_info(*pdi); s.set_exam_info(*ex); s.set_activity_image_sptr(act); s.set_density_image_sptr(att); if (withsp) s.set_density_image_for_scatter_points_sptr(sp); };
  printf("=== finding 1: energy window changed after a computation\n");
  T s; conf(s,pdi1,ex1,true); auto o1=run(s);
  s.set_exam_info(*ex2); auto o2=run(s);
  T f; conf(f,pdi1,ex2,true); auto o3=run(f);
  cmp("history (350-650 -> 450-600) vs fresh (450-600)", o2,o3);
  { double lo=1e30,hi=0; for(size_t i=0;i<o2.size();++i) if(o3[i]>0){ double q=o2[i]/o3[i]; lo=std::min(lo,q); hi=std::max(hi,q);} printf("ratio history/fresh over all bins: min %.7f max %.7f (constant factor = eff511(new window)/eff511(old window))\n",lo,hi);
    printf("detection_efficiency(511): old window %.7f new window %.7f ratio %.7f\n", (double)[&]{T a; conf(a,pdi1,ex1,true); run(a); return a.detection_efficiency(511.F);}(), (double)f.detection_efficiency(511.F), (double)f.detection_efficiency(511.F)/(double)[&]{T a; conf(a,pdi1,ex1,true); run(a); return a.detection_efficiency(511.F);}()); }
  s.set_template_proj_data_info(*pdi1); auto o4=run(s); cmp("same history + set_template_proj_data_info(same) (resets the memo) vs fresh", o4,o3);
  printf("=== finding 2: automatic zoom settings, template changed\n");
  T h; conf(h,pdi1,ex1,false); run(h); printf("scatter points under template 16x2: %d\n",h.get_num_scatter_points());
  h.set_template_proj_data_info(*pdi2); auto o5=run(h); printf("after set_template(24x3)+set_up: %d scatter points\n",h.get_num_scatter_points());
  h.set_density_image_sptr(att); auto o6=run(h); printf("after set_density_image(att) again + set_up: %d scatter points\n",h.get_num_scatter_points());
  T k; conf(k,pdi2,ex1,false); auto o7=run(k); printf("fresh object, template 24x3: %d scatter points\n",k.get_num_scatter_points());
  cmp("history (16x2 -> 24x3, image kept) vs fresh", o5,o7); cmp("history (16x2 -> 24x3, attenuation image set again) vs fresh", o6,o7);
  return 0;
}
