// Standalone reproduction of three further C08 findings against the real STIR libraries (no framework code):
//   1. C08-resume-positivity: with "enforce initial positivity condition := 1" a resumed OSSPS run differs from the uninterrupted one
//   2. C08-logcosh-curvature: LogcoshPrior says its surrogate curvature does not depend on the image, but it does
//   3. C08-reconstruct-without-setup: reconstruct() on a used object without set_up() runs and gives other images, no error
// Build like any driver: lib.build_driver("c08_repro2", sources=["/verif/notes/C08-repro2.cxx"]); usage: c08_repro2 <scratch-dir>
#include "stir/OSSPS/OSSPSReconstruction.h"
#include "stir/recon_buildblock/PoissonLogLikelihoodWithLinearModelForMeanAndProjData.h"
#include "stir/recon_buildblock/ProjMatrixByBinUsingRayTracing.h"
#include "stir/recon_buildblock/ProjectorByBinPairUsingProjMatrixByBin.h"
#include "stir/recon_buildblock/QuadraticPrior.h"
#include "stir/recon_buildblock/LogcoshPrior.h"
#include "stir/ProjDataInMemory.h"
#include "stir/ProjDataInfo.h"
#include "stir/Scanner.h"
#include "stir/VoxelsOnCartesianGrid.h"
#include "stir/IO/read_from_file.h"
#include "stir/Verbosity.h"
#include "stir/Succeeded.h"
#include <cstdio>
#include <cmath>
#include <cstring>
#include <sstream>
using namespace stir;
typedef DiscretisedDensity<3, float> Img;
typedef PoissonLogLikelihoodWithLinearModelForMeanAndProjData<Img> PLL;
struct Setup { shared_ptr<ProjDataInfo> pdi; shared_ptr<ExamInfo> ei; shared_ptr<VoxelsOnCartesianGrid<float>> image; shared_ptr<ProjDataInMemory> data, additive; };

static shared_ptr<OSSPSReconstruction<Img>> make_recon(const Setup& s, shared_ptr<GeneralisedPrior<Img>> prior, int N, int start, int last, const std::string& prefix, bool enforce) {
  shared_ptr<PLL> obj(new PLL);
  shared_ptr<ProjMatrixByBin> pm(new ProjMatrixByBinUsingRayTracing);
  shared_ptr<ProjectorByBinPair> pair(new ProjectorByBinPairUsingProjMatrixByBin(pm));
  obj->set_proj_data_sptr(s.data); obj->set_additive_proj_data_sptr(s.additive); obj->set_projector_pair_sptr(pair);
  obj->set_use_subset_sensitivities(true); obj->set_recompute_sensitivity(true);
  if (prior) obj->set_prior_sptr(prior);
  shared_ptr<OSSPSReconstruction<Img>> r(new OSSPSReconstruction<Img>);
  if (enforce) { std::istringstream in("OSSPSParameters :=\nenforce initial positivity condition := 1\nEnd :=\n"); r->parse(in); }   // parsing keyword only
  r->set_objective_function_sptr(obj);
  r->set_num_subsets(N); r->set_start_subiteration_num(start); r->set_num_subiterations(last); r->set_save_interval(1);
  r->set_output_filename_prefix(prefix);
  return r;
}
static void compare(const char* what, const Img& a, const Img& b) {
  int nd = 0; double mr = 0;
  auto ia = a.begin_all_const();
  for (auto ib = b.begin_all_const(); ib != b.end_all_const(); ++ia, ++ib)
    if (std::memcmp(&*ia, &*ib, sizeof(float)) != 0) { ++nd; mr = std::max(mr, std::fabs(*ia - *ib) / std::max(std::fabs((double)*ia), 1e-30)); }
  printf("  %s: %d voxels differ, max rel %.4g\n", what, nd, mr);
}
int main(int argc, char** argv) {
  const std::string scratch = argc > 1 ? argv[1] : "/tmp";
  Verbosity::set(0);
  Setup s;
  shared_ptr<Scanner> sc(new Scanner(Scanner::User_defined_scanner, "tiny", 16, 2, 9, 9, 40.F, 0.F, 4.F, 3.F, 0.F, 1, 1, 1, 1, 1, 1, 1));
  s.pdi = ProjDataInfo::construct_proj_data_info(sc, 1, 1, 8, 9, false);
  s.ei.reset(new ExamInfo); s.ei->imaging_modality = ImagingModality::PT;
  s.image.reset(new VoxelsOnCartesianGrid<float>(s.ei, *s.pdi, 1.F, CartesianCoordinate3D<float>(0.F, 0.F, 0.F), CartesianCoordinate3D<int>(-1, 9, 9)));
  { s.image->fill(0.F);
    for (int z = s.image->get_min_index(); z <= s.image->get_max_index(); ++z) for (int y = -1; y <= 1; ++y) for (int x = -2; x <= 1; ++x) (*s.image)[z][y][x] = 3.F + y + 0.5F * x;
    shared_ptr<ProjMatrixByBin> pm(new ProjMatrixByBinUsingRayTracing);
    ProjectorByBinPairUsingProjMatrixByBin pair(pm);
    pair.set_up(s.pdi, s.image);
    s.data.reset(new ProjDataInMemory(s.ei, s.pdi));
    pair.get_forward_projector_sptr()->forward_project(*s.data, *s.image);
    s.additive.reset(new ProjDataInMemory(s.ei, s.pdi)); s.additive->fill(0.5F);
    for (auto d = s.data->begin(), a = s.additive->begin(); d != s.data->end(); ++d, ++a) *d += *a; }
  const int N = 2, K = 6;
  // ---- 1. enforce initial positivity + resume (no prior; the lower bound 0 is met in the background voxels)
  for (int enforce = 0; enforce <= 1; ++enforce) {
    const std::string pre = scratch + (enforce ? "/c08r2_pos1" : "/c08r2_pos0");
    shared_ptr<Img> ref(s.image->get_empty_copy()); ref->fill(1.F);
    auto r = make_recon(s, shared_ptr<GeneralisedPrior<Img>>(), N, 1, K, pre, enforce);
    r->set_up(ref); r->reconstruct(ref);
    printf("1. enforce initial positivity condition = %d, no prior, %d subsets, %d sub-iterations\n", enforce, N, K);
    for (int k = 1; k < K; k += 2) {
      shared_ptr<Img> cur = read_from_file<Img>(pre + "_" + std::to_string(k) + ".hv");
      int zeros = 0; for (auto it = cur->begin_all_const(); it != cur->end_all_const(); ++it) zeros += *it == 0;
      auto r2 = make_recon(s, shared_ptr<GeneralisedPrior<Img>>(), N, k + 1, K, pre + "_res", enforce);
      r2->set_up(cur); r2->reconstruct(cur);
      char w[100]; sprintf(w, "resumed from sub-iteration %d (%d zeros in the saved image)", k, zeros);
      compare(w, *ref, *cur);
    }
  }
  // ---- 2. log-cosh: curvature for two images
  { LogcoshPrior<float> lp(false, 1.F, 1.F);
    shared_ptr<Img> a(s.image->clone()), b(s.image->get_empty_copy()), ca(s.image->get_empty_copy()), cb(s.image->get_empty_copy());
    b->fill(1.F);
    lp.set_up(a);
    lp.parabolic_surrogate_curvature(*ca, *a); lp.parabolic_surrogate_curvature(*cb, *b);
    printf("2. LogcoshPrior::parabolic_surrogate_curvature_depends_on_argument() = %d\n", (int)lp.parabolic_surrogate_curvature_depends_on_argument());
    compare("curvature for the block image vs curvature for the uniform image", *ca, *cb); }
  // ---- 3. reconstruct twice, second time without set_up (quadratic prior)
  { shared_ptr<GeneralisedPrior<Img>> qp(new QuadraticPrior<float>(false, 0.5F));
    shared_ptr<Img> x1(s.image->get_empty_copy()), x2(s.image->get_empty_copy()); x1->fill(1.F); x2->fill(1.F);
    auto r = make_recon(s, qp, N, 1, K, scratch + "/c08r2_twice", false);
    r->set_up(x1); r->reconstruct(x1);
    bool threw = false;
    try { r->reconstruct(x2); } catch (...) { threw = true; }
    printf("3. reconstruct() again on the used object without set_up(): error reported = %d\n", (int)threw);
    if (!threw) compare("second reconstruction from the same start image vs the first", *x1, *x2); }
  return 0;
}
