// Stand-alone reproduction of finding C15-maxsegsmall.
// SSRB(in_info, num_segments_to_combine = 3, 1, 0, max_in_segment_num_to_process = 0): only segment 0 may be processed, so
// there is no complete group of 3 segments; the source has the check
//     if (out_max_segment_num < 0) error("SSRB: max_in_segment_num_to_process %d is too small. No output segments")
// but out_max_segment_num = (0 - 3/2) / 3 = (-1) / 3 is 0 in C++ (truncation), so nothing is reported and the output
// segment 0 combines the input segments -1..1 that the caller excluded.
#include "vh_stir.h"
#include "stir/ProjDataInMemory.h"
#include "stir/ExamInfo.h"
#include "stir/SSRB.h"
#include <cstdio>
using namespace stir;
int main() {
  vh::quiet();
  shared_ptr<Scanner> sc = vh::make_scanner(8, 4);
  shared_ptr<ProjDataInfo> in(ProjDataInfo::construct_proj_data_info(sc, 1, 3, 4, 7, false));
  std::string msg;
  shared_ptr<ProjDataInfo> out;
  const bool threw = vh::threw([&] { out.reset(SSRB(*in, 3, 1, 0, /*max_in_segment_num_to_process=*/0)); }, &msg);
  printf("SSRB(info, 3, 1, 0, 0): %s\n", threw ? ("refused: " + msg).c_str() : "accepted");
  if (threw) return 0;
  auto* cyl = dynamic_cast<const ProjDataInfoCylindrical*>(out.get());
  printf("output segment 0: ring differences %d..%d\n", cyl->get_min_ring_difference(0), cyl->get_max_ring_difference(0));
  shared_ptr<ExamInfo> ei(new ExamInfo);
  ei->imaging_modality = ImagingModality::PT;
  ProjDataInMemory fine(ei, in), reb(ei, out);
  // one count in segment +1 only (ring difference 1): the caller asked to process segment 0 only
  Bin b(1, 0, 0, 0, 1.F);
  fine.set_bin_value(b);
  SSRB(reb, fine, false);
  printf("counts in the input: segment 0: %g, segment 1: %g;  counts in the output: %g\n", fine.get_segment_by_sinogram(0).sum(),
         fine.get_segment_by_sinogram(1).sum(), reb.sum());
  return 0;
}
