// C13 reproduction: BinNormalisationPETFromComponents::set_up accepts a geometry other than the allocated one
#include "vh_stir.h"
#include "stir/ProjDataInMemory.h"
#include "stir/ExamInfo.h"
#include "stir/recon_buildblock/BinNormalisationPETFromComponents.h"
#include "stir/Succeeded.h"
#include <iostream>
using namespace stir;
static shared_ptr<ProjDataInfo> pdi(int N, int R, int tang) {
  shared_ptr<Scanner> sc(new Scanner(Scanner::User_defined_scanner, "s" + std::to_string(N), N, R, N - 1, N - 1, 60.F, 0.F, 4.F, 3.F, 0.F,
                                     1, 1, 1, 2, 1, 2, 1, -1.F, -1.F, (short)-1, -1.F, -1.F, "Cylindrical", 4.F, 3.F, 4.F, 6.F));
  return shared_ptr<ProjDataInfo>(ProjDataInfo::construct_proj_data_info(sc, 1, R - 1, N / 2, tang, false, 0).release());
}
int main() {
  vh::quiet();
  shared_ptr<ExamInfo> ei(new ExamInfo); ei->imaging_modality = ImagingModality::PT;
  auto small = pdi(8, 2, 5), big = pdi(16, 4, 9);
  BinNormalisationPETFromComponents c;
  c.allocate(small, true, false, false);
  for (int r = 0; r < 2; ++r) for (int d = 0; d < 8; ++d) c.crystal_efficiencies()[r][d] = 2.F;
  std::string msg;
  bool ok = false;
  bool threw = vh::threw([&] { ok = c.set_up(ei, big) == Succeeded::yes; }, &msg);
  std::cout << "allocated for 8 detectors x 2 rings; set_up with 16 detectors x 4 rings: threw=" << threw << " succeeded=" << ok << " " << msg.substr(0, 100) << "\n";
  if (ok) { std::cout << "efficiency of bin (seg 3, view 7, ax 0, tang 4) = " << c.get_bin_efficiency(Bin(3, 7, 0, 4)) << "\n"; }
  return 0;
}
