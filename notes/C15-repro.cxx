// Stand-alone reproduction of finding C15-eventof (no framework code besides the tiny-scanner factory).
// Unmashed TOF data (15 timing positions), SSRB with num_tof_bins_to_combine = 2 (-> 7 TOF bins of mashing 2).
// For every unmashed timing position t one count is put into the same detector pair; it is
//   (a) histogrammed directly at the coarse sampling (get_bin_for_det_pos_pair of the output geometry), and
//   (b) histogrammed finely and rebinned with SSRB(out, in, false).
// Prints the coarse TOF bin of (a) and (b) for every t.
#include "vh_stir.h"
#include "stir/ProjDataInMemory.h"
#include "stir/ExamInfo.h"
#include "stir/SSRB.h"
#include "stir/Sinogram.h"
#include <cstdio>
using namespace stir;
int main(int argc, char** argv) {
  const int maxT = argc > 1 ? atoi(argv[1]) : 15, comb = argc > 2 ? atoi(argv[2]) : 2;
  vh::quiet();
  shared_ptr<Scanner> sc = vh::make_scanner(8, 1, maxT);
  shared_ptr<ProjDataInfo> in(ProjDataInfo::construct_proj_data_info(sc, 1, 0, 4, 7, false, 1));
  shared_ptr<ProjDataInfo> out(SSRB(*in, 1, 1, 0, -1, comb));
  auto* in_na = dynamic_cast<const ProjDataInfoCylindricalNoArcCorr*>(in.get());
  auto* out_na = dynamic_cast<const ProjDataInfoCylindricalNoArcCorr*>(out.get());
  shared_ptr<ExamInfo> ei(new ExamInfo);
  ei->imaging_modality = ImagingModality::PT;
  printf("input TOF bins %d..%d (mash %d), output TOF bins %d..%d (mash %d)\n", in->get_min_tof_pos_num(), in->get_max_tof_pos_num(),
         in->get_tof_mash_factor(), out->get_min_tof_pos_num(), out->get_max_tof_pos_num(), out->get_tof_mash_factor());
  for (int t = -(maxT / 2); t <= maxT / 2; ++t) {
    const DetectionPositionPair<> dp(DetectionPosition<>(0, 0, 0), DetectionPosition<>(4, 0, 0), t);
    Bin bf, bc;
    in_na->get_bin_for_det_pos_pair(bf, dp);
    out_na->get_bin_for_det_pos_pair(bc, dp);
    ProjDataInMemory fine(ei, in), reb(ei, out);
    bf.set_bin_value(1.F);
    fine.set_bin_value(bf);
    SSRB(reb, fine, false);
    int where = 99;
    for (int k = out->get_min_tof_pos_num(); k <= out->get_max_tof_pos_num(); ++k)
      if (reb.get_sinogram(bc.axial_pos_num(), bc.segment_num(), false, k).sum() != 0.F) where = k;
    printf("t=%3d  fine TOF bin %3d   coarse histogram: TOF bin %3d   fine + SSRB: TOF bin %3d%s\n", t, bf.timing_pos_num(), bc.timing_pos_num(), where,
           where == 99 ? " (dropped)" : where != bc.timing_pos_num() ? "   <-- differs" : "");
  }
  return 0;
}
