// C20-kl-inplane: stand-alone reproduction (no part of the check).
// KL(FanProjData, FanProjData, threshold) of stir/ML_norm.h counts every detector pair inside one ring twice
// (both stored orientations (r,a,r,b) and (r,b,r,a)), pairs between different rings once.  It is therefore not
// the Kullback-Leibler distance that iterate_efficiencies descends (every pair once) and, with more than one
// ring, it INCREASES along efficiency iterations although the distance with every pair counted once decreases.
//   g++ -std=gnu++17 -O2 -DNDEBUG -I/repo/src/include -I<build>/src/include C20-repro.cxx <stir libs> ...
// Output on the unchanged tree (16 detectors, 4 rings, all ring differences, fan of 9):
//   it 1 libKL 522.878338  pair-once KL 424.883835
//   it 2 libKL 522.491519  pair-once KL 424.708032
//   it 3 libKL 522.498649 INCREASE pair-once KL 424.683153      (pair-once KL decreases in all 8 iterations)
#include "stir/ML_norm.h"
#include "stir/ProjDataInMemory.h"
#include "stir/ProjDataInfo.h"
#include "stir/Scanner.h"
#include "stir/ExamInfo.h"
#include "stir/IndexRange2D.h"
#include "stir/Verbosity.h"
#include <cstdio>
#include <cmath>
using namespace stir;
int main() {
  Verbosity::set(0);
  shared_ptr<Scanner> sc(new Scanner(Scanner::User_defined_scanner, "tiny", 16, 4, 15, 15, 100.F, 0.F, 4.F, 3.F, 0.F, 1, 1, 2, 4, 2, 4, 1));
  shared_ptr<ProjDataInfo> pdi(ProjDataInfo::construct_proj_data_info(sc, 1, 3, 8, 9, false));
  ProjDataInMemory pd(std::make_shared<ExamInfo>(), pdi);
  pd.fill(1.F);
  FanProjData model;
  make_fan_data_remove_gaps(model, pd);
  const int R = model.get_num_rings(), N = model.get_num_detectors_per_ring();
  FanProjData meas = model;
  unsigned long long s = 12345;
  for (int ra = 0; ra < R; ++ra) for (int a = 0; a < N; ++a)
    for (int rb = std::max(ra, model.get_min_rb(ra)); rb <= model.get_max_rb(ra); ++rb) for (int b = model.get_min_b(a); b <= model.get_max_b(a); ++b) {
      s = s * 6364136223846793005ULL + 1442695040888963407ULL;
      const float v = (float)((s >> 33) % 13) / 4.F;          // symmetric dyadic "counts"
      meas(ra, a, rb, b % N) = v; meas(rb, b % N, ra, a) = v;
    }
  Array<2, float> sums(IndexRange2D(R, N));
  DetectorEfficiencies eff(IndexRange2D(R, N));
  make_fan_sum_data(sums, meas);
  eff.fill(std::sqrt(sums.sum() / model.sum()));
  double prev = 1e30;
  for (int it = 0; it < 8; ++it) {
    FanProjData fit = model;
    apply_efficiencies(fit, eff);
    const double lib = KL(meas, fit, 0.);
    double once = 0;
    for (int ra = 0; ra < R; ++ra) for (int a = 0; a < N; ++a)
      for (int rb = std::max(ra, model.get_min_rb(ra)); rb <= model.get_max_rb(ra); ++rb) for (int b = model.get_min_b(a); b <= model.get_max_b(a); ++b)
        if (ra < rb || a < b % N) once += KL((double)meas(ra, a, rb, b % N), (double)fit(ra, a, rb, b % N), 0.);
    printf("it %d libKL %.6f %s pair-once KL %.6f\n", it, lib, lib > prev + 1e-3 ? "INCREASE" : "", once);
    prev = lib;
    iterate_efficiencies(eff, sums, model);
  }
  return 0;
}
