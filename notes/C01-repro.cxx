// Stand-alone reproduction of the C01 findings against the real libraries (no model involved).
// build: g++ -std=gnu++17 -O1 -g -DNDEBUG [-fsanitize=address] -I/repo/src/include -I<build>/src/include -I/verif/harness/common C01-repro.cxx <registries + libs as in checks/lib.py>
// run:   STIR_CONFIG_DIR=/repo/src/config ./C01-repro [overflow]
#include "vh_stir.h"
#include "stir/ProjDataInfoSubsetByView.h"
#include <iostream>
using namespace stir;
int main(int argc, char** argv) {
  vh::quiet();
  // C01-tofscannereq: two TOF-ready scanners that differ in rings / detectors / radius compare equal
  {
    auto a = vh::make_scanner(8, 2, 5), b = vh::make_scanner(8, 3, 5), c = vh::make_scanner(8, 2, 0), d = vh::make_scanner(8, 3, 0), e = vh::make_scanner(16, 3, 5);
    std::cout << "TOF-ready   (N=8,R=2) == (N=8,R=3): " << (*a == *b) << "   (N=8,R=2) == (N=16,R=3): " << (*a == *e) << "\n";
    std::cout << "non-TOF     (N=8,R=2) == (N=8,R=3): " << (*c == *d) << "\n";
    Scanner mi3(Scanner::DiscoveryMI3ring), mi4(Scanner::DiscoveryMI4ring);
    std::cout << "GE Discovery MI 3 rings == GE Discovery MI 4 rings: " << (mi3 == mi4) << "\n";
  }
  // C01-subsetdup: repeated view accepted
  {
    auto sc = vh::make_scanner(8, 2, 0);
    shared_ptr<ProjDataInfo> pdi(ProjDataInfo::construct_proj_data_info(sc, 1, 1, 4, 7, false, 0));
    std::string msg;
    shared_ptr<ProjDataInfoSubsetByView> sub;
    bool th = vh::threw([&] { sub.reset(new ProjDataInfoSubsetByView(pdi, std::vector<int>{ 1, 2, 1 })); }, &msg);
    std::cout << "subset {1,2,1}: " << (th ? "rejected" : "accepted");
    if (!th) { Bin b(0, 0, 0, 0); Bin o = sub->get_original_bin(b); std::cout << "; subset view 0 -> original view " << o.view_num() << " -> subset view " << sub->get_bin_from_original(o).view_num(); }
    std::cout << "\n";
  }
  // C01-dbinconsistent
  {
    Scanner sc(Scanner::UPENN_5rings);
    std::cout << "UPENN_5rings check_consistency: " << (sc.check_consistency() == Succeeded::yes) << "  (" << sc.get_num_transaxial_blocks() << " blocks x " << sc.get_num_transaxial_crystals_per_block()
              << " crystals vs " << sc.get_num_detectors_per_ring() << " detectors per ring)\n";
  }
  // C01-eventofmash: TOF mashing factor 4 on a scanner with 5 timing positions (accepted: 5/4 = 1 TOF bin)
  {
    auto sc = vh::make_scanner(8, 1, 5);
    shared_ptr<ProjDataInfo> pdi(ProjDataInfo::construct_proj_data_info(sc, 1, 0, 4, 7, false, 4));
    auto* p = dynamic_cast<ProjDataInfoCylindricalNoArcCorr*>(pdi.get());
    std::cout << "TOF mash " << p->get_tof_mash_factor() << ", TOF bins " << p->get_min_tof_pos_num() << ".." << p->get_max_tof_pos_num() << ": unmashed t -> TOF bin:";
    for (int t = -3; t <= 3; ++t) { Bin b; p->get_bin_for_det_pos_pair(b, DetectionPositionPair<>(DetectionPosition<>(0, 0, 0), DetectionPosition<>(4, 0, 0), t)); std::cout << " " << t << "->" << b.timing_pos_num(); }
    Bin b(0, 0, 0, 0, 0);
    std::cout << "\n  get_num_det_pos_pairs_for_bin(TOF bin 0) = " << p->get_num_det_pos_pairs_for_bin(b, false) << " (3 unmashed positions map to it)\n";
    if (argc > 1) { // under ASan: heap-buffer-overflow in get_all_det_pos_pairs_for_bin
      std::vector<DetectionPositionPair<>> dps;
      p->get_all_det_pos_pairs_for_bin(dps, b, false);
      std::cout << "  get_all_det_pos_pairs_for_bin returned " << dps.size() << " pairs\n";
    }
  }
  // C01-truncseg: 4 rings, span 3, max ring difference 2
  {
    auto sc = vh::make_scanner(8, 4, 0);
    shared_ptr<ProjDataInfo> pdi(ProjDataInfo::construct_proj_data_info(sc, 3, 2, 4, 7, false, 0));
    auto* p = dynamic_cast<ProjDataInfoCylindricalNoArcCorr*>(pdi.get());
    std::cout << "span 3, max delta 2, 4 rings: segment 1 = ring differences " << p->get_min_ring_difference(1) << ".." << p->get_max_ring_difference(1) << ", " << p->get_num_axial_poss(1) << " axial positions\n";
    for (int r1 = 0; r1 < 4; ++r1) for (int r2 = 0; r2 < 4; ++r2) if (r2 - r1 == 2) { int s, a; p->get_segment_axial_pos_num_for_ring_pair(s, a, r1, r2); std::cout << "  ring pair (" << r1 << "," << r2 << ") -> segment " << s << ", axial position " << a << "\n"; }
    for (int a = 0; a < p->get_num_axial_poss(1); ++a) { std::cout << "  (segment 1, axial position " << a << ") reports"; for (auto& rp : p->get_all_ring_pairs_for_segment_axial_pos_num(1, a)) std::cout << " (" << rp.first << "," << rp.second << ")"; std::cout << "\n"; }
  }
  return 0;
}
