// Stand-alone reproduction of finding C15-extflip (extend_segment, wrapped views of 180-degree data with an even number of
// tangential positions, tangential extension > 0).
// Segment 0 of a 16-detector scanner: 8 views, tangential positions -2..1, value = 10 * view + (tang + 3).
// extend_segment(segment, 1, 0, ext_t): the added view -1 is view 7 with the tangential positions flipped (s -> -s);
// tangential position -2 has no mirror image (+2 is outside the data), the documentation promises "the values are
// extrapolated by nearest neighbour known values" (i.e. the value at +1).
#include "vh_stir.h"
#include "stir/SegmentBySinogram.h"
#include "stir/extend_projdata.h"
#include <cstdio>
using namespace stir;
int main() {
  vh::quiet();
  shared_ptr<Scanner> sc = vh::make_scanner(16, 1);
  shared_ptr<ProjDataInfo> info(ProjDataInfo::construct_proj_data_info(sc, 1, 0, 8, 4, false));
  SegmentBySinogram<float> seg = info->get_empty_segment_by_sinogram(0);
  for (int v = 0; v < 8; ++v)
    for (int t = seg.get_min_tangential_pos_num(); t <= seg.get_max_tangential_pos_num(); ++t) seg[0][v][t] = 10.F * v + (t + 3);
  for (int ext_t = 0; ext_t <= 1; ++ext_t) {
    Array<3, float> out = extend_segment(seg, 1, 0, ext_t);
    printf("tangential extension %d\n  view 7 (source)  :", ext_t);
    for (int t = -2; t <= 1; ++t) printf("  s=%2d:%3g", t, seg[0][7][t]);
    printf("\n  view -1 (wrapped):");
    for (int t = out[0][-1].get_min_index(); t <= out[0][-1].get_max_index(); ++t) printf("  s=%2d:%3g", t, out[0][-1][t]);
    printf("\n  view 8 (wrapped) :");
    for (int t = out[0][8].get_min_index(); t <= out[0][8].get_max_index(); ++t) printf("  s=%2d:%3g", t, out[0][8][t]);
    printf("   (source view 0:");
    for (int t = -2; t <= 1; ++t) printf(" %g", seg[0][0][t]);
    printf(")\n");
  }
  return 0;
}
