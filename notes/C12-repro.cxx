// Reproduction of the two genuine C12 defects (C12-arcview, C12-arclastbin) against the real libraries.
// Build: g++ -std=gnu++17 -O2 -DNDEBUG -I/repo/src/include -I/verif/.build/stir/src/include -I/usr/include/hdf5/serial -I/verif/harness/common
//        notes/C12-repro.cxx <registry objects + STIR libs as in checks/lib.py build_driver>; run with STIR_CONFIG_DIR=/repo/src/config
#include "vh_stir.h"
#include "stir/ProjDataInfoCylindricalArcCorr.h"
#include "stir/LORCoordinates.h"
#include "stir/ArcCorrection.h"
#include "stir/Sinogram.h"
using namespace stir;
int main(){
  vh::quiet();
  { // (1) arc-corrected get_bin: view = num_views
    shared_ptr<Scanner> sc(new Scanner(Scanner::E962));
    // span 3, view mashing 2 (96 views of 192), arc-corrected, 128 bins
    auto pdi=ProjDataInfo::construct_proj_data_info(sc,3,13,144,128,true,0);
    int bad=0,tot=0; Bin ex, exn;
    for(int tp=pdi->get_min_tangential_pos_num();tp<=pdi->get_max_tangential_pos_num();++tp){
      Bin b(1,0,3,tp,0,1.F);
      LORInAxialAndNoArcCorrSinogramCoordinates<float> lor; pdi->get_LOR(lor,b);
      LORAs2Points<float> pts; lor.get_intersections_with_cylinder(pts,lor.radius());
      Bin nb=pdi->get_bin(pts); ++tot;
      if(nb.get_bin_value()>0 && nb.view_num()>pdi->get_max_view_num()){ if(!bad){ex=b;exn=nb;} ++bad; }
    }
    printf("(1) E962 span 3 mash 2 (144 of 288 views) arc-corrected: num_views=%d; view 0, segment 1: %d of %d two-point lines come back with view_num > max_view_num\n",pdi->get_num_views(),bad,tot);
    if(bad) printf("    e.g. bin(seg %d, ax %d, view %d, tang %d) -> get_bin value %g: (seg %d, ax %d, view %d, tang %d)\n",ex.segment_num(),ex.axial_pos_num(),ex.view_num(),ex.tangential_pos_num(),exn.get_bin_value(),exn.segment_num(),exn.axial_pos_num(),exn.view_num(),exn.tangential_pos_num());
  }
  { // (2) ArcCorrection: last output bin doubled when the output range is inside the input range
    shared_ptr<Scanner> sc(new Scanner(Scanner::E962));
    shared_ptr<const ProjDataInfo> pdi(ProjDataInfo::ProjDataInfoCTI(sc,7,10,96,128,false));
    ArcCorrection ac; ac.set_up(pdi, 65);    // 65 arc-corrected bins of the default size: well inside the 128 input bins
    Sinogram<float> in=ac.get_not_arc_corrected_proj_data_info().get_empty_sinogram(0,0); in.fill(1.F);
    Sinogram<float> out=ac.do_arc_correction(in);
    const int o0=out.get_min_tangential_pos_num(), o1=out.get_max_tangential_pos_num();
    printf("(2) E962, uniform input 1, 65 output bins %d..%d: out[%d]=%g out[%d]=%g out[0]=%g out[%d]=%g out[%d]=%g\n",o0,o1,o0,out[0][o0],o0+1,out[0][o0+1],out[0][0],o1-1,out[0][o1-1],o1,out[0][o1]);
  }
}
