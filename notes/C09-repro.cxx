// Standalone reproduction of the three C09 findings against the real STIR libraries (no framework code).
// Build like any driver (see BUILDING.md), e.g. from python:
//   lib.build_driver("c09_repro", sources=["/verif/notes/C09-repro.cxx"]); run with STIR_CONFIG_DIR=/repo/src/config
// Output on the unchanged tree is quoted in notes/C09.md.
#include "stir/VoxelsOnCartesianGrid.h"
#include "stir/IndexRange3D.h"
#include "stir/recon_buildblock/QuadraticPrior.h"
#include "stir/recon_buildblock/PLSPrior.h"
#include "stir/Verbosity.h"
#include "stir/Succeeded.h"
#include <cstdio>
using namespace stir;
typedef VoxelsOnCartesianGrid<float> Img;
static shared_ptr<Img> mk(int nz, int ny, int nx) {
  return shared_ptr<Img>(new Img(IndexRange3D(0, nz - 1, 0, ny - 1, 0, nx - 1), CartesianCoordinate3D<float>(0, 0, 0), CartesianCoordinate3D<float>(1, 1, 1)));
}
template <class P> static double fd(P& p, Img& x, int z, int y, int xx, float h) {
  float old = x[z][y][xx];
  x[z][y][xx] = old + h; double v1 = p.compute_value(x);
  x[z][y][xx] = old - h; double v2 = p.compute_value(x);
  x[z][y][xx] = old;
  return (v1 - v2) / (2 * h);
}
int main() {
  Verbosity::set(0);
  { // 1. PLS: 1x1x3 image x = (1,2,4), uniform anatomical image, alpha = eta = 1, no kappa
    auto x = mk(1, 1, 3), an = mk(1, 1, 3);
    (*x)[0][0][0] = 1; (*x)[0][0][1] = 2; (*x)[0][0][2] = 4; an->fill(1.F);
    PLSPrior<float> p(false, 1.F);
    p.set_anatomical_image_sptr(an); p.set_up(x);
    shared_ptr<Img> g(x->get_empty_copy());
    p.compute_gradient(*g, *x);
    printf("PLS 1x1x3: value %.6f\n", p.compute_value(*x));
    for (int i = 0; i < 3; ++i) printf("  voxel %d: compute_gradient %.6f   central difference of compute_value %.6f\n", i, (*g)[0][0][i], fd(p, *x, 0, 0, i, 1.F / 64));
  }
  { // 1b. PLS: 3x3x3 image, kappa = 1 except 2 at the centre voxel: gradient at the (interior) centre voxel
    auto x = mk(3, 3, 3), an = mk(3, 3, 3), k = mk(3, 3, 3);
    for (int z = 0; z < 3; ++z) for (int y = 0; y < 3; ++y) for (int xx = 0; xx < 3; ++xx) (*x)[z][y][xx] = 1.F + z + 0.5F * y * y + 0.25F * xx * xx * xx;
    an->fill(1.F); k->fill(1.F);
    PLSPrior<float> p(false, 1.F);
    p.set_anatomical_image_sptr(an); p.set_up(x);
    shared_ptr<Img> g(x->get_empty_copy());
    p.compute_gradient(*g, *x);
    printf("PLS 3x3x3 no kappa, centre voxel: compute_gradient %.6f   central difference %.6f\n", (*g)[1][1][1], fd(p, *x, 1, 1, 1, 1.F / 64));
    (*k)[1][1][1] = 2.F;
    p.set_kappa_sptr(k);
    p.compute_gradient(*g, *x);
    printf("PLS 3x3x3 kappa(centre)=2,  centre voxel: compute_gradient %.6f   central difference %.6f\n", (*g)[1][1][1], fd(p, *x, 1, 1, 1, 1.F / 64));
  }
  { // 2. quadratic prior, 1x1x3 image x = (0,1,3), weights {1 (dx=-1), 0, 3 (dx=+1)}
    auto x = mk(1, 1, 3);
    (*x)[0][0][0] = 0; (*x)[0][0][1] = 1; (*x)[0][0][2] = 3;
    Array<3, float> w(IndexRange3D(0, 0, 0, 0, -1, 1));
    w[0][0][-1] = 1; w[0][0][0] = 0; w[0][0][1] = 3;
    QuadraticPrior<float> p(false, 1.F);
    p.set_weights(w); p.set_up(x);
    shared_ptr<Img> g(x->get_empty_copy()), h(x->get_empty_copy());
    p.compute_gradient(*g, *x);
    printf("Quadratic, asymmetric weights (1,0,3): value %.4f\n", p.compute_value(*x));
    for (int i = 0; i < 3; ++i) printf("  voxel %d: compute_gradient %.4f   central difference of compute_value %.4f\n", i, (*g)[0][0][i], fd(p, *x, 0, 0, i, 1.F));
    for (int i = 0; i < 3; ++i) { p.compute_Hessian(*h, make_coordinate(0, 0, i), *x); printf("  Hessian row %d: %.1f %.1f %.1f\n", i, (*h)[0][0][0], (*h)[0][0][1], (*h)[0][0][2]); }
  }
  { // 3. quadratic prior, 1x1x2 image, weights {1, 5 (centre), 1}
    auto x = mk(1, 1, 2);
    (*x)[0][0][0] = 1; (*x)[0][0][1] = 4;
    Array<3, float> w(IndexRange3D(0, 0, 0, 0, -1, 1));
    w[0][0][-1] = 1; w[0][0][0] = 5; w[0][0][1] = 1;
    QuadraticPrior<float> p(false, 1.F);
    p.set_weights(w); p.set_up(x);
    shared_ptr<Img> g0(x->get_empty_copy()), g1(x->get_empty_copy()), h(x->get_empty_copy());
    p.compute_gradient(*g0, *x);
    (*x)[0][0][0] += 1; p.compute_gradient(*g1, *x); (*x)[0][0][0] -= 1;
    p.compute_Hessian(*h, make_coordinate(0, 0, 0), *x);
    printf("Quadratic, centre weight 5: g_0(x+e_0) - g_0(x) = %.1f   compute_Hessian row 0 entry 0 = %.1f\n", (*g1)[0][0][0] - (*g0)[0][0][0], (*h)[0][0][0]);
  }
  return 0;
}
