#include "vh_stir.h"
#include "stir/scatter/SingleScatterSimulation.h"
#include "stir/VoxelsOnCartesianGrid.h"
#include "stir/IndexRange3D.h"
#include "stir/ProjDataInMemory.h"
#include "stir/ExamInfo.h"
#include "stir/Succeeded.h"
#include <map>
using namespace stir;
static long nev[8];
extern "C" void stir_verif_event(const char* site, long a, long b, long c, long d) {
  std::string s(site);
  (void)a;(void)b;(void)c;(void)d;
}
struct T : SingleScatterSimulation {
  T(){}
  explicit T(const std::string& f):SingleScatterSimulation(f){}

  bool asu() const { return _already_set_up; }
  double pair(unsigned a, unsigned b) { double r; actual_scatter_estimate(r,a,b); return r; }
  size_t ndetpts() const { return detection_points_vector.size(); }
};
typedef VoxelsOnCartesianGrid<float> Img;
static shared_ptr<Img> mkimg(shared_ptr<ExamInfo> ex, int nz,int ny,int nx, float vz,float vy,float vx, vh::Rng& rng, int mode, float scale) {
  shared_ptr<Img> im(new Img(ex, IndexRange3D(0,nz-1,-(ny/2),-(ny/2)+ny-1,-(nx/2),-(nx/2)+nx-1), CartesianCoordinate3D<float>(0,0,0), CartesianCoordinate3D<float>(vz,vy,vx)));
  for (int z=0;z<nz;++z) for(int y=-(ny/2);y<=-(ny/2)+ny-1;++y) for (int x=-(nx/2);x<=-(nx/2)+nx-1;++x) {
    float v = rng.range(0,15)*scale;
    if (mode==1 && (std::abs(x)>nx/3 || std::abs(y)>ny/3)) v=0;
    (*im)[z][y][x]=v; }
  return im;
}
static shared_ptr<ProjDataInfo> mkpdi(int N,int R, float eres, const char* geom="Cylindrical", int tang=-1) {
  auto sc = vh::make_scanner(N,R,0,geom, R==2?8.F:4.F);
  sc->set_reference_energy(511.F); sc->set_energy_resolution(eres); sc->set_up();
  return shared_ptr<ProjDataInfo>(ProjDataInfo::ProjDataInfoCTI(sc,1,R-1,N/2,tang>0?tang:N-1,false));
}
static shared_ptr<ExamInfo> mkexam(float lo,float hi){ shared_ptr<ExamInfo> e(new ExamInfo); e->set_low_energy_thres(lo); e->set_high_energy_thres(hi); e->imaging_modality=ImagingModality::PT; return e; }
static std::vector<double> run(T& s) {
  auto pdi = s.get_template_proj_data_info_sptr();
  shared_ptr<ProjDataInMemory> out(new ProjDataInMemory(s.get_exam_info_sptr(), pdi));
  s.set_output_proj_data_sptr(out);
  std::string m; 
  if (vh::threw([&]{ if (s.set_up()!=Succeeded::yes) printf("set_up no\n"); }, &m)) printf("set_up threw %s\n", m.c_str());
  if (vh::threw([&]{ if (s.process_data()!=Succeeded::yes) printf("process no\n"); }, &m)) printf("process threw %s\n", m.c_str());
  std::vector<double> v; for (auto it=out->begin_all(); it!=out->end_all(); ++it) v.push_back(*it);
  return v;
}
static void cmp(const char* what, const std::vector<double>&a, const std::vector<double>&b){ double mx=0,md=0; if(a.size()!=b.size()){printf("%s: size differs %zu %zu\n",what,a.size(),b.size());return;} for(size_t i=0;i<a.size();++i){mx=std::max(mx,std::fabs(a[i])); md=std::max(md,std::fabs(a[i]-b[i]));} printf("%s: n=%zu max=%g maxdiff=%g rel=%g\n",what,a.size(),mx,md,mx>0?md/mx:0); }

#include "stir/IO/write_to_file.h"
#include "stir/ProjDataInterfile.h"
int main(){
  vh::quiet(); vh::Rng rng(1);
  auto ex1=mkexam(350,650), ex2=mkexam(450,600);
  auto pdi1=mkpdi(16,2,0.2F), pdi2=mkpdi(24,3,0.2F);
  auto act=mkimg(ex1,3,9,9,4,4,4,rng,1,0.125F);
  auto att=mkimg(ex1,3,9,9,4,4,4,rng,1,1.F/128);
  auto sp=mkimg(ex1,2,5,5,8,8,8,rng,0,1.F/128);
  auto conf=[&](T& s, shared_ptr<ProjDataInfo> pdi, shared_ptr<ExamInfo> ex, bool withsp, float thr=0.01F){ s.set_randomly_place_scatter_points(false); s.set_attenuation_threshold(thr);
    s.set_template_proj_data_info(*pdi); s.set_exam_info(*ex); s.set_activity_image_sptr(act); s.set_density_image_sptr(att); if (withsp) s.set_density_image_for_scatter_points_sptr(sp); };
  printf("=== threshold after points sampled\n");
  { T s; conf(s,pdi1,ex1,true,0.01F); auto o1=run(s); printf("np %d\n",s.get_num_scatter_points()); s.set_attenuation_threshold(0.06F); auto o2=run(s); printf("np after thr change+set_up %d\n",s.get_num_scatter_points());
    T f; conf(f,pdi1,ex1,true,0.06F); auto o3=run(f); printf("fresh np %d\n",f.get_num_scatter_points()); cmp("thr hist vs fresh",o2,o3); }
  printf("=== zoom factors after derivation\n");
  { T s; s.set_image_downsample_factors(0.5F,0.5F,-1,2); conf(s,pdi1,ex1,false); auto o1=run(s); printf("np %d\n",s.get_num_scatter_points()); s.set_image_downsample_factors(0.25F,1.0F,-1,3); auto o2=run(s); printf("np after zoom change %d\n",s.get_num_scatter_points());
    T f; f.set_image_downsample_factors(0.25F,1.0F,-1,3); conf(f,pdi1,ex1,false); auto o3=run(f); printf("fresh np %d\n",f.get_num_scatter_points()); cmp("zoom hist vs fresh",o2,o3); }
  printf("=== downsample_images_to_scanner_size\n");
  { T s; s.set_image_downsample_factors(0.5F,0.5F,-1,2); conf(s,pdi1,ex1,false); auto o1=run(s); printf("np %d\n",s.get_num_scatter_points());
    std::string m; if (vh::threw([&]{ s.downsample_images_to_scanner_size(); },&m)) printf("threw %s\n",m.c_str());
    auto& a=dynamic_cast<const Img&>(s.get_activity_image()); printf("act now %d x %d x %d voxel %g %g\n",a.get_z_size(),a.get_y_size(),a.get_x_size(),a.get_voxel_size().z(),a.get_voxel_size().x());
    auto o2=run(s); printf("np after %d asu\n",s.get_num_scatter_points());
    T f; f.set_image_downsample_factors(0.5F,0.5F,-1,2); conf(f,pdi1,ex1,false); f.downsample_images_to_scanner_size(); auto o3=run(f); printf("fresh np %d\n",f.get_num_scatter_points()); cmp("dsimg hist vs fresh",o2,o3);
    T g; conf(g,pdi1,ex1,true); g.downsample_images_to_scanner_size(); auto o4=run(g); printf("explicit sp after dsimg: np %d n=%zu\n",g.get_num_scatter_points(),o4.size()); }
  printf("=== downsample_scanner\n");
  { auto pdi2=mkpdi(24,3,0.2F,"Cylindrical",13); T s; conf(s,pdi2,ex1,true); std::string m; if (vh::threw([&]{ printf("ds rc %d\n", s.downsample_scanner(2,16)==Succeeded::yes); },&m)) printf("threw %s\n",m.c_str());
    auto p=s.get_template_proj_data_info_sptr(); printf("tmpl now N %d R %d rs %g tang %d segs %d\n",p->get_scanner_ptr()->get_num_detectors_per_ring(),p->get_scanner_ptr()->get_num_rings(),p->get_scanner_ptr()->get_ring_spacing(),p->get_num_tangential_poss(),p->get_num_segments());
    if (vh::threw([&]{ if (s.set_up()!=Succeeded::yes) printf("set_up no\n"); if (s.process_data()!=Succeeded::yes) printf("pd no\n"); },&m)) printf("threw %s\n",m.c_str());
    auto out=s.get_output_proj_data_sptr(); std::vector<double> o1; { auto& pm=dynamic_cast<ProjDataInMemory&>(*out); for(auto it=pm.begin_all();it!=pm.end_all();++it)o1.push_back(*it);} printf("out n %zu ndet %zu\n",o1.size(),s.ndetpts());
    T f; conf(f,pdi2,ex1,true); f.downsample_scanner(2,16); f.set_up(); f.process_data(); std::vector<double> o2; { auto& pm=dynamic_cast<ProjDataInMemory&>(*f.get_output_proj_data_sptr()); for(auto it=pm.begin_all();it!=pm.end_all();++it)o2.push_back(*it);} cmp("ds scanner twice",o1,o2);
    // second downsample on the same object
    if (vh::threw([&]{ s.downsample_scanner(2,16); s.set_up(); s.process_data(); },&m)) printf("2nd threw %s\n",m.c_str());
    std::vector<double> o3; { auto& pm=dynamic_cast<ProjDataInMemory&>(*s.get_output_proj_data_sptr()); for(auto it=pm.begin_all();it!=pm.end_all();++it)o3.push_back(*it);} cmp("ds again (idempotent?)",o3,o1);
  }
  printf("=== blocks\n");
  { auto pb=mkpdi(16,2,0.2F,"BlocksOnCylindrical"); T s; std::string m; if (vh::threw([&]{ conf(s,pb,ex1,true); },&m)) printf("conf threw %s\n",m.c_str()); auto o=run(s); double mx=0; for(double v:o) mx=std::max(mx,v); printf("blocks n %zu max %g ndet %zu\n",o.size(),mx,s.ndetpts());
    double md=0; unsigned n=s.ndetpts(); for(unsigned a=0;a<n;++a)for(unsigned b=a+1;b<n;++b){double x=s.pair(a,b),y=s.pair(b,a); if(std::isfinite(x)&&std::isfinite(y)) md=std::max(md,std::fabs(x-y));} printf("sym maxdiff %g\n",md);
    T f; conf(f,pb,ex1,true); f.set_use_cache(false); auto o2=run(f); cmp("blocks cache off",o,o2); }
  printf("=== parse route\n");
  { std::string d="/var/tmp/C16-probe/"; std::string fa=d+"act", ft=d+"att", fs=d+"sp", fp=d+"tmpl";
    write_to_file(fa,*act); write_to_file(ft,*att); write_to_file(fs,*sp);
    { ProjDataInterfile pd(ex2, pdi1->create_shared_clone(), fp, std::ios::out|std::ios::trunc); }
    printf("files %s %s %s\n",fa.c_str(),fs.c_str(),fp.c_str());
    std::ofstream par(d+"s.par"); par<<"PET Single Scatter Simulation Parameters :=\n template projdata filename := "<<d<<"tmpl.hs\n attenuation image filename := "<<ft<<".hv\n attenuation image for scatter points filename := "<<fs<<".hv\n activity image filename := "<<fa<<".hv\n attenuation threshold := 0.01\n randomly place scatter points := 0\n use cache := 1\nend PET Single Scatter Simulation Parameters :=\n"; par.close();
    std::string m; T* s=nullptr; if (vh::threw([&]{ s=new T(d+"s.par"); },&m)) { printf("parse threw %s\n",m.c_str()); return 0; }
    printf("parsed: has tmpl %d exam %d np %d\n",s->has_template_proj_data_info(),s->has_exam_info(),s->get_num_scatter_points());
    auto ei=s->get_exam_info_sptr(); printf("window %g %g eres %g\n",ei->get_low_energy_thres(),ei->get_high_energy_thres(),s->get_template_proj_data_info_sptr()->get_scanner_ptr()->get_energy_resolution());
    auto o1=run(*s); T f; conf(f,pdi1,ex2,true); auto o2=run(f); cmp("parsed vs api",o1,o2);
    std::string info=s->parameter_info(); printf("%s\n",info.c_str());
    std::ofstream p2(d+"s2.par"); p2<<info; p2.close(); T* s2=nullptr; if (vh::threw([&]{ s2=new T(d+"s2.par"); },&m)) { printf("reparse threw %s\n",m.c_str()); return 0; }
    printf("same info: %d\n", s2->parameter_info()==info); auto o3=run(*s2); cmp("reparsed vs parsed",o3,o1); }
  return 0;
}
