// Stand-alone reproduction of the six C10 findings against the real STIR libraries (no TLA+ involved).
// build + run:
//   cd /verif && python3 -c "from checks import lib; print(lib.build_driver('c10_repro', sources=['/verif/notes/C10-repro.cxx']))"
//   STIR_CONFIG_DIR=/repo/src/config /verif/.build/drivers/c10_repro /var/tmp/C10-repro
// Output on the tree without the fixes: see notes/C10.md ("Findings").
#include "stir/VoxelsOnCartesianGrid.h"
#include "stir/DynamicDiscretisedDensity.h"
#include "stir/IO/InterfileOutputFileFormat.h"
#include "stir/IO/InterfileDynamicDiscretisedDensityOutputFileFormat.h"
#include "stir/IO/read_from_file.h"
#include "stir/IndexRange3D.h"
#include "stir/Succeeded.h"
#include "stir/Scanner.h"
#include "stir/Verbosity.h"
#include <cstdio>
#include <fstream>
#include <sstream>
#include <sys/stat.h>
using namespace stir;
typedef VoxelsOnCartesianGrid<float> Vox;
static std::string dir;
static long fsize(const std::string& f) { struct stat st; return stat(f.c_str(), &st) == 0 ? (long)st.st_size : -1; }
static std::string key(const std::string& hv, const std::string& k) {
  std::ifstream s(hv.c_str()); std::string l;
  while (std::getline(s, l)) if (l.find(k) != std::string::npos) return l;
  return "(no '" + k + "' line)";
}
static shared_ptr<Vox> mk(std::vector<float> v, shared_ptr<ExamInfo> ei = shared_ptr<ExamInfo>(), float oz = 0) {
  if (!ei) { ei.reset(new ExamInfo(ImagingModality::PT)); ei->time_frame_definitions.set_num_time_frames(1); ei->time_frame_definitions.set_time_frame(1, 0, 10); }
  shared_ptr<Vox> im(new Vox(ei, IndexRange3D(0, 0, 0, 1, 0, (int)v.size() / 2 - 1), CartesianCoordinate3D<float>(oz, 0, 0), CartesianCoordinate3D<float>(2.5F, 1.25F, 3.F)));
  size_t i = 0; for (auto it = im->begin_all(); it != im->end_all(); ++it) *it = v[i++];
  return im;
}
static void rt(const char* what, const Vox& im, const char* fmt, int bytes, float scale = 0) {
  InterfileOutputFileFormat f(NumericType(fmt, bytes), ByteOrder::little_endian);
  f.set_scale_to_write_data(scale);
  std::string fn = dir + "/r";
  const bool ok = f.write_to_file(fn, im) == Succeeded::yes;
  std::printf("%s [%s, %d bytes, scale_to_write_data=%g]\n  write_to_file: %s, data file %ld bytes (announced %ld), %s\n", what, fmt, bytes, scale, ok ? "success" : "failure",
              fsize(dir + "/r.v"), (long)(im.size_all() * bytes), key(dir + "/r.hv", "image scaling factor").c_str());
  std::printf("  written :"); for (auto it = im.begin_all_const(); it != im.end_all_const(); ++it) std::printf(" %g", *it);
  try {
    unique_ptr<DiscretisedDensity<3, float>> rd = read_from_file<DiscretisedDensity<3, float>>(dir + "/r.hv");
    std::printf("\n  read    :"); for (auto it = rd->begin_all_const(); it != rd->end_all_const(); ++it) std::printf(" %.9g", *it);
    std::printf("\n  origin z written %.9g read %.9g ; rotation read %d\n", im.get_origin().z(), rd->get_origin().z() , (int)rd->get_exam_info().patient_position.get_rotation());
  } catch (...) { std::printf("\n  read_from_file: ERROR\n"); }
}
int main(int argc, char** argv) {
  dir = argc > 1 ? argv[1] : "/var/tmp/C10-repro";
  mkdir(dir.c_str(), 0777);
  Verbosity::set(0);
  if (!freopen("/dev/null", "w", stderr)) return 1;
  rt("1 C10-roundint", *mk({ 1, 2, 3, 1000, 600, 0.5F }), "unsigned integer", 4);
  rt("1 C10-roundint", *mk({ 1, 2, 3, 1000, 600, 0.5F }), "signed integer", 8);
  rt("2 C10-scale-underflow", *mk({ 1, 2, 3, 1000, -5, 0.5F }), "float", 8);
  rt("3 C10-negunsigned", *mk({ -1, -2, -3, -1000, -5, -0.5F }), "unsigned integer", 2);
  { shared_ptr<ExamInfo> ei(new ExamInfo(ImagingModality::PT)); ei->patient_position = PatientPosition(PatientPosition::head_in, PatientPosition::left);
    rt("4 C10-rotation (left = 3 written)", *mk({ 1, 2, 3, 4 }, ei), "float", 4);
    std::printf("  %s\n", key(dir + "/r.hv", "patient rotation").c_str()); }
  rt("5 C10-hdr6digits (origin z = -1234.625 mm, values 0..30000 in 2 bytes)", *mk({ 0.3F, 29999.3F, 12345.3F, 23456.3F, 1.3F, 17.3F }, shared_ptr<ExamInfo>(), -1234.625F), "signed integer", 2);
  {
    shared_ptr<ExamInfo> ei(new ExamInfo(ImagingModality::NM));
    shared_ptr<Vox> tmpl = mk({ 0, 0, 0, 0 }, ei);
    TimeFrameDefinitions tfd(std::vector<std::pair<double, double>>{ { 0, 10 }, { 10, 30 } });
    shared_ptr<Scanner> sc(new Scanner(Scanner::E966));
    DynamicDiscretisedDensity dyn(tfd, 0., sc, tmpl);
    dyn.get_density(1).fill(1.F); dyn.get_density(2).fill(2.F);
    InterfileDynamicDiscretisedDensityOutputFileFormat f;
    std::string fn = dir + "/d";
    f.write_to_file(fn, dyn);
    unique_ptr<DynamicDiscretisedDensity> rd = read_from_file<DynamicDiscretisedDensity>(dir + "/d.hv");
    std::printf("6 C10-nm-offsets: modality NM, frame 1 filled with 1, frame 2 filled with 2; %s\n  read: frame 1 max %g, frame 2 max %g\n", key(dir + "/d.hv", "data offset in bytes[2]").c_str(),
                rd->get_density(1).find_max(), rd->get_density(2).find_max());
    { std::ifstream in((dir + "/d.v").c_str(), std::ios::binary); std::vector<char> c(16); in.read(c.data(), 16); in.close(); std::ofstream o((dir + "/d.v").c_str(), std::ios::binary | std::ios::trunc); o.write(c.data(), 16); }
    try { unique_ptr<DynamicDiscretisedDensity> r2 = read_from_file<DynamicDiscretisedDensity>(dir + "/d.hv"); std::printf("  data file cut to 16 of 32 bytes: %s\n", r2 ? "ACCEPTED" : "null"); }
    catch (...) { std::printf("  data file cut to 16 of 32 bytes: error reported\n"); }
  }
  return 0;
}
