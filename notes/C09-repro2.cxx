// Standalone reproduction of the round-2 C09 findings (ctor2d, staleweights, nocheck, uninitsetup, medianborder)
// against the real STIR libraries, no framework code.  Build like a driver:
//   lib.build_driver("c09_repro2", sources=["/verif/notes/C09-repro2.cxx"]); run with STIR_CONFIG_DIR=/repo/src/config
#include "stir/VoxelsOnCartesianGrid.h"
#include "stir/IndexRange3D.h"
#include "stir/Succeeded.h"
#include "stir/Verbosity.h"
#include "stir/recon_buildblock/QuadraticPrior.h"
#include "stir/recon_buildblock/RelativeDifferencePrior.h"
#include "stir/recon_buildblock/LogcoshPrior.h"
#include "stir/recon_buildblock/PLSPrior.h"
#include "stir/recon_buildblock/FilterRootPrior.h"
#include "stir/MedianImageFilter3D.h"
#include <cstdio>
#include <cstring>
#include <new>
using namespace stir;
typedef VoxelsOnCartesianGrid<float> Img;
typedef DiscretisedDensity<3, float> DD;
static shared_ptr<Img> mk(int nz, int ny, int nx, float sz = 1, float sy = 1, float sx = 1) {
  return shared_ptr<Img>(new Img(IndexRange3D(0, nz - 1, 0, ny - 1, 0, nx - 1), CartesianCoordinate3D<float>(0, 0, 0), CartesianCoordinate3D<float>(sz, sy, sx)));
}
static void ramp(Img& x) { float v = 1; for (auto it = x.begin_all(); it != x.end_all(); ++it) { *it = v; v = v * 1.37F; if (v > 7) v -= 6; } }
template <class F> static const char* outcome(F f) { try { f(); return "no error"; } catch (...) { return "error"; } }
int main() {
  Verbosity::set(0);
  auto x = mk(3, 3, 4);
  ramp(*x);
  { // C09-ctor2d
    RelativeDifferencePrior<float> r(true, 1.F, 2.F, 1.F); r.set_up(x); r.compute_value(*x);
    LogcoshPrior<float> l(true, 1.F, 1.F); l.set_up(x); l.compute_value(*x);
    QuadraticPrior<float> q(true, 1.F); q.set_up(x); q.compute_value(*x);
    printf("ctor only_2D=true: weights z-range  Quadratic [%d,%d]  RDP [%d,%d]  Logcosh [%d,%d]\n", q.get_weights().get_min_index(), q.get_weights().get_max_index(),
           r.get_weights().get_min_index(), r.get_weights().get_max_index(), l.get_weights().get_min_index(), l.get_weights().get_max_index());
    auto z = mk(3, 3, 4), an = mk(3, 3, 4);
    for (int a = 0; a < 3; ++a) for (int b = 0; b < 3; ++b) for (int c = 0; c < 4; ++c) (*z)[a][b][c] = 1.F + a;
    an->fill(1.F);
    PLSPrior<float> p(true, 1.F); p.set_anatomical_image_sptr(an); p.set_up(z);
    printf("PLSPrior(only_2D=true, 1): value of an image varying along z only %.4f (2D: alpha * 36 voxels = 36)\n", p.compute_value(*z));
  }
  { // C09-staleweights
    auto a = mk(3, 3, 4, 1, 1, 1), b = mk(3, 3, 4, 3, 2, 1);
    ramp(*a); ramp(*b);
    QuadraticPrior<float> p(false, 1.F);
    p.set_up(a); const double va = p.compute_value(*a);
    p.set_up(b); const double vb = p.compute_value(*b);
    QuadraticPrior<float> q(false, 1.F);
    q.set_up(b);
    printf("default weights: value on voxel size (1,1,1) %.4f; after set_up for voxel size (3,2,1) %.4f; fresh object on (3,2,1) %.4f\n", va, vb, q.compute_value(*b));
  }
  { // C09-nocheck
    shared_ptr<Img> g(x->get_empty_copy());
    RelativeDifferencePrior<float> r(false, 1.F, 2.F, 1.F);
    LogcoshPrior<float> l(false, 1.F, 1.F);
    printf("before set_up: RDP compute_value: %s, RDP accumulate_Hessian_times_input: %s\n", outcome([&] { r.compute_value(*x); }), outcome([&] { r.accumulate_Hessian_times_input(*g, *x, *x); }));
    printf("before set_up: Logcosh compute_Hessian: %s, compute_value: %s, compute_gradient: %s, accumulate_Hessian_times_input: %s\n",
           outcome([&] { l.compute_Hessian(*g, make_coordinate(0, 0, 0), *x); }), outcome([&] { l.compute_value(*x); }), outcome([&] { l.compute_gradient(*g, *x); }),
           outcome([&] { l.accumulate_Hessian_times_input(*g, *x, *x); }));
  }
  { // C09-uninitsetup
    for (int fill : { 0x00, 0xFF }) {
      void* mem = ::operator new(sizeof(QuadraticPrior<float>));
      std::memset(mem, fill, sizeof(QuadraticPrior<float>));
      QuadraticPrior<float>* q = new (mem) QuadraticPrior<float>(false, 1.F);
      printf("QuadraticPrior(false, 1) constructed in storage filled with 0x%02X, compute_value before set_up: %s\n", fill, outcome([&] { q->compute_value(*x); }));
      q->~QuadraticPrior<float>();
      ::operator delete(mem);
    }
  }
  { // C09-medianborder
    auto y = mk(1, 1, 5);
    y->fill(16.F);
    shared_ptr<DataProcessor<DD>> f(new MedianImageFilter3D<float>(CartesianCoordinate3D<int>(0, 0, 1)));
    shared_ptr<Img> F(y->get_empty_copy()), g(y->get_empty_copy());
    f->apply(*F, *y);
    FilterRootPrior<DD> p(f, 1.F);
    p.set_up(y);
    p.compute_gradient(*g, *y);
    printf("uniform 1x1x5 image of 16, median mask radius x = 1:\n  filtered:");
    for (auto it = F->begin_all(); it != F->end_all(); ++it) printf(" %g", *it);
    printf("\n  Median Root Prior gradient:");
    for (auto it = g->begin_all(); it != g->end_all(); ++it) printf(" %g", *it);
    printf("\n");
  }
  return 0;
}
