// C08 driver: drives the real OSSPSReconstruction (real PoissonLogLikelihoodWithLinearModelForMeanAndProjData,
// real QuadraticPrior, real image IO) on the explicit-matrix toy system and records what it did as ndjson.
// No property formula, no expected value, no comparison here: TLC (Trace_OSSPS.tla) decides.
//
//   c08_ossps exact <out.ndjson> <scratch-dir> <count>          one OSSPS sub-iteration from an EXACT instance each
//                                                               (integers / dyadics: TLC evaluates the law itself)
//   c08_ossps runs  <out.ndjson> <scratch-dir> <count> <stage>  free-running reconstructions of up to 3 full iterations:
//                                                               reference run, resumption from the image saved after
//                                                               EVERY sub-iteration, the same object set up / used again,
//                                                               an object with another history, filters on
//
// The only arithmetic done on the inputs here is the *construction* of exact instances (DESIGN.md C07/C08, C05):
// the columns of P and the data are chosen such that the quotients the implementation forms are exactly
// representable.  TLC recomputes everything from the logged P, y, a, lambda, weights, kappa and rejects the
// instance if it is not exact.
//
// Harness-side seams (nothing of them evaluates anything):
//   RecOSSPS        derived from OSSPSReconstruction: gives access to the parsing-only parameters (relaxation
//                   parameter, relaxation gamma, upper bound) and reports the image before/after update_estimate and
//                   after end_of_iteration_processing (both virtual)
//   DepQuadratic    QuadraticPrior that answers "yes" to parabolic_surrogate_curvature_depends_on_argument(), which
//                   is what switches on OSSPS's "recompute the penalty term in the denominator" path
//   vh::WrapObjective   records every call OSSPS makes to the objective function
#include "vh_explicit_matrix.h"
#include "vh_wrap_objective.h"
#include "stir/OSSPS/OSSPSReconstruction.h"
#include "stir/recon_buildblock/PoissonLogLikelihoodWithLinearModelForMeanAndProjData.h"
#include "stir/recon_buildblock/QuadraticPrior.h"
#include "stir/recon_buildblock/LogcoshPrior.h"
#include "stir/recon_buildblock/RelativeDifferencePrior.h"
#include "stir/recon_buildblock/PriorWithParabolicSurrogate.h"
#include "stir/recon_buildblock/BinNormalisationFromProjData.h"
#include "stir/recon_buildblock/TrivialBinNormalisation.h"
#include "stir/IO/OutputFileFormat.h"
#include "stir/ProjDataInMemory.h"
#include "stir/MedianImageFilter3D.h"
#include "stir/IO/read_from_file.h"
#include "stir/IndexRange3D.h"
#include "stir/Succeeded.h"
#include "stir/NumericInfo.h"
#include <algorithm>
#include <cstring>
#include <csignal>
#include <functional>
#include <set>
#include <sstream>
using namespace stir;

static void on_signal(int sig) {
  if (vh::Trace::current()) { vh::Trace::current()->emit(vh::Json("Abort").num("sig", sig)); vh::Trace::current()->flush(); }
  _exit(0);
}

typedef DiscretisedDensity<3, float> Img;
typedef PoissonLogLikelihoodWithLinearModelForMeanAndProjData<Img> PLL;

// ---------------------------------------------------------------- seams
class DepQuadratic : public QuadraticPrior<float> {
public:
  DepQuadratic(bool only2D, float beta) : QuadraticPrior<float>(only2D, beta) {}
  bool parabolic_surrogate_curvature_depends_on_argument() const override { return true; }
};

class RecOSSPS : public OSSPSReconstruction<Img> {
public:
  // phase 0: before update_estimate, 1: after update_estimate, 2: after end_of_iteration_processing
  std::function<void(int, const Img&)> hook;
  void set_relaxation(float alpha, float gamma) { this->relaxation_parameter = alpha; this->relaxation_gamma = gamma; }
  void set_upper_bound(double u) { this->upper_bound = u; }
  void set_write_update_image(int v) { this->write_update_image = v; }
  void set_enforce_initial_positivity(int v) { this->enforce_initial_positivity = v; }
  void set_precomputed_denominator_filename(const std::string& f) { this->precomputed_denominator_filename = f; }
  std::string update_filename() const { return this->make_filename_prefix_subiteration_num(this->output_filename_prefix + "_update"); }
  void update_estimate(Img& cur) override {
    if (hook) hook(0, cur);
    OSSPSReconstruction<Img>::update_estimate(cur);
    if (hook) hook(1, cur);
  }
protected:
  void end_of_iteration_processing(Img& cur) override {
    OSSPSReconstruction<Img>::end_of_iteration_processing(cur);
    if (hook) hook(2, cur);
  }
};

// ---------------------------------------------------------------- system
struct Sys {
  vh::TinySystem t;
  std::vector<Bin> bins;
  std::vector<std::array<int, 3>> vox;
  int nz, ny, nx;
};
static Sys make_sys() {
  Sys s;
  s.nz = 2; s.ny = 2; s.nx = 3;
  s.t = vh::make_tiny_system(8, 3, 3, 0, s.nz, s.ny, s.nx);
  s.bins = vh::xm_all_bins(*s.t.proj_data_info);
  s.vox = vh::xm_voxels(*s.t.image);
  return s;
}
static int vidx(const Sys& s, int z, int y, int x) {   // 0-based position in xm_voxels order, coordinates 0-based
  return (z * s.ny + y) * s.nx + x;
}

struct Matrix {
  shared_ptr<vh::ExplicitMatrixData> data;
  std::vector<std::vector<std::pair<int, int>>> rows;  // per bin: (voxel 1-based, weight)
  long id = 0;
};
static long next_sys_id = 0;
static void set_matrix(const Sys& s, Matrix& m, const std::vector<std::vector<std::pair<int, int>>>& rows) {
  m.data.reset(new vh::ExplicitMatrixData);
  m.rows = rows;
  m.id = ++next_sys_id;
  for (size_t b = 0; b < s.bins.size(); ++b) {
    std::vector<vh::XmElem> el;
    for (auto& e : rows[b]) el.push_back(vh::XmElem{ s.vox[e.first - 1][0], s.vox[e.first - 1][1], s.vox[e.first - 1][2], (float)e.second });
    m.data->set_row(s.bins[b], el);
  }
}

// ---------------------------------------------------------------- configuration of one reconstruction
struct Cfg {
  long id = 0;
  bool exact = false;
  int N = 1, startSubset = 0;
  bool uss = true;
  int aN = 1, aK = 0, gN = 0, gK = 0;     // alpha = aN / 2^aK, gamma = gN / 2^gK
  bool uInf = true; int uN = 0, uK = 0;   // upper bound uN / 2^uK unless uInf (then the class default)
  bool prior = false, kappa = false, dep = false, defaultWeights = false;
  int beta = 0;                            // penalisation factor (integer)
  std::vector<int> w;                      // 27 weights (dz, dy, dx nested, dx fastest); empty with defaultWeights
  std::vector<int> kap;                    // per voxel, integers
  int filter = 0;                          // 0 none, 1..3 median filters with mask radii (0,0,1), (0,1,1), (1,1,1)
  int filterInt = 0;
  bool post = false;                       // the same filter as post-filter
  bool viaParse = false;                   // relaxation / upper bound given through the parser
  bool additive = true;
  bool enforcePos = false;
  // ---- beyond the property's quantifier (named sections of Trace_OSSPS.tla)
  int priorType = 0;                       // 0 quadratic, 1 log-cosh (has a parabolic surrogate), 2 relative difference (has none: must be refused)
  bool randomise = false;                  // uniformly randomise subset order
  bool writeUpdate = false;                // write update image
  int denFile = 0;                         // precomputed denominator: 0 computed, 1 read from the file a reference run saved, 2 a file of another geometry
  std::string denPath;
  int uShift = 0;                          // upper bound additionally times 2^uShift (efficiency-scaled instances)
};
static const char* prior_types[] = { "quadratic", "logcosh", "rdp" };
static const char* filter_names[] = { "none", "median001", "median011", "median111" };

static shared_ptr<Img> image_from(const Sys& s, const std::vector<float>& v) {
  shared_ptr<Img> im(s.t.image->get_empty_copy());
  size_t i = 0;
  for (auto it = im->begin_all(); it != im->end_all(); ++it, ++i) *it = v[i];
  return im;
}
static shared_ptr<ProjDataInMemory> make_pd(const Sys& s, const std::vector<float>& vals) {
  shared_ptr<ProjDataInMemory> pd(new ProjDataInMemory(s.t.exam_info, s.t.proj_data_info));
  pd->fill(0.F);
  for (size_t b = 0; b < s.bins.size(); ++b) { Bin bin = s.bins[b]; bin.set_bin_value(vals[b]); pd->set_bin_value(bin); }
  return pd;
}

// fixed-point record of an image at scale 2^k (+ whether every element is an exact multiple of 2^-k)
static void put_fx(vh::Json& j, const char* name, const char* exname, const Img& im, int k) {
  std::vector<long long> out;
  bool exact = true;
  for (auto it = im.begin_all_const(); it != im.end_all_const(); ++it) {
    const double sc = std::ldexp((double)*it, k);
    long long q = std::llround(sc);
    if ((double)q != sc) exact = false;
    if (q > 2000000000LL) q = 2000000000LL;
    if (q < -2000000000LL) q = -2000000000LL;
    out.push_back(q);
  }
  j.arr(name, out);
  if (exname) j.boolean(exname, exact);
}
static std::vector<long long> bits_of(const Img& im) {
  std::vector<long long> out;
  for (auto it = im.begin_all_const(); it != im.end_all_const(); ++it) { float f = *it; int32_t u; std::memcpy(&u, &f, 4); out.push_back(u); }
  return out;
}

static shared_ptr<DataProcessor<Img>> make_filter(int kind) {
  // median filters only: their output cannot leave [min, max] of the input (mask radii z, y, x)
  switch (kind) {
  case 1: return shared_ptr<DataProcessor<Img>>(new MedianImageFilter3D<float>(CartesianCoordinate3D<int>(0, 0, 1)));
  case 2: return shared_ptr<DataProcessor<Img>>(new MedianImageFilter3D<float>(CartesianCoordinate3D<int>(0, 1, 1)));
  case 3: return shared_ptr<DataProcessor<Img>>(new MedianImageFilter3D<float>(CartesianCoordinate3D<int>(1, 1, 1)));
  default: return shared_ptr<DataProcessor<Img>>();
  }
}

// ---------------------------------------------------------------- engine: one OSSPS object with its objective function
struct Engine {
  long obj = 0;
  shared_ptr<PLL> inner;
  shared_ptr<vh::WrapObjective> wrap;
  shared_ptr<RecOSSPS> recon;
  shared_ptr<QuadraticPrior<float>> prior;             // quadratic priors (weights / kappa can be set)
  shared_ptr<GeneralisedPrior<Img>> gprior;             // whatever prior is installed
  PriorWithParabolicSurrogate<Img>* surr = nullptr;     // the same object if it has a parabolic surrogate
  std::string prefix;
  // what the callbacks collected during the current sub-iteration
  int nGrad = 0, gradSub = -1, gradNsub = 0, nApprox = 0, nFill = 0;
  shared_ptr<Img> est, grad, lam0, lam1;
};
static long next_obj = 0;

static void configure(Engine& e, const Sys& s, const Cfg& c, const std::string& scratch) {
  // objective function options
  e.inner->set_use_subset_sensitivities(c.uss);
  e.inner->set_recompute_sensitivity(true);
  e.inner->set_zero_seg0_end_planes(false);
  e.inner->set_num_subsets(c.N);
  if (c.prior && c.priorType != 0) {
    e.prior.reset();
    if (c.priorType == 1) {
      shared_ptr<LogcoshPrior<float>> lp(new LogcoshPrior<float>(false, (float)c.beta, 1.F));
      if (c.kappa) { std::vector<float> kf(c.kap.begin(), c.kap.end()); lp->set_kappa_sptr(image_from(s, kf)); }
      e.gprior = lp;
    } else e.gprior.reset(new RelativeDifferencePrior<float>(false, (float)c.beta, 2.F, 0.1F));
    e.surr = dynamic_cast<PriorWithParabolicSurrogate<Img>*>(e.gprior.get());
    e.inner->set_prior_sptr(e.gprior);
  } else if (c.prior) {
    if (c.dep) e.prior.reset(new DepQuadratic(false, (float)c.beta)); else e.prior.reset(new QuadraticPrior<float>(false, (float)c.beta));
    e.gprior = e.prior; e.surr = e.prior.get();
    if (!c.defaultWeights) {
      Array<3, float> w(IndexRange3D(-1, 1, -1, 1, -1, 1));
      int i = 0;
      for (int dz = -1; dz <= 1; ++dz) for (int dy = -1; dy <= 1; ++dy) for (int dx = -1; dx <= 1; ++dx) w[dz][dy][dx] = (float)c.w[i++];
      e.prior->set_weights(w);
    }
    if (c.kappa) {
      std::vector<float> kf(c.kap.begin(), c.kap.end());
      e.prior->set_kappa_sptr(image_from(s, kf));
    }
    e.inner->set_prior_sptr(e.prior);
  } else {
    e.prior.reset(); e.gprior.reset(); e.surr = nullptr;
    e.inner->set_prior_sptr(shared_ptr<GeneralisedPrior<Img>>());
  }
  e.wrap->sync_prior();
  // reconstruction options
  RecOSSPS& r = *e.recon;
  r.set_num_subsets(c.N);
  r.set_start_subset_num(c.startSubset);
  r.set_randomise_subset_order(c.randomise);
  r.set_write_update_image(c.writeUpdate ? 1 : 0);
  r.set_enforce_initial_positivity(c.enforcePos ? 1 : 0);
  r.set_precomputed_denominator_filename(c.denFile ? c.denPath : std::string());
  r.set_save_interval(1);
  r.set_output_filename_prefix(e.prefix);
  r.set_inter_iteration_filter_interval(c.filterInt);
  r.set_inter_iteration_filter_ptr(c.filterInt > 0 ? make_filter(c.filter) : shared_ptr<DataProcessor<Img>>());
  r.set_post_processor_sptr(c.post ? make_filter(c.filter) : shared_ptr<DataProcessor<Img>>());
  const float alpha = std::ldexp((float)c.aN, -c.aK), gamma = std::ldexp((float)c.gN, -c.gK);
  if (c.viaParse) {
    // the documented way: the three parameters are parsing keywords only
    std::ostringstream p;
    p.precision(9);
    p << "OSSPSParameters :=\n";
    p << "relaxation parameter := " << alpha << "\n";
    p << "relaxation gamma := " << gamma << "\n";
    if (!c.uInf) p << "upper bound := " << std::ldexp((double)c.uN, -c.uK) << "\n";
    p << "End :=\n";
    std::istringstream in(p.str());
    if (c.uInf) r.set_upper_bound((double)NumericInfo<float>().max_value());
    r.parse(in);
  } else {
    r.set_relaxation(alpha, gamma);
    r.set_upper_bound(c.uInf ? (double)NumericInfo<float>().max_value() : std::ldexp((double)c.uN, -c.uK + c.uShift));
  }
}

static void make_engine(Engine& e, const Sys& s, const Matrix& m, const std::vector<float>& y, const std::vector<float>& a, bool additive,
                        const std::string& scratch) {
  e.obj = ++next_obj;
  e.prefix = scratch + "/o" + std::to_string(e.obj);
  e.inner.reset(new PLL);
  e.inner->set_proj_data_sptr(make_pd(s, y));
  e.inner->set_projector_pair_sptr(vh::make_explicit_projector_pair(m.data));
  if (additive) e.inner->set_additive_proj_data_sptr(make_pd(s, a));
  Engine* ep = &e;
  vh::ObjCallback cb = [ep](const vh::ObjCall& call) {
    if (call.is("sub_gradient")) {
      if (!call.after) { ++ep->nGrad; ep->gradSub = call.subset_num; ep->gradNsub = call.num_subsets; ep->est.reset(call.estimate->clone()); }
      else ep->grad.reset(call.output->clone());
    } else if (call.is("approx_hessian")) { if (call.after) ++ep->nApprox; }
    else if (call.is("fill_nonidentifiable")) { if (call.after) ++ep->nFill; }
  };
  e.wrap.reset(new vh::WrapObjective(e.inner, cb));
  e.recon.reset(new RecOSSPS);
  e.recon->set_objective_function_sptr(e.wrap);
}

static void emit_config(vh::Trace& tr, const Sys& s, const Cfg& c, const Matrix& m) {
  vh::Json j("Config");
  j.num("id", c.id).num("sys", m.id).boolean("exact", c.exact).num("N", c.N).num("startSubset", c.startSubset).boolean("uss", c.uss)
      .num("aN", c.aN).num("aK", c.aK).num("gN", c.gN).num("gK", c.gK).boolean("uInf", c.uInf).num("uN", c.uN).num("uK", c.uK)
      .boolean("prior", c.prior).boolean("kappa", c.kappa).boolean("dep", c.dep).boolean("defaultWeights", c.defaultWeights).num("beta", c.beta)
      .arr("w", c.w).arr("kap", c.kap).arr("dims", std::vector<int>{ s.nz, s.ny, s.nx })
      .str("filter", filter_names[c.filter]).num("filterInt", c.filterInt).boolean("post", c.post).boolean("viaParse", c.viaParse)
      .boolean("additive", c.additive).boolean("enforcePos", c.enforcePos)
      .str("priorType", prior_types[c.priorType]).boolean("randomise", c.randomise).boolean("writeUpdate", c.writeUpdate)
      .str("denFile", c.denFile == 0 ? "none" : c.denFile == 1 ? "own" : "wrong").num("uShift", c.uShift);
  tr.emit(j);
}

// scales of the fixed-point records
struct Scales { int kl, kg, kd; };

// kind "nosetup": reconstruct is called WITHOUT a set_up before it (documented as illegal); no SetUp line is written then
static bool g_skip_setup = false;
// one set_up + reconstruct of sub-iterations start..last on engine e from image init; kind as documented in Trace_OSSPS.tla
static bool run_once(vh::Trace& tr, const Sys& s, Engine& e, const Cfg& c, const std::string& kind, int from, int start, int last, const Img& init,
                     const Scales& sc, bool twice_setup, bool ref) {
  RecOSSPS& r = *e.recon;
  shared_ptr<Img> target(init.clone());
  {
    vh::Json j("Run");
    j.str("kind", kind).num("cfg", c.id).num("obj", e.obj).num("from", from).num("start", start).num("last", last).boolean("ref", ref).boolean("twice", twice_setup)
        .num("kl", sc.kl);
    put_fx(j, "init", "exi", *target, sc.kl);
    j.arr("initBits", bits_of(*target));
    tr.emit(j);
  }
  r.set_start_subiteration_num(start);
  r.set_num_subiterations(last);
  // ---- set_up
  e.nApprox = 0;
  std::string msg;
  bool ok = false;
  r.hook = nullptr;
  bool err = false;
  if (!g_skip_setup) {
  err = vh::threw([&] {
    ok = r.set_up(target) == Succeeded::yes;
    if (ok && twice_setup) ok = r.set_up(target) == Succeeded::yes;
  }, &msg);
  {
    vh::Json j("SetUp");
    j.boolean("err", err).boolean("ok", ok).num("nApprox", e.nApprox).num("usedN", r.get_num_subsets());
    if (err) j.str("msg", msg.substr(0, 160));
    if (!err && ok) {
      // the data part of the denominator as OSSPS saved it (real file, read back with the real reader)
      shared_ptr<Img> dd;
      std::string m2;
      const bool rerr = vh::threw([&] { dd = read_from_file<Img>(c.denFile ? c.denPath : e.prefix + "_precomputed_denominator.hv"); }, &m2);
      j.boolean("dRead", !rerr).num("kd", sc.kd);
      if (!rerr) put_fx(j, "dData", "exd", *dd, sc.kd);
      // the prior's surrogate curvature as the real prior reports it (for the image the run starts from)
      if (c.prior && e.surr) {
        shared_ptr<Img> cv(target->get_empty_copy());
        const bool cerr = vh::threw([&] { e.surr->parabolic_surrogate_curvature(*cv, *target); });
        j.boolean("cErr", cerr);
        put_fx(j, "curv", "exc", *cv, sc.kd);
      }
      put_fx(j, "tgt", nullptr, *target, sc.kl);   // set_up may change the image (enforce initial positivity)
      j.arr("tgtBits", bits_of(*target));
    }
    tr.emit(j);
  }
  if (err || !ok) return false;
  }
  // ---- reconstruct
  int steps = 0;
  r.hook = [&](int phase, const Img& cur) {
    if (phase == 0) { e.nGrad = 0; e.nFill = 0; e.gradSub = -1; e.gradNsub = 0; e.est.reset(); e.grad.reset(); e.lam0.reset(cur.clone()); }
    else if (phase == 1) e.lam1.reset(cur.clone());
    else {
      vh::Json j("Step");
      j.num("k", r.get_subiteration_num()).num("sub", e.gradSub).num("nsub", e.gradNsub).num("nGrad", e.nGrad).num("nFill", e.nFill)
          .num("kl", sc.kl).num("kg", sc.kg);
      put_fx(j, "lam0", "ex0", *e.lam0, sc.kl);
      j.arr("b0", bits_of(*e.lam0));
      if (e.est) { put_fx(j, "est", "exe", *e.est, sc.kl); j.arr("be", bits_of(*e.est)); }
      if (e.grad) put_fx(j, "g", "exg", *e.grad, sc.kg);
      put_fx(j, "lam1", "ex1", *e.lam1, sc.kl);
      j.arr("b1", bits_of(*e.lam1));
      put_fx(j, "lam2", "ex2", cur, sc.kl);
      j.arr("b2", bits_of(cur));
      if (c.writeUpdate) {   // the update image OSSPS wrote for this sub-iteration, read back with the real reader
        shared_ptr<Img> up;
        const bool uerr = vh::threw([&] { up = read_from_file<Img>(r.update_filename() + ".hv"); });
        j.boolean("updRead", !uerr);
        if (!uerr) put_fx(j, "upd", "exu", *up, sc.kl);
      }
      if (c.prior && c.priorType == 1 && e.surr && e.est) {   // log-cosh: the surrogate curvature at the image of THIS sub-iteration
        shared_ptr<Img> cv(cur.get_empty_copy());
        vh::threw([&] { e.surr->parabolic_surrogate_curvature(*cv, *e.est); });
        put_fx(j, "curvNow", nullptr, *cv, sc.kd);
      }
      tr.emit(j);
      ++steps;
    }
  };
  Succeeded res = Succeeded::no;
  err = vh::threw([&] { res = r.reconstruct(target); }, &msg);
  r.hook = nullptr;
  {
    vh::Json j("RunEnd");
    j.boolean("err", err).boolean("ok", res == Succeeded::yes).num("steps", steps).arr("finalBits", bits_of(*target));
    if (err) j.str("msg", msg.substr(0, 160));
    tr.emit(j);
  }
  return !err;
}

// the image OSSPS saved after sub-iteration k, read back with the real reader
static shared_ptr<Img> read_saved(vh::Trace& tr, const Engine& e, const Cfg& c, int k) {
  shared_ptr<Img> im;
  std::string msg;
  const bool err = vh::threw([&] { im = read_from_file<Img>(e.prefix + "_" + std::to_string(k) + ".hv"); }, &msg);
  vh::Json j("Saved");
  j.num("cfg", c.id).num("obj", e.obj).num("k", k).boolean("err", err);
  if (!err) j.arr("bits", bits_of(*im));
  tr.emit(j);
  return err ? shared_ptr<Img>() : im;
}

static void remove_outputs(const Engine& e, int last) {
  for (int k = 0; k <= last + 1; ++k)
    for (const char* ext : { ".hv", ".v", ".ahv" }) std::remove((e.prefix + "_" + std::to_string(k) + ext).c_str());
  for (const char* ext : { ".hv", ".v", ".ahv" }) std::remove((e.prefix + "_precomputed_denominator" + ext).c_str());
  for (int k = 0; k <= last + 1; ++k)
    for (const char* ext : { ".hv", ".v", ".ahv" }) std::remove((e.prefix + "_update_" + std::to_string(k) + ext).c_str());
}

// ---------------------------------------------------------------- prior ingredients
static std::vector<int> random_weights(vh::Rng& rng, bool rich) {
  std::vector<int> w(27, 0);
  auto at = [&](int dz, int dy, int dx) -> int& { return w[((dz + 1) * 3 + (dy + 1)) * 3 + (dx + 1)]; };
  auto sym = [&](int dz, int dy, int dx, int v) { at(dz, dy, dx) = v; at(-dz, -dy, -dx) = v; };
  sym(0, 0, 1, rng.range(1, 2));
  sym(0, 1, 0, rng.range(0, 1));
  sym(1, 0, 0, rng.range(0, 1));
  if (rich) { sym(0, 1, 1, rng.range(0, 1)); sym(1, 0, -1, rng.range(0, 1)); }
  return w;
}
// sum over the neighbours inside the image of w * kappa * kappa (used for the CONSTRUCTION of exact instances only)
static int weight_sum(const Sys& s, const Cfg& c, int z, int y, int x) {
  int sum = 0;
  for (int dz = -1; dz <= 1; ++dz) for (int dy = -1; dy <= 1; ++dy) for (int dx = -1; dx <= 1; ++dx) {
    const int zz = z + dz, yy = y + dy, xx = x + dx;
    if (zz < 0 || zz >= s.nz || yy < 0 || yy >= s.ny || xx < 0 || xx >= s.nx) continue;
    const int w = c.w[((dz + 1) * 3 + (dy + 1)) * 3 + (dx + 1)];
    const int kk = c.kappa ? c.kap[vidx(s, z, y, x)] * c.kap[vidx(s, zz, yy, xx)] : 1;
    sum += w * kk;
  }
  return sum;
}

// ---------------------------------------------------------------- mode exact
// data of an exact instance: y in quarter units (yq = 4 y), a and lambda integers
struct ExactData { std::vector<int> lam, yq, a; };

static bool pick_relaxation(vh::Rng& rng, Cfg& c, int n) {
  static const int alphas[][2] = { { 1, 0 }, { 1, 1 }, { 2, 0 }, { 3, 1 }, { 3, 2 }, { 3, 0 }, { 1, 2 }, { 5, 2 } };
  static const int gammas[][2] = { { 0, 0 }, { 1, 0 }, { 3, 0 }, { 1, 1 }, { 2, 0 }, { 1, 2 }, { 4, 0 }, { 7, 0 } };
  for (int tries = 0; tries < 200; ++tries) {
    const int* al = alphas[rng.range(0, 7)];
    const int* ga = gammas[rng.range(0, 7)];
    long den = (1L << ga[1]) + (long)ga[0] * n;   // (1 + gamma n) 2^gK
    while (den % 2 == 0) den /= 2;
    if (al[0] % den != 0) continue;              // alpha / (1 + gamma n) is then a dyadic rational
    c.aN = al[0]; c.aK = al[1]; c.gN = ga[0]; c.gK = ga[1];
    return true;
  }
  c.aN = 1; c.aK = 0; c.gN = 0; c.gK = 0;
  return true;
}

// returns false (nothing emitted) when the random construction did not come out: the caller draws again
static bool exact_instance(vh::Trace& tr, const Sys& s, vh::Rng& rng, long i, const std::string& scratch) {
  const int nv = (int)s.vox.size(), nb = (int)s.bins.size();
  Cfg c;
  c.id = i + 1;
  c.exact = true;
  c.N = rng.range(1, 4);
  c.startSubset = rng.range(0, c.N - 1);
  c.uss = c.N == 3 ? true : rng.coin();
  const int pk = rng.range(0, 4);   // 0 none, 1 quadratic, 2 quadratic + kappa, 3 curvature "depends on argument", 4 the same + kappa
  c.prior = pk != 0; c.kappa = pk == 2 || pk == 4; c.dep = pk >= 3;
  c.beta = c.prior ? (c.N == 3 ? 3 : rng.range(1, 2)) : 0;
  // weights / kappa: redrawn until the penalty part of every denominator stays below 126 (denominators are powers of two <= 128,
  // which keeps every intermediate of the update within the 24 bits of a float)
  for (int tries = 0; c.prior; ++tries) {
    c.w = random_weights(rng, tries < 20 && rng.coin());
    c.kap.clear();
    if (c.kappa) for (int v = 0; v < nv; ++v) c.kap.push_back(tries < 40 ? rng.range(1, 2) : 1);
    int worst = 0;
    for (int v = 0; v < nv; ++v) worst = std::max(worst, 2 * c.beta * weight_sum(s, c, s.vox[v][0], s.vox[v][1] + s.ny / 2, s.vox[v][2] + s.nx / 2));
    if (worst <= 126) break;
  }
  const int scaling = c.prior ? 0 : rng.range(0, 2);   // afterwards: 0 nothing, 1 a data-scaled copy, 2 an efficiency-scaled copy
  // the sub-iteration performed; the first one of a fresh start (where "voxels that cannot be estimated" are set to 0) more often,
  // in particular for the efficiency-scaled copies (tiny sensitivities)
  const int k = (scaling == 2 ? rng.coin() : rng.range(0, 3) == 0) ? 1 : rng.range(1, 3 * c.N + (rng.range(0, 3) == 0 ? 4 * c.N : 0));
  pick_relaxation(rng, c, k / c.N);
  static const int ubs[][2] = { { 4, 0 }, { 5, 1 }, { 3, 0 }, { 1, 0 }, { 8, 0 }, { 13, 2 }, { 0, 0 } };
  c.uInf = rng.range(0, 2) == 0;
  if (!c.uInf) { const int* u = ubs[rng.range(0, 6)]; c.uN = u[0]; c.uK = u[1]; }
  c.viaParse = rng.range(0, 2) == 0;
  c.writeUpdate = rng.range(0, 2) == 0;
  // without additive term the mean of a bin is (P lambda)_b itself: every bin then sees voxels of ONE class only, all
  // voxels of a class have the same value 2^class, so that (P lambda)_b = 2^class (P 1)_b
  c.additive = rng.range(0, 3) != 0;
  // a voxel no bin sees: without prior the denominator is 0 there (thresholded; gradient 0); with a prior the denominator is
  // the penalty part alone, which must then be a power of two itself (decided below)
  const bool emptyColumn = rng.range(0, 4) == 0;

  // ---- denominator targets: D_v = 2^kv = dData_v + 2 beta s_v with dData_v > 0
  std::vector<int> dData(nv);
  int skip = -1;
  if (emptyColumn) {
    std::vector<int> cand;
    for (int v = 0; v < nv; ++v) {
      const int pc = c.prior ? 2 * c.beta * weight_sum(s, c, s.vox[v][0], s.vox[v][1] + s.ny / 2, s.vox[v][2] + s.nx / 2) : 0;
      if (!c.prior || (pc >= 2 && (pc & (pc - 1)) == 0)) cand.push_back(v);
    }
    if (!cand.empty()) skip = cand[rng.next() % cand.size()];
  }
  for (int v = 0; v < nv; ++v) {
    const int pc = c.prior ? 2 * c.beta * weight_sum(s, c, s.vox[v][0], s.vox[v][1] + s.ny / 2, s.vox[v][2] + s.nx / 2) : 0;
    if (v == skip) { dData[v] = 0; continue; }
    int p2 = 4;
    while (p2 < pc + 2) p2 *= 2;
    if (p2 <= 64 && rng.range(0, 2) == 0) p2 *= 2;
    dData[v] = p2 - pc;
  }
  // ---- per bin: c_b = 2^ce (y_b = c_b (P 1)_b), weight of a matrix element in the column sums 2^(3 - ce)
  const int lmax = rng.coin() ? 2 : 4, jmin = lmax == 2 ? 1 : 2;
  std::vector<int> ce(nb), jb(nb), cls_b(nb, -1), cls_v(nv, -1);
  if (!c.additive) for (int v = 0; v < nv; ++v) cls_v[v] = rng.range(0, 2);
  for (int b = 0; b < nb; ++b) {
    if (c.additive) {
      ce[b] = rng.range(0, 3);
      const int jlo = jmin, jhi = std::min(3, ce[b] + 2);
      jb[b] = rng.range(jlo, std::max(jlo, jhi));
      if (ce[b] - jb[b] < -2) ce[b] = jb[b] - 2;
    } else {
      cls_b[b] = rng.range(0, 2);
      jb[b] = cls_b[b];
      ce[b] = rng.range(std::max(0, jb[b] - 2), 3);
    }
  }
  // ---- columns of P: sum_b P_bv 2^(3 - ce_b) = 8 dData_v
  std::vector<std::vector<std::pair<int, int>>> rows(nb);
  for (int v = 0; v < nv; ++v) {
    if (v == skip) continue;
    long remaining = 8L * dData[v];
    std::vector<int> order(nb);
    for (int b = 0; b < nb; ++b) order[b] = b;
    for (int b = nb - 1; b > 0; --b) std::swap(order[b], order[rng.next() % (b + 1)]);
    const int pmax = std::max(3, (int)(remaining / (c.additive ? 120 : 40)) + 1);
    std::vector<std::pair<int, int>> col;   // (bin, weight)
    if (!c.additive) order.erase(std::remove_if(order.begin(), order.end(), [&](int b) { return cls_b[b] != cls_v[v]; }), order.end());
    for (int b : order) {
      if (remaining == 0) break;
      const long om = 1L << (3 - ce[b]);
      if (om > remaining) continue;
      long p = rng.range(1, pmax);
      if (p * om > remaining) p = remaining / om;
      col.push_back({ b, (int)p });
      remaining -= p * om;
    }
    // whatever is left goes onto an element whose unit divides it
    for (auto& e : col) {
      if (remaining == 0) break;
      const long om = 1L << (3 - ce[e.first]);
      if (remaining % om == 0) { e.second += (int)(remaining / om); remaining = 0; }
    }
    if (remaining != 0) {   // no suitable element: a new one on a bin whose unit is 1 (c_b = 8)
      for (int b : order) {
        if (ce[b] != 3) continue;
        bool used = false;
        for (auto& e : col) if (e.first == b) used = true;
        if (used) continue;
        col.push_back({ b, (int)remaining });
        remaining = 0;
        break;
      }
    }
    if (remaining != 0) return false;
    for (auto& e : col) rows[e.first].push_back({ v + 1, e.second });
  }
  Matrix m;
  set_matrix(s, m, rows);
  // ---- image and data
  ExactData d;
  for (int v = 0; v < nv; ++v) d.lam.push_back(c.additive ? rng.range(0, lmax) : (1 << cls_v[v]));
  // without a prior a voxel no bin sees is 0 in every iterate after the first update: the only value a run that starts at a
  // later sub-iteration can meet there (with a prior the penalty moves it: any value)
  if (skip >= 0 && !c.prior && k > 1) d.lam[skip] = 0;
  std::vector<float> yf(nb), af(nb);
  for (int b = 0; b < nb; ++b) {
    int p1 = 0, pl = 0;
    for (auto& e : rows[b]) { p1 += e.second; pl += e.second * d.lam[e.first - 1]; }
    if (p1 == 0) { d.a.push_back(c.additive ? rng.range(1, 4) : 0); d.yq.push_back(0); }
    else {
      const int db = p1 << jb[b];                       // d_b = (P lambda)_b + a_b
      d.a.push_back(db - pl);
      // y_b = c_b (P 1)_b = 2^(ce - jb) d_b, in quarter units
      const int e2 = ce[b] - jb[b] + 2;                 // >= 0
      d.yq.push_back(db << e2);
    }
    yf[b] = d.yq[b] / 4.F;
    af[b] = (float)d.a[b];
  }
  tr.emit(vh::xm_system_json(m.id, s.t, *m.data));
  emit_config(tr, s, c, m);
  tr.emit(vh::Json("Data").num("cfg", c.id).arr("yq", d.yq).arr("a", d.a));
  Engine e;
  make_engine(e, s, m, yf, af, c.additive, scratch);
  std::string msg;
  const bool cerr = vh::threw([&] { configure(e, s, c, scratch); }, &msg);
  if (cerr) { tr.emit(vh::Json("ConfigureError").num("cfg", c.id).str("msg", msg.substr(0, 160))); return true; }
  std::vector<float> lf(d.lam.begin(), d.lam.end());
  const Scales sc{ 18, 4, 10 };
  run_once(tr, s, e, c, "single", k - 1, k, k, *image_from(s, lf), sc, rng.range(0, 4) == 0, false);
  // every fourth object is set up and used once more (OSSPS modified its precomputed denominator): same exact step again
  if (rng.range(0, 3) == 0) run_once(tr, s, e, c, "single", k - 1, k, k, *image_from(s, lf), sc, false, false);
  remove_outputs(e, k);
  // scale clause (no prior): data, additive term, image and upper bound times 2^j - the same sub-iteration on a fresh object
  if (scaling == 1) {
    const int j = rng.range(1, 2);
    Cfg c2 = c;
    c2.id = c.id + 1000000;
    if (!c2.uInf) c2.uN <<= j;
    ExactData d2 = d;
    std::vector<float> yf2(nb), af2(nb), lf2(nv);
    for (int b = 0; b < nb; ++b) { d2.yq[b] <<= j; d2.a[b] <<= j; yf2[b] = d2.yq[b] / 4.F; af2[b] = (float)d2.a[b]; }
    for (int v = 0; v < nv; ++v) lf2[v] = (float)(d.lam[v] << j);
    tr.emit(vh::Json("ScaleOf").num("cfg", c.id).num("by", j).str("mode", "data"));
    emit_config(tr, s, c2, m);
    tr.emit(vh::Json("Data").num("cfg", c2.id).arr("yq", d2.yq).arr("a", d2.a));
    Engine e2;
    make_engine(e2, s, m, yf2, af2, c.additive, scratch);
    if (!vh::threw([&] { configure(e2, s, c2, scratch); }, &msg)) run_once(tr, s, e2, c2, "single", k - 1, k, k, *image_from(s, lf2), sc, false, false);
    remove_outputs(e2, k);
  }
  // efficiency scale clause (no prior): bin efficiencies times 2^-j (normalisation factors 2^j), image, additive term and upper
  // bound times 2^j, data unchanged - the mean of the data is unchanged, the same sub-iteration on a fresh object
  if (scaling == 2) {
    // j >= -6: the quotient clamp of divide_and_truncate (10^4) is applied to y/(P lambda + a) and (P 1)/(y norm^2), i.e. WITHOUT
    // the efficiencies, so it is not invariant: with y/(P lambda + a) <= 4 and (P 1)/y <= 1 on these instances the scaled
    // quotients 4 * 2^-j and 2^-2j stay below it for j >= -6 (the threshold-free domain named in OSSPS.tla)
    static const int js[] = { 1, -1, 2, -3, -5, -6, 10, 20, 25, 30, 35, 40, 28, 32, 38, 40 };
    const int j = js[rng.range(0, 15)];
    Cfg c2 = c;
    c2.id = c.id + 2000000;
    c2.uShift = j;
    c2.viaParse = false;       // (a decimal rendering of U 2^40 would not be exact)
    c2.writeUpdate = false;
    std::vector<float> af2(nb), lf2(nv), nf(nb, std::ldexp(1.F, j));
    for (int b = 0; b < nb; ++b) af2[b] = std::ldexp((float)d.a[b], j);
    for (int v = 0; v < nv; ++v) lf2[v] = std::ldexp((float)d.lam[v], j);
    tr.emit(vh::Json("ScaleOf").num("cfg", c.id).num("by", j).str("mode", "eff"));
    emit_config(tr, s, c2, m);
    tr.emit(vh::Json("Data").num("cfg", c2.id).arr("yq", d.yq).arr("a", d.a).num("aShift", j).num("effShift", -j));
    Engine e2;
    make_engine(e2, s, m, yf, af2, c.additive, scratch);
    e2.inner->set_normalisation_sptr(shared_ptr<BinNormalisation>(new BinNormalisationFromProjData(make_pd(s, nf))));
    if (!vh::threw([&] { configure(e2, s, c2, scratch); }, &msg)) run_once(tr, s, e2, c2, "scaled", k - 1, k, k, *image_from(s, lf2), sc, false, false);
    remove_outputs(e2, k);
  }
  return true;
}

// ---------------------------------------------------------------- mode runs
static Matrix random_matrix(const Sys& s, vh::Rng& rng, bool emptyColumn) {
  const int nv = (int)s.vox.size(), nb = (int)s.bins.size();
  std::vector<std::vector<std::pair<int, int>>> rows(nb);
  const int skip = emptyColumn ? rng.range(1, nv) : -1;
  for (int b = 0; b < nb; ++b) {
    int n = rng.range(1, 3);
    if (rng.range(0, 9) == 0) n = 0;
    std::set<int> used;
    for (int i = 0; i < n; ++i) {
      const int v = rng.range(1, nv);
      if (v == skip || used.count(v)) continue;
      used.insert(v);
      rows[b].push_back({ v, rng.range(1, 3) });
    }
  }
  Matrix m;
  set_matrix(s, m, rows);
  return m;
}

static Cfg random_cfg(const Sys& s, vh::Rng& rng, long id, int N, int priorKind, int filterMode) {
  const int nv = (int)s.vox.size();
  Cfg c;
  c.id = id;
  c.exact = false;
  c.N = N;
  c.startSubset = rng.range(0, N - 1);
  c.uss = N == 3 ? true : rng.coin();
  c.prior = priorKind != 0; c.kappa = priorKind == 2 || priorKind == 4; c.dep = priorKind >= 3;
  if (c.prior) {
    c.beta = rng.range(1, 3);
    c.defaultWeights = rng.range(0, 2) == 0;
    if (!c.defaultWeights) c.w = random_weights(rng, true);
    if (c.kappa) for (int v = 0; v < nv; ++v) c.kap.push_back(rng.range(1, 3));
  }
  static const int alphas[][2] = { { 1, 0 }, { 3, 2 }, { 1, 1 }, { 5, 2 }, { 3, 1 } };
  static const int gammas[][2] = { { 1, 3 }, { 0, 0 }, { 1, 1 }, { 1, 0 }, { 3, 2 } };
  const int* al = alphas[rng.range(0, 4)];
  const int* ga = gammas[rng.range(0, 4)];
  c.aN = al[0]; c.aK = al[1]; c.gN = ga[0]; c.gK = ga[1];
  static const int ubs[][2] = { { 8, 0 }, { 5, 1 }, { 16, 0 }, { 3, 0 }, { 25, 2 } };
  c.uInf = rng.range(0, 3) == 0;
  if (!c.uInf) { const int* u = ubs[rng.range(0, 4)]; c.uN = u[0]; c.uK = u[1]; }
  c.viaParse = rng.range(0, 2) == 0;
  c.additive = rng.range(0, 3) != 0;
  c.writeUpdate = rng.range(0, 2) == 0;
  if (filterMode) {
    c.filter = rng.range(1, 3);
    c.filterInt = rng.range(1, 2);
    c.post = rng.coin();
    if (c.uInf) { c.uInf = false; c.uN = 8; c.uK = 0; }
  }
  return c;
}

// dyadic pseudo-random float in [lo, hi] with 1/64 resolution
static float rnd(vh::Rng& rng, int lo64, int hi64) { return rng.range(lo64, hi64) / 64.F; }

static void runs_group(vh::Trace& tr, const Sys& s, vh::Rng& rng, long& cfgid, int N, int priorKind, int stage, const std::string& scratch) {
  const int nv = (int)s.vox.size(), nb = (int)s.bins.size();
  // a voxel no bin sees (zero sensitivity): without a prior it just stays 0; WITH a prior the penalty moves it, which is
  // what makes "set voxels that cannot be estimated to 0" visible when a run is resumed
  const bool emptyColumn = priorKind == 0 ? rng.range(0, 3) == 0 : rng.range(0, 2) != 0;
  Matrix m = random_matrix(s, rng, emptyColumn);
  tr.emit(vh::xm_system_json(m.id, s.t, *m.data));
  // data: a noisy version of the projection of a random image (no structure needed: nothing here is compared by the driver)
  std::vector<float> truth(nv), y(nb), a(nb), init(nv);
  for (int v = 0; v < nv; ++v) truth[v] = rnd(rng, 16, 256);
  for (int b = 0; b < nb; ++b) {
    float pl = 0;
    for (auto& e : m.rows[b]) pl += e.second * truth[e.first - 1];
    a[b] = rnd(rng, 16, 128);
    y[b] = m.rows[b].empty() ? 0.F : std::max(0.25F, pl * rnd(rng, 40, 96) + rnd(rng, 0, 64));
  }
  Cfg c = random_cfg(s, rng, ++cfgid, N, priorKind, 0);
  for (int v = 0; v < nv; ++v) init[v] = c.uInf ? rnd(rng, 8, 256) : std::min(rnd(rng, 8, 256), std::ldexp((float)c.uN, -c.uK));
  if (c.additive && rng.range(0, 4) == 0) init[rng.range(0, nv - 1)] = 0.F;
  const Scales sc{ 12, 8, 8 };
  const int K = 3 * N;
  shared_ptr<Img> init_im = image_from(s, init);

  // ---- reference run (fresh object) + the images it saved
  emit_config(tr, s, c, m);
  Engine ref;
  make_engine(ref, s, m, y, a, c.additive, scratch);
  std::string msg;
  if (vh::threw([&] { configure(ref, s, c, scratch); }, &msg)) { tr.emit(vh::Json("ConfigureError").num("cfg", c.id).str("msg", msg.substr(0, 160))); return; }
  if (!run_once(tr, s, ref, c, "fresh", 0, 1, K, *init_im, sc, false, true)) return;
  std::vector<shared_ptr<Img>> saved(K + 1);
  for (int k = 1; k <= K; ++k) saved[k] = read_saved(tr, ref, c, k);
  // ---- resumption from the image saved after EVERY sub-iteration k (fresh object each)
  for (int k = 1; k < K; ++k) {
    if (!saved[k]) continue;
    Engine e;
    make_engine(e, s, m, y, a, c.additive, scratch);
    if (vh::threw([&] { configure(e, s, c, scratch); }, &msg)) { tr.emit(vh::Json("ConfigureError").num("cfg", c.id).str("msg", msg.substr(0, 160))); continue; }
    run_once(tr, s, e, c, "resume", k, k + 1, K, *saved[k], sc, false, false);
    remove_outputs(e, K);
  }
  // ---- the SAME object used again: set_up + reconstruct once more (OSSPS modified its precomputed denominator)
  run_once(tr, s, ref, c, "again", 0, 1, K, *init_im, sc, rng.coin(), false);
  // ... and resumed on the used object from one of its own saved images
  { const int k = rng.range(1, K - 1 > 0 ? K - 1 : 1);
    if (k < K && saved[k]) run_once(tr, s, ref, c, "resume", k, k + 1, K, *saved[k], sc, false, false); }
  // ... and reconstruct called once more WITHOUT set_up ("you have to call set_up() before running a new reconstruction")
  if (rng.coin()) { g_skip_setup = true; run_once(tr, s, ref, c, "nosetup", 0, 1, K, *init_im, sc, false, false); g_skip_setup = false; }
  remove_outputs(ref, K);
  // ---- an object with another history: first a complete reconstruction with ONE setting different (changed back through the
  // setters / the parser afterwards) or under an altogether different configuration, then this configuration
  // 0 everything, 1 relaxation, 2 upper bound, 3 number of subsets, 4 prior added/removed, 5 penalisation factor, 6 input data,
  // 7 normalisation, 8 additive term
  std::vector<int> changes = { 0, 1, 2, 3, 4, 5, 6, 7, 8 };
  for (size_t i = changes.size(); i > 1; --i) std::swap(changes[i - 1], changes[rng.next() % i]);
  changes.resize(stage ? 9 : 3);
  for (int what : changes) {
    Cfg c2 = c;
    c2.id = ++cfgid;
    std::vector<float> y2 = y, a2 = a;
    bool norm2 = false, additive2 = c.additive;
    switch (what) {
    case 0: { static const int Ns[] = { 1, 2, 3, 4 }; int pk2 = rng.range(0, 4); if (priorKind == 0 && pk2 == 0) pk2 = 1;
              c2 = random_cfg(s, rng, c2.id, Ns[rng.range(0, 3)], pk2, 0); c2.additive = c.additive; break; }
    case 1: c2.aN = c.aN == 3 ? 1 : 3; c2.aK = 1; c2.gN = c.gN + 1; break;
    case 2: c2.uInf = !c.uInf; if (!c2.uInf) { c2.uN = 6; c2.uK = 0; } break;
    case 3: c2.N = c.N % 4 + 1; c2.startSubset = 0; c2.uss = true; break;
    case 4: if (c.prior) { c2.prior = c2.kappa = c2.dep = false; c2.beta = 0; c2.w.clear(); c2.kap.clear(); c2.defaultWeights = false; }
            else { c2.prior = true; c2.beta = 2; c2.defaultWeights = true; } break;
    case 5: if (c.prior) c2.beta = c.beta + 1; else { c2.prior = true; c2.beta = 1; c2.defaultWeights = true; } break;
    case 6: for (auto& v : y2) v = v * 1.5F + 1.F; break;
    case 7: norm2 = true; break;
    default: additive2 = !c.additive; if (additive2) for (auto& v : a2) v = std::max(v, 0.25F); break;
    }
    c2.additive = additive2;
    Engine e;
    make_engine(e, s, m, y2, a2, additive2, scratch);
    if (norm2) {   // normalisation factors 2 (efficiencies 1/2) for every bin
      std::vector<float> two(nb, 2.F);
      e.inner->set_normalisation_sptr(shared_ptr<BinNormalisation>(new BinNormalisationFromProjData(make_pd(s, two))));
    }
    emit_config(tr, s, c2, m);
    if (vh::threw([&] { configure(e, s, c2, scratch); }, &msg)) { tr.emit(vh::Json("ConfigureError").num("cfg", c2.id).str("msg", msg.substr(0, 160))); continue; }
    std::vector<float> init2(nv);
    for (int v = 0; v < nv; ++v) init2[v] = c2.uInf ? rnd(rng, 8, 256) : std::min(rnd(rng, 8, 256), std::ldexp((float)c2.uN, -c2.uK));
    run_once(tr, s, e, c2, "history", 0, 1, 2 * c2.N, *image_from(s, init2), sc, false, false);
    // back to this group's configuration through the public setters (the reconstruction forwards the data to its objective function)
    if (what == 6) e.recon->set_input_data(make_pd(s, y));
    if (what == 7) e.inner->set_normalisation_sptr(shared_ptr<BinNormalisation>(new TrivialBinNormalisation));
    if (what == 8) {
      if (c.additive) e.inner->set_additive_proj_data_sptr(make_pd(s, a));
      else { std::vector<float> zero(nb, 0.F); e.inner->set_additive_proj_data_sptr(make_pd(s, zero)); }   // "no additive term" = zeros
    }
    emit_config(tr, s, c, m);
    if (vh::threw([&] { configure(e, s, c, scratch); }, &msg)) { tr.emit(vh::Json("ConfigureError").num("cfg", c.id).str("msg", msg.substr(0, 160))); continue; }
    run_once(tr, s, e, c, "reuse", 0, 1, K, *init_im, sc, false, false);
    remove_outputs(e, std::max(K, 2 * c2.N));
  }
  // ---- beyond the property's quantifier (named sections of Trace_OSSPS.tla); each on a fresh object
  auto fresh_run = [&](Cfg cx, const std::string& kind, const std::vector<float>& in, int last, bool ref2) -> bool {
    Engine e;
    make_engine(e, s, m, y, a, c.additive, scratch);
    emit_config(tr, s, cx, m);
    if (vh::threw([&] { configure(e, s, cx, scratch); }, &msg)) { tr.emit(vh::Json("ConfigureError").num("cfg", cx.id).str("msg", msg.substr(0, 160))); return false; }
    const bool ok = run_once(tr, s, e, cx, kind, 0, 1, last, *image_from(s, in), sc, false, ref2);
    remove_outputs(e, last);
    return ok;
  };
  // user-supplied precomputed denominator: the file a run saved gives the same reconstruction; a file of another geometry is refused
  {
    Engine e0;   // writes the file
    make_engine(e0, s, m, y, a, c.additive, scratch);
    if (!vh::threw([&] { configure(e0, s, c, scratch); }, &msg)) {
      emit_config(tr, s, c, m);
      run_once(tr, s, e0, c, "again", 0, 1, K, *init_im, sc, false, false);   // (a fresh object: must repeat the reference as well)
      Cfg cd = c; cd.denFile = 1; cd.denPath = e0.prefix + "_precomputed_denominator.hv";
      Engine e;
      make_engine(e, s, m, y, a, c.additive, scratch);
      emit_config(tr, s, cd, m);   // same id: same reconstruction, other source of the denominator
      if (!vh::threw([&] { configure(e, s, cd, scratch); }, &msg)) run_once(tr, s, e, cd, "denfile", 0, 1, K, *init_im, sc, false, false);
      remove_outputs(e, K);
      if (rng.coin()) {
        Cfg cw = c; cw.id = ++cfgid; cw.denFile = 2; cw.denPath = scratch + "/wrongden.hv";
        VoxelsOnCartesianGrid<float> other(s.t.exam_info, IndexRange3D(0, s.nz, -(s.ny / 2), -(s.ny / 2) + s.ny - 1, -(s.nx / 2), -(s.nx / 2) + s.nx - 1),
                                           CartesianCoordinate3D<float>(0.F, 0.F, 0.F), CartesianCoordinate3D<float>(4.F, 4.F, 4.F));
        other.fill(1.F);
        std::string fn = scratch + "/wrongden";
        OutputFileFormat<Img>::default_sptr()->write_to_file(fn, other);
        fresh_run(cw, "refuse", init, K, false);
      }
      emit_config(tr, s, c, m);
    }
    remove_outputs(e0, K);
  }
  // settings set_up must refuse: a prior without parabolic surrogate, a relaxation parameter of 0
  if (rng.coin()) { Cfg cx = c; cx.id = ++cfgid; cx.prior = true; cx.priorType = 2; cx.beta = 1; cx.kappa = cx.dep = false; cx.defaultWeights = true; cx.w.clear(); cx.kap.clear();
                    fresh_run(cx, "refuse", init, K, false); }
  else { Cfg cx = c; cx.id = ++cfgid; cx.aN = 0; cx.viaParse = rng.coin(); fresh_run(cx, "refuse", init, K, false); }
  // randomised subset order: the law for whichever subset the schedule hands over
  if (N > 1) { Cfg cx = c; cx.id = ++cfgid; cx.randomise = true; fresh_run(cx, "fresh", init, K, false); }
  // special values: upper bound 0, a huge gamma, a single sub-iteration
  { Cfg cx = c; cx.id = ++cfgid;
    switch (rng.range(0, 2)) {
    case 0: cx.uInf = false; cx.uN = 0; cx.uK = 0; fresh_run(cx, "fresh", init, K, false); break;
    case 1: cx.gN = 256; cx.gK = 0; fresh_run(cx, "fresh", init, K, false); break;
    default: fresh_run(cx, "fresh", init, 1, false); break;
    } }
  // log-cosh prior (has a parabolic surrogate; its curvature depends on the image)
  if (rng.range(0, 1) == 0) { Cfg cx = c; cx.id = ++cfgid; cx.prior = true; cx.priorType = 1; cx.beta = rng.range(1, 2); cx.dep = false; cx.defaultWeights = true; cx.w.clear();
                              if (!cx.kappa) cx.kap.clear();
                              fresh_run(cx, "fresh", init, K, false); }
  // enforce initial positivity: fresh start from an image with zeros, then resumed from saved images
  {
    Cfg cx = c; cx.id = ++cfgid; cx.enforcePos = true;
    std::vector<float> in = init;
    in[rng.range(0, nv - 1)] = 0.F; in[rng.range(0, nv - 1)] = 0.F;
    Engine e;
    make_engine(e, s, m, y, a, c.additive, scratch);
    emit_config(tr, s, cx, m);
    if (!vh::threw([&] { configure(e, s, cx, scratch); }, &msg) && run_once(tr, s, e, cx, "fresh", 0, 1, K, *image_from(s, in), sc, false, true)) {
      for (int k = 1; k < K; k += 2) {
        shared_ptr<Img> sv = read_saved(tr, e, cx, k);
        if (!sv) continue;
        Engine e2;
        make_engine(e2, s, m, y, a, c.additive, scratch);
        if (!vh::threw([&] { configure(e2, s, cx, scratch); }, &msg)) run_once(tr, s, e2, cx, "resume", k, k + 1, K, *sv, sc, false, false);
        remove_outputs(e2, K);
      }
    }
    remove_outputs(e, K);
  }
  // ---- filters on (bounds only): inter-iteration filter / post-filter
  {
    Cfg cf = random_cfg(s, rng, ++cfgid, N, priorKind, 1);
    cf.additive = c.additive;
    Engine e;
    make_engine(e, s, m, y, a, c.additive, scratch);
    emit_config(tr, s, cf, m);
    if (!vh::threw([&] { configure(e, s, cf, scratch); }, &msg)) {
      std::vector<float> init2(nv);
      for (int v = 0; v < nv; ++v) init2[v] = std::min(rnd(rng, 8, 256), std::ldexp((float)cf.uN, -cf.uK));
      run_once(tr, s, e, cf, "fresh", 0, 1, K, *image_from(s, init2), sc, false, true);
    } else tr.emit(vh::Json("ConfigureError").num("cfg", cf.id).str("msg", msg.substr(0, 160)));
    remove_outputs(e, K);
  }
}

int main(int argc, char** argv) {
  if (argc < 5) { fprintf(stderr, "usage: c08_ossps exact|runs <out.ndjson> <scratch-dir> <count> [stage]\n"); return 2; }
  vh::quiet();
  vh::install_terminate();
  std::signal(SIGSEGV, on_signal);
  std::signal(SIGFPE, on_signal);
  std::signal(SIGBUS, on_signal);
  std::signal(SIGABRT, on_signal);
  const std::string mode = argv[1], scratch = argv[3];
  const long count = atol(argv[4]);
  const int stage = argc > 5 ? atoi(argv[5]) : 0;
  vh::Trace tr(argv[2]);
  vh::Rng rng(vh::seed_from_env());
  Sys s = make_sys();
  if (mode == "exact") {
    for (long i = 0; i < count; ++i)
      for (int tries = 0; tries < 20 && !exact_instance(tr, s, rng, i, scratch); ++tries) {}
  } else if (mode == "runs") {
    long cfgid = 0;
    for (long i = 0; i < count; ++i) {
      const int N = (int)(i % 4) + 1;               // every number of subsets of the toy geometry (4 views)
      const int pk = (int)((i / 4) % 5);            // none, quadratic, quadratic + kappa, "depends on argument" (+ kappa)
      runs_group(tr, s, rng, cfgid, N, pk, stage, scratch);
    }
  } else { fprintf(stderr, "unknown mode\n"); return 2; }
  tr.emit(vh::Json("End").num("lines", tr.lines));
  return 0;
}
