// C04 driver: matched forward/back projector pairs.  DRIVES AND RECORDS ONLY - TLC (Trace_Projectors.tla) decides.
//   c04_projectors list  <out> <tier 0|1>              one line per block: index and name
//   c04_projectors run   <out.ndjson> <tier 0|1> <first block> <last block>
// One block = (data geometry, image grid, projector pair, symmetry switches / cache mode).  Per block:
//   Config  the geometry and the effective symmetries as the library reports them, the recorded routes
//   Bin     (one per bin, in index order) the matrix entries of that bin obtained through every route:
//             F  forward_project(ProjData&, e_v, 0, 1)            B  back_project(image, e_b, 0, 1)
//             FS forward_project(ProjData&, e_v, s, N, zero=true)  BS back_project(image, e_b, s, N)   for all (s, N)
//             FG set_input(e_v) + forward_project(RelatedViewgrams&)               for every group of related viewgrams
//             BG start_accumulating_in_new_target + back_project(RelatedViewgrams) + get_output
//             FW / BW the same through the overloads with axial / tangential sub-ranges (seeded windows)
//             O  on-the-fly ForwardProjectorByBinUsingRayTracing (where applicable)
//             FK / BK  the whole-data calls with the unit image / unit datum scaled by 2^k, for every k of the block (Ks)
//           a row is the list of [voxel index, ordered float bits(, fixed point 2^-16)] of the non-zero entries
//   Col     (history blocks) column of the recorded F per voxel: [bin index, fixed point]
//   Scaled  one forward or back call (subset or group window) made twice: with integer input and with the same input times 2^k;
//           both complete results as ordered float bits
//   history events SetData SetInput ForwardSubset ForwardGroup StartNewTarget BackSubset BackGroup GetOutput BackInto
//           with small signed integer images / data; the complete projection data (ordered bits + fixed point)
//           or output image is logged after every call that may change it.
#include "c03_matrix_common.h"
#include "stir/ProjDataInMemory.h"
#include "stir/ExamInfo.h"
#include "stir/RelatedViewgrams.h"
#include "stir/Viewgram.h"
#include "stir/ViewSegmentNumbers.h"
#include "stir/recon_buildblock/ProjectorByBinPairUsingProjMatrixByBin.h"
#include "stir/recon_buildblock/ProjMatrixByBinUsingInterpolation.h"
#include "stir/recon_buildblock/ForwardProjectorByBinUsingRayTracing.h"
#include "stir/recon_buildblock/ForwardProjectorByBin.h"
#include "stir/recon_buildblock/BackProjectorByBin.h"
#include "stir/recon_buildblock/DataSymmetriesForBins_PET_CartesianGrid.h"
#include <map>
#include <sstream>
#include <cstring>
#include <climits>
using namespace stir;
using namespace c03;
C03_DEFINE_HOOK

typedef VoxelsOnCartesianGrid<float> Image;
static const int FXS = 16;                       // fixed-point scale of logged values: round(v * 2^16)
static const long long FXBAD = 2147483647LL;     // not finite / too large for the fixed-point encoding

// monotone encoding of a float's bit pattern as a signed 32-bit integer (+0 and -0 -> 0; neighbours differ by 1)
static long long ord_of(float f) {
  int32_t i;
  std::memcpy(&i, &f, 4);
  return i >= 0 ? (long long)i : (long long)INT32_MIN - (long long)i;
}
static long long fx_of(float f) { return (std::isfinite(f) && std::fabs(f) < 8000.F) ? vh::fx(f, FXS) : FXBAD; }

struct Ent { int v; long long ord, fx; };
typedef std::vector<Ent> Row;
static std::string row_json(const Row& r, bool with_fx) {
  std::string s = "[";
  for (size_t i = 0; i < r.size(); ++i) {
    if (i) s += ',';
    s += '[' + std::to_string(r[i].v) + ',' + std::to_string(r[i].ord);
    if (with_fx) s += ',' + std::to_string(r[i].fx);
    s += ']';
  }
  return s + "]";
}

struct Block {
  std::string name;
  DataCfg d; GridCfg g;
  std::string pair = "rt";      // "rt": ray-tracing matrix, "interp": interpolation matrix
  int swbits = 31, ntl = 1, cache = 2;   // cache: 0 disabled, 1 basic bins only, 2 everything
  std::vector<int> Ns;          // numbers of subsets of the FS / BS routes
  std::vector<int> Ks;          // exponents k of the scaled routes FK / BK (inputs multiplied by 2^k) and of the Scaled events
  int nscaled = 0;              // number of Scaled events
  int zlo = 0;                  // first z index of the image (the standard convention is 0); the physical grid does not depend on it
  bool otf_same = false;         // Same lines also for the on-the-fly projector (set up on the block's image / on the standard image)
  bool same_as_standard = false; // also record the rows of fresh objects on the standard image (z from 0): Same lines
  bool groups = false;          // FG / BG routes
  int nwinsets = 0;             // number of seeded window sets (FW / BW)
  bool otf = false;             // on-the-fly ray-tracing forward projector (O)
  int nhist = 0, nevents = 0;   // histories
};

struct Win { int id, bv, bs, k, axlo, axhi, tlo, thi, set, mode; };

struct Sys {
  shared_ptr<ProjDataInfo> pdi;
  shared_ptr<Image> zero_image;
  shared_ptr<ProjMatrixByBin> matrix;
  shared_ptr<ProjectorByBinPair> pair;
  shared_ptr<ForwardProjectorByBin> fwd;
  shared_ptr<BackProjectorByBin> bck;
  shared_ptr<DataSymmetriesForViewSegmentNumbers> sym;
  std::vector<Bin> bins;
  std::vector<int> seg_off;     // index of the first bin of each segment
  int min_seg, nviews, min_tang, ntang, min_tof, ntof;
  int nb, nv, nx, ny, nz, xmin, ymin, zmin;
  int bin_index(int seg, int ax, int view, int tang, int tof) const {
    return seg_off[seg - min_seg] + (((ax - pdi->get_min_axial_pos_num(seg)) * nviews + view) * ntang + (tang - min_tang)) * ntof + (tof - min_tof);
  }
  int vox_index(int z, int y, int x) const { return ((z - zmin) * ny + (y - ymin)) * nx + (x - xmin); }
};

// image grid g with the z index range starting at zlo and the x index range shifted by xshift (origin moved by -xshift
// voxels, so that the voxel centres stay where they are).  The projectors place the MIDDLE of the z index range at the
// centre of the scanner (plus origin.z), so the physical grid does not depend on zlo.
static shared_ptr<Image> make_image_idx(const ProjDataInfo& pdi, const GridCfg& g, int zlo, int xshift = 0) {
  const float vz = pdi.get_scanner_ptr()->get_ring_spacing() / g.nppr;
  IndexRange3D range(zlo, zlo + g.nz - 1, -(g.ny / 2), -(g.ny / 2) + g.ny - 1, -(g.nx / 2) + xshift, -(g.nx / 2) + g.nx - 1 + xshift);
  return shared_ptr<Image>(new Image(range, CartesianCoordinate3D<float>(g.oz * vz, g.oy, g.ox - xshift * g.vx), CartesianCoordinate3D<float>(vz, g.vy, g.vx)));
}
static void fill_indices(Sys& S);
static shared_ptr<ProjMatrixByBin> make_block_matrix(const Block& b);

static bool build(Sys& S, const Block& b, std::string* msg) {
  return !vh::threw([&] {
    S.pdi = make_pdi(b.d);
    S.zero_image = make_image_idx(*S.pdi, b.g, b.zlo);
    S.zero_image->fill(0.F);
    S.matrix = make_block_matrix(b);
    S.pair.reset(new ProjectorByBinPairUsingProjMatrixByBin(S.matrix));
    if (S.pair->set_up(S.pdi, S.zero_image) != Succeeded::yes) error("c04: set_up of the projector pair failed");
    S.fwd = S.pair->get_forward_projector_sptr();
    S.bck = S.pair->get_back_projector_sptr();
    S.sym.reset(S.bck->get_symmetries_used()->clone());
    fill_indices(S);
  }, msg);
}
static shared_ptr<ProjMatrixByBin> make_block_matrix(const Block& b) {
    shared_ptr<ProjMatrixByBin> matrix;
    if (b.pair == "rt")
      matrix = make_matrix(sw_from_bits(b.swbits), b.ntl, b.cache > 0, b.cache == 1);
    else {
      shared_ptr<ProjMatrixByBinUsingInterpolation> m(new ProjMatrixByBinUsingInterpolation);
      const Sw s = sw_from_bits(b.swbits);
      std::ostringstream p;
      p << "Interpolation Matrix Parameters:=\n"
        << "do_symmetry_90degrees_min_phi:=" << s.s90 << "\ndo_symmetry_180degrees_min_phi:=" << s.s180
        << "\ndo_symmetry_swap_segment:=" << s.sseg << "\ndo_symmetry_swap_s:=" << s.ss << "\ndo_symmetry_shift_z:=" << s.sz
        << "\nEnd Interpolation Matrix Parameters:=\n";
      std::istringstream is(p.str());
      if (!m->parse(is)) error("c04: parsing of the interpolation matrix parameters failed");
      m->enable_cache(b.cache > 0);
      m->store_only_basic_bins_in_cache(b.cache == 1);
      matrix = m;
    }
    return matrix;
}
static void fill_indices(Sys& S) {
    S.bins = all_bins(*S.pdi);
    S.nb = (int)S.bins.size();
    S.min_seg = S.pdi->get_min_segment_num();
    S.nviews = S.pdi->get_num_views();
    S.min_tang = S.pdi->get_min_tangential_pos_num();
    S.ntang = S.pdi->get_num_tangential_poss();
    S.min_tof = S.pdi->get_min_tof_pos_num();
    S.ntof = S.pdi->get_max_tof_pos_num() - S.pdi->get_min_tof_pos_num() + 1;
    S.seg_off.clear();
    int off = 0;
    for (int s = S.min_seg; s <= S.pdi->get_max_segment_num(); ++s) {
      S.seg_off.push_back(off);
      off += S.pdi->get_num_axial_poss(s) * S.nviews * S.ntang * S.ntof;
    }
    CartesianCoordinate3D<int> lo, hi;
    S.zero_image->get_regular_range(lo, hi);
    S.xmin = lo.x(); S.ymin = lo.y(); S.zmin = lo.z();
    S.nx = hi.x() - lo.x() + 1; S.ny = hi.y() - lo.y() + 1; S.nz = hi.z() - lo.z() + 1;
    S.nv = S.nx * S.ny * S.nz;
}

// ------------------------------------------------------------------------------------------- access helpers
template <class CB> static void scan_data(const Sys& S, const ProjData& pd, CB cb) {
  for (int seg = S.min_seg; seg <= S.pdi->get_max_segment_num(); ++seg)
    for (int k = S.min_tof; k < S.min_tof + S.ntof; ++k)
      for (int view = 0; view < S.nviews; ++view) {
        const Viewgram<float> vg = pd.get_viewgram(view, seg, false, k);
        for (int ax = vg.get_min_axial_pos_num(); ax <= vg.get_max_axial_pos_num(); ++ax)
          for (int t = vg.get_min_tangential_pos_num(); t <= vg.get_max_tangential_pos_num(); ++t)
            cb(S.bin_index(seg, ax, view, t, k), vg[ax][t]);
      }
}
template <class CB> static void scan_viewgrams(const Sys& S, const RelatedViewgrams<float>& r, CB cb) {
  for (RelatedViewgrams<float>::const_iterator it = r.begin(); it != r.end(); ++it)
    for (int ax = it->get_min_axial_pos_num(); ax <= it->get_max_axial_pos_num(); ++ax)
      for (int t = it->get_min_tangential_pos_num(); t <= it->get_max_tangential_pos_num(); ++t)
        cb(S.bin_index(it->get_segment_num(), ax, it->get_view_num(), t, it->get_timing_pos_num()), (*it)[ax][t]);
}
template <class CB> static void scan_image(const Sys& S, const Image& im, CB cb) {
  for (int z = S.zmin; z < S.zmin + S.nz; ++z)
    for (int y = S.ymin; y < S.ymin + S.ny; ++y)
      for (int x = S.xmin; x < S.xmin + S.nx; ++x)
        cb(S.vox_index(z, y, x), im[z][y][x]);
}
static void set_data(const Sys& S, ProjDataInMemory& pd, const std::vector<int>& y, float scale = 1.F) {
  for (int seg = S.min_seg; seg <= S.pdi->get_max_segment_num(); ++seg)
    for (int k = S.min_tof; k < S.min_tof + S.ntof; ++k)
      for (int view = 0; view < S.nviews; ++view) {
        Viewgram<float> vg = pd.get_empty_viewgram(view, seg, false, k);
        for (int ax = vg.get_min_axial_pos_num(); ax <= vg.get_max_axial_pos_num(); ++ax)
          for (int t = vg.get_min_tangential_pos_num(); t <= vg.get_max_tangential_pos_num(); ++t)
            vg[ax][t] = scale * (float)y[S.bin_index(seg, ax, view, t, k)];
        pd.set_viewgram(vg);
      }
}
static void set_image(const Sys& S, Image& im, const std::vector<int>& x, float scale = 1.F) {
  for (int z = S.zmin; z < S.zmin + S.nz; ++z)
    for (int y = S.ymin; y < S.ymin + S.ny; ++y)
      for (int xx = S.xmin; xx < S.xmin + S.nx; ++xx)
        im[z][y][xx] = scale * (float)x[S.vox_index(z, y, xx)];
}
static float& voxel(const Sys& S, Image& im, int v) {
  const int x = v % S.nx, y = (v / S.nx) % S.ny, z = v / (S.nx * S.ny);
  return im[S.zmin + z][S.ymin + y][S.xmin + x];
}
static std::vector<ViewSegmentNumbers> basic_vs(const Sys& S) {
  std::vector<ViewSegmentNumbers> l;
  for (int seg = S.min_seg; seg <= S.pdi->get_max_segment_num(); ++seg)
    for (int view = 0; view < S.nviews; ++view) {
      ViewSegmentNumbers vs(view, seg);
      if (S.sym->is_basic(vs)) l.push_back(vs);
    }
  return l;
}
static void add_nonzero(Row& r, int v, float val) {
  if (ord_of(val) != 0 || val != val) r.push_back({ v, ord_of(val), fx_of(val) });
}

// the forward / back projection overloads with sub-ranges: mode 0 = no range arguments, 1 = axial range only, 2 = both ranges
static void fwd_window(ForwardProjectorByBin& f, RelatedViewgrams<float>& r, const Win& w) {
  if (w.mode == 0) f.forward_project(r);
  else if (w.mode == 1) f.forward_project(r, w.axlo, w.axhi);
  else f.forward_project(r, w.axlo, w.axhi, w.tlo, w.thi);
}
static void bck_window(BackProjectorByBin& f, const RelatedViewgrams<float>& r, const Win& w) {
  if (w.mode == 0) f.back_project(r);
  else if (w.mode == 1) f.back_project(r, w.axlo, w.axhi);
  else f.back_project(r, w.axlo, w.axhi, w.tlo, w.thi);
}

// seeded windows on the group of basic pair vs, timing position k.  A window set tiles the full (axial, tangential)
// range of the group: set kind 0 = 2 x 2 tiles through the overload with both ranges, kind 1 = 2 axial strips through the
// overload with the axial range only; plus (set -1) one arbitrary window.
static void make_windows(const Sys& S, vh::Rng& rng, int nsets, std::vector<Win>& wins) {
  const std::vector<ViewSegmentNumbers> bl = basic_vs(S);
  int id = 0;
  for (int n = 0; n < nsets; ++n) {
    const ViewSegmentNumbers vs = bl[rng.next() % bl.size()];
    const int k = rng.range(S.min_tof, S.min_tof + S.ntof - 1);
    const int a0 = S.pdi->get_min_axial_pos_num(vs.segment_num()), a1 = S.pdi->get_max_axial_pos_num(vs.segment_num());
    const int t0 = S.min_tang, t1 = S.min_tang + S.ntang - 1;
    const int kind = n % 3;
    if (kind == 0 && a1 > a0 && t1 > t0) {
      const int ac = rng.range(a0, a1 - 1), tc = rng.range(t0, t1 - 1);
      wins.push_back({ id++, vs.view_num(), vs.segment_num(), k, a0, ac, t0, tc, n, 2 });
      wins.push_back({ id++, vs.view_num(), vs.segment_num(), k, a0, ac, tc + 1, t1, n, 2 });
      wins.push_back({ id++, vs.view_num(), vs.segment_num(), k, ac + 1, a1, t0, tc, n, 2 });
      wins.push_back({ id++, vs.view_num(), vs.segment_num(), k, ac + 1, a1, tc + 1, t1, n, 2 });
    } else if (kind == 1 && a1 > a0) {
      const int ac = rng.range(a0, a1 - 1);
      wins.push_back({ id++, vs.view_num(), vs.segment_num(), k, a0, ac, t0, t1, n, 1 });
      wins.push_back({ id++, vs.view_num(), vs.segment_num(), k, ac + 1, a1, t0, t1, n, 1 });
    } else {
      const int alo = rng.range(a0, a1), ahi = rng.range(alo, a1), tlo = rng.range(t0, t1), thi = rng.range(tlo, t1);
      wins.push_back({ id++, vs.view_num(), vs.segment_num(), k, alo, ahi, tlo, thi, -1, 2 });
    }
  }
}

// ------------------------------------------------------------------------------------------- one block
struct Routes {
  std::vector<Row> F, B, O;
  std::vector<std::map<std::pair<int, int>, Row>> FS, BS;        // per bin: (N, s) -> row
  std::vector<std::map<std::array<int, 3>, Row>> FG, BG;         // per bin: (basic view, basic segment, k) -> row
  std::vector<std::map<int, Row>> FW, BW;                        // per bin: window id -> row
  std::vector<std::map<int, Row>> FK, BK;                        // per bin: exponent k -> row
};

static void emit_config(vh::Trace& tr, const Block& b, const Sys& S, long id, const std::vector<Win>& wins, bool otf) {
  vh::Json j("Config");
  j.num("id", id).str("name", b.name).str("pair", b.pair).str("geom", b.d.geom).num("N", b.d.N).num("R", b.d.R).num("span", b.d.span)
      .num("maxDelta", b.d.maxDelta).num("mash", b.d.mash).num("views", S.nviews).num("minView", S.pdi->get_min_view_num())
      .num("minTang", S.min_tang).num("maxTang", S.min_tang + S.ntang - 1).num("minSeg", S.min_seg).num("maxSeg", S.pdi->get_max_segment_num())
      .num("minTof", S.min_tof).num("maxTof", S.min_tof + S.ntof - 1);
  std::vector<std::vector<int>> segs;
  for (int s = S.min_seg; s <= S.pdi->get_max_segment_num(); ++s)
    segs.push_back({ s, S.pdi->get_min_axial_pos_num(s), S.pdi->get_max_axial_pos_num(s) });
  j.arr2("segs", segs).num("nb", S.nb).num("nv", S.nv).num("nx", S.nx).num("ny", S.ny).num("nz", S.nz).num("zlo", b.zlo);
  std::vector<int> eff(5, 0);
  bool cart = false;
  if (auto* c = dynamic_cast<const DataSymmetriesForBins_PET_CartesianGrid*>(S.sym.get())) {
    cart = true;
    eff = { c->using_symmetry_90degrees_min_phi(), c->using_symmetry_180degrees_min_phi(), c->using_symmetry_swap_segment(),
            c->using_symmetry_swap_s(), c->using_symmetry_shift_z() };
  }
  j.arr("req", sw_list(sw_from_bits(b.swbits))).arr("eff", eff).boolean("cartesian", cart).num("ntl", b.ntl).num("cache", b.cache)
      .arr("Ns", b.Ns).arr("Ks", b.Ks).boolean("groups", b.groups).boolean("otf", otf).boolean("hist", b.nhist > 0).num("scale", FXS);
  std::vector<std::vector<int>> wl;
  for (const Win& w : wins) wl.push_back({ w.id, w.bv, w.bs, w.k, w.axlo, w.axhi, w.tlo, w.thi, w.set, w.mode });
  j.arr2("wins", wl);
  tr.emit(j);
}

static void extract(const Block& b, Sys& S, Routes& R, const std::vector<Win>& wins, bool otf) {
  const int nb = S.nb, nv = S.nv;
  R.F.assign(nb, Row()); R.B.assign(nb, Row()); R.O.assign(nb, Row());
  R.FS.assign(nb, {}); R.BS.assign(nb, {}); R.FG.assign(nb, {}); R.BG.assign(nb, {}); R.FW.assign(nb, {}); R.BW.assign(nb, {}); R.FK.assign(nb, {}); R.BK.assign(nb, {});
  shared_ptr<ExamInfo> ei(new ExamInfo);
  ProjDataInMemory data(ei, S.pdi), ydata(ei, S.pdi);
  shared_ptr<Image> e(S.zero_image->clone()), out(S.zero_image->clone());
  // whole data and subsets, forward
  for (int v = 0; v < nv; ++v) {
    voxel(S, *e, v) = 1.F;
    S.fwd->forward_project(data, *e, 0, 1, true);
    scan_data(S, data, [&](int i, float val) { add_nonzero(R.F[i], v, val); });
    for (int N : b.Ns)
      for (int s = 0; s < N; ++s) {
        S.fwd->forward_project(data, *e, s, N, true);
        scan_data(S, data, [&](int i, float val) { if (ord_of(val) != 0 || val != val) add_nonzero(R.FS[i][{ N, s }], v, val); });
      }
    for (int k : b.Ks) {
      voxel(S, *e, v) = std::ldexp(1.F, k);
      S.fwd->forward_project(data, *e, 0, 1, true);
      scan_data(S, data, [&](int i, float val) { if (ord_of(val) != 0 || val != val) add_nonzero(R.FK[i][k], v, val); });
    }
    voxel(S, *e, v) = 0.F;
  }
  // whole data and subsets, back
  ydata.fill(0.F);
  for (int i = 0; i < nb; ++i) {
    Bin bin = S.bins[i];
    bin.set_bin_value(1.F);
    ydata.set_bin_value(bin);
    out->fill(-5.F);   // back_project(image, ...) starts a new target: the previous content must not matter
    S.bck->back_project(*out, ydata, 0, 1);
    scan_image(S, *out, [&](int v, float val) { add_nonzero(R.B[i], v, val); });
    for (int N : b.Ns)
      for (int s = 0; s < N; ++s) {
        S.bck->back_project(*out, ydata, s, N);
        scan_image(S, *out, [&](int v, float val) { if (ord_of(val) != 0 || val != val) add_nonzero(R.BS[i][{ N, s }], v, val); });
      }
    for (int k : b.Ks) {
      bin.set_bin_value(std::ldexp(1.F, k));
      ydata.set_bin_value(bin);
      S.bck->back_project(*out, ydata, 0, 1);
      scan_image(S, *out, [&](int v, float val) { if (ord_of(val) != 0 || val != val) add_nonzero(R.BK[i][k], v, val); });
    }
    bin.set_bin_value(0.F);
    ydata.set_bin_value(bin);
  }
  // groups of related viewgrams
  if (b.groups) {
    const std::vector<ViewSegmentNumbers> bl = basic_vs(S);
    for (const ViewSegmentNumbers& vs : bl)
      for (int k = S.min_tof; k < S.min_tof + S.ntof; ++k) {
        const std::array<int, 3> key{ vs.view_num(), vs.segment_num(), k };
        for (int v = 0; v < nv; ++v) {
          voxel(S, *e, v) = 1.F;
          S.fwd->set_input(*e);
          RelatedViewgrams<float> r = data.get_empty_related_viewgrams(vs, S.sym, false, k);
          S.fwd->forward_project(r);
          scan_viewgrams(S, r, [&](int i, float val) { if (ord_of(val) != 0 || val != val) add_nonzero(R.FG[i][key], v, val); });
          voxel(S, *e, v) = 0.F;
        }
        RelatedViewgrams<float> r = data.get_empty_related_viewgrams(vs, S.sym, false, k);
        std::vector<int> members;
        scan_viewgrams(S, r, [&](int i, float) { members.push_back(i); });
        for (int i : members) {
          const Bin& bin = S.bins[i];
          for (RelatedViewgrams<float>::iterator it = r.begin(); it != r.end(); ++it)
            if (it->get_view_num() == bin.view_num() && it->get_segment_num() == bin.segment_num())
              (*it)[bin.axial_pos_num()][bin.tangential_pos_num()] = 1.F;
          S.bck->start_accumulating_in_new_target();
          S.bck->back_project(r);
          out->fill(-5.F);
          S.bck->get_output(*out);
          scan_image(S, *out, [&](int v, float val) { if (ord_of(val) != 0 || val != val) add_nonzero(R.BG[i][key], v, val); });
          r.fill(0.F);
        }
      }
  }
  // windows
  for (const Win& w : wins) {
    const ViewSegmentNumbers vs(w.bv, w.bs);
    for (int v = 0; v < nv; ++v) {
      voxel(S, *e, v) = 1.F;
      S.fwd->set_input(*e);
      RelatedViewgrams<float> r = data.get_empty_related_viewgrams(vs, S.sym, false, w.k);
      fwd_window(*S.fwd, r, w);
      scan_viewgrams(S, r, [&](int i, float val) { if (ord_of(val) != 0 || val != val) add_nonzero(R.FW[i][w.id], v, val); });
      voxel(S, *e, v) = 0.F;
    }
    RelatedViewgrams<float> r = data.get_empty_related_viewgrams(vs, S.sym, false, w.k);
    std::vector<int> members;
    scan_viewgrams(S, r, [&](int i, float) { members.push_back(i); });
    for (int i : members) {
      const Bin& bin = S.bins[i];
      for (RelatedViewgrams<float>::iterator it = r.begin(); it != r.end(); ++it)
        if (it->get_view_num() == bin.view_num() && it->get_segment_num() == bin.segment_num())
          (*it)[bin.axial_pos_num()][bin.tangential_pos_num()] = 1.F;
      S.bck->start_accumulating_in_new_target();
      bck_window(*S.bck, r, w);
      out->fill(-5.F);
      S.bck->get_output(*out);
      scan_image(S, *out, [&](int v, float val) { if (ord_of(val) != 0 || val != val) add_nonzero(R.BW[i][w.id], v, val); });
      r.fill(0.F);
    }
  }
  // on-the-fly ray tracing
  if (otf) {
    ForwardProjectorByBinUsingRayTracing f;
    f.set_up(S.pdi, S.zero_image);
    for (int v = 0; v < nv; ++v) {
      voxel(S, *e, v) = 1.F;
      f.forward_project(data, *e, 0, 1, true);
      scan_data(S, data, [&](int i, float val) { add_nonzero(R.O[i], v, val); });
      voxel(S, *e, v) = 0.F;
    }
  }
}

static void emit_bins(vh::Trace& tr, const Sys& S, const Routes& R, bool otf) {
  for (int i = 0; i < S.nb; ++i) {
    vh::Json j("Bin");
    j.num("i", i).arr("b", bin_list(S.bins[i])).raw("F", row_json(R.F[i], true)).raw("B", row_json(R.B[i], false));
    auto sub = [&](const std::map<std::pair<int, int>, Row>& m) {
      std::string s = "[";
      for (auto it = m.begin(); it != m.end(); ++it) {
        if (it != m.begin()) s += ',';
        s += '[' + std::to_string(it->first.first) + ',' + std::to_string(it->first.second) + ',' + row_json(it->second, false) + ']';
      }
      return s + "]";
    };
    auto grp = [&](const std::map<std::array<int, 3>, Row>& m) {
      std::string s = "[";
      for (auto it = m.begin(); it != m.end(); ++it) {
        if (it != m.begin()) s += ',';
        s += '[' + std::to_string(it->first[0]) + ',' + std::to_string(it->first[1]) + ',' + std::to_string(it->first[2]) + ',' + row_json(it->second, false) + ']';
      }
      return s + "]";
    };
    auto win = [&](const std::map<int, Row>& m) {
      std::string s = "[";
      for (auto it = m.begin(); it != m.end(); ++it) {
        if (it != m.begin()) s += ',';
        s += '[' + std::to_string(it->first) + ',' + row_json(it->second, false) + ']';
      }
      return s + "]";
    };
    j.raw("FS", sub(R.FS[i])).raw("BS", sub(R.BS[i])).raw("FG", grp(R.FG[i])).raw("BG", grp(R.BG[i])).raw("FW", win(R.FW[i])).raw("BW", win(R.BW[i])).raw("FK", win(R.FK[i])).raw("BK", win(R.BK[i]));
    if (otf) j.raw("O", row_json(R.O[i], true));
    tr.emit(j);
  }
}

// ------------------------------------------------------------------------------------------- histories
struct DataLog { std::vector<long long> ord, fx; };
static DataLog log_data(const Sys& S, const ProjData& pd) {
  DataLog d;
  d.ord.assign(S.nb, 0); d.fx.assign(S.nb, 0);
  scan_data(S, pd, [&](int i, float val) { d.ord[i] = ord_of(val); d.fx[i] = fx_of(val); });
  return d;
}
static DataLog log_image(const Sys& S, const Image& im) {
  DataLog d;
  d.ord.assign(S.nv, 0); d.fx.assign(S.nv, 0);
  scan_image(S, im, [&](int v, float val) { d.ord[v] = ord_of(val); d.fx[v] = fx_of(val); });
  return d;
}
static std::vector<int> random_ints(vh::Rng& rng, int n, int amp, int density_percent) {
  std::vector<int> x(n, 0);
  for (int i = 0; i < n; ++i)
    if ((int)(rng.next() % 100) < density_percent) x[i] = rng.range(-amp, amp);
  return x;
}

static void histories(vh::Trace& tr, const Block& b, Sys& S, const Routes& R, vh::Rng& rng) {
  // columns of the recorded F
  {
    std::vector<std::vector<std::array<long long, 2>>> col(S.nv);
    for (int i = 0; i < S.nb; ++i)
      for (const Ent& en : R.F[i]) col[en.v].push_back({ i, en.fx });
    for (int v = 0; v < S.nv; ++v) {
      std::string s = "[";
      for (size_t q = 0; q < col[v].size(); ++q) {
        if (q) s += ',';
        s += '[' + std::to_string(col[v][q][0]) + ',' + std::to_string(col[v][q][1]) + ']';
      }
      tr.emit(vh::Json("Col").num("v", v).raw("col", s + "]"));
    }
  }
  const std::vector<ViewSegmentNumbers> bl = basic_vs(S);
  shared_ptr<ExamInfo> ei(new ExamInfo);
  for (int h = 0; h < b.nhist; ++h) {
    ProjDataInMemory data(ei, S.pdi), ydata(ei, S.pdi);
    shared_ptr<Image> x(S.zero_image->clone()), out(S.zero_image->clone());
    // fresh projectors for every history (same matrix settings): accumulators and inputs start from set_up
    Sys H;
    std::string msg;
    if (!build(H, b, &msg)) { tr.emit(vh::Json("HistRejected").str("msg", msg)); return; }
    tr.emit(vh::Json("HistStart").num("h", h));
    bool have_input = false, started = false;
    auto emit_data = [&](vh::Json& j) { const DataLog d = log_data(S, data); j.arr("ord", d.ord).arr("fx", d.fx); tr.emit(j); };
    auto pick_window = [&](const ViewSegmentNumbers& vs) {
      Win w{ 0, vs.view_num(), vs.segment_num(), rng.range(S.min_tof, S.min_tof + S.ntof - 1), 0, 0, 0, 0, -1, rng.range(0, 2) };
      const int a0 = S.pdi->get_min_axial_pos_num(vs.segment_num()), a1 = S.pdi->get_max_axial_pos_num(vs.segment_num());
      const int t0 = S.min_tang, t1 = S.min_tang + S.ntang - 1;
      w.axlo = a0; w.axhi = a1; w.tlo = t0; w.thi = t1;
      if (w.mode >= 1) { w.axlo = rng.range(a0, a1); w.axhi = rng.range(w.axlo, a1); }
      if (w.mode == 2) { w.tlo = rng.range(t0, t1); w.thi = rng.range(w.tlo, t1); }
      return w;
    };
    auto win_list = [](const Win& w) { return std::vector<int>{ w.bv, w.bs, w.k, w.axlo, w.axhi, w.tlo, w.thi, w.mode }; };
    {
      const std::vector<int> y = random_ints(rng, S.nb, 3, 100);
      set_data(S, data, y);
      vh::Json j("SetData");
      j.arr("y", y);
      emit_data(j);
    }
    for (int ev = 0; ev < b.nevents; ++ev) {
      const int c = (int)(rng.next() % 100);
      std::string m;
      if (c < 10 || (!have_input && c < 45)) {
        const std::vector<int> xv = random_ints(rng, S.nv, 2, 60);
        set_image(S, *x, xv);
        const bool err = vh::threw([&] { H.fwd->set_input(*x); }, &m);
        have_input = true;
        tr.emit(vh::Json("SetInput").arr("x", xv).boolean("err", err));
      } else if (c < 35) {
        const int N = rng.range(1, S.nviews + 1), s = rng.range(0, N - 1);
        const bool zero = rng.coin(), with_image = rng.coin() || !have_input;
        vh::Json j("ForwardSubset");
        j.num("s", s).num("N", N).boolean("zero", zero).boolean("img", with_image);
        bool err;
        if (with_image) {
          const std::vector<int> xv = random_ints(rng, S.nv, 2, 60);
          set_image(S, *x, xv);
          j.arr("x", xv);
          err = vh::threw([&] { H.fwd->forward_project(data, *x, s, N, zero); }, &m);
        } else
          err = vh::threw([&] { H.fwd->forward_project(data, s, N, zero); }, &m);
        j.boolean("err", err);
        have_input = have_input || with_image;
        emit_data(j);
      } else if (c < 45 && have_input) {
        const ViewSegmentNumbers vs = bl[rng.next() % bl.size()];
        const Win w = pick_window(vs);
        const bool err = vh::threw([&] {
          RelatedViewgrams<float> r = data.get_related_viewgrams(vs, H.sym, false, w.k);
          fwd_window(*H.fwd, r, w);
          if (data.set_related_viewgrams(r) != Succeeded::yes) error("c04: set_related_viewgrams failed");
        }, &m);
        vh::Json j("ForwardGroup");
        j.arr("w", win_list(w)).boolean("err", err);
        emit_data(j);
      } else if (c < 55 || (!started && c < 92)) {
        const bool err = vh::threw([&] { H.bck->start_accumulating_in_new_target(); }, &m);
        started = true;
        tr.emit(vh::Json("StartNewTarget").boolean("err", err));
      } else if (c < 68) {
        const int N = rng.range(1, S.nviews + 1), s = rng.range(0, N - 1);
        const std::vector<int> y = random_ints(rng, S.nb, 3, 50);
        set_data(S, ydata, y);
        const bool err = vh::threw([&] { H.bck->back_project(ydata, s, N); }, &m);
        tr.emit(vh::Json("BackSubset").num("s", s).num("N", N).arr("y", y).boolean("err", err));
      } else if (c < 78) {
        const ViewSegmentNumbers vs = bl[rng.next() % bl.size()];
        const Win w = pick_window(vs);
        const std::vector<int> y = random_ints(rng, S.nb, 3, 70);
        set_data(S, ydata, y);
        const bool err = vh::threw([&] {
          const RelatedViewgrams<float> r = ydata.get_related_viewgrams(vs, H.sym, false, w.k);
          bck_window(*H.bck, r, w);
        }, &m);
        tr.emit(vh::Json("BackGroup").arr("w", win_list(w)).arr("y", y).boolean("err", err));
      } else if (c < 92) {
        const std::vector<int> junk = random_ints(rng, S.nv, 9, 100);
        set_image(S, *out, junk);
        const bool err = vh::threw([&] { H.bck->get_output(*out); }, &m);
        const DataLog d = log_image(S, *out);
        tr.emit(vh::Json("GetOutput").boolean("err", err).arr("ord", d.ord).arr("fx", d.fx));
      } else {
        const int N = rng.range(1, S.nviews + 1), s = rng.range(0, N - 1);
        const std::vector<int> y = random_ints(rng, S.nb, 3, 50), junk = random_ints(rng, S.nv, 9, 100);
        set_data(S, ydata, y);
        set_image(S, *out, junk);
        const bool err = vh::threw([&] { H.bck->back_project(*out, ydata, s, N); }, &m);
        started = true;
        const DataLog d = log_image(S, *out);
        tr.emit(vh::Json("BackInto").num("s", s).num("N", N).arr("y", y).boolean("err", err).arr("ord", d.ord).arr("fx", d.fx));
      }
    }
  }
}

// ------------------------------------------------------------------------------------------- same rows from another object
// rows of the whole-data calls with unit vectors (f or bk may be null)
static void whole_rows(const Sys& S, ForwardProjectorByBin* f, BackProjectorByBin* bk, std::vector<Row>& F, std::vector<Row>& B) {
  F.assign(S.nb, Row()); B.assign(S.nb, Row());
  shared_ptr<ExamInfo> ei(new ExamInfo);
  ProjDataInMemory data(ei, S.pdi), ydata(ei, S.pdi);
  shared_ptr<Image> e(S.zero_image->clone()), out(S.zero_image->clone());
  if (f)
    for (int v = 0; v < S.nv; ++v) {
      voxel(S, *e, v) = 1.F;
      f->forward_project(data, *e, 0, 1, true);
      scan_data(S, data, [&](int i, float val) { add_nonzero(F[i], v, val); });
      voxel(S, *e, v) = 0.F;
    }
  if (bk) {
    ydata.fill(0.F);
    for (int i = 0; i < S.nb; ++i) {
      Bin bin = S.bins[i];
      bin.set_bin_value(1.F);
      ydata.set_bin_value(bin);
      out->fill(-5.F);
      bk->back_project(*out, ydata, 0, 1);
      scan_image(S, *out, [&](int v, float val) { add_nonzero(B[i], v, val); });
      bin.set_bin_value(0.F);
      ydata.set_bin_value(bin);
    }
  }
}
// one Same line per bin: the rows of the object under test next to those of the reference object
static void emit_same(vh::Trace& tr, const std::string& ctx, const std::string& name, const std::string& pair, int step, const Sys& S, const std::vector<Row>* F,
                      const std::vector<Row>* rF, const std::vector<Row>* B, const std::vector<Row>* rB, const std::vector<Row>* O, const std::vector<Row>* rO) {
  for (int i = 0; i < S.nb; ++i) {
    vh::Json j("Same");
    j.str("ctx", ctx).str("name", name).str("pair", pair).num("step", step).num("ntof", S.ntof).num("i", i).arr("b", bin_list(S.bins[i]));
    if (F) j.raw("F", row_json((*F)[i], true)).raw("rF", row_json((*rF)[i], true));
    if (B) j.raw("B", row_json((*B)[i], true)).raw("rB", row_json((*rB)[i], true));
    if (O) j.raw("O", row_json((*O)[i], true)).raw("rO", row_json((*rO)[i], true));
    tr.emit(j);
  }
}
// image index conventions: the rows of block b (image z indices from b.zlo) next to those of fresh objects on the standard
// image (z indices from 0); then the same image with the x index range shifted by one and the origin moved back
static void same_as_standard(vh::Trace& tr, const Block& b, const Sys& S, const Routes& R) {
  bool otf = b.otf_same;
  Block sb = b;
  sb.zlo = 0;
  Sys T;
  std::string msg;
  if (!build(T, sb, &msg)) { tr.emit(vh::Json("SameRejected").str("name", b.name).str("msg", msg)); return; }
  std::vector<Row> rF, rB, rO, O, dummy;
  whole_rows(T, T.fwd.get(), T.bck.get(), rF, rB);
  if (otf) {
    // the on-the-fly projector on the block's image (it may refuse an image whose z indices do not start at 0) and on the standard one
    ForwardProjectorByBinUsingRayTracing f, fs;
    std::string om;
    if (vh::threw([&] { f.set_up(S.pdi, S.zero_image); }, &om)) {
      tr.emit(vh::Json("OtfRefused").str("name", b.name).num("zlo", b.zlo).str("msg", om));
      otf = false;
    } else {
      whole_rows(S, &f, nullptr, O, dummy);
      fs.set_up(T.pdi, T.zero_image);
      whole_rows(T, &fs, nullptr, rO, dummy);
    }
  }
  emit_same(tr, "zindex", b.name, b.pair, b.zlo, S, &R.F, &rF, &R.B, &rB, otf ? &O : nullptr, otf ? &rO : nullptr);
  // shifted x range
  Sys X;
  X.pdi = S.pdi;
  X.zero_image = make_image_idx(*S.pdi, b.g, b.zlo, 1);
  X.zero_image->fill(0.F);
  std::string m;
  const bool refused = vh::threw([&] {
    X.matrix = make_block_matrix(b);
    X.pair.reset(new ProjectorByBinPairUsingProjMatrixByBin(X.matrix));
    if (X.pair->set_up(X.pdi, X.zero_image) != Succeeded::yes) error("c04: set_up of the projector pair failed");
    X.fwd = X.pair->get_forward_projector_sptr();
    X.bck = X.pair->get_back_projector_sptr();
    fill_indices(X);
  }, &m);
  tr.emit(vh::Json("XYShift").str("name", b.name).str("pair", b.pair).num("xshift", 1).boolean("refused", refused).str("msg", m));
  if (!refused) {
    std::vector<Row> xF, xB;
    whole_rows(X, X.fwd.get(), X.bck.get(), xF, xB);
    emit_same(tr, "xshift", b.name, b.pair, 1, X, &xF, &rF, &xB, &rB, nullptr, nullptr);
  }
}

// re-use of one projector object: set_up again and again with other arguments; after each set_up its rows next to those of
// a fresh object set up with the current arguments
struct Step { std::string label; DataCfg d; GridCfg g; int zlo; };
static void reuse_sequence(vh::Trace& tr, const std::string& name, const Block& proto, bool otf, const std::vector<Step>& steps) {
  shared_ptr<ProjectorByBinPairUsingProjMatrixByBin> pair;
  shared_ptr<ForwardProjectorByBinUsingRayTracing> of;
  if (otf) of.reset(new ForwardProjectorByBinUsingRayTracing);
  else pair.reset(new ProjectorByBinPairUsingProjMatrixByBin(make_block_matrix(proto)));
  for (size_t n = 0; n < steps.size(); ++n) {
    Sys P;
    std::vector<Row> F, B, rF, rB;
    std::string m;
    const bool err = vh::threw([&] {
      P.pdi = make_pdi(steps[n].d);
      P.zero_image = make_image_idx(*P.pdi, steps[n].g, steps[n].zlo);
      P.zero_image->fill(0.F);
      fill_indices(P);
      if (otf) {
        of->set_up(P.pdi, P.zero_image);
        whole_rows(P, of.get(), nullptr, F, B);
        ForwardProjectorByBinUsingRayTracing fresh;
        fresh.set_up(P.pdi, P.zero_image);
        whole_rows(P, &fresh, nullptr, rF, rB);
      } else {
        if (pair->set_up(P.pdi, P.zero_image) != Succeeded::yes) error("c04: set_up failed");
        whole_rows(P, pair->get_forward_projector_sptr().get(), pair->get_back_projector_sptr().get(), F, B);
        ProjectorByBinPairUsingProjMatrixByBin fresh(make_block_matrix(proto));
        if (fresh.set_up(P.pdi, P.zero_image) != Succeeded::yes) error("c04: set_up failed");
        whole_rows(P, fresh.get_forward_projector_sptr().get(), fresh.get_back_projector_sptr().get(), rF, rB);
      }
    }, &m);
    tr.emit(vh::Json("ReuseStep").str("name", name).num("step", (int)n).str("label", steps[n].label).boolean("otf", otf)
                .num("nb", err ? 0 : P.nb).num("nv", err ? 0 : P.nv).boolean("err", err).str("msg", m));
    if (!err) emit_same(tr, "reuse", name, otf ? "otf" : proto.pair, (int)n, P, &F, &rF, otf ? nullptr : &B, otf ? nullptr : &rB, nullptr, nullptr);
  }
}

// ------------------------------------------------------------------------------------------- homogeneity
// one call made twice on the block's projector pair: with an integer image / integer data and with the same input times 2^k
static void scaled_events(vh::Trace& tr, const Block& b, Sys& S, vh::Rng& rng) {
  if (b.Ks.empty()) return;
  const std::vector<ViewSegmentNumbers> bl = basic_vs(S);
  shared_ptr<ExamInfo> ei(new ExamInfo);
  shared_ptr<Image> x(S.zero_image->clone()), out(S.zero_image->clone());
  for (int q = 0; q < b.nscaled; ++q) {
    const bool fwd = q % 2 == 0, group = q % 3 == 2;
    const int k = b.Ks[(q / 2) % b.Ks.size()];
    const int N = rng.range(1, S.nviews), s = rng.range(0, N - 1);
    const ViewSegmentNumbers vs = bl[rng.next() % bl.size()];
    Win w{ 0, vs.view_num(), vs.segment_num(), rng.range(S.min_tof, S.min_tof + S.ntof - 1), 0, 0, 0, 0, -1, rng.range(0, 2) };
    const int a0 = S.pdi->get_min_axial_pos_num(vs.segment_num()), a1 = S.pdi->get_max_axial_pos_num(vs.segment_num());
    const int t0 = S.min_tang, t1 = S.min_tang + S.ntang - 1;
    w.axlo = a0; w.axhi = a1; w.tlo = t0; w.thi = t1;
    if (w.mode >= 1) { w.axlo = rng.range(a0, a1); w.axhi = rng.range(w.axlo, a1); }
    if (w.mode == 2) { w.tlo = rng.range(t0, t1); w.thi = rng.range(w.tlo, t1); }
    const std::vector<int> in = fwd ? random_ints(rng, S.nv, 2, 60) : random_ints(rng, S.nb, 3, 60);
    DataLog d[2];
    std::string m;
    const bool err = vh::threw([&] {
      for (int pass = 0; pass < 2; ++pass) {
        const float scale = pass == 0 ? 1.F : std::ldexp(1.F, k);
        if (fwd) {
          ProjDataInMemory data(ei, S.pdi);
          set_image(S, *x, in, scale);
          if (group) {
            S.fwd->set_input(*x);
            RelatedViewgrams<float> r = data.get_empty_related_viewgrams(vs, S.sym, false, w.k);
            fwd_window(*S.fwd, r, w);
            if (data.set_related_viewgrams(r) != Succeeded::yes) error("c04: set_related_viewgrams failed");
          } else
            S.fwd->forward_project(data, *x, s, N, true);
          d[pass] = log_data(S, data);
        } else {
          ProjDataInMemory ydata(ei, S.pdi);
          set_data(S, ydata, in, scale);
          out->fill(-5.F);
          if (group) {
            const RelatedViewgrams<float> r = ydata.get_related_viewgrams(vs, S.sym, false, w.k);
            S.bck->start_accumulating_in_new_target();
            bck_window(*S.bck, r, w);
            S.bck->get_output(*out);
          } else
            S.bck->back_project(*out, ydata, s, N);
          d[pass] = log_image(S, *out);
        }
      }
    }, &m);
    tr.emit(vh::Json("Scaled").boolean("fwd", fwd).boolean("group", group).num("k", k).num("s", s).num("N", N)
                .arr("w", std::vector<int>{ w.bv, w.bs, w.k, w.axlo, w.axhi, w.tlo, w.thi, w.mode }).arr("in", in).boolean("err", err)
                .arr("ord1", d[0].ord).arr("ord2", d[1].ord));
  }
}

// ------------------------------------------------------------------------------------------- on-the-fly projector, groups
// forward_project(RelatedViewgrams&, ranges) of the on-the-fly ray-tracing projector into viewgrams that already contain data
static void otf_groups(vh::Trace& tr, const Block& b, Sys& S, vh::Rng& rng, int n) {
  ForwardProjectorByBinUsingRayTracing f;
  f.set_up(S.pdi, S.zero_image);
  shared_ptr<DataSymmetriesForViewSegmentNumbers> sym(f.get_symmetries_used()->clone());
  std::vector<ViewSegmentNumbers> bl;
  for (int seg = S.min_seg; seg <= S.pdi->get_max_segment_num(); ++seg)
    for (int view = 0; view < S.nviews; ++view) {
      ViewSegmentNumbers vs(view, seg);
      if (sym->is_basic(vs)) bl.push_back(vs);
    }
  shared_ptr<ExamInfo> ei(new ExamInfo);
  ProjDataInMemory data(ei, S.pdi);
  shared_ptr<Image> x(S.zero_image->clone());
  for (int q = 0; q < n; ++q) {
    const ViewSegmentNumbers vs = bl[rng.next() % bl.size()];
    Win w{ 0, vs.view_num(), vs.segment_num(), 0, 0, 0, 0, 0, -1, q % 3 };
    const int a0 = S.pdi->get_min_axial_pos_num(vs.segment_num()), a1 = S.pdi->get_max_axial_pos_num(vs.segment_num());
    const int t0 = S.min_tang, t1 = S.min_tang + S.ntang - 1;
    w.axlo = a0; w.axhi = a1; w.tlo = t0; w.thi = t1;
    if (w.mode >= 1) { w.axlo = rng.range(a0, a1); w.axhi = rng.range(w.axlo, a1); }
    if (w.mode == 2) { w.tlo = rng.range(t0, t1); w.thi = rng.range(w.tlo, t1); }
    if (q == 1) {
      // always present: an axial sub-range ending below the last axial position, segment 0, a view between the multiples of 45 degrees
      for (const ViewSegmentNumbers& c : bl)
        if (c.segment_num() == 0 && (4 * c.view_num()) % S.nviews != 0 && S.pdi->get_max_axial_pos_num(0) > S.pdi->get_min_axial_pos_num(0)) {
          w.bv = c.view_num(); w.bs = 0; w.mode = 1;
          w.axlo = S.pdi->get_min_axial_pos_num(0); w.axhi = S.pdi->get_max_axial_pos_num(0) - 1; w.tlo = t0; w.thi = t1;
          break;
        }
    }
    const ViewSegmentNumbers vsw(w.bv, w.bs);
    const std::vector<int> y = random_ints(rng, S.nb, 3, q == 0 ? 0 : 70), xv = random_ints(rng, S.nv, 2, 60);
    set_data(S, data, y);
    set_image(S, *x, xv);
    std::string m;
    const bool err = vh::threw([&] {
      f.set_input(*x);
      RelatedViewgrams<float> r = data.get_related_viewgrams(vsw, sym, false, w.k);
      fwd_window(f, r, w);
      if (data.set_related_viewgrams(r) != Succeeded::yes) error("c04: set_related_viewgrams failed");
    }, &m);
    const DataLog d = log_data(S, data);
    tr.emit(vh::Json("OtfGroup").arr("w", std::vector<int>{ w.bv, w.bs, w.k, w.axlo, w.axhi, w.tlo, w.thi, w.mode }).arr("y", y).arr("x", xv)
                .boolean("err", err).arr("ord", d.ord).arr("fx", d.fx));
  }
}

// ------------------------------------------------------------------------------------------- blocks
static std::vector<Block> blocks(int tier) {
  auto D = [](int N, int R, int span, int maxDelta, int mash, int tofMash, int maxT, int numTang, const char* geom = "Cylindrical") {
    DataCfg d; d.N = N; d.R = R; d.span = span; d.maxDelta = maxDelta; d.mash = mash; d.tofMash = tofMash; d.maxT = maxT; d.numTang = numTang; d.geom = geom; return d; };
  auto G = [](int nx, int ny, int nz, float vx, float vy, int nppr, int oz) {
    GridCfg g; g.nx = nx; g.ny = ny; g.nz = nz; g.vx = vx; g.vy = vy; g.nppr = nppr; g.oz = oz; return g; };
  std::vector<Block> bs;
  auto add = [&](const std::string& name, const DataCfg& d, const GridCfg& g, const std::string& pair, int sw, int ntl, int cache,
                 std::vector<int> Ns, bool groups, int nwin, bool otf, int nhist, int nev) {
    Block b; b.name = name; b.d = d; b.g = g; b.pair = pair; b.swbits = sw; b.ntl = ntl; b.cache = cache; b.Ns = Ns; b.groups = groups;
    b.nwinsets = nwin; b.otf = otf; b.nhist = nhist; b.nevents = nev; bs.push_back(b); };
  auto upto = [](int n) { std::vector<int> l; for (int i = 2; i <= n; ++i) l.push_back(i); return l; };
  const DataCfg cyl16 = D(16, 3, 1, 2, 1, 0, 0, 7), cyl8 = D(8, 2, 1, 1, 1, 0, 0, 5), tof8 = D(8, 2, 1, 1, 1, 1, 3, 5),
                blk8 = D(8, 2, 1, 1, 1, 0, 0, 5, "BlocksOnCylindrical"), cyl16s3 = D(16, 4, 3, 3, 1, 0, 0, 7),
                blk16 = D(16, 3, 1, 2, 1, 0, 0, 7, "BlocksOnCylindrical"), tof16 = D(16, 3, 1, 2, 1, 3, 9, 5);
  const GridCfg g9 = G(9, 9, 5, 5.3F, 5.3F, 2, 0), g7 = G(7, 7, 3, 8.3F, 8.3F, 2, 0), g8e = G(8, 8, 7, 5.3F, 5.3F, 2, 0),
                g7a = G(7, 9, 3, 8.3F, 6.1F, 2, 0),
                g15 = G(15, 15, 3, 5.3F, 5.3F, 2, 0), g15b = G(15, 15, 5, 5.3F, 5.3F, 2, 0);   // blocks: the FOV is 5 voxels inside the image
  if (tier == 0) {
    // extraction: 4 settings of the ray-tracing matrix (cache disabled = explicit symmetry loops / cached = row per bin),
    // the interpolation matrix, TOF, blocks; histories on the small systems
    add("cyl16-rt-sw31-c0", cyl16, g9, "rt", 31, 1, 0, { 2, 3 }, true, 3, true, 0, 0);
    add("cyl16-rt-sw31-c2-ntl2", cyl16, g9, "rt", 31, 2, 2, { 4 }, true, 3, false, 0, 0);
    add("cyl8-rt-sw31-c0-h", cyl8, g7, "rt", 31, 1, 0, { 2 }, true, 3, true, 3, 40);
    add("cyl8-rt-sw06-c1-h", cyl8, g7, "rt", 6, 1, 1, { 3 }, true, 3, false, 2, 40);
    add("cyl8-interp-c0-h", cyl8, g7, "interp", 31, 1, 0, { 2 }, true, 3, false, 2, 40);
    add("tof8-rt-c0-h", tof8, g7, "rt", 31, 1, 0, { 2 }, true, 3, false, 2, 40);
    add("tof8-rt-c2-h", tof8, g7, "rt", 31, 1, 2, { 3 }, true, 2, false, 1, 40);
    add("blk8-rt-c0-h", blk8, g15, "rt", 31, 1, 0, { 2 }, true, 3, false, 2, 40);
    // image index conventions: z indices -1..1 instead of 0..2 (and an attempt with a shifted x range)
    add("cyl8-rt-sw31-c0-zneg", cyl8, g7, "rt", 31, 1, 0, { 2 }, true, 2, false, 1, 30);
    bs.back().zlo = -1; bs.back().same_as_standard = true; bs.back().otf_same = true;
    add("cyl8-interp-c2-zpos", cyl8, g7, "interp", 31, 1, 2, { 3 }, true, 2, false, 0, 0);
    bs.back().zlo = 4; bs.back().same_as_standard = true;
  } else {
    // every requested switch setting x cache mode on the 8-detector systems (all N), the larger systems under a selection
    for (int sw = 0; sw < 32; ++sw)
      for (int cache = 0; cache < 3; ++cache) {
        const std::string tag = "-sw" + std::to_string(sw) + "-c" + std::to_string(cache);
        const bool otf = sw == 31 && cache == 0;   // the on-the-fly projector is compared with one tangential ray, default switches
        add("cyl8-rt" + tag, cyl8, (sw % 2) ? g7 : g7a, "rt", sw, otf ? 1 : 1 + (sw / 2) % 2, cache, upto(5), true, 4, otf, (sw % 4 == 3) ? 2 : 0, 50);
      }
    for (int cache = 0; cache < 3; ++cache)
      for (int sw : { 31, 30, 29, 27, 23, 15, 0 }) {
        const std::string tag = "-sw" + std::to_string(sw) + "-c" + std::to_string(cache);
        add("cyl16-rt" + tag, cyl16, g9, "rt", sw, 1, cache, cache == 0 && sw == 31 ? upto(9) : std::vector<int>{ 2, 3, 4 }, true, 4, sw == 31 && cache == 0, 0, 0);
      }
    add("cyl16-rt-even-c0", cyl16, g8e, "rt", 31, 1, 0, { 2, 8 }, true, 4, true, 0, 0);
    add("cyl16s3-rt-c0", cyl16s3, g8e, "rt", 31, 1, 0, { 2, 3 }, true, 4, true, 0, 0);
    add("cyl16s3-rt-c2", cyl16s3, g8e, "rt", 31, 2, 2, { 4 }, true, 4, false, 0, 0);
    for (int cache = 0; cache < 3; ++cache) {
      add("cyl16-interp-c" + std::to_string(cache), cyl16, g9, "interp", 31, 1, cache, { 2, 3 }, true, 4, false, 0, 0);
      add("cyl8-interp-c" + std::to_string(cache), cyl8, g7, "interp", cache == 1 ? 6 : 31, 1, cache, upto(5), true, 4, false, 2, 50);
      add("tof8-rt-c" + std::to_string(cache), tof8, g7, "rt", 31, 1 + cache % 2, cache, upto(5), true, 4, false, 2, 50);
      add("tof16-rt-c" + std::to_string(cache), tof16, g9, "rt", 31, 1, cache, { 2, 3 }, true, 3, false, 0, 0);
      add("blk8-rt-c" + std::to_string(cache), blk8, g15, "rt", 31, 1, cache, upto(5), true, 4, false, 2, 50);
      add("blk16-rt-c" + std::to_string(cache), blk16, g15b, "rt", 31, 1, cache, { 2, 3 }, true, 3, false, 0, 0);
      // image index conventions
      add("cyl8-rt-zneg-c" + std::to_string(cache), cyl8, g7, "rt", cache == 1 ? 6 : 31, 1, cache, { 2, 3 }, true, 3, false, 1, 40);
      bs.back().zlo = -1; bs.back().same_as_standard = true; bs.back().otf_same = cache == 0;
      add("cyl16-rt-zneg-c" + std::to_string(cache), cyl16, g9, "rt", 31, 1, cache, { 2 }, true, 3, false, 0, 0);
      bs.back().zlo = -2 - cache; bs.back().same_as_standard = true; bs.back().otf_same = cache == 0;
      add("cyl8-interp-zpos-c" + std::to_string(cache), cyl8, g7, "interp", 31, 1, cache, { 3 }, true, 2, false, 1, 40);
      bs.back().zlo = 3 + cache; bs.back().same_as_standard = true;
      add("tof8-rt-zneg-c" + std::to_string(cache), tof8, g7, "rt", 31, 1, cache, { 2 }, true, 2, false, 1, 40);
      bs.back().zlo = -2; bs.back().same_as_standard = true;
      add("blk8-rt-zneg-c" + std::to_string(cache), blk8, g15, "rt", 31, 1, cache, { 2 }, true, 2, false, 0, 0);
      bs.back().zlo = -1; bs.back().same_as_standard = true;
    }
  }
  // exponents of the scaled routes: the large systems get two, the small ones (every projector pair / geometry class) all
  for (Block& b : bs) {
    const bool large = b.d.N >= 16;
    if (tier == 0) b.Ks = large ? std::vector<int>{ -40, 40 } : std::vector<int>{ -60, -40, -30, -20, 30 };
    else b.Ks = large ? std::vector<int>{ -60, -30, 40 } : std::vector<int>{ -60, -40, -30, -20, 20, 40, 60 };
    b.nscaled = 2 * (int)b.Ks.size();   // a forward and a back call per exponent
  }
  return bs;
}

int main(int argc, char** argv) {
  vh::install_terminate();
  vh::quiet();
  if (argc < 4) { fprintf(stderr, "usage: c04_projectors list|run <out> <tier> [first last]\n"); return 2; }
  const std::string mode = argv[1];
  const int tier = atoi(argv[3]);
  const std::vector<Block> bs = blocks(tier);
  if (!getenv("VERIF_STDERR")) { if (!freopen("/dev/null", "w", stderr)) return 3; }
  if (mode == "list") {
    FILE* f = fopen(argv[2], "w");
    if (!f) return 3;
    for (size_t i = 0; i < bs.size(); ++i) fprintf(f, "%zu %s %d\n", i, bs[i].name.c_str(), (int)(bs[i].d.N * bs[i].d.R * bs[i].Ns.size()));
    fclose(f);
    return 0;
  }
  if (mode == "reuse") {
    // c04_projectors reuse <out> <tier>: set_up histories of single projector objects
    vh::Trace tr(argv[2]);
    auto D = [](int N, int R, int maxDelta, int tofMash, int maxT, int numTang) {
      DataCfg d; d.N = N; d.R = R; d.span = 1; d.maxDelta = maxDelta; d.tofMash = tofMash; d.maxT = maxT; d.numTang = numTang; return d; };
    auto G = [](int n, int nz, float v, int nppr, int oz) { GridCfg g; g.nx = g.ny = n; g.nz = nz; g.vx = g.vy = v; g.nppr = nppr; g.oz = oz; return g; };
    const DataCfg d8 = D(8, 2, 1, 0, 0, 5), d8b = D(8, 2, 0, 0, 0, 5), d8t = D(8, 2, 1, 1, 3, 5), d16 = D(16, 3, 2, 0, 0, 7);
    // same data, other grids: more planes + shifted z origin; one plane per ring; negative z indices; other x/y size
    const std::vector<Step> small = { { "first", d8, G(7, 3, 8.3F, 2, 0), 0 },          { "same data, 5 planes, z origin +1", d8, G(7, 5, 8.3F, 2, 1), 0 },
                                      { "same data, 1 plane per ring", d8, G(7, 2, 8.3F, 1, 0), 0 }, { "same data, z indices from -2", d8, G(7, 3, 8.3F, 2, 0), -2 },
                                      { "other data (segment 0 only), same image", d8b, G(7, 3, 8.3F, 2, 0), -2 },
                                      { "same data, 9x9 image", d8b, G(9, 3, 6.3F, 2, 0), 0 }, { "back to the first", d8, G(7, 3, 8.3F, 2, 0), 0 } };
    std::vector<Step> tofs = small;
    tofs[4] = { "other data (TOF), same image", d8t, G(7, 3, 8.3F, 2, 0), -2 };
    tofs[5] = { "TOF data, 9x9 image", d8t, G(9, 3, 6.3F, 2, 0), 0 };
    const std::vector<Step> large = { { "first", d16, G(9, 5, 5.3F, 2, 0), 0 }, { "same data, 7 planes", d16, G(9, 7, 5.3F, 2, 0), 0 },
                                      { "other data, same image", d8, G(9, 7, 5.3F, 2, 0), 0 }, { "back to the first", d16, G(9, 5, 5.3F, 2, 0), 0 } };
    Block proto; proto.pair = "rt"; proto.swbits = 31; proto.ntl = 1;
    std::vector<Step> osmall = small;      // the on-the-fly projector needs z indices from 0: shifted z origin instead
    osmall[3] = { "same data, z origin -1", d8, G(7, 3, 8.3F, 2, -1), 0 };
    osmall[4].zlo = 0;
    reuse_sequence(tr, "otf-small", proto, true, osmall);
    for (int cache = 0; cache < 3; ++cache) {
      if (tier == 0 && cache == 1) continue;
      proto.pair = "rt"; proto.cache = cache; proto.swbits = 31; proto.ntl = 1 + cache / 2;
      reuse_sequence(tr, "rt-c" + std::to_string(cache), proto, false, cache == 2 ? tofs : small);
    }
    proto.pair = "interp"; proto.cache = 2; proto.ntl = 1;
    reuse_sequence(tr, "interp-c2", proto, false, small);
    if (tier > 0) {
      reuse_sequence(tr, "otf-large", proto, true, large);
      proto.pair = "rt"; proto.cache = 1; proto.swbits = 6;
      reuse_sequence(tr, "rt-sw6-c1-large", proto, false, large);
      proto.pair = "interp"; proto.cache = 0; proto.swbits = 31;
      reuse_sequence(tr, "interp-c0", proto, false, small);
      proto.pair = "rt"; proto.cache = 2; proto.swbits = 27;
      std::vector<Step> rev(tofs.rbegin(), tofs.rend());
      reuse_sequence(tr, "rt-sw27-c2-reversed", proto, false, rev);
    }
    return 0;
  }
  const int first = argc > 4 ? atoi(argv[4]) : 0, last = argc > 5 ? atoi(argv[5]) : (int)bs.size() - 1;
  vh::Trace tr(argv[2]);
  for (int bi = first; bi <= last && bi < (int)bs.size(); ++bi) {
    const Block& b = bs[bi];
    vh::Rng rng((uint64_t)vh::seed_from_env() * 7919 + bi);   // per block: a block's trace does not depend on the others
    Sys S;
    std::string msg;
    if (!build(S, b, &msg)) { tr.emit(vh::Json("ConfigRejected").num("id", bi).str("name", b.name).str("msg", msg)); continue; }
    std::vector<Win> wins;
    make_windows(S, rng, b.nwinsets, wins);
    const bool otf = b.otf;
    Routes R;
    std::string emsg;
    if (vh::threw([&] { extract(b, S, R, wins, otf); }, &emsg)) {
      tr.emit(vh::Json("ConfigRejected").num("id", bi).str("name", b.name).str("msg", "extract: " + emsg));
      continue;
    }
    emit_config(tr, b, S, bi, wins, otf);
    emit_bins(tr, S, R, otf);
    if (b.nhist > 0) histories(tr, b, S, R, rng);
    if (otf) otf_groups(tr, b, S, rng, tier == 0 ? 6 : 9);
    scaled_events(tr, b, S, rng);
    if (b.same_as_standard) same_as_standard(tr, b, S, R);
    tr.flush();
  }
  return 0;
}
