// C06 driver: drives the real subset / symmetry / schedule code of STIR and records what it answers.
// No property formula, no expected value, no comparison in here: TLC (Trace_Subsets.tla,
// Trace_IterSchedule.tla) decides.
//
//   c06_subsets subsets <out.ndjson> <stage>       stage 0: quick family of view numbers, 1: ALL views 1..96
//   c06_subsets proj    <out.ndjson> <stage>       projector / objective-function level: which viewgrams are touched
//   c06_subsets sched   <out.ndjson> <maxN> <iters> <stage>   sub-iteration -> subset schedules
//   c06_subsets events  <out.ndjson> <stage>       which sub-iterations trigger filters / reports / files; resuming from a saved file
//   c06_subsets recon   <out.ndjson> <out-sched.ndjson> <stage>   real reconstructions on recording data (both kinds of lines)
//
// A (view, segment) pair is logged as the integer code (segment+8)*256 + view; a (view, segment, TOF bin)
// triple as ((tof+8)*32 + segment+8)*256 + view.
#include "vh_stir.h"
#include "vh_wrap_objective.h"
#include "stir/recon_buildblock/find_basic_vs_nums_in_subsets.h"
#include "stir/recon_buildblock/DataSymmetriesForBins_PET_CartesianGrid.h"
#include "stir/recon_buildblock/TrivialDataSymmetriesForBins.h"
#include "stir/recon_buildblock/ProjMatrixByBinUsingRayTracing.h"
#include "stir/recon_buildblock/ProjMatrixElemsForOneBin.h"
#include "stir/recon_buildblock/ProjectorByBinPairUsingProjMatrixByBin.h"
#include "stir/recon_buildblock/ForwardProjectorByBinUsingProjMatrixByBin.h"
#include "stir/recon_buildblock/BackProjectorByBinUsingProjMatrixByBin.h"
#include "stir/recon_buildblock/PoissonLogLikelihoodWithLinearModelForMeanAndProjData.h"
#include "stir/recon_buildblock/TrivialBinNormalisation.h"
#include "stir/OSMAPOSL/OSMAPOSLReconstruction.h"
#include "stir/OSSPS/OSSPSReconstruction.h"
#include "stir/analytic/FBP2D/FBP2DReconstruction.h"
#include "stir/KOSMAPOSL/KOSMAPOSLReconstruction.h"
#include "stir/IO/OutputFileFormat.h"
#include "stir/DataProcessor.h"
#include "stir/recon_buildblock/BinNormalisation.h"
#include "stir/ProjDataInMemory.h"
#include "stir/ProjDataInfoSubsetByView.h"
#include "stir/VoxelsOnCartesianGrid.h"
#include "stir/ViewSegmentNumbers.h"
#include "stir/RelatedViewgrams.h"
#include "stir/Viewgram.h"
#include "stir/ExamInfo.h"
#include <functional>
#include <set>
#include <map>
#include <algorithm>
#include <sys/wait.h>
#include <sys/stat.h>
#include <dirent.h>
#include <signal.h>
using namespace stir;
typedef DiscretisedDensity<3, float> Image;

static int vscode(int view, int seg) { return (seg + 8) * 256 + view; }
static int vscode(const ViewSegmentNumbers& vs) { return vscode(vs.view_num(), vs.segment_num()); }
static int vstcode(int view, int seg, int tof) { return ((tof + 8) * 32 + seg + 8) * 256 + view; }

// ---------------------------------------------------------------------------------------------------
// a ProjMatrixByBin whose only job is to carry a given symmetries object (the documented seam for
// user-supplied matrices); rows are identity-like (one voxel) and only used by the `proj' mode
// ---------------------------------------------------------------------------------------------------
typedef std::function<shared_ptr<DataSymmetriesForBins>(const shared_ptr<const ProjDataInfo>&, const shared_ptr<const Image>&)> SymMaker;
class VhMatrix : public ProjMatrixByBin {
public:
  explicit VhMatrix(SymMaker m) : maker(std::move(m)) {}
  void set_up(const shared_ptr<const ProjDataInfo>& pdi, const shared_ptr<const Image>& image) override {
    ProjMatrixByBin::set_up(pdi, image);
    this->symmetries_sptr = maker(pdi, image);
    image->get_regular_range(mn, mx);
  }
  VhMatrix* clone() const override { return new VhMatrix(*this); }
  std::string get_registered_name() const override { return "VhMatrix"; }
protected:
  void calculate_proj_matrix_elems_for_one_bin(ProjMatrixElemsForOneBin& row) const override {
    // a single central voxel with weight 1 for every bin (enough to make every touched viewgram non-zero)
    row.erase();
    row.push_back(ProjMatrixElemsForOneBin::value_type(Coordinate3D<int>((mn[1] + mx[1]) / 2, (mn[2] + mx[2]) / 2, (mn[3] + mx[3]) / 2), 1.F));
  }
private:
  SymMaker maker;
  CartesianCoordinate3D<int> mn, mx;
};

// ---------------------------------------------------------------------------------------------------
// configurations
// ---------------------------------------------------------------------------------------------------
struct Variant {
  std::string kind;        // "cyl", "trivial", "shifted", "blocks", "subsetpdi"
  bool r90, r180, rseg;    // requested switches (swap_s and shift_z always requested)
  int tofMash = 0;         // > 0: TOF data
  int mash = 1;            // view mashing (gives a phi offset)
  bool nonsquare = false;  // voxel size x != y
  bool shifted = false;    // image origin shifted in x
  int span = 1;            // axial compression
  bool reduce = false;     // reduce_segment_range(redMin, redMax) on the data (possibly not symmetric)
  int redMin = 0, redMax = 0;
};

struct Built {
  shared_ptr<ProjDataInfo> pdi;
  shared_ptr<Image> image;
  shared_ptr<ProjMatrixByBin> matrix;
  shared_ptr<ProjectorByBinPair> pair;
  const DataSymmetriesForViewSegmentNumbers* sym = nullptr;   // owned by the matrix: refresh() after every set_up of the pair
  void refresh() { sym = pair->get_back_projector_sptr()->get_symmetries_used(); }
  bool eff[5] = { false, false, false, false, false };
  bool cartesian = false;
};

static const int RINGS = 3;   // span 1, max ring difference 2: segments -2..2

static bool build(Built& b, const Variant& v, int views, std::string* msg, int rings = RINGS, int ntang = 0) {
  return !vh::threw([&] {
    const std::string geom = v.kind == "blocks" ? "BlocksOnCylindrical" : "Cylindrical";
    const int N = 2 * views * v.mash;
    shared_ptr<Scanner> sc = vh::make_scanner(N, rings, v.tofMash > 0 ? 5 : 0, geom);
    const int nt = std::max(1, std::min(ntang > 0 ? ntang : 5, N - 1));
    if (v.kind == "subsetpdi") {
      // the `views' even views of data with twice as many views (ProjDataInfoSubsetByView)
      shared_ptr<Scanner> sc2 = vh::make_scanner(2 * N, rings, 0, geom);
      shared_ptr<ProjDataInfo> org = ProjDataInfo::construct_proj_data_info(sc2, 1, rings - 1, 2 * views, std::max(1, std::min(5, 2 * N - 1)), false, 0);
      std::vector<int> sel;
      for (int i = 0; i < views; ++i) sel.push_back(2 * i);
      b.pdi.reset(new ProjDataInfoSubsetByView(org, sel));
    } else
      b.pdi = ProjDataInfo::construct_proj_data_info(sc, v.span, rings - 1, views, nt, false, v.tofMash);
    if (v.reduce) b.pdi->reduce_segment_range(v.redMin, v.redMax);
    CartesianCoordinate3D<float> origin(0.F, 0.F, v.shifted ? 3.F : 0.F);
    auto* vox = new VoxelsOnCartesianGrid<float>(*b.pdi, 1.F, origin, CartesianCoordinate3D<int>(-1, 5, 5));
    if (v.nonsquare) {
      CartesianCoordinate3D<float> vs = vox->get_voxel_size();
      vs.x() *= 1.5F;
      vox->set_voxel_size(vs);
    }
    b.image.reset(vox);
    const bool real_matrix = (v.kind == "cyl" || v.kind == "blocks") && !v.shifted;
    if (real_matrix) {
      auto* m = new ProjMatrixByBinUsingRayTracing;
      m->set_do_symmetry_90degrees_min_phi(v.r90);
      m->set_do_symmetry_180degrees_min_phi(v.r180);
      m->set_do_symmetry_swap_segment(v.rseg);
      m->set_do_symmetry_swap_s(true);
      m->set_do_symmetry_shift_z(true);
      b.matrix.reset(m);
    } else if (v.kind == "trivial") {
      b.matrix.reset(new VhMatrix([](const shared_ptr<const ProjDataInfo>& p, const shared_ptr<const Image>&) {
        return shared_ptr<DataSymmetriesForBins>(new TrivialDataSymmetriesForBins(p)); }));
    } else {
      const Variant vv = v;
      b.matrix.reset(new VhMatrix([vv](const shared_ptr<const ProjDataInfo>& p, const shared_ptr<const Image>& im) {
        return shared_ptr<DataSymmetriesForBins>(new DataSymmetriesForBins_PET_CartesianGrid(p, im, vv.r90, vv.r180, vv.rseg, true, true)); }));
    }
    b.pair.reset(new ProjectorByBinPairUsingProjMatrixByBin(b.matrix));
    b.pair->set_up(b.pdi, b.image);
    b.sym = b.pair->get_back_projector_sptr()->get_symmetries_used();
    if (auto* c = dynamic_cast<const DataSymmetriesForBins_PET_CartesianGrid*>(b.sym)) {
      b.cartesian = true;
      b.eff[0] = c->using_symmetry_90degrees_min_phi(); b.eff[1] = c->using_symmetry_180degrees_min_phi();
      b.eff[2] = c->using_symmetry_swap_segment(); b.eff[3] = c->using_symmetry_swap_s(); b.eff[4] = c->using_symmetry_shift_z();
    }
  }, msg);
}

static long cfg_id = 0;

static void emit_config(vh::Trace& tr, const Variant& v, const Built& b, int views, int minSeg, int maxSeg) {
  std::vector<int> req = { v.r90, v.r180, v.rseg, 1, 1 }, eff(b.eff, b.eff + 5);
  tr.emit(vh::Json("Config").num("id", ++cfg_id).str("kind", v.kind).num("views", views).num("numViews", b.pdi->get_num_views())
              .num("minView", b.pdi->get_min_view_num()).num("maxView", b.pdi->get_max_view_num())
              .num("minSeg", minSeg).num("maxSeg", maxSeg).num("span", v.span).num("dataMinSeg", b.pdi->get_min_segment_num()).num("dataMaxSeg", b.pdi->get_max_segment_num())
              .num("minTof", b.pdi->get_min_tof_pos_num()).num("maxTof", b.pdi->get_max_tof_pos_num())
              .arr("req", req).arr("eff", eff).boolean("cartesian", b.cartesian)
              .num("mash", v.mash).boolean("nonsquare", v.nonsquare).boolean("shifted", v.shifted).boolean("tof", v.tofMash > 0));
}

// what the symmetries object says about every (view, segment) of the processed range
static void emit_basic_related(vh::Trace& tr, const Built& b, int minSeg, int maxSeg) {
  std::vector<int> isb;
  std::vector<std::vector<int>> fb, rel;
  for (int seg = minSeg; seg <= maxSeg; ++seg)
    for (int view = b.pdi->get_min_view_num(); view <= b.pdi->get_max_view_num(); ++view) {
      const ViewSegmentNumbers vs(view, seg);
      if (b.sym->is_basic(vs)) isb.push_back(vscode(vs));
      ViewSegmentNumbers c = vs;
      const bool changed = b.sym->find_basic_view_segment_numbers(c);
      fb.push_back({ vscode(vs), vscode(c), changed ? 1 : 0 });
    }
  tr.emit(vh::Json("Basic").arr("isb", isb).arr2("fb", fb));
  for (int code : isb) {
    const ViewSegmentNumbers vs(code % 256, code / 256 - 8);
    std::vector<ViewSegmentNumbers> r;
    b.sym->get_related_view_segment_numbers(r, vs);
    std::vector<int> l = { code, b.sym->num_related_view_segment_numbers(vs) };
    for (auto& x : r) l.push_back(vscode(x));
    rel.push_back(l);
  }
  tr.emit(vh::Json("Related").arr2("rel", rel));
}

typedef PoissonLogLikelihoodWithLinearModelForMeanAndProjData<Image> PLL;

static void record_subsets(vh::Trace& tr, const Variant& v, int views, const std::vector<int>& maxSegs, const std::vector<int>& Ns_in, vh::Rng& rng) {
  Built b;
  std::string msg;
  if (!build(b, v, views, &msg)) {
    tr.emit(vh::Json("ConfigRejected").str("kind", v.kind).num("views", views).str("msg", msg));
    return;
  }
  shared_ptr<ExamInfo> ei(new ExamInfo);
  ei->imaging_modality = ImagingModality::PT;
  shared_ptr<ProjData> pd(new ProjDataInMemory(ei, b.pdi));
  PLL obj;
  obj.set_proj_data_sptr(pd);
  obj.set_projector_pair_sptr(b.pair);
  for (int maxSeg : maxSegs) {
    if (maxSeg > b.pdi->get_max_segment_num()) continue;
    emit_config(tr, v, b, views, -maxSeg, maxSeg);
    emit_basic_related(tr, b, -maxSeg, maxSeg);
    obj.set_max_segment_num_to_process(maxSeg);
    std::vector<int> Ns = Ns_in;
    if (Ns.empty()) { for (int N = 1; N <= views; ++N) Ns.push_back(N); Ns.push_back(views + 1 + rng.range(0, 3)); }
    for (int N : Ns) {
      std::vector<std::vector<int>> subs;
      for (int s = 0; s < N; ++s) {
        std::vector<ViewSegmentNumbers> l = detail::find_basic_vs_nums_in_subset(*b.pdi, *b.sym, -maxSeg, maxSeg, s, N);
        std::vector<int> codes;
        for (auto& x : l) codes.push_back(vscode(x));
        subs.push_back(codes);
      }
      const int used = obj.set_num_subsets(N);
      std::string warn;
      const bool bal = obj.subsets_are_approximately_balanced(warn);
      tr.emit(vh::Json("Subsets").num("N", N).num("used", used).boolean("bal", bal).boolean("warned", !warn.empty()).arr2("subs", subs));
    }
  }
}

// ---------------------------------------------------------------------------------------------------
// every configuration is driven in a child process: if the code under test dies (signal, abort) the
// parent turns that into an observation instead of dying with it.  The child writes to scratch
// files whose complete lines the parent copies into the trace(s).
// ---------------------------------------------------------------------------------------------------
static std::string g_tmp;   // scratch file prefix (set in main)
static void reemit(vh::Trace& tr, const std::string& path) {
  std::ifstream in(path);
  std::string line;
  while (std::getline(in, line))
    if (line.size() > 7 && line.back() == '}' && line.compare(0, 5, "{\"e\":") == 0)
      tr.emit(vh::Json().raw("e", line.substr(5, line.size() - 6)));   // {"e":<rest>} verbatim
}
// returns 0 if the child finished, otherwise the signal number (or -1 for another abnormal end)
static int forked(vh::Trace& tr, vh::Trace* trs, const std::function<void(vh::Trace&, vh::Trace&)>& body) {
  tr.flush();
  if (trs) trs->flush();
  const std::string fa = g_tmp + ".childA", fb = g_tmp + ".childB";
  const pid_t pid = fork();
  if (pid < 0) { perror("fork"); _exit(3); }
  if (pid == 0) {
    {
      vh::Trace b(fb);
      vh::Trace a(fa);      // constructed last: the one vh::on_terminate writes its Abort line to
      body(a, b);
      a.flush(); b.flush();
    }
    _exit(0);
  }
  int status = 0;
  waitpid(pid, &status, 0);
  vh::Trace::current() = &tr;
  reemit(tr, fa);
  if (trs) reemit(*trs, fb);
  unlink(fa.c_str()); unlink(fb.c_str());
  if (WIFEXITED(status) && WEXITSTATUS(status) == 0) return 0;
  return WIFSIGNALED(status) ? WTERMSIG(status) : -1;
}
static void emit_died(vh::Trace& tr, const char* what, const Variant& v, int views, int sig) {
  tr.emit(vh::Json("Died").str("what", what).str("kind", v.kind).num("views", views).num("sig", sig));
}

static std::vector<Variant> switch_variants() {
  std::vector<Variant> vs;
  for (int k = 0; k < 6; ++k) {
    static const bool S[6][3] = { { 1, 1, 1 }, { 1, 1, 0 }, { 0, 1, 1 }, { 0, 1, 0 }, { 0, 0, 1 }, { 0, 0, 0 } };
    Variant v; v.kind = "cyl"; v.r90 = S[k][0]; v.r180 = S[k][1]; v.rseg = S[k][2];
    vs.push_back(v);
  }
  { Variant v; v.kind = "trivial"; v.r90 = v.r180 = v.rseg = false; vs.push_back(v); }
  return vs;
}
static std::vector<Variant> extra_variants() {
  std::vector<Variant> vs;
  { Variant v; v.kind = "cyl"; v.r90 = true; v.r180 = false; v.rseg = true; vs.push_back(v); }            // 90 requested without 180
  { Variant v; v.kind = "cyl"; v.r90 = v.r180 = v.rseg = true; v.nonsquare = true; vs.push_back(v); }      // 90 -> 180
  { Variant v; v.kind = "cyl"; v.r90 = v.r180 = v.rseg = true; v.tofMash = 1; vs.push_back(v); }           // TOF: all off
  { Variant v; v.kind = "cyl"; v.r90 = v.r180 = v.rseg = true; v.mash = 2; vs.push_back(v); }              // phi offset: view symmetries off
  { Variant v; v.kind = "shifted"; v.r90 = v.r180 = v.rseg = true; v.shifted = true; vs.push_back(v); }    // shifted image: all off
  { Variant v; v.kind = "blocks"; v.r90 = v.r180 = v.rseg = true; vs.push_back(v); }                       // blocks: all off
  { Variant v; v.kind = "subsetpdi"; v.r90 = v.r180 = v.rseg = true; vs.push_back(v); }                    // ProjDataInfoSubsetByView: view symmetries off
  { Variant v; v.kind = "trivial"; v.r90 = v.r180 = v.rseg = false; v.tofMash = 1; vs.push_back(v); }
  return vs;
}

static void mode_subsets(vh::Trace& tr, int stage, vh::Rng& rng) {
  std::vector<int> viewsList;
  if (stage >= 1) for (int v = 1; v <= 96; ++v) viewsList.push_back(v);
  else {
    for (int v = 1; v <= 20; ++v) viewsList.push_back(v);
    for (int v : { 24, 32, 64, 96 }) viewsList.push_back(v);
    viewsList.push_back(rng.range(25, 95));
  }
  const std::vector<Variant> sv = switch_variants(), ev = extra_variants();
  for (int views : viewsList) {
    for (auto& v : sv) {
      vh::Rng r2(rng.next());
      const int sig = forked(tr, nullptr, [&](vh::Trace& a, vh::Trace&) { record_subsets(a, v, views, { 0, 1, 2 }, {}, r2); });
      if (sig) emit_died(tr, "subsets", v, views, sig);
    }
    // the other ways of arriving at a class: all numbers of subsets for small/selected view numbers, sampled otherwise
    const bool all = views <= 12 || views == 24 || views == 36 || (stage >= 1 && views % 16 == 0);
    for (auto& v : ev) {
      if (v.kind == "blocks" && views < 4) continue;
      std::vector<int> Ns;
      if (!all) { Ns = { 1, 2, views, rng.range(1, views), rng.range(1, views) }; }
      const int ms = rng.range(0, 2);
      vh::Rng r2(rng.next());
      const int sig = forked(tr, nullptr, [&](vh::Trace& a, vh::Trace&) { record_subsets(a, v, views, { ms }, Ns, r2); });
      if (sig) emit_died(tr, "subsets", v, views, sig);
    }
  }
}

// ---------------------------------------------------------------------------------------------------
// projector / objective-function level: which (view, segment, TOF bin) viewgrams are read / written
// ---------------------------------------------------------------------------------------------------
class RecProjData : public ProjDataInMemory {
public:
  RecProjData(const shared_ptr<const ExamInfo>& ei, const shared_ptr<const ProjDataInfo>& pdi) : ProjDataInMemory(ei, pdi) {}
  mutable std::vector<int> reads, writes;
  bool recording = false;
  Viewgram<float> get_viewgram(const int view_num, const int segment_num, const bool odd = false, const int timing_pos = 0) const override {
    if (recording) reads.push_back(vstcode(view_num, segment_num, timing_pos));
    return ProjDataInMemory::get_viewgram(view_num, segment_num, odd, timing_pos);
  }
  Succeeded set_viewgram(const Viewgram<float>& v) override {
    if (recording) writes.push_back(vstcode(v.get_view_num(), v.get_segment_num(), v.get_timing_pos_num()));
    return ProjDataInMemory::set_viewgram(v);
  }
  void start() { reads.clear(); writes.clear(); recording = true; }
  void stop() { recording = false; }
};

// a normalisation object with all efficiencies 1 that records the viewgrams it is asked to (un)normalise:
// the sensitivity computation reads no measured data, but it passes every viewgram of its subset through here
class RecNorm : public BinNormalisation {
public:
  mutable std::vector<int> seen;
  mutable bool recording = false;
  float get_bin_efficiency(const Bin&) const override { return 1.F; }
  std::string get_registered_name() const override { return "RecNorm"; }
  void apply(stir::RelatedViewgrams<float>& v) const override { note(v); }
  void undo(stir::RelatedViewgrams<float>& v) const override { note(v); }
  void start() const { seen.clear(); recording = true; }
  void stop() const { recording = false; }
private:
  void note(const stir::RelatedViewgrams<float>& v) const {
    if (!recording) return;
    for (auto it = v.begin(); it != v.end(); ++it) seen.push_back(vstcode(it->get_view_num(), it->get_segment_num(), it->get_timing_pos_num()));
  }
};

static void emit_touched(vh::Trace& tr, const char* op, int N, int s, bool err, const std::vector<int>& codes) {
  tr.emit(vh::Json("Touched").str("op", op).num("N", N).num("s", s).boolean("err", err).arr("codes", codes));
}

static void record_proj(vh::Trace& tr, const Variant& v, int views, int rings, const std::vector<int>& Ns, bool with_objective) {
  Built b;
  std::string msg;
  if (!build(b, v, views, &msg, rings, 3)) {
    tr.emit(vh::Json("ConfigRejected").str("kind", v.kind).num("views", views).str("msg", msg));
    return;
  }
  shared_ptr<ExamInfo> ei(new ExamInfo);
  ei->imaging_modality = ImagingModality::PT;
  shared_ptr<RecProjData> pd(new RecProjData(ei, b.pdi));
  pd->fill(1.F);
  shared_ptr<Image> ones(b.image->clone());
  ones->fill(1.F);
  const int dataMin = b.pdi->get_min_segment_num(), dataMax = b.pdi->get_max_segment_num();
  const bool symmetric = dataMin == -dataMax;
  // projectors process the whole segment range of the data
  emit_config(tr, v, b, views, dataMin, dataMax);
  emit_basic_related(tr, b, dataMin, dataMax);
  auto fp = b.pair->get_forward_projector_sptr();
  auto bp = b.pair->get_back_projector_sptr();
  for (int N : Ns) {
    std::vector<int> sweep;
    bool sweep_err = false;
    for (int s = 0; s < N; ++s) {
      pd->start();
      bool err = vh::threw([&] { fp->forward_project(*pd, *ones, s, N, false); });
      pd->stop();
      emit_touched(tr, "fwd", N, s, err, pd->writes);
      sweep.insert(sweep.end(), pd->writes.begin(), pd->writes.end());
      sweep_err = sweep_err || err;
      pd->fill(1.F);
      shared_ptr<Image> out(b.image->get_empty_copy());
      pd->start();
      err = vh::threw([&] { bp->back_project(*out, *pd, s, N); });
      pd->stop();
      emit_touched(tr, "back", N, s, err, pd->reads);
    }
    tr.emit(vh::Json("Sweep").str("op", "fwd").num("N", N).boolean("err", sweep_err).arr("codes", sweep));
  }
  if (!with_objective) return;
  // objective function: all segments of the data (max_segment_num_to_process = -1, or = the largest), and segment 0 only
  std::vector<int> limits;
  if (symmetric) { limits.push_back(dataMax); if (dataMax > 0) limits.push_back(0); }
  else limits.push_back(-1);
  const bool tof = b.pdi->is_tof_data();
  for (int limit : limits) {
    bool first = true;
    for (int N : Ns) {
      PLL obj;
      shared_ptr<RecNorm> norm(new RecNorm);
      bool ok = false;
      std::string m2;
      bool err = vh::threw([&] {
        obj.set_proj_data_sptr(pd);
        obj.set_projector_pair_sptr(b.pair);
        obj.set_max_segment_num_to_process(limit);
        obj.set_num_subsets(N);
        obj.set_use_subset_sensitivities(true);
        obj.set_recompute_sensitivity(true);
        obj.set_zero_seg0_end_planes(false);
        if (!tof) obj.set_normalisation_sptr(norm);
        ok = obj.set_up(b.image) == Succeeded::yes;
      }, &m2);
      b.refresh();
      const int mn = limit < 0 ? dataMin : -limit, mx = limit < 0 ? dataMax : limit;
      if (first) { emit_config(tr, v, b, views, mn, mx); emit_basic_related(tr, b, mn, mx); first = false; }
      if (err || !ok) { tr.emit(vh::Json("ObjectiveRejected").num("views", views).num("N", N).num("limit", limit).boolean("err", err).str("msg", m2)); continue; }
      for (int s = 0; s < N; ++s) {
        shared_ptr<Image> g(b.image->get_empty_copy());
        pd->start();
        err = vh::threw([&] { obj.compute_sub_gradient_without_penalty(*g, *ones, s); });
        pd->stop();
        emit_touched(tr, "grad", N, s, err, pd->reads);
        pd->start();
        err = vh::threw([&] { obj.compute_objective_function_without_penalty(*ones, s); });
        pd->stop();
        emit_touched(tr, "value", N, s, err, pd->reads);
        g->fill(0.F);
        pd->start();
        err = vh::threw([&] { obj.accumulate_sub_Hessian_times_input_without_penalty(*g, *ones, *ones, s); });
        pd->stop();
        emit_touched(tr, "hess", N, s, err, pd->reads);
        g->fill(0.F);
        pd->start();
        err = vh::threw([&] { obj.add_multiplication_with_approximate_sub_Hessian_without_penalty(*g, *ones, s); });
        pd->stop();
        emit_touched(tr, "ahess", N, s, err, pd->reads);
        if (!tof) {
          // the subset sensitivity: no data are read; the viewgrams it covers pass through the normalisation object
          g->fill(0.F);
          norm->start();
          err = vh::threw([&] { obj.add_subset_sensitivity(*g, s); });
          norm->stop();
          emit_touched(tr, "sens", N, s, err, norm->seen);
        }
      }
    }
  }
}

// FBP2D: its back-projection loop uses detail::find_basic_vs_nums_in_subset(..., 0, 0, 0, 1): every view of segment 0 once.
// Its back projector is a private member (default: BackProjectorByBinUsingInterpolation, whose symmetries are a
// DataSymmetriesForBins_PET_CartesianGrid with all symmetries requested); arc-corrected 2D data are used so that the
// projector is set up with the geometry of the data, and the basic/related tables are recorded from a symmetries
// object constructed in the same way.
static void record_fbp2d(vh::Trace& tr, int views) {
  Variant v; v.kind = "fbp2d"; v.r90 = v.r180 = v.rseg = true;
  Built b;
  std::string msg;
  shared_ptr<DataSymmetriesForBins_PET_CartesianGrid> sym;
  shared_ptr<RecProjData> pd;
  bool err = vh::threw([&] {
    shared_ptr<Scanner> sc = vh::make_scanner(2 * views, 1);
    b.pdi = ProjDataInfo::construct_proj_data_info(sc, 1, 0, views, std::max(1, std::min(5, 2 * views - 1)), true, 0);
    b.image.reset(new VoxelsOnCartesianGrid<float>(*b.pdi, 1.F, CartesianCoordinate3D<float>(0.F, 0.F, 0.F), CartesianCoordinate3D<int>(-1, 5, 5)));
    shared_ptr<ExamInfo> ei(new ExamInfo);
    ei->imaging_modality = ImagingModality::PT;
    pd.reset(new RecProjData(ei, b.pdi));
    pd->fill(1.F);
    sym.reset(new DataSymmetriesForBins_PET_CartesianGrid(b.pdi, b.image));
  }, &msg);
  if (err) { tr.emit(vh::Json("ConfigRejected").str("kind", v.kind).num("views", views).str("msg", msg)); return; }
  b.sym = sym.get();
  b.cartesian = true;
  b.eff[0] = sym->using_symmetry_90degrees_min_phi(); b.eff[1] = sym->using_symmetry_180degrees_min_phi();
  b.eff[2] = sym->using_symmetry_swap_segment(); b.eff[3] = sym->using_symmetry_swap_s(); b.eff[4] = sym->using_symmetry_shift_z();
  shared_ptr<Image> out(b.image->get_empty_copy());
  bool ok = false;
  pd->start();
  err = vh::threw([&] {
    FBP2DReconstruction recon(pd, 1., .5, 2, 1);
    recon.set_disable_output(true);
    ok = recon.set_up(out) == Succeeded::yes && recon.reconstruct(out) == Succeeded::yes;
  }, &msg);
  pd->stop();
  if (err || !ok) { tr.emit(vh::Json("ConfigRejected").str("kind", v.kind).num("views", views).str("msg", msg)); return; }
  emit_config(tr, v, b, views, 0, 0);
  emit_basic_related(tr, b, 0, 0);
  emit_touched(tr, "fbp2d", 1, 0, err, pd->reads);
}

static void mode_proj(vh::Trace& tr, int stage, vh::Rng& rng) {
  std::vector<int> viewsList = stage ? std::vector<int>{ 1, 2, 3, 4, 5, 6, 7, 8, 9, 10, 12, 16, 20, 24 } : std::vector<int>{ 1, 2, 3, 4, 6, 8, 12 };
  std::vector<Variant> vars = switch_variants();
  { Variant v; v.kind = "cyl"; v.r90 = v.r180 = v.rseg = true; v.tofMash = 1; vars.push_back(v); }
  { Variant v; v.kind = "trivial"; v.r90 = v.r180 = v.rseg = false; v.tofMash = 1; vars.push_back(v); }
  { Variant v; v.kind = "blocks"; v.r90 = v.r180 = v.rseg = true; vars.push_back(v); }
  // axially compressed data (span 3 on 5 rings: segments -1..1)
  { Variant v; v.kind = "cyl"; v.r90 = v.r180 = v.rseg = true; v.span = 3; vars.push_back(v); }
  { Variant v; v.kind = "cyl"; v.r90 = false; v.r180 = true; v.rseg = false; v.span = 3; vars.push_back(v); }
  // the data themselves are a subset of the views of larger data (subsets of subsets)
  { Variant v; v.kind = "subsetpdi"; v.r90 = v.r180 = v.rseg = true; vars.push_back(v); }
  { Variant v; v.kind = "subsetpdi"; v.r90 = v.r180 = v.rseg = false; vars.push_back(v); }
  // segment ranges that are not symmetric (reduce_segment_range), with and without the swap-segment symmetry
  for (int rseg = 0; rseg < 2; ++rseg)
    for (int r90 = 0; r90 < 2; ++r90) {
      static const int R[6][2] = { { -2, 1 }, { -1, 2 }, { -2, 0 }, { 0, 2 }, { -1, 0 }, { 0, 1 } };
      for (auto& r : R) { Variant v; v.kind = "cyl"; v.r90 = r90; v.r180 = r90; v.rseg = rseg; v.reduce = true; v.redMin = r[0]; v.redMax = r[1]; vars.push_back(v); }
    }
  { Variant v; v.kind = "trivial"; v.r90 = v.r180 = v.rseg = false; v.reduce = true; v.redMin = -2; v.redMax = 1; vars.push_back(v); }
  for (int views : viewsList)
    for (auto& v : vars) {
      if (v.kind == "blocks" && views < 4) continue;
      if (v.reduce && !(views == 3 || views == 4 || views == 8 || (stage && views == 12))) continue;
      std::vector<int> Ns;
      if (views <= 8) { for (int N = 1; N <= views + 1; ++N) Ns.push_back(N); }
      else { Ns = { 1, 2, 3, 4, views / 2, views, rng.range(5, views) }; std::sort(Ns.begin(), Ns.end()); Ns.erase(std::unique(Ns.begin(), Ns.end()), Ns.end()); }
      if (v.reduce) Ns = { 1, 2, 3 };
      const int rings = v.span == 3 ? 5 : (v.tofMash > 0 || views > 12) ? 2 : 3;
      const int sig = forked(tr, nullptr, [&](vh::Trace& a, vh::Trace&) { record_proj(a, v, views, rings, Ns, true); });
      if (sig) emit_died(tr, "proj", v, views, sig);
    }
  // FBP2D on 2D data
  for (int views : (stage ? std::vector<int>{ 2, 3, 4, 6, 8, 12, 16, 20, 24, 32 } : std::vector<int>{ 4, 6, 8, 12 })) {
    Variant v; v.kind = "fbp2d"; v.r90 = v.r180 = v.rseg = true;
    const int sig = forked(tr, nullptr, [&](vh::Trace& a, vh::Trace&) { record_fbp2d(a, views); });
    if (sig) emit_died(tr, "fbp2d", v, views, sig);
  }
}

struct PlainOSSPS : public OSSPSReconstruction<Image> {
  PlainOSSPS() { this->precomputed_denominator_filename = "1"; this->relaxation_parameter = 1.F; this->relaxation_gamma = 0.1F; this->upper_bound = 1e6; }
};

// ---------------------------------------------------------------------------------------------------
// end to end: real OSMAPOSL / OSSPS reconstructions with the real projection-data objective function
// (wrapped by the recording objective function) on recording projection data: per sub-iteration the
// subset number handed over AND the viewgrams of the measured data that were read
// ---------------------------------------------------------------------------------------------------
static void record_recon(vh::Trace& tr, vh::Trace& trs, const Variant& v, int views, int N, const std::string& algo, bool randomise,
                         int startSubset, int startSubiter, int iters) {
  Built b;
  std::string msg;
  if (!build(b, v, views, &msg, 2, 3)) { tr.emit(vh::Json("ConfigRejected").str("kind", v.kind).num("views", views).str("msg", msg)); return; }
  shared_ptr<ExamInfo> ei(new ExamInfo);
  ei->imaging_modality = ImagingModality::PT;
  shared_ptr<RecProjData> pd(new RecProjData(ei, b.pdi));
  pd->fill(1.F);
  shared_ptr<PLL> inner(new PLL);
  inner->set_proj_data_sptr(pd);
  inner->set_projector_pair_sptr(b.pair);
  inner->set_use_subset_sensitivities(true);
  inner->set_recompute_sensitivity(true);
  inner->set_zero_seg0_end_planes(false);
  std::vector<std::vector<int>> calls;   // [subiter, subset, nsub]
  std::vector<std::vector<int>> touched;
  IterativeReconstruction<Image>* recon_ptr = nullptr;
  const char* wanted = algo == "OSMAPOSL" ? "sub_gradient_ps" : "sub_gradient";
  vh::ObjCallback cb = [&](const vh::ObjCall& call) {
    if (!call.is(wanted)) return;
    if (!call.after) { calls.push_back({ recon_ptr->get_subiteration_num(), call.subset_num, call.num_subsets }); pd->start(); }
    else { pd->stop(); touched.push_back(pd->reads); }
  };
  shared_ptr<GeneralisedObjectiveFunction<Image>> obj;
  if (algo == "OSMAPOSL") obj.reset(new vh::WrapPoissonLL(inner, cb)); else obj.reset(new vh::WrapObjective(inner, cb));
  shared_ptr<IterativeReconstruction<Image>> recon;
  if (algo == "OSMAPOSL") recon.reset(new OSMAPOSLReconstruction<Image>); else recon.reset(new PlainOSSPS);
  recon_ptr = recon.get();
  bool setup_ok = false;
  const int numSubiters = N * iters;
  const bool err = vh::threw([&] {
    recon->set_objective_function_sptr(obj);
    recon->set_disable_output(true);
    recon->set_num_subsets(N);
    recon->set_start_subset_num(startSubset);
    recon->set_start_subiteration_num(startSubiter);
    recon->set_num_subiterations(numSubiters);
    recon->set_save_interval(numSubiters);
    recon->set_randomise_subset_order(randomise);
    shared_ptr<Image> target(b.image->clone());
    target->fill(1.F);
    setup_ok = recon->set_up(target) == Succeeded::yes;
    if (setup_ok) recon->reconstruct(target);
  }, &msg);
  pd->stop();
  const int used = recon->get_num_subsets(), objN = obj->get_num_subsets();
  b.refresh();
  emit_config(tr, v, b, views, b.pdi->get_min_segment_num(), b.pdi->get_max_segment_num());
  emit_basic_related(tr, b, b.pdi->get_min_segment_num(), b.pdi->get_max_segment_num());
  std::vector<int> subs, its, ns;
  for (size_t i = 0; i < calls.size(); ++i) {
    its.push_back(calls[i][0]); subs.push_back(calls[i][1]); ns.push_back(calls[i][2]);
    if (i < touched.size()) emit_touched(tr, algo == "OSMAPOSL" ? "osmaposl" : "ossps", calls[i][2], calls[i][1], false, touched[i]);
  }
  trs.emit(vh::Json("SchedRun").str("algo", algo + "+PLL").num("N", N).num("maxSubsets", 0).num("used", used).num("objN", objN)
               .num("startSubset", startSubset).num("startSubiter", startSubiter).num("numSubiters", numSubiters)
               .boolean("randomise", randomise).num("reuseN", 0).boolean("setupOk", setup_ok).boolean("err", err)
               .boolean("abort", false).num("sig", 0).arr("subiters", its).arr("subsets", subs).arr("nsub", ns).arr("first", std::vector<int>())
               .num("views", views).str("kind", v.kind).str("msg", err ? msg : ""));
}

static void recon_forked(vh::Trace& tr, vh::Trace& trs, const Variant& v, int views, int N, const std::string& algo, bool randomise,
                         int startSubset, int startSubiter, int iters) {
  const int sig = forked(tr, &trs, [&](vh::Trace& a, vh::Trace& b) { record_recon(a, b, v, views, N, algo, randomise, startSubset, startSubiter, iters); });
  if (sig)
    trs.emit(vh::Json("SchedRun").str("algo", algo + "+PLL").num("N", N).num("maxSubsets", 0).num("used", -1).num("objN", -1)
                 .num("startSubset", startSubset).num("startSubiter", startSubiter).num("numSubiters", N * iters)
                 .boolean("randomise", randomise).num("reuseN", 0).boolean("setupOk", false).boolean("err", false)
                 .boolean("abort", true).num("sig", sig).arr("subiters", std::vector<int>()).arr("subsets", std::vector<int>())
                 .arr("nsub", std::vector<int>()).arr("first", std::vector<int>()).num("views", views).str("kind", v.kind).str("msg", "child process died"));
}

static void mode_recon(vh::Trace& tr, vh::Trace& trs, int stage, vh::Rng& rng) {
  std::vector<Variant> vars = switch_variants();
  { Variant v; v.kind = "cyl"; v.r90 = v.r180 = v.rseg = true; v.tofMash = 1; vars.push_back(v); }
  for (int views : (stage ? std::vector<int>{ 2, 3, 4, 6, 8, 12, 16 } : std::vector<int>{ 4, 6, 8 }))
    for (auto& v : vars)
      for (int N = 1; N <= views; ++N) {
        if (views > 8 && views % N != 0 && rng.range(0, 3) != 0) continue;
        for (int randomise = 0; randomise < 2; ++randomise) {
          const int startSubset = rng.range(0, N - 1), startSubiter = rng.coin() ? 1 : rng.range(1, N);
          // OSSPS works with any number of subsets; OSMAPOSL refuses unbalanced subsets (the library's own verdict is used as the gate)
          recon_forked(tr, trs, v, views, N, "OSSPS", randomise != 0, startSubset, startSubiter, 2);
          Built b; std::string m;
          if (!build(b, v, views, &m, 2, 3)) continue;
          shared_ptr<ExamInfo> ei(new ExamInfo);
          shared_ptr<ProjData> pd(new ProjDataInMemory(ei, b.pdi));
          PLL probe; probe.set_proj_data_sptr(pd); probe.set_projector_pair_sptr(b.pair); probe.set_max_segment_num_to_process(b.pdi->get_max_segment_num()); probe.set_num_subsets(N);
          if (probe.subsets_are_approximately_balanced())
            recon_forked(tr, trs, v, views, N, "OSMAPOSL", randomise != 0, startSubset, startSubiter, 2);
        }
      }
}

// ---------------------------------------------------------------------------------------------------
// events: which sub-iterations trigger which filter / report / file (and that resuming reads the file it is given)
// ---------------------------------------------------------------------------------------------------
// recording output file format: reports every file the reconstruction writes, then lets the default format write it
class RecOutput : public OutputFileFormat<Image> {
public:
  std::function<void(const std::string&, const Image&)> cb;
  shared_ptr<OutputFileFormat<Image>> real;
  RecOutput() : real(OutputFileFormat<Image>::default_sptr()) {}
  std::string get_registered_name() const override { return "RecOutput"; }
  bool can_write(const Image&) const { return true; }
protected:
  Succeeded actual_write_to_file(std::string& filename, const Image& d) const override {
    if (cb) cb(filename, d);
    return real->write_to_file(filename, d);
  }
};
// recording data processor (identity): reports when it is applied
class RecFilter : public DataProcessor<Image> {
public:
  std::function<void()> cb;
  std::string get_registered_name() const override { return "RecFilter"; }
protected:
  Succeeded virtual_set_up(const Image&) override { return Succeeded::yes; }
  void virtual_apply(Image& out, const Image& in) const override { out = in; if (cb) cb(); }
  void virtual_apply(Image&) const override { if (cb) cb(); }
};

struct EvOSMAPOSL : public OSMAPOSLReconstruction<Image> { void set_initial(const std::string& f) { initial_data_filename = f; } };
struct EvOSSPS : public OSSPSReconstruction<Image> {
  EvOSSPS() { precomputed_denominator_filename = "1"; relaxation_parameter = 1.F; relaxation_gamma = 0.F; upper_bound = 1e9; }
  void set_initial(const std::string& f) { initial_data_filename = f; }
  void set_write_update(int w) { write_update_image = w; }
};
struct EvKOSMAPOSL : public KOSMAPOSLReconstruction<Image> {
  void set_initial(const std::string& f) { initial_data_filename = f; }
  void set_kprefix(const std::string& f) { kernelised_output_filename_prefix = f; }
};

struct EvCfg {
  std::string algo; int N, startSubset, startSubiter, numSubiters, save, iuInt, iiInt, report; bool hasIU, hasII, hasPF, writeUpdate, disableOutput, randomise;
  int resume;       // > 0: first a complete run saving every sub-iteration, then this run is started from the file saved after sub-iteration `resume'
};

static long first_voxel(const Image& im) {
  const float v = *im.begin_all_const();
  return std::isfinite(v) && std::fabs(v) < 2.0e9 ? std::lround(v) : -1;
}
static std::string base_name(const std::string& path) { const size_t p = path.find_last_of('/'); return p == std::string::npos ? path : path.substr(p + 1); }

struct EvLog { std::vector<std::vector<long>> ev; std::vector<std::string> files; bool setup_ok = false, err = false; int used = -1; std::string msg; };

// one reconstruction through the parameter-less reconstruct() (initial image from `initial': "1" or a file name)
static EvLog run_events_once(const EvCfg& c, const shared_ptr<Image>& tmpl, const std::string& dir, const std::string& prefix, const std::string& initial,
                             int startSubiter) {
  EvLog lg;
  IterativeReconstruction<Image>* recon_ptr = nullptr;
  auto k = [&]() { return recon_ptr ? (long)recon_ptr->get_subiteration_num() : -1L; };
  const char* wanted = c.algo == "OSSPS" ? "sub_gradient" : "sub_gradient_ps";
  vh::ObjCallback cb = [&](const vh::ObjCall& call) {
    if (call.after) return;
    if (call.is(wanted)) lg.ev.push_back({ 1, k(), call.subset_num, call.estimate ? first_voxel(*call.estimate) : -1 });
    else if (call.is("value_all")) lg.ev.push_back({ 4, k(), 0, 0 });
  };
  shared_ptr<GeneralisedObjectiveFunction<Image>> obj;
  if (c.algo == "OSSPS")
    obj.reset(new vh::WrapObjective(shared_ptr<GeneralisedObjectiveFunction<Image>>(new vh::TrivialObjective(tmpl, 1.F, 1.F)), cb));
  else   // gradient + sensitivity = 1, subset sensitivity = 1/2: every sub-iteration doubles the estimate
    obj.reset(new vh::WrapPoissonLL(shared_ptr<PoissonLogLikelihoodWithLinearModelForMean<Image>>(new vh::TrivialPoissonLL(tmpl, 1.F, 0.5F * c.N)), cb));
  shared_ptr<RecOutput> out(new RecOutput);
  out->cb = [&](const std::string& f, const Image& im) {
    const std::string b = base_name(f);
    lg.ev.push_back({ b.find("_update_") != std::string::npos ? 3 : 7, k(), (long)lg.files.size() + 1, first_voxel(im) });
    lg.files.push_back(b);
  };
  shared_ptr<RecFilter> iu(new RecFilter), ii(new RecFilter), pf(new RecFilter);
  iu->cb = [&]() { lg.ev.push_back({ 2, k(), 0, 0 }); };
  ii->cb = [&]() { lg.ev.push_back({ 5, k(), 0, 0 }); };
  pf->cb = [&]() { lg.ev.push_back({ 6, k(), 0, 0 }); };
  shared_ptr<IterativeReconstruction<Image>> recon;
  lg.err = vh::threw([&] {
    if (c.algo == "OSMAPOSL") {
      auto* r = new EvOSMAPOSL; recon.reset(r); r->set_initial(initial);
      r->set_inter_update_filter_interval(c.iuInt); if (c.hasIU) r->set_inter_update_filter_ptr(iu);
      r->set_write_update_image(c.writeUpdate ? 1 : 0);
    } else if (c.algo == "KOSMAPOSL") {
      auto* r = new EvKOSMAPOSL; recon.reset(r); r->set_initial(initial);
      r->set_inter_update_filter_interval(c.iuInt); if (c.hasIU) r->set_inter_update_filter_ptr(iu);
      r->set_write_update_image(c.writeUpdate ? 1 : 0);
      shared_ptr<Image> anat(tmpl->clone());
      float a = 1.F; for (auto it = anat->begin_all(); it != anat->end_all(); ++it) { *it = a; a += 1.F; }
      r->set_anatomical_prior_sptr(anat);
      r->set_sigma_m(1.0);
      r->set_kprefix(dir + "/K");
    } else {
      auto* r = new EvOSSPS; recon.reset(r); r->set_initial(initial); r->set_write_update(c.writeUpdate ? 1 : 0);
    }
    recon_ptr = recon.get();
    recon->set_objective_function_sptr(obj);
    recon->set_output_file_format_ptr(out);
    recon->set_output_filename_prefix(dir + "/" + prefix);
    recon->set_disable_output(c.disableOutput);
    recon->set_num_subsets(c.N);
    recon->set_start_subset_num(c.startSubset);
    recon->set_start_subiteration_num(startSubiter);
    recon->set_num_subiterations(c.numSubiters);
    recon->set_save_interval(c.save);
    recon->set_randomise_subset_order(c.randomise);
    recon->set_inter_iteration_filter_interval(c.iiInt);
    if (c.hasII) recon->set_inter_iteration_filter_ptr(ii);
    if (c.hasPF) recon->set_post_processor_sptr(pf);
    recon->set_report_objective_function_values_interval(c.report);
    lg.setup_ok = recon->reconstruct() == Succeeded::yes;
  }, &lg.msg);
  if (recon) lg.used = recon->get_num_subsets();
  return lg;
}

static std::vector<std::string> list_headers(const std::string& dir) {
  std::vector<std::string> v;
  if (DIR* d = opendir(dir.c_str())) {
    while (dirent* e = readdir(d)) { std::string n = e->d_name; if (n.size() > 3 && n.substr(n.size() - 3) == ".hv") v.push_back(n.substr(0, n.size() - 3)); }
    closedir(d);
  }
  std::sort(v.begin(), v.end());
  return v;
}
static void remove_dir(const std::string& dir) {
  if (DIR* d = opendir(dir.c_str())) {
    while (dirent* e = readdir(d)) { std::string n = e->d_name; if (n != "." && n != "..") unlink((dir + "/" + n).c_str()); }
    closedir(d);
  }
  rmdir(dir.c_str());
}
static std::string json_strings(const std::vector<std::string>& v) {
  std::string s = "[";
  for (size_t i = 0; i < v.size(); ++i) { if (i) s += ','; s += '"'; s += v[i]; s += '"'; }
  return s + "]";
}

static void emit_event_run(vh::Trace& tr, const EvCfg& c, const EvLog& lg, int startSubiter, int resume, long prevVal, const std::vector<std::string>& disk,
                           bool abort, int sig) {
  tr.emit(vh::Json("EventRun").str("algo", c.algo).num("N", c.N).num("used", lg.used).num("startSubset", c.startSubset).num("startSubiter", startSubiter)
              .num("numSubiters", c.numSubiters).num("save", c.save).num("iuInt", c.iuInt).boolean("hasIU", c.hasIU).num("iiInt", c.iiInt)
              .boolean("hasII", c.hasII).boolean("hasPF", c.hasPF).num("report", c.report).boolean("writeUpdate", c.writeUpdate)
              .boolean("disableOutput", c.disableOutput).boolean("randomise", c.randomise).str("prefix", "out").str("kprefix", "K")
              .num("resume", resume).num("prevVal", prevVal).boolean("setupOk", lg.setup_ok).boolean("err", lg.err).boolean("abort", abort).num("sig", sig)
              .arr2("ev", lg.ev).raw("files", json_strings(lg.files)).raw("disk", json_strings(disk)).str("msg", lg.err ? lg.msg : ""));
}

static void run_events(vh::Trace& tr, const EvCfg& c, const shared_ptr<Image>& tmpl, const std::string& dir) {
  mkdir(dir.c_str(), 0700);
  if (c.resume > 0) {
    // the earlier, complete run: every sub-iteration saved
    EvCfg c1 = c; c1.save = 1; c1.disableOutput = false; c1.resume = 0;
    EvLog l1 = run_events_once(c1, tmpl, dir, "out", "1", 1);
    emit_event_run(tr, c1, l1, 1, 0, 0, list_headers(dir), false, 0);
    long prev = -1;
    for (auto& e : l1.ev) if (e[0] == 7 && e[1] == c.resume) prev = e[3];
    const std::string dir2 = dir + "/r";
    mkdir(dir2.c_str(), 0700);
    EvLog l2 = run_events_once(c, tmpl, dir2, "out", dir + "/out_" + std::to_string(c.resume) + ".hv", c.resume + 1);
    emit_event_run(tr, c, l2, c.resume + 1, c.resume, prev, list_headers(dir2), false, 0);
    remove_dir(dir2);
  } else {
    EvLog l = run_events_once(c, tmpl, dir, "out", "1", c.startSubiter);
    emit_event_run(tr, c, l, c.startSubiter, 0, 0, list_headers(dir), false, 0);
  }
  remove_dir(dir);
}

static void mode_events(vh::Trace& tr, int stage, vh::Rng& rng, const std::string& scratch) {
  shared_ptr<Scanner> sc = vh::make_scanner(8, 1);
  shared_ptr<ProjDataInfo> pdi = ProjDataInfo::construct_proj_data_info(sc, 1, 0, 4, 3, false, 0);
  shared_ptr<Image> tmpl(new VoxelsOnCartesianGrid<float>(*pdi, 1.F, CartesianCoordinate3D<float>(0.F, 0.F, 0.F), CartesianCoordinate3D<int>(-1, 3, 3)));
  mkdir(scratch.c_str(), 0700);
  long id = 0;
  auto go = [&](const EvCfg& c) {
    const std::string dir = scratch + "/run" + std::to_string(++id);
    EvLog dead;
    const int sig = forked(tr, nullptr, [&](vh::Trace& a, vh::Trace&) { run_events(a, c, tmpl, dir); });
    if (sig) { emit_event_run(tr, c, dead, c.resume > 0 ? c.resume + 1 : c.startSubiter, c.resume, 0, std::vector<std::string>(), true, sig); remove_dir(dir + "/r"); remove_dir(dir); }
  };
  const std::vector<std::string> algos = { "OSMAPOSL", "OSSPS", "KOSMAPOSL" };
  // systematic: every save interval / start / end for small runs (end not a multiple of the number of subsets included)
  for (auto& algo : algos)
    for (int N = 1; N <= 3; ++N)
      for (int num = 1; num <= (stage ? 8 : 6); ++num)
        for (int start = 1; start <= num + 1; ++start)
          for (int save = 1; save <= num; ++save) {
            if (!stage && rng.range(0, 3) != 0) continue;
            if (algo == "KOSMAPOSL" && rng.range(0, 2) != 0) continue;
            EvCfg c; c.algo = algo; c.N = N; c.startSubset = rng.range(0, N - 1); c.startSubiter = start; c.numSubiters = num; c.save = save;
            c.iuInt = algo == "OSSPS" ? 0 : rng.range(0, 3); c.hasIU = c.iuInt > 0 && rng.range(0, 3) != 0; c.iiInt = rng.range(0, 3); c.hasII = c.iiInt > 0 && rng.range(0, 3) != 0;
            c.hasPF = rng.coin(); c.report = rng.range(0, 3); c.writeUpdate = rng.range(0, 3) == 0; c.disableOutput = rng.range(0, 5) == 0; c.randomise = rng.range(0, 3) == 0;
            if (algo == "OSSPS" && c.disableOutput) c.writeUpdate = false;   // contradictory settings, not exercised (see notes)
            c.resume = 0;
            go(c);
          }
  // seeded larger runs
  for (int i = 0; i < (stage ? 400 : 80); ++i) {
    EvCfg c; c.algo = algos[rng.range(0, 1)]; c.N = rng.range(1, 5); c.startSubset = rng.range(0, c.N - 1); c.numSubiters = rng.range(1, 20); c.startSubiter = rng.range(1, c.numSubiters);
    c.save = rng.range(1, c.numSubiters); c.iuInt = c.algo == "OSSPS" ? 0 : rng.range(0, 5); c.hasIU = c.iuInt > 0 && rng.coin(); c.iiInt = rng.range(0, 5); c.hasII = c.iiInt > 0 && rng.coin();
    c.hasPF = rng.coin(); c.report = rng.range(0, 4); c.writeUpdate = rng.range(0, 3) == 0; c.disableOutput = rng.range(0, 5) == 0; c.randomise = rng.coin(); c.resume = 0;
    if (c.algo == "OSSPS" && c.disableOutput) c.writeUpdate = false;
    go(c);
  }
  // settings set_up has to refuse
  for (int i = 0; i < (stage ? 60 : 20); ++i) {
    EvCfg c; c.algo = algos[rng.range(0, 1)]; c.N = rng.range(1, 3); c.startSubset = 0; c.numSubiters = rng.range(1, 6); c.startSubiter = 1; c.save = 1; c.iuInt = 0; c.hasIU = false; c.iiInt = 0; c.hasII = false;
    c.hasPF = false; c.report = 0; c.writeUpdate = false; c.disableOutput = false; c.randomise = false; c.resume = 0;
    switch (rng.range(0, 4)) {
      case 0: c.save = 0; break;
      case 1: c.save = c.numSubiters + rng.range(1, 3); break;
      case 2: c.iiInt = -1; break;
      case 3: c.startSubiter = 0; break;
      default: c.numSubiters = 0; c.save = 1; break;
    }
    go(c);
  }
  // resuming: continue from the file saved after sub-iteration k
  for (auto& algo : { std::string("OSMAPOSL"), std::string("OSSPS") })
    for (int N = 1; N <= 3; ++N)
      for (int num = 2; num <= (stage ? 9 : 6); ++num)
        for (int k0 = 1; k0 < num; ++k0) {
          if (!stage && rng.range(0, 1) != 0) continue;
          EvCfg c; c.algo = algo; c.N = N; c.startSubset = rng.range(0, N - 1); c.startSubiter = 1; c.numSubiters = num; c.save = rng.range(1, num);
          c.iuInt = 0; c.hasIU = false; c.iiInt = rng.range(0, 2); c.hasII = c.iiInt > 0; c.hasPF = rng.coin(); c.report = 0; c.writeUpdate = false; c.disableOutput = false; c.randomise = false;
          c.resume = k0;
          go(c);
        }
  rmdir(scratch.c_str());
}

// ---------------------------------------------------------------------------------------------------
// schedules: the subset numbers IterativeReconstruction hands to the objective function
// ---------------------------------------------------------------------------------------------------

struct SchedCfg { std::string algo; int N, maxSubsets, startSubset, startSubiter, numSubiters; bool randomise; int reuseN; };

// runs one reconstruction (in this process) and writes Sub lines + the SchedRun summary line to tr
static void run_schedule(vh::Trace& tr, const SchedCfg& c, const shared_ptr<Image>& tmpl) {
  std::vector<std::vector<int>> calls;      // [subiteration_num, subset_num, num_subsets]
  std::vector<std::string> kinds;
  IterativeReconstruction<Image>* recon_ptr = nullptr;
  const char* wanted = c.algo == "OSMAPOSL" ? "sub_gradient_ps" : "sub_gradient";
  vh::ObjCallback cb = [&](const vh::ObjCall& call) {
    if (call.after || !call.is(wanted)) return;
    calls.push_back({ recon_ptr ? recon_ptr->get_subiteration_num() : -1, call.subset_num, call.num_subsets });
  };
  shared_ptr<GeneralisedObjectiveFunction<Image>> obj;
  if (c.algo == "OSMAPOSL")
    obj.reset(new vh::WrapPoissonLL(shared_ptr<PoissonLogLikelihoodWithLinearModelForMean<Image>>(new vh::TrivialPoissonLL(tmpl, 1.F, 1.F, c.maxSubsets)), cb));
  else
    obj.reset(new vh::WrapObjective(shared_ptr<GeneralisedObjectiveFunction<Image>>(new vh::TrivialObjective(tmpl, 0.F, 1.F, c.maxSubsets)), cb));
  shared_ptr<IterativeReconstruction<Image>> recon;
  if (c.algo == "OSMAPOSL") recon.reset(new OSMAPOSLReconstruction<Image>); else recon.reset(new PlainOSSPS);
  recon_ptr = recon.get();
  bool err = false, setup_ok = false;
  std::string msg;
  int used = -1, objN = -1;
  std::vector<int> firstRun;
  auto once = [&](int N, int startSubset, int startSubiter, int numSubiters) {
    err = vh::threw([&] {
      recon->set_objective_function_sptr(obj);
      recon->set_disable_output(true);
      recon->set_num_subsets(N);
      recon->set_start_subset_num(startSubset);
      recon->set_start_subiteration_num(startSubiter);
      recon->set_num_subiterations(numSubiters);
      recon->set_save_interval(numSubiters);
      recon->set_randomise_subset_order(c.randomise);
      shared_ptr<Image> target(tmpl->clone());
      target->fill(1.F);
      setup_ok = recon->set_up(target) == Succeeded::yes;
      if (setup_ok) recon->reconstruct(target);
    }, &msg);
    used = recon->get_num_subsets();
    objN = obj->get_num_subsets();
  };
  if (c.reuseN > 0) {
    // history: a complete earlier reconstruction with another number of subsets on the same object
    once(c.reuseN, 0, 1, 2 * c.reuseN);
    for (auto& x : calls) firstRun.push_back(x[1]);
    calls.clear();
  }
  once(c.N, c.startSubset, c.startSubiter, c.numSubiters);
  std::vector<int> subs, its, ns;
  for (auto& x : calls) { its.push_back(x[0]); subs.push_back(x[1]); ns.push_back(x[2]); }
  tr.emit(vh::Json("SchedRun").str("algo", c.algo).num("N", c.N).num("maxSubsets", c.maxSubsets).num("used", used).num("objN", objN)
              .num("startSubset", c.startSubset).num("startSubiter", c.startSubiter).num("numSubiters", c.numSubiters)
              .boolean("randomise", c.randomise).num("reuseN", c.reuseN).boolean("setupOk", setup_ok).boolean("err", err)
              .boolean("abort", false).num("sig", 0).arr("subiters", its).arr("subsets", subs).arr("nsub", ns).arr("first", firstRun));
  tr.flush();
}

// the same in a child process, so that a crash inside the code under test (signal) becomes an
// observation ("abort":true) instead of the death of the driver
static void run_schedule_forked(vh::Trace& tr, const SchedCfg& c, const shared_ptr<Image>& tmpl, const std::string& tmp) {
  tr.flush();
  const pid_t pid = fork();
  if (pid < 0) { perror("fork"); _exit(3); }
  if (pid == 0) {
    {
      vh::Trace child(tmp);
      run_schedule(child, c, tmpl);
      child.flush();
    }
    _exit(0);
  }
  int status = 0;
  waitpid(pid, &status, 0);
  bool got = false;
  {
    std::ifstream in(tmp);
    std::string line;
    while (std::getline(in, line))
      if (line.size() > 8 && line.back() == '}' && line.compare(0, 5, "{\"e\":") == 0 && line.find("\"SchedRun\"") != std::string::npos) {
        // re-emit the child's (complete) line verbatim: {"e":<rest>}
        got = true;
        tr.emit(vh::Json().raw("e", line.substr(5, line.size() - 6)));
      }
  }
  unlink(tmp.c_str());
  if (!got) {
    const int sig = WIFSIGNALED(status) ? WTERMSIG(status) : 0;
    tr.emit(vh::Json("SchedRun").str("algo", c.algo).num("N", c.N).num("maxSubsets", c.maxSubsets).num("used", -1).num("objN", -1)
                .num("startSubset", c.startSubset).num("startSubiter", c.startSubiter).num("numSubiters", c.numSubiters)
                .boolean("randomise", c.randomise).num("reuseN", c.reuseN).boolean("setupOk", false).boolean("err", false)
                .boolean("abort", true).num("sig", sig).arr("subiters", std::vector<int>()).arr("subsets", std::vector<int>())
                .arr("nsub", std::vector<int>()).arr("first", std::vector<int>()));
  }
}

// a long randomised run: how often each subset was used at each position of a full iteration, and the distinct orders seen
static void run_randstats(vh::Trace& tr, int N, int iters, const shared_ptr<Image>& tmpl) {
  std::vector<int> seq;
  vh::ObjCallback cb = [&](const vh::ObjCall& call) { if (!call.after && call.is("sub_gradient")) seq.push_back(call.subset_num); };
  shared_ptr<GeneralisedObjectiveFunction<Image>> obj(new vh::WrapObjective(shared_ptr<GeneralisedObjectiveFunction<Image>>(new vh::TrivialObjective(tmpl, 0.F, 1.F)), cb));
  PlainOSSPS recon;
  std::string msg;
  const bool err = vh::threw([&] {
    recon.set_objective_function_sptr(obj);
    recon.set_disable_output(true);
    recon.set_num_subsets(N);
    recon.set_num_subiterations(N * iters);
    recon.set_save_interval(N * iters);
    recon.set_randomise_subset_order(true);
    shared_ptr<Image> target(tmpl->clone());
    target->fill(1.F);
    if (recon.set_up(target) == Succeeded::yes) recon.reconstruct(target);
  }, &msg);
  std::vector<std::vector<int>> pos(N, std::vector<int>(N, 0));
  std::set<long> perms;
  for (size_t i = 0; i + N <= seq.size(); i += N) {
    long code = 0;
    for (int p = 0; p < N; ++p) { const int sub = seq[i + p]; if (sub >= 0 && sub < N) ++pos[p][sub]; code = code * N + sub; }
    perms.insert(code);
  }
  std::vector<long> pl(perms.begin(), perms.end());
  tr.emit(vh::Json("RandStats").num("N", N).num("iters", (long)(seq.size() / N)).boolean("err", err).boolean("abort", false).arr2("pos", pos).arr("perms", pl));
}

static void mode_sched(vh::Trace& tr, int maxN, int iters, int stage, vh::Rng& rng, const std::string& tmp) {
  shared_ptr<Scanner> sc = vh::make_scanner(8, 1);
  shared_ptr<ProjDataInfo> pdi = ProjDataInfo::construct_proj_data_info(sc, 1, 0, 4, 3, false, 0);
  shared_ptr<Image> tmpl(new VoxelsOnCartesianGrid<float>(*pdi, 1.F, CartesianCoordinate3D<float>(0.F, 0.F, 0.F), CartesianCoordinate3D<int>(-1, 3, 3)));
  for (const char* algo : { "OSSPS", "OSMAPOSL" })
    for (int N = 1; N <= maxN; ++N)
      for (int startSubset = 0; startSubset < N; ++startSubset)
        for (int startSubiter = 1; startSubiter <= N * iters; ++startSubiter)
          for (int randomise = 0; randomise < 2; ++randomise) {
            SchedCfg c; c.algo = algo; c.N = N; c.maxSubsets = 0; c.startSubset = startSubset; c.startSubiter = startSubiter;
            c.numSubiters = N * iters; c.randomise = randomise != 0; c.reuseN = 0;
            run_schedule_forked(tr, c, tmpl, tmp);
            // also a run that stops inside a full iteration
            if (rng.range(0, 3) == 0) { c.numSubiters = N * iters - rng.range(1, std::max(1, N - 1)); if (c.numSubiters >= 1) run_schedule_forked(tr, c, tmpl, tmp); }
          }
  // larger numbers of subsets, sampled starts
  const int nbig = stage ? 120 : 30;
  for (int i = 0; i < nbig; ++i) {
    SchedCfg c; c.algo = rng.coin() ? "OSSPS" : "OSMAPOSL"; c.N = rng.range(maxN + 1, 24); c.maxSubsets = 0;
    c.startSubset = rng.range(0, c.N - 1); c.startSubiter = rng.range(1, 2 * c.N); c.numSubiters = 3 * c.N + rng.range(0, c.N); c.randomise = rng.coin(); c.reuseN = 0;
    run_schedule_forked(tr, c, tmpl, tmp);
  }
  // the randomised order is not degenerate (statistical clause, see Trace_IterSchedule.tla)
  for (int N = 2; N <= (stage ? 6 : 4); ++N) {
    const int sig = forked(tr, nullptr, [&](vh::Trace& a, vh::Trace&) { run_randstats(a, N, 400, tmpl); });
    if (sig) tr.emit(vh::Json("RandStats").num("N", N).num("iters", 0).boolean("err", false).boolean("abort", true).arr2("pos", std::vector<std::vector<int>>()).arr("perms", std::vector<long>()));
  }
  // the objective function refuses the requested number of subsets (uses fewer)
  for (int i = 0; i < (stage ? 60 : 20); ++i) {
    SchedCfg c; c.algo = rng.coin() ? "OSSPS" : "OSMAPOSL"; c.N = rng.range(2, 6); c.maxSubsets = rng.range(1, c.N - 1);
    c.startSubset = rng.range(0, c.N - 1); c.startSubiter = rng.range(1, 2 * c.N); c.numSubiters = 3 * c.N; c.randomise = rng.coin(); c.reuseN = 0;
    run_schedule_forked(tr, c, tmpl, tmp);
  }
  // history: the same reconstruction object used before with another number of subsets
  for (int i = 0; i < (stage ? 80 : 30); ++i) {
    SchedCfg c; c.algo = rng.coin() ? "OSSPS" : "OSMAPOSL"; c.N = rng.range(1, 6); c.maxSubsets = 0; c.reuseN = rng.range(1, 7);
    c.startSubset = rng.range(0, c.N - 1); c.startSubiter = rng.range(1, 2 * c.N); c.numSubiters = 3 * c.N; c.randomise = rng.coin();
    run_schedule_forked(tr, c, tmpl, tmp);
  }
}

int main(int argc, char** argv) {
  if (argc < 4) return 2;
  vh::install_terminate(); vh::quiet();
  if (!getenv("VERIF_STDERR")) { if (!freopen("/dev/null", "w", stderr)) return 3; }
  if (!freopen("/dev/null", "w", stdout)) return 3;
  const std::string mode = argv[1];
  vh::Trace tr(argv[2]);
  g_tmp = argv[2];
  vh::Rng rng(vh::seed_from_env());
  if (mode == "subsets") {
    mode_subsets(tr, atoi(argv[3]), rng);
  } else if (mode == "proj") {
    mode_proj(tr, atoi(argv[3]), rng);
  } else if (mode == "recon") {
    vh::Trace trs(argv[3]);          // schedule lines go to a second file
    vh::Trace::current() = &tr;
    mode_recon(tr, trs, argc > 4 ? atoi(argv[4]) : 0, rng);
  } else if (mode == "events") {
    mode_events(tr, atoi(argv[3]), rng, std::string(argv[2]) + ".files");
  } else if (mode == "sched") {
    const int maxN = atoi(argv[3]), iters = argc > 4 ? atoi(argv[4]) : 3, stage = argc > 5 ? atoi(argv[5]) : 0;
    mode_sched(tr, maxN, iters, stage, rng, std::string(argv[2]) + ".child");
  }
  return 0;
}
