// C09 driver: drives the real STIR priors (QuadraticPrior, RelativeDifferencePrior, LogcoshPrior,
// PLSPrior) through the GeneralisedPrior API and records inputs and outputs as ndjson.
// No property formula, no expected value, no comparison here: TLC (Trace_Priors.tla) decides.
//   c09_priors exact <out.ndjson> <n-configs> <big>   integer instances (quadratic: exact replay, RDP: fixed point)
//   c09_priors rel   <out.ndjson> <n-configs> <big>   dyadic random images, all four priors: pairs of observations
//   c09_priors hist  <out.ndjson> <n-objects> <big>   histories of setters / set_up / calls on one object, parameter files
//                                                     (kappa and anatomical images written as Interfile next to <out>)
//   c09_priors frp   <out.ndjson> <n-configs> <big>   FilterRootPrior (the other registered GeneralisedPrior)
// <big> = 0: images up to ~60 voxels, 1: also the large shapes (up to 8x9x10).
#include "vh_stir.h"
#include "stir/VoxelsOnCartesianGrid.h"
#include "stir/IndexRange3D.h"
#include "stir/recon_buildblock/QuadraticPrior.h"
#include "stir/recon_buildblock/RelativeDifferencePrior.h"
#include "stir/recon_buildblock/LogcoshPrior.h"
#include "stir/recon_buildblock/PLSPrior.h"
#include "stir/recon_buildblock/FilterRootPrior.h"
#include "stir/MedianImageFilter3D.h"
#include "stir/DataProcessor.h"
#include "stir/IO/write_to_file.h"
#include "stir/Succeeded.h"
#include <functional>
#include <sstream>
#include <cstring>
using namespace stir;
typedef VoxelsOnCartesianGrid<float> Img;
typedef DiscretisedDensity<3, float> DD;
typedef GeneralisedPrior<DD> Prior;

// ---------------------------------------------------------------- configuration (inputs only)
struct Cfg {
  std::string prior;      // quad | rdp | logcosh | pls
  bool exact = false;
  int n[3] = { 1, 1, 1 }; // nz, ny, nx
  int mn[3] = { 0, 0, 0 };
  float sp[3] = { 1, 1, 1 };
  bool userw = false;
  int wr[3] = { 1, 1, 1 };
  std::vector<float> w;   // user weights, flat (z,y,x)
  bool only2D = false;
  bool parse_route = false; // only 2D / weights given through the parser instead of the setters
  bool ctor_route = false;  // only 2D, penalisation factor (and gamma, epsilon, scalar) given to the documented constructor
  std::vector<float> kappa; // empty: none
  float beta = 1;
  float gamma = 2, eps = 1, scalar = 1, alpha = 1, eta = 1;
  std::vector<float> anat;
  int nvox() const { return n[0] * n[1] * n[2]; }
};

template <class P> struct Open : public P {
  using P::P;
  void open_set_only_2D(bool b) { this->only_2D = b; }
};

static shared_ptr<Img> make_image(const Cfg& c) {
  return shared_ptr<Img>(new Img(IndexRange3D(c.mn[0], c.mn[0] + c.n[0] - 1, c.mn[1], c.mn[1] + c.n[1] - 1, c.mn[2], c.mn[2] + c.n[2] - 1),
                                 CartesianCoordinate3D<float>(0.F, 0.F, 0.F), CartesianCoordinate3D<float>(c.sp[0], c.sp[1], c.sp[2])));
}
static shared_ptr<Img> image_from(const Cfg& c, const std::vector<float>& v) {
  shared_ptr<Img> im = make_image(c);
  size_t k = 0;
  for (auto it = im->begin_all(); it != im->end_all(); ++it) *it = v[k++];
  return im;
}
static std::vector<float> flat(const DD& im) {
  std::vector<float> v;
  for (auto it = im.begin_all_const(); it != im.end_all_const(); ++it) v.push_back(*it);
  return v;
}
static BasicCoordinate<3, int> coords_of(const Cfg& c, int i /*0-based flat*/) {
  BasicCoordinate<3, int> b;
  b[1] = c.mn[0] + i / (c.n[1] * c.n[2]);
  b[2] = c.mn[1] + (i / c.n[2]) % c.n[1];
  b[3] = c.mn[2] + i % c.n[2];
  return b;
}

static const char* route_of(const Cfg& c) { return c.parse_route ? "parse" : (c.ctor_route ? "ctor" : "api"); }

struct Box {
  shared_ptr<Prior> p;
  std::function<Array<3, float>()> get_weights;
};

static std::string weights_text(const Cfg& c) {
  std::ostringstream s;
  s << "{";
  size_t k = 0;
  for (int z = 0; z < 2 * c.wr[0] + 1; ++z) {
    s << (z ? ",{" : "{");
    for (int y = 0; y < 2 * c.wr[1] + 1; ++y) {
      s << (y ? ",{" : "{");
      for (int x = 0; x < 2 * c.wr[2] + 1; ++x) s << (x ? "," : "") << c.w[k++];
      s << "}";
    }
    s << "}";
  }
  s << "}";
  return s.str();
}

static bool g_rejected = false; // the implementation refused the configuration (error from a setter / parser returned false)
template <class P> static void configure_weights(P& p, const Cfg& c) {
  if (c.userw) {
    Array<3, float> w(IndexRange3D(-c.wr[0], c.wr[0], -c.wr[1], c.wr[1], -c.wr[2], c.wr[2]));
    size_t k = 0;
    for (auto it = w.begin_all(); it != w.end_all(); ++it) *it = c.w[k++];
    if (vh::threw([&] { p.set_weights(w); })) g_rejected = true;
  }
}

// builds a fresh, set-up prior for the configuration
static Box make_prior(const Cfg& c, const shared_ptr<Img>& target) {
  Box b;
  g_rejected = false;
  shared_ptr<Img> kap;
  if (!c.kappa.empty()) kap = image_from(c, c.kappa);
  if (c.prior == "quad") {
    auto* q = c.ctor_route ? new Open<QuadraticPrior<float>>(c.only2D, c.beta) : new Open<QuadraticPrior<float>>();
    b.p.reset(q);
    if (c.ctor_route) configure_weights(*q, c);
    else if (c.parse_route) {
      std::ostringstream s;
      s << "Quadratic Prior Parameters:=\npenalisation factor:=" << c.beta << "\nonly 2D:=" << (c.only2D ? 1 : 0) << "\n";
      if (c.userw) s << "weights:=" << weights_text(c) << "\n";
      s << "END Quadratic Prior Parameters:=\n";
      std::istringstream in(s.str());
      bool ok = false;
      if (vh::threw([&] { ok = q->parse(in); }) || !ok) g_rejected = true;
    } else {
      q->open_set_only_2D(c.only2D);
      q->set_penalisation_factor(c.beta);
      configure_weights(*q, c);
    }
    if (kap) q->set_kappa_sptr(kap);
    b.get_weights = [q]() { return q->get_weights(); };
  } else if (c.prior == "rdp") {
    auto* q = c.ctor_route ? new Open<RelativeDifferencePrior<float>>(c.only2D, c.beta, c.gamma, c.eps) : new Open<RelativeDifferencePrior<float>>();
    b.p.reset(q);
    if (c.ctor_route) configure_weights(*q, c);
    else if (c.parse_route) {
      std::ostringstream s;
      s << "Relative Difference Prior Parameters:=\npenalisation factor:=" << c.beta << "\nonly 2D:=" << (c.only2D ? 1 : 0) << "\ngamma value:=" << c.gamma
        << "\nepsilon value:=" << c.eps << "\n";
      if (c.userw) s << "weights:=" << weights_text(c) << "\n";
      s << "END Relative Difference Prior Parameters:=\n";
      std::istringstream in(s.str());
      bool ok = false;
      if (vh::threw([&] { ok = q->parse(in); }) || !ok) g_rejected = true;
    } else {
      q->open_set_only_2D(c.only2D);
      q->set_penalisation_factor(c.beta);
      q->set_gamma(c.gamma);
      q->set_epsilon(c.eps);
      configure_weights(*q, c);
    }
    if (kap) q->set_kappa_sptr(kap);
    b.get_weights = [q]() { return q->get_weights(); };
  } else if (c.prior == "logcosh") {
    auto* q = c.ctor_route ? new Open<LogcoshPrior<float>>(c.only2D, c.beta, c.scalar) : new Open<LogcoshPrior<float>>();
    b.p.reset(q);
    if (c.ctor_route) configure_weights(*q, c);
    else if (c.parse_route) {
      std::ostringstream s;
      s << "Logcosh Prior Parameters:=\npenalisation factor:=" << c.beta << "\nonly 2D:=" << (c.only2D ? 1 : 0) << "\nscalar:=" << c.scalar << "\n";
      if (c.userw) s << "weights:=" << weights_text(c) << "\n";
      s << "END Logcosh Prior Parameters:=\n";
      std::istringstream in(s.str());
      bool ok = false;
      if (vh::threw([&] { ok = q->parse(in); }) || !ok) g_rejected = true;
    } else {
      q->open_set_only_2D(c.only2D);
      q->set_penalisation_factor(c.beta);
      q->set_scalar(c.scalar);
      configure_weights(*q, c);
    }
    if (kap) q->set_kappa_sptr(kap);
    b.get_weights = [q]() { return q->get_weights(); };
  } else {
    auto* q = c.ctor_route ? new Open<PLSPrior<float>>(c.only2D, c.beta) : new Open<PLSPrior<float>>();
    b.p.reset(q);
    if (!c.ctor_route) {
      q->open_set_only_2D(c.only2D);
      q->set_penalisation_factor(c.beta);
    }
    q->set_alpha(c.alpha);
    q->set_eta(c.eta);
    q->set_anatomical_image_sptr(image_from(c, c.anat));
    if (kap) q->set_kappa_sptr(kap);
    b.get_weights = []() { return Array<3, float>(); };
  }
  if (!g_rejected) b.p->set_up(target);
  return b;
}

// ---------------------------------------------------------------- recording helpers
static bool g_bad = false; // a non-finite number was seen while building the current line
static int pick_k(double maxabs, int bits) {
  if (!(maxabs > 0) || !std::isfinite(maxabs)) return 0;
  int e;
  std::frexp(maxabs, &e);
  int k = bits - e;
  return k > 40 ? 40 : (k < -20 ? -20 : k);
}
static long long fxq(double v, int k) {
  if (!std::isfinite(v)) { g_bad = true; return 0; }
  double s = std::ldexp(v, k);
  if (std::fabs(s) > 536870912.0) { g_bad = true; return 0; } // 2^29: sums of two recorded numbers stay below 2^31 in TLC
  return std::llround(s);
}
static double maxabs(const std::vector<float>& v) {
  double m = 0;
  for (float x : v) { if (!std::isfinite(x)) { g_bad = true; continue; } m = std::max(m, (double)std::fabs(x)); }
  return m;
}
// residual of the quantisation in 2^-20 units of the quantum (exact instances: must be 0)
static long long resq(double v, int k) {
  if (!std::isfinite(v)) return 0;
  double s = std::ldexp(v, k);
  return (long long)std::ceil(std::ldexp(std::fabs(s - std::round(s)), 20));
}
static std::vector<long long> fxv(const std::vector<float>& v, int k, long long* res = nullptr) {
  std::vector<long long> r;
  for (float x : v) { r.push_back(fxq(x, k)); if (res) *res = std::max(*res, resq(x, k)); }
  return r;
}
static void finish(vh::Trace& tr, vh::Json& j) {
  if (g_bad) j.boolean("bad", true);
  g_bad = false;
  tr.emit(j);
}
static std::vector<float> gradient(Prior& p, const Img& x) {
  shared_ptr<Img> g(x.get_empty_copy());
  g->fill(-77.F); // "should overwrite any data"
  p.compute_gradient(*g, x);
  return flat(*g);
}
static bool hess_row(Prior& p, const Cfg& c, const Img& x, int i, std::vector<float>& row) {
  shared_ptr<Img> h(x.get_empty_copy());
  h->fill(-55.F);
  bool err = vh::threw([&] { p.compute_Hessian(*h, coords_of(c, i), x); });
  row = flat(*h);
  return !err;
}
static bool hess_times(Prior& p, const Img& x, const Img& v, const std::vector<float>* o, const Cfg& c, std::vector<float>& out) {
  shared_ptr<Img> r = o ? image_from(c, *o) : shared_ptr<Img>(x.get_empty_copy());
  bool err = vh::threw([&] { p.accumulate_Hessian_times_input(*r, x, v); });
  out = flat(*r);
  return !err;
}
static std::vector<std::vector<long long>> sparse(const std::vector<float>& v, int k) {
  std::vector<std::vector<long long>> nz;
  for (size_t j = 0; j < v.size(); ++j)
    if (v[j] != 0.F || !std::isfinite(v[j])) nz.push_back({ (long long)j + 1, fxq(v[j], k) });
  return nz;
}

// ---------------------------------------------------------------- input generation
static const int SHAPES_SMALL[][3] = { { 1, 1, 1 }, { 1, 1, 2 }, { 2, 1, 1 }, { 1, 3, 1 }, { 1, 4, 3 }, { 2, 2, 2 }, { 3, 3, 3 }, { 2, 3, 4 },
                                       { 1, 1, 5 }, { 3, 1, 2 }, { 4, 1, 1 }, { 1, 5, 5 }, { 3, 2, 1 }, { 2, 5, 3 }, { 5, 2, 2 }, { 3, 4, 5 } };
static const int SHAPES_BIG[][3] = { { 8, 9, 10 }, { 4, 5, 6 }, { 1, 9, 10 }, { 8, 1, 10 }, { 8, 9, 1 }, { 6, 7, 5 }, { 2, 9, 10 } };

static void pick_shape(Cfg& c, vh::Rng& rng, int idx, bool big, int maxvox) {
  const int ns = sizeof(SHAPES_SMALL) / sizeof(SHAPES_SMALL[0]), nb = sizeof(SHAPES_BIG) / sizeof(SHAPES_BIG[0]);
  for (int tries = 0; tries < 100; ++tries) {
    const int* s;
    int r[3];
    if (big && idx % 5 == 4) s = SHAPES_BIG[(idx / 5) % nb];
    else if (idx < 2 * ns && tries == 0) s = SHAPES_SMALL[idx % ns];
    else { r[0] = rng.range(1, 4); r[1] = rng.range(1, 5); r[2] = rng.range(1, 5); s = r; }
    if (s[0] * s[1] * s[2] <= maxvox) { c.n[0] = s[0]; c.n[1] = s[1]; c.n[2] = s[2]; break; }
    ++idx;
  }
  // index ranges: STIR convention (z from 0, y and x centred) or arbitrary offsets
  if (rng.coin()) { c.mn[0] = 0; c.mn[1] = -(c.n[1] / 2); c.mn[2] = -(c.n[2] / 2); }
  else { c.mn[0] = rng.range(-3, 3); c.mn[1] = rng.range(-4, 2); c.mn[2] = rng.range(-2, 5); }
}

// symmetric non-negative weights with zero centre on a (2rz+1)(2ry+1)(2rx+1) stencil; values q*step, q in 0..qmax
static void symmetric_weights(Cfg& c, vh::Rng& rng, int rz, int ry, int rx, int qmax, float step, int zero_in = 0) {
  c.userw = true;
  c.wr[0] = rz; c.wr[1] = ry; c.wr[2] = rx;
  const int sz = 2 * rz + 1, sy = 2 * ry + 1, sx = 2 * rx + 1, n = sz * sy * sx;
  c.w.assign(n, 0.F);
  for (int k = 0; k < n / 2; ++k) {
    int q = (zero_in > 0 && rng.range(0, zero_in) != 0) ? 0 : rng.range(0, qmax);
    c.w[k] = c.w[n - 1 - k] = q * step;
  }
  c.w[n / 2] = 0.F;
  // never all zero (unless the stencil is a single point)
  if (n > 1) { bool any = false; for (float v : c.w) any = any || v != 0.F; if (!any) c.w[n / 2 - 1] = c.w[n / 2 + 1] = step; }
}

static void pick_weights(Cfg& c, vh::Rng& rng, int idx, bool exact) {
  const float step = exact ? 1.F : 0.25F;
  const int qmax = exact ? 3 : 8;
  switch (idx % 8) {
  case 0: symmetric_weights(c, rng, 1, 1, 1, qmax, step); break;                 // 3x3x3
  case 1: symmetric_weights(c, rng, 2, 2, 2, exact ? 2 : 4, step, 3); break;     // 5x5x5, sparse
  case 2: symmetric_weights(c, rng, 0, 1, 1, qmax, step); break;                 // 2D stencil
  case 3: symmetric_weights(c, rng, 1, 1, 1, qmax, step); c.parse_route = true; break; // 3x3x3 through the parser
  case 4: symmetric_weights(c, rng, rng.range(0, 2), rng.range(0, 2), rng.range(0, 2), qmax, step, 1); break; // anisotropic stencil
  case 5: if (rng.coin()) symmetric_weights(c, rng, 1, 0, 1, qmax, step); else symmetric_weights(c, rng, 1, 1, 0, qmax, step); break; // 3x1x3, 3x3x1
  case 6: // weights that are NOT symmetric under dr -> -dr
    symmetric_weights(c, rng, 1, 1, 1, qmax, step);
    for (size_t k = 0; k < c.w.size() / 2; ++k) c.w[k] = rng.range(0, qmax) * step;
    c.w[12] = c.w[14] + step;
    break;
  case 7: // a non-zero weight at the centre of the stencil
    symmetric_weights(c, rng, 1, 1, 1, qmax, step);
    c.w[13] = rng.range(1, qmax) * step;
    break;
  default:
    if (exact) symmetric_weights(c, rng, 1, 1, 1, qmax, step);
    else { c.userw = false; c.only2D = false; }
    break;
  }
}

static std::vector<float> random_ints(vh::Rng& rng, int n, int lo, int hi) {
  std::vector<float> v(n);
  for (auto& x : v) x = (float)rng.range(lo, hi);
  return v;
}
static std::vector<float> random_dyadic(vh::Rng& rng, int n, int lo, int hi, float step) {
  std::vector<float> v(n);
  for (auto& x : v) x = rng.range(lo, hi) * step;
  return v;
}

static std::vector<long long> asint(const std::vector<float>& v) {
  std::vector<long long> r;
  for (float x : v) r.push_back((long long)std::llround(x));
  return r;
}

static long cfg_id = 0;

// ---------------------------------------------------------------- exact instances
// weights along one axis only (a chain stencil): w, 0, w on that axis
static void axis_weights(Cfg& c, int axis, float w) {
  c.userw = true;
  c.wr[0] = c.wr[1] = c.wr[2] = 0;
  c.wr[axis] = 1;
  c.w = { w, 0.F, w };
}
// image whose lines along `axis` are chains with x_i + x_{i+1} + eps a power of two (<= 32): with gamma = 0 every
// RDP term is then a dyadic rational and single/double precision arithmetic is exact
static std::vector<float> chain_image(const Cfg& c, vh::Rng& rng, int axis, int eps) {
  const int n = c.nvox();
  std::vector<float> v(n, 0.F);
  const int stride = axis == 2 ? 1 : (axis == 1 ? c.n[2] : c.n[1] * c.n[2]);
  for (int i = 0; i < n; ++i) {
    const int pos = (i / stride) % c.n[axis];
    if (pos == 0) { v[i] = (float)rng.range(0, 6); continue; }
    const int prev = (int)v[i - stride];
    std::vector<int> cand;
    for (int m = 1; m <= 5; ++m) { const int nx = (1 << m) - eps - prev; if (nx >= 0 && nx <= 20) cand.push_back(nx); }
    v[i] = cand.empty() ? (float)prev : (float)rng.pick(cand); // (prev, prev) with D = 2 prev + eps is not a power of two in general: TLC decides
  }
  return v;
}
// image that is constant along every axis on which the stencil extends (all neighbour differences are 0)
static std::vector<float> flat_image(const Cfg& c, vh::Rng& rng, int lo, int hi) {
  const int n = c.nvox();
  std::vector<float> az(c.n[0]), ay(c.n[1]), ax(c.n[2]);
  for (auto& q : az) q = c.wr[0] == 0 ? (float)rng.range(lo, hi) : 0.F;
  for (auto& q : ay) q = c.wr[1] == 0 ? (float)rng.range(lo, hi) : 0.F;
  for (auto& q : ax) q = c.wr[2] == 0 ? (float)rng.range(lo, hi) : 0.F;
  const float base = (float)rng.range(lo, hi);
  std::vector<float> v(n);
  for (int i = 0; i < n; ++i) v[i] = base + az[i / (c.n[1] * c.n[2])] + ay[(i / c.n[2]) % c.n[1]] + ax[i % c.n[2]];
  return v;
}

static void run_exact(vh::Trace& tr, vh::Rng& rng, int idx, bool big) {
  // families: 0 quadratic, 1 RDP (fixed point), 2 RDP with gamma = 0 on chain images (dyadic: exact), 3 log-cosh on images
  // without differences between neighbours (exact)
  static const int FAM[] = { 0, 1, 0, 1, 2, 3 };
  const int fam = FAM[idx % 6];
  Cfg c;
  c.exact = true;
  c.prior = fam == 0 ? "quad" : (fam == 3 ? "logcosh" : "rdp");
  const bool quad = fam == 0;
  pick_shape(c, rng, idx / 2, big && quad, quad ? 720 : (fam == 1 ? 30 : 60));
  c.sp[0] = 1.F + rng.range(0, 3); c.sp[1] = 1.F + rng.range(0, 3) * 0.5F; c.sp[2] = 1.F + rng.range(0, 2);
  int axis = 2;
  if (fam == 2) {
    // the chain runs along an axis with more than one voxel where there is one
    axis = rng.range(0, 2);
    for (int t = 0; t < 3 && c.n[axis] == 1; ++t) axis = (axis + 1) % 3;
    axis_weights(c, axis, (float)rng.range(1, 3));
    c.parse_route = rng.range(0, 3) == 0;
  } else
    pick_weights(c, rng, idx / 2 + idx / 16, true);
  // kappa: none, positive integers, or integers including zeros
  switch (rng.range(0, 3)) {
  case 0: break;
  case 1: c.kappa = random_ints(rng, c.nvox(), 0, quad ? 3 : 2); break;
  default: c.kappa = random_ints(rng, c.nvox(), 1, quad ? 3 : 2); break;
  }
  // penalisation factor: positive, and sometimes zero or negative
  static const int BETAS[] = { 1, 2, 3, 1, 2, 1, 0, -1, -2, 2 };
  c.beta = (float)BETAS[rng.range(0, 9)];
  if (!quad && c.beta == 3.F) c.beta = 2.F;
  static const int GAMMAS[] = { 0, 1, 2, 3, 10 };
  static const int EPSS[] = { 1, 2, 1, 2, 8 };
  c.gamma = fam == 2 ? 0.F : (float)GAMMAS[rng.range(0, 4)];
  c.eps = fam == 2 ? (float)(1 << rng.range(0, 2)) : (float)EPSS[rng.range(0, 4)];
  static const float SC[] = { 0.5F, 1.F, 2.F, 8.F };
  c.scalar = SC[rng.range(0, 3)];
  // only_2D and the penalisation factor through the documented constructors (user weights are then set afterwards)
  if (!c.parse_route && rng.range(0, 3) == 0) { c.ctor_route = true; c.only2D = rng.coin(); }
  const int xmax = quad ? 7 : 5;
  if (!quad && c.wr[0] == 2) { for (auto& v : c.w) v = std::min(v, 1.F); }

  shared_ptr<Img> target = make_image(c);
  Box b = make_prior(c, target);
  Prior& p = *b.p;
  if (g_rejected) {
    vh::Json j("ConfigRejected");
    j.num("id", ++cfg_id).str("prior", c.prior).str("mode", "E").arr("wr", std::vector<int>{ c.wr[0], c.wr[1], c.wr[2] }).arr("w", asint(c.w)).str("route", route_of(c));
    finish(tr, j);
    return;
  }
  {
    vh::Json j("Config");
    j.num("id", ++cfg_id).str("prior", c.prior).str("mode", "E").arr("dims", std::vector<int>{ c.n[0], c.n[1], c.n[2] })
        .arr("mins", std::vector<int>{ c.mn[0], c.mn[1], c.mn[2] }).arr("wr", std::vector<int>{ c.wr[0], c.wr[1], c.wr[2] }).arr("w", asint(c.w))
        .arr("kappa", asint(c.kappa)).boolean("hasKappa", !c.kappa.empty()).num("beta", (long long)c.beta).num("gamma", (long long)c.gamma).num("eps", (long long)c.eps)
        .num("scalar1000", (long long)std::llround(c.scalar * 1000)).num("fam", fam).boolean("convex", p.is_convex()).str("route", route_of(c));
    finish(tr, j);
  }
  const int kV = quad ? 2 : 15, kG = quad ? 0 : 16, kH = quad ? 0 : 16;
  const int n = c.nvox();
  const int nimg = n > 200 ? 1 : 2;
  for (int im = 0; im < nimg; ++im) {
    std::vector<float> xv = fam == 2 ? chain_image(c, rng, axis, (int)c.eps) : (fam == 3 ? flat_image(c, rng, 0, 3) : random_ints(rng, n, 0, xmax));
    if (fam < 2 && im == 1 && rng.range(0, 3) == 0) xv.assign(n, (float)rng.range(0, xmax)); // sometimes a uniform image
    shared_ptr<Img> x = image_from(c, xv);
    { vh::Json j("Image"); j.arr("x", asint(xv)); finish(tr, j); }
    {
      double v = 0;
      bool err = vh::threw([&] { v = p.compute_value(*x); });
      vh::Json j("Val");
      j.boolean("err", err).num("k", kV).num("m", fxq(v, kV)).num("res", resq(v, kV));
      finish(tr, j);
    }
    {
      std::vector<float> g;
      bool err = vh::threw([&] { g = gradient(p, *x); });
      long long res = 0;
      auto m = fxv(g, kG, &res);
      vh::Json j("Grad");
      j.boolean("err", err).num("k", kG).arr("g", m).num("res", res);
      finish(tr, j);
    }
    std::vector<std::vector<float>> rows(n);
    bool rows_ok = true;
    for (int i = 0; i < n; ++i) {
      std::vector<float>& row = rows[i];
      bool ok = hess_row(p, c, *x, i, row);
      rows_ok = rows_ok && ok;
      long long res = 0;
      for (float v : row) res = std::max(res, resq(v, kH));
      vh::Json j("HRow");
      j.boolean("err", !ok).num("i", i + 1).num("k", kH).arr2("nz", sparse(row, kH)).num("res", res);
      finish(tr, j);
    }
    // observation tuples on a sample of voxels: V(x+e_i), V(x-e_i), g_i(x); g_i(x+e_j), g_i(x), H_ij; H_ij, H_ji
    {
      std::vector<int> vox;
      if (n <= 12) for (int i = 0; i < n; ++i) vox.push_back(i);
      else { vox = { 0, n - 1, n / 2 }; for (int t = 0; t < 5; ++t) vox.push_back(rng.range(0, n - 1)); }
      std::vector<float> g = gradient(p, *x);
      for (int i : vox) {
        if (quad) {
          std::vector<float> a = xv, b2 = xv;
          a[i] += 1.F; b2[i] -= 1.F;
          double vp = 0, vm = 0;
          vh::threw([&] { vp = p.compute_value(*image_from(c, a)); vm = p.compute_value(*image_from(c, b2)); });
          vh::Json j("FDE");
          j.num("i", i + 1).num("k", 2).num("vp", fxq(vp, 2)).num("vm", fxq(vm, 2)).num("g", fxq(g[i], 0))
              .num("res", std::max(std::max(resq(vp, 2), resq(vm, 2)), resq(g[i], 0)));
          finish(tr, j);
        }
        // partners: the voxel itself, its flat neighbours, and a random voxel
        for (int jx : { i, i + 1, i - 1, i + c.n[2], rng.range(0, n - 1) }) {
          if (jx < 0 || jx >= n) continue;
          if (rows_ok) {
            vh::Json j("SymE");
            j.num("i", i + 1).num("j", jx + 1).num("k", kH).num("hij", fxq(rows[i][jx], kH)).num("hji", fxq(rows[jx][i], kH));
            finish(tr, j);
          }
          if (quad && rows_ok) {
            std::vector<float> a = xv;
            a[jx] += 1.F;
            std::vector<float> ga = gradient(p, *image_from(c, a));
            vh::Json j("JacE");
            j.num("i", i + 1).num("j", jx + 1).num("k", 0).num("gp", fxq(ga[i], 0)).num("g0", fxq(g[i], 0)).num("h", fxq(rows[i][jx], 0))
                .num("res", std::max(std::max(resq(ga[i], 0), resq(g[i], 0)), resq(rows[i][jx], 0)));
            finish(tr, j);
          }
        }
      }
    }
    for (int d = 0; d < 2; ++d) {
      std::vector<float> vv = d == 0 ? random_ints(rng, n, -2, 2) : xv; // a random direction and the image itself
      std::vector<float> o = random_ints(rng, n, -3, 3);
      shared_ptr<Img> v = image_from(c, vv);
      std::vector<float> out;
      bool ok = hess_times(p, *x, *v, &o, c, out);
      long long res = 0;
      auto m = fxv(out, kH, &res);
      // the call accumulates into an output image that initially holds o; the final content is recorded
      vh::Json j("HTimes");
      j.boolean("err", !ok).arr("v", asint(vv)).arr("o", asint(o)).num("k", kH).arr("out", m).num("res", res);
      finish(tr, j);
      if (d == 0) {
        shared_ptr<Img> r = image_from(c, o);
        bool err = vh::threw([&] { p.add_multiplication_with_approximate_Hessian(*r, *v); });
        long long res2 = 0;
        auto m2 = fxv(flat(*r), 0, &res2);
        vh::Json j2("HApprox");
        j2.boolean("err", err).arr("v", asint(vv)).arr("o", asint(o)).num("k", 0).arr("out", m2).num("res", res2);
        finish(tr, j2);
      }
    }
  }
}

// ---------------------------------------------------------------- relations between observations
static int cheb(const Cfg& c, int i, int j, int axis) {
  auto a = coords_of(c, i), b = coords_of(c, j);
  return std::abs(a[axis] - b[axis]);
}

static void run_rel(vh::Trace& tr, vh::Rng& rng, int idx, bool big) {
  static const char* PR[] = { "quad", "rdp", "logcosh", "pls" };
  Cfg c;
  c.prior = PR[idx % 4];
  const bool pls = c.prior == "pls";
  pick_shape(c, rng, idx / 4, big, 720);
  static const float SP[] = { 1.F, 1.5F, 2.F, 2.3F, 3.27F, 4.F, 0.8F };
  for (int a = 0; a < 3; ++a) c.sp[a] = SP[rng.range(0, 6)];
  if (!pls) {
    switch ((idx / 4) % 6) {
    case 0: c.ctor_route = rng.coin(); break;       // default weights from the grid spacing
    case 1: c.only2D = true; break;                 // default 2D weights (member set through a derived class)
    case 2: c.only2D = true; c.parse_route = true; break; // 'only 2D:=1'
    case 3: c.only2D = true; c.ctor_route = true; break;  // only_2D argument of the documented constructor
    default: pick_weights(c, rng, (idx / 24) % 8 >= 6 ? (idx / 24) % 8 : rng.range(0, 5), false); break;
    }
  } else {
    // (PLSPrior with only_2D binds references to null pointers: UBSan stops there, see notes)
    c.only2D = (idx / 4) % 3 == 1 && !getenv("C09_SKIP_PLS2D");
    c.ctor_route = (idx / 4) % 6 == 4 || (idx / 4) % 6 == 2;
  }
  const int n = c.nvox();
  switch (rng.range(0, 3)) { // kappa: none, in [1, 2.75], or in [0, 2.75] including zeros
  case 0: break;
  case 1: c.kappa = random_dyadic(rng, n, 0, 11, 0.25F); for (int t = 0; t < n; t += 3) c.kappa[rng.range(0, n - 1)] = 0.F; break;
  default: c.kappa = random_dyadic(rng, n, 4, 11, 0.25F); break;
  }
  static const float BETA[] = { 1.F, 0.5F, 2.F, 3.F, 0.75F, 1.F, 2.F, 0.F, -1.F, -0.5F };
  c.beta = BETA[rng.range(0, 9)];
  static const float GAM[] = { 0.F, 0.5F, 2.F, 16.F };
  c.gamma = GAM[rng.range(0, 3)];
  static const float EPS[] = { 0.25F, 1.F, 0.0009765625F, 64.F, 1.F, 0.25F };
  c.eps = EPS[rng.range(0, 5)];
  static const float SC[] = { 0.5F, 1.F, 2.F, 8.F };
  c.scalar = SC[rng.range(0, 3)];
  c.alpha = rng.coin() ? 1.F : 0.5F;
  c.eta = rng.coin() ? 1.F : 0.25F;
  if (pls) c.anat = random_dyadic(rng, n, 1, 63, 0.125F);

  shared_ptr<Img> target = make_image(c);
  Box b = make_prior(c, target);
  Prior& p = *b.p;
  if (g_rejected) {
    vh::Json j("ConfigRejected");
    j.num("id", ++cfg_id).str("prior", c.prior).str("mode", "F").arr("wr", std::vector<int>{ c.wr[0], c.wr[1], c.wr[2] }).arr("w", fxv(c.userw ? c.w : std::vector<float>(), 2)).str("route", route_of(c));
    finish(tr, j);
    return;
  }
  // a generic image on the 1/8 grid in [1/8, 4)
  std::vector<float> xv = random_dyadic(rng, n, 1, 31, 0.125F);
  shared_ptr<Img> x = image_from(c, xv);
  double v0 = 0;
  bool verr = vh::threw([&] { v0 = p.compute_value(*x); }); // also triggers the lazy computation of default weights
  // neighbourhood in use (what the object reports) and magnitudes the tolerances of the specification refer to
  int wr[3] = { c.only2D ? 0 : 1, 1, 1 };
  double wsum = 4;
  if (!pls) {
    Array<3, float> w = b.get_weights();
    if (w.get_length() > 0) {
      wr[0] = w.get_max_index(); wr[1] = w[0].get_max_index(); wr[2] = w[0][0].get_max_index();
      wsum = 0;
      for (auto it = w.begin_all(); it != w.end_all(); ++it) wsum += std::fabs(*it);
    }
  }
  double kmax = 1;
  for (float k : c.kappa) kmax = std::max(kmax, (double)k);
  {
    vh::Json j("Config");
    j.num("id", ++cfg_id).str("prior", c.prior).str("mode", "F").arr("dims", std::vector<int>{ c.n[0], c.n[1], c.n[2] })
        .arr("mins", std::vector<int>{ c.mn[0], c.mn[1], c.mn[2] }).arr("wr", std::vector<int>{ wr[0], wr[1], wr[2] })
        .boolean("userw", c.userw).arr("w4", fxv(c.userw ? c.w : std::vector<float>(), 2)).boolean("only2D", c.only2D).boolean("hasKappa", !c.kappa.empty()).boolean("convex", p.is_convex())
        .num("betaCeil", std::max(1LL, (long long)std::ceil(std::fabs(c.beta)))).num("betaSign", c.beta > 0 ? 1 : (c.beta < 0 ? -1 : 0)).num("wsum", (long long)std::ceil(wsum)).num("kmax2", (long long)std::ceil(kmax * kmax))
        .num("beta1000", (long long)std::llround(c.beta * 1000)).arr("sp1000", std::vector<long long>{ std::llround(c.sp[0] * 1000), std::llround(c.sp[1] * 1000), std::llround(c.sp[2] * 1000) })
        .arr("par1000", std::vector<long long>{ std::llround(c.gamma * 1000), std::llround(c.eps * 1000), std::llround(c.scalar * 1000), std::llround(c.alpha * 1000), std::llround(c.eta * 1000) })
        .str("route", route_of(c)).boolean("valueErr", verr);
    finish(tr, j);
  }
  const bool small = n <= 30;
  if (small) { vh::Json j("Image"); j.num("xk", 3).arr("x", fxv(xv, 3)); finish(tr, j); }
  if (pls && c.only2D) {
    // value of an image that varies along z only (every plane uniform), with alpha, beta, kappa as configured
    std::vector<float> zv(n);
    for (int i = 0; i < n; ++i) zv[i] = 1.F + 0.5F * (float)((i / (c.n[1] * c.n[2])) % 3);
    double v = 0, ks = 0;
    bool err = vh::threw([&] { v = p.compute_value(*image_from(c, zv)); });
    for (int i = 0; i < n; ++i) ks += c.kappa.empty() ? 1.0 : c.kappa[i];
    vh::Json j("PLS2D");
    j.boolean("err", err).num("k", 8).num("m", fxq(v, 8)).num("res", resq(v, 8)).num("b8", (long long)std::llround(c.beta * 8)).num("a8", (long long)std::llround(c.alpha * 8))
        .num("ksum4", (long long)std::llround(ks * 4));
    finish(tr, j);
  }

  // ---- Hessian: row i, H e_i, and the transposed entries (every voxel)
  std::vector<std::vector<float>> rows(n), cols(n);
  bool hess_ok = true;
  if (pls) {
    std::vector<float> row, col;
    bool ok1 = hess_row(p, c, *x, 0, row);
    shared_ptr<Img> e(x->get_empty_copy());
    (*e)[coords_of(c, 0)] = 1.F;
    bool ok2 = hess_times(p, *x, *e, nullptr, c, col);
    vh::Json j("H");
    j.num("i", 1).boolean("err", !ok1).boolean("errTimes", !ok2);
    finish(tr, j);
    hess_ok = false;
  } else {
    for (int i = 0; i < n && hess_ok; ++i) {
      hess_ok = hess_row(p, c, *x, i, rows[i]);
      shared_ptr<Img> e(x->get_empty_copy());
      (*e)[coords_of(c, i)] = 1.F;
      hess_ok = hess_ok && hess_times(p, *x, *e, nullptr, c, cols[i]);
    }
    if (!hess_ok) { vh::Json j("H"); j.num("i", 1).boolean("err", true).boolean("errTimes", true); finish(tr, j); }
    for (int i = 0; i < n && hess_ok; ++i) {
      double m = std::max(maxabs(rows[i]), maxabs(cols[i]));
      for (int jx = 0; jx < n; ++jx) m = std::max(m, (double)std::fabs(rows[jx][i]));
      const int k = pick_k(m, 28);
      std::vector<std::vector<long long>> nz;
      for (int jx = 0; jx < n; ++jx)
        if (rows[i][jx] != 0.F || cols[i][jx] != 0.F || rows[jx][i] != 0.F)
          nz.push_back({ jx + 1, fxq(rows[i][jx], k), fxq(cols[i][jx], k), fxq(rows[jx][i], k) });
      vh::Json j("H");
      j.num("i", i + 1).boolean("err", false).num("k", k).arr2("nz", nz);
      finish(tr, j);
    }
  }
  std::vector<float> g0 = gradient(p, *x);

  // ---- scaling with the penalisation factor: the same calls at beta and at beta*num/den
  {
    const int num = rng.range(1, 3), den = (num == 1) ? 2 : 1;
    const float beta2 = c.beta * num / den;
    const int iv = rng.range(0, n - 1);
    p.set_penalisation_factor(beta2);
    double v1 = 0;
    vh::threw([&] { v1 = p.compute_value(*x); });
    std::vector<float> g1 = gradient(p, *x);
    std::vector<float> r1;
    if (hess_ok) hess_row(p, c, *x, iv, r1);
    p.set_penalisation_factor(c.beta);
    {
      const int k = pick_k(std::max(std::fabs(v0), std::fabs(v1)), 26);
      vh::Json j("ScaleV");
      j.num("num", num).num("den", den).num("k", k).num("a", fxq(v0, k)).num("b", fxq(v1, k));
      finish(tr, j);
    }
    {
      const int k = pick_k(std::max(maxabs(g0), maxabs(g1)), 26);
      vh::Json j("ScaleG");
      j.num("num", num).num("den", den).num("k", k).arr("a", fxv(g0, k)).arr("b", fxv(g1, k));
      finish(tr, j);
    }
    if (hess_ok) {
      const int k = pick_k(std::max(maxabs(rows[iv]), maxabs(r1)), 26);
      vh::Json j("ScaleH");
      j.num("num", num).num("den", den).num("i", iv + 1).num("k", k).arr("a", fxv(rows[iv], k)).arr("b", fxv(r1, k));
      finish(tr, j);
    }
  }
  // ---- kappa: the same calls with the kappa image doubled (or, if none is set, with a kappa image of ones)
  {
    Cfg c2 = c;
    const bool had = !c.kappa.empty();
    if (had) for (auto& k : c2.kappa) k *= 2.F;
    else c2.kappa.assign(n, 1.F);
    Box b2 = make_prior(c2, target);
    if (!g_rejected) {
      double v2 = 0;
      vh::threw([&] { v2 = b2.p->compute_value(*x); });
      std::vector<float> g2 = gradient(*b2.p, *x);
      const int k = pick_k(std::max(std::max(std::fabs(v0), std::fabs(v2)), std::max(maxabs(g0), maxabs(g2))), 26);
      vh::Json j(had ? "KScale" : "KOnes");
      j.num("k", k).num("va", fxq(v0, k)).num("vb", fxq(v2, k)).arr("ga", fxv(g0, k)).arr("gb", fxv(g2, k));
      finish(tr, j);
    }
  }
  // ---- gradient of uniform images
  for (int u = 0; u < 2; ++u) {
    const float cv = u == 0 ? 0.F : rng.range(1, 31) * 0.125F;
    shared_ptr<Img> ux(x->get_empty_copy());
    ux->fill(cv);
    std::vector<float> g = gradient(p, *ux);
    vh::Json j("Uniform");
    j.num("c8", (long long)std::llround(cv * 8)).num("k", 30).num("n", (long long)g.size()).arr2("nz", sparse(g, 30));
    finish(tr, j);
  }
  // ---- locality: gradient at voxel i before / after changing a voxel j further away than the stencil radius
  for (int t = 0, done = 0; t < 40 && done < 8 && n > 1; ++t) {
    const int i = rng.range(0, n - 1), jx = rng.range(0, n - 1);
    if (cheb(c, i, jx, 1) <= wr[0] && cheb(c, i, jx, 2) <= wr[1] && cheb(c, i, jx, 3) <= wr[2]) continue;
    ++done;
    shared_ptr<Img> y = image_from(c, xv);
    (*y)[coords_of(c, jx)] += 1.F;
    std::vector<float> g1 = gradient(p, *y);
    const int k = pick_k(std::max(std::fabs(g0[i]), std::fabs(g1[i])), 28);
    vh::Json j("Local");
    j.num("i", i + 1).num("j", jx + 1).num("k", k).num("a", fxq(g0[i], k)).num("b", fxq(g1[i], k));
    finish(tr, j);
  }
  // ---- x^T H x for a few directions; H v for integer v against the columns (small images)
  if (hess_ok) {
    for (int d = 0; d < 5; ++d) {
      std::vector<float> vv(n);
      for (int i = 0; i < n; ++i) {
        auto cc = coords_of(c, i);
        switch (d) {
        case 0: vv[i] = 1.F; break;
        case 1: vv[i] = xv[i]; break;
        case 2: vv[i] = ((cc[1] + cc[2] + cc[3]) & 1) ? 1.F : -1.F; break;
        case 3: vv[i] = (float)rng.range(-8, 8) * 0.25F; break;
        default: vv[i] = (float)(cc[1] - c.mn[0]) * 0.5F + (float)(cc[3] - c.mn[2]) * 0.25F - 1.F; break;
        }
      }
      shared_ptr<Img> v = image_from(c, vv);
      std::vector<float> hv;
      if (!hess_times(p, *x, *v, nullptr, c, hv)) continue;
      // both factors are quantised so that the sum of n products stays below 2^31
      int bits = 13;
      while (bits > 6 && (double)n * std::ldexp(1.0, 2 * bits) > 1.5e9) --bits;
      // H v is recorded with a resolution relative to the terms it is summed from (largest Hessian entry times largest
      // component of v), so that single-precision noise in a (nearly) vanishing H v is not magnified
      double hmax = 0;
      for (auto& row : rows) hmax = std::max(hmax, maxabs(row));
      const int kv = pick_k(maxabs(vv), bits), kh = pick_k(std::max(maxabs(hv), hmax * maxabs(vv)), bits);
      vh::Json j("PSD");
      j.num("dir", d).num("kv", kv).num("kh", kh).arr("v", fxv(vv, kv)).arr("hv", fxv(hv, kh));
      finish(tr, j);
    }
    if (small) {
      std::vector<float> vv = random_ints(rng, n, -2, 2);
      shared_ptr<Img> v = image_from(c, vv);
      std::vector<float> hv;
      if (hess_times(p, *x, *v, nullptr, c, hv)) {
        double m = maxabs(hv);
        for (auto& col : cols) m = std::max(m, maxabs(col));
        const int k = pick_k(m * 2 * n, 28);
        std::vector<std::vector<long long>> cm;
        for (auto& col : cols) cm.push_back(fxv(col, k));
        vh::Json j("Lin");
        j.num("k", k).arr("v", asint(vv)).arr("hv", fxv(hv, k)).arr2("cols", cm);
        finish(tr, j);
      }
    }
  }
  // ---- finite differences, value against gradient: V(x), V(x + h e_i), g_i(x), g_i(x + h e_i)
  {
    std::vector<int> vox;
    if (n <= 40) for (int i = 0; i < n; ++i) vox.push_back(i);
    else {
      vox = { 0, n - 1, c.n[2] - 1, n - c.n[2], n / 2, n / 2 + 1 };
      for (int t = 0; t < 8; ++t) vox.push_back(rng.range(0, n - 1));
      // and voxels away from every face of the image (where they exist)
      for (int t = 0; t < 8; ++t) {
        int q[3];
        for (int a = 0; a < 3; ++a) q[a] = c.n[a] >= 3 ? rng.range(1, c.n[a] - 2) : rng.range(0, c.n[a] - 1);
        vox.push_back((q[0] * c.n[1] + q[1]) * c.n[2] + q[2]);
      }
    }
    for (int i : vox)
      for (int hk : { 4, 8 }) {
        const float h = std::ldexp(1.F, -hk);
        shared_ptr<Img> y = image_from(c, xv);
        (*y)[coords_of(c, i)] += h;
        double v1 = 0;
        vh::threw([&] { v1 = p.compute_value(*y); });
        std::vector<float> g1 = gradient(p, *y);
        const int kv = std::min(pick_k(std::max(std::fabs(v0), std::fabs(v1)), 28), 36);
        const int kg = kv - hk;
        vh::Json j("FDV");
        j.num("i", i + 1).num("hk", hk).num("kv", kv).num("kg", kg).num("v0", fxq(v0, kv)).num("v1", fxq(v1, kv)).num("g0", fxq(g0[i], kg)).num("g1", fxq(g1[i], kg));
        finish(tr, j);
      }
  }
  // ---- finite differences, gradient against Hessian (small images; TLC knows the image)
  if (small && hess_ok) {
    const int hk = 6;
    const float h = std::ldexp(1.F, -hk);
    for (int pass = (c.prior == "rdp" ? 1 : 0); pass < 3; ++pass) {
      // pass 0: generic image, off-diagonal entries; pass 1: voxel i raised above all others; pass 2: voxel i lowered to 0
      for (int i = 0; i < n; ++i) {
        std::vector<float> bv = xv;
        if (pass == 1) bv[i] = 4.F;
        if (pass == 2) bv[i] = 0.F;
        if (pass > 0 && i % 3 != idx % 3 && n > 9) continue;
        shared_ptr<Img> a = image_from(c, bv);
        std::vector<float> bv1 = bv;
        bv1[i] += h;
        shared_ptr<Img> a1 = image_from(c, bv1);
        std::vector<float> ga = gradient(p, *a), ga1 = gradient(p, *a1);
        std::vector<long long> js;
        std::vector<float> G0, G1, H0, H1;
        for (int jx = 0; jx < n; ++jx) {
          if (pass == 0 ? (jx == i) : (jx != i)) continue;
          if (cheb(c, i, jx, 1) > wr[0] || cheb(c, i, jx, 2) > wr[1] || cheb(c, i, jx, 3) > wr[2]) continue;
          std::vector<float> r0, r1;
          if (!hess_row(p, c, *a, jx, r0) || !hess_row(p, c, *a1, jx, r1)) continue;
          js.push_back(jx + 1);
          G0.push_back(ga[jx]); G1.push_back(ga1[jx]); H0.push_back(r0[i]); H1.push_back(r1[i]);
        }
        if (js.empty()) continue;
        const int kg = std::min(std::min(pick_k(std::max(maxabs(G0), maxabs(G1)), 28), pick_k(std::max(maxabs(H0), maxabs(H1)), 28) + hk), 34);
        const int kh = kg - hk;
        vh::Json j("FDG");
        j.num("i", i + 1).num("pass", pass).num("hk", hk).num("kg", kg).num("kh", kh).num("xk", 3).arr("x", fxv(bv, 3)).arr("js", js)
            .arr("g0", fxv(G0, kg)).arr("g1", fxv(G1, kg)).arr("h0", fxv(H0, kh)).arr("h1", fxv(H1, kh));
        finish(tr, j);
      }
    }
  }
}

// ---------------------------------------------------------------- histories on one object (set-up protocol, parameter files)
static std::string g_filebase;
static long file_id = 0;
static std::string write_image_file(const Cfg& c, const std::vector<float>& v) {
  std::string fn = g_filebase + "." + std::to_string(++file_id) + ".hv";
  shared_ptr<Img> im = image_from(c, v);
  write_to_file(fn, *im);
  return fn;
}
// the parameter file text of a configuration (kappa / anatomical image through file names)
static std::string parameter_text(const Cfg& c, const std::string& kappa_fn, const std::string& anat_fn) {
  std::ostringstream s;
  if (c.prior == "quad") s << "Quadratic Prior Parameters:=\n";
  else if (c.prior == "rdp") s << "Relative Difference Prior Parameters:=\n";
  else if (c.prior == "logcosh") s << "Logcosh Prior Parameters:=\n";
  else s << "PLS Prior Parameters:=\n";
  s << "penalisation factor:=" << c.beta << "\nonly 2D:=" << (c.only2D ? 1 : 0) << "\n";
  if (c.prior == "rdp") s << "gamma value:=" << c.gamma << "\nepsilon value:=" << c.eps << "\n";
  if (c.prior == "logcosh") s << "scalar:=" << c.scalar << "\n";
  if (c.prior == "pls") s << "alpha:=" << c.alpha << "\neta:=" << c.eta << "\nanatomical_filename:=" << anat_fn << "\n";
  if (c.prior != "pls" && c.userw) s << "weights:=" << weights_text(c) << "\n";
  if (!kappa_fn.empty()) s << "kappa filename:=" << kappa_fn << "\n";
  if (c.prior == "quad") s << "END Quadratic Prior Parameters:=\n";
  else if (c.prior == "rdp") s << "END Relative Difference Prior Parameters:=\n";
  else if (c.prior == "logcosh") s << "END Logcosh Prior Parameters:=\n";
  else s << "END PLS Prior Parameters:=\n";
  return s.str();
}
static shared_ptr<Prior> new_prior(const std::string& prior) {
  if (prior == "quad") return shared_ptr<Prior>(new QuadraticPrior<float>());
  if (prior == "rdp") return shared_ptr<Prior>(new RelativeDifferencePrior<float>());
  if (prior == "logcosh") return shared_ptr<Prior>(new LogcoshPrior<float>());
  return shared_ptr<Prior>(new PLSPrior<float>());
}
static void set_kappa(Prior& p, const std::string& prior, const shared_ptr<Img>& k) {
  if (prior == "quad") dynamic_cast<QuadraticPrior<float>&>(p).set_kappa_sptr(k);
  else if (prior == "rdp") dynamic_cast<RelativeDifferencePrior<float>&>(p).set_kappa_sptr(k);
  else if (prior == "logcosh") dynamic_cast<LogcoshPrior<float>&>(p).set_kappa_sptr(k);
  else dynamic_cast<PLSPrior<float>&>(p).set_kappa_sptr(k);
}
static void set_unit_weights(Prior& p, const std::string& prior) {
  Array<3, float> w(IndexRange3D(-1, 1, -1, 1, -1, 1));
  w.fill(1.F);
  w[0][0][0] = 0.F;
  if (prior == "quad") dynamic_cast<QuadraticPrior<float>&>(p).set_weights(w);
  else if (prior == "rdp") dynamic_cast<RelativeDifferencePrior<float>&>(p).set_weights(w);
  else if (prior == "logcosh") dynamic_cast<LogcoshPrior<float>&>(p).set_weights(w);
}
// one call of the API on image x; the outcome (error or not, and a fixed-point digest of the result) is recorded
static void record_call(vh::Trace& tr, Prior& p, const Cfg& c, const char* fn, const Img& x) {
  double v = 0;
  std::vector<float> out;
  bool err = false;
  const std::string f = fn;
  if (f == "value") err = vh::threw([&] { v = p.compute_value(x); });
  else if (f == "gradient") err = vh::threw([&] { out = gradient(p, x); });
  else if (f == "hessian") err = !hess_row(p, c, x, 0, out);
  else if (f == "htimes") err = !hess_times(p, x, x, nullptr, c, out);
  else err = vh::threw([&] { shared_ptr<Img> r(x.get_empty_copy()); p.add_multiplication_with_approximate_Hessian(*r, x); out = flat(*r); });
  vh::Json j("Call");
  j.str("fn", fn).boolean("err", err);
  finish(tr, j);
}

static void run_hist(vh::Trace& tr, vh::Rng& rng, int idx) {
  static const char* PR[] = { "quad", "rdp", "logcosh", "pls" };
  Cfg c;
  c.prior = PR[idx % 4];
  const bool pls = c.prior == "pls";
  static const int SH[][3] = { { 3, 3, 4 }, { 1, 4, 3 }, { 2, 2, 2 }, { 3, 1, 5 }, { 4, 5, 3 } };
  const int* sh = SH[(idx / 4) % 5];
  for (int a = 0; a < 3; ++a) c.n[a] = sh[a];
  c.mn[0] = 0; c.mn[1] = -(c.n[1] / 2); c.mn[2] = -(c.n[2] / 2); // the index ranges images have after reading them from file
  static const float SP[] = { 1.F, 1.5F, 2.F, 3.F, 4.F };
  for (int a = 0; a < 3; ++a) c.sp[a] = SP[rng.range(0, 4)];
  const int n = c.nvox();
  static const float BETA[] = { 1.F, 0.5F, 2.F, 3.F };
  c.beta = BETA[rng.range(0, 3)];
  c.gamma = rng.coin() ? 2.F : 0.5F; c.eps = rng.coin() ? 1.F : 0.25F; c.scalar = rng.coin() ? 1.F : 2.F;
  c.alpha = rng.coin() ? 1.F : 0.5F; c.eta = rng.coin() ? 1.F : 0.25F;
  c.anat = random_dyadic(rng, n, 1, 63, 0.125F);
  std::vector<float> xv = random_dyadic(rng, n, 1, 31, 0.125F);
  shared_ptr<Img> x = image_from(c, xv);
  int variant = (idx / 4) % 4;
  if (pls && variant == 2) variant = 0; // (the anatomical image ties a PLS prior to one geometry)

  if (variant <= 1) {
    // ---- protocol: a history of setters, set_up and calls on one object
    // the object is default-constructed, or (quadratic prior, every other time) constructed with the documented two-argument
    // constructor in storage that does not happen to be zero-filled
    const bool dirty = c.prior == "quad" && variant == 1 && !getenv("C09_SKIP_PLS2D"); // (under UBSan the load of the uninitialised bool itself stops the run)
    shared_ptr<Prior> pp;
    if (dirty) {
      void* mem = ::operator new(sizeof(QuadraticPrior<float>));
      std::memset(mem, 0xFF, sizeof(QuadraticPrior<float>));
      pp.reset(new (mem) QuadraticPrior<float>(false, c.beta), [](Prior* q) { q->~Prior(); ::operator delete((void*)q); });
    } else
      pp = new_prior(c.prior);
    Prior& p = *pp;
    p.set_penalisation_factor(c.beta);
    if (pls) dynamic_cast<PLSPrior<float>&>(p).set_anatomical_image_sptr(image_from(c, c.anat));
    { vh::Json j("New"); j.num("id", ++cfg_id).str("prior", c.prior).str("mode", "P").arr("dims", std::vector<int>{ c.n[0], c.n[1], c.n[2] }).str("ctor", dirty ? "args" : "default"); finish(tr, j); }
    // calls that do not check their arguments are never made with a kappa image of another size (they would read outside it)
    auto unchecked = [&](const std::string& f) { return (c.prior == "rdp" && f == "htimes") || (c.prior == "logcosh" && f != "hessian" && f != "happrox"); };
    static const char* FN[] = { "value", "gradient", "hessian", "htimes", "happrox" };
    bool kappa_ok = true;
    Cfg other = c;
    other.n[2] = c.n[2] + 1; // an image with another index range
    for (int step = 0; step < 14; ++step) {
      const int a = step == 0 ? 0 : rng.range(0, 9);
      if (a <= 4) {
        const char* f = FN[step == 0 ? rng.range(0, 3) : a];
        if (!kappa_ok && unchecked(f)) continue;
        record_call(tr, p, c, f, *x);
      } else if (a == 5 || a == 6) {
        bool err = vh::threw([&] { p.set_up(x); });
        vh::Json j("SetUp"); j.boolean("err", err); finish(tr, j);
      } else if (a == 7) {
        const bool match = rng.range(0, 2) != 0;
        std::vector<float> kv = random_dyadic(rng, match ? n : other.nvox(), 4, 11, 0.25F);
        set_kappa(p, c.prior, image_from(match ? c : other, kv));
        kappa_ok = match;
        vh::Json j("SetKappa"); j.boolean("match", match); finish(tr, j);
      } else if (a == 8 && !pls) {
        set_unit_weights(p, c.prior);
        vh::Json j("SetWeights"); finish(tr, j);
      } else {
        p.set_penalisation_factor(c.beta * 2);
        vh::Json j("SetBeta"); j.boolean("zero", false); finish(tr, j);
      }
    }
    return;
  }
  if (variant == 2) {
    // ---- one object used for images of two voxel sizes (set_up each time) against a fresh object
    Cfg c2 = c;
    for (int a = 0; a < 3; ++a) c2.sp[a] = SP[(rng.range(0, 3) + 1 + (int)(c.sp[a])) % 5];
    c2.sp[0] = c.sp[0] == 4.F ? 1.F : 4.F;
    c.only2D = c2.only2D = rng.range(0, 2) == 0 && !(pls && getenv("C09_SKIP_PLS2D"));
    c.kappa = c2.kappa = rng.coin() ? random_dyadic(rng, n, 4, 11, 0.25F) : std::vector<float>();
    shared_ptr<Img> xa = image_from(c, xv), xb = image_from(c2, xv);
    Box used = make_prior(c, xa);
    double va = 0; vh::threw([&] { va = used.p->compute_value(*xa); });
    if (!c.kappa.empty()) set_kappa(*used.p, c.prior, image_from(c2, c.kappa)); // the kappa image for the new geometry
    bool err = vh::threw([&] { used.p->set_up(xb); });
    double vu = 0, vf = 0;
    std::vector<float> gu, gf;
    bool e1 = vh::threw([&] { vu = used.p->compute_value(*xb); gu = gradient(*used.p, *xb); });
    Box fresh = make_prior(c2, xb);
    bool e2 = vh::threw([&] { vf = fresh.p->compute_value(*xb); gf = gradient(*fresh.p, *xb); });
    { vh::Json j("New"); j.num("id", ++cfg_id).str("prior", c.prior).str("mode", "P").arr("dims", std::vector<int>{ c.n[0], c.n[1], c.n[2] }).str("ctor", "default"); finish(tr, j); }
    const int k = pick_k(std::max(std::max(std::fabs(vu), std::fabs(vf)), std::max(maxabs(gu), maxabs(gf))), 28);
    vh::Json j("Fresh");
    j.boolean("userw", false).boolean("only2D", c.only2D).boolean("hasKappa", !c.kappa.empty())
        .arr("spA1000", std::vector<long long>{ std::llround(c.sp[0] * 1000), std::llround(c.sp[1] * 1000), std::llround(c.sp[2] * 1000) })
        .arr("spB1000", std::vector<long long>{ std::llround(c2.sp[0] * 1000), std::llround(c2.sp[1] * 1000), std::llround(c2.sp[2] * 1000) })
        .boolean("setUpErr", err).boolean("errUsed", e1).boolean("errFresh", e2).num("k", k).num("va", fxq(vu, k)).num("vb", fxq(vf, k)).arr("ga", fxv(gu, k)).arr("gb", fxv(gf, k));
    finish(tr, j);
    return;
  }
  // ---- parameter files: text -> object -> parameter_info -> object -> parameter_info, kappa / anatomical image from Interfile
  {
    if (!pls && rng.coin()) pick_weights(c, rng, rng.range(0, 5), false);
    c.only2D = rng.range(0, 2) == 0 && !(pls && getenv("C09_SKIP_PLS2D"));
    const bool with_kappa = rng.range(0, 2) != 0;
    if (with_kappa) c.kappa = random_dyadic(rng, n, 4, 11, 0.25F);
    const std::string kfn = with_kappa ? write_image_file(c, c.kappa) : std::string();
    const std::string afn = pls ? write_image_file(c, c.anat) : std::string();
    const std::string text = parameter_text(c, kfn, afn);
    shared_ptr<Prior> p1 = new_prior(c.prior), p2 = new_prior(c.prior);
    bool ok1 = false, ok2 = false;
    std::istringstream in1(text);
    if (vh::threw([&] { ok1 = p1->parse(in1); })) ok1 = false;
    const std::string info1 = ok1 ? p1->parameter_info() : std::string();
    std::istringstream in2(info1);
    if (vh::threw([&] { ok2 = ok1 && p2->parse(in2); })) ok2 = false;
    const std::string info2 = ok2 ? p2->parameter_info() : std::string();
    // the same configuration through the setters (kappa / anatomical image from memory)
    Cfg cs = c;
    cs.parse_route = false;
    Box direct = make_prior(cs, x);
    double v1 = 0, v2 = 0, vd = 0;
    std::vector<float> g1, g2, gd;
    bool e1 = vh::threw([&] { p1->set_up(x); v1 = p1->compute_value(*x); g1 = gradient(*p1, *x); });
    bool e2 = vh::threw([&] { p2->set_up(x); v2 = p2->compute_value(*x); g2 = gradient(*p2, *x); });
    bool ed = vh::threw([&] { vd = direct.p->compute_value(*x); gd = gradient(*direct.p, *x); });
    { vh::Json j("New"); j.num("id", ++cfg_id).str("prior", c.prior).str("mode", "P").arr("dims", std::vector<int>{ c.n[0], c.n[1], c.n[2] }).str("ctor", "default"); finish(tr, j); }
    const int k = pick_k(std::max(std::max(std::fabs(v1), std::fabs(vd)), std::max(maxabs(g1), maxabs(gd))), 28);
    vh::Json j("RoundTrip");
    j.boolean("ok1", ok1).boolean("ok2", ok2).boolean("err1", e1).boolean("err2", e2).boolean("errDirect", ed || g_rejected).boolean("hasKappa", with_kappa).boolean("userw", c.userw)
        .str("text", text).str("info1", info1).str("info2", info2).num("k", k)
        .num("v1", fxq(v1, k)).num("v2", fxq(v2, k)).num("vd", fxq(vd, k)).arr("g1", fxv(g1, k)).arr("g2", fxv(g2, k)).arr("gd", fxv(gd, k));
    finish(tr, j);
  }
}

// ---------------------------------------------------------------- FilterRootPrior
// a data processor of the harness: out = factor * in (the environment of the prior under test, not code under test)
class ScaleProcessor : public DataProcessor<DD> {
public:
  explicit ScaleProcessor(float f) : factor(f) {}
  std::string get_registered_name() const override { return "verif scale"; }
protected:
  Succeeded virtual_set_up(const DD&) override { return Succeeded::yes; }
  void virtual_apply(DD& d) const override { for (auto it = d.begin_all(); it != d.end_all(); ++it) *it *= factor; }
  void virtual_apply(DD& out, const DD& in) const override {
    auto o = out.begin_all();
    for (auto it = in.begin_all_const(); it != in.end_all_const(); ++it, ++o) *o = *it * factor;
  }
private:
  float factor;
};

static void run_frp(vh::Trace& tr, vh::Rng& rng, int idx, bool big) {
  Cfg c;
  c.prior = "frp";
  pick_shape(c, rng, idx, big, 720);
  const int n = c.nvox();
  static const float BETA[] = { 1.F, 0.5F, 2.F, 3.F, 0.F, -1.F };
  c.beta = BETA[rng.range(0, 5)];
  const int kind = idx % 4; // 0: median filter (the Median Root Prior), 1..: harness filters
  shared_ptr<DataProcessor<DD>> filter;
  int radius[3] = { 0, 0, 0 };
  float factor = 0;
  if (kind == 0) {
    for (int a = 0; a < 3; ++a) radius[a] = rng.range(0, 1);
    if (radius[0] + radius[1] + radius[2] == 0) radius[2] = 1;
    filter.reset(new MedianImageFilter3D<float>(CartesianCoordinate3D<int>(radius[0], radius[1], radius[2])));
  } else {
    static const float FAC[] = { 0.5F, 2.F, 0.F, -4.F, 1.F, 0.0625F };
    factor = FAC[rng.range(0, 5)];
    filter.reset(new ScaleProcessor(factor));
  }
  const bool no_filter = idx % 11 == 10;
  FilterRootPrior<DD> p(no_filter ? shared_ptr<DataProcessor<DD>>() : filter, c.beta);
  shared_ptr<Img> target = make_image(c);
  bool unset_err = false;
  {
    // use before set_up
    shared_ptr<Img> g(target->get_empty_copy());
    shared_ptr<Img> one(target->get_empty_copy());
    one->fill(1.F);
    FilterRootPrior<DD> q(filter, 1.F);
    unset_err = vh::threw([&] { q.compute_gradient(*g, *one); });
  }
  p.set_up(target);
  {
    double v = 1;
    std::vector<float> row;
    bool herr = !hess_row(p, c, *target, 0, row);
    vh::threw([&] { v = p.compute_value(*target); });
    vh::Json j("Config");
    j.num("id", ++cfg_id).str("prior", "frp").str("mode", "R").arr("dims", std::vector<int>{ c.n[0], c.n[1], c.n[2] }).arr("mins", std::vector<int>{ c.mn[0], c.mn[1], c.mn[2] })
        .str("filter", no_filter ? "none" : (kind == 0 ? "median" : "scale")).arr("radius", std::vector<int>{ radius[0], radius[1], radius[2] }).num("factor1024", (long long)std::llround(factor * 1024))
        .num("beta8", (long long)std::llround(c.beta * 8)).boolean("convex", p.is_convex()).boolean("hessErr", herr).num("value1024", fxq(v, 10)).boolean("unsetErr", unset_err);
    finish(tr, j);
  }
  for (int im = 0; im < 3; ++im) {
    // images of powers of two (and zeros): quotients are exact
    std::vector<float> xv(n);
    for (auto& q : xv) { const int e = rng.range(-1, 5); q = e < 0 ? 0.F : (float)(1 << e); }
    if (im == 1) xv.assign(n, (float)(1 << rng.range(0, 4))); // a uniform image
    if (im == 2 && n > 1) { xv.assign(n, 0.03125F); xv[rng.range(0, n - 1)] = 64.F; }
    shared_ptr<Img> x = image_from(c, xv);
    std::vector<float> fv(n, 0.F);
    if (!no_filter) { shared_ptr<Img> f(x->get_empty_copy()); filter->apply(*f, *x); fv = flat(*f); }
    std::vector<float> g;
    bool err = vh::threw([&] { g = gradient(p, *x); });
    long long res = 0, resf = 0, resx = 0;
    auto gm = fxv(g, 10, &res);
    auto fm = fxv(fv, 11, &resf);
    auto xm = fxv(xv, 11, &resx);
    vh::Json j("FRGrad");
    j.boolean("err", err).boolean("uniform", im == 1).num("kx", 11).arr("x", xm).arr("f", fm).num("k", 10).arr("g", gm).num("resf", std::max(resf, resx)).num("res", res);
    finish(tr, j);
  }
}

int main(int argc, char** argv) {
  if (argc < 5) { fprintf(stderr, "usage: c09_priors exact|rel <out> <n> <big>\n"); return 2; }
  vh::quiet();
  if (!getenv("VERIF_STDERR")) { if (!freopen("/dev/null", "w", stderr)) {} }
  vh::install_terminate();
  const std::string mode = argv[1];
  vh::Trace tr(argv[2]);
  g_filebase = std::string(argv[2]) + ".img";
  const int nconf = atoi(argv[3]);
  const bool big = atoi(argv[4]) != 0;
  vh::Rng rng(vh::seed_from_env() * 1000 + (mode == "exact" ? 1 : (mode == "rel" ? 2 : (mode == "hist" ? 3 : 4))));
  const int off = (int)((vh::seed_from_env() - 1) * 7);
  for (int i = 0; i < nconf; ++i) {
    if (mode == "exact") run_exact(tr, rng, i + off, big);
    else if (mode == "rel") run_rel(tr, rng, i + off, big);
    else if (mode == "hist") run_hist(tr, rng, i + off);
    else run_frp(tr, rng, i + off, big);
    tr.flush();
  }
  return 0;
}
