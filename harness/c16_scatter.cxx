// C16 driver: seeded histories of setter / set_up / process_data calls on SingleScatterSimulation
// objects (plus freshly configured objects with the same final settings), recorded as ndjson.
// DRIVES AND RECORDS ONLY: no expected value, no comparison, no property formula here — TLC
// (Trace_Scatter.tla) decides.  The UCL_STIR_VERIF hook events of the scatter caches
// ("sc.remove", "sc.init", "sc.sample", "sc.get") are recorded per call.
//
//   c16_scatter hist <out.ndjson> <num-scenarios> <steps-per-scenario> <size-class 0|1|2>
// Scenario kinds (scenario number mod 4): 0 plain, 1 "wide" (adds threshold / random placement /
// zoom-factor setters, scanner and image down-sampling, BlocksOnCylindrical templates, the
// parameter-file route), 2 plain + parameter-file route, 3 automatic zoom settings.
// Files needed by the parameter-file route are written to <out.ndjson>.files/ and removed again.
//
// Every scenario runs in a child process: a crash inside STIR becomes an {"e":"Abort"} line that
// carries the call history of the scenario (TLC rejects it).
#include "vh_stir.h"
#include "stir/scatter/SingleScatterSimulation.h"
#include "stir/VoxelsOnCartesianGrid.h"
#include "stir/IndexRange3D.h"
#include "stir/ProjDataInMemory.h"
#include "stir/ExamInfo.h"
#include "stir/Succeeded.h"
#include "stir/is_null_ptr.h"
#include "stir/IO/write_to_file.h"
#include "stir/ProjDataInterfile.h"
#include <sys/mman.h>
#include <sys/stat.h>
#include <dirent.h>
#include <sys/wait.h>
#include <cstring>
#include <array>
#include <algorithm>
using namespace stir;

// ------------------------------------------------------------------ hook recorder
struct HookRec {
  std::vector<std::vector<long>> ev;   // [1,kind] remove, [2,kind,keep,np,nd] init, [3,n] sample
  std::vector<unsigned char> code;     // per (scatter point, detector): misses(0,1,2+) + 4*hit + 8*cache-off + 16*miss-after-hit
  std::vector<unsigned char> codeAtt;  // the same for the attenuation cache (kind 0; only if such a hook exists)
  long nd = 0, outside = 0, otherkind = 0, attSeen = 0;
  void start(long np, long nd_) { ev.clear(); code.assign((size_t)std::max(0L, np * nd_), 0); codeAtt.assign(code.size(), 0); nd = nd_; outside = 0; otherkind = 0; attSeen = 0; }
};
static HookRec* g_rec = nullptr;
extern "C" void stir_verif_event(const char* site, long a, long b, long c, long d) {
  if (!g_rec || std::strncmp(site, "sc.", 3) != 0) return;
  const char* s = site + 3;
  if (!std::strcmp(s, "get")) {
    if (a != 1 && a != 0) { ++g_rec->otherkind; return; }
    const long i = b * g_rec->nd + c;
    if (b < 0 || c < 0 || c >= g_rec->nd || i >= (long)g_rec->code.size()) { ++g_rec->outside; return; }
    if (a == 0) ++g_rec->attSeen;
    unsigned char& x = a == 1 ? g_rec->code[(size_t)i] : g_rec->codeAtt[(size_t)i];
    if (d == 0) { if (x & 4) x |= 16; if ((x & 3) < 2) ++x; }
    else if (d == 1) x |= 4;
    else x |= 8;
  }
  else if (!std::strcmp(s, "remove")) g_rec->ev.push_back({ 1, a });
  else if (!std::strcmp(s, "init")) g_rec->ev.push_back({ 2, a, b, c, d });
  else if (!std::strcmp(s, "sample")) g_rec->ev.push_back({ 3, a });
}

// ------------------------------------------------------------------ access to protected members
struct T : SingleScatterSimulation {
  T() {}
  explicit T(const std::string& parfile) : SingleScatterSimulation(parfile) {}
  const void* sp_ptr() const { return get_density_image_for_scatter_points_sptr().get(); }
  bool asu() const { return _already_set_up; }
  bool uc() const { return use_cache; }
  long ndp() const { return (long)detection_points_vector.size(); }
  bool has_sp() const { return !is_null_ptr(get_density_image_for_scatter_points_sptr()); }
  double pair(unsigned a, unsigned b) { double r = 0; actual_scatter_estimate(r, a, b); return r; }
  void dets_of(unsigned& a, unsigned& b, const Bin& bin) const { find_detectors(a, b, bin); }
};
typedef VoxelsOnCartesianGrid<float> Img;

// ------------------------------------------------------------------ crash report area (shared with the parent)
static char* g_shm = nullptr;
static const size_t SHM = 1 << 16;
static void shm_note(const std::string& s) {
  if (!g_shm) return;
  size_t n = std::strlen(g_shm);
  if (n + s.size() + 2 < SHM) { std::memcpy(g_shm + n, s.c_str(), s.size()); g_shm[n + s.size()] = ';'; g_shm[n + s.size() + 1] = 0; }
}

// ------------------------------------------------------------------ pending lines (one fixed-point scale per scenario)
struct Pending {
  vh::Json j;
  std::vector<double> out, mat;
  bool has_out = false, has_mat = false;
  explicit Pending(const char* e) : j(e) {}
};

struct Zoom { float zxy, zz; int sxy, sz; };
struct Tm { int N, R; float eres; int geo; bool blocks; shared_ptr<ProjDataInfo> pdi; };

struct Obj {
  int id = 0;
  std::unique_ptr<T> s;
  int tm = 0, en = 0, act = 0, att = 0, spSrc = 0 /*0 none 1 explicit 2 derived*/, spId = 0, zoom = 0;
  int thr = 1; bool rnd = false;
  bool ptsRnd = false;           // the current points were sampled while random placement was on
  int dsR = 0, dsD = 0;          // template replaced by downsample_scanner(dsR, dsD) (0 = not)
  int actDs = 0, attDs = 0;      // image replaced by downsample_images_to_scanner_size under template id .. (0 = not)
  long nd = 0;                   // detectors of the current template
  shared_ptr<ProjDataInMemory> out;
  HookRec rec;
};

struct Scenario {
  vh::Rng rng;
  long id;
  int size_class;
  bool autozoom;
  bool wide = false, parse_route = false;
  std::string files;                           // directory for the parameter-file route
  std::vector<std::string> written;
  std::vector<float> thrs = { 0.01F, 0.03F, 0.06F };   // ids 1..
  std::vector<Tm> tms;                         // ids 1..
  std::vector<shared_ptr<ExamInfo>> exs;       // ids 1..
  std::vector<std::array<int, 2>> exwin;
  std::vector<shared_ptr<Img>> acts, atts, sps;
  std::vector<std::array<int, 5>> rels;        // act[t] = ca*act[a] + cb*act[b]  (ids 1..)
  std::vector<Zoom> zooms;                     // ids 1.. ; id 0 = automatic (class defaults)
  std::vector<Pending> lines;
  int next_obj = 0;
  int att_nz = 3;
  Scenario(long seed, long id_, int sc, bool az) : rng((uint64_t)seed), id(id_), size_class(sc), autozoom(az) {}

  shared_ptr<Img> grid(const shared_ptr<ExamInfo>& ex, int nz, int nxy, float vz, float vxy) {
    return shared_ptr<Img>(new Img(ex, IndexRange3D(0, nz - 1, -(nxy / 2), -(nxy / 2) + nxy - 1, -(nxy / 2), -(nxy / 2) + nxy - 1),
                                   CartesianCoordinate3D<float>(0, 0, 0), CartesianCoordinate3D<float>(vz, vxy, vxy)));
  }
  // random dyadic image: values k*unit, k in 0..15; central: zero outside the central part
  void fill_random(Img& im, float unit, bool central, int minv) {
    const int lo = im[0].get_min_index(), hi = im[0].get_max_index();
    const int lim = std::max(1, (hi - lo + 1) / 3);
    for (int z = im.get_min_index(); z <= im.get_max_index(); ++z)
      for (int y = lo; y <= hi; ++y)
        for (int x = lo; x <= hi; ++x) {
          int k = rng.range(minv, 15);
          if (central && (std::abs(x) > lim || std::abs(y) > lim)) k = 0;
          im[z][y][x] = k * unit;
        }
  }
  void make_pools() {
    // exam infos (energy windows)
    const int wins[5][2] = { { 350, 650 }, { 450, 600 }, { 400, 750 }, { 480, 560 }, { 425, 650 } };
    const int nex = rng.range(2, 3);
    std::vector<int> wi = { 0, 1, 2, 3, 4 };
    for (int i = 0; i < nex; ++i) {
      int k = rng.range(i, 4); std::swap(wi[i], wi[k]);
      shared_ptr<ExamInfo> e(new ExamInfo);
      e->set_low_energy_thres((float)wins[wi[i]][0]); e->set_high_energy_thres((float)wins[wi[i]][1]);
      e->imaging_modality = ImagingModality::PT;
      exs.push_back(e); exwin.push_back({ wins[wi[i]][0], wins[wi[i]][1] });
    }
    // templates: (N, R, energy resolution)
    std::vector<std::array<int, 2>> geos;
    if (size_class == 0) geos = { { 16, 2 }, { 16, 3 }, { 24, 2 } };
    else if (size_class == 1) geos = { { 16, 2 }, { 24, 2 }, { 24, 3 }, { 32, 2 }, { 16, 3 } };
    else geos = { { 32, 3 }, { 48, 2 }, { 48, 3 }, { 24, 3 } };
    const float eress[4] = { 0.20F, 0.12F, 0.16F, 0.30F };
    const int ntm = rng.range(2, 3);
    std::vector<std::array<int, 2>> usedgeo;
    for (int i = 0; i < ntm; ++i) {
      Tm t;
      std::array<int, 2> g;
      // the first two templates differ in geometry; in automatic-zoom scenarios in the number of rings as well
      for (int tries = 0;; ++tries) {
        g = rng.pick(geos);
        if (i != 1 || tries > 50) break;
        if (g != usedgeo[0] && (!autozoom || g[1] != usedgeo[0][1])) break;
      }
      if (i == 2 && rng.coin()) g = usedgeo[rng.range(0, 1)];     // same geometry, other energy resolution
      t.N = g[0]; t.R = g[1];
      t.eres = eress[rng.range(0, 3)];
      size_t gi = std::find(usedgeo.begin(), usedgeo.end(), g) - usedgeo.begin();
      if (gi == usedgeo.size()) usedgeo.push_back(g);
      t.blocks = wide && rng.range(0, 2) == 0;
      // geometry class: index of the first template with this (N, R, geometry)
      t.geo = 0;
      for (size_t q = 0; q < tms.size(); ++q) if (tms[q].N == t.N && tms[q].R == t.R && tms[q].blocks == t.blocks && !t.geo) t.geo = tms[q].geo;
      if (!t.geo) t.geo = (int)tms.size() + 1;
      // ring spacing such that the image made for the template has the same middle plane as the pool images
      auto sc = vh::make_scanner(t.N, t.R, 0, t.blocks ? "BlocksOnCylindrical" : "Cylindrical", t.R == 2 ? 8.F : 4.F);
      sc->set_reference_energy(511.F); sc->set_energy_resolution(t.eres);
      sc->set_up();
      // "wide" scenarios: fewer tangential positions so that downsample_scanner (which adds one) yields valid data
      t.pdi.reset(ProjDataInfo::ProjDataInfoCTI(sc, 1, t.R - 1, t.N / 2, wide ? t.N / 2 + 1 : t.N - 1, false));
      tms.push_back(t);
    }
    // images
    const int nxy = rng.coin() ? 9 : 7;
    att_nz = rng.coin() ? 3 : 5;
    const float att_vz = att_nz == 3 ? 4.F : 2.F;
    // activity: b1, b2, b1+b2, 2*b1, 0   (values multiples of 1/8: sums are exact in float)
    for (int i = 0; i < 5; ++i) acts.push_back(grid(exs[0], 3, nxy, 4.F, 4.F));
    fill_random(*acts[0], 0.125F, rng.coin(), 0);
    fill_random(*acts[1], 0.125F, rng.coin(), 0);
    {
      auto a = acts[0]->begin_all(); auto b = acts[1]->begin_all(); auto s = acts[2]->begin_all(); auto d = acts[3]->begin_all(); auto z = acts[4]->begin_all();
      for (; a != acts[0]->end_all(); ++a, ++b, ++s, ++d, ++z) { *s = *a + *b; *d = 2.F * *a; *z = 0.F; }
    }
    rels = { { 3, 1, 2, 1, 1 }, { 4, 1, 1, 2, 0 }, { 5, 1, 1, 0, 0 } };
    const int natt = rng.range(2, 3);
    for (int i = 0; i < natt; ++i) { atts.push_back(grid(exs[0], att_nz, nxy, att_vz, 4.F)); fill_random(*atts.back(), 1.F / 128, rng.coin(), 0); }
    // explicit (sub-sampled) scatter-point images: coarser grids consistent with the activity image in z
    for (int i = 0; i < 2; ++i) {
      const bool coarse = rng.coin();
      sps.push_back(coarse ? grid(exs[0], 2, 3, 8.F, 12.F) : grid(exs[0], (i ? 3 : 2), 5, (i ? 4.F : 8.F), 8.F));
      fill_random(*sps.back(), 1.F / 128, false, 1);
      (*sps.back())[0][0][0] = 8.F / 128;   // at least one scatter point
    }
    // explicit down-sampling settings: zoom_z must be (new_z-1)/(old_z-1)
    zooms.push_back({ 0.5F, att_nz == 3 ? 0.5F : 0.25F, -1, 2 });
    zooms.push_back({ 0.25F, att_nz == 3 ? 1.0F : 0.5F, -1, 3 });
    if (rng.coin()) zooms.push_back({ 0.5F, att_nz == 3 ? 1.0F : 0.5F, -1, 3 });
  }

  // ---------------------------------------------------------------- calls
  Pending& line(const char* e, Obj& o) { lines.emplace_back(e); lines.back().j.num("o", o.id); return lines.back(); }
  const void* sp_before = nullptr;
  void begin(Obj& o, const std::string& what) {
    shm_note("o" + std::to_string(o.id) + ":" + what);
    o.rec.start(o.s ? o.s->get_num_scatter_points() : 0, o.nd);
    sp_before = o.s ? o.s->sp_ptr() : nullptr;
    g_rec = &o.rec;
  }
  void post(Pending& p, Obj& o, bool err, bool with_gets = false) {
    g_rec = nullptr;
    for (auto& e : o.rec.ev) if (e[0] == 3) o.ptsRnd = o.rnd;
    p.j.boolean("err", err).boolean("asu", o.s->asu()).boolean("uc", o.s->uc()).num("np", o.s->get_num_scatter_points())
        .num("ndp", o.s->ndp()).boolean("hasSp", o.s->has_sp()).boolean("spNew", o.s->has_sp() && o.s->sp_ptr() != sp_before).arr2("ev", o.rec.ev);
    if (with_gets) {
      p.j.arr("g", o.rec.code).num("gOutside", o.rec.outside).num("gOther", o.rec.otherkind).num("gaSeen", o.rec.attSeen);
      if (o.rec.attSeen) p.j.arr("ga", o.rec.codeAtt);
    }
  }
  Obj* create(int zoom) {
    Obj* o = new Obj; o->id = ++next_obj; o->zoom = zoom;
    begin(*o, "New(" + std::to_string(zoom) + ")");
    o->s.reset(new T);
    o->s->set_randomly_place_scatter_points(false);
    o->s->set_attenuation_threshold(thrs[0]);
    if (zoom > 0) { const Zoom& z = zooms[zoom - 1]; o->s->set_image_downsample_factors(z.zxy, z.zz, z.sxy, z.sz); }
    Pending& p = line("New", *o); p.j.num("zoom", zoom);
    post(p, *o, false);
    return o;
  }
  void set_tmpl(Obj& o, int id) {
    begin(o, "SetTmpl(" + std::to_string(id) + ")");
    bool err = vh::threw([&] { o.s->set_template_proj_data_info(*tms[id - 1].pdi); });
    if (!err) { o.tm = id; o.dsR = o.dsD = 0; o.nd = (long)tms[id - 1].N * tms[id - 1].R; }
    Pending& p = line("SetTmpl", o); p.j.num("id", id); post(p, o, err);
  }
  void set_out(Obj& o) {   // output projection data for the current template
    if (!o.tm) return;
    begin(o, "SetOut");
    o.out.reset(new ProjDataInMemory(exs[o.en ? o.en - 1 : 0], o.s->get_template_proj_data_info_sptr()->create_shared_clone()));
    bool err = vh::threw([&] { o.s->set_output_proj_data_sptr(o.out); });
    Pending& p = line("SetOut", o); p.j.num("id", o.tm); post(p, o, err);
  }
  // downsample_scanner(rings, detectors): new template and new (in-memory) output data
  void ds_scanner(Obj& o, int r, int d) {
    begin(o, "DsScanner(" + std::to_string(r) + "," + std::to_string(d) + ")");
    bool ok = false;
    bool err = vh::threw([&] { ok = o.s->downsample_scanner(r, d) == Succeeded::yes; });
    long nn = 0, rr = 0, tang = 0;
    if (!err && ok) {
      auto pdi = o.s->get_template_proj_data_info_sptr();
      nn = pdi->get_scanner_ptr()->get_num_detectors_per_ring(); rr = pdi->get_scanner_ptr()->get_num_rings(); tang = pdi->get_num_tangential_poss();
      o.dsR = r; o.dsD = d; o.nd = nn * rr;
      o.out = std::dynamic_pointer_cast<ProjDataInMemory>(o.s->get_output_proj_data_sptr());
    }
    Pending& p = line("DsScanner", o); p.j.num("dr", r).num("dd", d).boolean("ok", ok).num("newN", nn).num("newR", rr).num("newTang", tang).boolean("outInMemory", (bool)o.out);
    post(p, o, err);
  }
  void ds_images(Obj& o) {
    begin(o, "DsImages");
    bool ok = false;
    bool err = vh::threw([&] { ok = o.s->downsample_images_to_scanner_size() == Succeeded::yes; });
    if (!err && ok) { if (o.act) o.actDs = o.tm; if (o.att) o.attDs = o.tm; }
    Pending& p = line("DsImages", o); p.j.boolean("ok", ok); post(p, o, err);
  }
  void set_energy(Obj& o, int id) {
    begin(o, "SetEnergy(" + std::to_string(id) + ")");
    bool err = vh::threw([&] { o.s->set_exam_info(*exs[id - 1]); });
    if (!err) o.en = id;
    Pending& p = line("SetEnergy", o); p.j.num("id", id); post(p, o, err);
  }
  void set_act(Obj& o, int id) {
    begin(o, "SetAct(" + std::to_string(id) + ")");
    bool err = vh::threw([&] { o.s->set_activity_image_sptr(acts[id - 1]); });
    if (!err) { o.act = id; o.actDs = 0; }
    Pending& p = line("SetAct", o); p.j.num("id", id); post(p, o, err);
  }
  void set_att(Obj& o, int id) {
    begin(o, "SetAtt(" + std::to_string(id) + ")");
    bool err = vh::threw([&] { o.s->set_density_image_sptr(atts[id - 1]); });
    if (!err) { o.att = id; o.attDs = 0; o.spSrc = 0; }
    Pending& p = line("SetAtt", o); p.j.num("id", id); post(p, o, err);
  }
  void set_sp(Obj& o, int id) {
    begin(o, "SetSp(" + std::to_string(id) + ")");
    bool err = vh::threw([&] { o.s->set_density_image_for_scatter_points_sptr(sps[id - 1]); });
    if (!err) { o.spSrc = 1; o.spId = id; }
    Pending& p = line("SetSp", o); p.j.num("id", id); post(p, o, err);
  }
  void downsample(Obj& o, int zoom) {
    const Zoom& z = zooms[zoom - 1];
    begin(o, "Downsample(" + std::to_string(zoom) + ")");
    bool err = vh::threw([&] { o.s->downsample_density_image_for_scatter_points(z.zxy, z.zz, z.sxy, z.sz); });
    if (!err) { o.spSrc = 2; o.zoom = zoom; }
    Pending& p = line("Downsample", o); p.j.num("zoom", zoom); post(p, o, err);
  }
  void set_zoom(Obj& o, int zoom) {   // set_image_downsample_factors only (no derivation)
    const Zoom& z = zooms[zoom - 1];
    begin(o, "SetZoom(" + std::to_string(zoom) + ")");
    bool err = vh::threw([&] { o.s->set_image_downsample_factors(z.zxy, z.zz, z.sxy, z.sz); });
    if (!err) o.zoom = zoom;
    Pending& p = line("SetZoom", o); p.j.num("zoom", zoom); post(p, o, err);
  }
  void set_thr(Obj& o, int id) {
    begin(o, "SetThr(" + std::to_string(id) + ")");
    bool err = vh::threw([&] { o.s->set_attenuation_threshold(thrs[id - 1]); });
    if (!err) o.thr = id;
    Pending& p = line("SetThr", o); p.j.num("id", id); post(p, o, err);
  }
  void set_rnd(Obj& o, bool b) {
    begin(o, std::string("SetRnd(") + (b ? "1)" : "0)"));
    o.rnd = b;
    bool err = vh::threw([&] { o.s->set_randomly_place_scatter_points(b); });
    Pending& p = line("SetRnd", o); p.j.boolean("b", b); post(p, o, err);
  }
  void set_cache(Obj& o, bool b, bool via_enabled) {
    begin(o, std::string(via_enabled ? "SetCacheEnabled(" : "SetUseCache(") + (b ? "1)" : "0)"));
    bool err = vh::threw([&] { if (via_enabled) o.s->set_cache_enabled(b); else o.s->set_use_cache(b); });
    Pending& p = line("SetCache", o); p.j.boolean("b", b).boolean("viaEnabled", via_enabled); post(p, o, err);
  }
  bool set_up(Obj& o) {
    begin(o, "SetUp");
    bool ok = false;
    bool err = vh::threw([&] { ok = o.s->set_up() == Succeeded::yes; });
    if (!err && o.spSrc == 0) o.spSrc = 2;
    Pending& p = line("SetUp", o); p.j.boolean("ok", ok); post(p, o, err);
    return !err && ok;
  }
  bool compute(Obj& o, bool fresh) {
    begin(o, "Compute");
    bool ok = false;
    bool err = vh::threw([&] { ok = o.s->process_data() == Succeeded::yes; });
    Pending& p = line("Compute", o); p.j.boolean("ok", ok).boolean("fresh", fresh);
    post(p, o, err, true);
    if (!err && o.out) {
      p.has_out = true;
      for (auto it = o.out->begin_all(); it != o.out->end_all(); ++it) p.out.push_back(*it);
    }
    return !err && ok;
  }
  // for every bin of the template: its two detection points (indices into the detection-point
  // table filled by process_data), the estimate with the detectors in both orders, and the value
  // currently in the output projection data
  void pairs(Obj& o) {
    const long n = o.s->ndp();
    if (!o.s->asu() || n <= 0 || n != o.nd || !o.out) return;
    begin(o, "Pairs");
    Pending& p = line("Pairs", o);
    std::vector<long> pa, pb;
    std::vector<double> ab, ba, ob;
    const shared_ptr<const ProjDataInfo> pdi_sptr = o.s->get_template_proj_data_info_sptr();
    const ProjDataInfo& pdi = *pdi_sptr;
    bool err = vh::threw([&] {
      for (int seg = pdi.get_min_segment_num(); seg <= pdi.get_max_segment_num(); ++seg)
        for (int ax = pdi.get_min_axial_pos_num(seg); ax <= pdi.get_max_axial_pos_num(seg); ++ax)
          for (int v = pdi.get_min_view_num(); v <= pdi.get_max_view_num(); ++v)
            for (int tp = pdi.get_min_tangential_pos_num(); tp <= pdi.get_max_tangential_pos_num(); ++tp) {
              Bin bin(seg, v, ax, tp);
              unsigned a = 0, b = 0;
              o.s->dets_of(a, b, bin);
              pa.push_back(a); pb.push_back(b);
              ab.push_back(o.s->pair(a, b)); ba.push_back(o.s->pair(b, a));
              ob.push_back(o.out->get_bin_value(bin));
            } });
    p.j.num("n", (long)pa.size()).arr("pa", pa).arr("pb", pb);
    post(p, o, err, true);
    if (!err) { p.has_mat = true; p.mat = ab; p.mat.insert(p.mat.end(), ba.begin(), ba.end()); p.mat.insert(p.mat.end(), ob.begin(), ob.end()); }
  }

  void destroy(Obj* o) {
    shm_note("o" + std::to_string(o->id) + ":Delete");
    lines.emplace_back("Delete"); lines.back().j.num("o", o->id);
    delete o;
  }

  // a freshly configured object with the same final settings (cache flag chosen independently).
  // Settings the sampled points depend on are set first; images that the history object had zoomed
  // with downsample_images_to_scanner_size are zoomed under the same template.
  void fresh_like(const Obj& h) {
    if (h.rnd || h.ptsRnd) return;      // randomly placed points are seeded by the clock: no two objects agree
    Obj* f = create(h.zoom);
    const bool cache = rng.coin();
    if (rng.coin()) set_cache(*f, cache, rng.coin());
    if (h.thr != 1) set_thr(*f, h.thr);
    if (h.actDs || h.attDs || h.dsR) {
      const int dt = h.actDs ? h.actDs : h.attDs;
      if (dt) {
        set_tmpl(*f, dt);
        if (h.actDs) set_act(*f, h.act);
        if (h.attDs) set_att(*f, h.att);
        ds_images(*f);
      }
      if (!h.actDs) set_act(*f, h.act);
      if (!h.attDs) set_att(*f, h.att);
      set_energy(*f, h.en);
      set_tmpl(*f, h.tm);
      if (h.dsR) ds_scanner(*f, h.dsR, h.dsD);
      if (h.spSrc == 1) set_sp(*f, h.spId);
    } else {
      std::vector<int> order = { 0, 1, 2, 3 };
      for (int i = 3; i > 0; --i) std::swap(order[i], order[rng.range(0, i)]);
      for (int w : order) {
        if (w == 0) { set_tmpl(*f, h.tm); }
        else if (w == 1) set_energy(*f, h.en);
        else if (w == 2) set_act(*f, h.act);
        else { set_att(*f, h.att); if (h.spSrc == 1) set_sp(*f, h.spId); }
      }
    }
    if (f->s->uc() != cache) set_cache(*f, cache, rng.coin());
    if (!h.dsR) set_out(*f);
    set_up(*f);
    compute(*f, true);
    if (rng.range(0, 5) == 0) pairs(*f);
    destroy(f);
  }

  // ---------------------------------------------------------------- parameter-file route
  std::string file_of(const std::string& name) { return files + "/s" + std::to_string(id) + "_" + name; }
  void note_written(const std::string& base, const std::vector<const char*>& exts) { for (auto e : exts) written.push_back(base + e); }
  std::string image_file(const char* kind, int idx, const Img& im) {
    const std::string base = file_of(std::string(kind) + std::to_string(idx));
    struct stat st;
    if (stat((base + ".hv").c_str(), &st) != 0) { write_to_file(base, im); note_written(base, { ".hv", ".v", ".ahv" }); }
    return base + ".hv";
  }
  std::string template_file(int tm, int en) {
    const std::string base = file_of("tm" + std::to_string(tm) + "e" + std::to_string(en));
    struct stat st;
    if (stat((base + ".hs").c_str(), &st) != 0) { ProjDataInterfile pd(exs[en - 1], tms[tm - 1].pdi->create_shared_clone(), base, std::ios::out | std::ios::trunc); note_written(base, { ".hs", ".s" }); }
    return base + ".hs";
  }
  Obj* parse_obj(const std::string& parfile, const Obj& h, bool cache, int rt, std::string* info_out) {
    Obj* o = new Obj; o->id = ++next_obj;
    begin(*o, "Parse");
    std::string msg;
    bool err = vh::threw([&] { o->s.reset(new T(parfile)); }, &msg);
    Pending& p = line("Parse", *o);
    p.j.num("tm", h.tm).num("en", h.en).num("act", h.act).num("att", h.att).num("sp", h.spSrc == 1 ? h.spId : 0).num("zoom", h.zoom).num("thr", h.thr)
        .boolean("ucArg", cache).num("rt", rt);
    if (err || !o->s) { p.j.boolean("err", true).str("msg", msg); delete o; return nullptr; }
    o->tm = h.tm; o->en = h.en; o->act = h.act; o->att = h.att; o->spSrc = h.spSrc == 1 ? 1 : 0; o->spId = h.spId; o->zoom = h.zoom; o->thr = h.thr;
    o->nd = (long)tms[h.tm - 1].N * tms[h.tm - 1].R;
    std::string info = o->s->parameter_info();
    if (info_out) *info_out = info;
    p.j.str("info", info);
    post(p, *o, false);
    return o;
  }
  // the history object's final settings written as a parameter file, parsed; then the parsed object's
  // own parameter_info() parsed again
  void parsed_like(const Obj& h) {
    if (h.rnd || h.ptsRnd || h.dsR || h.actDs || h.attDs || !h.tm || !h.en || !h.act || !h.att || h.spSrc == 0) return;
    // (user-defined BlocksOnCylindrical scanners whose crystals fill the block exactly do not survive the 6-digit header: not this property)
    if (tms[h.tm - 1].blocks) return;
    const bool cache = rng.coin();
    const std::string par = file_of("o" + std::to_string(next_obj + 1) + ".par");
    {
      std::ofstream f(par.c_str());
      f << "PET Single Scatter Simulation Parameters :=\n";
      f << " template projdata filename := " << template_file(h.tm, h.en) << "\n";
      f << " attenuation image filename := " << image_file("att", h.att, *atts[h.att - 1]) << "\n";
      if (h.spSrc == 1) f << " attenuation image for scatter points filename := " << image_file("sp", h.spId, *sps[h.spId - 1]) << "\n";
      if (h.zoom > 0) {
        const Zoom& z = zooms[h.zoom - 1];
        f << " zoom XY for attenuation image for scatter points := " << z.zxy << "\n zoom Z for attenuation image for scatter points := " << z.zz << "\n";
        f << " XY size of downsampled image for scatter points := " << z.sxy << "\n Z size of downsampled image for scatter points := " << z.sz << "\n";
      }
      f << " activity image filename := " << image_file("act", h.act, *acts[h.act - 1]) << "\n";
      f << " attenuation threshold := " << thrs[h.thr - 1] << "\n randomly place scatter points := 0\n use cache := " << (cache ? 1 : 0) << "\n";
      f << "end PET Single Scatter Simulation Parameters :=\n";
    }
    written.push_back(par);
    std::string info;
    Obj* a = parse_obj(par, h, cache, 0, &info);
    if (!a) return;
    set_out(*a); set_up(*a); compute(*a, true);
    const std::string par2 = file_of("o" + std::to_string(next_obj + 1) + ".par");
    { std::ofstream f(par2.c_str()); f << info; }
    written.push_back(par2);
    Obj* b = parse_obj(par2, h, cache, a->id, nullptr);
    if (b) { set_out(*b); set_up(*b); compute(*b, true); destroy(b); }
    destroy(a);
  }

  // ---------------------------------------------------------------- energy-window algebra (public functions only)
  void phys() {
    Obj* o = create(autozoom ? 0 : 1);
    set_tmpl(*o, 1);
    const int a = rng.range(250, 400), b = rng.range(430, 520), c = rng.range(540, 800);
    const int wins[6][2] = { { a, b }, { b, c }, { a, c }, { b, a }, { -5000, 5000 }, { c, c + 100 } };
    std::vector<int> energies;
    for (int e = 170; e <= 511; e += 31) energies.push_back(e);
    std::vector<std::vector<long>> eff, w;
    shm_note("o" + std::to_string(o->id) + ":Phys");
    for (auto& win : wins) {
      ExamInfo ex; ex.set_low_energy_thres((float)win[0]); ex.set_high_energy_thres((float)win[1]); ex.imaging_modality = ImagingModality::PT;
      o->s->set_exam_info(ex);
      std::vector<long> row;
      for (int e : energies) row.push_back((long)vh::fx(o->s->detection_efficiency((float)e), 22));
      eff.push_back(row); w.push_back({ win[0], win[1] });
    }
    std::vector<long> cosv, e1, e2; std::vector<double> dif, tot, rel;
    for (int q = -8; q <= 8; ++q) {
      const float cs = q / 8.F;
      cosv.push_back(q);
      e1.push_back((long)vh::fx(ScatterSimulation::photon_energy_after_Compton_scatter_511keV(cs), 16));
      e2.push_back((long)vh::fx(ScatterSimulation::photon_energy_after_Compton_scatter(cs, 511.F), 16));
      dif.push_back(ScatterSimulation::dif_Compton_cross_section(cs, 511.F));
    }
    for (int e : energies) { tot.push_back(ScatterSimulation::total_Compton_cross_section((float)e)); rel.push_back(ScatterSimulation::total_Compton_cross_section_relative_to_511keV((float)e)); }
    auto scaled = [](const std::vector<double>& v, int bits, int* kk) {
      double mx = 0; for (double x : v) mx = std::max(mx, std::fabs(x));
      int k = 0; if (mx > 0) { int e; std::frexp(mx, &e); k = bits - e; }
      std::vector<long> r; for (double x : v) r.push_back((long)vh::fx(x, k)); *kk = k; return r; };
    int kd = 0, kt = 0, kr = 0;
    auto difs = scaled(dif, 20, &kd); auto tots = scaled(tot, 15, &kt); auto rels = scaled(rel, 14, &kr);
    lines.emplace_back("Phys");
    lines.back().j.num("o", o->id).arr2("win", w).arr("energies", energies).arr2("eff", eff).num("effK", 22)
        .arr("cos8", cosv).arr("e511", e1).arr("eGen", e2).num("eK", 16).arr("dif", difs).arr("tot", tots).arr("rel", rels).num("relK", kr);
    // the object was used outside the state machine: forget it
    lines.emplace_back("Delete"); lines.back().j.num("o", o->id);
    delete o;
  }

  void run(int steps) {
    make_pools();
    Obj* h = create(autozoom ? 0 : rng.range(1, (int)zooms.size()));
    // initial configuration in random order, with some premature set_up / process_data calls
    {
      std::vector<int> order = { 0, 1, 2, 3 };
      for (int i = 3; i > 0; --i) std::swap(order[i], order[rng.range(0, i)]);
      for (int w : order) {
        if (rng.range(0, 3) == 0) set_up(*h);
        if (rng.range(0, 5) == 0) compute(*h, false);
        if (w == 0) { set_tmpl(*h, 1); set_out(*h); }
        else if (w == 1) set_energy(*h, rng.range(1, (int)exs.size()));
        else if (w == 2) set_act(*h, rng.range(1, 2));
        else { set_att(*h, rng.range(1, (int)atts.size())); if (!autozoom && rng.coin()) set_sp(*h, rng.range(1, (int)sps.size())); }
      }
      set_out(*h);
      if (set_up(*h) && compute(*h, false)) fresh_like(*h);
    }
    bool algebra_done = false;
    for (int st = 0; st < steps; ++st) {
      int w = rng.range(0, 99);
      if (st == steps / 2 && !algebra_done) w = 95;
      if (wide && st == steps / 3 && h->tm && h->en && h->att) {
        // one pass through every setter beyond the property's list, each followed by set_up / process_data / fresh twin
        auto check = [&]() { if (h->out && set_up(*h) && compute(*h, false)) { fresh_like(*h); return true; } return false; };
        if (h->dsR) { set_tmpl(*h, h->tm); }
        set_out(*h);
        set_act(*h, rng.range(1, 2));
        // threshold after the points were sampled
        set_sp(*h, rng.range(1, (int)sps.size())); check();
        set_thr(*h, h->thr % (int)thrs.size() + 1); check();
        // zoom factors after set_up derived the image
        set_att(*h, h->att); check();
        set_zoom(*h, h->zoom % (int)zooms.size() + 1); check();
        // images zoomed to the template's grid after set_up derived the scatter-point image
        if (!h->actDs && !h->attDs && 2 * tms[h->tm - 1].R - 1 == att_nz) { ds_images(*h); check(); }
        // coarser scanner
        { const Tm& tt = tms[h->tm - 1]; ds_scanner(*h, rng.coin() ? 2 : tt.R, tt.blocks ? tt.N : (tt.N == 16 ? 8 : (rng.coin() ? 16 : 12))); if (check()) pairs(*h); }
        // random placement: only the discrete clauses and the detector-exchange symmetry remain
        set_rnd(*h, true); set_att(*h, rng.range(1, (int)atts.size())); if (check()) pairs(*h);
        set_rnd(*h, false); check();
        set_att(*h, h->att); check();
        continue;
      }
      if (wide && rng.range(0, 2) == 0) {
        // the setters beyond the property's list
        const int v = rng.range(0, 9);
        if (v < 2) set_thr(*h, rng.range(1, (int)thrs.size()));
        else if (v < 3) set_rnd(*h, !h->rnd);
        else if (v < 5) set_zoom(*h, rng.range(1, (int)zooms.size()));
        else if (v < 7) {
          // downsample_scanner of an original template (rings, detectors per ring)
          if (h->tm && !h->dsR) { const Tm& t = tms[h->tm - 1]; ds_scanner(*h, rng.coin() ? 2 : t.R, t.blocks ? t.N : (t.N == 16 ? 8 : (rng.coin() ? 16 : 12))); }
          else if (h->tm) { set_tmpl(*h, h->tm); set_out(*h); }
        }
        else if (v < 9) {
          // downsample_images_to_scanner_size: once, under an original template whose image grid has as
          // many planes as the pool's attenuation images (so that the explicit zoom settings stay legal)
          if (h->tm && !h->dsR && !h->actDs && !h->attDs && (h->act || h->att) && 2 * tms[h->tm - 1].R - 1 == att_nz) ds_images(*h);
          else set_att(*h, rng.range(1, (int)atts.size()));
        }
        else if (h->rnd) set_rnd(*h, false);
        continue;
      }
      if (w < 12) set_act(*h, rng.range(1, (int)acts.size()));
      else if (w < 22) set_att(*h, rng.range(1, (int)atts.size()));
      else if (w < 30) { if (!autozoom) set_sp(*h, rng.range(1, (int)sps.size())); else set_att(*h, rng.range(1, (int)atts.size())); }
      else if (w < 36) { if (!autozoom) downsample(*h, rng.range(1, (int)zooms.size())); }
      else if (w < 46) { set_tmpl(*h, rng.range(1, (int)tms.size())); if (rng.range(0, 9) != 0) set_out(*h); }
      else if (w < 56) set_energy(*h, rng.range(1, (int)exs.size()));
      else if (w < 64) set_cache(*h, rng.coin(), rng.coin());
      else if (w < 72) set_up(*h);
      else if (w < 80) { if (compute(*h, false) && rng.coin()) fresh_like(*h); }
      else if (w < 84) set_out(*h);
      else if (w < 88) pairs(*h);
      else if (w < 95) { if (set_up(*h) && compute(*h, false)) { fresh_like(*h); if (parse_route && rng.coin()) parsed_like(*h); if (rng.coin()) pairs(*h); } }
      else {
        // all activity images of the pool under the current other settings
        algebra_done = true;
        for (int a = 1; a <= (int)acts.size(); ++a) { set_act(*h, a); if (rng.range(0, 3) == 0) set_cache(*h, rng.coin(), rng.coin()); if (set_up(*h)) compute(*h, false); }
      }
    }
    if (h->rnd) set_rnd(*h, false);
    if (set_up(*h) && compute(*h, false)) { fresh_like(*h); if (parse_route) parsed_like(*h); pairs(*h); }
    destroy(h);
    phys();
    for (auto& f : written) std::remove(f.c_str());
  }

  // ---------------------------------------------------------------- emission
  void emit(vh::Trace& tr) {
    double mx = 0;
    for (auto& p : lines) { for (double v : p.out) if (std::isfinite(v)) mx = std::max(mx, std::fabs(v)); for (double v : p.mat) if (std::isfinite(v)) mx = std::max(mx, std::fabs(v)); }
    int k = 0;
    if (mx > 0) { int e; std::frexp(mx, &e); k = 28 - e; }     // mx < 2^e  =>  mx * 2^k < 2^28
    k = std::max(-100, std::min(200, k));
    vh::Json c("Config");
    c.num("id", id).num("k", k).boolean("autoZoom", autozoom).boolean("wide", wide).boolean("parseRoute", parse_route).num("sizeClass", size_class).num("nThr", (long)thrs.size());
    std::vector<long> dets, geo, nn, rr, er, bins;
    for (auto& t : tms) { dets.push_back((long)t.N * t.R); geo.push_back(t.geo); nn.push_back(t.N); rr.push_back(t.R); er.push_back(std::lround(t.eres * 100)); }
    c.arr("dets", dets).arr("geo", geo).arr("N", nn).arr("R", rr).arr("eres", er).arr2("win", exwin);
    c.num("nAct", (long)acts.size()).num("nAtt", (long)atts.size()).num("nSp", (long)sps.size()).num("nZoom", (long)zooms.size());
    c.arr2("rels", rels);
    std::vector<std::vector<long>> av;
    for (auto& a : acts) { std::vector<long> v; for (auto it = a->begin_all(); it != a->end_all(); ++it) v.push_back((long)vh::fx(*it, 3)); av.push_back(v); }
    c.arr2("acts", av);
    tr.emit(c);
    for (auto& p : lines) {
      if (p.has_out) { std::vector<long long> v; long nf = 0; for (double x : p.out) { if (std::isfinite(x)) v.push_back(vh::fx(x, k)); else { v.push_back(0); ++nf; } } p.j.arr("out", v).num("nf", nf); }
      if (p.has_mat) { std::vector<long long> v; long nf = 0; for (double x : p.mat) { if (std::isfinite(x)) v.push_back(vh::fx(x, k)); else { v.push_back(0); ++nf; } } p.j.arr("m", v).num("nf", nf); }
      tr.emit(p.j);
    }
    tr.flush();
  }
};

int main(int argc, char** argv) {
  if (argc < 6 || std::string(argv[1]) != "hist") { fprintf(stderr, "usage: c16_scatter hist <out> <scenarios> <steps> <size-class>\n"); return 2; }
  if (!getenv("VERIF_STDERR")) { if (!freopen("/dev/null", "w", stderr)) return 3; }
  vh::quiet();
  vh::Trace tr(argv[2]);
  const int nscen = atoi(argv[3]), steps = atoi(argv[4]), size_class = atoi(argv[5]);
  const long long seed = vh::seed_from_env();
  const std::string files = std::string(argv[2]) + ".files";
  mkdir(files.c_str(), 0777);
  g_shm = (char*)mmap(nullptr, SHM, PROT_READ | PROT_WRITE, MAP_SHARED | MAP_ANONYMOUS, -1, 0);
  if (g_shm == MAP_FAILED) { perror("mmap"); return 3; }
  for (int sc = 0; sc < nscen; ++sc) {
    g_shm[0] = 0;
    tr.flush();
    const bool autozoom = sc % 4 == 3;
    const bool wide = sc % 4 == 1, parse_route = sc % 4 == 1 || sc % 4 == 2;
    pid_t pid = fork();
    if (pid < 0) { perror("fork"); return 3; }
    if (pid == 0) {
      Scenario s(seed * 1000003LL + sc * 7919LL + size_class * 31LL, sc + 1, size_class, autozoom);
      s.wide = wide; s.parse_route = parse_route; s.files = files;
      s.run(steps);
      s.emit(tr);
      _exit(0);
    }
    int status = 0;
    if (waitpid(pid, &status, 0) < 0) { perror("waitpid"); return 3; }
    if (!(WIFEXITED(status) && WEXITSTATUS(status) == 0)) {
      // the child died inside a STIR call: record the call history of the scenario
      vh::Json a("Abort");
      a.num("scenario", sc + 1).num("signal", WIFSIGNALED(status) ? WTERMSIG(status) : 0).num("exit", WIFEXITED(status) ? WEXITSTATUS(status) : -1)
          .boolean("autoZoom", autozoom).boolean("wide", wide).num("sizeClass", size_class).str("history", g_shm);
      tr.emit(a);
      tr.flush();
    }
  }
  // files of scenarios that crashed
  if (DIR* d = opendir(files.c_str())) { while (dirent* e = readdir(d)) if (e->d_name[0] != '.') std::remove((files + "/" + e->d_name).c_str()); closedir(d); }
  rmdir(files.c_str());
  return 0;
}
