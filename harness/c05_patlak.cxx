// C05 driver, Patlak objective function: PoissonLogLikelihoodWithLinearKineticModelAndDynamicProjectionData (a linear
// two-parameter kinetic model over F time frames, each frame a PoissonLogLikelihoodWithLinearModelForMeanAndProjData)
// on the explicit-matrix seam.  The model matrix M (2 x F, small integers) is given to the real PatlakPlot object
// through set_model_matrix(), so the chain  theta -> lambda_f = M[1][f] theta_1 + M[2][f] theta_2 -> P lambda_f + a_f
// is exact, and so are value and gradient  d/dtheta_k = SUM_f M[k][f] P^T(y_f/d_f - n).
// No property formula, no expected value, no comparison here: TLC (Trace_PoissonLLPatlak.tla) decides.
//
//   (mode "patlak" of the c05_poissonll executable)  patlak <out.ndjson> <scratch-dir> <num-instances>
#include "c05_seam.h"
#include "stir/recon_buildblock/PoissonLogLikelihoodWithLinearKineticModelAndDynamicProjectionData.h"
#include "stir/modelling/ParametricDiscretisedDensity.h"
#include "stir/modelling/PatlakPlot.h"
#include "stir/modelling/ModelMatrix.h"
#include "stir/DynamicProjData.h"
#include "stir/TimeFrameDefinitions.h"
using namespace stir;
using namespace c05;

namespace c05patlak {

typedef ParametricVoxelsOnCartesianGrid PImg;
typedef PoissonLogLikelihoodWithLinearKineticModelAndDynamicProjectionData<PImg> KLL;
// the class is configured by parsing only: a derived class sets the protected members
class KOF : public KLL {
public:
  void configure(const shared_ptr<DynamicProjData>& y, const shared_ptr<DynamicProjData>& a, const shared_ptr<ProjectorByBinPair>& pp,
                 const shared_ptr<BinNormalisation>& n, const shared_ptr<PatlakPlot>& pk, int maxseg, bool zero) {
    this->_dyn_proj_data_sptr = y;
    this->_additive_dyn_proj_data_sptr = a;
    this->_projector_pair_ptr = pp;
    this->_normalisation_sptr = n;
    this->_patlak_plot_sptr = pk;
    this->_max_segment_num_to_process = maxseg;
    this->_zero_seg0_end_planes = zero;
  }
  int resolved_max_seg() const { return this->_max_segment_num_to_process; }
};

static void put_pimage(vh::Json& j, const PImg& im, int k) {
  // two arrays: parameter 1 and parameter 2 per voxel, in the voxel order of vh::xm_voxels
  std::vector<long long> o1, o2;
  bool exact = true;
  for (int z = im.get_min_index(); z <= im.get_max_index(); ++z)
    for (int y = im[z].get_min_index(); y <= im[z].get_max_index(); ++y)
      for (int x = im[z][y].get_min_index(); x <= im[z][y].get_max_index(); ++x)
        for (int p = 1; p <= 2; ++p) {
          const double sc = std::ldexp((double)im[z][y][x][p], k);
          const long long q = std::llround(sc);
          if ((double)q != sc) exact = false;
          (p == 1 ? o1 : o2).push_back(q);
        }
  j.num("k", k).boolean("ex", exact).arr("out1", o1).arr("out2", o2);
}

static void run(vh::Trace& tr, const Sys& s, const Matrix& m, vh::Rng& rng, Opts o) {
  const int F = rng.range(2, 3);
  const int nv = (int)s.vox.size(), nb = (int)s.bins.size();
  // model matrix (integers 1..3, one 0 allowed in the second row) and parameters
  std::vector<int> M1(F), M2(F), th1(nv), th2(nv);
  for (int f = 0; f < F; ++f) { M1[f] = rng.range(1, 3); M2[f] = rng.range(0, 2); }
  for (int v = 0; v < nv; ++v) { th1[v] = rng.range(0, 2); th2[v] = rng.range(1, 2); }
  // per frame: image lambda_f, additive a_f, data y_f = r d^2; efficiencies common to all frames
  Inst base;
  base.o = o;
  std::vector<Inst> fr(F);
  for (int f = 0; f < F; ++f) {
    Inst in;
    in.o = o;
    for (int v = 0; v < nv; ++v) { in.lam.push_back(M1[f] * th1[v] + M2[f] * th2[v]); in.x.push_back(0); }
    for (int b = 0; b < nb; ++b) {
      int pl = 0;
      for (auto& e : m.rows[b]) pl += e.second * in.lam[e.first - 1];
      int a = o.additive ? rng.range(0, 3) : 0;
      if (o.family != 0) { int p = 1; while (p < pl + a) p *= 2; a = (pl + a == 0) ? 0 : p - pl; }   // power-of-two means (value)
      const int d = pl + a, r = rng.range(0, 2);
      in.a.push_back(a);
      in.y.push_back(r * d * d);
      in.e.push_back(0);
      in.e1.push_back(0);
    }
    fr[f] = in;
  }
  {
    Inst effs = make_inst(s, m, rng, o);   // only its efficiencies are used
    for (int f = 0; f < F; ++f) { fr[f].e = effs.e; fr[f].e1 = effs.e1; }
  }
  if (o.family != 0 && !o.additive) return;   // (not generated)

  shared_ptr<ExamInfo> dexam(new ExamInfo);
  dexam->imaging_modality = ImagingModality::PT;
  std::vector<std::pair<double, double>> ft;
  for (int f = 0; f < F; ++f) ft.push_back({ 10. * f, 10. * (f + 1) });
  TimeFrameDefinitions tfd(ft);
  dexam->set_time_frame_definitions(tfd);
  shared_ptr<DynamicProjData> yd(new DynamicProjData(dexam, F)), ad;
  if (o.additive) ad.reset(new DynamicProjData(dexam, F));
  for (int f = 0; f < F; ++f) {
    std::vector<float> yf(fr[f].y.begin(), fr[f].y.end()), af(fr[f].a.begin(), fr[f].a.end());
    yd->set_proj_data_sptr(make_pd(s, s.t.proj_data_info, yf, false), f + 1);
    if (o.additive) ad->set_proj_data_sptr(make_pd(s, s.t.proj_data_info, af, false), f + 1);
  }
  shared_ptr<RecNorm> rec;
  Opts on = o;
  on.wrapnorm = false;
  fr[0].o = on;
  shared_ptr<BinNormalisation> norm = make_norm(s, fr[0], &rec);
  shared_ptr<vh::ExplicitProjMatrix> pm;
  shared_ptr<ProjectorByBinPair> pp = vh::make_explicit_projector_pair(m.data, shared_ptr<vh::XmObserver>(), &pm);
  pm->enable_cache(o.cache);

  shared_ptr<PatlakPlot> pk(new PatlakPlot);
  pk->_starting_frame = 1;
  pk->_frame_defs = tfd;
  pk->_in_correct_scale = true;
  {
    BasicCoordinate<2, int> lo, hi;
    lo[1] = 1; lo[2] = 1; hi[1] = 2; hi[2] = F;
    Array<2, float> arr(IndexRange<2>(lo, hi));
    for (int f = 0; f < F; ++f) { arr[1][f + 1] = (float)M1[f]; arr[2][f + 1] = (float)M2[f]; }
    ModelMatrix<2> mm;
    mm.set_model_array(arr);
    mm.set_is_in_correct_scale(true);
    pk->set_model_matrix(mm);
  }

  // target: two parameters per voxel
  shared_ptr<PImg> theta(new PImg(ParametricVoxelsOnCartesianGridBaseType(s.t.exam_info, s.t.image->get_index_range(), s.t.image->get_origin(),
                                                                           dynamic_cast<const VoxelsOnCartesianGrid<float>&>(*s.t.image).get_grid_spacing())));
  {
    size_t i = 0;
    for (int z = theta->get_min_index(); z <= theta->get_max_index(); ++z)
      for (int y = (*theta)[z].get_min_index(); y <= (*theta)[z].get_max_index(); ++y)
        for (int x = (*theta)[z][y].get_min_index(); x <= (*theta)[z][y].get_max_index(); ++x, ++i) {
          (*theta)[z][y][x][1] = (float)th1[i];
          (*theta)[z][y][x][2] = (float)th2[i];
        }
  }

  KOF of;
  of.configure(yd, ad, pp, norm, pk, o.maxseg, o.zero);
  of.set_num_subsets(o.N);
  of.set_use_subset_sensitivities(o.uss);
  // (the class re-declares set_recompute_sensitivity without defining it: call the base class's)
  static_cast<PoissonLogLikelihoodWithLinearModelForMean<PImg>&>(of).set_recompute_sensitivity(true);

  emit_system(tr, m);
  std::vector<std::vector<int>> ys, as, lams;
  for (int f = 0; f < F; ++f) { ys.push_back(fr[f].y); as.push_back(fr[f].a); lams.push_back(fr[f].lam); }
  tr.emit(vh::Json("Instance").boolean("patlak", true).num("sys", m.id).boolean("tof", s.tof).num("F", F).arr("M1", M1).arr("M2", M2)
              .boolean("additive", o.additive).str("norm", norm_names[o.norm]).boolean("zero", o.zero).num("maxSegAsked", o.maxseg)
              .boolean("uss", o.uss).num("N", o.N).boolean("cache", o.cache).num("family", o.family)
              .arr("th1", th1).arr("th2", th2).arr2("y", ys).arr2("a", as).arr("ef", fr[0].e));
  std::string msg;
  bool ok = false;
  const bool err = vh::threw([&] { ok = of.set_up(theta) == Succeeded::yes; }, &msg);
  vh::Json js("SetUp");
  js.boolean("err", err).boolean("ok", ok).num("maxSeg", of.resolved_max_seg());
  if (err) js.str("msg", msg.substr(0, 160));
  tr.emit(js);
  if (err || !ok) return;

  std::vector<Req> reqs;
  for (int sub = -1; sub < o.N; ++sub) {
    reqs.push_back(Req{ Value, sub, false });
    reqs.push_back(Req{ Grad, sub, false });
    reqs.push_back(Req{ Sens, sub, false });
    if (sub >= 0) reqs.push_back(Req{ GradPlusSens, sub, false });
  }
  for (size_t i = reqs.size(); i > 1; --i) std::swap(reqs[i - 1], reqs[rng.next() % i]);
  PoissonLogLikelihoodWithLinearModelForMean<PImg>& base_of = of;
  for (const Req& q : reqs) {
    vh::Json j(kind_names[q.kind]);
    j.num("sub", q.sub).boolean("pen", false);
    shared_ptr<PImg> out(theta->get_empty_copy());
    std::fill(out->begin_all(), out->end_all(), 0.F);
    double val = 0;
    std::string m2;
    const bool e2 = vh::threw([&] {
      switch (q.kind) {
      case Value: val = q.sub < 0 ? of.compute_objective_function_without_penalty(*theta) : of.compute_objective_function_without_penalty(*theta, q.sub); break;
      case Grad: if (q.sub < 0) of.compute_gradient_without_penalty(*out, *theta); else of.compute_sub_gradient_without_penalty(*out, *theta, q.sub); break;
      case GradPlusSens: of.compute_sub_gradient_without_penalty_plus_sensitivity(*out, *theta, q.sub); break;
      default: *out = q.sub < 0 ? base_of.get_sensitivity() : base_of.get_subset_sensitivity(q.sub); break;
      }
    }, &m2);
    j.boolean("err", e2);
    if (e2) j.str("msg", m2.substr(0, 120));
    if (q.kind == Value) j.num("k", 10).num("val", e2 ? 0 : std::llround(std::ldexp(val, 10)));
    else put_pimage(j, *out, 4);
    tr.emit(j);
  }
}

int entry(int argc, char** argv) {
  if (argc < 5) { fprintf(stderr, "usage: patlak <out.ndjson> <scratch-dir> <count>\n"); return 2; }
  const long count = atol(argv[4]);
  vh::Trace tr(argv[2]);
  vh::Rng rng(vh::seed_from_env());
  Sys sys = make_sys(false);
  Matrix m;
  for (long i = 0; i < count; ++i) {
    Opts o;
    o.family = rng.range(0, 2) == 0 ? 1 : 0;
    o.additive = o.family == 1 ? true : rng.coin();
    o.norm = rng.range(0, 4);
    o.zero = rng.coin();
    o.maxseg = rng.range(-1, 2);
    o.N = rng.range(1, 4);
    o.uss = o.N == 3 ? true : rng.coin();
    o.cache = rng.range(0, 3) != 0;
    if (!m.data || rng.range(0, 5) == 0) m = make_matrix(tr, sys, rng, 2, 2, true);
    run(tr, sys, m, rng, o);
  }
  tr.emit(vh::Json("End").num("lines", tr.lines));
  return 0;
}
} // namespace c05patlak
