// placeholder until the Patlak driver is written
#include <cstdio>
namespace c05patlak {
int entry(int, char**) { fprintf(stderr, "patlak mode not available\n"); return 2; }
} // namespace c05patlak
