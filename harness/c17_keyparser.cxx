// C17 driver: feeds text to the real stir::KeyParser / Interfile readers / registries and records
// what happened.  It DRIVES and RECORDS only: no expected values, no comparisons, no property
// formula (TLC decides, spec/Trace_KeyParser.tla).  Built against the ASan/UBSan-instrumented STIR
// libraries; every call into the code under test runs in a child process (c17_guard.h) so that a
// sanitizer report, a crash or a hang becomes an OUTCOME of the input that caused it.
//   c17_keyparser replay    <gen.ndjson> <out.ndjson>      part (a): TLC-generated line sequences
//   c17_keyparser hdr       <workdir> <out.ndjson> <level> [<reader> [<part> <nparts>]]  part (b): mutated library-written headers
//   c17_keyparser roundtrip <out.ndjson>                   part (c): parameter_info -> parse -> parameter_info
#include "c17_guard.h"
#include "vh_stir.h"
#include "stir/KeyParser.h"
#include "stir/TextWriter.h"
#include "stir/DiscretisedDensity.h"
#include "stir/DynamicDiscretisedDensity.h"
#include "stir/modelling/ParametricDiscretisedDensity.h"
#include "stir/modelling/KineticModel.h"
#include "stir/DataProcessor.h"
#include "stir/recon_buildblock/ForwardProjectorByBin.h"
#include "stir/recon_buildblock/BackProjectorByBin.h"
#include "stir/recon_buildblock/ProjectorByBinPair.h"
#include "stir/recon_buildblock/ProjMatrixByBin.h"
#include "stir/recon_buildblock/GeneralisedObjectiveFunction.h"
#include "stir/recon_buildblock/GeneralisedPrior.h"
#include "stir/recon_buildblock/Reconstruction.h"
#include "stir/recon_buildblock/BinNormalisation.h"
#include "stir/recon_buildblock/ProjDataRebinning.h"
#include "stir/scatter/ScatterSimulation.h"
#include "stir/Shape/Shape3D.h"
#include "stir/data/SinglesRates.h"
#include "stir/IO/OutputFileFormat.h"
#include "stir/IO/InterfileOutputFileFormat.h"
#include "stir/IO/interfile.h"
#include "stir/IO/read_from_file.h"
#include "stir/IO/write_to_file.h"
#include "stir/VoxelsOnCartesianGrid.h"
#include "stir/IndexRange3D.h"
#include "stir/ProjDataInterfile.h"
#include "stir/ProjData.h"
#include "stir/SegmentBySinogram.h"
#include "stir/ExamInfo.h"
#include <sys/stat.h>
#include <iostream>
#include <sstream>

using namespace stir;

// STIR's info/warning/error text goes nowhere; after `limit` warnings inside one item the writer throws
// (this is what ends the endless "asking all questions again" loop of ParsingObject::ask_parameters
// for classes whose defaults do not pass their own post_processing)
struct QuietWriter : public aTextWriter {
  mutable long count = 0;
  long limit = -1;
  void write(const char*) const override {
    if (limit >= 0 && ++count > limit) throw std::runtime_error("c17: warning limit reached");
  }
};
static QuietWriter quiet_writer;
static void install_quiet_writer() {
  TextWriterHandle h;
  h.set_information_channel(&quiet_writer);
  h.set_warning_channel(&quiet_writer);
  h.set_error_channel(&quiet_writer);
}

// ------------------------------------------------------------------------------------ part (a)
// the fixed key map (mirrored by TestKM / TestVars in spec/KeyParser.tla)
struct TestParser : public KeyParser {
  int i = -7;
  std::string s = "init";
  bool flag = false;
  std::vector<int> list{ 9 };
  std::vector<int> vec{ 0, 0, 0 };
  std::vector<std::vector<int>> vlist;
  int en = 0;
  std::vector<std::string> sl{ "x" }, sl2;
  std::vector<double> dl{ 0.5 };
  ASCIIlist_type envals;
  TestParser() {
    vlist.resize(2);
    envals.push_back("alpha");
    envals.push_back("Beta Gamma");
    add_start_key("Start Test");
    add_key("scalar int", &i);
    add_key("str key", &s);
    add_key("flag", &flag);
    add_key("list key", &list);
    add_vectorised_key("vec key", &vec);
    add_vectorised_key("vlist key", &vlist);
    add_key("enum key", &en, &envals);
    add_key("slist key", &sl);
    add_key("slist2 key", &sl2);
    add_key("dlist key", &dl);
    ignore_key("ignored key");
    add_alias_key("scalar int", "old int", false);   // plain alias (alias_map)
    add_alias_key("vec key", "old vec", true);       // deprecated alias (deprecated_alias_map)
    add_stop_key("End Test");
  }
  std::string vars_json() const {
    std::string v = "{\"i\":" + std::to_string(i) + ",\"s\":" + c17::jstr(s) + ",\"flag\":" + (flag ? "true" : "false") + ",\"list\":" + c17::jints(list)
                    + ",\"vec\":" + c17::jints(vec) + ",\"vlist\":[";
    for (size_t k = 0; k < vlist.size(); ++k) { if (k) v += ','; v += c17::jints(vlist[k]); }
    std::vector<std::string> dls;
    for (double d : dl) { std::ostringstream o; o << d; dls.push_back(o.str()); }
    return v + "],\"en\":" + std::to_string(en) + ",\"sl\":" + c17::jarr(sl) + ",\"sl2\":" + c17::jarr(sl2) + ",\"dl\":" + c17::jarr(dls) + "}";
  }
};

static int replay(const std::string& genpath, const std::string& outpath) {
  std::vector<std::string> gen;
  {
    std::ifstream f(genpath);
    std::string l;
    while (std::getline(f, l)) if (!l.empty()) gen.push_back(l);
  }
  auto text_of = [&](long k) {
    std::vector<std::string> lines = c17::json_string_array(gen[k], "text");
    const bool nl = c17::json_bool(gen[k], "nl");
    const std::string eol = c17::json_bool(gen[k], "crlf") ? "\r\n" : "\n";     // line ends are a dimension of the generated text
    std::string t;
    for (size_t j = 0; j < lines.size(); ++j) { t += lines[j]; if (j + 1 < lines.size() || nl) t += eol; }
    return t;
  };
  auto item = [&](long k) {
    const std::string text = text_of(k);
    TestParser p;
    std::istringstream in(text);
    bool ok = false;
    const bool th = vh::threw([&] { ok = p.parse(in); });
    return "{\"e\":\"Run\",\"gen\":" + gen[k] + ",\"fed\":" + c17::jstr(text) + ",\"obs\":{\"verdict\":\"" + (th ? "error" : (ok ? "accepted" : "rejected"))
           + "\",\"kind\":\"\",\"vars\":" + p.vars_json() + "}}";
  };
  auto dead = [&](long k, const std::string& kind) {
    return "{\"e\":\"Run\",\"gen\":" + gen[k] + ",\"fed\":" + c17::jstr(text_of(k)) + ",\"obs\":{\"verdict\":\"abort\",\"kind\":" + c17::jstr(kind) + ",\"vars\":{}}}";
  };
  c17::run_guarded((long)gen.size(), outpath, 20, item, dead);
  return 0;
}


// ------------------------------------------------------------------------------------ part (b)
// A header written by the library itself, and single-site line-level edits of it:
// mutated header = base[1..keep] ++ fresh ++ base[keep+skip+1..n]   (nl: the last line ends with a newline)
struct Mutation { std::string kind; int at; int keep, skip; std::vector<std::string> fresh; bool nl; };
struct HdrCase {
  int hid; std::string kind, dir, hdrname, basehdr, datafile; long datalen; std::vector<std::string> lines; bool nl; std::string written;
  std::vector<std::string> readers; std::vector<Mutation> muts;
};

static std::vector<std::string> read_lines(const std::string& path, bool& nl) {
  std::ifstream f(path, std::ios::binary);
  std::stringstream ss; ss << f.rdbuf();
  std::string t = ss.str();
  nl = !t.empty() && t.back() == '\n';
  std::vector<std::string> out;
  std::string cur;
  for (char c : t) { if (c == '\n') { out.push_back(cur); cur.clear(); } else cur += c; }
  if (!cur.empty()) out.push_back(cur);
  return out;
}
static long file_len(const std::string& p) { struct stat st; return stat(p.c_str(), &st) == 0 ? (long)st.st_size : -1; }
static std::string trim(const std::string& s) {
  auto a = s.find_first_not_of(" \t"); if (a == std::string::npos) return "";
  auto b = s.find_last_not_of(" \t"); return s.substr(a, b - a + 1);
}
static bool is_int_text(const std::string& v) {
  if (v.empty()) return false;
  size_t i = (v[0] == '-' || v[0] == '+') ? 1 : 0;
  if (i >= v.size()) return false;
  for (; i < v.size(); ++i) if (!isdigit((unsigned char)v[i])) return false;
  return true;
}

// the edits of one header (no knowledge of what they should cause: TLC decides)
static void make_mutations(HdrCase& c, int level) {
  const int n = (int)c.lines.size();
  auto add = [&](const std::string& kind, int at, int keep, int skip, std::vector<std::string> fresh, bool nl) { c.muts.push_back({ kind, at, keep, skip, fresh, nl }); };
  add("none", 0, n, 0, {}, c.nl);
  for (int k = 1; k <= n; ++k) {
    const std::string& L = c.lines[k - 1];
    // quick level: the (indented) scanner parameter block gets a thinner set of edits
    const bool thin = level == 0 && L.size() > 2 && L[0] == ' ' && k % 3 != 0;
    add("delete", k, k - 1, 1, {}, c.nl);
    if (!thin) add("dup", k, k, 0, { L }, c.nl);
    add("truncate", k, k - 1, n - k + 1, {}, true);            // header = lines 1..k-1
    if (level > 0 || k % 3 == 0) add("truncate_nonl", k, k, n - k, {}, false);   // lines 1..k, no final newline
    if (k < n && !thin) add("swap", k, k - 1, 2, { c.lines[k], L }, c.nl);
    // the order of keys: the line is moved down by d lines (the lines in between move up); many of these
    // orders are as valid as the writer's (the Interfile grammar fixes only some), the spec says which
    for (int d : { 2, 3, 6 })
      if (k + d <= n - 1 && !thin && (level > 0 || d != 3)) {
        std::vector<std::string> fresh(c.lines.begin() + k, c.lines.begin() + k + d);
        fresh.push_back(L);
        add("move", k, k - 1, d + 1, fresh, c.nl);
      }
    const auto as = L.find(":=");
    if (as == std::string::npos) continue;
    const std::string key = L.substr(0, as), val = trim(L.substr(as + 2));
    // keyword respelled: case, white space, underscores, exclamation mark
    if (!thin) {
      std::string r = "!";
      for (char ch : key) { if (ch == ' ') r += (r.size() % 2 ? "_" : "  "); else if (ch != '!') r += (char)toupper((unsigned char)ch); }
      add("respell", k, k - 1, 1, { r + ":=" + L.substr(as + 2) }, c.nl);
      // ... and with TABs: between the words, around the index brackets, around ':='
      std::string t;
      for (char ch : key) { if (ch == ' ') t += '\t'; else if (ch == '[') t += "\t[\t"; else if (ch == ']') t += "\t]"; else t += (k % 2 ? (char)toupper((unsigned char)ch) : ch); }
      add("respell_tab", k, k - 1, 1, { "\t" + t + "\t:=\t" + val }, c.nl);
      // the value with TABs between its words and changed case (neutral for enumerated keys only)
      if (!val.empty() && val.find(' ') != std::string::npos && val[0] != '{') {
        std::string v;
        for (char ch : val) v += ch == ' ' ? '\t' : (char)toupper((unsigned char)ch);
        add("value_tab", k, k - 1, 1, { key + ":= " + v }, c.nl);
      }
    }
    // index changes
    const auto lb = key.find('['), rb = key.find(']');
    if (lb != std::string::npos && rb != std::string::npos && rb > lb) {
      const int i = atoi(key.substr(lb + 1, rb - lb - 1).c_str());
      for (std::string j : { std::string("0"), std::to_string(i + 1), std::string("99"), std::string("-1"), std::string("4294967297"), std::string("") })
        add("reindex", k, k - 1, 1, { key.substr(0, lb) + (j.empty() ? "" : "[" + j + "]") + key.substr(rb + 1) + ":=" + L.substr(as + 2) }, c.nl);
    } else if (level > 0 || k % 4 == 0)
      add("reindex", k, k - 1, 1, { key + "[1] :=" + L.substr(as + 2) }, c.nl);
    // value replacement
    std::vector<std::string> vals;
    if (is_int_text(val)) {
      const long v = atol(val.c_str());
      vals = { "0", "-1", "1", std::to_string(v + 1), std::to_string(v > 1 ? v - 1 : 7), "2000000000", "99999999999", "" , "abc" };
    } else if (!val.empty() && val[0] == '{') {
      vals = { "{}", "{1}", val.substr(0, val.size() - 1) + ",7}", "{0" + val.substr(val.find_first_of(",}")), "{-1" + val.substr(val.find_first_of(",}")),
               "{2000000000" + val.substr(val.find_first_of(",}")), val.substr(0, val.size() - 1), "7", "" };
    } else if (!val.empty()) {
      vals = { "", "nonsense", "0", "-1" };
    } else
      vals = { "1" };
    if (thin) vals = { "0", "2000000000", "" };
    for (auto& v : vals) add("value", k, k - 1, 1, { key + ":= " + v }, c.nl);
  }
  // every byte of the last line
  {
    const std::string& L = c.lines[n - 1];
    for (size_t b = 0; b < L.size(); ++b) add("bytes", (int)b, n - 1, 1, { L.substr(0, b) }, false);
  }
  // keys the library did not write, inserted before the last line
  for (std::string ins : { "number of time frames := 0", "number of time frames := -1", "number of time frames := 2000000000", "number of time frames := 2",
                           "image scaling factor[1] := {1,2}", "image scaling factor[1] := 2", "image scaling factor[2] := 2",
                           "data offset in bytes[1] := 8", "data offset in bytes[1] := -1", "data offset in bytes[1] := 99999999999", "data offset in bytes[2] := 0",
                           "quantification units := 2", "number of image data types := 0", "number of image data types := 2", "number of energy windows := -1",
                           "number of energy windows := 2000000000", "number of energy windows := 0", "energy window lower level[1] := 300",
                           "!type of data := Tomographic", "!type of data := nonsense", "imaging modality := NM", "patient orientation := sideways",
                           "matrix size [1] := {}", "matrix size [1] := {3,3}", "number of dimensions := 3", "number of dimensions := 0", "number of dimensions := -1",
                           "number of dimensions := 2000000000", "image duration (sec)[1] := 3", "image relative start time (sec)[2] := 3",
                           "%sms-mi version number := 1", "version of keys := STIR3.0", "TOF bin order := {0,1}", "applied corrections := {arc correction}",
                           "; a comment", "", "   ", "unknown key := 3", "!INTERFILE :=" })
    add("insert", n, n - 1, 0, { ins }, c.nl);
  // valid headers with several data sets, keys in both orders (with and without per-data-set keys)
  for (std::vector<std::string> blk : { std::vector<std::string>{ "number of image data types := 2", "number of time frames := 1", "image scaling factor[2] := 1", "data offset in bytes[2] := 0" },
                                        std::vector<std::string>{ "number of time frames := 1", "number of image data types := 2", "image scaling factor[2] := 1", "data offset in bytes[2] := 0" },
                                        std::vector<std::string>{ "number of image data types := 2", "number of time frames := 1" },
                                        std::vector<std::string>{ "number of time frames := 1", "number of image data types := 2" },
                                        std::vector<std::string>{ "number of image data types := 2", "number of time frames := 2", "data offset in bytes[4] := 0" },
                                        std::vector<std::string>{ "number of time frames := 2", "number of image data types := 2", "data offset in bytes[4] := 0" },
                                        std::vector<std::string>{ "number of time frames := 2", "data offset in bytes[2] := 0", "image scaling factor[2] := 1" },
                                        std::vector<std::string>{ "data offset in bytes[1] := 0", "number of time frames := 1" } })
    add("insert_block", n, n - 1, 0, blk, c.nl);
  add("append", n, n, 0, { "matrix size [1] := 2000000000", "junk after the end" }, c.nl);
}

static std::vector<std::string> mutated(const HdrCase& c, const Mutation& m) {
  std::vector<std::string> out(c.lines.begin(), c.lines.begin() + m.keep);
  out.insert(out.end(), m.fresh.begin(), m.fresh.end());
  out.insert(out.end(), c.lines.begin() + std::min<size_t>(c.lines.size(), m.keep + m.skip), c.lines.end());
  return out;
}

static std::string obs_image(const VoxelsOnCartesianGrid<float>* im, const std::string& verdict, const std::string& msg) {
  long x = 0, y = 0, z = 0, mx = 0, my = 0, mz = 0;
  if (im) {
    z = im->get_z_size(); y = im->get_y_size(); x = im->get_x_size();
    mz = im->get_min_z(); my = im->get_min_y(); mx = im->get_min_x();
  }
  return "{\"verdict\":\"" + verdict + "\",\"kind\":\"\",\"msg\":" + c17::jstr(msg.substr(0, 120)) + ",\"x\":" + std::to_string(x) + ",\"y\":" + std::to_string(y) + ",\"z\":"
         + std::to_string(z) + ",\"minx\":" + std::to_string(mx) + ",\"miny\":" + std::to_string(my) + ",\"minz\":" + std::to_string(mz) + "}";
}
static std::string obs_pd(const ProjData* pd, const std::string& verdict, const std::string& msg) {
  long segs = 0, views = 0, bins = 0, tof = 0;
  std::vector<int> axial;
  bool readok = false;
  if (pd) {
    segs = pd->get_num_segments(); views = pd->get_num_views(); bins = pd->get_num_tangential_poss(); tof = pd->get_num_tof_poss();
    for (int s = pd->get_min_segment_num(); s <= pd->get_max_segment_num(); ++s) axial.push_back(pd->get_num_axial_poss(s));
    // read every bin the header announces
    readok = !vh::threw([&] {
      for (int t = pd->get_min_tof_pos_num(); t <= pd->get_max_tof_pos_num(); ++t)
        for (int s = pd->get_min_segment_num(); s <= pd->get_max_segment_num(); ++s) {
          SegmentBySinogram<float> seg = pd->get_segment_by_sinogram(s, t);
          (void)seg;
        }
    });
  }
  return "{\"verdict\":\"" + verdict + "\",\"kind\":\"\",\"msg\":" + c17::jstr(msg.substr(0, 120)) + ",\"segs\":" + std::to_string(segs) + ",\"views\":" + std::to_string(views)
         + ",\"bins\":" + std::to_string(bins) + ",\"tof\":" + std::to_string(tof) + ",\"axial\":" + c17::jints(axial) + ",\"readok\":" + (readok ? "true" : "false") + "}";
}

static std::string run_reader(const std::string& reader, const std::string& path) {
  std::string msg;
  if (reader == "img_direct") {
    VoxelsOnCartesianGrid<float>* im = nullptr;
    const bool th = vh::threw([&] { im = read_interfile_image(path); }, &msg);
    std::string o = obs_image(th ? nullptr : im, th ? "error" : (im ? "accepted" : "null"), msg);
    delete im;
    return o;
  }
  if (reader == "img_generic") {
    unique_ptr<DiscretisedDensity<3, float>> d;
    const bool th = vh::threw([&] { d = read_from_file<DiscretisedDensity<3, float>>(path); }, &msg);
    auto* im = dynamic_cast<VoxelsOnCartesianGrid<float>*>(d.get());
    return obs_image(th ? nullptr : im, th ? "error" : (im ? "accepted" : "null"), msg);
  }
  if (reader == "pd_direct") {
    ProjDataFromStream* pd = nullptr;
    const bool th = vh::threw([&] { pd = read_interfile_PDFS(path, std::ios::in); }, &msg);
    std::string o = obs_pd(th ? nullptr : pd, th ? "error" : (pd ? "accepted" : "null"), msg);
    delete pd;
    return o;
  }
  shared_ptr<ProjData> pd;
  const bool th = vh::threw([&] { pd = ProjData::read_from_file(path); }, &msg);
  return obs_pd(th ? nullptr : pd.get(), th ? "error" : (pd ? "accepted" : "null"), msg);
}

static int hdr_mode(const std::string& work, const std::string& outpath, int level, const std::string& only, int part, int nparts) {
  std::vector<HdrCase> cases;
  auto finish_case = [&](HdrCase& c, const std::string& hdrfile) {
    c.basehdr = hdrfile;
    c.lines = read_lines(c.dir + "/" + hdrfile, c.nl);
    c.datalen = file_len(c.dir + "/" + c.datafile);
    make_mutations(c, level);
    cases.push_back(c);
  };
  shared_ptr<ExamInfo> ei(new ExamInfo);
  ei->imaging_modality = ImagingModality::PT;
  int hid = 0;
  auto mkdir_case = [&](const std::string& name) { std::string d = work + "/" + name; mkdir(d.c_str(), 0755); return d; };
  {  // image, float
    HdrCase c; c.hid = ++hid; c.kind = "image"; c.dir = mkdir_case("img"); c.hdrname = "mut.hv"; c.datafile = "img.v";
    VoxelsOnCartesianGrid<float> im(ei, IndexRange3D(0, 2, -2, 1, -2, 2), CartesianCoordinate3D<float>(0, 0, 0), CartesianCoordinate3D<float>(3.F, 2.F, 2.F));
    im.fill(1.F);
    std::string fn = c.dir + "/img";
    write_to_file(fn, im);
    c.written = "{\"x\":5,\"y\":4,\"z\":3}";
    c.readers = { "img_direct", "img_generic" };
    finish_case(c, "img.hv");
  }
  {  // image, 16-bit integers with a scale factor (the library then also writes 'quantification units')
    HdrCase c; c.hid = ++hid; c.kind = "image"; c.dir = mkdir_case("imgs"); c.hdrname = "mut.hv"; c.datafile = "imgs.v";
    VoxelsOnCartesianGrid<float> im(ei, IndexRange3D(0, 1, -1, 1, -3, 2), CartesianCoordinate3D<float>(0, 0, 0), CartesianCoordinate3D<float>(3.F, 2.F, 2.F));
    im.fill(3.F);
    InterfileOutputFileFormat fmt;
    fmt.set_type_of_numbers(NumericType::SHORT);
    std::string fn = c.dir + "/imgs";
    fmt.write_to_file(fn, im);
    c.written = "{\"x\":6,\"y\":3,\"z\":2}";
    c.readers = { "img_direct", "img_generic" };
    finish_case(c, "imgs.hv");
  }
  {  // projection data, user-defined scanner, span 1
    HdrCase c; c.hid = ++hid; c.kind = "projdata"; c.dir = mkdir_case("pd"); c.hdrname = "mut.hs"; c.datafile = "pd.s";
    auto sc = vh::make_scanner(8, 3);
    shared_ptr<ProjDataInfo> pdi(ProjDataInfo::construct_proj_data_info(sc, 1, 2, 4, 5, false));
    { ProjDataInterfile pd(ei, pdi, c.dir + "/pd.hs"); pd.fill(2.F); }
    c.written = "{\"segs\":5,\"views\":4,\"bins\":5,\"tof\":1,\"axial\":[1,2,3,2,1]}";
    c.readers = { "pd_direct", "pd_generic" };
    finish_case(c, "pd.hs");
  }
  if (level > 0) {  // TOF projection data
    HdrCase c; c.hid = ++hid; c.kind = "projdata"; c.dir = mkdir_case("pdtof"); c.hdrname = "mut.hs"; c.datafile = "pdtof.s";
    auto sc = vh::make_scanner(8, 2, 5);
    shared_ptr<ProjDataInfo> pdi(ProjDataInfo::construct_proj_data_info(sc, 1, 1, 4, 5, false, 1));
    { ProjDataInterfile pd(ei, pdi, c.dir + "/pdtof.hs"); pd.fill(2.F); }
    c.written = "{\"segs\":3,\"views\":4,\"bins\":5,\"tof\":5,\"axial\":[1,2,1]}";
    c.readers = { "pd_direct", "pd_generic" };
    finish_case(c, "pdtof.hs");
  }
  // items: one per (case, reader, mutation); the Hdr line of a case precedes its first item
  struct Item { int c, r, m; };
  std::vector<Item> items;
  for (size_t ci = 0; ci < cases.size(); ++ci)
    for (size_t ri = 0; ri < cases[ci].readers.size(); ++ri) {
      if (!only.empty() && cases[ci].readers[ri] != only) continue;
      for (size_t mi = 0; mi < cases[ci].muts.size(); ++mi)
        if ((long)mi % nparts == part) items.push_back({ (int)ci, (int)ri, (int)mi });
    }
  auto hdrline = [&](const HdrCase& c) {
    return "{\"e\":\"Hdr\",\"hid\":" + std::to_string(c.hid) + ",\"kind\":" + c17::jstr(c.kind) + ",\"datafile\":" + c17::jstr(c.datafile) + ",\"datalen\":" + std::to_string(c.datalen)
           + ",\"nl\":" + (c.nl ? "true" : "false") + ",\"written\":" + c.written + ",\"lines\":" + c17::jarr(c.lines) + "}\n";
  };
  auto head = [&](long k) {
    const HdrCase& c = cases[items[k].c];
    const Mutation& m = c.muts[items[k].m];
    // the Hdr line of a case precedes its first item (repeated per reader and per part: harmless)
    std::string pre = (k == 0 || items[k - 1].c != items[k].c) ? hdrline(c) : "";
    return pre + "{\"e\":\"Mut\",\"hid\":" + std::to_string(c.hid) + ",\"reader\":" + c17::jstr(c.readers[items[k].r]) + ",\"mut\":" + c17::jstr(m.kind) + ",\"at\":"
           + std::to_string(m.at) + ",\"keep\":" + std::to_string(m.keep) + ",\"skip\":" + std::to_string(m.skip) + ",\"fresh\":" + c17::jarr(m.fresh) + ",\"nl\":"
           + (m.nl ? "true" : "false") + ",";
  };
  auto item = [&](long k) {
    const HdrCase& c = cases[items[k].c];
    const Mutation& m = c.muts[items[k].m];
    const std::string path = c.dir + "/" + c.hdrname;
    {
      std::ofstream f(path, std::ios::binary | std::ios::trunc);
      auto L = mutated(c, m);
      for (size_t j = 0; j < L.size(); ++j) { f << L[j]; if (j + 1 < L.size() || m.nl) f << '\n'; }
    }
    return head(k) + "\"obs\":" + run_reader(c.readers[items[k].r], path) + "}";
  };
  auto dead = [&](long k, const std::string& kind) {
    const HdrCase& c = cases[items[k].c];
    const std::string zeros = c.kind == "image" ? ",\"x\":0,\"y\":0,\"z\":0,\"minx\":0,\"miny\":0,\"minz\":0}" : ",\"segs\":0,\"views\":0,\"bins\":0,\"tof\":0,\"axial\":[],\"readok\":false}";
    return head(k) + "\"obs\":{\"verdict\":\"abort\",\"kind\":" + c17::jstr(kind) + ",\"msg\":\"\"" + zeros + "}";
  };
  c17::run_guarded((long)items.size(), outpath, 60, item, dead);
  return 0;
}

// ------------------------------------------------------------------------------------ part (c)
struct RTItem { std::string registry, name; std::function<std::string()> run; };
static std::vector<std::string> split_lines(const std::string& t) {
  std::vector<std::string> out;
  std::string cur;
  for (char c : t) { if (c == '\n') { out.push_back(cur); cur.clear(); } else cur += c; }
  if (!cur.empty()) out.push_back(cur);
  return out;
}

template <class Root>
static void add_registry(std::vector<RTItem>& items, const std::string& registry) {
  std::ostringstream names;
  Root::list_registered_names(names);
  std::istringstream in(names.str());
  std::string name;
  while (std::getline(in, name)) {
    if (name.empty() || name == "None") continue;
    items.push_back({ registry, name, [name]() {
                       // default construction: the interactive route with an empty standard input leaves every default in place
                       std::istringstream empty_in;
                       std::ostringstream sink;
                       auto* old_in = std::cin.rdbuf(empty_in.rdbuf());
                       auto* old_out = std::cout.rdbuf(sink.rdbuf());
                       std::string t1, t2, why;
                       bool constructed = false, parsed = false;
                       shared_ptr<Root> o1;
                       quiet_writer.count = 0; quiet_writer.limit = 200;
                       if (vh::threw([&] { o1.reset(Root::read_registered_object(0, name)); }, &why)) o1.reset();
                       quiet_writer.limit = -1;
                       std::cin.rdbuf(old_in);
                       std::cin.clear();
                       if (o1 && !vh::threw([&] { t1 = o1->parameter_info(); }, &why)) constructed = true;
                       if (constructed) {
                         why.clear();
                         shared_ptr<Root> o2;
                         std::istringstream text(t1);
                         const bool th = vh::threw([&] { o2.reset(Root::read_registered_object(&text, name)); }, &why);
                         if (!th && o2 && !vh::threw([&] { t2 = o2->parameter_info(); }, &why)) parsed = true;
                       }
                       std::cout.rdbuf(old_out);
                       return std::string("\"constructed\":") + (constructed ? "true" : "false") + ",\"parsed\":" + (parsed ? "true" : "false")
                              + ",\"why\":" + c17::jstr(why.substr(0, 200)) + ",\"t1\":" + c17::jarr(split_lines(t1)) + ",\"t2\":" + c17::jarr(split_lines(t2));
                     } });
  }
}

static int roundtrip(const std::string& outpath) {
  std::vector<RTItem> items;
  typedef DiscretisedDensity<3, float> DD;
  typedef ParametricVoxelsOnCartesianGrid PD;
  add_registry<ProjectorByBinPair>(items, "ProjectorByBinPair");
  add_registry<ForwardProjectorByBin>(items, "ForwardProjectorByBin");
  add_registry<BackProjectorByBin>(items, "BackProjectorByBin");
  add_registry<ProjMatrixByBin>(items, "ProjMatrixByBin");
  add_registry<BinNormalisation>(items, "BinNormalisation");
  add_registry<DataProcessor<DD>>(items, "DataProcessor<DiscretisedDensity<3,float>>");
  add_registry<GeneralisedObjectiveFunction<DD>>(items, "GeneralisedObjectiveFunction<DiscretisedDensity<3,float>>");
  add_registry<GeneralisedPrior<DD>>(items, "GeneralisedPrior<DiscretisedDensity<3,float>>");
  add_registry<Reconstruction<DD>>(items, "Reconstruction<DiscretisedDensity<3,float>>");
  add_registry<DataProcessor<PD>>(items, "DataProcessor<ParametricVoxelsOnCartesianGrid>");
  add_registry<GeneralisedObjectiveFunction<PD>>(items, "GeneralisedObjectiveFunction<ParametricVoxelsOnCartesianGrid>");
  add_registry<GeneralisedPrior<PD>>(items, "GeneralisedPrior<ParametricVoxelsOnCartesianGrid>");
  add_registry<Reconstruction<PD>>(items, "Reconstruction<ParametricVoxelsOnCartesianGrid>");
  add_registry<Shape3D>(items, "Shape3D");
  add_registry<OutputFileFormat<DD>>(items, "OutputFileFormat<DiscretisedDensity<3,float>>");
  add_registry<OutputFileFormat<PD>>(items, "OutputFileFormat<ParametricVoxelsOnCartesianGrid>");
  add_registry<OutputFileFormat<DynamicDiscretisedDensity>>(items, "OutputFileFormat<DynamicDiscretisedDensity>");
  add_registry<KineticModel>(items, "KineticModel");
  add_registry<ProjDataRebinning>(items, "ProjDataRebinning");
  add_registry<ScatterSimulation>(items, "ScatterSimulation");
  add_registry<SinglesRates>(items, "SinglesRates");
  auto head = [&](long k) { return "{\"e\":\"RT\",\"registry\":" + c17::jstr(items[k].registry) + ",\"name\":" + c17::jstr(items[k].name) + ","; };
  auto item = [&](long k) { return head(k) + "\"abort\":\"\"," + items[k].run() + "}"; };
  auto dead = [&](long k, const std::string& kind) {
    return head(k) + "\"abort\":" + c17::jstr(kind) + ",\"constructed\":false,\"parsed\":false,\"why\":\"\",\"t1\":[],\"t2\":[]}";
  };
  c17::run_guarded((long)items.size(), outpath, 30, item, dead);
  return 0;
}

int main(int argc, char** argv) {
  vh::quiet();
  install_quiet_writer();
  if (argc < 2) return 2;
  const std::string mode = argv[1];
  if (mode == "replay" && argc >= 4) return replay(argv[2], argv[3]);
  if (mode == "roundtrip" && argc >= 3) return roundtrip(argv[2]);
  if (mode == "hdr" && argc >= 5) return hdr_mode(argv[2], argv[3], atoi(argv[4]), argc >= 6 ? argv[5] : "", argc >= 8 ? atoi(argv[6]) : 0, argc >= 8 ? atoi(argv[7]) : 1);
  fprintf(stderr, "usage: c17_keyparser replay|hdr|roundtrip ...\n");
  return 2;
}
