// C17 driver: feeds text to the real stir::KeyParser / Interfile readers / registries and records
// what happened.  It DRIVES and RECORDS only: no expected values, no comparisons, no property
// formula (TLC decides, spec/Trace_KeyParser.tla).  Built against the ASan/UBSan-instrumented STIR
// libraries; every call into the code under test runs in a child process (c17_guard.h) so that a
// sanitizer report, a crash or a hang becomes an OUTCOME of the input that caused it.
//   c17_keyparser replay    <gen.ndjson> <out.ndjson>      part (a): TLC-generated line sequences
//   c17_keyparser hdr       <workdir> <out.ndjson> <level>  part (b): mutated library-written headers
//   c17_keyparser roundtrip <out.ndjson>                   part (c): parameter_info -> parse -> parameter_info
#include "c17_guard.h"
#include "vh_stir.h"
#include "stir/KeyParser.h"
#include <iostream>
#include <sstream>

using namespace stir;

// ------------------------------------------------------------------------------------ part (a)
// the fixed key map (mirrored by TestKM / TestVars in spec/KeyParser.tla)
struct TestParser : public KeyParser {
  int i = -7;
  std::string s = "init";
  bool flag = false;
  std::vector<int> list{ 9 };
  std::vector<int> vec{ 0, 0, 0 };
  std::vector<std::vector<int>> vlist;
  int en = 0;
  ASCIIlist_type envals;
  TestParser() {
    vlist.resize(2);
    envals.push_back("alpha");
    envals.push_back("Beta Gamma");
    add_start_key("Start Test");
    add_key("scalar int", &i);
    add_key("str key", &s);
    add_key("flag", &flag);
    add_key("list key", &list);
    add_vectorised_key("vec key", &vec);
    add_vectorised_key("vlist key", &vlist);
    add_key("enum key", &en, &envals);
    ignore_key("ignored key");
    add_alias_key("scalar int", "old int");
    add_alias_key("vec key", "old vec", true);
    add_stop_key("End Test");
  }
  std::string vars_json() const {
    std::string v = "{\"i\":" + std::to_string(i) + ",\"s\":" + c17::jstr(s) + ",\"flag\":" + (flag ? "true" : "false") + ",\"list\":" + c17::jints(list)
                    + ",\"vec\":" + c17::jints(vec) + ",\"vlist\":[";
    for (size_t k = 0; k < vlist.size(); ++k) { if (k) v += ','; v += c17::jints(vlist[k]); }
    return v + "],\"en\":" + std::to_string(en) + "}";
  }
};

static int replay(const std::string& genpath, const std::string& outpath) {
  std::vector<std::string> gen;
  {
    std::ifstream f(genpath);
    std::string l;
    while (std::getline(f, l)) if (!l.empty()) gen.push_back(l);
  }
  auto text_of = [&](long k) {
    std::vector<std::string> lines = c17::json_string_array(gen[k], "text");
    const bool nl = c17::json_bool(gen[k], "nl");
    std::string t;
    for (size_t j = 0; j < lines.size(); ++j) { t += lines[j]; if (j + 1 < lines.size() || nl) t += '\n'; }
    return t;
  };
  auto item = [&](long k) {
    const std::string text = text_of(k);
    TestParser p;
    std::istringstream in(text);
    bool ok = false;
    const bool th = vh::threw([&] { ok = p.parse(in); });
    return "{\"e\":\"Run\",\"gen\":" + gen[k] + ",\"fed\":" + c17::jstr(text) + ",\"obs\":{\"verdict\":\"" + (th ? "error" : (ok ? "accepted" : "rejected"))
           + "\",\"kind\":\"\",\"vars\":" + p.vars_json() + "}}";
  };
  auto dead = [&](long k, const std::string& kind) {
    return "{\"e\":\"Run\",\"gen\":" + gen[k] + ",\"fed\":" + c17::jstr(text_of(k)) + ",\"obs\":{\"verdict\":\"abort\",\"kind\":" + c17::jstr(kind) + ",\"vars\":{}}}";
  };
  c17::run_guarded((long)gen.size(), outpath, 5, item, dead);
  return 0;
}

int main(int argc, char** argv) {
  vh::quiet();
  if (argc < 2) return 2;
  const std::string mode = argv[1];
  if (mode == "replay" && argc >= 4) return replay(argv[2], argv[3]);
  fprintf(stderr, "usage: c17_keyparser replay|hdr|roundtrip ...\n");
  return 2;
}
