// C17 driver: feeds text to the real stir::KeyParser / Interfile readers / registries and records
// what happened.  It DRIVES and RECORDS only: no expected values, no comparisons, no property
// formula (TLC decides, spec/Trace_KeyParser.tla).  Built against the ASan/UBSan-instrumented STIR
// libraries; every call into the code under test runs in a child process (c17_guard.h) so that a
// sanitizer report, a crash or a hang becomes an OUTCOME of the input that caused it.
//   c17_keyparser replay    <gen.ndjson> <out.ndjson>      part (a): TLC-generated line sequences
//   c17_keyparser hdr       <workdir> <out.ndjson> <level>  part (b): mutated library-written headers
//   c17_keyparser roundtrip <out.ndjson>                   part (c): parameter_info -> parse -> parameter_info
#include "c17_guard.h"
#include "vh_stir.h"
#include "stir/KeyParser.h"
#include "stir/TextWriter.h"
#include "stir/DiscretisedDensity.h"
#include "stir/DynamicDiscretisedDensity.h"
#include "stir/modelling/ParametricDiscretisedDensity.h"
#include "stir/modelling/KineticModel.h"
#include "stir/DataProcessor.h"
#include "stir/recon_buildblock/ForwardProjectorByBin.h"
#include "stir/recon_buildblock/BackProjectorByBin.h"
#include "stir/recon_buildblock/ProjectorByBinPair.h"
#include "stir/recon_buildblock/ProjMatrixByBin.h"
#include "stir/recon_buildblock/GeneralisedObjectiveFunction.h"
#include "stir/recon_buildblock/GeneralisedPrior.h"
#include "stir/recon_buildblock/Reconstruction.h"
#include "stir/recon_buildblock/BinNormalisation.h"
#include "stir/recon_buildblock/ProjDataRebinning.h"
#include "stir/scatter/ScatterSimulation.h"
#include "stir/Shape/Shape3D.h"
#include "stir/data/SinglesRates.h"
#include "stir/IO/OutputFileFormat.h"
#include <iostream>
#include <sstream>

using namespace stir;

// STIR's info/warning/error text goes nowhere; after `limit` warnings inside one item the writer throws
// (this is what ends the endless "asking all questions again" loop of ParsingObject::ask_parameters
// for classes whose defaults do not pass their own post_processing)
struct QuietWriter : public aTextWriter {
  mutable long count = 0;
  long limit = -1;
  void write(const char*) const override {
    if (limit >= 0 && ++count > limit) throw std::runtime_error("c17: warning limit reached");
  }
};
static QuietWriter quiet_writer;
static void install_quiet_writer() {
  TextWriterHandle h;
  h.set_information_channel(&quiet_writer);
  h.set_warning_channel(&quiet_writer);
  h.set_error_channel(&quiet_writer);
}

// ------------------------------------------------------------------------------------ part (a)
// the fixed key map (mirrored by TestKM / TestVars in spec/KeyParser.tla)
struct TestParser : public KeyParser {
  int i = -7;
  std::string s = "init";
  bool flag = false;
  std::vector<int> list{ 9 };
  std::vector<int> vec{ 0, 0, 0 };
  std::vector<std::vector<int>> vlist;
  int en = 0;
  ASCIIlist_type envals;
  TestParser() {
    vlist.resize(2);
    envals.push_back("alpha");
    envals.push_back("Beta Gamma");
    add_start_key("Start Test");
    add_key("scalar int", &i);
    add_key("str key", &s);
    add_key("flag", &flag);
    add_key("list key", &list);
    add_vectorised_key("vec key", &vec);
    add_vectorised_key("vlist key", &vlist);
    add_key("enum key", &en, &envals);
    ignore_key("ignored key");
    add_alias_key("scalar int", "old int");
    add_alias_key("vec key", "old vec", true);
    add_stop_key("End Test");
  }
  std::string vars_json() const {
    std::string v = "{\"i\":" + std::to_string(i) + ",\"s\":" + c17::jstr(s) + ",\"flag\":" + (flag ? "true" : "false") + ",\"list\":" + c17::jints(list)
                    + ",\"vec\":" + c17::jints(vec) + ",\"vlist\":[";
    for (size_t k = 0; k < vlist.size(); ++k) { if (k) v += ','; v += c17::jints(vlist[k]); }
    return v + "],\"en\":" + std::to_string(en) + "}";
  }
};

static int replay(const std::string& genpath, const std::string& outpath) {
  std::vector<std::string> gen;
  {
    std::ifstream f(genpath);
    std::string l;
    while (std::getline(f, l)) if (!l.empty()) gen.push_back(l);
  }
  auto text_of = [&](long k) {
    std::vector<std::string> lines = c17::json_string_array(gen[k], "text");
    const bool nl = c17::json_bool(gen[k], "nl");
    std::string t;
    for (size_t j = 0; j < lines.size(); ++j) { t += lines[j]; if (j + 1 < lines.size() || nl) t += '\n'; }
    return t;
  };
  auto item = [&](long k) {
    const std::string text = text_of(k);
    TestParser p;
    std::istringstream in(text);
    bool ok = false;
    const bool th = vh::threw([&] { ok = p.parse(in); });
    return "{\"e\":\"Run\",\"gen\":" + gen[k] + ",\"fed\":" + c17::jstr(text) + ",\"obs\":{\"verdict\":\"" + (th ? "error" : (ok ? "accepted" : "rejected"))
           + "\",\"kind\":\"\",\"vars\":" + p.vars_json() + "}}";
  };
  auto dead = [&](long k, const std::string& kind) {
    return "{\"e\":\"Run\",\"gen\":" + gen[k] + ",\"fed\":" + c17::jstr(text_of(k)) + ",\"obs\":{\"verdict\":\"abort\",\"kind\":" + c17::jstr(kind) + ",\"vars\":{}}}";
  };
  c17::run_guarded((long)gen.size(), outpath, 5, item, dead);
  return 0;
}


// ------------------------------------------------------------------------------------ part (c)
struct RTItem { std::string registry, name; std::function<std::string()> run; };

template <class Root>
static void add_registry(std::vector<RTItem>& items, const std::string& registry) {
  std::ostringstream names;
  Root::list_registered_names(names);
  std::istringstream in(names.str());
  std::string name;
  while (std::getline(in, name)) {
    if (name.empty() || name == "None") continue;
    items.push_back({ registry, name, [name]() {
                       // default construction: the interactive route with an empty standard input leaves every default in place
                       std::istringstream empty_in;
                       std::ostringstream sink;
                       auto* old_in = std::cin.rdbuf(empty_in.rdbuf());
                       auto* old_out = std::cout.rdbuf(sink.rdbuf());
                       std::string t1, t2, why;
                       bool constructed = false, parsed = false;
                       shared_ptr<Root> o1;
                       quiet_writer.count = 0; quiet_writer.limit = 200;
                       if (vh::threw([&] { o1.reset(Root::read_registered_object(0, name)); }, &why)) o1.reset();
                       quiet_writer.limit = -1;
                       std::cin.rdbuf(old_in);
                       std::cin.clear();
                       if (o1 && !vh::threw([&] { t1 = o1->parameter_info(); }, &why)) constructed = true;
                       if (constructed) {
                         why.clear();
                         shared_ptr<Root> o2;
                         std::istringstream text(t1);
                         const bool th = vh::threw([&] { o2.reset(Root::read_registered_object(&text, name)); }, &why);
                         if (!th && o2 && !vh::threw([&] { t2 = o2->parameter_info(); }, &why)) parsed = true;
                       }
                       std::cout.rdbuf(old_out);
                       return std::string("\"constructed\":") + (constructed ? "true" : "false") + ",\"parsed\":" + (parsed ? "true" : "false")
                              + ",\"why\":" + c17::jstr(why.substr(0, 200)) + ",\"t1\":" + c17::jstr(t1) + ",\"t2\":" + c17::jstr(t2);
                     } });
  }
}

static int roundtrip(const std::string& outpath) {
  std::vector<RTItem> items;
  typedef DiscretisedDensity<3, float> DD;
  typedef ParametricVoxelsOnCartesianGrid PD;
  add_registry<ProjectorByBinPair>(items, "ProjectorByBinPair");
  add_registry<ForwardProjectorByBin>(items, "ForwardProjectorByBin");
  add_registry<BackProjectorByBin>(items, "BackProjectorByBin");
  add_registry<ProjMatrixByBin>(items, "ProjMatrixByBin");
  add_registry<BinNormalisation>(items, "BinNormalisation");
  add_registry<DataProcessor<DD>>(items, "DataProcessor<DiscretisedDensity<3,float>>");
  add_registry<GeneralisedObjectiveFunction<DD>>(items, "GeneralisedObjectiveFunction<DiscretisedDensity<3,float>>");
  add_registry<GeneralisedPrior<DD>>(items, "GeneralisedPrior<DiscretisedDensity<3,float>>");
  add_registry<Reconstruction<DD>>(items, "Reconstruction<DiscretisedDensity<3,float>>");
  add_registry<DataProcessor<PD>>(items, "DataProcessor<ParametricVoxelsOnCartesianGrid>");
  add_registry<GeneralisedObjectiveFunction<PD>>(items, "GeneralisedObjectiveFunction<ParametricVoxelsOnCartesianGrid>");
  add_registry<GeneralisedPrior<PD>>(items, "GeneralisedPrior<ParametricVoxelsOnCartesianGrid>");
  add_registry<Reconstruction<PD>>(items, "Reconstruction<ParametricVoxelsOnCartesianGrid>");
  add_registry<Shape3D>(items, "Shape3D");
  add_registry<OutputFileFormat<DD>>(items, "OutputFileFormat<DiscretisedDensity<3,float>>");
  add_registry<OutputFileFormat<PD>>(items, "OutputFileFormat<ParametricVoxelsOnCartesianGrid>");
  add_registry<OutputFileFormat<DynamicDiscretisedDensity>>(items, "OutputFileFormat<DynamicDiscretisedDensity>");
  add_registry<KineticModel>(items, "KineticModel");
  add_registry<ProjDataRebinning>(items, "ProjDataRebinning");
  add_registry<ScatterSimulation>(items, "ScatterSimulation");
  add_registry<SinglesRates>(items, "SinglesRates");
  auto head = [&](long k) { return "{\"e\":\"RT\",\"registry\":" + c17::jstr(items[k].registry) + ",\"name\":" + c17::jstr(items[k].name) + ","; };
  auto item = [&](long k) { return head(k) + "\"abort\":\"\"," + items[k].run() + "}"; };
  auto dead = [&](long k, const std::string& kind) {
    return head(k) + "\"abort\":" + c17::jstr(kind) + ",\"constructed\":false,\"parsed\":false,\"why\":\"\",\"t1\":\"\",\"t2\":\"\"}";
  };
  c17::run_guarded((long)items.size(), outpath, 3, item, dead);
  return 0;
}

int main(int argc, char** argv) {
  vh::quiet();
  install_quiet_writer();
  if (argc < 2) return 2;
  const std::string mode = argv[1];
  if (mode == "replay" && argc >= 4) return replay(argv[2], argv[3]);
  if (mode == "roundtrip" && argc >= 3) return roundtrip(argv[2]);
  fprintf(stderr, "usage: c17_keyparser replay|hdr|roundtrip ...\n");
  return 2;
}
