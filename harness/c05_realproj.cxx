// C05 driver, real projectors: the same objective function as c05_poissonll, but behind a REAL
// ProjMatrixByBinUsingRayTracing (symmetries on, cache on/off) instead of the explicit-matrix seam, so that the
// symmetry-grouped code paths (RelatedViewgrams with several viewgrams, subsets made of orbits of basic
// view/segment pairs, rows obtained from a basic bin by a symmetry operation) are bound to the same definitions.
// The explicit matrix P that TLC computes with is EXTRACTED from a second, independent matrix object with all
// symmetries off and no cache (every row ray-traced directly) and logged in fixed point (2^-15).
// No property formula, no expected value, no comparison here: TLC (Trace_PoissonLLReal.tla) decides.
//
//   c05_realproj run <out.ndjson> <scratch-dir> <num-instances>
//
// Instance construction (inputs only): lambda in 0..2; the target mean K_b is the power of two >= max(1,(P lambda)_b),
// the additive term is a_b = K_b - (P lambda)_b (so the mean is K_b up to float rounding), data y_b = r_b K_b^2.
#include "c03_matrix_common.h"
#include "vh_explicit_matrix.h"
#include "c05_common.h"
#include "stir/recon_buildblock/PoissonLogLikelihoodWithLinearModelForMeanAndProjData.h"
#include "stir/recon_buildblock/BinNormalisationFromProjData.h"
#include "stir/recon_buildblock/TrivialBinNormalisation.h"
#include "stir/recon_buildblock/ProjectorByBinPairUsingProjMatrixByBin.h"
#include "stir/ProjDataInMemory.h"
#include <algorithm>
using namespace stir;
using namespace c05;

namespace c05real {

typedef PoissonLogLikelihoodWithLinearModelForMeanAndProjData<Img> PLL;
class OF : public PLL {
public:
  void set_use_tofsens(bool v) { this->use_tofsens = v; }
  bool get_use_tofsens() const { return this->use_tofsens; }
};

static const int PS = 15;  // P is logged as round(P * 2^15)

struct RealSys {
  c03::DataCfg d;
  c03::GridCfg g;
  shared_ptr<ProjDataInfo> pdi;
  shared_ptr<ExamInfo> exam;
  shared_ptr<VoxelsOnCartesianGrid<float>> image;
  std::vector<Bin> bins;                       // canonical order of vh::xm_all_bins
  std::vector<std::array<int, 3>> vox;
  std::vector<std::vector<std::pair<int, float>>> rows;   // reference P: per bin (voxel index 1-based, value), inside the image only
  int ntl;
  long id;
  vh::Json sysjson;
};

static RealSys make_real_sys(long id, int ntl, bool tof) {
  RealSys s;
  s.id = id;
  s.ntl = ntl;
  s.d.N = 16; s.d.R = 3; s.d.span = 1; s.d.maxDelta = 2; s.d.numTang = 7;
  if (tof) { s.d.maxT = 3; s.d.tofMash = 1; s.d.numTang = 5; }
  s.pdi = c03::make_pdi(s.d);
  s.g.nx = 7; s.g.ny = 7; s.g.nz = 5; s.g.vx = 3.F; s.g.vy = 3.F;
  s.exam.reset(new ExamInfo);
  s.exam->imaging_modality = ImagingModality::PT;
  {
    shared_ptr<VoxelsOnCartesianGrid<float>> im = c03::make_image(*s.pdi, s.g);
    s.image.reset(new VoxelsOnCartesianGrid<float>(s.exam, im->get_index_range(), im->get_origin(), im->get_grid_spacing()));
    s.image->fill(0.F);
  }
  s.bins = vh::xm_all_bins(*s.pdi);
  s.vox = vh::xm_voxels(*s.image);
  // reference matrix: no symmetries, no cache - every row is ray-traced for its own bin
  shared_ptr<ProjMatrixByBinUsingRayTracing> ref = c03::make_matrix(c03::sw_from_bits(0), ntl, false, true);
  ref->set_up(s.pdi, s.image);
  vh::ExplicitMatrixData logdata;   // only used to serialise the System line (weights = round(P 2^15))
  for (const Bin& b : s.bins) {
    ProjMatrixElemsForOneBin row;
    ref->get_proj_matrix_elems_for_one_bin(row, b);
    std::vector<std::pair<int, float>> r;
    std::vector<vh::XmElem> le;
    for (auto it = row.begin(); it != row.end(); ++it) {
      const int v = vh::xm_voxel_index(*s.image, it->coord1(), it->coord2(), it->coord3());
      if (v == 0) continue;   // element outside the image: takes no part in any projection
      bool merged = false;
      for (auto& e : r) if (e.first == v) { e.second += it->get_value(); merged = true; }
      if (!merged) r.push_back({ v, it->get_value() });
    }
    for (auto& e : r) {
      const float w = (float)vh::fx(e.second, PS);
      if (w >= 1.F) le.push_back(vh::XmElem{ s.vox[e.first - 1][0], s.vox[e.first - 1][1], s.vox[e.first - 1][2], w });
    }
    logdata.set_row(b, le);
    s.rows.push_back(r);
  }
  vh::TinySystem ts;
  ts.proj_data_info = s.pdi;
  ts.image = s.image;
  s.sysjson = vh::xm_system_json(id, ts, logdata);
  s.sysjson.num("ps", PS).num("ntl", ntl);
  if (tof) {
    // the non-TOF matrix (used for the sensitivity when TOF sensitivities are off), as columns over the bins of TOF
    // position 0: [[bin, round(P_nonTOF 2^15)], ...] per voxel
    shared_ptr<ProjDataInfo> nt(s.pdi->create_non_tof_clone());
    shared_ptr<ProjMatrixByBinUsingRayTracing> refnt = c03::make_matrix(c03::sw_from_bits(0), ntl, false, true);
    refnt->set_up(nt, s.image);
    std::vector<std::string> cols(s.vox.size());
    for (size_t b = 0; b < s.bins.size(); ++b) {
      if (s.bins[b].timing_pos_num() != 0) continue;
      Bin sb(s.bins[b].segment_num(), s.bins[b].view_num(), s.bins[b].axial_pos_num(), s.bins[b].tangential_pos_num());
      ProjMatrixElemsForOneBin row;
      refnt->get_proj_matrix_elems_for_one_bin(row, sb);
      std::map<int, float> acc;
      for (auto it = row.begin(); it != row.end(); ++it) {
        const int v = vh::xm_voxel_index(*s.image, it->coord1(), it->coord2(), it->coord3());
        if (v) acc[v] += it->get_value();
      }
      for (auto& kv : acc) {
        const long long w = vh::fx(kv.second, PS);
        if (w < 1) continue;
        std::string& c = cols[kv.first - 1];
        if (!c.empty()) c += ',';
        c += '[' + std::to_string(b + 1) + ',' + std::to_string(w) + ']';
      }
    }
    std::string all = "[";
    for (size_t v = 0; v < cols.size(); ++v) { if (v) all += ','; all += '[' + cols[v] + ']'; }
    s.sysjson.raw("ntcols", all + "]");
  }
  return s;
}

struct ROpts {
  int sw = 31;          // symmetry switches of the matrix under test (bits: 90, 180, swap segment, swap s, shift z)
  bool cache = true, basic_only = true;
  bool zero = false, uss = false, tofsens = false;
  int maxseg = -1, N = 1, norm = 0, fill = 0;
};

static shared_ptr<ProjDataInMemory> make_pd(const RealSys& s, const std::vector<float>& vals) {
  shared_ptr<ProjDataInMemory> pd(new ProjDataInMemory(s.exam, s.pdi));
  pd->fill(0.F);
  for (size_t b = 0; b < s.bins.size(); ++b) {
    Bin bin = s.bins[b];
    bin.set_bin_value(vals[b]);
    pd->set_bin_value(bin);
  }
  return pd;
}

static void run(vh::Trace& tr, const RealSys& s, const ROpts& o, vh::Rng& rng) {
  const int nv = (int)s.vox.size(), nb = (int)s.bins.size();
  std::vector<int> lam(nv), x(nv), K(nb), r(nb), ef(nb), y(nb);
  std::vector<long long> a15(nb);
  std::vector<float> af(nb), yf(nb), nf(nb);
  for (int v = 0; v < nv; ++v) { lam[v] = rng.range(0, 2); x[v] = rng.range(0, 3); }
  const bool tofdata = s.pdi->is_tof_data();
  std::map<std::array<int, 4>, int> efs;
  for (int b = 0; b < nb; ++b) {
    double pl = 0;
    for (auto& e : s.rows[b]) pl += (double)e.second * lam[e.first - 1];
    int k = 1;
    while (k < pl) k *= 2;
    K[b] = k;
    af[b] = (float)(k - pl);
    a15[b] = vh::fx(af[b], PS);
    r[b] = rng.range(0, 2);
    y[b] = r[b] * k * k;
    yf[b] = (float)y[b];
    const Bin& bin = s.bins[b];
    std::array<int, 4> key{ { bin.segment_num(), bin.view_num(), bin.axial_pos_num(), bin.tangential_pos_num() } };
    if (!efs.count(key)) efs[key] = o.norm == 0 ? 0 : rng.range(-2, 0);   // efficiencies do not depend on the TOF position
    ef[b] = efs[key];
    nf[b] = std::ldexp(1.F, -ef[b]);   // normalisation factor = 1 / efficiency
  }
  shared_ptr<Img> lami(s.image->get_empty_copy()), xi(s.image->get_empty_copy());
  { size_t i = 0; for (auto it = lami->begin_all(); it != lami->end_all(); ++it, ++i) *it = (float)lam[i]; }
  { size_t i = 0; for (auto it = xi->begin_all(); it != xi->end_all(); ++it, ++i) *it = (float)x[i]; }
  shared_ptr<ProjData> yd = make_pd(s, yf), ad = make_pd(s, af);
  shared_ptr<BinNormalisation> norm;
  if (o.norm == 0) norm.reset(new TrivialBinNormalisation);
  else {
    // non-TOF normalisation data also for TOF emission data (apply() then uses it for every TOF position)
    shared_ptr<const ProjDataInfo> npdi = tofdata ? s.pdi->create_non_tof_clone() : shared_ptr<const ProjDataInfo>(s.pdi);
    shared_ptr<ProjDataInMemory> nd(new ProjDataInMemory(s.exam, npdi));
    nd->fill(1.F);
    for (int b = 0; b < nb; ++b) {
      Bin bin = s.bins[b];
      if (tofdata) { if (bin.timing_pos_num() != 0) continue; }
      bin.set_bin_value(nf[b]);
      nd->set_bin_value(bin);
    }
    norm.reset(new BinNormalisationFromProjData(nd));
  }
  shared_ptr<ProjMatrixByBinUsingRayTracing> pm = c03::make_matrix(c03::sw_from_bits(o.sw), s.ntl, o.cache, o.basic_only);
  shared_ptr<ProjectorByBinPair> pp(new ProjectorByBinPairUsingProjMatrixByBin(pm));

  Obj<OF> ob;
  ob.make(o.fill);
  OF& of = *ob.of;
  of.set_proj_data_sptr(yd);
  of.set_projector_pair_sptr(pp);
  of.set_additive_proj_data_sptr(ad);
  of.set_normalisation_sptr(norm);
  of.set_zero_seg0_end_planes(o.zero);
  of.set_max_segment_num_to_process(o.maxseg);
  of.set_use_subset_sensitivities(o.uss);
  of.set_num_subsets(o.N);
  of.set_use_tofsens(o.tofsens);
  of.set_recompute_sensitivity(true);

  const c03::Sw sw = c03::sw_from_bits(o.sw);
  tr.emit(vh::Json("Instance").num("sys", s.id).boolean("tof", tofdata).boolean("tofSensAsked", o.tofsens).arr("sw", c03::sw_list(sw))
              .boolean("cache", o.cache).boolean("basicOnly", o.basic_only).str("norm", o.norm == 0 ? "trivial" : "projdata")
              .boolean("zero", o.zero).num("maxSegAsked", o.maxseg).boolean("uss", o.uss).num("N", o.N).num("fill", o.fill)
              .arr("lam", lam).arr("x", x).arr("K", K).arr("a", a15).arr("r", r).arr("y", y).arr("ef", ef));
  std::string msg;
  bool ok = false;
  const bool err = vh::threw([&] { ok = of.set_up(lami) == Succeeded::yes; }, &msg);
  vh::Json js("SetUp");
  js.boolean("err", err).boolean("ok", ok).boolean("tofSens", of.get_use_tofsens()).num("maxSeg", of.get_max_segment_num_to_process());
  if (err) js.str("msg", msg.substr(0, 160));
  tr.emit(js);
  if (err || !ok) return;

  std::vector<Req> reqs;
  for (int sub = -1; sub < o.N; ++sub) {
    reqs.push_back(Req{ Value, sub, false });
    reqs.push_back(Req{ Grad, sub, false });
    reqs.push_back(Req{ Hess, sub, false });
    reqs.push_back(Req{ Sens, sub, false });
    if (sub >= 0) { reqs.push_back(Req{ GradPlusSens, sub, false }); reqs.push_back(Req{ AddSens, sub, false }); }
  }
  for (size_t i = reqs.size(); i > 1; --i) std::swap(reqs[i - 1], reqs[rng.next() % i]);
  shared_ptr<RecNorm> norec;
  for (const Req& q : reqs) do_request(tr, of, norec, q, *lami, *xi, rng, /*kImg*/ 12, /*kApprox*/ 10, /*kHess*/ 10);
}

// entry point (this file is #included by c05_poissonll.cxx: all C05 drivers form one translation unit, hence one
// executable with complete dependency tracking)
int entry(int argc, char** argv) {
  if (argc < 5) { fprintf(stderr, "usage: c05_realproj run <out.ndjson> <scratch-dir> <count>\n"); return 2; }
  const long count = atol(argv[4]);
  vh::Trace tr(argv[2]);
  vh::Rng rng(vh::seed_from_env());
  // systems: non-TOF with 1 and 2 tangential LORs per bin, TOF (3 positions, real kernel)
  std::vector<RealSys> sys;
  sys.push_back(make_real_sys(1, 1, false));
  sys.push_back(make_real_sys(2, 2, false));
  sys.push_back(make_real_sys(3, 1, true));
  static const int sws[] = { 31, 30, 28, 0, 31, 27 };   // all; no 90; no 90/180; none; all; no swap-segment
  static const int fills[] = { 0x00, 0xFF, 0x01 };
  long last = 0;
  for (long i = 0; i < count; ++i) {
    const RealSys& s = sys[i % 4 == 3 ? 2 : (i % 4 == 1 ? 1 : 0)];
    ROpts o;
    o.sw = sws[rng.range(0, 5)];
    o.cache = rng.range(0, 3) != 0;
    o.basic_only = rng.coin();
    o.zero = rng.coin();
    o.maxseg = rng.range(-1, 2);
    o.N = rng.range(1, 4);
    o.uss = o.N > 2 ? true : rng.coin();   // 3 or 4 subsets of 8 views are unbalanced under some symmetry settings: subset sensitivities
    o.norm = rng.range(0, 1);
    o.tofsens = s.pdi->is_tof_data() && rng.coin();
    o.fill = fills[i % 3];
    if (last != s.id) { tr.emit(s.sysjson); last = s.id; }
    run(tr, s, o, rng);
  }
  tr.emit(vh::Json("End").num("lines", tr.lines));
  return 0;
}
} // namespace c05real
