// C15 driver: rebinning (SSRB) and image zooming.  Drives the real STIR API and records; no expected
// value, no comparison, no property formula lives here — TLC (Trace_Rebin.tla / Trace_Zoom.tla) decides.
//
//   c15_rebin_zoom ssrb <out.ndjson> <runs> <stage> <scratch dir>   stage 0: sampled parameters, 1: every legal parameter set
//   c15_rebin_zoom zoom <out.ndjson> <runs> <stage>                 exact rational instances (encoding E/F)
//   c15_rebin_zoom zoomr <out.ndjson> <runs> <stage>                random dyadic images, zooms in [0.3,3] (relations between observations)
//
// Trace lines of one SSRB execution (Config ... End):
//   Config   the input geometry in the C01 shape (N R span maxDelta mash tofMash maxT minTang maxTang minSeg maxSeg + what the
//            real ProjDataInfo reports: numViews, segs [[seg,minRD,maxRD,minAx,maxAx]], minTof, maxTof), the SSRB parameters
//            (segComb viewComb trim maxSegArg tofComb), err (the info-constructing SSRB threw), and what the returned
//            ProjDataInfo reports (o*: oViews oMinTang oMaxTang oTofMash oMinTof oMaxTof oSegs, oM0 = m of axial position 0 of every
//            output segment and iM0 = the same of the input, in quarter ring spacings, with the largest residual in 1e-6 units)
//   Ev       ev: [[d1, r1, d2, r2, t, n], ...]     sparse detector-pair count data (n counts for the pair at unmashed timing position t)
//   Hist     which fine|coarse, route lm|set, nz: [[seg, ax, view, tang, tof, value*16], ...]   non-zero bins of the real histogram
//   Rebin    via mem|file|info, norm, nz: ...       non-zero bins of the real SSRB output
//   End
#include "vh_listmode.h"
#include "stir/listmode/LmToProjData.h"
#include "stir/ProjDataInMemory.h"
#include "stir/ProjDataInterfile.h"
#include "stir/ProjData.h"
#include "stir/ExamInfo.h"
#include "stir/SSRB.h"
#include "stir/inverse_SSRB.h"
#include "stir/interpolate_projdata.h"
#include "stir/numerics/BSplines.h"
#include "stir/ProjDataInfoCylindricalArcCorr.h"
#include "stir/Viewgram.h"
#include "stir/RelatedViewgrams.h"
#include "stir/TrivialDataSymmetriesForViewSegmentNumbers.h"
#include "stir/scatter/SingleScatterSimulation.h"
#include "stir/extend_projdata.h"
#include "stir/SegmentBySinogram.h"
#include "stir/Succeeded.h"
#include "stir/SegmentByView.h"
#include "stir/VoxelsOnCartesianGrid.h"
#include "stir/PixelsOnCartesianGrid.h"
#include "stir/IndexRange3D.h"
#include "stir/zoom.h"
#include "stir/ZoomOptions.h"
#include "stir/centre_of_gravity.h"
#include "stir/CartesianCoordinate3D.h"
#include <cstring>
#include <algorithm>
#include <cmath>
using namespace stir;

// other properties' hook sites: ignore
extern "C" void stir_verif_event(const char*, long, long, long, long) {}

// ================================================================== SSRB
struct Geo { int N, R, maxT, span, maxDelta, mash, tofMash, numTang, segReduce; };
struct Par { int segComb, viewComb, trim, maxSegArg, tofComb; };
struct Ev { int d1, r1, d2, r2, t, n; };

static shared_ptr<ProjDataInfo> make_info(const shared_ptr<Scanner>& sc, const Geo& g) {
  shared_ptr<ProjDataInfo> pdi = ProjDataInfo::construct_proj_data_info(sc, g.span, g.maxDelta, g.N / 2 / g.mash, g.numTang, false, g.tofMash);
  if (g.segReduce > 0 && pdi->get_max_segment_num() >= g.segReduce)
    pdi->reduce_segment_range(-(pdi->get_max_segment_num() - g.segReduce), pdi->get_max_segment_num() - g.segReduce);
  return pdi;
}

static std::vector<std::vector<int>> seg_table(const ProjDataInfo& pdi) {
  std::vector<std::vector<int>> segs;
  auto* cyl = dynamic_cast<const ProjDataInfoCylindrical*>(&pdi);
  for (int s = pdi.get_min_segment_num(); s <= pdi.get_max_segment_num(); ++s)
    segs.push_back({ s, cyl ? cyl->get_min_ring_difference(s) : 0, cyl ? cyl->get_max_ring_difference(s) : 0, pdi.get_min_axial_pos_num(s), pdi.get_max_axial_pos_num(s) });
  return segs;
}

// m of the first axial position of every segment in quarter ring spacings (rounded) and the largest residual in 1e-6 units
static std::vector<long long> m0_table(const ProjDataInfo& pdi, long long& maxres) {
  std::vector<long long> m0;
  auto* cyl = dynamic_cast<const ProjDataInfoCylindrical*>(&pdi);
  const double unit = cyl->get_ring_spacing() / 4.;
  for (int s = pdi.get_min_segment_num(); s <= pdi.get_max_segment_num(); ++s) {
    const double q = cyl->get_m(Bin(s, 0, pdi.get_min_axial_pos_num(s), 0)) / unit;
    const long long r = std::llround(q);
    m0.push_back(r);
    maxres = std::max(maxres, (long long)std::llround(std::fabs(q - r) * 1e6));
  }
  return m0;
}

static std::vector<std::vector<long long>> nonzero(const ProjData& pd) {
  std::vector<std::vector<long long>> nz;
  for (int k = pd.get_min_tof_pos_num(); k <= pd.get_max_tof_pos_num(); ++k)
    for (int s = pd.get_min_segment_num(); s <= pd.get_max_segment_num(); ++s) {
      const SegmentByView<float> seg = pd.get_segment_by_view(s, k);
      for (int v = seg.get_min_view_num(); v <= seg.get_max_view_num(); ++v)
        for (int a = seg.get_min_axial_pos_num(); a <= seg.get_max_axial_pos_num(); ++a)
          for (int tp = seg.get_min_tangential_pos_num(); tp <= seg.get_max_tangential_pos_num(); ++tp) {
            const float x = seg[v][a][tp];
            if (x != 0.F) nz.push_back({ s, a, v, tp, k, vh::fx(x, 4) });
          }
    }
  return nz;
}

// histogram the count data with the real code: through LmToProjData fed by the in-memory list-mode stream (route "lm"),
// or by ProjDataInMemory::set_bin_value on the bin found by get_bin_for_det_pos_pair (route "set")
static shared_ptr<ProjDataInMemory> histogram(const shared_ptr<Scanner>& sc, const Geo& g, const shared_ptr<ProjDataInfo>& templ,
                                              const std::vector<Ev>& evs, bool lm_route) {
  shared_ptr<ExamInfo> ei(new ExamInfo);
  ei->imaging_modality = ImagingModality::PT;
  shared_ptr<ProjDataInMemory> out(new ProjDataInMemory(ei, templ));
  if (lm_route) {
    std::vector<vh::LmRec> recs;
    recs.push_back(vh::LmRec::time(0));
    for (auto& e : evs)
      for (int i = 0; i < e.n; ++i) recs.push_back(vh::LmRec::prompt(e.d1, e.r1, e.d2, e.r2, e.t));
    recs.push_back(vh::LmRec::time(1000));
    shared_ptr<ProjDataInfo> lm_pdi = ProjDataInfo::construct_proj_data_info(sc, 1, g.R - 1, g.N / 2, g.N - 1, false, g.maxT > 0 ? 1 : 0);
    auto lm = std::make_shared<vh::VhListModeData<>>(lm_pdi, recs, false);
    LmToProjData l2p;
    l2p.set_input_data(lm);
    l2p.set_template_proj_data_info_sptr(templ);
    l2p.set_output_filename_prefix("c15-unused");
    shared_ptr<ProjData> outp = out;
    l2p.set_output_projdata_sptr(outp);
    l2p.set_store_prompts(true);
    l2p.set_store_delayeds(false);
    l2p.set_up();
    l2p.process_data();
  } else {
    auto* na = dynamic_cast<const ProjDataInfoCylindricalNoArcCorr*>(templ.get());
    for (auto& e : evs) {
      Bin bin;
      const DetectionPositionPair<> dp(DetectionPosition<>(e.d1, e.r1, 0), DetectionPosition<>(e.d2, e.r2, 0), e.t);
      if (na->get_bin_for_det_pos_pair(bin, dp) != Succeeded::yes) continue;
      // set_bin_value refuses bins outside the data (throws): such pairs are not covered by this geometry
      vh::threw([&] {
        bin.set_bin_value(0.F);
        const float old = out->get_bin_value(bin);
        bin.set_bin_value(old + (float)e.n);
        out->set_bin_value(bin);
      });
    }
  }
  return out;
}

static long g_cfg_id = 0;

static void run_ssrb(vh::Trace& tr, const Geo& g, const Par& p, const std::vector<Ev>& evs, int variant, const std::string& scratch, bool geometry_only = false) {
  shared_ptr<Scanner> sc = vh::make_scanner(g.N, g.R, g.maxT);
  shared_ptr<ProjDataInfo> in = make_info(sc, g);
  shared_ptr<ProjDataInfo> out;
  std::string msg;
  const bool err = vh::threw([&] { out.reset(SSRB(*in, p.segComb, p.viewComb, p.trim, p.maxSegArg, p.tofComb)); }, &msg);
  {
    vh::Json j("Config");
    j.num("id", ++g_cfg_id);
    j.str("name", "tiny").str("geom", "Cylindrical");
    j.num("N", g.N).num("R", g.R).num("maxT", g.maxT).num("span", g.span).boolean("ge", false).num("maxDelta", g.maxDelta)
        .num("mash", g.mash).num("tofMash", in->get_tof_mash_factor())
        .num("minTang", in->get_min_tangential_pos_num()).num("maxTang", in->get_max_tangential_pos_num())
        .num("minSeg", in->get_min_segment_num()).num("maxSeg", in->get_max_segment_num());
    j.num("numViews", in->get_num_views()).num("minView", in->get_min_view_num()).num("minTof", in->get_min_tof_pos_num()).num("maxTof", in->get_max_tof_pos_num())
        .arr2("segs", seg_table(*in));
    j.num("segComb", p.segComb).num("viewComb", p.viewComb).num("trim", p.trim).num("maxSegArg", p.maxSegArg).num("tofComb", p.tofComb);
    j.boolean("err", err);
    if (!err) {
      long long res = 0;
      j.num("oViews", out->get_num_views()).num("oMinView", out->get_min_view_num()).num("oMinTang", out->get_min_tangential_pos_num())
          .num("oMaxTang", out->get_max_tangential_pos_num()).num("oTofMash", out->get_tof_mash_factor())
          .num("oMinTof", out->get_min_tof_pos_num()).num("oMaxTof", out->get_max_tof_pos_num()).arr2("oSegs", seg_table(*out));
      j.arr("oM0", m0_table(*out, res)).arr("iM0", m0_table(*in, res)).num("mRes", res);
    } else
      j.str("msg", msg);
    tr.emit(j);
  }
  if (err || geometry_only) { tr.emit(vh::Json("End").boolean("err", false)); return; }
  {
    std::vector<std::vector<long long>> ee;
    for (auto& e : evs) ee.push_back({ e.d1, e.r1, e.d2, e.r2, e.t, e.n });
    tr.emit(vh::Json("Ev").arr2("ev", ee));
  }
  std::string emsg;
  const bool failed = vh::threw([&] {
    const bool lm_fine = (variant & 1) != 0, lm_coarse = (variant & 2) != 0;
    shared_ptr<ProjDataInMemory> fine = histogram(sc, g, in, evs, lm_fine);
    tr.emit(vh::Json("Hist").str("which", "fine").str("route", lm_fine ? "lm" : "set").arr2("nz", nonzero(*fine)));
    shared_ptr<ProjDataInMemory> coarse = histogram(sc, g, out, evs, lm_coarse);
    tr.emit(vh::Json("Hist").str("which", "coarse").str("route", lm_coarse ? "lm" : "set").arr2("nz", nonzero(*coarse)));
    {
      ProjDataInMemory reb(fine->get_exam_info_sptr(), out);
      SSRB(reb, *fine, false);
      tr.emit(vh::Json("Rebin").str("via", "mem").boolean("norm", false).arr2("nz", nonzero(reb)));
    }
    if (variant & 4) {
      // the overload that constructs the output geometry itself and writes Interfile projection data
      std::string fn = scratch + "/ssrb_out";
      SSRB(fn, *fine, p.segComb, p.viewComb, p.trim, false, p.maxSegArg, p.tofComb);
      shared_ptr<ProjData> back = ProjData::read_from_file(scratch + "/ssrb_out.hs");
      tr.emit(vh::Json("Rebin").str("via", "file").boolean("norm", false).arr2("nz", nonzero(*back)));
    }
    if (variant & 8) {
      // normalised rebinning (documented: divided by the number of contributing input sinograms times views combined)
      ProjDataInMemory reb(fine->get_exam_info_sptr(), out);
      SSRB(reb, *fine, true);
      std::vector<std::vector<long long>> nz;
      // value * 16 * 45 (denominators 1..6, 9, 15 divide 720)
      for (int k = reb.get_min_tof_pos_num(); k <= reb.get_max_tof_pos_num(); ++k)
        for (int s = reb.get_min_segment_num(); s <= reb.get_max_segment_num(); ++s) {
          const SegmentByView<float> seg = reb.get_segment_by_view(s, k);
          for (int v = seg.get_min_view_num(); v <= seg.get_max_view_num(); ++v)
            for (int a = seg.get_min_axial_pos_num(); a <= seg.get_max_axial_pos_num(); ++a)
              for (int tp = seg.get_min_tangential_pos_num(); tp <= seg.get_max_tangential_pos_num(); ++tp) {
                const float x = seg[v][a][tp];
                if (x != 0.F) nz.push_back({ s, a, v, tp, k, (long long)std::llround((double)x * 720.) });
              }
        }
      tr.emit(vh::Json("Rebin").str("via", "mem").boolean("norm", true).arr2("nz", nz));
    }
  }, &emsg);
  vh::Json e("End");
  e.boolean("err", failed);
  if (failed) e.str("msg", emsg);
  tr.emit(e);
}

static std::vector<Ev> random_events(vh::Rng& rng, const Geo& g, int n) {
  std::vector<Ev> evs;
  for (int i = 0; i < n; ++i) {
    Ev e;
    e.d1 = rng.range(0, g.N - 1);
    if (rng.range(0, 3) == 0) { e.d2 = rng.range(0, g.N - 2); if (e.d2 >= e.d1) ++e.d2; }
    else {
      // roughly opposite detectors: tangential positions near (and a little beyond) the range of the data
      const int w = g.numTang / 2 + 2;
      e.d2 = ((e.d1 + g.N / 2 + rng.range(-w, w)) % g.N + g.N) % g.N;
      if (e.d2 == e.d1) e.d2 = (e.d1 + g.N / 2) % g.N;
    }
    e.r1 = rng.range(0, g.R - 1); e.r2 = rng.range(0, g.R - 1);
    e.t = 0;
    if (g.maxT > 0) { const int h = g.maxT / 2 + (rng.range(0, 5) == 0 ? 1 : 0); e.t = rng.range(-h, h); }
    e.n = rng.range(0, 3) == 0 ? rng.range(2, 5) : 1;
    evs.push_back(e);
  }
  return evs;
}

static Geo random_geo(vh::Rng& rng, int stage) {
  Geo g;
  g.N = rng.pick(stage ? std::vector<int>{ 4, 6, 8, 8, 12, 12, 16 } : std::vector<int>{ 4, 6, 8, 8, 12 });
  g.R = rng.pick(stage ? std::vector<int>{ 1, 2, 3, 4, 5, 6, 7 } : std::vector<int>{ 2, 3, 4, 5, 6 });
  const int tofkind = rng.range(0, 7);       // 0..2: non-TOF
  static const int MT[8] = { 0, 0, 0, 5, 9, 9, 15, 7 }, TM[8] = { 0, 0, 0, 1, 1, 3, 1, 1 };
  g.maxT = MT[tofkind]; g.tofMash = TM[tofkind];
  if (tofkind == 6 && rng.coin()) g.tofMash = rng.coin() ? 3 : 5;
  // span: odd (CTI); the last segment is never truncated to a single ring difference (configuration class of C01-truncseg)
  std::vector<std::pair<int, int>> sd;   // (span, maxDelta)
  for (int d = 0; d <= g.R - 1; ++d) sd.push_back({ 1, d });
  for (int i = 0; i < 3; ++i) sd.push_back({ 1, g.R - 1 });
  for (int span : { 3, 5 })
    for (int d = (span - 1) / 2; d <= g.R - 1; ++d) {
      const int k = (d - (span - 1) / 2) % span;      // ring differences in the last segment (0 = complete)
      if (k == 1) continue;                            // truncated to a single ring difference
      sd.push_back({ span, d });
      if (k == 0) sd.push_back({ span, d });
    }
  // even spans (segment 0 gets span + 1 ring differences): complete segments only
  for (int span : { 2, 4 })
    for (int k = 0; span / 2 + k * span <= g.R - 1; ++k) sd.push_back({ span, span / 2 + k * span });
  auto p = rng.pick(sd); g.span = p.first; g.maxDelta = p.second;
  std::vector<int> ms{ 1, 1 };
  for (int m : { 2, 3 }) if ((g.N / 2) % m == 0) ms.push_back(m);
  g.mash = rng.pick(ms);
  g.numTang = rng.range(0, 2) ? g.N - 1 : rng.range(2, g.N - 2);
  g.segReduce = rng.range(0, 4) == 0 ? 1 : 0;
  return g;
}

// every legal parameter set for this input geometry (plus the trimming variants)
static std::vector<Par> legal_params(const Geo& g, const ProjDataInfo& in) {
  std::vector<Par> ps;
  const int maxSeg = in.get_max_segment_num(), nv = in.get_num_views();
  for (int sc = 1; sc <= 2 * maxSeg + 1; sc += 2)
    for (int vc = 1; vc <= nv; ++vc) {
      if (nv % vc) continue;
      for (int tc = 1; tc <= std::max(1, g.maxT); ++tc) {
        if (g.maxT == 0 && tc > 1) break;
        if (tc > 1) {
          const int m = g.tofMash * tc;
          if (m > g.maxT || (g.maxT / m) % 2 == 0) continue;
        }
        for (int ms = -1; ms <= maxSeg; ++ms) {
          if (ms >= 0 && ms < sc / 2) continue;
          // even spans: unequal segments can only be kept or all combined into one
          if (g.span % 2 == 0 && sc > 1 && ((ms < 0 ? maxSeg : ms) - sc / 2) / sc > 0) continue;
          for (int trim : { 0, 1, 2, -2 }) {
            if (in.get_num_tangential_poss() - trim < 1) continue;
            // the scanner cannot have more tangential positions than this
            if (in.get_num_tangential_poss() - trim > in.get_scanner_ptr()->get_max_num_non_arccorrected_bins()) continue;
            ps.push_back({ sc, vc, trim, ms, tc });
          }
        }
      }
    }
  return ps;
}

static void mode_ssrb(vh::Trace& tr, long runs, int stage, vh::Rng& rng, const std::string& scratch) {
  for (long run = 0; run < runs; ++run) {
    Geo g = random_geo(rng, stage);
    shared_ptr<Scanner> sc = vh::make_scanner(g.N, g.R, g.maxT);
    shared_ptr<ProjDataInfo> in = make_info(sc, g);
    std::vector<Par> ps = legal_params(g, *in);
    // stage 0: a sample of the legal parameter sets of this scanner; stage 1: all of them
    std::vector<Par> chosen;
    if (stage >= 1 && run % 3 == 0) chosen = ps;
    else {
      const int k = stage ? 12 : 5;
      for (int i = 0; i < k && !ps.empty(); ++i) chosen.push_back(ps[rng.next() % ps.size()]);
    }
    const size_t nlegal = chosen.size();
    if (run % 6 == 5) {
      // parameters the documentation declares illegal: the info-constructing SSRB must refuse them
      chosen.push_back({ 2, 1, 0, -1, 1 });
      chosen.push_back({ 1, 1, 0, in->get_max_segment_num() + 1, 1 });
      chosen.push_back({ 1, 1, in->get_num_tangential_poss(), -1, 1 });
      if (g.maxT > 0) chosen.push_back({ 1, 1, 0, -1, 0 });
      // fewer segments allowed than one group needs ("max_in_segment_num_to_process is too small. No output segments")
      if (in->get_max_segment_num() >= 1) chosen.push_back({ 3, 1, 0, 0, 1 });
      if (in->get_max_segment_num() >= 2) chosen.push_back({ 5, 1, 0, 1, 1 });
    }
    size_t idx = 0;
    for (auto& p : chosen) {
      const bool geometry_only = idx++ >= nlegal;
      const int nev = rng.range(1, stage ? 60 : 40);
      std::vector<Ev> evs = random_events(rng, g, nev);
      int variant = rng.range(0, 3);
      // the file route: not for TOF-capable scanners mashed to a single TOF bin (projection-data IO finding C02-tof1hdr)
      const bool one_tof_bin = g.maxT > 0 && g.tofMash * p.tofComb * 2 > g.maxT;
      if (!scratch.empty() && rng.range(0, 7) == 0 && !one_tof_bin) variant |= 4;
      if (rng.range(0, 5) == 0) variant |= 8;
      run_ssrb(tr, g, p, evs, variant, scratch, geometry_only);
    }
  }
}

// ================================================================== zoom
// Trace lines of the exact instances (mode zoom; one instance = ZIn, ZOut*):
//   ZIn    lo hi [z,y,x] index range of the input image; P Q per axis (zoom = P/Q); oi: input origin, o: requested offsets, both in
//          QUARTER input voxels; n: new sizes; opt 0 preserve_sum, 1 preserve_values, 2 preserve_projections; vals: the (integer) voxel
//          values, z-major; cog: find_centre_of_gravity_in_mm of the input in units u = input voxel / (4P) per axis, times 2^8 (when sum > 0)
//   ZOut   call: zoom3 | zoom3_inplace | into | axes | zoom2 | zoom2_inplace; err; lo hi of the result, org: its origin in units u (rounded),
//          vox: its voxel sizes in units u (rounded), res: largest rounding residual of org/vox in 1e-6 units; vals: voxel values * 2^8
//          (rounded); cog of the result (units u * 2^8) when sum > 0
// Random instances (mode zoomr; RIn, ROut*): the same with lengths in mm * 2^10 (org, vox, off, cog), zooms * 2^16 (zf), voxel values * 2^8
//   (inputs are dyadic: exact), ubox: index box [lo3, hi3] in which the input is the constant uval.
typedef VoxelsOnCartesianGrid<float> Image;

struct ZCase {
  int lo[3], hi[3];          // input index range (z, y, x)
  float vox[3], org[3];      // input voxel size / origin in mm
  float zoom[3], off[3];     // requested zooms and offsets (mm)
  int n[3];                  // new sizes
  int opt;
  bool two_d_ok;             // the parameters can be passed to the (zoom, x_offset, y_offset, new_size) overloads
};

static Image make_image(const ZCase& c) {
  return Image(IndexRange3D(c.lo[0], c.hi[0], c.lo[1], c.hi[1], c.lo[2], c.hi[2]), CartesianCoordinate3D<float>(c.org[0], c.org[1], c.org[2]),
               CartesianCoordinate3D<float>(c.vox[0], c.vox[1], c.vox[2]));
}
static ZoomOptions zopt(int o) { return ZoomOptions(o == 0 ? ZoomOptions::preserve_sum : o == 1 ? ZoomOptions::preserve_values : ZoomOptions::preserve_projections); }

template <class F> static void for_voxels(const Image& im, F f) {
  for (int z = im.get_min_z(); z <= im.get_max_z(); ++z)
    for (int y = im[z].get_min_index(); y <= im[z].get_max_index(); ++y)
      for (int x = im[z][y].get_min_index(); x <= im[z][y].get_max_index(); ++x) f(z, y, x);
}

// the calls under test; returns false when the variant does not apply
static bool run_variant(const std::string& call, const ZCase& c, const Image& in, const Image* first, Image& res) {
  const CartesianCoordinate3D<float> zooms(c.zoom[0], c.zoom[1], c.zoom[2]), offs(c.off[0], c.off[1], c.off[2]);
  const BasicCoordinate<3, int> sizes = make_coordinate(c.n[0], c.n[1], c.n[2]);
  const ZoomOptions o = zopt(c.opt);
  if (call == "zoom3") res = zoom_image(in, zooms, offs, sizes, o);
  else if (call == "zoom3_inplace") { res = in; zoom_image_in_place(res, zooms, offs, sizes, o); }
  else if (call == "into") {
    // two steps: an image with the geometry of the first result (filled with rubbish), then zoom_image(out, in)
    if (!first) return false;
    BasicCoordinate<3, int> mn, mx;
    first->get_regular_range(mn, mx);
    res = Image(IndexRange3D(mn[1], mx[1], mn[2], mx[2], mn[3], mx[3]), first->get_origin(), first->get_voxel_size());
    res.fill(7.F);
    zoom_image(res, in, o);
  } else if (call == "axes") {
    // one axis at a time: x, then y, then z
    const int lz = in.get_z_size(), ly = in.get_y_size();
    Image a = zoom_image(in, CartesianCoordinate3D<float>(1.F, 1.F, c.zoom[2]), CartesianCoordinate3D<float>(0.F, 0.F, c.off[2]), make_coordinate(lz, ly, c.n[2]), o);
    Image b = zoom_image(a, CartesianCoordinate3D<float>(1.F, c.zoom[1], 1.F), CartesianCoordinate3D<float>(0.F, c.off[1], 0.F), make_coordinate(lz, c.n[1], c.n[2]), o);
    res = zoom_image(b, CartesianCoordinate3D<float>(c.zoom[0], 1.F, 1.F), CartesianCoordinate3D<float>(c.off[0], 0.F, 0.F), sizes, o);
  } else if (call == "zoom2") {
    if (!c.two_d_ok) return false;
    res = zoom_image(in, c.zoom[2], c.off[2], c.off[1], c.n[2], o);
  } else if (call == "zoom2_inplace") {
    if (!c.two_d_ok) return false;
    res = in;
    zoom_image_in_place(res, c.zoom[2], c.off[2], c.off[1], c.n[2], o);
  } else
    return false;
  return true;
}

static const char* const CALLS[] = { "zoom3", "zoom3_inplace", "into", "axes", "zoom2", "zoom2_inplace" };

// ---------------------------------------------------------------- exact instances
static void mode_zoom(vh::Trace& tr, long runs, int stage, vh::Rng& rng) {
  static const int PQ[7][2] = { { 1, 3 }, { 1, 2 }, { 2, 3 }, { 1, 1 }, { 3, 2 }, { 2, 1 }, { 3, 1 } };
  for (long run = 0; run < runs; ++run) {
    ZCase c;
    int P[3], Q[3], oi[3], o[3];
    const bool two_d = run % 3 == 0;                  // parameters of the transaxial-only overloads
    for (int a = 0; a < 3; ++a) {
      const int z = rng.range(0, 6);
      P[a] = PQ[z][0]; Q[a] = PQ[z][1];
    }
    if (two_d) { P[0] = Q[0] = 1; P[1] = P[2]; Q[1] = Q[2]; }
    const bool shift_only = run % 5 == 4;            // zoom 1 along every axis, fractional offsets
    if (shift_only) for (int a = 0; a < 3; ++a) P[a] = Q[a] = 1;
    const int maxn = stage ? 6 : 5;
    for (int a = 0; a < 3; ++a) {
      const int len = a == 0 ? rng.range(1, stage ? 4 : 3) : rng.range(2, maxn);
      // standard index ranges (z from 0, y and x from -(len/2)), sometimes shifted (not for the transaxial-only overloads)
      c.lo[a] = a == 0 ? 0 : -(len / 2);
      if (!two_d && rng.range(0, 3) == 0) c.lo[a] += rng.range(-2, 2);
      c.hi[a] = c.lo[a] + len - 1;
      // voxel sizes for which input voxel / (4P) and output voxel are dyadic
      static const float V3[4] = { 3.F, 1.5F, 6.F, 0.75F }, V12[5] = { 1.F, 2.F, 4.F, 0.5F, 3.F };
      c.vox[a] = P[a] == 3 ? V3[rng.range(0, 3)] : V12[rng.range(0, 4)];
      oi[a] = rng.range(0, 2) == 0 ? 0 : rng.range(-6, 6);
      o[a] = rng.range(0, 3) == 0 ? 0 : rng.range(-6, 6);
      if (shift_only) o[a] = rng.pick(std::vector<int>{ 1, 2, 3, 5, 6, -1, -2, -3, -5, -7 });
      c.zoom[a] = (float)P[a] / (float)Q[a];
      // new size: about the size that represents the same amount of data, sometimes less (truncation) or more (zero filling)
      const int same = (len * P[a] + Q[a] - 1) / Q[a];
      c.n[a] = std::max(1, same + rng.pick(std::vector<int>{ 0, 0, 1, 2, 3, -1, -2 }));
    }
    if (two_d) {
      c.vox[1] = c.vox[2]; c.hi[1] = c.lo[1] + (c.hi[2] - c.lo[2]); c.lo[1] = c.lo[2]; c.hi[1] = c.hi[2];
      o[0] = 0; c.n[0] = 1; c.n[1] = c.n[2];
      c.n[0] = c.hi[0] - c.lo[0] + 1;
    }
    for (int a = 0; a < 3; ++a) { c.org[a] = oi[a] * c.vox[a] / 4.F; c.off[a] = o[a] * c.vox[a] / 4.F; }
    c.opt = rng.range(0, 2);
    c.two_d_ok = two_d;
    Image in = make_image(c);
    std::vector<long long> vals;
    const int kind = rng.range(0, 3);                 // 0: dense, 1: sparse, 2: constant, 3: constant box in zeros
    const int cv = rng.range(1, 15);
    for_voxels(in, [&](int z, int y, int x) {
      int v = 0;
      if (kind == 0) v = rng.range(0, 15);
      else if (kind == 1) v = rng.range(0, 3) == 0 ? rng.range(1, 15) : 0;
      else if (kind == 2) v = cv;
      else v = (y > c.lo[1] && y < c.hi[1] && x > c.lo[2] && x < c.hi[2]) ? cv : 0;
      in[z][y][x] = (float)v;
      vals.push_back(v);
    });
    double u[3];
    for (int a = 0; a < 3; ++a) u[a] = (double)c.vox[a] / (4. * P[a]);
    {
      vh::Json j("ZIn");
      j.num("id", run + 1).arr("lo", std::vector<int>(c.lo, c.lo + 3)).arr("hi", std::vector<int>(c.hi, c.hi + 3)).arr("P", std::vector<int>(P, P + 3))
          .arr("Q", std::vector<int>(Q, Q + 3)).arr("oi", std::vector<int>(oi, oi + 3)).arr("o", std::vector<int>(o, o + 3))
          .arr("n", std::vector<int>(c.n, c.n + 3)).num("opt", c.opt).boolean("twoD", two_d).arr("vals", vals);
      const bool pos = in.sum() > 0.F;
      j.boolean("pos", pos);
      if (pos) {
        const CartesianCoordinate3D<float> g = find_centre_of_gravity_in_mm(in);
        j.arr("cog", std::vector<long long>{ vh::fx(g.z() / u[0], 8), vh::fx(g.y() / u[1], 8), vh::fx(g.x() / u[2], 8) });
      }
      tr.emit(j);
    }
    Image first;
    bool have_first = false;
    for (const char* call : CALLS) {
      Image res;
      bool applies = true;
      std::string msg;
      const bool err = vh::threw([&] { applies = run_variant(call, c, in, have_first ? &first : nullptr, res); }, &msg);
      if (!applies) continue;
      vh::Json j("ZOut");
      j.str("call", call).boolean("err", err);
      if (err) { j.str("msg", msg); tr.emit(j); continue; }
      if (!have_first) { first = res; have_first = true; }
      BasicCoordinate<3, int> mn, mx;
      res.get_regular_range(mn, mx);
      long long res6 = 0;
      std::vector<long long> org, vox;
      for (int a = 0; a < 3; ++a) {
        const double q1 = res.get_origin()[a + 1] / u[a], q2 = res.get_voxel_size()[a + 1] / u[a];
        org.push_back(std::llround(q1)); vox.push_back(std::llround(q2));
        res6 = std::max(res6, (long long)std::llround(std::max(std::fabs(q1 - std::llround(q1)), std::fabs(q2 - std::llround(q2))) * 1e6));
      }
      std::vector<long long> ov;
      for_voxels(res, [&](int z, int y, int x) { ov.push_back(vh::fx(res[z][y][x], 8)); });
      j.arr("lo", std::vector<int>{ mn[1], mn[2], mn[3] }).arr("hi", std::vector<int>{ mx[1], mx[2], mx[3] }).arr("org", org).arr("vox", vox).num("res", res6)
          .arr("vals", ov);
      const bool pos = res.sum() > 0.F;
      j.boolean("pos", pos);
      if (pos) {
        const CartesianCoordinate3D<float> g = find_centre_of_gravity_in_mm(res);
        j.arr("cog", std::vector<long long>{ vh::fx(g.z() / u[0], 8), vh::fx(g.y() / u[1], 8), vh::fx(g.x() / u[2], 8) });
      }
      tr.emit(j);
    }
  }
}

// ---------------------------------------------------------------- random dyadic images, zooms in [0.3, 3]
static void mode_zoomr(vh::Trace& tr, long runs, int stage, vh::Rng& rng) {
  for (long run = 0; run < runs; ++run) {
    ZCase c;
    const bool two_d = run % 3 == 0;
    int ulo[3], uhi[3];
    for (int a = 0; a < 3; ++a) {
      const int len = a == 0 ? rng.range(1, stage ? 5 : 4) : rng.range(3, stage ? 9 : 7);
      c.lo[a] = a == 0 ? 0 : -(len / 2);
      if (!two_d && rng.range(0, 3) == 0) c.lo[a] += rng.range(-2, 2);
      c.hi[a] = c.lo[a] + len - 1;
      c.vox[a] = rng.range(4, 16) / 4.F;                                   // 1 .. 4 mm in steps of 1/4
      c.org[a] = rng.range(0, 2) == 0 ? 0.F : rng.range(-40, 40) / 8.F;
      // zoom in [0.3, 3]: a random float (27 .. 300 hundredths, perturbed in the low bits), sometimes exactly 1
      c.zoom[a] = rng.range(0, 6) == 0 ? 1.F : (float)((rng.range(30, 300) + rng.range(0, 999) / 1000.) / 100.);
      if (c.zoom[a] > 3.F) c.zoom[a] = 3.F;
      if (c.zoom[a] < 0.3F) c.zoom[a] = 0.3F;
      c.off[a] = rng.range(0, 2) == 0 ? 0.F : rng.range(-12, 12) * c.vox[a] / 8.F;
      if (run % 5 == 4) { c.zoom[a] = 1.F; c.off[a] = rng.pick(std::vector<int>{ 1, 2, 3, 5, 7, -1, -3, -5, -6 }) * c.vox[a] / 8.F; }   // shift only
      // a box of constant value inside the image
      ulo[a] = c.lo[a] + (len >= 3 ? rng.range(0, 1) : 0);
      uhi[a] = c.hi[a] - (len >= 3 ? rng.range(0, 1) : 0);
    }
    if (two_d) {
      c.zoom[0] = 1.F; c.off[0] = 0.F; c.zoom[1] = c.zoom[2]; c.vox[1] = c.vox[2];
      c.lo[1] = c.lo[2]; c.hi[1] = c.hi[2]; ulo[1] = std::max(ulo[1], c.lo[1]); uhi[1] = std::min(uhi[1], c.hi[1]);
      if (ulo[1] > uhi[1]) { ulo[1] = c.lo[1]; uhi[1] = c.hi[1]; }
    }
    for (int a = 0; a < 3; ++a) {
      const int len = c.hi[a] - c.lo[a] + 1;
      // enough voxels to cover the shifted image (mostly), sometimes fewer
      const int need = (int)std::ceil(len * c.zoom[a] + 2 * std::fabs(c.off[a]) / (c.vox[a] / c.zoom[a])) + 1;
      c.n[a] = std::max(1, rng.range(0, 4) == 0 ? need - rng.range(1, 4) : need + rng.range(0, 2));
      c.n[a] = std::min(c.n[a], 30);
    }
    if (two_d) { c.n[0] = c.hi[0] - c.lo[0] + 1; c.n[1] = c.n[2]; }
    c.opt = rng.range(0, 2);
    c.two_d_ok = two_d;
    Image in = make_image(c);
    const int kind = rng.range(0, 2);                 // 0: box of constant value in random values, 1: box in zeros, 2: random, zero border
    const float uval = rng.range(1, 255) / 16.F;
    std::vector<long long> vals;
    for_voxels(in, [&](int z, int y, int x) {
      const bool inbox = z >= ulo[0] && z <= uhi[0] && y >= ulo[1] && y <= uhi[1] && x >= ulo[2] && x <= uhi[2];
      float v;
      if (kind == 2) v = inbox ? rng.range(0, 255) / 16.F : 0.F;
      else if (inbox) v = uval;
      else v = kind == 0 ? rng.range(0, 255) / 16.F : 0.F;
      in[z][y][x] = v;
      vals.push_back(vh::fx(v, 8));
    });
    {
      vh::Json j("RIn");
      std::vector<long long> org, vox, off, zf;
      for (int a = 0; a < 3; ++a) { org.push_back(vh::fx(c.org[a], 10)); vox.push_back(vh::fx(c.vox[a], 10)); off.push_back(vh::fx(c.off[a], 10)); zf.push_back(vh::fx(c.zoom[a], 16)); }
      j.num("id", run + 1).arr("lo", std::vector<int>(c.lo, c.lo + 3)).arr("hi", std::vector<int>(c.hi, c.hi + 3)).arr("org", org).arr("vox", vox).arr("off", off)
          .arr("zf", zf).arr("n", std::vector<int>(c.n, c.n + 3)).num("opt", c.opt).boolean("twoD", two_d).arr("vals", vals)
          .boolean("hasBox", kind != 2).arr("ulo", std::vector<int>(ulo, ulo + 3)).arr("uhi", std::vector<int>(uhi, uhi + 3)).num("uval", vh::fx(uval, 8));
      const bool pos = in.sum() > 0.F;
      j.boolean("pos", pos);
      if (pos) {
        const CartesianCoordinate3D<float> g = find_centre_of_gravity_in_mm(in);
        j.arr("cog", std::vector<long long>{ vh::fx(g.z(), 10), vh::fx(g.y(), 10), vh::fx(g.x(), 10) });
      }
      tr.emit(j);
    }
    Image first;
    bool have_first = false;
    for (const char* call : CALLS) {
      Image res;
      bool applies = true;
      std::string msg;
      const bool err = vh::threw([&] { applies = run_variant(call, c, in, have_first ? &first : nullptr, res); }, &msg);
      if (!applies) continue;
      vh::Json j("ROut");
      j.str("call", call).boolean("err", err);
      if (err) { j.str("msg", msg); tr.emit(j); continue; }
      if (!have_first) { first = res; have_first = true; }
      BasicCoordinate<3, int> mn, mx;
      res.get_regular_range(mn, mx);
      std::vector<long long> org, vox, ov;
      for (int a = 0; a < 3; ++a) { org.push_back(vh::fx(res.get_origin()[a + 1], 10)); vox.push_back(vh::fx(res.get_voxel_size()[a + 1], 10)); }
      for_voxels(res, [&](int z, int y, int x) { ov.push_back(vh::fx(res[z][y][x], 8)); });
      j.arr("lo", std::vector<int>{ mn[1], mn[2], mn[3] }).arr("hi", std::vector<int>{ mx[1], mx[2], mx[3] }).arr("org", org).arr("vox", vox).arr("vals", ov);
      const bool pos = res.sum() > 0.F;
      j.boolean("pos", pos);
      if (pos) {
        const CartesianCoordinate3D<float> g = find_centre_of_gravity_in_mm(res);
        j.arr("cog", std::vector<long long>{ vh::fx(g.z(), 10), vh::fx(g.y(), 10), vh::fx(g.x(), 10) });
      }
      tr.emit(j);
    }
  }
}

// ================================================================== inverse_SSRB, extend_segment, downsample_scanner
// Self-contained trace lines (mode maps):
//   Inv   geometry of the output (4D: N R maxT span maxDelta mash tofMash minTang maxTang minSeg maxSeg) and of the input (3D: span3
//         maxDelta3 minSeg3 maxSeg3, rest shared), how the 3D geometry was made (kind), nz3: sparse integer input
//         [[seg, ax, view, tang, tof, value]], ok (inverse_SSRB returned Succeeded::yes), nz: non-zero bins of the result, value * 16
//   Ext   segment 0 of data with nv views, axial positions minAx..maxAx, tangential positions minT..maxT; ext [view, axial, tangential];
//         in: values axial-major [ax][view][tang]; lo/hi: index range of the returned array [ax, view, tang]; out: its values
//   Down  template geometry, requested rings / detectors, what ScatterSimulation::downsample_scanner made of it
static void geo4_fields(vh::Json& j, const Geo& g, const ProjDataInfo& pdi) {
  j.num("N", g.N).num("R", g.R).num("maxT", g.maxT).num("span", g.span).boolean("ge", false).num("maxDelta", g.maxDelta)
      .num("mash", g.mash).num("tofMash", pdi.get_tof_mash_factor()).num("minTang", pdi.get_min_tangential_pos_num())
      .num("maxTang", pdi.get_max_tangential_pos_num()).num("minSeg", pdi.get_min_segment_num()).num("maxSeg", pdi.get_max_segment_num());
}

static void mode_inv(vh::Trace& tr, long runs, int stage, vh::Rng& rng) {
  shared_ptr<ExamInfo> ei(new ExamInfo);
  ei->imaging_modality = ImagingModality::PT;
  for (long run = 0; run < runs; ++run) {
    Geo g = random_geo(rng, stage);
    if (g.span % 2 == 0) g.span += 1, g.maxDelta = std::max(g.maxDelta, (g.span - 1) / 2);
    if (g.maxDelta > g.R - 1 || g.span > 2 * g.R - 1) { g.span = 1; g.maxDelta = g.R - 1; }
    if (g.span > 1 && (g.maxDelta - (g.span - 1) / 2) % g.span == 1) g.maxDelta -= 1;
    shared_ptr<Scanner> sc = vh::make_scanner(g.N, g.R, g.maxT);
    shared_ptr<ProjDataInfo> info4 = make_info(sc, g);
    // the 2D / 3D input: direct uncompressed sinograms, the same with oblique segments (ignored), span 3 segment 0, or what SSRB makes
    const int kind = rng.range(0, 3);
    Geo g3 = g;
    g3.segReduce = 0;
    shared_ptr<ProjDataInfo> info3;
    if (kind == 0) { g3.span = 1; g3.maxDelta = 0; info3 = make_info(sc, g3); }
    else if (kind == 1) { g3.span = 1; g3.maxDelta = g.R - 1; info3 = make_info(sc, g3); }
    else if (kind == 2 && g.R >= 2) { g3.span = 3; g3.maxDelta = 1; info3 = make_info(sc, g3); }
    else { info3.reset(SSRB(*info4, 2 * info4->get_max_segment_num() + 1, 1, 0, -1, 1)); g3.span = -1; g3.maxDelta = -1; }
    auto* cyl3 = dynamic_cast<const ProjDataInfoCylindrical*>(info3.get());
    ProjDataInMemory in3(ei, info3), out4(ei, info4);
    std::vector<std::vector<long long>> nz3;
    const int nfill = rng.range(1, stage ? 25 : 12);
    for (int i = 0; i < nfill; ++i) {
      Bin b;
      b.segment_num() = rng.range(0, 3) ? 0 : rng.range(info3->get_min_segment_num(), info3->get_max_segment_num());
      b.axial_pos_num() = rng.range(info3->get_min_axial_pos_num(b.segment_num()), info3->get_max_axial_pos_num(b.segment_num()));
      b.view_num() = rng.range(0, info3->get_num_views() - 1);
      b.tangential_pos_num() = rng.range(info3->get_min_tangential_pos_num(), info3->get_max_tangential_pos_num());
      b.timing_pos_num() = rng.range(info3->get_min_tof_pos_num(), info3->get_max_tof_pos_num());
      if (in3.get_bin_value(b) != 0.F) continue;
      const int v = rng.range(1, 9);
      b.set_bin_value((float)v);
      in3.set_bin_value(b);
      nz3.push_back({ b.segment_num(), b.axial_pos_num(), b.view_num(), b.tangential_pos_num(), b.timing_pos_num(), v });
    }
    bool ok = false;
    std::string msg;
    const bool err = vh::threw([&] { ok = inverse_SSRB(out4, in3) == Succeeded::yes; }, &msg);
    vh::Json j("Inv");
    geo4_fields(j, g, *info4);
    j.num("kind", kind).num("span3", cyl3->get_max_ring_difference(0) - cyl3->get_min_ring_difference(0) + 1)
        .num("maxDelta3", cyl3->get_max_ring_difference(info3->get_max_segment_num())).num("minSeg3", info3->get_min_segment_num())
        .num("maxSeg3", info3->get_max_segment_num()).num("numAx3", info3->get_num_axial_poss(0));
    j.arr2("nz3", nz3).boolean("err", err).boolean("ok", ok);
    if (!err) j.arr2("nz", nonzero(out4));
    else j.str("msg", msg);
    tr.emit(j);
  }
}

static void mode_ext(vh::Trace& tr, long runs, int stage, vh::Rng& rng) {
  for (long run = 0; run < runs; ++run) {
    Geo g = random_geo(rng, stage);
    g.maxT = 0; g.tofMash = 0; g.segReduce = 0;
    // at least 6 views (extend_segment takes 180 degree data with fewer than 5 views for 360 degree data)
    if (g.N / 2 / g.mash < 6) g.mash = 1;
    if (g.N / 2 / g.mash < 6) { g.N = rng.coin() ? 12 : 16; g.numTang = std::min(g.numTang, g.N - 1); }
    shared_ptr<Scanner> sc = vh::make_scanner(g.N, g.R, 0);
    shared_ptr<ProjDataInfo> info = make_info(sc, g);
    SegmentBySinogram<float> seg = info->get_empty_segment_by_sinogram(0);
    std::vector<long long> in;
    for (int a = seg.get_min_axial_pos_num(); a <= seg.get_max_axial_pos_num(); ++a)
      for (int v = seg.get_min_view_num(); v <= seg.get_max_view_num(); ++v)
        for (int t = seg.get_min_tangential_pos_num(); t <= seg.get_max_tangential_pos_num(); ++t) {
          const int x = rng.range(1, 99);
          seg[a][v][t] = (float)x;
          in.push_back(x);
        }
    const int nv = info->get_num_views();
    const int ev = rng.range(0, std::min(nv, stage ? 5 : 3)), ea = rng.range(0, 3), et = rng.range(0, 3);
    Array<3, float> out;
    std::string msg;
    const bool err = vh::threw([&] { out = extend_segment(seg, ev, ea, et); }, &msg);
    vh::Json j("Ext");
    j.num("N", g.N).num("nv", nv).num("minAx", seg.get_min_axial_pos_num()).num("maxAx", seg.get_max_axial_pos_num())
        .num("minT", seg.get_min_tangential_pos_num()).num("maxT", seg.get_max_tangential_pos_num())
        .arr("ext", std::vector<int>{ ev, ea, et }).arr("in", in).boolean("err", err);
    if (!err) {
      BasicCoordinate<3, int> mn, mx;
      const bool regular = out.get_regular_range(mn, mx);
      std::vector<long long> ov;
      if (regular)
        for (int a = mn[1]; a <= mx[1]; ++a)
          for (int v = mn[2]; v <= mx[2]; ++v)
            for (int t = mn[3]; t <= mx[3]; ++t) ov.push_back(vh::fx(out[a][v][t], 4));
      j.boolean("regular", regular).arr("lo", std::vector<int>{ mn[1], mn[2], mn[3] }).arr("hi", std::vector<int>{ mx[1], mx[2], mx[3] }).arr("out", ov);
    } else
      j.str("msg", msg);
    tr.emit(j);
  }
}

static void mode_down(vh::Trace& tr, long runs, int stage, vh::Rng& rng) {
  for (long run = 0; run < runs; ++run) {
    Geo g = random_geo(rng, stage);
    g.maxT = 0; g.tofMash = 0;
    if (g.span % 2 == 0) { g.span = 1; g.maxDelta = g.R - 1; }
    auto sc = vh::make_scanner(g.N, g.R, 0);
    sc->set_reference_energy(511.F); sc->set_energy_resolution(0.2F);
    sc->set_up();
    shared_ptr<ProjDataInfo> info = make_info(sc, g);
    const int newR = rng.range(2, 5), newN = 2 * rng.range(2, 8);
    SingleScatterSimulation sim;
    ExamInfo ex;
    ex.set_low_energy_thres(350.F); ex.set_high_energy_thres(650.F); ex.imaging_modality = ImagingModality::PT;
    bool ok = false;
    std::string msg;
    const bool err = vh::threw([&] {
      sim.set_template_proj_data_info(*info);
      sim.set_exam_info(ex);
      ok = sim.downsample_scanner(newR, newN) == Succeeded::yes;
    }, &msg);
    vh::Json j("Down");
    geo4_fields(j, g, *info);
    j.num("newR", newR).num("newN", newN).boolean("err", err).boolean("ok", ok);
    if (!err && ok) {
      auto pdi = sim.get_template_proj_data_info_sptr();
      j.num("dN", pdi->get_scanner_ptr()->get_num_detectors_per_ring()).num("dR", pdi->get_scanner_ptr()->get_num_rings())
          .num("dViews", pdi->get_num_views()).num("dMinTang", pdi->get_min_tangential_pos_num()).num("dMaxTang", pdi->get_max_tangential_pos_num())
          .num("dTofMash", pdi->get_tof_mash_factor()).num("dMaxBins", pdi->get_scanner_ptr()->get_max_num_non_arccorrected_bins())
          .arr2("dSegs", seg_table(*pdi));
      // the axial length is kept: new ring spacing * new rings against old ring spacing * old rings, in 1e-6
      j.num("lenRatio6", std::llround(1e6 * (double)pdi->get_scanner_ptr()->get_ring_spacing() * pdi->get_scanner_ptr()->get_num_rings()
                                      / ((double)sc->get_ring_spacing() * sc->get_num_rings())));
    } else if (err)
      j.str("msg", msg);
    tr.emit(j);
  }
}

// ---------------------------------------------------------------- zoom_viewgram(s): the 1-D (tangential) analogue on arc-corrected data
//   VIn   nv views, view (0: phi = 0, nv/2: phi = pi/2), segment, axial positions minAx..maxAx, tangential lo..hi; P Q (zoom P/Q); o: [x, y] offsets
//         in QUARTER input bins; olo ohi: requested tangential range; vals: integer values [ax][tang]
//   VOut  call: vg_inplace | vg_into | vgs; lo hi of the result, vox: its tangential sampling in units u = input sampling / (4P) (rounded),
//         res: residual in 1e-6 units; vals * 2^8
static void mode_zview(vh::Trace& tr, long runs, int stage, vh::Rng& rng) {
  static const int PQ[7][2] = { { 1, 3 }, { 1, 2 }, { 2, 3 }, { 1, 1 }, { 3, 2 }, { 2, 1 }, { 3, 1 } };
  for (long run = 0; run < runs; ++run) {
    const int N = rng.coin() ? 8 : 16, R = rng.range(1, 3), nv = N / 2;
    auto sc = vh::make_scanner(N, R, 0);
    const int ntang = rng.range(2, stage ? 9 : 7);
    shared_ptr<ProjDataInfo> info = ProjDataInfo::construct_proj_data_info(sc, 1, R - 1, nv, ntang, /*arc_corrected=*/true);
    auto* arc = dynamic_cast<const ProjDataInfoCylindricalArcCorr*>(info.get());
    const int z = run % 16 == 15 ? 3 : rng.range(0, 6), P = PQ[z][0], Q = PQ[z][1];
    const int view = rng.coin() ? 0 : nv / 2;
    const int seg = rng.range(info->get_min_segment_num(), info->get_max_segment_num());
    const int ox = run % 16 == 15 || rng.range(0, 3) == 0 ? 0 : rng.range(-6, 6), oy = run % 16 == 15 || rng.range(0, 3) == 0 ? 0 : rng.range(-6, 6);
    const float bin = arc->get_tangential_sampling();
    const float zoom = (float)P / (float)Q, xoff = ox * bin / 4.F, yoff = oy * bin / 4.F;
    const int same = (ntang * P + Q - 1) / Q;
    const int on = std::max(1, same + rng.pick(std::vector<int>{ 0, 0, 1, 2, -1, -2 }));
    int olo = -(on / 2) + rng.pick(std::vector<int>{ 0, 0, 0, 1, -1 }), ohi = olo + on - 1;
    Viewgram<float> in = info->get_empty_viewgram(view, seg);
    const bool identity = run % 16 == 15;          // nothing to do: same sampling, range and no offset
    if (identity) { olo = in.get_min_tangential_pos_num(); ohi = in.get_max_tangential_pos_num(); }
    std::vector<long long> vals;
    for (int a = in.get_min_axial_pos_num(); a <= in.get_max_axial_pos_num(); ++a)
      for (int t = in.get_min_tangential_pos_num(); t <= in.get_max_tangential_pos_num(); ++t) {
        const int v = rng.range(0, 2) ? rng.range(0, 15) : 0;
        in[a][t] = (float)v;
        vals.push_back(v);
      }
    tr.emit(vh::Json("VIn").num("id", run + 1).num("nv", nv).num("view", view).num("seg", seg).num("minAx", in.get_min_axial_pos_num())
                .num("maxAx", in.get_max_axial_pos_num()).num("lo", in.get_min_tangential_pos_num()).num("hi", in.get_max_tangential_pos_num())
                .num("P", P).num("Q", Q).arr("o", std::vector<int>{ ox, oy }).num("olo", olo).num("ohi", ohi).arr("vals", vals));
    const double u = (double)bin / (4. * P);
    shared_ptr<const ProjDataInfo> first_info;
    for (const char* call : { "vg_inplace", "vg_into", "vgs" }) {
      std::string msg;
      Viewgram<float> res = in;
      const bool err = vh::threw([&] {
        if (!std::strcmp(call, "vg_inplace")) zoom_viewgram(res, zoom, olo, ohi, xoff, yoff);
        else if (!std::strcmp(call, "vg_into")) {
          Viewgram<float> out(first_info, view, seg);
          out.fill(7.F);
          zoom_viewgram(out, in, xoff, yoff);
          res = out;
        } else {
          shared_ptr<DataSymmetriesForViewSegmentNumbers> sym(new TrivialDataSymmetriesForViewSegmentNumbers);
          RelatedViewgrams<float> rv = info->get_empty_related_viewgrams(ViewgramIndices(view, seg), sym);
          *rv.begin() = in;
          zoom_viewgrams(rv, zoom, olo, ohi, xoff, yoff);
          res = *rv.begin();
        }
      }, &msg);
      vh::Json j("VOut");
      j.str("call", call).boolean("err", err);
      if (err) { j.str("msg", msg); tr.emit(j); continue; }
      if (!first_info) first_info = res.get_proj_data_info_sptr();
      auto* rarc = dynamic_cast<const ProjDataInfoCylindricalArcCorr*>(res.get_proj_data_info_sptr().get());
      const double q = rarc->get_tangential_sampling() / u;
      std::vector<long long> ov;
      for (int a = res.get_min_axial_pos_num(); a <= res.get_max_axial_pos_num(); ++a)
        for (int t = res.get_min_tangential_pos_num(); t <= res.get_max_tangential_pos_num(); ++t) ov.push_back(vh::fx(res[a][t], 8));
      j.num("lo", res.get_min_tangential_pos_num()).num("hi", res.get_max_tangential_pos_num()).num("minAx", res.get_min_axial_pos_num())
          .num("maxAx", res.get_max_axial_pos_num()).num("view", res.get_view_num()).num("seg", res.get_segment_num())
          .num("vox", std::llround(q)).num("res", std::llround(std::fabs(q - std::llround(q)) * 1e6)).arr("vals", ov);
      tr.emit(j);
    }
  }
}

// ---------------------------------------------------------------- interpolate_projdata (direct sinograms, same scanner, linear B-splines)
//   Interp  N R; input: span (1: ring sampling, 3: half-ring sampling), mash, tangential range, axial positions; output: the same with prefix o;
//           in: integer values [ax][view][tang]; out: values * 2^8 [ax][view][tang]
static void mode_interp(vh::Trace& tr, long runs, int stage, vh::Rng& rng) {
  shared_ptr<ExamInfo> ei(new ExamInfo);
  ei->imaging_modality = ImagingModality::PT;
  for (long run = 0; run < runs; ++run) {
    const int N = rng.pick(std::vector<int>{ 24, 32, 24, 40 }), R = rng.range(2, stage ? 5 : 4);
    auto sc = vh::make_scanner(N, R, 0);
    Geo gi, go;
    gi.N = go.N = N; gi.R = go.R = R; gi.maxT = go.maxT = 0; gi.tofMash = go.tofMash = 0; gi.segReduce = go.segReduce = 0;
    // sampling ratios 1 and 2 (either way) axially (span 1 <-> span 3) and in views (mashing 1 <-> 2)
    gi.span = rng.coin() ? 1 : 3; go.span = rng.coin() ? 1 : 3;
    gi.maxDelta = gi.span == 1 ? 0 : 1; go.maxDelta = go.span == 1 ? 0 : 1;
    gi.mash = rng.coin() ? 1 : 2; go.mash = rng.coin() ? 1 : 2;
    // symmetric tangential ranges (odd numbers of positions)
    gi.numTang = 2 * rng.range(1, 4) + 1; go.numTang = std::max(1, gi.numTang + 2 * rng.range(-1, 1));
    shared_ptr<ProjDataInfo> ii = make_info(sc, gi), oi = make_info(sc, go);
    ProjDataInMemory in(ei, ii), out(ei, oi);
    SegmentBySinogram<float> seg = ii->get_empty_segment_by_sinogram(0);
    std::vector<long long> iv;
    for (int a = seg.get_min_axial_pos_num(); a <= seg.get_max_axial_pos_num(); ++a)
      for (int v = seg.get_min_view_num(); v <= seg.get_max_view_num(); ++v)
        for (int t = seg.get_min_tangential_pos_num(); t <= seg.get_max_tangential_pos_num(); ++t) {
          const int x = rng.range(0, 15);
          seg[a][v][t] = (float)x;
          iv.push_back(x);
        }
    in.set_segment(seg);
    out.fill(7.F);
    bool ok = false;
    std::string msg;
    const bool err = vh::threw([&] { ok = interpolate_projdata(out, in, BSpline::linear, false) == Succeeded::yes; }, &msg);
    vh::Json j("Interp");
    j.num("N", N).num("R", R).num("span", gi.span).num("mash", gi.mash).num("minTang", ii->get_min_tangential_pos_num()).num("maxTang", ii->get_max_tangential_pos_num())
        .num("numAx", ii->get_num_axial_poss(0)).num("nv", ii->get_num_views())
        .num("ospan", go.span).num("omash", go.mash).num("ominTang", oi->get_min_tangential_pos_num()).num("omaxTang", oi->get_max_tangential_pos_num())
        .num("onumAx", oi->get_num_axial_poss(0)).num("onv", oi->get_num_views()).arr("in", iv).boolean("err", err).boolean("ok", ok);
    if (!err) {
      const SegmentBySinogram<float> os = out.get_segment_by_sinogram(0);
      std::vector<long long> ov;
      for (int a = os.get_min_axial_pos_num(); a <= os.get_max_axial_pos_num(); ++a)
        for (int v = os.get_min_view_num(); v <= os.get_max_view_num(); ++v)
          for (int t = os.get_min_tangential_pos_num(); t <= os.get_max_tangential_pos_num(); ++t) ov.push_back(vh::fx(os[a][v][t], 8));
      j.arr("out", ov);
    } else
      j.str("msg", msg);
    tr.emit(j);
  }
}

int main(int argc, char** argv) {
  if (argc < 3) { fprintf(stderr, "usage: c15_rebin_zoom <mode> <out.ndjson> ...\n"); return 2; }
  vh::quiet();
  if (!getenv("VERIF_STDERR")) { if (!freopen("/dev/null", "w", stderr)) {} }
  vh::install_terminate();
  const std::string mode = argv[1];
  vh::Trace tr(argv[2]);
  vh::Rng rng(vh::seed_from_env() * 7919 + (mode == "ssrb" ? 1 : mode == "zoom" ? 2 : mode == "zoomr" ? 3 : mode == "inv" ? 4 : mode == "ext" ? 5 : mode == "down" ? 6 : mode == "zview" ? 7 : mode == "interp" ? 8 : 9));
  if (mode == "ssrb") mode_ssrb(tr, atol(argv[3]), atoi(argv[4]), rng, argc > 5 ? argv[5] : "");
  else if (mode == "inv") mode_inv(tr, atol(argv[3]), atoi(argv[4]), rng);
  else if (mode == "down") mode_down(tr, atol(argv[3]), atoi(argv[4]), rng);
  else if (mode == "zview") mode_zview(tr, atol(argv[3]), atoi(argv[4]), rng);
  else if (mode == "interp") mode_interp(tr, atol(argv[3]), atoi(argv[4]), rng);
  else if (mode == "ext") mode_ext(tr, atol(argv[3]), atoi(argv[4]), rng);
  else if (mode == "zoom") mode_zoom(tr, atol(argv[3]), atoi(argv[4]), rng);
  else if (mode == "zoomr") mode_zoomr(tr, atol(argv[3]), atoi(argv[4]), rng);
  else { fprintf(stderr, "unknown mode\n"); return 2; }
  return 0;
}
