// C13 driver: builds real BinNormalisation objects (FromProjData, WithCalibration (base-class default
// apply/undo), PETFromComponents, FromAttenuationImage, Chained, Trivial), calls set_up / apply / undo /
// get_bin_efficiency / is_trivial on related viewgrams under every symmetry grouping and on whole data sets,
// and records inputs and outputs as ndjson.  DRIVE AND RECORD ONLY: no expected value, no comparison, no
// property formula; TLC (Trace_Norm.tla) decides.
//   c13_norm exact <out.ndjson> <level>     power-of-two factors (encoding E): values are logged as exponents
//   c13_norm att   <out.ndjson> <level>     attenuation images (encoding F): values are logged as round(log2(v)*2^16)
// Value encodings (pure transcriptions of the float, no judgement):
//   exponent code: 0 -> -99999, v = 2^k exactly -> k, any other finite positive v -> 77777, negative/nan/inf -> 88888
//   lg code:       v > 0 finite -> llround(log2(v) * 65536), otherwise 1000000000
#include "vh_stir.h"
#include "c03_matrix_common.h"
#include "stir/ProjDataInMemory.h"
#include "stir/ExamInfo.h"
#include "stir/RelatedViewgrams.h"
#include "stir/Viewgram.h"
#include "stir/Succeeded.h"
#include "stir/Radionuclide.h"
#include "stir/recon_buildblock/BinNormalisation.h"
#include "stir/recon_buildblock/BinNormalisationFromProjData.h"
#include "stir/recon_buildblock/BinNormalisationFromAttenuationImage.h"
#include "stir/recon_buildblock/BinNormalisationPETFromComponents.h"
#include "stir/recon_buildblock/ChainedBinNormalisation.h"
#include "stir/recon_buildblock/TrivialBinNormalisation.h"
#include "stir/recon_buildblock/BinNormalisationWithCalibration.h"
#include "stir/recon_buildblock/TrivialDataSymmetriesForBins.h"
#include "stir/recon_buildblock/DataSymmetriesForBins_PET_CartesianGrid.h"
#include "stir/recon_buildblock/ForwardProjectorByBinUsingProjMatrixByBin.h"
#include "stir/recon_buildblock/ForwardProjectorByBinUsingRayTracing.h"
#include "stir/recon_buildblock/find_basic_vs_nums_in_subsets.h"
#include <map>
#include <array>
#include <functional>
using namespace stir;

// ---------------------------------------------------------------- encodings
static long enc_exp(float v) {
  if (v == 0.F) return -99999;
  if (!(v > 0.F) || std::isinf(v)) return 88888;
  int e = 0;
  const float m = std::frexp(v, &e);
  return m == 0.5F ? e - 1 : 77777;
}
static long enc_lg(float v) {
  if (!(v > 0.F) || std::isinf(v)) return 1000000000L;
  return (long)std::llround(std::log2((double)v) * 65536.0);
}
typedef std::function<long(float)> Enc;

struct Geo {
  shared_ptr<ProjDataInfo> pdi;
  std::string scanner;   // label distinguishing acquisition systems
};
static std::string geom_json(const Geo& g);

static std::string geom_json(const Geo& g) {
  const ProjDataInfo& p = *g.pdi;
  std::vector<int> ax, axmin;
  for (int s = p.get_min_segment_num(); s <= p.get_max_segment_num(); ++s) { ax.push_back(p.get_num_axial_poss(s)); axmin.push_back(p.get_min_axial_pos_num(s)); }
  vh::Json j;
  j.str("scanner", g.scanner).num("N", p.get_scanner_ptr()->get_num_detectors_per_ring()).num("R", p.get_scanner_ptr()->get_num_rings())
      .num("tofMash", p.get_tof_mash_factor()).num("views", p.get_num_views()).num("minView", p.get_min_view_num())
      .num("minSeg", p.get_min_segment_num()).num("maxSeg", p.get_max_segment_num()).arr("ax", ax).arr("axmin", axmin)
      .num("minTang", p.get_min_tangential_pos_num()).num("maxTang", p.get_max_tangential_pos_num())
      .num("minTof", p.get_min_tof_pos_num()).num("maxTof", p.get_max_tof_pos_num());
  return j.done();
}

// 5-d table [segment][view][axial][tangential][tof] of f(bin)
static std::string table5(const ProjDataInfo& p, const std::function<long(const Bin&)>& f) {
  std::string o = "[";
  for (int s = p.get_min_segment_num(); s <= p.get_max_segment_num(); ++s) {
    if (s > p.get_min_segment_num()) o += ',';
    o += '[';
    for (int v = p.get_min_view_num(); v <= p.get_max_view_num(); ++v) {
      if (v > p.get_min_view_num()) o += ',';
      o += '[';
      for (int a = p.get_min_axial_pos_num(s); a <= p.get_max_axial_pos_num(s); ++a) {
        if (a > p.get_min_axial_pos_num(s)) o += ',';
        o += '[';
        for (int t = p.get_min_tangential_pos_num(); t <= p.get_max_tangential_pos_num(); ++t) {
          if (t > p.get_min_tangential_pos_num()) o += ',';
          o += '[';
          for (int k = p.get_min_tof_pos_num(); k <= p.get_max_tof_pos_num(); ++k) {
            if (k > p.get_min_tof_pos_num()) o += ',';
            o += std::to_string(f(Bin(s, v, a, t, k)));
          }
          o += ']';
        }
        o += ']';
      }
      o += ']';
    }
    o += ']';
  }
  return o + "]";
}
static std::string data5(ProjDataInMemory& d, const Enc& enc) {
  return table5(*d.get_proj_data_info_sptr(), [&](const Bin& b) { Bin c(b); return enc(d.get_bin_value(c)); });
}
static std::string vg_ids(const RelatedViewgrams<float>& rv) {
  std::vector<std::vector<int>> l;
  for (RelatedViewgrams<float>::const_iterator it = rv.begin(); it != rv.end(); ++it)
    l.push_back({ it->get_segment_num(), it->get_view_num(), it->get_timing_pos_num() });
  vh::Json j; j.arr2("x", l);
  const std::string s = j.done();
  return s.substr(5, s.size() - 6);
}
static std::string vg_data(const RelatedViewgrams<float>& rv, const Enc& enc) {
  std::string o = "[";
  bool f = true;
  for (RelatedViewgrams<float>::const_iterator it = rv.begin(); it != rv.end(); ++it) {
    if (!f) o += ',';
    f = false;
    o += '[';
    for (int a = it->get_min_axial_pos_num(); a <= it->get_max_axial_pos_num(); ++a) {
      if (a > it->get_min_axial_pos_num()) o += ',';
      o += '[';
      for (int t = it->get_min_tangential_pos_num(); t <= it->get_max_tangential_pos_num(); ++t) {
        if (t > it->get_min_tangential_pos_num()) o += ',';
        o += std::to_string(enc((*it)[a][t]));
      }
      o += ']';
    }
    o += ']';
  }
  return o + "]";
}

// ---------------------------------------------------------------- objects under test
// a class derived from BinNormalisationWithCalibration whose uncalibrated efficiencies are a table supplied by
// the driver; apply/undo are the BinNormalisation base-class defaults
struct TableCalibNorm : public BinNormalisationWithCalibration {
  std::map<std::array<int, 5>, float> tab;
  float get_uncalibrated_bin_efficiency(const Bin& b) const override {
    auto it = tab.find({ { b.segment_num(), b.view_num(), b.axial_pos_num(), b.tangential_pos_num(), b.timing_pos_num() } });
    return it == tab.end() ? 1.F : it->second;
  }
  std::string get_registered_name() const override { return "VerifTableCalib"; }
};

struct CompState;
struct Obj {
  shared_ptr<BinNormalisation> norm;
  std::string json;
  shared_ptr<TableCalibNorm> cal;   // set when the top-level object is the calibrated class
  // handles for the re-use histories (the inputs of the object are changed through the public API)
  Geo geo;                                             // geometry of the factor tables
  shared_ptr<BinNormalisationFromProjData> pdnorm;     // FromProjData: its data are reached through get_norm_proj_data_sptr()
  shared_ptr<BinNormalisationPETFromComponents> comp;  // PETFromComponents
  shared_ptr<CompState> cstate;
  int calib = 0, br = 0;
  bool has_att = false;
  std::string projsym;              // for attenuation objects: label of the forward projector's symmetries
  shared_ptr<ForwardProjectorByBin> fp;
};

static shared_ptr<ExamInfo> the_exam_info() {
  static shared_ptr<ExamInfo> ei;
  if (!ei) { ei.reset(new ExamInfo); ei->imaging_modality = ImagingModality::PT; }
  return ei;
}

static Obj make_trivial() { Obj o; o.norm.reset(new TrivialBinNormalisation); o.json = "{\"cls\":\"Trivial\"}"; return o; }

// (re)fills the factor data of a FromProjData object in place, through its public accessor
static void refill_pd(Obj& o, vh::Rng& rng, int lo, int hi) {
  shared_ptr<ProjData> pdbase = o.pdnorm->get_norm_proj_data_sptr();
  ProjDataInMemory* pd = dynamic_cast<ProjDataInMemory*>(pdbase.get());
  for (const Bin& b : c03::all_bins(*o.geo.pdi))
    pd->set_bin_value(Bin(b.segment_num(), b.view_num(), b.axial_pos_num(), b.tangential_pos_num(), b.timing_pos_num(), std::ldexp(1.F, rng.range(lo, hi))));
  vh::Json j; j.str("cls", "PD").raw("g", geom_json(o.geo)).raw("tab", data5(*pd, enc_exp));
  o.json = j.done();
}
static Obj make_pd(const Geo& ng, vh::Rng& rng, int lo, int hi) {
  shared_ptr<ProjDataInMemory> pd(new ProjDataInMemory(the_exam_info(), ng.pdi));
  Obj o;
  o.geo = ng;
  o.pdnorm.reset(new BinNormalisationFromProjData(pd));
  o.norm = o.pdnorm;
  refill_pd(o, rng, lo, hi);
  return o;
}

static void cal_json(Obj& o) {
  vh::Json j;
  j.str("cls", "Cal").raw("g", geom_json(o.geo)).num("calib", o.calib).num("br", o.br)
      .raw("tab", table5(*o.geo.pdi, [&](const Bin& b) { return enc_exp(o.cal->get_uncalibrated_bin_efficiency(b)); }));
  o.json = j.done();
}
static void refill_cal(Obj& o, vh::Rng& rng, int lo, int hi, int zero_every) {
  long n = 0;
  for (const Bin& b : c03::all_bins(*o.geo.pdi)) {
    const int e = rng.range(lo, hi);
    const bool z = zero_every > 0 && (++n % zero_every) == 0;
    o.cal->tab[{ { b.segment_num(), b.view_num(), b.axial_pos_num(), b.tangential_pos_num(), b.timing_pos_num() } }] = z ? 0.F : std::ldexp(1.F, e);
  }
  cal_json(o);
}
static void set_calib(Obj& o, int calib) { o.calib = calib; o.cal->set_calibration_factor(std::ldexp(1.F, calib)); cal_json(o); }
static void set_branching(Obj& o, int br) {
  o.br = br;
  o.cal->set_radionuclide(Radionuclide("verif", 511.F, std::ldexp(1.F, br), 6586.2F, ImagingModality::PT));
  cal_json(o);
}
static Obj make_cal(const Geo& g, vh::Rng& rng, int lo, int hi, int calib, int br, int zero_every) {
  Obj o;
  o.geo = g;
  o.cal.reset(new TableCalibNorm);
  o.norm = o.cal;
  o.calib = calib;
  o.cal->set_calibration_factor(std::ldexp(1.F, calib));
  if (br != 0) set_branching(o, br);
  refill_cal(o, rng, lo, hi, zero_every);
  return o;
}

static std::string arr4(int n1, int n2, int n3, int n4, const std::function<long(int, int, int, int)>& f) {
  std::string o = "[";
  for (int a = 0; a < n1; ++a) { if (a) o += ','; o += '[';
    for (int b = 0; b < n2; ++b) { if (b) o += ','; o += '[';
      for (int c = 0; c < n3; ++c) { if (c) o += ','; o += '[';
        for (int d = 0; d < n4; ++d) { if (d) o += ','; o += std::to_string(f(a, b, c, d)); }
        o += ']'; }
      o += ']'; }
    o += ']'; }
  return o + "]";
}

// PETFromComponents on an uncompressed geometry: crystal efficiencies 2^e(ring,det), one uniform geometric factor,
// block-pair factors 2^h(block pair) (h symmetric)
struct CompState {
  bool do_eff = false, do_geo = false, do_blk = false;
  std::vector<std::vector<int>> effe;
  int geoe = 0;
  std::map<std::array<int, 4>, int> he;
};
static std::array<int, 4> hkey(int ra, int a, int rb, int b) {
  return (ra < rb || (ra == rb && a <= b)) ? std::array<int, 4>{ { ra, a, rb, b } } : std::array<int, 4>{ { rb, b, ra, a } };
}
// writes new factors IN PLACE through crystal_efficiencies() / geometric_factors() / block_factors()
// (which: bit 0 efficiencies, bit 1 geometric factor, bit 2 block factors)
static void refill_comp(Obj& o, vh::Rng& rng, int which, bool all_one) {
  BinNormalisationPETFromComponents& c = *o.comp;
  CompState& st = *o.cstate;
  const Scanner& sc = *o.geo.pdi->get_scanner_ptr();
  const int N = sc.get_num_detectors_per_ring(), R = sc.get_num_rings();
  const int apb = sc.get_num_axial_crystals_per_block(), tpb = sc.get_num_transaxial_crystals_per_block();
  const int nab = sc.get_num_axial_blocks(), ntb = sc.get_num_transaxial_blocks();
  if (st.effe.empty()) st.effe.assign(R, std::vector<int>(N, 0));
  if (st.do_eff && (which & 1))
    for (int r = 0; r < R; ++r)
      for (int d = 0; d < N; ++d) {
        st.effe[r][d] = all_one ? 0 : rng.range(-2, 2);
        c.crystal_efficiencies()[r][d] = std::ldexp(1.F, st.effe[r][d]);
      }
  if (st.do_geo && (which & 2)) {
    st.geoe = all_one ? 0 : rng.range(-2, 2);
    c.geometric_factors().fill(std::ldexp(1.F, st.geoe));
  }
  if (st.do_blk && (which & 4)) {
    BlockData3D& bd = c.block_factors();
    st.he.clear();
    for (int ra = 0; ra < nab; ++ra) for (int a = 0; a < ntb; ++a) for (int rb = 0; rb < nab; ++rb) for (int b = 0; b < ntb; ++b) {
      auto k = hkey(ra, a, rb, b);
      if (!st.he.count(k)) st.he[k] = all_one ? 0 : rng.range(-1, 1);
    }
    for (int ra = bd.get_min_ra(); ra <= bd.get_max_ra(); ++ra)
      for (int a = bd.get_min_a(); a <= bd.get_max_a(); ++a)
        for (int rb = bd.get_min_rb(ra); rb <= bd.get_max_rb(ra); ++rb)
          for (int b = bd.get_min_b(a); b <= bd.get_max_b(a); ++b)
            bd(ra, a, rb, b) = std::ldexp(1.F, st.he[hkey(ra, a, rb, b % ntb)]);
  }
  vh::Json j;
  j.str("cls", "Comp").raw("g", geom_json(o.geo)).num("apb", apb).num("tpb", tpb).boolean("hasEff", st.do_eff).boolean("hasGeo", st.do_geo).boolean("hasBlk", st.do_blk)
      .arr2("eff", st.effe).num("geo", st.do_geo ? st.geoe : 0)
      .raw("blk", arr4(nab, ntb, nab, ntb, [&](int ra, int a, int rb, int b) { return st.do_blk ? (long)st.he[hkey(ra, a, rb, b)] : 0L; }));
  o.json = j.done();
}
// allocate (again) for the given components and fill all of them
static void allocate_comp(Obj& o, vh::Rng& rng, bool do_eff, bool do_geo, bool do_blk, bool all_one) {
  o.comp->allocate(o.geo.pdi, do_eff, do_geo, do_blk);
  o.cstate.reset(new CompState);
  o.cstate->do_eff = do_eff; o.cstate->do_geo = do_geo; o.cstate->do_blk = do_blk;
  refill_comp(o, rng, 7, all_one);
}
static Obj make_comp(const Geo& g, vh::Rng& rng, bool do_eff, bool do_geo, bool do_blk, bool all_one) {
  Obj o;
  o.geo = g;
  o.comp.reset(new BinNormalisationPETFromComponents);
  o.norm = o.comp;
  allocate_comp(o, rng, do_eff, do_geo, do_blk, all_one);
  return o;
}

static std::string chain_json(const Obj& a, const Obj& b) { return "{\"cls\":\"Chain\",\"first\":" + a.json + ",\"second\":" + b.json + "}"; }
static Obj make_chain(const Obj& a, const Obj& b) {
  Obj o;
  o.norm.reset(new ChainedBinNormalisation(a.norm, b.norm));
  o.json = chain_json(a, b);
  o.has_att = a.has_att || b.has_att;
  o.projsym = a.has_att ? a.projsym : b.projsym;
  o.fp = a.has_att ? a.fp : b.fp;
  return o;
}

// ---------------------------------------------------------------- symmetry groupings
struct Sym {
  std::string name;
  shared_ptr<DataSymmetriesForViewSegmentNumbers> sym;   // null: the default argument of apply(ProjData&)
};

static shared_ptr<VoxelsOnCartesianGrid<float>> image_for(const ProjDataInfo& pdi) {
  c03::GridCfg gc;
  gc.nz = 2 * pdi.get_scanner_ptr()->get_num_rings() - 1;
  gc.nx = gc.ny = 9; gc.vx = gc.vy = 4.F;
  return c03::make_image(pdi, gc);
}
static std::vector<Sym> groupings(const shared_ptr<ProjDataInfo>& pdi, int level, bool no_swap_segment = false) {
  std::vector<Sym> v;
  v.push_back({ "trivial", shared_ptr<DataSymmetriesForViewSegmentNumbers>(new TrivialDataSymmetriesForBins(pdi)) });
  auto im = image_for(*pdi);
  // switch settings (90, 180, swap segment, swap s, shift z); the grouping of viewgrams depends on the first three
  std::vector<int> masks = { 31, 30, 28, 27, 7, 3, 26, 0 };
  if (level == 0) masks = { 31, 30, 27, 0 };
  // data with an asymmetric segment range: only groupings that do not relate segment s to -s (bit 2 off)
  if (no_swap_segment) masks = level == 0 ? std::vector<int>{ 27, 3 } : std::vector<int>{ 27, 3, 26, 0 };
  for (int m : masks) {
    const c03::Sw sw = c03::sw_from_bits(m);
    shared_ptr<DataSymmetriesForViewSegmentNumbers> s;
    if (vh::threw([&] { s.reset(new DataSymmetriesForBins_PET_CartesianGrid(pdi, im, sw.s90, sw.s180, sw.sseg, sw.ss, sw.sz)); })) continue;
    v.push_back({ "pet" + std::to_string(m), s });
  }
  return v;
}

// ---------------------------------------------------------------- recorded calls
struct Rec {
  vh::Trace& tr;
  vh::Rng& rng;
  const Enc enc;
  const char* rv_ev;
  const char* whole_ev;
  bool lg;
  Rec(vh::Trace& t, vh::Rng& r, bool lg_) : tr(t), rng(r), enc(lg_ ? Enc(enc_lg) : Enc(enc_exp)), rv_ev(lg_ ? "RVF" : "RV"), whole_ev(lg_ ? "WholeF" : "Whole"), lg(lg_) {}

  float random_datum() {
    if (lg) return 0.25F + (float)(rng.next() % 4096) / 256.F;          // arbitrary positive floats
    const int r = rng.range(0, 15);
    return r == 0 ? 0.F : std::ldexp(1.F, rng.range(-3, 3));             // powers of two, some zeros
  }
  void fill_random(ProjDataInMemory& d) {
    for (const Bin& b : c03::all_bins(*d.get_proj_data_info_sptr()))
      d.set_bin_value(Bin(b.segment_num(), b.view_num(), b.axial_pos_num(), b.tangential_pos_num(), b.timing_pos_num(), random_datum()));
  }

  void set_up(Obj& o, const Geo& g) {
    bool ok = false;
    const bool err = vh::threw([&] { ok = o.norm->set_up(the_exam_info(), g.pdi) == Succeeded::yes; });
    tr.emit(vh::Json("SetUp").raw("G", geom_json(g)).boolean("ok", ok).boolean("err", err));
  }
  void is_trivial(Obj& o) {
    bool val = false;
    const bool err = vh::threw([&] { val = o.norm->is_trivial(); });
    tr.emit(vh::Json("Triv").boolean("val", val).boolean("err", err));
  }
  void efficiencies(Obj& o, const Geo& g) {
    std::string tab;
    const bool err = vh::threw([&] { tab = table5(*g.pdi, [&](const Bin& b) { return enc_exp(o.norm->get_bin_efficiency(b)); }); });
    tr.emit(vh::Json("Eff").raw("G", geom_json(g)).boolean("err", err).raw("effs", err ? "[]" : tab));
  }
  // apply then undo on one set of related viewgrams (fresh random data)
  // part: 0 = the object itself; 1 / 2 = ChainedBinNormalisation::apply_only_first / _second (undo_only_...)
  static const char* part_name(int part) { return part == 1 ? "first" : part == 2 ? "second" : "all"; }
  void related(Obj& o, const Geo& g, ProjDataInMemory& data, const Sym& s, const ViewSegmentNumbers& vs, int k, bool undo_first, int part = 0) {
    RelatedViewgrams<float> rv = data.get_related_viewgrams(vs, s.sym, false, k);
    ChainedBinNormalisation* ch = dynamic_cast<ChainedBinNormalisation*>(o.norm.get());
    for (int step = 0; step < 2; ++step) {
      const bool undo = (step == 0) == undo_first;
      const std::string in = vg_data(rv, enc);
      const bool err = vh::threw([&] {
        if (part == 1) { if (undo) ch->undo_only_first(rv); else ch->apply_only_first(rv); }
        else if (part == 2) { if (undo) ch->undo_only_second(rv); else ch->apply_only_second(rv); }
        else if (undo) o.norm->undo(rv); else o.norm->apply(rv); });
      tr.emit(vh::Json(rv_ev).str("op", undo ? "undo" : "apply").str("part", part_name(part)).str("sym", s.name).raw("G", geom_json(g)).raw("vg", vg_ids(rv))
                  .raw("in", in).raw("out", vg_data(rv, enc)).boolean("err", err));
      if (err) break;
    }
  }
  void all_related(Obj& o, const Geo& g, const Sym& s, long budget, int part = 0) {
    ProjDataInMemory data(the_exam_info(), g.pdi);
    fill_random(data);
    const std::vector<ViewSegmentNumbers> basics = detail::find_basic_vs_nums_in_subset(*g.pdi, *s.sym, g.pdi->get_min_segment_num(), g.pdi->get_max_segment_num(), 0, 1);
    const long total = (long)basics.size() * g.pdi->get_num_tof_poss();
    long n = 0;
    for (const ViewSegmentNumbers& vs : basics)
      for (int k = g.pdi->get_min_tof_pos_num(); k <= g.pdi->get_max_tof_pos_num(); ++k) {
        ++n;
        if (budget > 0 && total > budget && rng.range(0, (int)(total / budget)) != 0) continue;
        related(o, g, data, s, vs, k, (n % 3) == 0, part);
      }
  }
  // apply then undo on a whole data set
  void whole(Obj& o, const Geo& g, const Sym& s, bool undo_first, int part = 0) {
    ProjDataInMemory data(the_exam_info(), g.pdi);
    fill_random(data);
    ChainedBinNormalisation* ch = dynamic_cast<ChainedBinNormalisation*>(o.norm.get());
    for (int step = 0; step < 2; ++step) {
      const bool undo = (step == 0) == undo_first;
      const std::string in = data5(data, enc);
      const bool err = vh::threw([&] {
        if (part == 1) { if (undo) ch->undo_only_first(data); else ch->apply_only_first(data); }       // (these take no symmetries argument)
        else if (part == 2) { if (undo) ch->undo_only_second(data); else ch->apply_only_second(data); }
        else if (s.sym) { if (undo) o.norm->undo(data, s.sym); else o.norm->apply(data, s.sym); }
        else { if (undo) o.norm->undo(data); else o.norm->apply(data); } });
      tr.emit(vh::Json(whole_ev).str("op", undo ? "undo" : "apply").str("part", part_name(part)).str("sym", s.name).raw("G", geom_json(g)).raw("in", in).raw("out", data5(data, enc)).boolean("err", err));
      if (err) break;
    }
  }
};

static long config_id = 0;
static void begin_config(vh::Trace& tr, const std::string& name) { tr.emit(vh::Json("Config").num("id", ++config_id).str("name", name)); }
static void emit_obj(vh::Trace& tr, const Obj& o) { tr.emit(vh::Json("Obj").raw("obj", o.json)); }

static Geo make_geo(int N, int R, int maxDelta, int numTang, int tofMash, int maxT, const std::string& label, int span = 1, int mash = 1) {
  c03::DataCfg d; d.N = N; d.R = R; d.maxDelta = maxDelta; d.numTang = numTang; d.tofMash = tofMash; d.maxT = maxT; d.span = span; d.mash = mash;
  Geo g; g.pdi = c03::make_pdi(d); g.scanner = label;
  return g;
}
static Geo reduced(const Geo& g, int maxSeg) {
  Geo r; r.scanner = g.scanner; r.pdi.reset(g.pdi->clone());
  r.pdi->reduce_segment_range(-maxSeg, maxSeg);
  return r;
}
static Geo non_tof(const Geo& g) { Geo r; r.scanner = g.scanner; r.pdi = g.pdi->create_non_tof_clone(); return r; }

// the full exercise of one object on one data geometry
static void exercise(Rec& rec, Obj& o, const Geo& g, int level, bool pre_use) {
  emit_obj(rec.tr, o);
  const std::vector<Sym> syms = groupings(g.pdi, level);
  if (pre_use) {   // use before set_up
    ProjDataInMemory data(the_exam_info(), g.pdi);
    rec.fill_random(data);
    rec.related(o, g, data, syms[0], ViewSegmentNumbers(0, 0), g.pdi->get_min_tof_pos_num(), false);
    rec.whole(o, g, Sym{ "default", nullptr }, false);
  }
  rec.set_up(o, g);
  rec.is_trivial(o);
  if (!rec.lg) rec.efficiencies(o, g);
  long n = 0;
  for (const Sym& s : syms) {
    rec.all_related(o, g, s, level == 0 ? 40 : 100);
    if (level > 0 || (n++ % 2) == 0) rec.whole(o, g, s, n % 2 == 0);
  }
  rec.whole(o, g, Sym{ "default", nullptr }, false);
  if (!rec.lg && dynamic_cast<ChainedBinNormalisation*>(o.norm.get()))
    for (int part = 1; part <= 2; ++part) {   // the members of a chain on their own
      rec.all_related(o, g, syms[part % syms.size()], 8, part);
      rec.whole(o, g, Sym{ "default", nullptr }, part == 2, part);
    }
}

// ---------------------------------------------------------------- re-use histories
// The same object is used again after its inputs were changed through the public API.  A "Mod" line carries the
// object as it is NOW described by its inputs (resets: the API clears the set-up flag with this change).
static void emit_mod(vh::Trace& tr, const Obj& o, const char* what, bool resets) {
  tr.emit(vh::Json("Mod").str("what", what).boolean("resets", resets).raw("obj", o.json));
}
// a few calls without a new set_up
static void use_only(Rec& rec, Obj& o, const Geo& g, const Sym* only = nullptr) {
  const std::vector<Sym> syms = groupings(g.pdi, 0);
  rec.all_related(o, g, only ? *only : syms[0], 4);
  rec.whole(o, g, only ? *only : Sym{ "default", nullptr }, false);
}
// set_up and a short exercise
static void light(Rec& rec, Obj& o, const Geo& g, const Sym* only = nullptr) {
  rec.set_up(o, g);
  rec.is_trivial(o);
  if (!rec.lg) rec.efficiencies(o, g);
  const std::vector<Sym> syms = groupings(g.pdi, 0);
  if (only) { rec.all_related(o, g, *only, 8); rec.whole(o, g, *only, true); return; }
  rec.all_related(o, g, syms[0], 6);
  rec.all_related(o, g, syms[syms.size() > 1 ? 1 : 0], 6);
  rec.whole(o, g, Sym{ "default", nullptr }, false);
}

static void reuse_histories(Rec& rec, vh::Rng& rng, const std::string& label, const Geo& G, const Geo& Gn, const Geo& Gsmall) {
  vh::Trace& tr = rec.tr;
  begin_config(tr, label + " re-use from-projdata");
  {
    Obj o = make_pd(Gn, rng, -2, 2);
    emit_obj(tr, o);
    light(rec, o, G);
    refill_pd(o, rng, -3, 3);                      // the factor data change in place
    emit_mod(tr, o, "factor data refilled through get_norm_proj_data_sptr()", false);
    use_only(rec, o, G);
    light(rec, o, G);
    // another geometry and back
    light(rec, o, Gsmall);
    rec.all_related(o, G, groupings(G.pdi, 0)[0], 3);
    light(rec, o, G);
  }
  begin_config(tr, label + " re-use calibrated");
  {
    Obj o = make_cal(G, rng, -2, 2, 1, 0, 0);
    emit_obj(tr, o);
    light(rec, o, G);
    refill_cal(o, rng, -2, 2, 5);
    emit_mod(tr, o, "uncalibrated efficiencies changed", false);
    use_only(rec, o, G);
    light(rec, o, G);
    set_calib(o, 3);
    emit_mod(tr, o, "set_calibration_factor", true);
    use_only(rec, o, G);                            // error required
    light(rec, o, G);
    set_branching(o, -2);
    emit_mod(tr, o, "set_radionuclide", false);
    use_only(rec, o, G);
    light(rec, o, G);
  }
  begin_config(tr, label + " re-use chain");
  {
    Obj a = make_pd(Gn, rng, -2, 2), b = make_cal(G, rng, -2, 2, 1, -1, 0);
    Obj ch = make_chain(a, b);
    emit_obj(tr, ch);
    light(rec, ch, G);
    refill_pd(a, rng, -2, 2); ch.json = chain_json(a, b);
    emit_mod(tr, ch, "first member: factor data refilled", false);
    use_only(rec, ch, G);
    light(rec, ch, G);
    set_calib(b, 2); ch.json = chain_json(a, b);
    emit_mod(tr, ch, "second member: set_calibration_factor", true);
    use_only(rec, ch, G);                           // error required (the member refuses)
    light(rec, ch, G);
    refill_cal(b, rng, -1, 1, 0); refill_pd(a, rng, -1, 1); ch.json = chain_json(a, b);
    emit_mod(tr, ch, "both members changed", false);
    light(rec, ch, G);
    Obj t = make_trivial();
    emit_obj(tr, t);
    light(rec, t, G); light(rec, t, Gsmall); light(rec, t, G);
  }
}

// data with an asymmetric segment range (reduce_segment_range(min, max), |min| # max, with and without segment 0 at
// an end): related viewgrams under the groupings without swap-segment and whole data sets
static Geo seg_range(const Geo& g, int lo, int hi) {
  Geo r; r.scanner = g.scanner; r.pdi.reset(g.pdi->clone());
  r.pdi->reduce_segment_range(lo, hi);
  return r;
}
static void asym_exercise(Rec& rec, Obj& o, const Geo& Ga, int level) {
  emit_obj(rec.tr, o);
  rec.set_up(o, Ga);
  rec.efficiencies(o, Ga);
  for (const Sym& s : groupings(Ga.pdi, level, true)) {
    rec.all_related(o, Ga, s, level == 0 ? 10 : 40);
    rec.whole(o, Ga, s, false);
    rec.whole(o, Ga, s, true);
  }
  rec.whole(o, Ga, Sym{ "default", nullptr }, false);
  rec.whole(o, Ga, Sym{ "default", nullptr }, true);
}
static void asym_histories(Rec& rec, vh::Rng& rng, const std::string& label, const Geo& G, const Geo& Gn, int level) {
  const int M = G.pdi->get_max_segment_num();
  if (M < 1) return;
  std::vector<std::pair<int, int>> ranges = { { -M, M - 1 }, { -(M - 1), M }, { 0, M }, { -M, 0 } };
  if (M == 1) ranges = { { -1, 0 }, { 0, 1 } };
  begin_config(rec.tr, label + " asymmetric segment ranges");
  for (const auto& r : ranges) {
    const Geo Ga = seg_range(G, r.first, r.second);
    { Obj o = make_pd(Gn, rng, -2, 2); asym_exercise(rec, o, Ga, level); }                       // factors on the full range
    { Obj o = make_cal(G, rng, -2, 2, 1, 0, 0); asym_exercise(rec, o, Ga, level); }
    if (level > 0 || r.first == -M) {
      Obj a = make_pd(seg_range(Gn, r.first, r.second), rng, -2, 2); Obj b = make_cal(G, rng, -1, 1, 0, -1, 0);   // factors on the same range
      Obj ch = make_chain(a, b); asym_exercise(rec, ch, Ga, level);
    }
  }
}

static void reuse_components(Rec& rec, vh::Rng& rng, const std::string& label, const Geo& G, const Geo& Gsmall) {
  vh::Trace& tr = rec.tr;
  begin_config(tr, label + " re-use components");
  Obj o = make_comp(G, rng, true, true, true, false);
  emit_obj(tr, o);
  light(rec, o, G);
  refill_comp(o, rng, 1, false);
  emit_mod(tr, o, "crystal_efficiencies() changed in place", false);
  light(rec, o, G);
  refill_comp(o, rng, 2, false);
  emit_mod(tr, o, "geometric_factors() changed in place", false);
  light(rec, o, G);
  refill_comp(o, rng, 4, false);
  emit_mod(tr, o, "block_factors() changed in place", false);
  light(rec, o, G);
  refill_comp(o, rng, 7, true);
  emit_mod(tr, o, "all factors set to 1 in place", false);
  light(rec, o, G);                                  // is_trivial must now agree with what undo does
  refill_comp(o, rng, 7, false);
  emit_mod(tr, o, "all factors changed in place", false);
  light(rec, o, G);
  rec.set_up(o, Gsmall);                             // refused; then set up properly again
  light(rec, o, G);
  allocate_comp(o, rng, true, false, false, false);
  emit_mod(tr, o, "allocate() again: efficiencies only", false);
  light(rec, o, G);
  begin_config(tr, label + " re-use components in a chain");
  Obj p = make_pd(G, rng, -2, 2);
  Obj ch = make_chain(o, p);
  emit_obj(tr, ch);
  light(rec, ch, G);
  refill_comp(o, rng, 1, false); refill_pd(p, rng, -1, 1); ch.json = chain_json(o, p);
  emit_mod(tr, ch, "both members changed in place", false);
  light(rec, ch, G);
}

// ---------------------------------------------------------------- exact scenarios
static void run_exact(vh::Trace& tr, vh::Rng& rng, int level) {
  Rec rec(tr, rng, false);
  struct Sys { int N, R, numTang, tofMash, maxT, span, mash; };
  // (the last two: axially compressed data, span 3; mashed views - the factor classes other than the component
  // model do not care how a bin is made of detector pairs)
  std::vector<Sys> systems = { { 8, 2, 5, 1, 3, 1, 1 }, { 16, 3, 7, 0, 0, 1, 1 }, { 8, 4, 5, 0, 0, 3, 1 } };
  if (level > 0) { systems.push_back({ 12, 3, 5, 1, 5, 1, 1 }); systems.push_back({ 8, 3, 7, 3, 9, 1, 1 }); systems.push_back({ 16, 2, 9, 0, 0, 1, 1 });
                   systems.push_back({ 24, 2, 7, 1, 3, 1, 1 }); systems.push_back({ 16, 4, 7, 1, 3, 3, 2 }); systems.push_back({ 16, 5, 5, 0, 0, 5, 1 }); }
  int sysno = 0;
  for (const Sys& sy : systems) {
    const std::string label = "tiny" + std::to_string(++sysno);
    const Geo G = make_geo(sy.N, sy.R, sy.R - 1, sy.numTang, sy.tofMash, sy.maxT, label, sy.span, sy.mash);
    const bool tof = sy.tofMash > 0;
    const Geo Gn = tof ? non_tof(G) : G;
    const Geo Gsmall = reduced(G, 0);
    const Geo Gother = make_geo(sy.N, sy.R, sy.R - 1, sy.numTang - 2, sy.tofMash, sy.maxT, label, sy.span, sy.mash);   // narrower tangential range

    // single classes
    begin_config(tr, label + " trivial");
    { Obj o = make_trivial(); exercise(rec, o, G, level, true); }
    begin_config(tr, label + " from-projdata non-TOF factors");
    { Obj o = make_pd(Gn, rng, -3, 3); exercise(rec, o, G, level, true); }
    if (tof) {
      begin_config(tr, label + " from-projdata TOF factors");
      { Obj o = make_pd(G, rng, -3, 3); exercise(rec, o, G, level, true); }
    }
    begin_config(tr, label + " calibrated base-class defaults");
    { Obj o = make_cal(G, rng, -2, 2, 2, -1, 0); exercise(rec, o, G, level, true); }
    begin_config(tr, label + " calibrated with zero efficiencies");
    { Obj o = make_cal(G, rng, -2, 2, -1, 0, 7); exercise(rec, o, G, level, false); }

    // chains of 1-3 members
    begin_config(tr, label + " chain 1");
    // (a chain with an absent member cannot be constructed through the public API: the constructor dereferences
    // both members; a one-member chain is a member chained with the trivial normalisation)
    { Obj a = make_pd(Gn, rng, -2, 2); Obj n = make_trivial(); Obj o = make_chain(a, n); exercise(rec, o, G, level, true); }
    { Obj a = make_cal(G, rng, -2, 2, 1, 0, 0); Obj n = make_trivial(); Obj o = make_chain(n, a); exercise(rec, o, G, level, false); }
    begin_config(tr, label + " chain 2");
    { Obj a = make_pd(Gn, rng, -2, 2); Obj b = make_cal(G, rng, -2, 2, 1, -1, 0); Obj o = make_chain(a, b); exercise(rec, o, G, level, true); }
    { Obj a = make_trivial(); Obj b = make_trivial(); Obj o = make_chain(a, b); exercise(rec, o, G, level, true); }
    { Obj a = make_trivial(); Obj b = make_pd(tof ? G : Gn, rng, -2, 2); Obj o = make_chain(a, b); exercise(rec, o, G, level, true); }
    begin_config(tr, label + " chain 3");
    { Obj a = make_pd(Gn, rng, -2, 2); Obj b = make_cal(G, rng, -2, 2, 0, 0, 0); Obj c = make_pd(Gn, rng, -2, 2);
      Obj ab = make_chain(a, b); Obj o = make_chain(ab, c); exercise(rec, o, G, level, false); }
    { Obj a = make_cal(G, rng, -1, 1, 1, 0, 0); Obj b = make_trivial(); Obj c = make_cal(G, rng, -2, 2, 0, -1, 5);
      Obj bc = make_chain(b, c); Obj o = make_chain(a, bc); exercise(rec, o, G, level, true); }

    // set-up state machine and geometry checks
    begin_config(tr, label + " geometry checks");
    {
      // factors with more segments than the data: set_up must succeed, smaller data pass the check on use
      Obj o = make_pd(Gn, rng, -2, 2);
      emit_obj(tr, o);
      rec.set_up(o, Gsmall);
      rec.all_related(o, Gsmall, groupings(Gsmall.pdi, 0)[0], 6);
      rec.whole(o, Gsmall, Sym{ "default", nullptr }, false);
      // ... and data LARGER than the set-up geometry must be refused
      rec.all_related(o, G, groupings(G.pdi, 0)[0], 4);
      rec.whole(o, G, Sym{ "default", nullptr }, false);
      // set up for the full geometry, use on the smaller one
      rec.set_up(o, G);
      rec.all_related(o, Gsmall, groupings(Gsmall.pdi, 0)[1 % groupings(Gsmall.pdi, 0).size()], 6);
      rec.whole(o, Gsmall, Sym{ "default", nullptr }, true);
      // data with a narrower tangential range also pass the geometry check (related viewgrams only: on the
      // unchanged tree apply(ProjData&) then writes beyond the data's buffer - known finding C13-narrowtang)
      rec.all_related(o, Gother, groupings(Gother.pdi, 0)[0], 4);
      if (getenv("C13_NARROW_WHOLE")) rec.whole(o, Gother, Sym{ "default", nullptr }, false);
    }
    {
      // factor data that cannot serve the data: fewer segments / other tangential range / TOF factors for non-TOF data
      Obj o = make_pd(reduced(Gn, 0), rng, -1, 1);
      emit_obj(tr, o); rec.set_up(o, G);
      Obj p = make_pd(non_tof(Gother), rng, -1, 1);
      emit_obj(tr, p); rec.set_up(p, G);
      if (tof) { Obj q = make_pd(G, rng, -1, 1); emit_obj(tr, q); rec.set_up(q, Gn); }
    }
    {
      // calibrated class: changing the calibration factor clears the set-up flag
      Obj o = make_cal(G, rng, -2, 2, 1, 0, 0);
      emit_obj(tr, o);
      rec.set_up(o, G);
      rec.all_related(o, G, groupings(G.pdi, 0)[0], 3);
      o.cal->set_calibration_factor(std::ldexp(1.F, 3));
      tr.emit(vh::Json("SetCalib").num("calib", 3));
      rec.all_related(o, G, groupings(G.pdi, 0)[0], 3);
      rec.whole(o, G, Sym{ "default", nullptr }, false);
      rec.set_up(o, G);
      rec.efficiencies(o, G);
      rec.all_related(o, G, groupings(G.pdi, 0)[0], 3);
      // other geometries after set_up: other tangential range (not contained), non-TOF clone of TOF data
      rec.all_related(o, Gsmall, groupings(Gsmall.pdi, 0)[0], 3);
      rec.all_related(o, Gother, groupings(Gother.pdi, 0)[0], 3);
      rec.whole(o, Gother, Sym{ "default", nullptr }, false);
      if (tof) rec.all_related(o, Gn, groupings(Gn.pdi, 0)[0], 3);
      Obj w = make_cal(Gother, rng, -1, 1, 0, 0, 0);
      emit_obj(tr, w); rec.set_up(w, Gother);
      rec.all_related(w, G, groupings(G.pdi, 0)[0], 3);
    }
    if (level > 0 || sysno <= 2) {
      // data with a reduced axial range (last axial position of segment 0 dropped)
      begin_config(tr, label + " reduced axial range");
      Geo Gax; Gax.scanner = G.scanner; Gax.pdi.reset(G.pdi->clone());
      Gax.pdi->set_max_axial_pos_num(Gax.pdi->get_max_axial_pos_num(0) - 1, 0);
      const Geo Gaxn = tof ? non_tof(Gax) : Gax;
      { Obj o = make_pd(Gaxn, rng, -2, 2); exercise(rec, o, Gax, 0, false); }
      { Obj o = make_cal(G, rng, -2, 2, 1, 0, 0); exercise(rec, o, Gax, 0, false); }
      { Obj o = make_pd(Gn, rng, -1, 1); emit_obj(tr, o); rec.set_up(o, Gax); }      // factors with another axial range cannot serve
    }
    if (level > 0 || sysno <= 2) reuse_histories(rec, rng, label, G, Gn, Gsmall);
    if (sy.span == 1 && (level > 0 || sysno <= 2)) asym_histories(rec, rng, label, G, Gn, level);
  }

  // component-based normalisation (uncompressed non-TOF data, scanners with blocks)
  struct CSys { int N, R, apb, tpb, numTang; };
  std::vector<CSys> csys = { { 8, 2, 1, 2, 5 }, { 16, 4, 2, 4, 9 } };
  if (level > 0) { csys.push_back({ 12, 3, 1, 2, 7 }); csys.push_back({ 16, 2, 2, 2, 7 }); }
  int cno = 0;
  for (const CSys& cs : csys) {
    const std::string label = "blocks" + std::to_string(++cno);
    const float radius = std::max(40.F, cs.N * 4.F / 6.2831853F * 1.2F);
    shared_ptr<Scanner> sc(new Scanner(Scanner::User_defined_scanner, label, cs.N, cs.R, cs.N - 1, cs.N - 1, radius, 0.F, 4.F, 3.F, 0.F,
                                       /*axial blocks per bucket*/ 1, /*transaxial blocks per bucket*/ 1, /*axial crystals per block*/ cs.apb,
                                       /*transaxial crystals per block*/ cs.tpb, cs.apb, cs.tpb, 1, -1.F, -1.F, (short)-1, -1.F, -1.F, "Cylindrical",
                                       4.F, 3.F, 4.F * cs.apb, 3.F * cs.tpb));
    Geo G; G.scanner = label;
    G.pdi.reset(ProjDataInfo::construct_proj_data_info(sc, 1, cs.R - 1, cs.N / 2, cs.numTang, false, 0).release());
    const Geo Gsmall = reduced(G, 0);
    for (int variant = 0; variant < (level > 0 ? 6 : 4); ++variant) {
      begin_config(tr, label + " components " + std::to_string(variant));
      const bool do_eff = variant != 2, do_geo = variant == 1 || variant == 3 || variant == 5, do_blk = variant == 2 || variant == 3, one = variant == 4 || variant == 5;
      Obj o = make_comp(G, rng, do_eff, do_geo, do_blk, one);
      if (variant == 3) {
        Obj p = make_pd(G, rng, -2, 2); Obj t = make_trivial(); Obj pt = make_chain(t, o); Obj ch = make_chain(p, pt);
        exercise(rec, ch, G, level, false);
      } else
        exercise(rec, o, G, level, false);
      if (variant == 1) {   // data with a narrower tangential range pass the geometry check
        Geo Gnarrow; Gnarrow.scanner = label;
        Gnarrow.pdi.reset(ProjDataInfo::construct_proj_data_info(sc, 1, cs.R - 1, cs.N / 2, cs.numTang - 2, false, 0).release());
        rec.all_related(o, Gnarrow, groupings(Gnarrow.pdi, 0)[0], 4);
        rec.all_related(o, Gsmall, groupings(Gsmall.pdi, 0)[0], 4);
        rec.whole(o, Gsmall, Sym{ "default", nullptr }, false);
      }
      if (variant == 0) { emit_obj(tr, o); rec.set_up(o, Gsmall); }   // another geometry than the allocated one
    }
    reuse_components(rec, rng, label, G, Gsmall);
  }
}

// ---------------------------------------------------------------- attenuation scenarios
struct Img {
  shared_ptr<VoxelsOnCartesianGrid<float>> im;
  std::string json;   // description for the AttImg line
};

static void run_att(vh::Trace& tr, vh::Rng& rng, int level) {
  Rec rec(tr, rng, true);
  // vx, vy: transaxial voxel sizes in mm (integers); non-square voxels are legal for the ray-tracing matrix projector;
  // the axial voxel size is half the ring spacing (2 mm), so the grids are never cubic
  struct ASys { int N, R, numTang, nxy; const char* proj; int vx, vy; };
  std::vector<ASys> systems = { { 16, 3, 9, 17, "rt", 4, 4 }, { 16, 3, 9, 17, "m1", 4, 4 }, { 16, 3, 9, 17, "m1", 4, 3 } };
  if (level > 0) { systems.push_back({ 16, 4, 9, 19, "m2", 4, 4 }); systems.push_back({ 24, 3, 11, 21, "rt", 4, 4 }); systems.push_back({ 8, 3, 5, 13, "m1", 4, 4 });
                   systems.push_back({ 16, 3, 9, 17, "m2", 3, 5 }); systems.push_back({ 16, 4, 7, 15, "m1", 5, 4 }); }
  int sysno = 0;
  for (const ASys& sy : systems) {
    const std::string label = "att" + std::to_string(++sysno);
    const Geo G = make_geo(sy.N, sy.R, sy.R - 1, sy.numTang, 0, 0, label);
    const auto& pc = dynamic_cast<const ProjDataInfoCylindricalNoArcCorr&>(*G.pdi);
    c03::GridCfg gc; gc.nx = gc.ny = sy.nxy; gc.nz = 2 * sy.R - 1; gc.vx = (float)sy.vx; gc.vy = (float)sy.vy;
    const int half = sy.nxy / 2;
    begin_config(tr, label + " attenuation " + sy.proj);
    // the data geometry as the real classes describe it: s coordinate of every tangential position (1/256 mm)
    std::vector<long> s8;
    for (int t = G.pdi->get_min_tangential_pos_num(); t <= G.pdi->get_max_tangential_pos_num(); ++t) s8.push_back(vh::fx(pc.get_s(Bin(0, 0, 0, t)), 8));
    std::vector<long> phi;   // azimuthal angle of every view in units of pi / 2^16
    for (int v = 0; v < G.pdi->get_num_views(); ++v) phi.push_back(vh::fx(pc.get_phi(Bin(0, v, 0, 0)) / 3.14159265358979323846, 16));
    auto templ = c03::make_image(*G.pdi, gc);
    tr.emit(vh::Json("AttGeom").raw("G", geom_json(G)).str("proj", sy.proj).num("nx", gc.nx).num("ny", gc.ny).num("nz", gc.nz)
                .num("vx8", vh::fx(templ->get_voxel_size().x(), 8)).num("vy8", vh::fx(templ->get_voxel_size().y(), 8))
                .num("minx", templ->get_min_x()).num("maxx", templ->get_max_x()).num("miny", templ->get_min_y()).num("maxy", templ->get_max_y())
                .num("samp8", vh::fx(pc.get_sampling_in_s(Bin(0, 0, 0, 0)), 8)).arr("s8", s8).arr("phi16", phi));

    auto make_projector = [&]() -> shared_ptr<ForwardProjectorByBin> {
      shared_ptr<ForwardProjectorByBin> fp;
      if (std::string(sy.proj) == "rt") fp.reset(new ForwardProjectorByBinUsingRayTracing);
      else { auto m = c03::make_matrix(c03::Sw(), std::string(sy.proj) == "m2" ? 2 : 1, true, true); fp.reset(new ForwardProjectorByBinUsingProjMatrixByBin(m)); }
      return fp;
    };

    // images: uniform boxes (all planes), zero, two dyadic random images and their sum, a dominated image
    std::vector<Img> imgs;
    auto box = [&](int bx, int by, long mu16) {
      Img i; i.im = c03::make_image(*G.pdi, gc); i.im->fill(0.F);
      for (int z = 0; z < gc.nz; ++z) for (int y = -by; y <= by; ++y) for (int x = -bx; x <= bx; ++x) (*i.im)[z][y][x] = (float)mu16 / 65536.F;
      vh::Json j; j.str("kind", "box").num("bx", bx).num("by", by).num("mu16", mu16); i.json = j.done();
      return i; };
    // mu chosen so that the ACF along the y-parallel chord (length (2 by + 1) * 4 mm) is about 2^k
    // (a chord of 2 n + 1 voxels of `vox' mm)
    auto mu_for = [&](int n, int vox, int k) { return (long)std::llround(k * 0.6931471805599453 * 10.0 / ((2 * n + 1) * (double)vox) * 65536.0); };
    // boxes that fit into the projectors' cylindrical field of view (radius about half * min voxel size ... ): the chord
    // direction spans 0.75 of the radius either way, the perpendicular direction 0.62 of it
    const double fov = std::min(half * (double)sy.vx, half * (double)sy.vy);
    auto along = [&](int vox) { return std::max(1, (int)std::floor(0.75 * fov / vox - 0.5)); };
    auto across = [&](int vox) { return std::min(half - 1, std::max(1, (int)std::ceil(0.62 * fov / vox - 0.5))); };
    imgs.push_back(box(across(sy.vx), along(sy.vy), mu_for(along(sy.vy), sy.vy, 1)));     // ACF ~ 2 along the y-parallel chords
    imgs.push_back(box(along(sy.vx), across(sy.vy), mu_for(along(sy.vx), sy.vx, 2)));     // ACF ~ 4 along the x-parallel chords
    if (level > 0) imgs.push_back(box(across(sy.vx) + 1, along(sy.vy) - 1, mu_for(along(sy.vy) - 1, sy.vy, 3)));
    { Img z; z.im = c03::make_image(*G.pdi, gc); z.im->fill(0.F); z.json = "{\"kind\":\"zero\"}"; imgs.push_back(z); }
    const int first_rand = (int)imgs.size() + 1;
    auto rnd = [&](int denom) {
      Img i; i.im = c03::make_image(*G.pdi, gc); i.im->fill(0.F);
      for (int z = 0; z < gc.nz; ++z) for (int y = -half + 1; y <= half - 1; ++y) for (int x = -half + 1; x <= half - 1; ++x)
        if (x * x + y * y <= (half - 1) * (half - 1)) (*i.im)[z][y][x] = (float)rng.range(0, 24) / (float)denom;   // dyadic: sums are exact
      i.json = "{\"kind\":\"rand\"}";
      return i; };
    imgs.push_back(rnd(128));
    imgs.push_back(rnd(256));
    { Img s; s.im.reset(imgs[first_rand - 1].im->clone()); *s.im += *imgs[first_rand].im;
      vh::Json j; j.str("kind", "sum").arr("parts", std::vector<int>{ first_rand, first_rand + 1 }).arr("ge", std::vector<int>{ first_rand, first_rand + 1 });
      s.json = j.done(); imgs.push_back(s); }
    { Img d; d.im.reset(imgs[first_rand - 1].im->clone());   // pointwise <= first random image
      for (auto it = d.im->begin_all(); it != d.im->end_all(); ++it) if (rng.coin()) *it *= 0.5F;
      vh::Json j; j.str("kind", "dominated").arr("le", std::vector<int>{ first_rand }); d.json = j.done(); imgs.push_back(d); }

    int id = 0;
    std::vector<Obj> objs;
    for (Img& im : imgs) {
      ++id;
      tr.emit(vh::Json("AttImg").num("img", id).raw("desc", im.json));
      Obj o;
      o.fp = make_projector();
      o.norm.reset(new BinNormalisationFromAttenuationImage(im.im, o.fp));
      o.has_att = true;
      o.projsym = "proj";
      vh::Json j; j.str("cls", "Att").num("img", id).str("projsym", "proj"); o.json = j.done();
      emit_obj(tr, o);
      if (id == 1) {   // use before set_up
        ProjDataInMemory data(the_exam_info(), G.pdi); rec.fill_random(data);
        rec.whole(o, G, Sym{ "default", nullptr }, false);
      }
      rec.set_up(o, G);
      rec.is_trivial(o);
      Sym ps{ "proj", shared_ptr<DataSymmetriesForViewSegmentNumbers>(o.fp->get_symmetries_used()->clone()) };
      // the table of lg ACF: apply on data that are 1 everywhere
      {
        ProjDataInMemory ones(the_exam_info(), G.pdi); ones.fill(1.F);
        const bool err = vh::threw([&] { o.norm->apply(ones, ps.sym); });
        tr.emit(vh::Json("AttTab").num("img", id).raw("G", geom_json(G)).boolean("err", err).raw("lg", data5(ones, enc_lg)));
      }
      rec.all_related(o, G, ps, level == 0 ? 12 : 60);
      if (id <= 2 || level > 0) {
        rec.whole(o, G, ps, id % 2 == 0);
        // groupings other than the projector's own, and the default argument of apply(ProjData&)
        const std::vector<Sym> syms = groupings(G.pdi, 0);
        rec.all_related(o, G, syms[0], 4);
        rec.whole(o, G, Sym{ "default", nullptr }, false);
        if (syms.size() > 2) rec.all_related(o, G, syms[2], 4);
      }
      objs.push_back(o);
    }
    // re-use: the class documents that it keeps its own copy of the image ("we won't be affected by the caller"):
    // the caller's image is overwritten, set_up is called again (same geometry), the factors must be the recorded ones
    {
      Obj& o = objs[0];
      emit_obj(tr, o);
      Sym ps{ "proj", nullptr };
      rec.set_up(o, G);
      ps.sym.reset(o.fp->get_symmetries_used()->clone());
      rec.all_related(o, G, ps, 6);
      imgs[0].im->fill(0.37F);
      emit_mod(tr, o, "the caller's attenuation image overwritten after construction", false);
      rec.all_related(o, G, ps, 4);
      light(rec, o, G, &ps);
      light(rec, o, G, &ps);
    }
    // chains with an attenuation member
    {
      Obj p = make_pd(G, rng, -2, 2);
      Obj ch = make_chain(objs[0], p);
      emit_obj(tr, ch);
      rec.set_up(ch, G);
      Sym ps{ "proj", shared_ptr<DataSymmetriesForViewSegmentNumbers>(ch.fp->get_symmetries_used()->clone()) };
      rec.all_related(ch, G, ps, level == 0 ? 10 : 40);
      rec.whole(ch, G, ps, false);
      Obj c2 = make_cal(G, rng, -1, 1, 1, 0, 0);
      Obj in = make_chain(c2, objs[1]);
      Obj ch3 = make_chain(p, in);
      emit_obj(tr, ch3);
      rec.set_up(ch3, G);
      Sym ps3{ "proj", shared_ptr<DataSymmetriesForViewSegmentNumbers>(ch3.fp->get_symmetries_used()->clone()) };
      rec.all_related(ch3, G, ps3, level == 0 ? 10 : 40);
      rec.whole(ch3, G, ps3, true);
    }
    // TOF data: documented limitation of the class
    {
      const Geo Gt = make_geo(sy.N, sy.R, sy.R - 1, sy.numTang, 1, 3, label + "tof");
      emit_obj(tr, objs[0]);
      rec.set_up(objs[0], Gt);
    }
  }
}

int main(int argc, char** argv) {
  if (argc < 4) return 2;
  vh::install_terminate(); vh::quiet();
  if (!getenv("VERIF_STDERR")) { if (!freopen("/dev/null", "w", stderr)) return 3; }
  const std::string mode = argv[1];
  vh::Trace tr(argv[2]);
  const int level = atoi(argv[3]);
  vh::Rng rng(vh::seed_from_env());
  if (mode == "exact") run_exact(tr, rng, level);
  else if (mode == "att") run_att(tr, rng, level);
  else return 2;
  return 0;
}
