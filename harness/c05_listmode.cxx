// C05 driver, list-mode objective function: PoissonLogLikelihoodWithLinearModelForMeanAndListModeDataWithProjMatrixByBin
// as a second instance of the definitions of PoissonLL.tla, on the explicit-matrix seam, fed by the in-memory
// list-mode seam (vh_listmode.h).  The data y_b of the specification are the NUMBER OF PROMPT EVENTS generated for bin b
// (through the detection positions of the bin, binned back by the real geometry code); time records and delayed events
// are interspersed and must not count.  Events are read in one batch, in several batches re-read from the stream, or in
// batches cached in files on disk.
// No property formula, no expected value, no comparison here: TLC (Trace_PoissonLL.tla, instances with "lm":true) decides.
//
//   c05_listmode run <out.ndjson> <scratch-dir> <num-instances>
//
// Exactness: the list-mode code adds 1/d per event, so the means d must be powers of two (the two power-of-two
// families of c05_seam.h).  The value is requested at lambda and at 2 lambda (family without additive term only: the
// means double), so that TLC can decide the DIFFERENCE of values, which is free of terms independent of the image.
#include "c05_seam.h"
#include "vh_listmode.h"
#include "stir/recon_buildblock/PoissonLogLikelihoodWithLinearModelForMeanAndListModeDataWithProjMatrixByBin.h"
#include "stir/ProjDataInfoCylindricalNoArcCorr.h"
#include <algorithm>
using namespace stir;
using namespace c05;

namespace c05lm {

typedef PoissonLogLikelihoodWithLinearModelForMeanAndListModeDataWithProjMatrixByBin<Img> LMLL;
class LmOF : public LMLL {
public:
  // number of events per batch when the events are re-read from the stream for every computation (no setter: set_up fixes it to 10^6)
  void set_batch_size_in_memory(unsigned long n) { this->cache_size = n; }
};

struct LmOpts { long batch = 0; bool disk = false; };

static void run(vh::Trace& tr, const Sys& s, const Matrix& m, const Inst& in, const LmOpts& lo, vh::Rng& rng, const std::string& scratch) {
  const Opts& o = in.o;
  const ProjDataInfoCylindricalNoArcCorr& pdi = dynamic_cast<const ProjDataInfoCylindricalNoArcCorr&>(*s.t.proj_data_info);
  // the event stream: y_b prompts for bin b, shuffled; a time record every ~50 events; delayed events in between
  std::vector<vh::LmRec> ev;
  for (size_t b = 0; b < s.bins.size(); ++b) {
    DetectionPositionPair<> dp;
    pdi.get_det_pos_pair_for_bin(dp, s.bins[b]);
    for (int k = 0; k < in.y[b]; ++k)
      ev.push_back(vh::LmRec::prompt(dp.pos1().tangential_coord(), dp.pos1().axial_coord(), dp.pos2().tangential_coord(), dp.pos2().axial_coord(), dp.timing_pos()));
    if (rng.range(0, 3) == 0)
      ev.push_back(vh::LmRec::delayed(dp.pos1().tangential_coord(), dp.pos1().axial_coord(), dp.pos2().tangential_coord(), dp.pos2().axial_coord(), dp.timing_pos()));
  }
  for (size_t i = ev.size(); i > 1; --i) std::swap(ev[i - 1], ev[rng.next() % i]);
  std::vector<vh::LmRec> recs;
  long prompts = 0;
  recs.push_back(vh::LmRec::time(0));
  for (size_t i = 0; i < ev.size(); ++i) {
    if (i % 50 == 49) recs.push_back(vh::LmRec::time((unsigned long)(i / 50 + 1)));
    recs.push_back(ev[i]);
    prompts += ev[i].kind == vh::LmRec::Prompt;
  }
  shared_ptr<vh::VhListModeData<>> lm(new vh::VhListModeData<>(s.t.proj_data_info, recs));

  shared_ptr<Img> lam = image_from(s, in.lam), x = image_from(s, in.x);
  shared_ptr<Img> lam2(lam->clone());
  for (auto it = lam2->begin_all(); it != lam2->end_all(); ++it) *it *= 2.F;
  std::vector<float> af(in.a.begin(), in.a.end());
  shared_ptr<ProjData> a;
  if (o.additive) a = make_pd(s, s.t.proj_data_info, af, false);
  shared_ptr<RecNorm> rec;
  shared_ptr<BinNormalisation> norm = make_norm(s, in, &rec);
  shared_ptr<vh::ExplicitProjMatrix> pm(new vh::ExplicitProjMatrix(m.data));
  pm->enable_cache(o.cache);

  LmOF of;
  of.set_input_data(lm);
  of.set_proj_matrix(pm);
  if (o.additive) of.set_additive_proj_data_sptr(a);
  of.set_normalisation_sptr(norm);
  of.set_max_segment_num_to_process(o.maxseg);
  of.set_num_subsets(o.N);
  of.set_use_subset_sensitivities(o.uss);
  of.set_recompute_sensitivity(true);
  of.set_skip_balanced_subsets(true);
  if (lo.disk) { of.set_cache_path(scratch); of.set_cache_max_size((unsigned long)lo.batch); of.set_recompute_cache(true); }

  emit_system(tr, m);
  tr.emit(vh::Json("Instance").boolean("lm", true).boolean("reuse", false).num("sys", m.id).boolean("tof", s.tof).boolean("tofSensAsked", false).boolean("tofNorm", false)
              .boolean("additive", o.additive).str("norm", norm_names[o.norm]).boolean("wrapNorm", false).boolean("zero", false).num("maxSegAsked", o.maxseg)
              .boolean("uss", o.uss).num("N", o.N).boolean("prior", false).boolean("supplied", false).boolean("cache", o.cache).num("fill", 0).num("family", o.family)
              .boolean("approx", false).num("batch", lo.batch).boolean("disk", lo.disk).num("prompts", prompts).num("records", (long)recs.size())
              .arr("lam", in.lam).arr("x", in.x).arr("y", in.y).arr("a", in.a).arr("ef", in.e));
  std::string msg;
  bool ok = false;
  const bool err = vh::threw([&] { ok = of.set_up(lam) == Succeeded::yes; }, &msg);
  if (!lo.disk && lo.batch > 0) of.set_batch_size_in_memory((unsigned long)lo.batch);
  vh::Json js("SetUp");
  js.boolean("err", err).boolean("ok", ok).boolean("tofSens", false).num("maxSeg", o.maxseg < 0 ? s.t.proj_data_info->get_max_segment_num() : o.maxseg);
  if (err) js.str("msg", msg.substr(0, 160));
  norm_uses(js, rec);
  tr.emit(js);
  if (err || !ok) return;

  std::vector<Req> reqs;
  // several subsets without subset sensitivities: "cannot subtract subset sensitivity" - gradient and value are not requested
  const bool nograd = !o.uss && o.N > 1;
  for (int sub = 0; sub < o.N; ++sub) {
    reqs.push_back(Req{ Grad, sub, false });
    reqs.push_back(Req{ GradPlusSens, sub, false });
    reqs.push_back(Req{ Hess, sub, false });
    reqs.push_back(Req{ Sens, sub, false });
    reqs.push_back(Req{ AddSens, sub, false });
    reqs.push_back(Req{ Value, sub, false });
  }
  reqs.push_back(Req{ Grad, -1, false });
  reqs.push_back(Req{ Hess, -1, false });
  reqs.push_back(Req{ Sens, -1, false });
  reqs.push_back(Req{ Value, -1, false });
  if (nograd) reqs.erase(std::remove_if(reqs.begin(), reqs.end(), [](const Req& q) { return q.kind == Grad || q.kind == Value; }), reqs.end());
  for (size_t i = reqs.size(); i > 1; --i) std::swap(reqs[i - 1], reqs[rng.next() % i]);
  for (const Req& q : reqs) {
    if (q.kind != Value) { do_request(tr, of, rec, q, *lam, *x, rng); continue; }
    // the value at lambda and at 2 lambda
    double v1 = 0, v2 = 0;
    std::string m2;
    const bool e2 = vh::threw([&] {
      if (q.sub < 0) { v1 = of.compute_objective_function_without_penalty(*lam); v2 = of.compute_objective_function_without_penalty(*lam2); }
      else { v1 = of.compute_objective_function_without_penalty(*lam, q.sub); v2 = of.compute_objective_function_without_penalty(*lam2, q.sub); }
    }, &m2);
    vh::Json j("ValueDiff");
    j.num("sub", q.sub).boolean("pen", false).boolean("err", e2).num("k", 10).num("val", e2 ? 0 : std::llround(std::ldexp(v1, 10))).num("val2", e2 ? 0 : std::llround(std::ldexp(v2, 10)));
    if (e2) j.str("msg", m2.substr(0, 120));
    norm_uses(j, rec);
    tr.emit(j);
  }
  if (lo.disk)
    for (int i = 0; i < 5000; ++i) if (std::remove((scratch + "/my_CACHE" + std::to_string(i) + ".bin").c_str()) != 0 && i > 2) break;
}

// entry point (this file is #included by c05_poissonll.cxx: all C05 drivers form one translation unit, hence one
// executable with complete dependency tracking)
int entry(int argc, char** argv) {
  if (argc < 5) { fprintf(stderr, "usage: c05_listmode run <out.ndjson> <scratch-dir> <count>\n"); return 2; }
  const std::string scratch = argv[3];
  const long count = atol(argv[4]);
  vh::Trace tr(argv[2]);
  vh::Rng rng(vh::seed_from_env());
  Sys sys[2] = { make_sys(false), make_sys(true) };
  Matrix m[2][2];
  for (long i = 0; i < count; ++i) {
    const int t = (i / 2) % 2;
    Opts o;
    o.family = rng.coin() ? 1 : 2;
    o.additive = o.family == 1;
    o.approx = true;   // no zero counts needed? (kept: every bin with a non-empty row gets events)
    o.norm = rng.range(0, 4);
    o.maxseg = rng.range(-1, 2);
    o.N = rng.range(1, 4);
    o.uss = o.N > 1 ? rng.range(0, 3) != 0 : rng.coin();   // without them gradient and value of a subset are refused (documented)
    if (!o.uss && o.N == 3) o.N = 4;     // total/N must stay exactly representable
    o.cache = rng.range(0, 3) != 0;
    o.wrapnorm = false;
    const int p2rows = o.family == 2 ? 1 : 0;
    if (!m[t][p2rows].data || rng.range(0, 5) == 0)
      m[t][p2rows] = p2rows ? make_matrix(tr, sys[t], rng, 1, 2, true) : make_matrix(tr, sys[t], rng, 2, 2, true);
    Inst in = make_inst(sys[t], m[t][p2rows], rng, o);
    if (rng.coin())   // zero counts in some bins
      for (size_t b = 0; b < in.y.size(); ++b) if (rng.range(0, 4) == 0) in.y[b] = 0;
    LmOpts lo;
    const int mode = (int)(i % 4);
    if (mode == 1) { lo.batch = rng.range(1, 40); lo.disk = false; }
    else if (mode == 2) { lo.batch = rng.range(20, 400); lo.disk = true; }
    else if (mode == 3) { lo.batch = 100000; lo.disk = false; }
    run(tr, sys[t], m[t][p2rows], in, lo, rng, scratch);
  }
  tr.emit(vh::Json("End").num("lines", tr.lines));
  return 0;
}
} // namespace c05lm
