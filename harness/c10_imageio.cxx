// C10 driver: image file round trips through the real OutputFileFormat / read_from_file API.
// DRIVES and RECORDS only: it builds images, calls write_to_file / read_from_file, decodes the
// files that were written with its OWN header/raw-data reader and logs everything as ndjson.
// No expected values, no comparisons of results, no property formula: TLC (Trace_ImageIO.tla) decides.
//
//   c10_imageio rt    <out.ndjson> <ncases> <stage>   round trips (stage 0 quick, 1 thorough, 2 without types wider than int)
//   c10_imageio trunc <out.ndjson> <stage>            data file truncated at every length
//   c10_imageio geo   <out.ndjson> 0                  exhaustive family origin zero/non-zero x standard/shifted index range per axis x containers
//
// Number encodings (DESIGN.md section 4):
//   positions / voxel sizes / origins : Q  = round(mm*8) + residual in 1e-6 of that unit
//   voxel values written              : E  = integer m with common exponent e   (v = m * 2^e)
//   voxel values read / decoded       : F  = round(v * 2^(k-e)), k logged, saturated at +-(2^31-1)
//   scale factors                     : exact float decomposition sm * 2^se (sm odd) + F value
//   float bit patterns                : int32
#include "vh_stir.h"
#include "stir/VoxelsOnCartesianGrid.h"
#include "stir/DynamicDiscretisedDensity.h"
#include "stir/modelling/ParametricDiscretisedDensity.h"
#include "stir/IO/OutputFileFormat.h"
#include "stir/IO/InterfileOutputFileFormat.h"
#include "stir/IO/InterfileDynamicDiscretisedDensityOutputFileFormat.h"
#include "stir/IO/InterfileParametricDiscretisedDensityOutputFileFormat.h"
#include "stir/IO/MultiDynamicDiscretisedDensityOutputFileFormat.h"
#include "stir/IO/MultiParametricDiscretisedDensityOutputFileFormat.h"
#include "stir/IO/read_from_file.h"
#include "stir/IndexRange3D.h"
#include "stir/Succeeded.h"
#include "stir/RadionuclideDB.h"
#include "stir/Scanner.h"
#include <map>
#include <cstring>
#include <sys/stat.h>
#include <dirent.h>
using namespace stir;
typedef VoxelsOnCartesianGrid<float> Vox;
typedef DiscretisedDensity<3, float> Dens;

static const long long SAT = 1073741824LL;   // 2^30: differences of two logged numbers stay below 2^31 in TLC
static long long sat(long long x) { return x > SAT ? SAT : (x < -SAT ? -SAT : x); }
static long long satd(double x) {
  if (!(x == x)) return SAT;   // NaN
  if (x > 1.0e9) return SAT;
  if (x < -1.0e9) return -SAT;
  return sat(std::llround(x));
}
// fixed point with saturation: round(v * 2^p)
static long long fxs(double v, int p) { return satd(std::ldexp(v, p)); }
static int fbits(float f) { int32_t b; std::memcpy(&b, &f, 4); return b; }

// ---------------------------------------------------------------- case description
struct TypeDesc { const char* name; const char* fmt; int bytes; bool integer, is_signed; };
static const TypeDesc TYPES[10] = {
  { "SCHAR", "signed integer", 1, true, true },   { "UCHAR", "unsigned integer", 1, true, false },
  { "SHORT", "signed integer", 2, true, true },   { "USHORT", "unsigned integer", 2, true, false },
  { "INT", "signed integer", 4, true, true },     { "UINT", "unsigned integer", 4, true, false },
  { "LONG", "signed integer", 8, true, true },    { "ULONG", "unsigned integer", 8, true, false },
  { "FLOAT", "float", 4, false, true },           { "DOUBLE", "float", 8, false, true } };

struct ExamSpec {
  int modality;              // ImagingModality enum
  int orient, rot;
  std::vector<std::pair<double, double>> frames;   // start, duration (s, multiples of 1/8)
  int rn;                    // 0 none, 1 DB nuclide for the modality, 2 second DB nuclide, 3 custom
  double lo, hi, cal;        // keV (multiples of 1/8; -1 unset), calibration (multiple of 1/4; -1 unset)
  double start;              // study start time, whole seconds since 1970 (0 unset)
};

struct Case {
  long id;
  std::string kind;          // single | dyn | par
  std::string fmt;           // Interfile | Multi
  int mn[3], sz[3];          // z,y,x
  int org8[3], vox8[3];      // 1/8 mm
  int type; int bo;          // bo: 0 little 1 big
  int scale_m, scale_e;      // requested scale = scale_m * 2^scale_e  (scale_m == 0: automatic)
  int nd;                    // number of data sets (frames / parameters)
  int vexp;                  // common exponent e
  std::string dist;          // value distribution name
  std::vector<std::vector<int>> m;   // mantissas per data set, z-major order
  ExamSpec ex;
  int multi_type;            // Multi: on-disk type of the individual images
  bool variants = false;     // single images: also read through re-spelled / re-located headers
};

static std::string g_dir;

static std::string std_key(const std::string& k);
static void rm_files_in(const std::string& dir) {
  DIR* d = opendir(dir.c_str());
  if (!d) return;
  while (dirent* e = readdir(d)) { if (e->d_name[0] == '.') continue; std::string p = dir + "/" + e->d_name; unlink(p.c_str()); }
  closedir(d);
}
static void rm_files() { rm_files_in(g_dir + "/sub"); rmdir((g_dir + "/sub").c_str()); rm_files_in(g_dir); }

// Re-writes a header that write_to_file produced in another legal spelling / place (the DATA file is untouched):
//   "rel"  header in a sub-directory, data file named relative to the header's directory (../name)
//   "abs"  header in a sub-directory, data file named by its absolute path
//   "text" same directory; comment lines, blank lines, upper-case keys, extra blanks around := and at line ends
// returns the name of the new header ("" on failure)
static std::string header_variant(const std::string& hv, const std::string& variant) {
  std::ifstream in(hv.c_str());
  if (!in) return "";
  const std::string base = hv.substr(hv.find_last_of('/') + 1);
  std::string out_name;
  if (variant == "text") out_name = g_dir + "/v_" + base;
  else { mkdir((g_dir + "/sub").c_str(), 0777); out_name = g_dir + "/sub/" + base; }
  std::ofstream out(out_name.c_str());
  std::string line; int n = 0;
  while (std::getline(in, line)) {
    ++n;
    const size_t p = line.find(":=");
    std::string k = p == std::string::npos ? line : line.substr(0, p), v = p == std::string::npos ? "" : line.substr(p + 2);
    if (std_key(k) == "nameofdatafile") {
      size_t a = v.find_first_not_of(" \t");
      const std::string name = a == std::string::npos ? "" : v.substr(a);
      if (variant == "rel") v = " ../" + name;
      else if (variant == "abs") v = " " + g_dir + "/" + name;
    }
    if (variant == "text" && p != std::string::npos) {
      if (n > 1) for (char& ch : k) ch = (char)toupper(ch);
      out << k << "   :=  " << v << "   \n";
      if (n % 3 == 1) out << "; a comment line := with a separator\n\n";
    } else if (p != std::string::npos) out << k << ":=" << v << "\n";
    else out << line << "\n";
  }
  return out_name;
}

// ---------------------------------------------------------------- building the STIR objects
static shared_ptr<ExamInfo> make_exam(const ExamSpec& e) {
  shared_ptr<ExamInfo> ei(new ExamInfo(ImagingModality(static_cast<ImagingModality::ImagingModalityValue>(e.modality))));
  ei->patient_position = PatientPosition(static_cast<PatientPosition::OrientationValue>(e.orient), static_cast<PatientPosition::RotationValue>(e.rot));
  if (!e.frames.empty()) {
    ei->time_frame_definitions.set_num_time_frames((int)e.frames.size());
    for (size_t i = 0; i < e.frames.size(); ++i) ei->time_frame_definitions.set_time_frame((int)i + 1, e.frames[i].first, e.frames[i].first + e.frames[i].second);
  }
  if (e.lo > -1) ei->set_low_energy_thres((float)e.lo);
  if (e.hi > -1) ei->set_high_energy_thres((float)e.hi);
  if (e.cal > -1) ei->set_calibration_factor((float)e.cal);
  ei->start_time_in_secs_since_1970 = e.start;
  if (e.rn == 1 || e.rn == 2) {
    RadionuclideDB db;
    const bool nm = e.modality == ImagingModality::NM;
    const char* name = nm ? (e.rn == 1 ? "^99m^Technetium" : "^123^Iodine") : (e.rn == 1 ? "^11^Carbon" : "^18^Fluorine");
    ei->set_radionuclide(db.get_radionuclide(ei->imaging_modality, name));
  } else if (e.rn == 4) {
    // a name the database knows, with half life and branching ratio overridden by the caller
    ei->set_radionuclide(Radionuclide(e.modality == ImagingModality::NM ? "^99m^Technetium" : "^11^Carbon", e.modality == ImagingModality::NM ? 140.5F : 511.F, 0.5F, 4321.5F,
                                      ei->imaging_modality));
  } else if (e.rn == 3) {
    ei->set_radionuclide(Radionuclide("Xx-99", e.modality == ImagingModality::NM ? -1.F : 511.F, 0.75F, 1234.5F, ei->imaging_modality));
  }
  return ei;
}

static shared_ptr<Vox> make_vox(const Case& c, const shared_ptr<ExamInfo>& ei) {
  return shared_ptr<Vox>(new Vox(ei, IndexRange3D(c.mn[0], c.mn[0] + c.sz[0] - 1, c.mn[1], c.mn[1] + c.sz[1] - 1, c.mn[2], c.mn[2] + c.sz[2] - 1),
                                 CartesianCoordinate3D<float>(c.org8[0] / 8.F, c.org8[1] / 8.F, c.org8[2] / 8.F),
                                 CartesianCoordinate3D<float>(c.vox8[0] / 8.F, c.vox8[1] / 8.F, c.vox8[2] / 8.F)));
}

static void fill_vox(Vox& im, const std::vector<int>& m, int e) {
  size_t i = 0;
  for (auto it = im.begin_all(); it != im.end_all(); ++it, ++i) *it = std::ldexp((float)m[i], e);
}

// ---------------------------------------------------------------- logging helpers
static int kbits_for(const Case& c) {
  long long mx = 0;
  for (auto& v : c.m) for (int x : v) mx = std::max<long long>(mx, std::llabs((long long)x));
  int bl = 0; while ((1LL << bl) <= mx) ++bl;
  return 28 - bl;      // max|m| * 2^k < 2^28
}

static std::string exam_json(const ExamInfo& e) {
  vh::Json j;
  j.str("mod", e.imaging_modality.get_name()).num("orient", e.patient_position.get_orientation()).num("rot", e.patient_position.get_rotation());
  std::vector<std::vector<long long>> fr;
  for (unsigned i = 1; i <= e.time_frame_definitions.get_num_frames(); ++i)
    fr.push_back({ satd(e.time_frame_definitions.get_start_time(i) * 1000.), satd(e.time_frame_definitions.get_duration(i) * 1000.) });
  j.arr2("frames", fr);
  const Radionuclide rn = e.get_radionuclide();
  j.str("rn", rn.get_name()).num("hlms", satd(rn.get_half_life(false) * 1000.)).num("brppm", satd(rn.get_branching_ratio(false) * 1.e6));
  j.num("lo8", satd(e.get_low_energy_thres() * 8.)).num("hi8", satd(e.get_high_energy_thres() * 8.)).num("cal4", satd(e.get_calibration_factor() * 4.));
  // study start time in days + seconds of the day (both fit TLC's integers)
  { const double st = e.start_time_in_secs_since_1970; const double dd = std::floor(st / 86400.);
    j.num("startD", satd(dd)).num("startS", satd((st - dd * 86400.) * 1.)).num("startMs", satd((st - std::floor(st)) * 1000.)); }
  return j.done();
}

// Q encoding of a length in mm: unit 1/8 mm, residual in 1e-6 units
static void q8(double mm, long long& q, long long& r) { double u = mm * 8.; q = satd(u); r = satd((u - (double)q) * 1.e6); }

static std::string geom_json(const Vox& im, const std::vector<std::vector<int>>& probe_offsets) {
  vh::Json j;
  BasicCoordinate<3, int> mn, mx;
  im.get_regular_range(mn, mx);
  std::vector<long long> vmin = { mn[1], mn[2], mn[3] }, vsz = { mx[1] - mn[1] + 1, mx[2] - mn[2] + 1, mx[3] - mn[3] + 1 };
  j.arr("min", vmin).arr("size", vsz);
  std::vector<long long> o(3), orr(3), v(3), vr(3);
  for (int d = 0; d < 3; ++d) { q8(im.get_origin()[d + 1], o[d], orr[d]); q8(im.get_voxel_size()[d + 1], v[d], vr[d]); }
  j.arr("org", o).arr("orgR", orr).arr("vox", v).arr("voxR", vr);
  // physical positions reported by the API for probe voxels given as OFFSETS from the minimum index
  std::vector<std::vector<long long>> pos;
  for (auto& off : probe_offsets) {
    BasicCoordinate<3, int> idx = make_coordinate(mn[1] + off[0], mn[2] + off[1], mn[3] + off[2]);
    CartesianCoordinate3D<float> p = im.get_physical_coordinates_for_indices(idx);
    std::vector<long long> row = { off[0], off[1], off[2], 0, 0, 0, 0, 0, 0 };
    for (int d = 0; d < 3; ++d) q8(p[d + 1], row[3 + d], row[6 + d]);
    pos.push_back(row);
  }
  j.arr2("pos", pos);
  return j.done();
}

static std::string join_raw(const std::vector<std::string>& v) { std::string s = "["; for (size_t i = 0; i < v.size(); ++i) { if (i) s += ','; s += v[i]; } return s + "]"; }

template <class V> static std::string arr_raw(const V& v) { std::string s = "["; bool f = true; for (auto x : v) { if (!f) s += ','; f = false; s += std::to_string((long long)x); } return s + "]"; }

static std::vector<std::vector<int>> probe_offsets_for(const Case& c, vh::Rng& rng) {
  std::vector<std::vector<int>> p;
  const long n = (long)c.sz[0] * c.sz[1] * c.sz[2];
  if (n <= 64 && c.kind == "single") {
    for (int z = 0; z < c.sz[0]; ++z) for (int y = 0; y < c.sz[1]; ++y) for (int x = 0; x < c.sz[2]; ++x) p.push_back({ z, y, x });
  } else {
    for (int a = 0; a < 2; ++a) for (int b = 0; b < 2; ++b) for (int d = 0; d < 2; ++d) p.push_back({ a * (c.sz[0] - 1), b * (c.sz[1] - 1), d * (c.sz[2] - 1) });
    for (int i = 0; i < 8; ++i) p.push_back({ rng.range(0, c.sz[0] - 1), rng.range(0, c.sz[1] - 1), rng.range(0, c.sz[2] - 1) });
  }
  return p;
}

// values of an image in F encoding + float bit patterns
static void vals_of(const Vox& im, int p, std::vector<long long>& fx, std::vector<int>& bits) {
  for (auto it = im.begin_all_const(); it != im.end_all_const(); ++it) { fx.push_back(fxs(*it, p)); bits.push_back(fbits(*it)); }
}

// ---------------------------------------------------------------- the driver's OWN reader of what was written
static std::string std_key(const std::string& k) {
  std::string o;
  for (char ch : k) { if (ch == '!' || ch == ' ' || ch == '\t' || ch == '_') continue; o += (char)tolower(ch); }
  return o;
}
static bool own_parse_header(const std::string& fn, std::map<std::string, std::string>& kv) {
  std::ifstream in(fn.c_str());
  if (!in) return false;
  std::string line;
  while (std::getline(in, line)) {
    size_t p = line.find(":=");
    if (p == std::string::npos) continue;
    std::string k = std_key(line.substr(0, p)), v = line.substr(p + 2);
    size_t a = v.find_first_not_of(" \t\r"), b = v.find_last_not_of(" \t\r");
    v = a == std::string::npos ? "" : v.substr(a, b - a + 1);
    kv[k] = v;
  }
  return true;
}
static bool has(const std::map<std::string, std::string>& kv, const std::string& k) { return kv.find(k) != kv.end(); }
static std::string get(const std::map<std::string, std::string>& kv, const std::string& k, const std::string& def = "") { auto it = kv.find(k); return it == kv.end() ? def : it->second; }
static double getd(const std::map<std::string, std::string>& kv, const std::string& k, double def) { auto it = kv.find(k); return it == kv.end() ? def : strtod(it->second.c_str(), nullptr); }

// exact decomposition of a float: f = sm * 2^se with sm odd (0 -> 0,0)
static void fdecomp(float f, long long& sm, long long& se) {
  if (f == 0 || !(f == f) || std::isinf(f)) { sm = 0; se = f == 0 ? 0 : 9999; return; }
  int ex; double fr = std::frexp((double)f, &ex);      // f = fr * 2^ex, 0.5 <= |fr| < 1
  long long mant = (long long)std::ldexp(fr, 24);       // exact: 24-bit mantissa
  ex -= 24;
  while (mant % 2 == 0) { mant /= 2; ++ex; }
  sm = mant; se = ex;
}

static long file_size(const std::string& f) { struct stat st; return stat(f.c_str(), &st) == 0 ? (long)st.st_size : -1; }



// decode one header file + its data file.  nvox = voxels per data set according to the header itself.
static std::string own_decode(const std::string& hdrname, int p /* F exponent */, std::vector<std::string>& datasets_json) {
  std::map<std::string, std::string> kv;
  vh::Json j;
  j.str("file", hdrname.substr(hdrname.find_last_of('/') + 1));
  if (!own_parse_header(hdrname, kv)) { j.boolean("present", false); return j.done(); }
  j.boolean("present", true);
  const std::string bo = get(kv, "imagedatabyteorder"), nf = get(kv, "numberformat");
  const int bpp = (int)getd(kv, "numberofbytesperpixel", 0);
  j.str("bo", bo).str("nf", nf).num("bpp", bpp);
  std::vector<long long> ms(3), vx(3), vxr(3), fpo(3), fpor(3);
  bool has_fpo = true;
  for (int d = 1; d <= 3; ++d) {
    const std::string i = "[" + std::to_string(d) + "]";
    ms[d - 1] = (long long)getd(kv, "matrixsize" + i, 0);
    q8(getd(kv, "scalingfactor(mm/pixel)" + i, 0), vx[d - 1], vxr[d - 1]);
    if (!has(kv, "firstpixeloffset(mm)" + i)) has_fpo = false;
    q8(getd(kv, "firstpixeloffset(mm)" + i, 0), fpo[d - 1], fpor[d - 1]);
  }
  j.arr("msize", ms).arr("vox", vx).arr("voxR", vxr).boolean("hasFpo", has_fpo).arr("fpo", fpo).arr("fpoR", fpor);
  j.str("labels", get(kv, "matrixaxislabel[1]") + get(kv, "matrixaxislabel[2]") + get(kv, "matrixaxislabel[3]"));
  const int nframes = (int)getd(kv, "numberoftimeframes", 0);
  const int ntypes = (int)getd(kv, "numberofimagedatatypes", 0);
  j.num("nframes", nframes).num("ntypes", ntypes);
  std::vector<std::vector<long long>> fr;
  for (int f = 1; f <= nframes; ++f) {
    const std::string i = "[" + std::to_string(f) + "]";
    if (has(kv, "imageduration(sec)" + i) || has(kv, "imagerelativestarttime(sec)" + i))
      fr.push_back({ f, satd(getd(kv, "imagerelativestarttime(sec)" + i, 0) * 1000.), satd(getd(kv, "imageduration(sec)" + i, 0) * 1000.) });
  }
  j.arr2("frames", fr);
  j.str("mod", get(kv, "imagingmodality", "-")).str("typeOfData", get(kv, "typeofdata", "-")).str("orient", get(kv, "patientorientation", "-")).str("rot", get(kv, "patientrotation", "-"));
  j.str("rn", get(kv, "radionuclidename[1]", "-")).num("hlms", satd(getd(kv, "radionuclidehalflife(sec)[1]", -1) * 1000.)).num("brppm", satd(getd(kv, "radionuclidebranchingfactor[1]", -1) * 1.e6));
  j.num("lo8", satd(getd(kv, "energywindowlowerlevel[1]", -1) * 8.)).num("hi8", satd(getd(kv, "energywindowupperlevel[1]", -1) * 8.)).num("cal4", satd(getd(kv, "calibrationfactor", -1) * 4.));
  j.boolean("hasQU", has(kv, "quantificationunits"));
  // the old-style ".ahv" convenience header written next to the .hv header
  {
    std::map<std::string, std::string> av;
    const std::string ahvname = hdrname.substr(0, hdrname.find_last_of('.')) + ".ahv";
    const bool ap = own_parse_header(ahvname, av);
    std::vector<long long> am = { (long long)getd(av, "matrixsize[1]", 0), (long long)getd(av, "matrixsize[2]", 0) };
    std::vector<long long> avx(2), avr(2);
    q8(getd(av, "scalingfactor(mm/pixel)[1]", 0), avx[0], avr[0]); q8(getd(av, "scalingfactor(mm/pixel)[2]", 0), avx[1], avr[1]);
    j.raw("ahv", vh::Json().boolean("present", ap).num("nimg", (long long)getd(av, "totalnumberofimages", 0)).arr("msize", am).arr("vox", avx).arr("voxR", avr)
                     .num("bpp", (long long)getd(av, "numberofbytesperpixel", 0)).str("bo", get(av, "imagedatabyteorder", "-")).str("nf", get(av, "numberformat", "-"))
                     .str("data", get(av, "nameofdatafile", "-")).done());
  }
  // data sets
  const std::string dataname = hdrname.substr(0, hdrname.find_last_of('/') + 1) + get(kv, "nameofdatafile");
  const long dlen = file_size(dataname);
  j.str("data", get(kv, "nameofdatafile")).num("dlen", dlen);
  const int nds = std::max(1, ntypes > 0 ? ntypes : nframes);
  j.num("nds", nds);
  const long long nvox = ms[0] * ms[1] * ms[2];
  std::ifstream din(dataname.c_str(), std::ios::binary);
  const bool big = bo == "BIGENDIAN";
  for (int ds = 1; ds <= nds; ++ds) {
    const std::string i = "[" + std::to_string(ds) + "]";
    vh::Json dj;
    const bool has_sf = has(kv, "imagescalingfactor" + i);
    // scale factors are single-precision numbers written in decimal: the value meant is the nearest float
    const double sfd = (double)(float)(has_sf ? getd(kv, "imagescalingfactor" + i, 1) : (has(kv, "quantificationunits") ? getd(kv, "quantificationunits", 1) : 1.));
    const long long off = (long long)getd(kv, "dataoffsetinbytes" + i, 0);
    long long sm, se; fdecomp((float)sfd, sm, se);
    dj.str("file", hdrname.substr(hdrname.find_last_of('/') + 1)).boolean("hasSf", has_sf).num("sm", sm).num("se", se).num("S", fxs(sfd, p)).num("off", sat(off));
    std::vector<long long> stored, dec; std::vector<int> sbits;
    bool complete = false;
    if (din && nvox > 0 && nvox < 100000 && bpp > 0 && bpp <= 8) {
      std::vector<unsigned char> buf((size_t)(nvox * bpp));
      din.clear(); din.seekg(off);
      din.read((char*)buf.data(), (std::streamsize)buf.size());
      complete = (long long)din.gcount() == (long long)buf.size();
      if (complete)
        for (long long v = 0; v < nvox; ++v) {
          unsigned char b[8];
          for (int q = 0; q < bpp; ++q) b[q] = buf[(size_t)(v * bpp + (big ? bpp - 1 - q : q))];   // b = little endian bytes
          if (nf == "float") {
            double x;
            if (bpp == 4) { float f; std::memcpy(&f, b, 4); x = f; sbits.push_back(fbits(f)); } else { std::memcpy(&x, b, 8); }
            dec.push_back(fxs(x * sfd, p));
          } else {
            unsigned long long u = 0;
            for (int q = bpp - 1; q >= 0; --q) u = (u << 8) | b[q];
            long double val;
            if (nf == "signed integer") {
              long long s = (long long)u;
              if (bpp < 8 && (u >> (8 * bpp - 1))) s = (long long)(u | (~0ULL << (8 * bpp)));
              stored.push_back(sat(s)); val = (long double)s;
            } else { stored.push_back(u > (unsigned long long)SAT ? SAT : (long long)u); val = (long double)u; }
            dec.push_back(satd((double)std::ldexp(val * (long double)sfd, p)));
          }
        }
    }
    dj.boolean("complete", complete).raw("stored", arr_raw(stored)).raw("dec", arr_raw(dec)).raw("sbits", arr_raw(sbits));
    datasets_json.push_back(dj.done());
  }
  return j.done();
}

// ---------------------------------------------------------------- one round trip
struct Written { bool ok = false, threw = false; std::string file; std::vector<std::string> hdrfiles; std::string data_to_truncate; };

static std::string multi_params(const Case& c, const char* key) {
  // parameter text for the Multi formats: individual images written as Interfile with the case's type
  const TypeDesc& t = TYPES[c.type];
  std::ostringstream s;
  s << key << " :=\n"
    << "individual output file format type := Interfile\n"
    << "Interfile Output File Format Parameters :=\n"
    << "number format := " << t.fmt << "\nnumber of bytes per pixel := " << t.bytes << "\n"
    << "byte order := " << (c.bo ? "BIGENDIAN" : "LITTLEENDIAN") << "\n";
  s.precision(17);
  if (c.scale_m) s << "scale_to_write_data := " << std::ldexp((double)c.scale_m, c.scale_e) << "\n";
  s << "End Interfile Output File Format Parameters :=\n"
    << "End Multi Output File Format Parameters :=\n";
  return s.str();
}

static void emit_img(vh::Trace& tr, const Case& c, const std::vector<shared_ptr<Vox>>& frames, const ExamInfo& exam,
                     const std::vector<std::vector<int>>& probes) {
  const int k = kbits_for(c);
  vh::Json j("Img");
  j.num("id", c.id).str("kind", c.kind).str("fmt", c.fmt).num("nd", c.nd).num("vexp", c.vexp).num("k", k).str("dist", c.dist);
  std::vector<std::string> g, vals, bits;
  for (auto& f : frames) {
    g.push_back(geom_json(*f, probes));
    std::vector<long long> fx; std::vector<int> b; vals_of(*f, k - c.vexp, fx, b);
    bits.push_back(arr_raw(b));
  }
  for (auto& m : c.m) vals.push_back(arr_raw(m));
  j.raw("geo", join_raw(g)).raw("m", join_raw(vals)).raw("bits", join_raw(bits)).raw("exam", exam_json(exam));
  tr.emit(j);
}

static const char* BO[2] = { "LITTLEENDIAN", "BIGENDIAN" };

template <class FormatT> static void setup_format(FormatT& f, const Case& c) {
  if (c.scale_m) f.set_scale_to_write_data(std::ldexp((float)c.scale_m, c.scale_e));
}

static void emit_write(vh::Trace& tr, const Case& c, const Written& w, int bo_eff, float scale_eff, const std::string& type_eff) {
  const int k = kbits_for(c);
  const TypeDesc& t = TYPES[c.type];
  vh::Json j("Write");
  j.num("id", c.id).str("type", t.name).boolean("int", t.integer).boolean("signed", t.is_signed).num("bytes", t.bytes).str("nf", t.fmt)
      .str("bo", BO[c.bo]).str("boEff", bo_eff < 0 ? "-" : BO[bo_eff]).str("nfEff", type_eff.substr(0, type_eff.find('/'))).num("bytesEff", atoi(type_eff.substr(type_eff.find('/') + 1).c_str()))
      .num("scaleM", c.scale_m).num("scaleE", c.scale_e).boolean("ok", w.ok).boolean("err", w.threw)
      .str("file", w.file.substr(w.file.find_last_of('/') + 1));
  std::vector<std::string> hdrs, dss;
  for (auto& h : w.hdrfiles) hdrs.push_back(own_decode(h, k - c.vexp, dss));
  j.raw("hdrs", join_raw(hdrs)).raw("ds", join_raw(dss));
  tr.emit(j);
}

static void emit_read_fail(vh::Trace& tr, const Case& c, bool threw, const char* variant = "as written") {
  tr.emit(vh::Json("Read").num("id", c.id).str("header", variant).boolean("ok", false).boolean("err", threw));
}

static void emit_read(vh::Trace& tr, const Case& c, const std::vector<const Vox*>& frames, const ExamInfo& exam, const std::vector<std::vector<int>>& probes,
                      const char* variant = "as written") {
  const int k = kbits_for(c);
  vh::Json j("Read");
  j.num("id", c.id).str("header", variant).boolean("ok", true).boolean("err", false).num("nd", (long long)frames.size());
  std::vector<std::string> g, vals, bits;
  for (auto f : frames) {
    // probe offsets are clipped to the size actually read (a wrong size is reported by "size")
    BasicCoordinate<3, int> mn, mx; f->get_regular_range(mn, mx);
    std::vector<std::vector<int>> pr;
    for (auto& o : probes) if (o[0] <= mx[1] - mn[1] && o[1] <= mx[2] - mn[2] && o[2] <= mx[3] - mn[3]) pr.push_back(o);
    g.push_back(geom_json(*f, pr));
    std::vector<long long> fx; std::vector<int> b; vals_of(*f, k - c.vexp, fx, b);
    vals.push_back(arr_raw(fx)); bits.push_back(arr_raw(b));
  }
  // time frames carried by each individual frame / parameter image (get_density(d), construct_single_density(d))
  std::vector<std::string> ftf;
  for (auto f : frames) {
    const TimeFrameDefinitions& t = f->get_exam_info().time_frame_definitions;
    std::vector<std::vector<long long>> fr;
    for (unsigned i = 1; i <= t.get_num_frames(); ++i) fr.push_back({ satd(t.get_start_time(i) * 1000.), satd(t.get_duration(i) * 1000.) });
    vh::Json x; x.arr2("f", fr); ftf.push_back(x.done());
  }
  j.raw("geo", join_raw(g)).raw("vals", join_raw(vals)).raw("bits", join_raw(bits)).raw("ftf", join_raw(ftf)).raw("exam", exam_json(exam));
  tr.emit(j);
}

// performs write + read for a case; if trunc, additionally truncates the (first) data file at every length
static void run_case(vh::Trace& tr, const Case& c, vh::Rng& rng, bool trunc) {
  rm_files();
  const TypeDesc& t = TYPES[c.type];
  const NumericType nt(t.fmt, (std::size_t)t.bytes);
  const ByteOrder bo = c.bo ? ByteOrder::big_endian : ByteOrder::little_endian;
  shared_ptr<ExamInfo> ei = make_exam(c.ex);
  const std::vector<std::vector<int>> probes = probe_offsets_for(c, rng);
  const std::string base = g_dir + "/c" + std::to_string(c.id);
  Written w;
  std::string fn = base;
  int bo_eff = -1; std::string type_eff = "-";
  auto record_fmt = [&](ByteOrder b, NumericType ty) {
    bo_eff = b == ByteOrder::big_endian ? 1 : 0;
    std::string nfmt; std::size_t nb; ty.get_Interfile_info(nfmt, nb);
    type_eff = nfmt + "/" + std::to_string(nb);
  };
  std::string msg;

  if (c.kind == "single") {
    shared_ptr<Vox> im = make_vox(c, ei);
    fill_vox(*im, c.m[0], c.vexp);
    emit_img(tr, c, { im }, im->get_exam_info(), probes);
    InterfileOutputFileFormat f(nt, bo);
    setup_format(f, c);
    record_fmt(f.get_byte_order(), f.get_type_of_numbers());
    w.threw = vh::threw([&] { w.ok = f.write_to_file(fn, *im) == Succeeded::yes; }, &msg);
    w.file = fn; w.hdrfiles = { base + ".hv" };
    emit_write(tr, c, w, bo_eff, 0, type_eff);
    unique_ptr<Dens> rd;
    bool th = vh::threw([&] { rd = read_from_file<Dens>(w.file); }, &msg);
    const Vox* rv = rd ? dynamic_cast<const Vox*>(rd.get()) : nullptr;
    if (th || !rv) emit_read_fail(tr, c, th);
    else emit_read(tr, c, { rv }, rv->get_exam_info(), probes);
    // the same file through other legal spellings / locations of its header (name-of-data-file resolution, KeyParser syntax)
    if (w.ok && c.variants)
      for (const char* variant : { "rel", "abs", "text" }) {
        const std::string hv2 = header_variant(w.hdrfiles[0], variant);
        unique_ptr<Dens> rd2;
        bool th2 = vh::threw([&] { rd2 = read_from_file<Dens>(hv2); }, &msg);
        const Vox* rv2 = rd2 ? dynamic_cast<const Vox*>(rd2.get()) : nullptr;
        if (th2 || !rv2) emit_read_fail(tr, c, th2, variant);
        else emit_read(tr, c, { rv2 }, rv2->get_exam_info(), probes, variant);
      }
  } else if (c.kind == "dyn") {
    shared_ptr<Vox> tmpl = make_vox(c, ei);
    std::vector<std::pair<double, double>> se;
    for (auto& fr : c.ex.frames) se.push_back({ fr.first, fr.first + fr.second });
    TimeFrameDefinitions tfd(se);
    shared_ptr<Scanner> sc(new Scanner(Scanner::E966));
    DynamicDiscretisedDensity dyn(tfd, c.ex.start, sc, tmpl);
    std::vector<shared_ptr<Vox>> frames;
    for (int d = 0; d < c.nd; ++d) {
      Vox& fim = dynamic_cast<Vox&>(dyn.get_density(d + 1));
      fill_vox(fim, c.m[d], c.vexp);
      frames.push_back(shared_ptr<Vox>(fim.clone()));
    }
    emit_img(tr, c, frames, dyn.get_exam_info(), probes);
    if (c.fmt == "Interfile") {
      InterfileDynamicDiscretisedDensityOutputFileFormat f(nt, bo);
      setup_format(f, c);
      record_fmt(f.get_byte_order(), f.get_type_of_numbers());
      w.threw = vh::threw([&] { w.ok = f.write_to_file(fn, dyn) == Succeeded::yes; }, &msg);
      w.hdrfiles = { base + ".hv" };
    } else {
      MultiDynamicDiscretisedDensityOutputFileFormat f;
      std::istringstream ps(multi_params(c, "Multi Output File Format Parameters"));
      const bool parsed = f.parse(ps);
      record_fmt(bo, nt);
      if (!parsed) { tr.emit(vh::Json("DriverError").str("what", "multi parse")); return; }
      w.threw = vh::threw([&] { w.ok = f.write_to_file(fn, dyn) == Succeeded::yes; }, &msg);
      for (int d = 1; d <= c.nd; ++d) w.hdrfiles.push_back(base + "_" + std::to_string(d) + ".hv");
    }
    w.file = fn;
    emit_write(tr, c, w, bo_eff, 0, type_eff);
    unique_ptr<DynamicDiscretisedDensity> rd;
    bool th = vh::threw([&] { rd = read_from_file<DynamicDiscretisedDensity>(w.file); }, &msg);
    if (th || !rd) emit_read_fail(tr, c, th);
    else {
      std::vector<const Vox*> fr; bool allvox = true;
      th = vh::threw([&] { for (unsigned d = 1; d <= rd->get_num_time_frames(); ++d) { const Vox* v = dynamic_cast<const Vox*>(&rd->get_density(d)); if (!v) allvox = false; else fr.push_back(v); } }, &msg);
      if (th || !allvox) emit_read_fail(tr, c, th);
      else emit_read(tr, c, fr, rd->get_exam_info(), probes);
    }
  } else {   // par
    ParametricVoxelsOnCartesianGrid par(ParametricVoxelsOnCartesianGridBaseType(
        ei, IndexRange3D(c.mn[0], c.mn[0] + c.sz[0] - 1, c.mn[1], c.mn[1] + c.sz[1] - 1, c.mn[2], c.mn[2] + c.sz[2] - 1),
        CartesianCoordinate3D<float>(c.org8[0] / 8.F, c.org8[1] / 8.F, c.org8[2] / 8.F), CartesianCoordinate3D<float>(c.vox8[0] / 8.F, c.vox8[1] / 8.F, c.vox8[2] / 8.F)));
    std::vector<shared_ptr<Vox>> frames;
    for (int d = 0; d < c.nd; ++d) {
      shared_ptr<Vox> s = make_vox(c, ei);
      fill_vox(*s, c.m[d], c.vexp);
      par.update_parametric_image(*s, d + 1);
    }
    for (int d = 0; d < c.nd; ++d) frames.push_back(shared_ptr<Vox>(par.construct_single_density(d + 1).clone()));
    emit_img(tr, c, frames, par.get_exam_info(), probes);
    if (c.fmt == "Interfile") {
      InterfileParametricDiscretisedDensityOutputFileFormat<ParametricVoxelsOnCartesianGridBaseType> f(nt, bo);
      setup_format(f, c);
      record_fmt(f.get_byte_order(), f.get_type_of_numbers());
      w.threw = vh::threw([&] { w.ok = f.write_to_file(fn, par) == Succeeded::yes; }, &msg);
      w.hdrfiles = { base + ".hv" };
    } else {
      MultiParametricDiscretisedDensityOutputFileFormat<ParametricVoxelsOnCartesianGridBaseType> f;
      std::istringstream ps(multi_params(c, "Multi Output File Format Parameters"));
      const bool parsed = f.parse(ps);
      record_fmt(bo, nt);
      if (!parsed) { tr.emit(vh::Json("DriverError").str("what", "multi parse")); return; }
      w.threw = vh::threw([&] { w.ok = f.write_to_file(fn, par) == Succeeded::yes; }, &msg);
      for (int d = 1; d <= c.nd; ++d) w.hdrfiles.push_back(base + "_" + std::to_string(d) + ".hv");
    }
    w.file = fn;
    emit_write(tr, c, w, bo_eff, 0, type_eff);
    unique_ptr<ParametricVoxelsOnCartesianGrid> rd;
    bool th = vh::threw([&] { rd = read_from_file<ParametricVoxelsOnCartesianGrid>(w.file); }, &msg);
    if (th || !rd) emit_read_fail(tr, c, th);
    else {
      std::vector<shared_ptr<Vox>> keep; std::vector<const Vox*> fr;
      th = vh::threw([&] { for (unsigned d = 1; d <= rd->get_num_params(); ++d) { keep.push_back(shared_ptr<Vox>(rd->construct_single_density(d).clone())); fr.push_back(keep.back().get()); } }, &msg);
      if (th) emit_read_fail(tr, c, th);
      else emit_read(tr, c, fr, rd->get_exam_info(), probes);
    }
  }

  if (trunc && w.ok) {
    // truncate the first data file - and, with the Multi format, also the LAST individual data file - at EVERY length
    // 0..full-1 (and leave it complete once, as a control); the file is restored afterwards
    std::vector<size_t> which = { 0 };
    if (w.hdrfiles.size() > 1) which.push_back(w.hdrfiles.size() - 1);
   for (size_t fi : which) {
    std::map<std::string, std::string> kv;
    if (!own_parse_header(w.hdrfiles[fi], kv)) return;
    const std::string dataname = g_dir + "/" + get(kv, "nameofdatafile");
    const long full = file_size(dataname);
    std::vector<char> content((size_t)std::max(0L, full));
    { std::ifstream in(dataname.c_str(), std::ios::binary); in.read(content.data(), full); }
    for (long len = full; len >= 0; --len) {
      { std::ofstream o(dataname.c_str(), std::ios::binary | std::ios::trunc); o.write(content.data(), len); }
      bool accepted = false, th = false;
      if (c.kind == "single") { unique_ptr<Dens> rd; th = vh::threw([&] { rd = read_from_file<Dens>(w.file); }, &msg); accepted = !th && rd; }
      else if (c.kind == "dyn") { unique_ptr<DynamicDiscretisedDensity> rd; th = vh::threw([&] { rd = read_from_file<DynamicDiscretisedDensity>(w.file); }, &msg); accepted = !th && rd; }
      else { unique_ptr<ParametricVoxelsOnCartesianGrid> rd; th = vh::threw([&] { rd = read_from_file<ParametricVoxelsOnCartesianGrid>(w.file); }, &msg); accepted = !th && rd; }
      tr.emit(vh::Json("Trunc").num("id", c.id).num("file", (long long)fi + 1).num("len", len).num("full", full).boolean("accepted", accepted).boolean("err", th));
    }
    { std::ofstream o(dataname.c_str(), std::ios::binary | std::ios::trunc); o.write(content.data(), full); }
   }
  }
  rm_files();
}

// ---------------------------------------------------------------- case generation (seeded)
static const char* DISTS[] = { "ints", "small", "big", "dyadic", "huge", "tiny", "nonneg", "allzero", "allneg", "nonpos", "const", "onehot", "negconst" };
static const int NDISTS = 13;

static void gen_values(Case& c, vh::Rng& rng, const std::string& dist) {
  c.dist = dist; c.vexp = 0;
  const long n = (long)c.sz[0] * c.sz[1] * c.sz[2];
  int A = 1000;
  if (dist == "small") A = rng.pick(std::vector<int>{ 1, 2, 5, 17 });
  else if (dist == "big") A = rng.pick(std::vector<int>{ 30000, 70000, 8388607 });
  else if (dist == "ints" || dist == "nonneg" || dist == "allneg" || dist == "nonpos") A = rng.pick(std::vector<int>{ 100, 1000, 4000, 40000 });
  if (dist == "dyadic") c.vexp = rng.range(-10, 10);
  if (dist == "huge") c.vexp = rng.pick(std::vector<int>{ 30, 60, 100 });
  if (dist == "tiny") c.vexp = rng.pick(std::vector<int>{ -30, -60, -100 });
  c.m.assign(c.nd, std::vector<int>());
  for (int d = 0; d < c.nd; ++d) {
    std::vector<int>& m = c.m[d];
    m.resize(n);
    const int konst = rng.range(1, A);
    const long hot = (long)(rng.next() % (uint64_t)n);
    for (long i = 0; i < n; ++i) {
      int v = rng.range(-A, A);
      if (c.vexp <= -100) v = (rng.coin() ? 1 : -1) * rng.range(A / 2, A);   // keeps automatic scales either normal floats or exactly 0
      if (dist == "nonneg") v = rng.range(0, A);
      else if (dist == "allzero") v = 0;
      else if (dist == "allneg") v = -rng.range(1, A);
      else if (dist == "nonpos") v = -rng.range(0, A) * (int)(rng.range(0, 2) != 0);
      else if (dist == "const") v = konst;
      else if (dist == "negconst") v = -konst;
      else if (dist == "onehot") v = i == hot ? konst : 0;
      m[i] = v;
    }
    if (dist == "nonpos") m[(size_t)hot] = 0;
  }
}

static void gen_exam(Case& c, vh::Rng& rng) {
  ExamSpec& e = c.ex;
  static const int MODS[] = { ImagingModality::PT, ImagingModality::PT, ImagingModality::NM, ImagingModality::Unknown, ImagingModality::MR, ImagingModality::CT };
  e.modality = MODS[rng.range(0, 5)];
  e.orient = rng.range(0, 3);
  e.rot = rng.range(0, 5);
  int nf = c.kind == "dyn" ? c.nd : (c.kind == "par" ? 1 : rng.pick(std::vector<int>{ 1, 1, 1, 0 }));
  e.frames.clear();
  // special values: first frame starting exactly at 0, duration exactly 1 s, frames back to back
  double t = rng.range(0, 2) == 0 ? 0. : rng.range(0, 400) / 8.;
  for (int f = 0; f < nf; ++f) { double d = rng.range(0, 3) == 0 ? 1. : rng.range(1, 800) / 8.; e.frames.push_back({ t, d }); 
    // next frame: back to back or after a gap (TimeFrameDefinitions refuses overlapping frames: "start_time is smaller
    // than previous end_time", so those cannot be written at all)
    t += rng.coin() ? d : d + rng.range(1, 16) / 8.; }
  e.rn = rng.range(0, 4);
  if (e.modality != ImagingModality::PT && e.modality != ImagingModality::NM && (e.rn == 1 || e.rn == 2)) e.rn = 0;
  if (e.modality != ImagingModality::PT && e.modality != ImagingModality::NM && e.rn == 4) e.rn = 3;
  static const double LO[] = { -1, -1, 0, 350, 425.5, 100.125 }, HI[] = { -1, 650, 650, 650, 600.25, 700 };
  int w = rng.range(0, 5);
  e.lo = LO[w]; e.hi = HI[w];
  static const double STARTS[] = { 0, 0, 1277478034., 946684800., 86399., 1700000000. };      // unset, 2010, 2000-01-01 00:00:00, first day, 2023
  e.start = STARTS[rng.range(0, 5)];
  e.cal = rng.range(0, 2) == 0 ? -1 : (rng.range(0, 2) == 0 ? 1. : rng.range(1, 3999) / 4.);    // unset / exactly 1 / other
}

// the index range a reader produces by itself: z from 0, y and x centred
static int standard_min(int axis, int size) { return axis == 0 ? 0 : -(size / 2); }

// Every field takes each of its SPECIAL values independently with substantial probability: origin components
// exactly 0 (the whole origin exactly zero in 1 of 4 images), the standard vs a shifted index range per axis,
// minimum index 0 / negative / positive, voxel size exactly 1 mm, sizes 1 / even / odd.
static void gen_geom(Case& c, vh::Rng& rng, int maxsz, bool far_origin) {
  const bool zero_origin = rng.range(0, 3) == 0;
  for (int d = 0; d < 3; ++d) {
    const int big = rng.range(0, 3) == 0 ? maxsz : std::min(maxsz, 5);
    switch (rng.range(0, 3)) {
    case 0: c.sz[d] = 1; break;
    case 1: c.sz[d] = std::min(big, 2 * rng.range(1, std::max(1, big / 2))); break;            // even
    case 2: c.sz[d] = std::min(big, 2 * rng.range(0, std::max(0, (big - 1) / 2)) + 1); break;   // odd
    default: c.sz[d] = rng.range(1, big);
    }
    switch (rng.range(0, 5)) {
    case 0: case 1: case 2: c.mn[d] = standard_min(d, c.sz[d]); break;
    case 3: c.mn[d] = 0; break;
    case 4: c.mn[d] = -rng.range(1, 12); break;
    default: c.mn[d] = rng.range(1, 8);
    }
    c.vox8[d] = rng.range(0, 2) == 0 ? 8 : rng.pick(std::vector<int>{ 10, 16, 17, 20, 24, 25, 33, 4, 1, 40, 52 });
    c.org8[d] = zero_origin || rng.range(0, 2) == 0 ? 0 : (far_origin ? rng.range(-40000, 40000) : rng.range(-800, 800));
  }
}

int main(int argc, char** argv) {
  if (argc < 4) return 2;
  vh::install_terminate(); vh::quiet();
  if (!getenv("VERIF_STDERR")) { if (!freopen("/dev/null", "w", stderr)) return 3; }
  const std::string mode = argv[1];
  vh::Trace tr(argv[2]);
  g_dir = std::string(argv[2]) + ".files";
  mkdir(g_dir.c_str(), 0777);
  vh::Rng rng(vh::seed_from_env());
  long id = 0;
  // environment facts observed through the API: default radionuclides of the database, native byte order
  // (emitted before every case so that a trace can be cut between cases)
  RadionuclideDB db;
  auto rnj = [&](ImagingModality::ImagingModalityValue m) {
    Radionuclide r = db.get_radionuclide(ImagingModality(m), "");
    return vh::Json().str("rn", r.get_name()).num("hlms", satd(r.get_half_life(false) * 1000.)).num("brppm", satd(r.get_branching_ratio(false) * 1.e6)).done();
  };
  const std::string native = ByteOrder::get_native_order() == ByteOrder::big_endian ? "BIGENDIAN" : "LITTLEENDIAN";
  const std::string def_pt = rnj(ImagingModality::PT), def_nm = rnj(ImagingModality::NM), def_other = rnj(ImagingModality::MR);
  // what the database answers for the names the driver uses (observed, not assumed)
  std::vector<std::string> dbrecs;
  for (auto mn : { std::make_pair(ImagingModality::PT, "^11^Carbon"), std::make_pair(ImagingModality::PT, "^18^Fluorine"),
                   std::make_pair(ImagingModality::NM, "^99m^Technetium"), std::make_pair(ImagingModality::NM, "^123^Iodine") }) {
    Radionuclide r = db.get_radionuclide(ImagingModality(mn.first), mn.second);
    dbrecs.push_back(vh::Json().str("mod", ImagingModality(mn.first).get_name()).str("rn", r.get_name()).num("hlms", satd(r.get_half_life(false) * 1000.))
                         .num("brppm", satd(r.get_branching_ratio(false) * 1.e6)).done());
  }
  const std::string dbj = join_raw(dbrecs);
  auto emit_env = [&] { tr.emit(vh::Json("Env").str("native", native).raw("defPT", def_pt).raw("defNM", def_nm).raw("defOther", def_other).raw("db", dbj)); };
  if (mode == "rt") {
    const long ncases = atol(argv[3]);
    const int stage = argc > 4 ? atoi(argv[4]) : 0;
    static const char* KINDS[5][2] = { { "single", "Interfile" }, { "dyn", "Interfile" }, { "par", "Interfile" }, { "dyn", "Multi" }, { "par", "Multi" } };
    for (long n = 0; n < ncases; ++n) {
      Case c;
      c.id = ++id;
      // every NumericType x ByteOrder x scale setting is visited systematically; the rest is seeded
      // stage 2 (sanitizer pass while C10-roundint is open): without the types wider than int
      static const int NARROW[7] = { 0, 1, 2, 3, 4, 8, 9 };
      const int nt = stage == 2 ? 7 : 10;
      c.type = stage == 2 ? NARROW[n % 7] : (int)(n % 10);
      c.bo = (int)((n / nt) % 2);
      const int scale_setting = (int)((n / (2 * nt)) % 4);     // 0 automatic, 1 one, 2 sufficient power of two, 3 insufficient power of two
      const int kk = (n / (8 * nt)) % 2 == 0 ? 0 : rng.range(0, 4);
      c.kind = KINDS[kk][0]; c.fmt = KINDS[kk][1];
      c.nd = c.kind == "single" ? 1 : (c.kind == "par" ? 2 : rng.range(1, 3));
      gen_geom(c, rng, c.kind == "single" ? (stage == 1 ? 12 : 8) : 4, rng.range(0, 9) == 0);
      gen_values(c, rng, DISTS[rng.range(0, NDISTS - 1)]);
      gen_exam(c, rng);
      // scale: relative to the magnitude of the data so that "sufficient" / "insufficient" are clear-cut
      long long mx = 1; for (auto& v : c.m) for (int x : v) mx = std::max<long long>(mx, std::llabs((long long)x));
      int bl = 0; while ((1LL << bl) <= mx) ++bl;       // mx < 2^bl
      const int tb = TYPES[c.type].integer ? 8 * TYPES[c.type].bytes - (TYPES[c.type].is_signed ? 1 : 0) : 24;   // type max ~ 2^tb
      c.scale_m = 0; c.scale_e = 0;
      if (scale_setting == 1) { c.scale_m = 1; c.scale_e = 0; }
      else if (scale_setting == 2) { c.scale_m = 1; c.scale_e = c.vexp + std::max(bl - tb + 2, -rng.range(0, 3)); }
      else if (scale_setting == 3) { c.scale_m = 1; c.scale_e = c.vexp + bl - tb - 3; }
      // keep the requested scale a normal single-precision number; otherwise fall back to the automatic setting
      if (c.scale_m && (c.scale_e < -120 || c.scale_e > 120)) { c.scale_m = 0; c.scale_e = 0; }
      c.variants = c.kind == "single" && n % 3 == 0;
      emit_env();
      run_case(tr, c, rng, false);
    }
  } else if (mode == "geo") {
    // small EXHAUSTIVE family: {origin zero / non-zero} x {standard / shifted index range per axis} x
    // {1 mm / other voxel size} x two size patterns (odd/even mixes) x {single, dynamic, parametric (Interfile and Multi)}
    static const char* KINDS[5][2] = { { "single", "Interfile" }, { "dyn", "Interfile" }, { "par", "Interfile" }, { "dyn", "Multi" }, { "par", "Multi" } };
    static const int SIZES[2][3] = { { 3, 4, 5 }, { 2, 5, 4 } };
    static const int SHIFT[3] = { -2, 3, 1 };
    for (int kk = 0; kk < 5; ++kk)
      for (int org = 0; org < 2; ++org)
        for (int mask = 0; mask < 8; ++mask)
          for (int vx = 0; vx < 2; ++vx)
            for (int sp = 0; sp < 2; ++sp) {
              Case c;
              c.id = ++id;
              c.kind = KINDS[kk][0]; c.fmt = KINDS[kk][1];
              c.nd = c.kind == "single" ? 1 : 2;
              c.type = 8; c.bo = 0; c.scale_m = 0; c.scale_e = 0;     // FLOAT, little endian
              for (int d = 0; d < 3; ++d) {
                c.sz[d] = SIZES[sp][d];
                c.mn[d] = standard_min(d, c.sz[d]) + ((mask >> d) & 1 ? SHIFT[d] : 0);
                c.vox8[d] = vx ? 8 : (d == 0 ? 20 : (d == 1 ? 10 : 17));
                c.org8[d] = org ? (d == 0 ? 12 : (d == 1 ? -35 : 100)) : 0;
              }
              gen_values(c, rng, "small");
              gen_exam(c, rng);
              // the full patient orientation x rotation table, systematically
              c.ex.orient = (int)((c.id - 1) % 4); c.ex.rot = (int)(((c.id - 1) / 4) % 6);
              emit_env();
              run_case(tr, c, rng, false);
            }
  } else if (mode == "trunc") {
    const int stage = atoi(argv[3]);
    // one image per on-disk type (+ containers): truncate the data file at every length
    for (int t = 0; t < 10 + (stage == 1 ? 8 : 4); ++t) {
      Case c;
      c.id = ++id;
      c.type = t < 10 ? t : rng.range(0, 9);
      if (stage == 2 && (c.type == 5 || c.type == 6 || c.type == 7)) c.type -= 3;
      c.bo = rng.range(0, 1);
      static const char* KINDS[4][2] = { { "dyn", "Interfile" }, { "par", "Interfile" }, { "dyn", "Multi" }, { "par", "Multi" } };
      if (t < 10) { c.kind = "single"; c.fmt = "Interfile"; } else { c.kind = KINDS[(t - 10) % 4][0]; c.fmt = KINDS[(t - 10) % 4][1]; }
      c.nd = c.kind == "single" ? 1 : 2;
      gen_geom(c, rng, stage == 1 ? 5 : 4, false);
      // keep the data file at a few hundred bytes
      while ((long)c.sz[0] * c.sz[1] * c.sz[2] * TYPES[c.type].bytes * c.nd > (stage == 1 ? 600 : 320)) { int d = rng.range(0, 2); if (c.sz[d] > 1) --c.sz[d]; }
      // ... and not trivially short
      while ((long)c.sz[0] * c.sz[1] * c.sz[2] * TYPES[c.type].bytes * c.nd < (stage == 1 ? 96 : 48)) { int d = rng.range(0, 2); ++c.sz[d]; }
      gen_values(c, rng, "nonneg");
      gen_exam(c, rng);
      c.scale_m = 1; c.scale_e = 0;   // (1-byte types: too small, the library switches to its automatic scale)
      emit_env();
      run_case(tr, c, rng, true);
    }
  } else return 2;
  rmdir(g_dir.c_str());
  return 0;
}
