// C11 driver: steps real VectorWithOffset<int>, NumericVectorWithOffset<float,float>, Array<1..4,float>
// objects through operation sequences and RECORDS what the public API answers after every step.
// No property formula, no expected value, no comparison lives here: TLC (Trace_VecAbstract.tla /
// Trace_ArrayND.tla) decides.  Compiled with ASan/UBSan (header-only code under test is instrumented);
// a sanitizer report becomes an {"e":"Abort",...} line naming the operation being executed.
//
//   c11_arrays bfs  <VI|NF|A1> <alphabet.ndjson> <depth> <out.ndjson> <poison-file>
//        every edge of the implementation's state graph to the given depth: all histories over the
//        alphabet (written by TLC from MC_VecAbstract), a history is not extended when all observable
//        fields of both objects (incl. capacity bookkeeping) were already reached by another one
//   c11_arrays rand <VI|NF|A1> <out.ndjson> <first-seq> <num-seq> <len>
//        seeded random histories with a rich alphabet (views, iterators, at(), arithmetic)
//   c11_arrays nd   <2|3|4> <out.ndjson> <first-seq> <num-seq> <len>
//        seeded random histories on multi-dimensional arrays (regular/irregular, owning/viewing)
#include "vh.h"
#include "c11_nd.h"
#include "stir/VectorWithOffset.h"
#include "stir/NumericVectorWithOffset.h"
#include "stir/Array.h"
#include "stir/IndexRange.h"
#include "stir/shared_ptr.h"
#include <unordered_set>
#include <string>
#include <vector>
#include <cstring>
#include <cmath>
#include <functional>
#include <csignal>

extern "C" void __sanitizer_set_death_callback(void (*callback)(void));

using namespace stir;

// ------------------------------------------------------------------ recording helpers
namespace c11 {

std::string g_ty;            // type tag of the run
std::string g_cur;           // JSON fragment describing the operation being executed (for Abort lines)
std::string g_poison_path;   // bfs: edges that ended in a sanitizer report are appended here
std::string g_poison_key;
nd::Out* g_tr = nullptr;

void on_death() {
  if (g_tr) {
    std::string l = "{\"e\":\"Abort\",\"ty\":\"" + g_ty + "\",\"sanitizer\":true" + (g_cur.empty() ? "" : "," + g_cur) + "}";
    g_tr->emit_raw(l);
    g_tr->flush();
  }
  if (!g_poison_path.empty() && !g_poison_key.empty()) {
    FILE* f = fopen(g_poison_path.c_str(), "a");
    if (f) { fputs(g_poison_key.c_str(), f); fputc('\n', f); fclose(f); }
  }
}
// UBSan (a separate runtime in gcc) is run with abort_on_error=1: its report ends in SIGABRT
void on_sigabrt(int) { on_death(); _exit(78); }
void on_terminate() {
  if (g_tr) {
    std::string l = "{\"e\":\"Abort\",\"ty\":\"" + g_ty + "\",\"sanitizer\":false" + (g_cur.empty() ? "" : "," + g_cur) + "}";
    g_tr->emit_raw(l);
    g_tr->flush();
  }
  _exit(79);
}

struct Op { std::string k; int t = 1, a = 0, b = 0; bool alt = false; };   // alt: use the size-only overload (range 0..n-1)
std::string op_json(const Op& o) {
  return "{\"k\":\"" + o.k + "\",\"t\":" + std::to_string(o.t) + ",\"a\":" + std::to_string(o.a) + ",\"b\":" + std::to_string(o.b) + (o.alt ? ",\"alt\":1" : "") + "}";
}
// minimal reader for the flat alphabet lines written by TLC: {"k":"VAdd","t":1,"a":0,"b":0}
bool parse_op(const std::string& line, Op& o) {
  auto str = [&](const char* key, std::string& out) {
    std::string p = std::string("\"") + key + "\":\""; auto i = line.find(p); if (i == std::string::npos) return false;
    i += p.size(); auto j = line.find('"', i); out = line.substr(i, j - i); return true; };
  auto num = [&](const char* key, int& out) {
    std::string p = std::string("\"") + key + "\":"; auto i = line.find(p); if (i == std::string::npos) return false;
    out = atoi(line.c_str() + i + p.size()); return true; };
  return str("k", o.k) && num("t", o.t) && num("a", o.a) && num("b", o.b);
}

template <class V> struct Traits;
template <> struct Traits<VectorWithOffset<int>> {
  typedef int elem; static const bool numeric = false;
  static const char* tag() { return "VI"; }
  static VectorWithOffset<int>* make(int lo, int hi) { return new VectorWithOffset<int>(lo, hi); }
  static VectorWithOffset<int>* make_sz(int n) { return new VectorWithOffset<int>(n); }
  static VectorWithOffset<int>* view(int lo, int hi, shared_ptr<int[]> p) { return new VectorWithOffset<int>(lo, hi, p); }
};
template <> struct Traits<NumericVectorWithOffset<float, float>> {
  typedef float elem; static const bool numeric = true;
  static const char* tag() { return "NF"; }
  static NumericVectorWithOffset<float, float>* make(int lo, int hi) { return new NumericVectorWithOffset<float, float>(lo, hi); }
  static NumericVectorWithOffset<float, float>* make_sz(int n) { return new NumericVectorWithOffset<float, float>(n); }
  static NumericVectorWithOffset<float, float>* view(int lo, int hi, shared_ptr<float[]> p) { return new NumericVectorWithOffset<float, float>(lo, hi, p); }
};
template <> struct Traits<Array<1, float>> {
  typedef float elem; static const bool numeric = true;
  static const char* tag() { return "A1"; }
  static Array<1, float>* make(int lo, int hi) { return new Array<1, float>(lo, hi); }
  static Array<1, float>* make_sz(int n) { return new Array<1, float>(IndexRange<1>(n)); }
  static Array<1, float>* view(int lo, int hi, shared_ptr<float[]> p) { return new Array<1, float>(IndexRange<1>(lo, hi), p); }
};

// the system under test: two vector objects and one block of external memory
template <class V> struct Sys {
  typedef typename Traits<V>::elem T;
  std::unique_ptr<V> s[2];
  shared_ptr<T[]> blk;
  int K;
  explicit Sys(int K_) : K(K_) {
    s[0].reset(new V()); s[1].reset(new V());
    blk = shared_ptr<T[]>(new T[K]);
    for (int c = 0; c < K; ++c) blk[c] = (T)(101 + c);
  }
};

// sum(), find_max(), find_min() exist for Array<1> only
template <class V> struct Aggregates { static void add(vh::Json&, const V&) {} };
template <> struct Aggregates<Array<1, float>> {
  static void add(vh::Json& j, const Array<1, float>& v) { j.num("sum", nd::enc(v.sum())).num("mx", nd::enc(v.find_max())).num("mn", nd::enc(v.find_min())).num("sza", (long long)v.size_all()); }
};
// what the public API of one vector answers (observation only)
template <class V, class T> std::string observe_vec(const V& v, const T* blk, int K) {
  const int lo = v.get_min_index(), hi = v.get_max_index();
  const long n = (long)v.size();
  std::vector<long long> byidx, it, rit;
  int cnt = 0;
  for (int i = lo; i <= hi && cnt < nd::MAXLOG; ++i, ++cnt) byidx.push_back(nd::enc(v[i]));
  cnt = 0;
  for (auto p = v.begin(); p != v.end() && cnt < nd::MAXLOG; ++p, ++cnt) it.push_back(nd::enc(*p));
  cnt = 0;
  for (auto p = v.rbegin(); p != v.rend() && cnt < nd::MAXLOG; ++p, ++cnt) rit.push_back(nd::enc(*p));
  const T* first = v.begin();
  long cell = 0;
  if (first != nullptr && std::greater_equal<const T*>()(first, blk) && std::less<const T*>()(first, blk + K)) cell = (first - blk) + 1;
  vh::Json j;
  j.num("lo", lo).num("hi", hi).num("n", n).num("len", v.get_length()).boolean("em", v.empty()).arr("v", byidx).arr("it", it).arr("rit", rit)
      .num("cap", (long long)v.capacity()).num("cmin", n > 0 || v.capacity() > 0 || true ? v.get_capacity_min_index() : 0)
      .num("cell", cell).boolean("own", v.owns_memory_for_data());
  Aggregates<V>::add(j, v);
  return j.done();
}
template <class V> std::string observe(const Sys<V>& y) {
  typedef typename Traits<V>::elem T;
  std::vector<long long> b;
  for (int c = 0; c < y.K; ++c) b.push_back(nd::enc(y.blk[c]));
  const V& a = *y.s[0]; const V& bb = *y.s[1];
  bool eq = (a == bb), ne = (a != bb);
  vh::Json j;
  j.raw("s", "[" + observe_vec<V, T>(a, y.blk.get(), y.K) + "," + observe_vec<V, T>(bb, y.blk.get(), y.K) + "]").arr("blk", b).boolean("eq", eq).boolean("ne", ne);
  return j.done();
}

struct Outcome { bool err = false; bool has_res = false; long long res = 0; };

// a temporary operand for the arithmetic with several operands: operand number q gets the index range of the
// target T, or -- when q is the chosen position -- a variant of it (1: one shorter, 2: one longer at the top,
// 3: shifted by one, 4: one longer at the bottom), and the values 10q+1, 10q+2, ...  (inputs only)
template <class V> std::unique_ptr<V> make_temp(const V& T, int q, int pos, int code) {
  typedef typename Traits<V>::elem E;
  int lo = T.get_min_index(), hi = T.get_max_index();
  const bool has = T.size() > 0;
  if (q == pos) {
    if (code == 1) { if (has) hi -= 1; }
    else if (code == 2) { if (has) hi += 1; else { lo = 0; hi = 0; } }
    else if (code == 3) { if (has) { lo += 1; hi += 1; } }
    else if (code == 4) { if (has) lo -= 1; else { lo = -1; hi = -1; } }
  }
  std::unique_ptr<V> w(Traits<V>::make(lo, hi));
  int j = 1;
  for (int i = w->get_min_index(); i <= w->get_max_index(); ++i) (*w)[i] = (E)(10 * q + j++);
  return w;
}

template <class V, bool numeric> struct NumOps {
  static bool apply(Sys<V>&, const Op&, V&, V&) { return false; }
};
template <class V> struct NumOps<V, true> {
  static bool apply(Sys<V>&, const Op& op, V& T, V& O) {
    const std::string& k = op.k;
    if (k == "SAdd") T += (float)op.a;
    else if (k == "SSub") T -= (float)op.a;
    else if (k == "SMul") T *= (float)op.a;
    else if (k == "SDiv") T /= (float)op.a;
    else if (k == "Sapyb") T.sapyb((float)op.a, O, (float)op.b);
    else if (k == "XapybV") T.xapyb(O, T, T, O);
    else if (k == "XapybM") { auto x = make_temp(T, 1, op.a, op.b), a = make_temp(T, 2, op.a, op.b), yy = make_temp(T, 3, op.a, op.b), b = make_temp(T, 4, op.a, op.b); T.xapyb(*x, *a, *yy, *b); }
    else if (k == "XapybSM") { auto x = make_temp(T, 1, op.a, op.b), yy = make_temp(T, 2, op.a, op.b); T.xapyb(*x, 2.F, *yy, 3.F); }
    else if (k == "SapybM") { auto a = make_temp(T, 1, op.a, op.b), yy = make_temp(T, 2, op.a, op.b), b = make_temp(T, 3, op.a, op.b); T.sapyb(*a, *yy, *b); }
    else return false;
    return true;
  }
};

template <class V> bool has_op(const std::string& k) {
  if (Traits<V>::numeric) return true;
  return !(k == "SAdd" || k == "SSub" || k == "SMul" || k == "SDiv" || k == "Sapyb" || k == "XapybV" || k == "XapybM" || k == "XapybSM" || k == "SapybM");
}

// input legality: integer division by zero is outside the contract of VectorWithOffset<int>::operator/=
template <class V> bool callable(const Sys<V>& y, const Op& op) {
  if (!has_op<V>(op.k)) return false;
  if (op.k == "View") return op.b >= op.a && op.b - op.a + 1 <= y.K;
  if ((op.k == "VDiv" || op.k == "BDiv") && !Traits<V>::numeric) {
    const V& O = *y.s[2 - op.t];
    for (auto p = O.begin(); p != O.end(); ++p) if (*p == 0) return false;
  }
  return true;
}

// perform one operation on the real objects
template <class V> Outcome execute(Sys<V>& y, const Op& op) {
  typedef typename Traits<V>::elem T;
  Outcome out;
  const int ti = op.t - 1, oi = 1 - ti;
  const std::string& k = op.k;
  std::string msg;
  out.err = vh::threw([&] {
    V& Tv = *y.s[ti]; V& Ov = *y.s[oi];
    if (k == "Default") y.s[ti].reset(new V());
    else if (k == "Construct") y.s[ti].reset(op.alt ? Traits<V>::make_sz(op.b + 1) : Traits<V>::make(op.a, op.b));
    else if (k == "View") y.s[ti].reset(Traits<V>::view(op.a, op.b, y.blk));
    else if (k == "Copy") { std::unique_ptr<V> n(new V(Ov)); y.s[ti] = std::move(n); }
    else if (k == "Move") { std::unique_ptr<V> n(new V(std::move(Ov))); y.s[ti] = std::move(n); }
    else if (k == "Swap") { swap(Tv, Ov); }
    else if (k == "Assign") Tv = Ov;
    else if (k == "SelfAssign") { V& alias = Tv; Tv = alias; }
    else if (k == "Resize") { if (op.alt) Tv.resize((unsigned)(op.b + 1)); else Tv.resize(op.a, op.b); }
    else if (k == "GrowBy") Tv.grow(Tv.get_min_index() - op.a, Tv.get_max_index() + op.b);
    else if (k == "Reserve") { if (op.alt) Tv.reserve((unsigned)(op.b + 1)); else Tv.reserve(op.a, op.b); }
    else if (k == "SetOffset") { if (op.b == 1) Tv.set_min_index(op.a); else Tv.set_offset(op.a); }
    else if (k == "Recycle") Tv.recycle();
    else if (k == "Fill") Tv.fill((T)op.a);
    else if (k == "Iota") { int x = op.a; for (auto p = Tv.begin(); p != Tv.end(); ++p) *p = (T)(x++); }
    else if (k == "RIota") { int x = op.a; for (auto p = Tv.rbegin(); p != Tv.rend(); ++p) *p = (T)(x++); }
    else if (k == "SetAt") Tv.at(op.a) = (T)op.b;
    else if (k == "GetAt") { const V& c = Tv; out.res = nd::enc(c.at(op.a)); out.has_res = true; }
    else if (k == "Set") { if (Tv.size() > 0) Tv[Tv.get_min_index() + op.a % (int)Tv.size()] = (T)op.b; }
    else if (k == "Get") { const V& c = Tv; if (c.size() > 0) { out.res = nd::enc(c[c.get_min_index() + op.a % (int)c.size()]); out.has_res = true; } }
    else if (k == "PtrSet") { if (Tv.size() > 0) { T* p = Tv.get_data_ptr(); p[op.a % (int)Tv.size()] = (T)op.b; Tv.release_data_ptr(); } }
    else if (k == "ThrLo") Tv.apply_lower_threshold((T)op.a);
    else if (k == "ThrUp") Tv.apply_upper_threshold((T)op.a);
    else if (k == "VAdd") Tv += Ov;
    else if (k == "VSub") Tv -= Ov;
    else if (k == "VMul") Tv *= Ov;
    else if (k == "VDiv") Tv /= Ov;
    else if (k == "BAdd") { std::unique_ptr<V> n(new V(Tv + Ov)); y.s[ti] = std::move(n); }
    else if (k == "BSub") { std::unique_ptr<V> n(new V(Tv - Ov)); y.s[ti] = std::move(n); }
    else if (k == "BMul") { std::unique_ptr<V> n(new V(Tv * Ov)); y.s[ti] = std::move(n); }
    else if (k == "BDiv") { std::unique_ptr<V> n(new V(Tv / Ov)); y.s[ti] = std::move(n); }
    else if (k == "VOpM") { auto w = make_temp(Tv, 1, 1, op.b); if (op.a == 0) Tv += *w; else if (op.a == 1) Tv -= *w; else if (op.a == 2) Tv *= *w; else Tv /= *w; }
    else if (k == "BOpM") { auto w = make_temp(Tv, 1, 1, op.b); std::unique_ptr<V> n(op.a == 0 ? new V(Tv + *w) : op.a == 1 ? new V(Tv - *w) : op.a == 2 ? new V(Tv * *w) : new V(Tv / *w)); y.s[ti] = std::move(n); }
    else if (k == "MemSet") y.blk[op.a - 1] = (T)op.b;
    else if (k == "Nop") {}
    else if (!NumOps<V, Traits<V>::numeric>::apply(y, op, Tv, Ov)) { fprintf(stderr, "unknown op %s\n", k.c_str()); _exit(3); }
  }, &msg);
  return out;
}

std::string step_line(const char* ev, const std::string& ty, const Op& op, const Outcome& o, const std::string& pre, const std::string& post) {
  std::string l = std::string("{\"e\":\"") + ev + "\",\"ty\":\"" + ty + "\",\"op\":" + op_json(op) + ",\"res\":" + std::to_string(o.has_res ? o.res : 0)
                  + ",\"err\":" + (o.err ? "true" : "false");
  if (!pre.empty()) l += ",\"pre\":" + pre;
  l += ",\"post\":" + post + "}";
  return l;
}

// ------------------------------------------------------------------ bfs: every edge of the bounded state graph
template <class V> int run_bfs(const std::string& alpha_path, int depth, const std::string& out, const std::string& poison, int K) {
  std::vector<Op> alphabet;
  { std::ifstream f(alpha_path); std::string line; while (std::getline(f, line)) { Op o; if (parse_op(line, o)) alphabet.push_back(o); } }
  if (alphabet.empty()) { fprintf(stderr, "empty alphabet\n"); return 3; }
  std::unordered_set<std::string> poisoned;
  { std::ifstream f(poison); std::string line; while (std::getline(f, line)) if (!line.empty()) poisoned.insert(line); }
  g_poison_path = poison;
  nd::Out tr(out); g_tr = &tr;
  const std::string ty = Traits<V>::tag(); g_ty = ty;
  tr.emit(vh::Json("Config").str("ty", ty).num("K", K).str("mode", "bfs").num("depth", depth).num("alphabet", (long long)alphabet.size()));
  std::unordered_set<std::string> seen, emitted;
  typedef std::vector<unsigned short> Hist;
  std::vector<Hist> frontier(1), next;
  { Sys<V> y(K); std::string f0 = observe(y); seen.insert(f0); tr.emit_raw("{\"e\":\"Init\",\"ty\":\"" + ty + "\",\"K\":" + std::to_string(K) + ",\"post\":" + f0 + "}"); }
  long long evals = 0, distinct = 0, histories = 0;
  for (int d = 0; d < depth; ++d) {
    next.clear();
    for (const Hist& w : frontier) {
      std::string wkey; for (auto x : w) { wkey += std::to_string(x); wkey += '.'; }
      bool pre_done = false;
      for (size_t oi = 0; oi < alphabet.size(); ++oi) {
        const Op& op = alphabet[oi];
        if (!has_op<V>(op.k)) continue;
        std::string key = wkey + "|" + std::to_string(oi);
        if (poisoned.count(key)) continue;
        Sys<V> y(K);
        g_poison_key = key;
        // bring the real objects into the state reached by history w
        std::string hist = "[";
        for (size_t i = 0; i < w.size(); ++i) { if (i) hist += ","; hist += op_json(alphabet[w[i]]); }
        hist += "]";
        g_cur = "\"hist\":" + hist + ",\"op\":" + op_json(op) + ",\"phase\":\"prefix\"";
        for (auto x : w) execute(y, alphabet[x]);
        if (!callable(y, op)) continue;
        std::string pre = observe(y);
        g_cur = "\"hist\":" + hist + ",\"op\":" + op_json(op) + ",\"phase\":\"op\",\"pre\":" + pre;
        Outcome o = execute(y, op);
        g_cur = "\"hist\":" + hist + ",\"op\":" + op_json(op) + ",\"phase\":\"observe\",\"pre\":" + pre;
        std::string post = observe(y);
        g_cur.clear(); g_poison_key.clear();
        ++evals; ++histories;
        if (!pre_done) { tr.emit_raw("{\"e\":\"Pre\",\"ty\":\"" + ty + "\",\"hist\":" + hist + ",\"post\":" + pre + "}"); pre_done = true; }
        tr.emit_raw(step_line("Edge", ty, op, o, "", post)); ++distinct;
        if (d + 1 < depth && seen.insert(post).second) { Hist nw(w); nw.push_back((unsigned short)oi); next.push_back(nw); }
      }
    }
    frontier.swap(next);
  }
  tr.flush();
  printf("{\"evaluations\":%lld,\"distinct_edges\":%lld,\"states\":%lld}\n", evals, distinct, (long long)seen.size());
  g_tr = nullptr;
  return 0;
}

// ------------------------------------------------------------------ rand: long seeded histories, rich alphabet
template <class V> Op random_op(vh::Rng& rng, const Sys<V>& y, bool calm) {
  Op o; o.t = rng.range(1, 2);
  const V& T = *y.s[o.t - 1];
  auto idx = [&] { return rng.range(-4, 6); };
  int r = rng.range(0, 99);
  if (calm) r = rng.range(0, 1) ? 200 : 201;
  if (r < 4) { o.k = "Construct"; o.a = idx(); o.b = o.a + rng.range(-1, 5); }
  else if (r < 8) { o.k = "View"; o.a = idx(); o.b = o.a + rng.range(0, y.K - 1); }
  else if (r < 10) o.k = "Default";
  else if (r < 13) o.k = "Copy";
  else if (r < 15) o.k = "Move";
  else if (r < 17) o.k = "Swap";
  else if (r < 22) o.k = "Assign";
  else if (r < 23) o.k = "SelfAssign";
  else if (r < 35) { o.k = "Resize"; if (T.size() > 0 && rng.range(0, 2)) { o.a = T.get_min_index() + rng.range(-2, 2); o.b = T.get_max_index() + rng.range(-2, 2); } else { o.a = idx(); o.b = o.a + rng.range(-1, 5); } }
  else if (r < 41) { o.k = "GrowBy"; o.a = rng.range(0, 2); o.b = rng.range(0, 2); }
  else if (r < 46) { o.k = "Reserve"; o.a = idx() - 1; o.b = o.a + rng.range(-1, 7); }
  else if (r < 51) { o.k = "SetOffset"; o.a = idx(); o.b = rng.range(0, 1); }
  else if (r < 52) o.k = "Recycle";
  else if (r < 55) { o.k = "Fill"; o.a = rng.range(-3, 9); }
  else if (r < 60) { o.k = "Iota"; o.a = rng.range(-5, 20); }
  else if (r < 62) { o.k = "RIota"; o.a = rng.range(-5, 20); }
  else if (r < 66) { o.k = "SetAt"; o.a = T.get_min_index() + rng.range(-2, (int)T.size() + 1); o.b = rng.range(-9, 9); }
  else if (r < 69) { o.k = "GetAt"; o.a = T.get_min_index() + rng.range(-2, (int)T.size() + 1); }
  else if (r < 72) { o.k = "Set"; o.a = rng.range(0, 9); o.b = rng.range(-9, 9); }
  else if (r < 74) { o.k = "Get"; o.a = rng.range(0, 9); }
  else if (r < 76) { o.k = "PtrSet"; o.a = rng.range(0, 9); o.b = rng.range(-9, 9); }
  else if (r < 78) { o.k = rng.coin() ? "ThrLo" : "ThrUp"; o.a = rng.range(-3, 6); }
  else if (r < 88) { static const char* ks[] = { "VAdd", "VSub", "VMul", "VDiv", "BAdd", "BSub", "BMul", "BDiv" }; o.k = ks[rng.range(0, 7)]; }
  else if (r < 94) { static const char* ks[] = { "SAdd", "SSub", "SMul", "SDiv" }; o.k = ks[rng.range(0, 3)]; o.a = rng.range(-2, 3); if ((o.k == "SDiv") && o.a == 0) o.a = 2; }
  else if (r < 95) { int z = rng.range(0, 5);
                     if (z == 0) { o.k = "Sapyb"; o.a = rng.range(-2, 2); o.b = rng.range(-2, 2); }
                     else if (z == 1) { o.k = "XapybM"; o.a = rng.range(0, 4); o.b = rng.range(1, 4); }
                     else if (z == 2) { o.k = "XapybSM"; o.a = rng.range(0, 2); o.b = rng.range(1, 4); }
                     else if (z == 3) { o.k = "SapybM"; o.a = rng.range(0, 3); o.b = rng.range(1, 4); }
                     else if (z == 4) { o.k = "VOpM"; o.a = rng.range(0, 3); o.b = rng.range(0, 4); }
                     else { o.k = "BOpM"; o.a = rng.range(0, 3); o.b = rng.range(0, 4); } }
  else if (r < 96) { o.k = rng.coin() ? "VOpM" : "BOpM"; o.a = rng.range(0, 3); o.b = rng.range(0, 4); }
  else if (r < 97) o.k = "XapybV";
  else if (r < 100) { o.k = "MemSet"; o.t = 1; o.a = rng.range(1, y.K); o.b = rng.range(-9, 9); }
  else if (r == 200) { o.k = "Iota"; o.a = rng.range(0, 5); }
  else { o.k = "Fill"; o.a = rng.range(0, 3); }
  // the overloads taking a size only: V(n), resize(n), reserve(n)  ==  range 0..n-1
  if ((o.k == "Construct" || o.k == "Resize" || o.k == "Reserve") && rng.range(0, 3) == 0) { o.a = 0; o.b = rng.range(0, 5); o.alt = true; }
  return o;
}

template <class V> bool large_values(const Sys<V>& y) {
  for (int t = 0; t < 2; ++t)
    for (auto p = y.s[t]->begin(); p != y.s[t]->end(); ++p) { long long e = nd::enc(*p); if (e != nd::UNSPEC && (e > 1000 || e < -1000)) return true; }
  return false;
}

template <class V> int run_rand(const std::string& out, long first, long nseq, int len) {
  nd::Out tr(out); g_tr = &tr;
  const std::string ty = Traits<V>::tag(); g_ty = ty;
  long long evals = 0;
  for (long q = first; q < first + nseq; ++q) {
    vh::Rng rng((uint64_t)vh::seed_from_env() * 1000003ULL + (uint64_t)q * 7919ULL + (uint64_t)ty[0] * 31ULL + (uint64_t)ty[1]);
    const int K = rng.range(2, 6);
    Sys<V> y(K);
    tr.emit(vh::Json("Config").str("ty", ty).num("K", K).str("mode", "rand").num("seq", q));
    tr.emit_raw("{\"e\":\"Init\",\"ty\":\"" + ty + "\",\"K\":" + std::to_string(K) + ",\"post\":" + observe(y) + "}");
    // systematic start of every sequence: a non-empty vector in slot 1, then every operand position of every
    // multi-operand operation once (a = position, 0 = all compatible; b = kind of incompatibility, rotating)
    std::vector<Op> plan;
    { int c = (int)(q % 4); auto code = [&] { c = c % 4 + 1; return c; };
      Op o; o.t = 1; o.k = "Construct"; o.a = rng.range(-3, 2); o.b = o.a + rng.range(0, 4); plan.push_back(o);
      o.k = "Iota"; o.a = 1; o.b = 0; plan.push_back(o);
      for (int pos = 0; pos <= 4; ++pos) { o.k = "XapybM"; o.a = pos; o.b = code(); plan.push_back(o); }
      for (int pos = 0; pos <= 2; ++pos) { o.k = "XapybSM"; o.a = pos; o.b = code(); plan.push_back(o); }
      for (int pos = 0; pos <= 3; ++pos) { o.k = "SapybM"; o.a = pos; o.b = code(); plan.push_back(o); }
      for (int w = 0; w < 4; ++w) { o.k = w < 2 ? "VOpM" : "BOpM"; o.a = (int)((q + w) % 4); o.b = code(); plan.push_back(o); } }
    size_t next_forced = 0;
    for (int i = 0; i < len; ++i) {
      Op op;
      while (next_forced < plan.size() && !has_op<V>(plan[next_forced].k)) ++next_forced;
      if (next_forced < plan.size()) op = plan[next_forced++];
      else op = random_op(rng, y, large_values(y));
      if (!callable(y, op)) { op.k = "Nop"; }
      g_cur = "\"seq\":" + std::to_string(q) + ",\"step\":" + std::to_string(i) + ",\"op\":" + op_json(op);
      tr.flush_every(64);
      Outcome o = execute(y, op);
      std::string post = observe(y);
      g_cur.clear();
      tr.emit_raw(step_line("Step", ty, op, o, "", post));
      ++evals;
    }
  }
  tr.flush();
  printf("{\"evaluations\":%lld,\"sequences\":%ld}\n", evals, nseq);
  g_tr = nullptr;
  return 0;
}

// ------------------------------------------------------------------ nd: seeded histories on Array<D,float>
void child_setup() { g_tr = nullptr; g_poison_path.clear(); }

template <int D> int run_nd(const std::string& out, long first, long nseq, int len) {
  using namespace c11n;
  nd::Out tr(out); g_tr = &tr;
  const std::string ty = "N" + std::to_string(D); g_ty = ty;
  long long evals = 0, forks = 0, child_aborts = 0;
  for (long q = first; q < first + nseq; ++q) {
    vh::Rng rng((uint64_t)vh::seed_from_env() * 1000003ULL + (uint64_t)q * 7919ULL + (uint64_t)D * 131ULL);
    const int K = rng.range(4, 12);
    NSys<D> y(K);
    tr.emit(vh::Json("Config").str("ty", ty).num("D", D).num("K", K).str("mode", "nd").num("seq", q));
    tr.emit_raw("{\"e\":\"Init\",\"ty\":\"" + ty + "\",\"K\":" + std::to_string(K) + ",\"post\":" + observe<D>(y) + "}");
    // every sequence starts with a non-empty array in slot 1 and the systematic sweep over the operand positions
    std::vector<Forced> plan = sweep_plan(q);
    size_t next_forced = 0;
    for (int i = 0; i < len; ++i) {
      NOp op;
      if (i == 0) { op.k = "NConstruct"; op.t = 1; op.R = rt_gen(D, rng, q % 2 == 0, false, D >= 4 ? 2 : 3, D >= 4 ? 2 : 3); op.want_contig = true; }
      else if (i == 1) { op.k = "NIotaAll"; op.t = 1; op.a = 1; op.forked = true; }
      else if (next_forced < plan.size() && i < len - 1) {
        const Forced& f = plan[next_forced++];
        if (f.k == "NConstruct") { op.k = f.k; op.t = 1; op.R = rt_gen(D, rng, q % 3 != 0, false, 3, D >= 4 ? 2 : 3); }
        else if (f.k == "NRowResize") {
          // an inner row through a[i]..[j]: same length shifted by one (1), one shorter (2), one longer (3)
          op.k = f.k; op.t = 1;
          if (!Obs<D>::walk(*y.s[0], rng, op.c, true)) { op.k = "NNop"; op.c.clear(); }
          else { Array<1, float>* lf = Obs<D>::leaf_at(*y.s[0], op.c, 0); op.a = lf->get_min_index() + (f.pos == 1 ? 1 : 0); op.b = lf->get_max_index() + (f.pos == 1 ? 1 : f.pos == 2 ? -1 : 1); }
        }
        else if (f.k[1] == 'X' || f.k[1] == 'S' || f.k[1] == 'V' || f.k[1] == 'B') op = make_multi<D>(y, 1, f.k, f.pos, f.code, f.a, f.b);
        else { op.k = f.k; op.t = 1; op.a = f.a; op.forked = true; if (y.s[0]->size_all() == 0 && op.k != "NIotaAll") op.k = "NContig"; }
      }
      else op = choose<D>(rng, y, large_values<D>(y));
      g_cur = "\"seq\":" + std::to_string(q) + ",\"step\":" + std::to_string(i) + ",\"op\":" + nop_json(op);
      tr.flush_every(64);
      NOutcome o; bool aborted = false;
      if (op.forked) {
        // operations built on full iterators / is_contiguous are tried in a child process first, so that a
        // sanitizer report there is recorded (abort = true) and the history can go on with unchanged objects
        ++forks;
        NOutcome dummy;
        if (!survives([&] { perform<D>(y, op, dummy); }, child_setup)) { aborted = true; ++child_aborts; }
      }
      if (!aborted) o.err = vh::threw([&] { perform<D>(y, op, o); });
      std::string extra;
      std::string post = observe<D>(y, extra);
      g_cur.clear();
      vh::Json j; j.str("e", "Step").str("ty", ty).raw("op", nop_json(op)).arr("res", o.res).boolean("err", o.err).boolean("abort", aborted).raw("post", post);
      tr.emit(j);
      ++evals;
    }
  }
  tr.flush();
  printf("{\"evaluations\":%lld,\"sequences\":%ld,\"forked\":%lld,\"child_aborts\":%lld}\n", evals, nseq, forks, child_aborts);
  g_tr = nullptr;
  return 0;
}

} // namespace c11

int main(int argc, char** argv) {
  if (argc < 3) { fprintf(stderr, "usage: see source\n"); return 3; }
  if (!getenv("VERIF_STDERR")) { if (!freopen("/dev/null", "w", stderr)) {} }
  __sanitizer_set_death_callback(c11::on_death);
  std::set_terminate(c11::on_terminate);
  signal(SIGABRT, c11::on_sigabrt);
  const std::string mode = argv[1], ty = argv[2];
  if (mode == "bfs" && argc >= 7) {
    const int depth = atoi(argv[4]); const int K = argc > 7 ? atoi(argv[7]) : 2;
    if (ty == "VI") return c11::run_bfs<VectorWithOffset<int>>(argv[3], depth, argv[5], argv[6], K);
    if (ty == "NF") return c11::run_bfs<NumericVectorWithOffset<float, float>>(argv[3], depth, argv[5], argv[6], K);
    if (ty == "A1") return c11::run_bfs<Array<1, float>>(argv[3], depth, argv[5], argv[6], K);
  }
  if (mode == "rand" && argc >= 7) {
    const long first = atol(argv[4]), n = atol(argv[5]); const int len = atoi(argv[6]);
    if (ty == "VI") return c11::run_rand<VectorWithOffset<int>>(argv[3], first, n, len);
    if (ty == "NF") return c11::run_rand<NumericVectorWithOffset<float, float>>(argv[3], first, n, len);
    if (ty == "A1") return c11::run_rand<Array<1, float>>(argv[3], first, n, len);
  }
  if (mode == "nd" && argc >= 7) {
    const long first = atol(argv[4]), n = atol(argv[5]); const int len = atoi(argv[6]);
    if (ty == "2") return c11::run_nd<2>(argv[3], first, n, len);
    if (ty == "3") return c11::run_nd<3>(argv[3], first, n, len);
    if (ty == "4") return c11::run_nd<4>(argv[3], first, n, len);
  }
  fprintf(stderr, "bad arguments\n");
  return 3;
}
