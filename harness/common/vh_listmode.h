// In-memory list-mode seam shared by the drivers (C14, C15, C18, ...).
//
// STIR reads list-mode data through three abstract interfaces: ListModeData (the stream: get_next_record,
// reset, save/set_get_position), ListRecord (is_time / is_event / time() / event()) and ListEvent (is_prompt,
// get_bin).  The classes below implement them on top of a std::vector<vh::LmRec> held in memory, so that a
// driver (or a TLC-generated behaviour) can supply the *environment* of the real LmToProjData and of the real
// list-mode objective function (PoissonLogLikelihoodWithLinearModelForMeanAndListModeDataWithProjMatrixByBin)
// without any file on disk.
//
//   * events carry detection positions (det1, ring1, det2, ring2) and an unmashed timing position, and are
//     binned by the REAL geometry code: VhListEvent derives from
//     stir::CListEventScannerWithDiscreteDetectors<ProjDataInfoT>, whose get_bin() calls
//     ProjDataInfoT::get_bin_for_det_pos_pair();
//   * time records carry a time in milliseconds (ListTime::get_time_in_secs() = ms / 1000.);
//   * the stream supports reset(), save_get_position() / set_get_position() (any number of saved positions),
//     has_delayeds() and get_total_number_of_events();
//   * every call through the seam can be observed (VhListModeData::observer) so a driver can record the
//     order in which the code under test reads, rewinds and saves positions.
//
// There is NO property logic in this header (no expected values, no comparisons): it only serves records.
//
// Usage:
//   auto scanner = vh::make_scanner(8, 3, /*maxT=*/5);
//   shared_ptr<ProjDataInfo> pdi(ProjDataInfo::construct_proj_data_info(scanner, 1, 2, 4, 7, false, 1));
//   std::vector<vh::LmRec> recs = { vh::LmRec::time(0), vh::LmRec::prompt(0,0,4,1,-2), vh::LmRec::delayed(1,2,5,0,0) };
//   auto lm = std::make_shared<vh::VhListModeData<>>(pdi, recs);       // get_proj_data_info_sptr() == clone of pdi
//   LmToProjData l2p; l2p.set_input_data(lm); l2p.set_template_proj_data_info_sptr(templ);
//   l2p.set_output_filename_prefix("unused");                        // required even for in-memory output
//   shared_ptr<ProjData> out(new ProjDataInMemory(lm->get_exam_info_sptr(), templ)); l2p.set_output_projdata_sptr(out);
//   l2p.set_up(); l2p.process_data();
// Notes measured on this tree:
//   * LmToProjData::set_up() throws unless an output filename prefix is set, even if the output is in memory;
//   * with set_output_projdata_sptr() only the LAST time frame survives in the output (documented) — derive
//     from LmToProjData and override start_new_time_frame() to collect / replace the output per frame;
//   * the scanner of the list-mode data's ProjDataInfo must compare equal to the template's scanner;
//   * the list-mode objective function takes its data geometry from get_proj_data_info_sptr() of the
//     list-mode data, so pass the (possibly compressed) ProjDataInfo you want it to use to the constructor.
#ifndef VERIF_VH_LISTMODE_H
#define VERIF_VH_LISTMODE_H
#include "vh_stir.h"
#include "stir/listmode/CListModeData.h"
#include "stir/listmode/CListRecord.h"
#include "stir/listmode/CListEventScannerWithDiscreteDetectors.h"
#include "stir/ExamInfo.h"
#include "stir/Succeeded.h"
#include <functional>
#include <vector>
#include <string>

namespace vh {

// One record of the stream: Time(ms) | Prompt(det pos pair, tof) | Delayed(det pos pair, tof)
struct LmRec {
  enum Kind { Time = 0, Prompt = 1, Delayed = 2 };
  int kind = Time;
  unsigned long ms = 0;                    // Time only
  int d1 = 0, r1 = 0, d2 = 0, r2 = 0;       // events: tangential (detector) and axial (ring) index of both detectors
  int tof = 0;                              // events: unmashed timing position (0 for non-TOF scanners)
  static LmRec time(unsigned long ms) { LmRec r; r.kind = Time; r.ms = ms; return r; }
  static LmRec prompt(int d1, int r1, int d2, int r2, int tof = 0) { LmRec r; r.kind = Prompt; r.d1 = d1; r.r1 = r1; r.d2 = d2; r.r2 = r2; r.tof = tof; return r; }
  static LmRec delayed(int d1, int r1, int d2, int r2, int tof = 0) { LmRec r = prompt(d1, r1, d2, r2, tof); r.kind = Delayed; return r; }
  bool is_time() const { return kind == Time; }
  bool is_event() const { return kind != Time; }
  // [kind, d1|ms, r1, d2, r2, tof] — the encoding used in ndjson traces
  std::vector<long long> as_ints() const {
    if (kind == Time) return { 0, (long long)ms, 0, 0, 0, 0 };
    return { kind, d1, r1, d2, r2, tof };
  }
};

class VhListTime : public stir::ListTime {
  unsigned long ms_ = 0;
public:
  unsigned long get_time_in_millisecs() const override { return ms_; }
  stir::Succeeded set_time_in_millisecs(const unsigned long t) override { ms_ = t; return stir::Succeeded::yes; }
};

// A coincidence event given by its two detection positions; get_bin()/get_LOR() are the real STIR code.
template <class ProjDataInfoT = stir::ProjDataInfoCylindricalNoArcCorr>
class VhListEvent : public stir::CListEventScannerWithDiscreteDetectors<ProjDataInfoT> {
  stir::DetectionPositionPair<> dp_;
  bool prompt_ = true;
public:
  explicit VhListEvent(const stir::shared_ptr<const stir::ProjDataInfo>& pdi)
      : stir::CListEventScannerWithDiscreteDetectors<ProjDataInfoT>(pdi) {}
  void get_detection_position(stir::DetectionPositionPair<>& dp) const override { dp = dp_; }
  void set_detection_position(const stir::DetectionPositionPair<>& dp) override { dp_ = dp; }
  bool is_prompt() const override { return prompt_; }
  stir::Succeeded set_prompt(const bool p = true) override { prompt_ = p; return stir::Succeeded::yes; }
};

template <class ProjDataInfoT = stir::ProjDataInfoCylindricalNoArcCorr>
class VhListRecord : public stir::CListRecord {
  VhListEvent<ProjDataInfoT> ev_;
  VhListTime tm_;
  bool is_time_ = false, is_event_ = false;
public:
  explicit VhListRecord(const stir::shared_ptr<const stir::ProjDataInfo>& pdi) : ev_(pdi) {}
  bool is_time() const override { return is_time_; }
  bool is_event() const override { return is_event_; }
  stir::ListEvent& event() override { return ev_; }
  const stir::ListEvent& event() const override { return ev_; }
  stir::ListTime& time() override { return tm_; }
  const stir::ListTime& time() const override { return tm_; }
  void load(const LmRec& r) {
    is_time_ = r.is_time();
    is_event_ = r.is_event();
    if (is_time_) tm_.set_time_in_millisecs(r.ms);
    else {
      ev_.set_detection_position(stir::DetectionPositionPair<>(stir::DetectionPosition<>(r.d1, r.r1, 0), stir::DetectionPosition<>(r.d2, r.r2, 0), r.tof));
      ev_.set_prompt(r.kind == LmRec::Prompt);
    }
  }
};

// The stream.  `pdi` is what get_proj_data_info_sptr() reports (a clone is stored); its scanner is the
// scanner of the list-mode data.  Positions are indices into the record vector (0 = before the first record).
template <class ProjDataInfoT = stir::ProjDataInfoCylindricalNoArcCorr>
class VhListModeData : public stir::CListModeData {
  std::vector<LmRec> recs_;
  mutable std::size_t pos_ = 0;
  std::vector<std::size_t> saved_;
  bool has_delayeds_;
  std::string name_;
public:
  // observer(what, a, b): "next"(index of the record served, 1-based; 0 when at end of stream, kind or -1),
  // "reset"(0,0), "save"(id, position), "set"(id, position)
  std::function<void(const char*, long, long)> observer;

  VhListModeData(const stir::shared_ptr<const stir::ProjDataInfo>& pdi, std::vector<LmRec> recs, bool has_delayeds = true,
                 const std::string& name = "vh-in-memory-listmode")
      : recs_(std::move(recs)), has_delayeds_(has_delayeds), name_(name) {
    stir::shared_ptr<stir::ExamInfo> ei(new stir::ExamInfo);
    ei->imaging_modality = stir::ImagingModality::PT;
    this->exam_info_sptr = ei;
    this->set_proj_data_info_sptr(pdi);
  }
  const std::vector<LmRec>& records() const { return recs_; }
  std::size_t position() const { return pos_; }

  std::string get_name() const override { return name_; }
  stir::shared_ptr<stir::CListRecord> get_empty_record_sptr() const override {
    return stir::shared_ptr<stir::CListRecord>(new VhListRecord<ProjDataInfoT>(this->get_proj_data_info_sptr()));
  }
  stir::Succeeded get_next_record(stir::CListRecord& rec) const override {
    if (pos_ >= recs_.size()) {
      if (observer) observer("next", 0, -1);
      return stir::Succeeded::no;
    }
    const LmRec& r = recs_[pos_++];
    static_cast<VhListRecord<ProjDataInfoT>&>(rec).load(r);
    if (observer) observer("next", (long)pos_, r.kind);
    return stir::Succeeded::yes;
  }
  using stir::ListModeData::get_next_record;
  stir::Succeeded reset() override { pos_ = 0; if (observer) observer("reset", 0, 0); return stir::Succeeded::yes; }
  SavedPosition save_get_position() override {
    saved_.push_back(pos_);
    if (observer) observer("save", (long)saved_.size() - 1, (long)pos_);
    return static_cast<SavedPosition>(saved_.size() - 1);
  }
  stir::Succeeded set_get_position(const SavedPosition& id) override {
    if (id >= saved_.size()) return stir::Succeeded::no;
    pos_ = saved_[id];
    if (observer) observer("set", (long)id, (long)pos_);
    return stir::Succeeded::yes;
  }
  bool has_delayeds() const override { return has_delayeds_; }
  unsigned long int get_total_number_of_events() const override {
    unsigned long n = 0;
    for (const auto& r : recs_) if (r.is_event()) ++n;
    return n;
  }
};

} // namespace vh
#endif
