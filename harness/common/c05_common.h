// Pieces shared by the C05 drivers (c05_poissonll, c05_realproj, c05_listmode, c05_patlak): crash handler, harness-side
// normalisation objects, poisoned placement-new storage, fixed-point recording of images and the generic
// "issue one request to the objective function and record what came back" routine.
// DRIVE AND RECORD ONLY: no expected values, no comparisons - TLC decides.
#ifndef VERIF_C05_COMMON_H
#define VERIF_C05_COMMON_H
#include "vh_stir.h"
#include "stir/DiscretisedDensity.h"
#include "stir/recon_buildblock/PoissonLogLikelihoodWithLinearModelForMean.h"
#include "stir/recon_buildblock/BinNormalisation.h"
#include "stir/RelatedViewgrams.h"
#include "stir/Succeeded.h"
#include <array>
#include <map>
#include <cstring>
#include <new>
#include <csignal>

namespace c05 {
using namespace stir;
typedef DiscretisedDensity<3, float> Img;
typedef std::array<int, 5> BinKey;  // segment, view, axial pos, tangential pos, TOF pos
inline BinKey bin_key(const Bin& b) { return BinKey{ { b.segment_num(), b.view_num(), b.axial_pos_num(), b.tangential_pos_num(), b.timing_pos_num() } }; }

// a crash inside the code under test ends the trace with an Abort line (which the specification does not accept)
inline void on_signal(int sig) {
  if (vh::Trace::current()) { vh::Trace::current()->emit(vh::Json("Abort").num("sig", sig)); vh::Trace::current()->flush(); }
  _exit(0);
}

inline void install_signal_handlers() {
  std::signal(SIGSEGV, on_signal);
  std::signal(SIGFPE, on_signal);
  std::signal(SIGBUS, on_signal);
  std::signal(SIGABRT, on_signal);
}

// ---------------------------------------------------------------- harness-side normalisation objects
// efficiencies given bin by bin (exercises BinNormalisation::apply/undo of the base class)
class EffNorm : public BinNormalisation {
public:
  std::map<BinKey, float> eff;
  bool tof_dependent = false;
  float get_bin_efficiency(const Bin& b) const override {
    BinKey k = bin_key(b);
    if (!tof_dependent) k[4] = 0;
    auto it = eff.find(k);
    return it == eff.end() ? 1.F : it->second;
  }
  bool is_TOF_only_norm() const override { return tof_dependent; }
  std::string get_registered_name() const override { return "VerifEff"; }
};

// forwards to another normalisation object and records with which kind of data (TOF or not) it was
// last set up whenever it is used
struct NormUse { bool set_up_done, set_up_tof, used_tof; };
class RecNorm : public BinNormalisation {
public:
  shared_ptr<BinNormalisation> inner;
  mutable bool done = false, last_tof = false;
  mutable std::vector<NormUse> uses;
  mutable int set_ups = 0;
  explicit RecNorm(shared_ptr<BinNormalisation> n) : inner(n) {}
  Succeeded set_up(const shared_ptr<const ExamInfo>& e, const shared_ptr<const ProjDataInfo>& p) override {
    BinNormalisation::set_up(e, p);
    done = true; last_tof = p->is_tof_data(); ++set_ups;
    return inner->set_up(e, p);
  }
  bool is_trivial() const override { return inner->is_trivial(); }
  bool is_TOF_only_norm() const override { return inner->is_TOF_only_norm(); }
  float get_bin_efficiency(const Bin& b) const override { return inner->get_bin_efficiency(b); }
  void note(const RelatedViewgrams<float>& v) const {
    NormUse u{ done, last_tof, v.get_proj_data_info_sptr()->is_tof_data() };
    for (auto& x : uses) if (x.set_up_done == u.set_up_done && x.set_up_tof == u.set_up_tof && x.used_tof == u.used_tof) return;
    uses.push_back(u);
  }
  void apply(RelatedViewgrams<float>& v) const override { note(v); inner->apply(v); }
  void undo(RelatedViewgrams<float>& v) const override { note(v); inner->undo(v); }
  std::string get_registered_name() const override { return "VerifRec"; }
};

// fixed-point record of an image at scale 2^k; exact = every element is an exact multiple of 2^-k
inline void put_image(vh::Json& j, const Img& im, int k) {
  std::vector<long long> out;
  bool exact = true;
  for (auto it = im.begin_all_const(); it != im.end_all_const(); ++it) {
    const double sc = std::ldexp((double)*it, k);
    const long long q = std::llround(sc);
    if ((double)q != sc) exact = false;
    out.push_back(q);
  }
  j.num("k", k).boolean("ex", exact).arr("out", out);
}

enum Kind { Value = 0, Grad, Sens, Hess, GradPlusSens, ApproxHess, AddSens };
static const char* const kind_names[] = { "Value", "Grad", "Sens", "HessTimes", "GradPlusSens", "ApproxHess", "AddSens" };
struct Req { Kind kind; int sub; bool pen; };  // sub = -1: full data

template <class OF>
struct Obj {
  void* mem = nullptr;
  OF* of = nullptr;
  ~Obj() { if (of) of->~OF(); if (mem) std::free(mem); }
  void make(int fill) {
    const size_t sz = (sizeof(OF) + 63) / 64 * 64;
    mem = std::aligned_alloc(64, sz);
    std::memset(mem, fill, sz);   // poisoned storage: an indeterminate member reads as `fill`
    of = new (mem) OF;
  }
};

inline void norm_uses(vh::Json& j, const shared_ptr<RecNorm>& rec) {
  std::vector<std::vector<int>> u;
  if (rec) { for (auto& x : rec->uses) u.push_back({ x.set_up_done ? 1 : 0, x.set_up_tof ? 1 : 0, x.used_tof ? 1 : 0 }); rec->uses.clear(); }
  j.arr2("normUse", u);
}

// kImg / kApprox: fixed-point scales (2^k) for image-valued results and for the approximate Hessian
inline void do_request(vh::Trace& tr, PoissonLogLikelihoodWithLinearModelForMean<Img>& of, const shared_ptr<RecNorm>& rec, const Req& q, const Img& lam, const Img& x, vh::Rng& rng,
                       int kImg = 4, int kApprox = 10, int kHess = -1) {
  vh::Json j(kind_names[q.kind]);
  j.num("sub", q.sub).boolean("pen", q.pen);
  shared_ptr<Img> out(lam.get_empty_copy());
  out->fill(0.F);
  std::string msg;
  double val = 0;
  bool succeeded = true;
  std::vector<int> o0;
  if (q.kind == Hess || q.kind == ApproxHess || q.kind == AddSens) {
    // these calls accumulate into their output: start from a recorded non-zero image sometimes
    const bool nz = rng.range(0, 2) == 0;
    for (auto it = out->begin_all(); it != out->end_all(); ++it) { int v = nz ? rng.range(-2, 2) : 0; *it = (float)v; o0.push_back(v); }
  }
  const bool err = vh::threw([&] {
    switch (q.kind) {
    case Value:
      if (q.sub < 0) val = q.pen ? of.compute_objective_function(lam) : of.compute_objective_function_without_penalty(lam);
      else val = q.pen ? of.compute_objective_function(lam, q.sub) : of.compute_objective_function_without_penalty(lam, q.sub);
      break;
    case Grad:
      if (q.sub < 0) { if (q.pen) of.compute_gradient(*out, lam); else of.compute_gradient_without_penalty(*out, lam); }
      else { if (q.pen) of.compute_sub_gradient(*out, lam, q.sub); else of.compute_sub_gradient_without_penalty(*out, lam, q.sub); }
      break;
    case GradPlusSens: of.compute_sub_gradient_without_penalty_plus_sensitivity(*out, lam, q.sub); break;
    case Sens: *out = q.sub < 0 ? of.get_sensitivity() : of.get_subset_sensitivity(q.sub); break;
    case AddSens: of.add_subset_sensitivity(*out, q.sub); break;
    case Hess:
      if (q.sub < 0) succeeded = (q.pen ? of.accumulate_Hessian_times_input(*out, lam, x) : of.accumulate_Hessian_times_input_without_penalty(*out, lam, x)) == Succeeded::yes;
      else succeeded = (q.pen ? of.accumulate_sub_Hessian_times_input(*out, lam, x, q.sub) : of.accumulate_sub_Hessian_times_input_without_penalty(*out, lam, x, q.sub)) == Succeeded::yes;
      break;
    case ApproxHess:
      if (q.sub < 0) succeeded = (q.pen ? of.add_multiplication_with_approximate_Hessian(*out, x) : of.add_multiplication_with_approximate_Hessian_without_penalty(*out, x)) == Succeeded::yes;
      else succeeded = (q.pen ? of.add_multiplication_with_approximate_sub_Hessian(*out, x, q.sub) : of.add_multiplication_with_approximate_sub_Hessian_without_penalty(*out, x, q.sub)) == Succeeded::yes;
      break;
    }
  }, &msg);
  j.boolean("err", err || !succeeded);
  if (err) j.str("msg", msg.substr(0, 120));
  if (!o0.empty()) j.arr("o0", o0);
  if (q.kind == Value) {
    const double sc = std::ldexp(val, 10);
    j.num("k", 10).num("val", err ? 0 : std::llround(sc));
  } else
    put_image(j, *out, q.kind == ApproxHess ? kApprox : (q.kind == Hess && kHess >= 0 ? kHess : kImg));
  norm_uses(j, rec);
  tr.emit(j);
}

} // namespace c05
#endif
