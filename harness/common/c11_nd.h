// C11 helpers (recording only): value encoding, trace writer with raw lines.
#ifndef VERIF_C11_ND_H
#define VERIF_C11_ND_H
#include "vh.h"
#include <cmath>
#include <string>

namespace nd {
// a value is logged as itself when it is an integer in -30000..30000 (the domain on which the
// specification computes), otherwise as the marker 777777 ("not a small integer": uninitialised
// storage, overflowed or non-integer results) -- an encoding of what was read, not an expectation
const long long UNSPEC = 777777;
const int MAXLOG = 4096;
inline long long enc(int v) { return (v >= -30000 && v <= 30000) ? (long long)v : UNSPEC; }
inline long long enc(float v) {
  if (!std::isfinite(v) || std::fabs(v) > 30000.F || v != std::floor(v)) return UNSPEC;
  return (long long)v;
}

class Out {
  FILE* f = nullptr;
  long since = 0;
public:
  long lines = 0;
  explicit Out(const std::string& path) { f = fopen(path.c_str(), "w"); if (!f) { perror(path.c_str()); _exit(3); } }
  ~Out() { if (f) fclose(f); }
  void emit_raw(const std::string& l) { fputs(l.c_str(), f); fputc('\n', f); ++lines; ++since; }
  void emit(const vh::Json& j) { emit_raw(j.done()); }
  void flush() { if (f) fflush(f); since = 0; }
  void flush_every(long n) { if (since >= n) flush(); }
};
} // namespace nd
#endif
