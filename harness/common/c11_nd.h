// C11 helpers (recording only): value encoding, trace writer with raw lines.
#ifndef VERIF_C11_ND_H
#define VERIF_C11_ND_H
#include "vh.h"
#include <cmath>
#include <string>

namespace nd {
// a value is logged as itself when it is an integer in -30000..30000 (the domain on which the
// specification computes), otherwise as the marker 777777 ("not a small integer": uninitialised
// storage, overflowed or non-integer results) -- an encoding of what was read, not an expectation
const long long UNSPEC = 777777;
const int MAXLOG = 4096;
inline long long enc(int v) { return (v >= -30000 && v <= 30000) ? (long long)v : UNSPEC; }
inline long long enc(float v) {
  if (!std::isfinite(v) || std::fabs(v) > 30000.F || v != std::floor(v)) return UNSPEC;
  return (long long)v;
}

class Out {
  FILE* f = nullptr;
  long since = 0;
public:
  long lines = 0;
  explicit Out(const std::string& path) { f = fopen(path.c_str(), "w"); if (!f) { perror(path.c_str()); _exit(3); } }
  ~Out() { if (f) fclose(f); }
  void emit_raw(const std::string& l) { fputs(l.c_str(), f); fputc('\n', f); ++lines; ++since; }
  void emit(const vh::Json& j) { emit_raw(j.done()); }
  void flush() { if (f) fflush(f); since = 0; }
  void flush_every(long n) { if (since >= n) flush(); }
};
} // namespace nd

// ------------------------------------------------------------------ multi-dimensional part
#include "stir/Array.h"
#include "stir/IndexRange.h"
#include "stir/BasicCoordinate.h"
#include "stir/shared_ptr.h"
#include <functional>
#include <memory>
#include <vector>
#include "stir/copy_fill.h"
#include "stir/IO/read_data.h"
#include "stir/IO/write_data.h"
#include <sstream>
#include <cstring>
#include <sys/types.h>
#include <sys/wait.h>
#include <unistd.h>

namespace c11n {
using namespace stir;

// a range tree (what an IndexRange<D> is built from / what it reports)
struct RT { int lo = 0, hi = -1; bool leaf = true; std::vector<RT> r; };
inline std::string rt_json(const RT& t) {
  std::string s = "{\"lo\":" + std::to_string(t.lo) + ",\"hi\":" + std::to_string(t.hi);
  if (!t.leaf) { s += ",\"r\":["; for (size_t i = 0; i < t.r.size(); ++i) { if (i) s += ","; s += rt_json(t.r[i]); } s += "]"; }
  return s + "}";
}
inline long rt_size(const RT& t) { if (t.leaf) return t.hi >= t.lo ? t.hi - t.lo + 1 : 0; long n = 0; for (auto& x : t.r) n += rt_size(x); return n; }
inline bool rt_has_empty(const RT& t) { if (t.hi < t.lo) return true; if (!t.leaf) for (auto& x : t.r) if (rt_has_empty(x)) return true; return false; }
// seeded generation of a range tree of dimension d
inline RT rt_gen(int d, vh::Rng& rng, bool regular, bool allow_empty, int maxlen, int maxrows) {
  RT t;
  if (d == 1) {
    t.leaf = true;
    int len = rng.range(allow_empty && rng.range(0, 5) == 0 ? 0 : 1, maxlen);
    if (len == 0) { t.lo = 0; t.hi = -1; } else { t.lo = rng.range(-2, 3); t.hi = t.lo + len - 1; }
    return t;
  }
  t.leaf = false;
  int n = rng.range(allow_empty && rng.range(0, 7) == 0 ? 0 : 1, maxrows);
  if (n == 0) { t.lo = 0; t.hi = -1; return t; }
  t.lo = rng.range(-1, 2); t.hi = t.lo + n - 1;
  if (regular) { RT sub = rt_gen(d - 1, rng, true, allow_empty, maxlen, maxrows); for (int i = 0; i < n; ++i) t.r.push_back(sub); }
  else for (int i = 0; i < n; ++i) t.r.push_back(rt_gen(d - 1, rng, rng.range(0, 2) == 0, allow_empty, maxlen, maxrows));
  return t;
}
// extend a range tree (for grow(): the old range must be inside the new one)
inline RT rt_extend(const RT& t, int d, vh::Rng& rng, int maxlen, int maxrows) {
  RT n = t;
  if (t.hi < t.lo) return rt_gen(d, rng, false, true, maxlen, maxrows);
  const int cur = t.hi - t.lo + 1;
  const int room = (t.leaf ? maxlen + 2 : maxrows + 1) - cur;      // keep the arrays small
  int dl = rng.range(0, 1), dh = rng.range(0, 1);
  if (dl + dh > room) { dl = room > 0 ? dl : 0; dh = room > dl ? dh : 0; if (dl + dh > room) dh = 0; }
  if (t.leaf) { n.lo = t.lo - dl; n.hi = t.hi + dh; return n; }
  n.r.clear(); n.lo = t.lo - dl; n.hi = t.hi + dh;
  for (int i = n.lo; i <= n.hi; ++i) {
    if (i >= t.lo && i <= t.hi) n.r.push_back(rt_extend(t.r[i - t.lo], d - 1, rng, maxlen, maxrows));
    else n.r.push_back(rt_gen(d - 1, rng, false, true, maxlen, maxrows));
  }
  return n;
}

template <int D> struct Build {
  static IndexRange<D> make(const RT& t) {
    if (t.hi < t.lo) return IndexRange<D>();
    VectorWithOffset<IndexRange<D - 1>> rows(t.lo, t.hi);
    for (int i = t.lo; i <= t.hi; ++i) rows[i] = Build<D - 1>::make(t.r[i - t.lo]);
    return IndexRange<D>(rows);
  }
  static RT read(const IndexRange<D>& r) {
    RT t; t.leaf = false; t.lo = r.get_min_index(); t.hi = r.get_max_index();
    int cnt = 0;
    for (int i = t.lo; i <= t.hi && cnt < 64; ++i, ++cnt) t.r.push_back(Build<D - 1>::read(r[i]));
    return t;
  }
};
template <> struct Build<1> {
  static IndexRange<1> make(const RT& t) { return IndexRange<1>(t.lo, t.hi); }
  static RT read(const IndexRange<1>& r) { RT t; t.leaf = true; t.lo = r.get_min_index(); t.hi = r.get_max_index(); return t; }
};

// what the API of an array answers, as a tree
template <int D> struct Obs {
  static std::string tree(const Array<D, float>& a, const float* blk, int K, const float* p0) {
    std::string s = "{\"lo\":" + std::to_string(a.get_min_index()) + ",\"hi\":" + std::to_string(a.get_max_index()) + ",\"r\":[";
    int cnt = 0;
    for (int i = a.get_min_index(); i <= a.get_max_index() && cnt < 64; ++i, ++cnt) { if (cnt) s += ","; s += Obs<D - 1>::tree(a[i], blk, K, p0); }
    return s + "]}";
  }
  // address of the first element in row-major order (nullptr: no elements)
  static const float* first_ptr(const Array<D, float>& a) {
    for (int i = a.get_min_index(); i <= a.get_max_index(); ++i) { const float* p = Obs<D - 1>::first_ptr(a[i]); if (p) return p; }
    return nullptr;
  }
  static Array<1, float>* leaf_at(Array<D, float>& a, const std::vector<int>& c, size_t k) { return Obs<D - 1>::leaf_at(a[c[k]], c, k + 1); }
  // a random existing element / leaf (false if the walk meets an empty sub-array)
  static bool walk(const Array<D, float>& a, vh::Rng& rng, std::vector<int>& c, bool to_leaf) {
    if (a.size() == 0) return false;
    int i = rng.range(a.get_min_index(), a.get_max_index());
    c.push_back(i);
    return Obs<D - 1>::walk(a[i], rng, c, to_leaf);
  }
};
template <> struct Obs<1> {
  static const float* first_ptr(const Array<1, float>& a) { return a.size() > 0 ? a.begin() : nullptr; }
  static std::string tree(const Array<1, float>& a, const float* blk, int K, const float* p0) {
    std::vector<long long> v; int cnt = 0;
    for (int i = a.get_min_index(); i <= a.get_max_index() && cnt < 256; ++i, ++cnt) v.push_back(nd::enc(a[i]));
    const float* first = a.begin(); long cell = 0;
    if (first != nullptr && std::greater_equal<const float*>()(first, blk) && std::less<const float*>()(first, blk + K)) cell = (first - blk) + 1;
    // where the row starts in memory, in elements from the first element of the whole array (an observation of
    // addresses; 999999999 = further away than the specification's integers go)
    long long off = 0;
    if (a.size() > 0 && p0 != nullptr) { off = (long long)(first - p0); if (off > 999999999LL || off < -999999999LL) off = 999999999LL; }
    vh::Json j; j.num("lo", a.get_min_index()).num("hi", a.get_max_index()).arr("v", v).num("cell", a.size() > 0 ? cell : 0).num("off", off);
    return j.done();
  }
  static Array<1, float>* leaf_at(Array<1, float>& a, const std::vector<int>&, size_t) { return &a; }
  static bool walk(const Array<1, float>& a, vh::Rng& rng, std::vector<int>& c, bool to_leaf) {
    if (to_leaf) return true;
    if (a.size() == 0) return false;
    c.push_back(rng.range(a.get_min_index(), a.get_max_index()));
    return true;
  }
};

template <int D> struct NSys {
  typedef Array<D, float> A;
  std::unique_ptr<A> s[2];
  shared_ptr<float[]> blk;
  int K;
  explicit NSys(int K_) : K(K_) { s[0].reset(new A()); s[1].reset(new A()); blk = shared_ptr<float[]>(new float[K]); for (int c = 0; c < K; ++c) blk[c] = (float)(101 + c); }
};

template <int D> std::string observe_arr(const Array<D, float>& a, const float* blk, int K) {
  vh::Json j;
  j.raw("t", Obs<D>::tree(a, blk, K, Obs<D>::first_ptr(a))).boolean("contig", a.is_contiguous()).num("sz", (long long)a.size_all()).num("sum", nd::enc(a.sum())).boolean("reg", a.is_regular())
      .raw("rng", rt_json(Build<D>::read(a.get_index_range()))).num("n", (long long)a.size()).boolean("em", a.empty());
  return j.done();
}
template <int D> std::string observe(const NSys<D>& y, const std::string& extra = "") {
  std::vector<long long> b; for (int c = 0; c < y.K; ++c) b.push_back(nd::enc(y.blk[c]));
  vh::Json j;
  j.raw("s", "[" + observe_arr<D>(*y.s[0], y.blk.get(), y.K) + "," + observe_arr<D>(*y.s[1], y.blk.get(), y.K) + "]").arr("blk", b)
      .boolean("eq", *y.s[0] == *y.s[1]);
  std::string s = j.done();
  if (!extra.empty()) { s.pop_back(); s += "," + extra + "}"; }
  return s;
}

// run f in a child process first: false if the child ended in a sanitizer report / signal
inline bool survives(const std::function<void()>& f, void (*child_setup)()) {
  fflush(nullptr);
  pid_t pid = fork();
  if (pid < 0) return true;
  if (pid == 0) {
    child_setup();
    try { f(); } catch (...) {}
    _exit(0);
  }
  int status = 0;
  waitpid(pid, &status, 0);
  return WIFEXITED(status) && WEXITSTATUS(status) == 0;
}

template <int D> BasicCoordinate<D, int> coord(const std::vector<int>& c) { BasicCoordinate<D, int> b; for (int i = 1; i <= D; ++i) b[i] = c[i - 1]; return b; }

struct NOp { std::string k; int t = 1, a = 0, b = 0; std::vector<int> c; RT R; std::vector<RT> S; bool forked = false; bool want_contig = false; };
inline std::string nop_json(const NOp& o) {
  std::string ss = "[";
  for (size_t i = 0; i < o.S.size(); ++i) { if (i) ss += ","; ss += rt_json(o.S[i]); }
  ss += "]";
  vh::Json j; j.str("k", o.k).num("t", o.t).num("a", o.a).num("b", o.b).arr("c", o.c).raw("R", rt_json(o.R)).raw("S", ss);
  return j.done();
}
// an index range that is incompatible with t (inputs for the operand positions of multi-operand arithmetic):
// 1 outer range one shorter, 2 one longer, 3 shifted by one, 4 / 5 differing only in the innermost dimension
inline RT rt_variant(const RT& t, int code) {
  RT n = t;
  const bool has = t.hi >= t.lo;
  if (code == 1) { if (has) { n.hi -= 1; if (!n.leaf) n.r.pop_back(); if (n.hi < n.lo) { n.lo = 0; n.hi = -1; } } }
  else if (code == 2) { if (has) { n.hi += 1; if (!n.leaf) n.r.push_back(t.r.back()); } else if (n.leaf) { n.lo = 0; n.hi = 0; } }
  else if (code == 3) { if (has) { n.lo += 1; n.hi += 1; } }
  else if (code == 4) { if (n.leaf) return rt_variant(t, 2); if (has) n.r.back() = rt_variant(t.r.back(), 4); }
  else if (code == 5) { if (n.leaf) return rt_variant(t, 1); if (has) n.r.front() = rt_variant(t.r.front(), 5); }
  return n;
}
template <int D> struct FillIota {
  static void run(Array<D, float>& a, int& x) { for (int i = a.get_min_index(); i <= a.get_max_index(); ++i) FillIota<D - 1>::run(a[i], x); }
};
template <> struct FillIota<1> {
  static void run(Array<1, float>& a, int& x) { for (int i = a.get_min_index(); i <= a.get_max_index(); ++i) a[i] = (float)(x++); }
};
// temporary operand number q: range tree rt, values 10q+1, 10q+2, ... in row-major order
template <int D> std::unique_ptr<Array<D, float>> make_temp(const RT& rt, int q) {
  std::unique_ptr<Array<D, float>> w(new Array<D, float>(Build<D>::make(rt)));
  int x = 10 * q + 1;
  FillIota<D>::run(*w, x);
  return w;
}

// multi-operand arithmetic on slot t with temporaries: `nops' operands, operand `pos' (0 = none) gets variant `code'
template <int D> NOp make_multi(NSys<D>& y, int t, const std::string& kind, int pos, int code, int a, int b) {
  NOp o; o.k = kind; o.t = t; o.a = a; o.b = b; o.forked = true;
  const int nops = kind == "NXapybM" ? 4 : kind == "NXapybSM" ? 2 : kind == "NSapybM" ? 3 : 1;
  const RT cur = Build<D>::read(y.s[t - 1]->get_index_range());
  for (int q = 1; q <= nops; ++q) o.S.push_back(q == pos ? rt_variant(cur, code) : cur);
  return o;
}
// the systematic part of every sequence: every operand position of every multi-operand operation once
// (plus "all compatible"), the kind of incompatibility rotating with the sequence number
struct Forced { std::string k; int pos, code, a, b; };
inline std::vector<Forced> sweep_plan(long q) {
  std::vector<Forced> f;
  int c = (int)(q % 5);
  auto code = [&] { c = c % 5 + 1; return c; };
  for (int pos = 0; pos <= 4; ++pos) f.push_back({ "NXapybM", pos, code(), 0, 0 });
  for (int pos = 0; pos <= 2; ++pos) f.push_back({ "NXapybSM", pos, code(), 2, -1 });
  for (int pos = 0; pos <= 3; ++pos) f.push_back({ "NSapybM", pos, code(), 0, 0 });
  for (int op = 0; op < 2; ++op) f.push_back({ "NVOpM", 1, code(), (int)((q + op) % 4), 0 });
  for (int op = 0; op < 2; ++op) f.push_back({ "NBOpM", 1, code(), (int)((q + op + 2) % 4), 0 });
  // contiguity and the flat-path operations: a fresh array owning one block, then an inner row (reached through
  // operator[]) is resized to the same length shifted by one / shrunk / grown, each followed by flat-path calls
  f.push_back({ "NConstruct", 0, 0, 0, 0 });
  f.push_back({ "NIotaAll", 0, 0, 1, 0 });
  f.push_back({ "NRowResize", 1, 0, 0, 0 }); f.push_back({ "NCopyTo", 0, 0, 0, 0 }); f.push_back({ "NFillFrom", 0, 0, 50, 0 });
  f.push_back({ "NRowResize", 2, 0, 0, 0 }); f.push_back({ "NFullPtr", 0, 0, 0, 0 }); f.push_back({ "NReadData", 0, 0, 70, 0 });
  f.push_back({ "NRowResize", 3, 0, 0, 0 }); f.push_back({ "NCopyTo", 0, 0, 0, 0 }); f.push_back({ "NWriteData", 0, 0, 0, 0 }); f.push_back({ "NFullPtrW", 0, 0, 90, 0 });
  return f;
}

// choose the next operation from what the objects currently answer (inputs only, no expectations)
template <int D> NOp choose(vh::Rng& rng, NSys<D>& y, bool calm) {
  typedef Array<D, float> A;
  NOp o; o.t = rng.range(1, 2);
  A& T = *y.s[o.t - 1];
  const int maxlen = D >= 4 ? 2 : 3, maxrows = D >= 4 ? 2 : 3;
  int r = calm ? 100 + rng.range(0, 1) : rng.range(0, 99);
  if (r < 6) { o.k = "NConstruct"; o.R = rt_gen(D, rng, rng.coin(), true, maxlen, maxrows); o.want_contig = !rt_has_empty(o.R); }
  else if (r < 11) { o.k = "NView"; o.t = 1; bool ok = false; for (int i = 0; i < 20 && !ok; ++i) { o.R = rt_gen(D, rng, rng.coin(), false, 2, 2); ok = rt_size(o.R) <= y.K; } if (!ok) { o.k = "NNop"; o.R = RT(); } else o.want_contig = true; }
  else if (r < 12) o.k = "NDefault";
  else if (r < 15) o.k = "NCopy";
  else if (r < 18) o.k = "NAssign";
  else if (r < 20) { o.k = "NMove"; o.t = 1; }
  else if (r < 21) o.k = "NRecycle";
  else if (r < 28) { o.k = "NResize"; o.R = rng.range(0, 2) ? rt_extend(Build<D>::read(T.get_index_range()), D, rng, maxlen, maxrows) : rt_gen(D, rng, rng.coin(), true, maxlen, maxrows);
                     if (rng.range(0, 2) == 0 && !o.R.leaf && o.R.hi > o.R.lo) { o.R.hi -= 1; o.R.r.pop_back(); } }
  else if (r < 34) { o.k = "NGrow"; o.R = rt_extend(Build<D>::read(T.get_index_range()), D, rng, maxlen, maxrows); }
  else if (r < 44) { o.k = "NRowResize"; if (!Obs<D>::walk(T, rng, o.c, true)) { o.k = "NNop"; o.c.clear(); } else { Array<1, float>* lf = Obs<D>::leaf_at(T, o.c, 0); o.a = lf->get_min_index() + rng.range(-1, 1); o.b = lf->get_max_index() + rng.range(-1, 2); if (lf->size() == 0) { o.a = rng.range(-1, 1); o.b = o.a + rng.range(-1, 2); } } }
  else if (r < 48) { o.k = "NFill"; o.a = rng.range(-3, 9); }
  else if (r < 53) { o.k = "NIotaAll"; o.a = rng.range(-5, 20); o.forked = true; }
  else if (r < 58) { o.k = "NIterAll"; o.forked = true; }
  else if (r < 64) { o.k = rng.coin() ? "NSetAt" : "NGetAt"; o.a = rng.range(-9, 9);
                     if (!Obs<D>::walk(T, rng, o.c, false)) { o.c.assign(D, 0); } if (rng.range(0, 2) == 0) o.c[rng.range(0, D - 1)] += rng.coin() ? 1 : -1; }
  else if (r < 68) { o.k = "NSet"; o.a = rng.range(-9, 9); if (!Obs<D>::walk(T, rng, o.c, false)) { o.k = "NNop"; o.c.clear(); } }
  else if (r < 80) { static const char* ks[] = { "NVAdd", "NVSub", "NVMul", "NVDiv" }; o.k = ks[rng.range(0, 3)]; }
  else if (r < 86) { static const char* ks[] = { "NSAdd", "NSSub", "NSMul", "NSDiv" }; o.k = ks[rng.range(0, 3)]; o.a = rng.range(-2, 3); if (o.k == "NSDiv" && o.a == 0) o.a = 2; }
  else if (r < 90) {
    int z = rng.range(0, 7);
    o.forked = true; o.a = rng.range(-2, 2); o.b = rng.range(-2, 2);
    if (z == 0) o.k = "NSapyb";
    else if (z == 1) o.k = "NXapyb";
    else {
      const std::string kind = z <= 3 ? "NXapybM" : z == 4 ? "NXapybSM" : z == 5 ? "NSapybM" : z == 6 ? "NVOpM" : "NBOpM";
      const int nops = kind == "NXapybM" ? 4 : kind == "NXapybSM" ? 2 : kind == "NSapybM" ? 3 : 1;
      const bool one = nops == 1;
      return make_multi<D>(y, o.t, kind, rng.range(0, nops), rng.range(1, 5), one ? rng.range(0, 3) : o.a, one ? 0 : o.b);
    }
  }
  else if (r < 94) { static const char* ks[] = { "NContig", "NCopyTo", "NFillFrom", "NFullPtr", "NFullPtrW", "NWriteData", "NReadData" };
                     o.k = ks[rng.range(0, 6)]; o.a = rng.range(-5, 20); o.forked = true;
                     if (o.k != "NContig" && T.size_all() == 0) o.k = "NContig"; }
  else if (r < 100) { o.k = "NMemSet"; o.t = 1; o.a = rng.range(1, y.K); o.b = rng.range(-9, 9); }
  else if (r == 100) { o.k = "NFill"; o.a = rng.range(0, 3); }
  else { o.k = "NSMul"; o.a = 0; }
  return o;
}

struct NOutcome { bool err = false; std::vector<long long> res; bool contig = false; };

template <int D> void perform(NSys<D>& y, const NOp& op, NOutcome& out) {
  typedef Array<D, float> A;
  A& T = *y.s[op.t - 1]; A& O = *y.s[2 - op.t];
  const std::string& k = op.k;
  if (k == "NDefault") y.s[op.t - 1].reset(new A());
  else if (k == "NConstruct") { y.s[op.t - 1].reset(new A(Build<D>::make(op.R))); }
  else if (k == "NView") { y.s[op.t - 1].reset(new A(Build<D>::make(op.R), y.blk)); }
  else if (k == "NCopy") { std::unique_ptr<A> n(new A(O)); y.s[op.t - 1] = std::move(n); }
  else if (k == "NAssign") T = O;
  else if (k == "NMove") { std::unique_ptr<A> n(new A(std::move(O))); y.s[op.t - 1] = std::move(n); }
  else if (k == "NRecycle") T.recycle();
  else if (k == "NResize") T.resize(Build<D>::make(op.R));
  else if (k == "NGrow") T.grow(Build<D>::make(op.R));
  else if (k == "NRowResize") Obs<D>::leaf_at(T, op.c, 0)->resize(op.a, op.b);
  else if (k == "NFill") T.fill((float)op.a);
  else if (k == "NIotaAll") { int x = op.a; for (auto it = T.begin_all(); it != T.end_all(); ++it) *it = (float)(x++); }
  else if (k == "NIterAll") { const A& c = T; long cnt = 0; for (auto it = c.begin_all_const(); it != c.end_all_const() && cnt < 4096; ++it, ++cnt) out.res.push_back(nd::enc(*it)); }
  else if (k == "NSetAt") T.at(coord<D>(op.c)) = (float)op.a;
  else if (k == "NGetAt") { const A& c = T; out.res.push_back(nd::enc(c.at(coord<D>(op.c)))); }
  else if (k == "NSet") T[coord<D>(op.c)] = (float)op.a;
  else if (k == "NVAdd") T += O;
  else if (k == "NVSub") T -= O;
  else if (k == "NVMul") T *= O;
  else if (k == "NVDiv") T /= O;
  else if (k == "NSAdd") T += (float)op.a;
  else if (k == "NSSub") T -= (float)op.a;
  else if (k == "NSMul") T *= (float)op.a;
  else if (k == "NSDiv") T /= (float)op.a;
  else if (k == "NSapyb") T.sapyb((float)op.a, O, (float)op.b);
  else if (k == "NXapyb") T.xapyb(O, (float)op.a, O, (float)op.b);
  else if (k == "NXapybM") { auto x = make_temp<D>(op.S[0], 1), a = make_temp<D>(op.S[1], 2), yy = make_temp<D>(op.S[2], 3), b = make_temp<D>(op.S[3], 4); T.xapyb(*x, *a, *yy, *b); }
  else if (k == "NXapybSM") { auto x = make_temp<D>(op.S[0], 1), yy = make_temp<D>(op.S[1], 2); T.xapyb(*x, (float)op.a, *yy, (float)op.b); }
  else if (k == "NSapybM") { auto a = make_temp<D>(op.S[0], 1), yy = make_temp<D>(op.S[1], 2), b = make_temp<D>(op.S[2], 3); T.sapyb(*a, *yy, *b); }
  else if (k == "NVOpM") { auto w = make_temp<D>(op.S[0], 1); if (op.a == 0) T += *w; else if (op.a == 1) T -= *w; else if (op.a == 2) T *= *w; else T /= *w; }
  else if (k == "NBOpM") { auto w = make_temp<D>(op.S[0], 1);
                           std::unique_ptr<A> n(op.a == 0 ? new A(T + *w) : op.a == 1 ? new A(T - *w) : op.a == 2 ? new A(T * *w) : new A(T / *w)); y.s[op.t - 1] = std::move(n); }
  else if (k == "NMemSet") y.blk[op.a - 1] = (float)op.b;
  else if (k == "NContig") out.res.push_back(T.is_contiguous() ? 1 : 0);
  else if (k == "NCopyTo") { std::vector<float> buf(T.size_all() + 2, -7.F); copy_to(static_cast<const A&>(T), buf.begin()); for (size_t i = 0; i < T.size_all(); ++i) out.res.push_back(nd::enc(buf[i])); }
  else if (k == "NFillFrom") { std::vector<float> buf(T.size_all()); for (size_t i = 0; i < buf.size(); ++i) buf[i] = (float)(op.a + (int)i); fill_from(T, buf.begin(), buf.end()); }
  else if (k == "NFullPtr") { const A& c = T; const float* p = c.get_const_full_data_ptr(); for (size_t i = 0; i < c.size_all(); ++i) out.res.push_back(nd::enc(p[i])); c.release_const_full_data_ptr(); }
  else if (k == "NFullPtrW") { float* p = T.get_full_data_ptr(); for (size_t i = 0; i < T.size_all(); ++i) p[i] = (float)(op.a + (int)i); T.release_full_data_ptr(); }
  else if (k == "NWriteData") { std::stringstream ss; write_data(ss, static_cast<const A&>(T)); const std::string bytes = ss.str();
                                for (size_t i = 0; i + sizeof(float) <= bytes.size(); i += sizeof(float)) { float f; memcpy(&f, bytes.data() + i, sizeof(float)); out.res.push_back(nd::enc(f)); } }
  else if (k == "NReadData") { std::string bytes; for (size_t i = 0; i < T.size_all(); ++i) { float f = (float)(op.a + (int)i); bytes.append(reinterpret_cast<const char*>(&f), sizeof(float)); }
                               std::stringstream ss(bytes); read_data(ss, T); }
  else if (k == "NNop") {}
  else { fprintf(stderr, "unknown nd op %s\n", k.c_str()); _exit(3); }
}

template <int D> bool large_values(const NSys<D>& y) {
  for (int t = 0; t < 2; ++t) { long long e = nd::enc(y.s[t]->sum()); if (e == nd::UNSPEC || e > 2000 || e < -2000) return true; }
  return false;
}

} // namespace c11n
#endif
