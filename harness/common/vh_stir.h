// STIR-specific helpers shared by drivers: tiny scanners, proj data infos.
#ifndef VERIF_VH_STIR_H
#define VERIF_VH_STIR_H
#include "vh.h"
#include "stir/Scanner.h"
#include "stir/ProjDataInfo.h"
#include "stir/ProjDataInfoCylindricalNoArcCorr.h"
#include "stir/ProjDataInfoGenericNoArcCorr.h"
#include "stir/ProjDataInfoBlocksOnCylindricalNoArcCorr.h"
#include "stir/Bin.h"
#include "stir/DetectionPositionPair.h"
#include "stir/shared_ptr.h"
#include "stir/Verbosity.h"
#include <cmath>

namespace vh {

// user-defined scanner: N detectors per ring, R rings; maxT > 0 makes it TOF-ready.
// geom: "Cylindrical" or "BlocksOnCylindrical"
inline stir::shared_ptr<stir::Scanner> make_scanner(int N, int R, int maxT = 0, const std::string& geom = "Cylindrical",
                                                    float ring_spacing = 4.F, int max_bins = -1, float tilt = 0.F) {
  using stir::Scanner;
  const float radius = std::max(40.F, N * 4.F / 6.2831853F * 1.2F);
  if (max_bins < 0) max_bins = N - 1;
  int trans_per_block = (N % 4 == 0 && N >= 8) ? N / 4 : N / 2;
  if (geom == "Cylindrical") trans_per_block = 1;
  const int ax_blocks_per_bucket = geom == "Cylindrical" ? 1 : R;   // BlocksOnCylindrical supports one axial bucket only
  stir::shared_ptr<Scanner> sc;
  const float xtal = (float)(2 * 3.14159265358979 * radius / N) * 0.9F;
  if (maxT > 0)
    sc.reset(new Scanner(Scanner::User_defined_scanner, "tiny", N, R, max_bins, max_bins, radius, 0.F, ring_spacing, 3.F, tilt,
                         ax_blocks_per_bucket, 1, 1, trans_per_block, 1, trans_per_block, 1, 0.1F, 511.F, (short)maxT, 400.F, 600.F, geom,
                         ring_spacing, xtal, ring_spacing, xtal * trans_per_block));
  else
    sc.reset(new Scanner(Scanner::User_defined_scanner, "tiny", N, R, max_bins, max_bins, radius, 0.F, ring_spacing, 3.F, tilt,
                         ax_blocks_per_bucket, 1, 1, trans_per_block, 1, trans_per_block, 1, -1.F, -1.F, (short)-1, -1.F, -1.F, geom,
                         ring_spacing, xtal, ring_spacing, xtal * trans_per_block));
  return sc;
}

inline void quiet() { stir::Verbosity::set(0); }

} // namespace vh
#endif
