// C17 helper: run a list of items in child processes so that a sanitizer abort, a crash or a hang
// inside the code under test is ATTRIBUTED TO THE ITEM that caused it (reported as an outcome of that
// item, to be judged by TLC) instead of killing the recording.  No property logic here.
#ifndef VERIF_C17_GUARD_H
#define VERIF_C17_GUARD_H
#include "vh.h"
#include <sys/mman.h>
#include <sys/wait.h>
#include <sys/stat.h>
#include <fcntl.h>
#include <signal.h>
#include <unistd.h>
#include <cstring>
#include <functional>

namespace c17 {

// JSON string escaping that keeps tabs, CR and other control characters (vh::Json::str blanks them)
inline std::string jstr(const std::string& v) {
  std::string s = "\"";
  for (unsigned char c : v) {
    if (c == '"' || c == '\\') { s += '\\'; s += (char)c; }
    else if (c == '\n') s += "\\n";
    else if (c == '\t') s += "\\t";
    else if (c == '\r') s += "\\r";
    else if (c < 32 || c >= 127) { char b[8]; snprintf(b, sizeof b, "\\u%04x", c); s += b; }
    else s += (char)c;
  }
  return s + "\"";
}
inline std::string jarr(const std::vector<std::string>& v) {
  std::string s = "["; for (size_t i = 0; i < v.size(); ++i) { if (i) s += ','; s += jstr(v[i]); } return s + "]";
}
template <class V> inline std::string jints(const V& v) {
  std::string s = "["; bool f = true; for (auto x : v) { if (!f) s += ','; f = false; s += std::to_string((long long)x); } return s + "]";
}

struct Shared { volatile long cur; volatile long done; };

// what the sanitizer (or the kernel) said about the death of a child: first "ERROR: AddressSanitizer: <kind>"
// / "runtime error: <text>" line of its stderr
inline std::string death_kind(const std::string& errfile, int status) {
  std::ifstream f(errfile);
  std::string l, kind;
  while (std::getline(f, l)) {
    auto p = l.find("SUMMARY: AddressSanitizer: ");
    if (p != std::string::npos) { kind = l.substr(p + 27); auto q = kind.find_first_of(" :"); if (q != std::string::npos) kind = kind.substr(0, q); kind = "asan:" + kind; break; }
    p = l.find("runtime error: ");
    if (p != std::string::npos && kind.empty()) { kind = "ubsan:" + l.substr(p + 15, 60); }
  }
  if (!kind.empty()) return kind;
  if (WIFEXITED(status) && WEXITSTATUS(status) == 99) return "hang";
  if (WIFEXITED(status) && WEXITSTATUS(status) == 98) return "terminate";
  if (WIFSIGNALED(status)) return "signal:" + std::to_string(WTERMSIG(status));
  return "exit:" + std::to_string(WIFEXITED(status) ? WEXITSTATUS(status) : -1);
}

inline void on_alarm(int) { _exit(99); }
inline void on_term() { _exit(98); }

// Runs item(i) for i in [0,n) inside forked children.  item(i) returns the complete ndjson line of
// the item (without newline); it is written with one write().  If a child dies while running item i,
// dead(i, kind) supplies the line for that item and a new child continues with i+1.
// Returns the number of children that died.
inline long run_guarded(long n, const std::string& outpath, int per_item_timeout_s,
                        const std::function<std::string(long)>& item,
                        const std::function<std::string(long, const std::string&)>& dead) {
  Shared* sh = (Shared*)mmap(nullptr, sizeof(Shared), PROT_READ | PROT_WRITE, MAP_SHARED | MAP_ANONYMOUS, -1, 0);
  if (sh == MAP_FAILED) { perror("mmap"); _exit(3); }
  int fd = open(outpath.c_str(), O_WRONLY | O_CREAT | O_TRUNC | O_APPEND, 0644);
  if (fd < 0) { perror(outpath.c_str()); _exit(3); }
  const std::string errfile = outpath + ".stderr";
  long next = 0, deaths = 0;
  while (next < n) {
    sh->cur = next; sh->done = 0;
    fflush(stdout); fflush(stderr);
    pid_t pid = fork();
    if (pid < 0) { perror("fork"); _exit(3); }
    if (pid == 0) {
      int efd = open(errfile.c_str(), O_WRONLY | O_CREAT | O_TRUNC, 0644);
      if (efd >= 0) { dup2(efd, 2); close(efd); }
      signal(SIGALRM, on_alarm);
      std::set_terminate(on_term);
      for (long i = next; i < n; ++i) {
        sh->cur = i;
        alarm(per_item_timeout_s);
        std::string l = item(i);
        alarm(0);
        l += '\n';
        if (write(fd, l.data(), l.size()) != (ssize_t)l.size()) _exit(3);
      }
      sh->done = 1;
      _exit(0);
    }
    int status = 0;
    waitpid(pid, &status, 0);
    if (sh->done) break;
    if (WIFEXITED(status) && WEXITSTATUS(status) == 3) { fprintf(stderr, "c17: child I/O failure\n"); _exit(3); }
    const long i = sh->cur;
    ++deaths;
    std::string kind = death_kind(errfile, status);
    // keep the first few sanitizer reports for the notes / diagnosis
    if (deaths <= 40) { std::string keep = outpath + ".death" + std::to_string(deaths) + ".txt"; rename(errfile.c_str(), keep.c_str()); }
    std::string l = dead(i, kind) + "\n";
    if (write(fd, l.data(), l.size()) != (ssize_t)l.size()) _exit(3);
    next = i + 1;
  }
  close(fd);
  munmap(sh, sizeof(Shared));
  return deaths;
}

// minimal extraction from one ndjson line written by TLC: the array of strings of key `k`
inline std::vector<std::string> json_string_array(const std::string& line, const std::string& k) {
  std::vector<std::string> out;
  auto p = line.find("\"" + k + "\":[");
  if (p == std::string::npos) return out;
  p += k.size() + 4;
  while (p < line.size() && line[p] != ']') {
    if (line[p] == ',') { ++p; continue; }
    if (line[p] != '"') break;
    ++p;
    std::string s;
    while (p < line.size() && line[p] != '"') {
      if (line[p] == '\\' && p + 1 < line.size()) {
        char c = line[p + 1];
        if (c == 'n') s += '\n'; else if (c == 't') s += '\t'; else if (c == 'r') s += '\r'; else if (c == 'f') s += '\f'; else if (c == 'b') s += '\b';
        else if (c == 'u') { s += (char)strtol(line.substr(p + 2, 4).c_str(), nullptr, 16); p += 4; }
        else s += c;
        p += 2;
      } else s += line[p++];
    }
    ++p;
    out.push_back(s);
  }
  return out;
}
inline bool json_bool(const std::string& line, const std::string& k) { return line.find("\"" + k + "\":true") != std::string::npos; }

} // namespace c17
#endif
