// The explicit-matrix seam (DESIGN.md section 4, encoding E; shared by C05, C07, C08, C14).
//
// STIR's objective functions, projectors and reconstruction algorithms reach the system matrix
// only through stir::ProjMatrixByBin.  This header supplies a harness-side subclass whose rows are
// a small explicit matrix P chosen by the driver (typically small integers), so that the *real*
// production code (forward/back projectors using a matrix, distributable computation, objective
// functions, OSMAPOSL/OSSPS ...) runs on a system that a TLA+ specification can hold explicitly:
// the driver logs P and the inputs, TLC computes what the documentation says must come out.
//
// Nothing here evaluates a property: the classes only hand the driver's numbers to STIR.
//
//   vh::XmElem                       one matrix element: voxel (z,y,x) and weight
//   vh::ExplicitMatrixData           the rows, keyed by (segment, view, axial pos, tangential pos, TOF pos)
//   vh::XmObserver                   optional call-backs (set_up / row computed) so that a driver can
//                                    record WHICH matrix object (the original or a clone, set up for TOF
//                                    or non-TOF data) served a request
//   vh::ExplicitProjMatrix           the ProjMatrixByBin subclass
//   vh::make_explicit_projector_pair ProjectorByBinPairUsingProjMatrixByBin around a fresh ExplicitProjMatrix
//   vh::TinySystem / make_tiny_system  user-defined tiny scanner, (TOF) ProjDataInfo, image template
//   vh::xm_all_bins / xm_voxels      canonical enumeration orders of bins and voxels for logging
//   vh::xm_system_json               the "System" ndjson line (bins, rows, columns of P) read by spec/PoissonLL.tla
//
// How the subclass behaves (measured facts, see DESIGN.md C05 probe notes):
//  * set_up calls ProjMatrixByBin::set_up (mandatory), installs TrivialDataSymmetriesForBins (every
//    bin is its own basic bin, so rows are used exactly as given) and then sets the protected
//    `tof_enabled = false`: the base class would otherwise multiply every row of TOF data with its
//    Gaussian TOF kernel; with the flag off the TOF-dependent entries supplied here are used as-is.
//  * when the object is set up with NON-TOF projection data (e.g. the clone that
//    PoissonLogLikelihoodWithLinearModelForMeanAndProjData creates for non-TOF sensitivities of TOF
//    data) while the data hold TOF rows, the row of a bin is the sum over all TOF positions of the rows
//    of that (segment, view, axial, tangential) position — the explicit analogue of "the TOF kernel
//    sums to one".
//  * rows of bins that were never set are empty (a LOR that misses the image).
//  * clone() copies the object (sharing the immutable data and the observer) and gives the copy a new
//    instance id.
#ifndef VERIF_VH_EXPLICIT_MATRIX_H
#define VERIF_VH_EXPLICIT_MATRIX_H
#include "vh_stir.h"
#include "stir/recon_buildblock/ProjMatrixByBin.h"
#include "stir/recon_buildblock/ProjMatrixElemsForOneBin.h"
#include "stir/recon_buildblock/ProjectorByBinPairUsingProjMatrixByBin.h"
#include "stir/recon_buildblock/TrivialDataSymmetriesForBins.h"
#include "stir/VoxelsOnCartesianGrid.h"
#include "stir/IndexRange3D.h"
#include "stir/CartesianCoordinate3D.h"
#include "stir/ExamInfo.h"
#include <array>
#include <map>
#include <vector>

namespace vh {

struct XmElem {
  int z, y, x;
  float w;
};

typedef std::array<int, 5> XmKey;  // segment, view, axial pos, tangential pos, TOF pos

inline XmKey xm_key(const stir::Bin& b) {
  return XmKey{ { b.segment_num(), b.view_num(), b.axial_pos_num(), b.tangential_pos_num(), b.timing_pos_num() } };
}

//! The explicit matrix: a map bin -> row.  Fill it before handing it to ExplicitProjMatrix; it is
//! shared (not copied) by clones, so do not change it while projectors are in use.
class ExplicitMatrixData {
  std::map<XmKey, std::vector<XmElem>> rows;
  std::map<std::array<int, 4>, std::vector<XmElem>> summed;  // rows summed over TOF positions
  static void add_into(std::vector<XmElem>& acc, const std::vector<XmElem>& r) {
    for (const XmElem& e : r) {
      bool found = false;
      for (XmElem& a : acc)
        if (a.z == e.z && a.y == e.y && a.x == e.x) { a.w += e.w; found = true; break; }
      if (!found) acc.push_back(e);
    }
  }
public:
  //! set (replace) the row of a bin; elements with the same voxel are merged
  void set_row(const stir::Bin& b, const std::vector<XmElem>& r) {
    std::vector<XmElem> merged;
    add_into(merged, r);
    rows[xm_key(b)] = merged;
    summed.clear();
  }
  //! row of exactly this bin (TOF position included); empty if never set
  const std::vector<XmElem>& row(const stir::Bin& b) const {
    static const std::vector<XmElem> empty;
    auto it = rows.find(xm_key(b));
    return it == rows.end() ? empty : it->second;
  }
  //! builds the table of TOF-summed rows (called by ExplicitProjMatrix::set_up; row_summed_over_tof
  //! builds it on demand otherwise, which is not thread-safe)
  void prepare() {
    if (summed.empty())
      for (auto& kv : rows) {
        std::array<int, 4> k{ { kv.first[0], kv.first[1], kv.first[2], kv.first[3] } };
        add_into(summed[k], kv.second);
      }
  }
  //! sum over all TOF positions of the rows at this (segment, view, axial, tangential) position
  const std::vector<XmElem>& row_summed_over_tof(const stir::Bin& b) {
    prepare();
    static const std::vector<XmElem> empty;
    auto it = summed.find(std::array<int, 4>{ { b.segment_num(), b.view_num(), b.axial_pos_num(), b.tangential_pos_num() } });
    return it == summed.end() ? empty : it->second;
  }
  bool has_tof_rows() const {
    for (auto& kv : rows) if (kv.first[4] != 0) return true;
    return false;
  }
  std::size_t num_rows() const { return rows.size(); }
};

//! call-backs for drivers that want to record which matrix object did what (all optional)
struct XmObserver {
  virtual ~XmObserver() {}
  //! instance: 0 = the object given to the projector pair, 1, 2, ... = clones in order of creation
  virtual void on_set_up(int instance, bool proj_data_is_tof) {}
  virtual void on_row(int instance, bool proj_data_is_tof, const stir::Bin& bin) {}
  virtual void on_clone(int from_instance, int new_instance) {}
};

class ExplicitProjMatrix : public stir::ProjMatrixByBin {
  stir::shared_ptr<ExplicitMatrixData> data;
  stir::shared_ptr<XmObserver> obs;
  stir::shared_ptr<int> clone_counter;
  int instance;
  bool set_up_for_tof;

public:
  explicit ExplicitProjMatrix(const stir::shared_ptr<ExplicitMatrixData>& d,
                              const stir::shared_ptr<XmObserver>& o = stir::shared_ptr<XmObserver>())
      : data(d), obs(o), clone_counter(new int(0)), instance(0), set_up_for_tof(false) {}

  void set_up(const stir::shared_ptr<const stir::ProjDataInfo>& proj_data_info_sptr_v,
              const stir::shared_ptr<const stir::DiscretisedDensity<3, float>>& density_info_sptr_v) override {
    stir::ProjMatrixByBin::set_up(proj_data_info_sptr_v, density_info_sptr_v);
    this->symmetries_sptr.reset(new stir::TrivialDataSymmetriesForBins(proj_data_info_sptr_v));
    this->tof_enabled = false;  // use the TOF-dependent entries supplied by the driver as they are
    this->set_up_for_tof = proj_data_info_sptr_v->is_tof_data();
    this->clear_cache();
    data->prepare();
    if (obs) obs->on_set_up(instance, set_up_for_tof);
  }

  ExplicitProjMatrix* clone() const override {
    ExplicitProjMatrix* c = new ExplicitProjMatrix(*this);
    c->instance = ++*clone_counter;
    if (obs) obs->on_clone(instance, c->instance);
    return c;
  }

  std::string get_registered_name() const override { return "VerifExplicit"; }

  int get_instance() const { return instance; }
  const stir::shared_ptr<ExplicitMatrixData>& get_data_sptr() const { return data; }

protected:
  void calculate_proj_matrix_elems_for_one_bin(stir::ProjMatrixElemsForOneBin& lor) const override {
    const stir::Bin bin = lor.get_bin();
    if (obs) obs->on_row(instance, set_up_for_tof, bin);
    const std::vector<XmElem>& r = (!set_up_for_tof && data->has_tof_rows()) ? data->row_summed_over_tof(bin) : data->row(bin);
    lor.erase();
    for (const XmElem& e : r)
      lor.push_back(stir::ProjMatrixElemsForOneBin::value_type(stir::Coordinate3D<int>(e.z, e.y, e.x), e.w));
    lor.sort();
  }
};

//! projector pair (forward and back projector share one ExplicitProjMatrix object, as in STIR's own
//! "Matrix" projector pair).  *matrix_out receives the matrix object (e.g. to call enable_cache(false)).
inline stir::shared_ptr<stir::ProjectorByBinPairUsingProjMatrixByBin>
make_explicit_projector_pair(const stir::shared_ptr<ExplicitMatrixData>& data,
                             const stir::shared_ptr<XmObserver>& obs = stir::shared_ptr<XmObserver>(),
                             stir::shared_ptr<ExplicitProjMatrix>* matrix_out = nullptr) {
  stir::shared_ptr<ExplicitProjMatrix> pm(new ExplicitProjMatrix(data, obs));
  if (matrix_out) *matrix_out = pm;
  stir::shared_ptr<stir::ProjMatrixByBin> base = pm;
  return stir::shared_ptr<stir::ProjectorByBinPairUsingProjMatrixByBin>(new stir::ProjectorByBinPairUsingProjMatrixByBin(base));
}

//! A tiny acquisition system: user-defined cylindrical scanner with N detectors per ring and R rings
//! (span 1, all ring differences: segments -(R-1)..(R-1)), N/2 views, `num_tang` tangential positions,
//! `num_tof` TOF positions (0 or 1 = non-TOF data; otherwise odd), and an image template of
//! nz x ny x nx voxels (z from 0, y and x centred), 4 mm voxels, origin 0.
struct TinySystem {
  stir::shared_ptr<stir::Scanner> scanner;
  stir::shared_ptr<stir::ProjDataInfo> proj_data_info;
  stir::shared_ptr<stir::ExamInfo> exam_info;
  stir::shared_ptr<stir::VoxelsOnCartesianGrid<float>> image;  // filled with 0
  int N, R, num_tang, num_tof, nz, ny, nx;
};

inline TinySystem make_tiny_system(int N, int R, int num_tang, int num_tof, int nz, int ny, int nx) {
  TinySystem s;
  s.N = N; s.R = R; s.num_tang = num_tang; s.num_tof = num_tof <= 1 ? 1 : num_tof; s.nz = nz; s.ny = ny; s.nx = nx;
  const bool tof = num_tof > 1;
  s.scanner = make_scanner(N, R, tof ? num_tof : 0);
  s.proj_data_info = stir::ProjDataInfo::construct_proj_data_info(s.scanner, /*span*/ 1, /*max_delta*/ R - 1, /*views*/ N / 2,
                                                                  /*tang*/ num_tang, /*arc_corrected*/ false, /*tof_mash*/ tof ? 1 : 0);
  s.exam_info.reset(new stir::ExamInfo);
  s.exam_info->imaging_modality = stir::ImagingModality::PT;
  s.image.reset(new stir::VoxelsOnCartesianGrid<float>(
      s.exam_info, stir::IndexRange3D(0, nz - 1, -(ny / 2), -(ny / 2) + ny - 1, -(nx / 2), -(nx / 2) + nx - 1),
      stir::CartesianCoordinate3D<float>(0.F, 0.F, 0.F), stir::CartesianCoordinate3D<float>(4.F, 4.F, 4.F)));
  s.image->fill(0.F);
  return s;
}

//! all bins of the projection data in the canonical logging order:
//! segment (min..max), view, axial position, tangential position, TOF position (innermost)
inline std::vector<stir::Bin> xm_all_bins(const stir::ProjDataInfo& pdi) {
  std::vector<stir::Bin> v;
  for (int s = pdi.get_min_segment_num(); s <= pdi.get_max_segment_num(); ++s)
    for (int vw = pdi.get_min_view_num(); vw <= pdi.get_max_view_num(); ++vw)
      for (int a = pdi.get_min_axial_pos_num(s); a <= pdi.get_max_axial_pos_num(s); ++a)
        for (int t = pdi.get_min_tangential_pos_num(); t <= pdi.get_max_tangential_pos_num(); ++t)
          for (int k = pdi.get_min_tof_pos_num(); k <= pdi.get_max_tof_pos_num(); ++k)
            v.push_back(stir::Bin(s, vw, a, t, k));
  return v;
}

//! all voxels (z,y,x) of an image in the canonical logging order = the order of begin_all()
inline std::vector<std::array<int, 3>> xm_voxels(const stir::DiscretisedDensity<3, float>& im) {
  std::vector<std::array<int, 3>> v;
  for (int z = im.get_min_index(); z <= im.get_max_index(); ++z)
    for (int y = im[z].get_min_index(); y <= im[z].get_max_index(); ++y)
      for (int x = im[z][y].get_min_index(); x <= im[z][y].get_max_index(); ++x)
        v.push_back(std::array<int, 3>{ { z, y, x } });
  return v;
}

//! 1-based position of voxel (z,y,x) in xm_voxels order, 0 if outside
inline int xm_voxel_index(const stir::DiscretisedDensity<3, float>& im, int z, int y, int x) {
  int i = 0;
  for (int zz = im.get_min_index(); zz <= im.get_max_index(); ++zz)
    for (int yy = im[zz].get_min_index(); yy <= im[zz].get_max_index(); ++yy)
      for (int xx = im[zz][yy].get_min_index(); xx <= im[zz][yy].get_max_index(); ++xx) {
        ++i;
        if (zz == z && yy == y && xx == x) return i;
      }
  return 0;
}

//! The "System" ndjson line that spec/PoissonLL.tla (operator SystemOk, record `sys`) understands: the bins
//! in xm_all_bins order, row b of P as [[voxel, weight], ...] (voxel = 1-based xm_voxels index, weights must be
//! integers) and, redundantly, column v of P as [[bin, weight], ...] (1-based bin index) so that TLC can
//! back-project along columns; TLC cross-checks rows against columns.  Specifications that EXTEND PoissonLL
//! (C07, C08) can log their system with this call.
inline Json xm_system_json(long id, const TinySystem& s, const ExplicitMatrixData& data) {
  const stir::ProjDataInfo& pdi = *s.proj_data_info;
  const std::vector<stir::Bin> bins = xm_all_bins(pdi);
  const int nv = (int)xm_voxels(*s.image).size();
  std::vector<std::vector<int>> bl;
  std::vector<std::vector<std::pair<int, long>>> rows(bins.size()), cols(nv);
  for (std::size_t b = 0; b < bins.size(); ++b) {
    const stir::Bin& bin = bins[b];
    bl.push_back({ bin.segment_num(), bin.view_num(), bin.axial_pos_num(), bin.tangential_pos_num(), bin.timing_pos_num() });
    for (const XmElem& e : data.row(bin)) {
      const int v = xm_voxel_index(*s.image, e.z, e.y, e.x);
      rows[b].push_back({ v, std::lround(e.w) });
      if (v >= 1) cols[v - 1].push_back({ (int)b + 1, std::lround(e.w) });
    }
  }
  auto ser = [](const std::vector<std::vector<std::pair<int, long>>>& vv) {
    std::string o = "[";
    for (std::size_t i = 0; i < vv.size(); ++i) {
      if (i) o += ',';
      o += '[';
      for (std::size_t j = 0; j < vv[i].size(); ++j) {
        if (j) o += ',';
        o += '[' + std::to_string(vv[i][j].first) + ',' + std::to_string(vv[i][j].second) + ']';
      }
      o += ']';
    }
    return o + "]";
  };
  Json j("System");
  j.num("id", id).boolean("tof", pdi.is_tof_data()).num("nv", nv).num("numViews", pdi.get_num_views()).num("minView", pdi.get_min_view_num())
      .num("minAx0", pdi.get_min_axial_pos_num(0)).num("maxAx0", pdi.get_max_axial_pos_num(0)).num("maxSegData", pdi.get_max_segment_num())
      .arr2("bins", bl).raw("rows", ser(rows)).raw("cols", ser(cols));
  return j;
}

} // namespace vh
#endif
