// Helpers shared by the C03 (and later C04) drivers: small cylindrical data geometries, voxel grids,
// ProjMatrixByBinUsingRayTracing objects with given symmetry switches / cache mode, ndjson encodings of
// geometries, bins and rows, and the recorder for the "cache.*" verification call-outs.
// DRIVE AND RECORD ONLY: nothing in here compares or predicts a value; TLC decides.
#ifndef VERIF_C03_MATRIX_COMMON_H
#define VERIF_C03_MATRIX_COMMON_H
#include "vh_stir.h"
#include "stir/VoxelsOnCartesianGrid.h"
#include "stir/IndexRange3D.h"
#include "stir/CartesianCoordinate3D.h"
#include "stir/recon_buildblock/ProjMatrixByBinUsingRayTracing.h"
#include "stir/recon_buildblock/ProjMatrixByBinUsingInterpolation.h"
#include "stir/recon_buildblock/ProjMatrixByBinFromFile.h"
#include "stir/recon_buildblock/ProjMatrixByBinSPECTUB.h"
#include "stir/ProjDataInfoCylindricalArcCorr.h"
#include "stir/recon_buildblock/ProjMatrixElemsForOneBin.h"
#include "stir/recon_buildblock/DataSymmetriesForBins_PET_CartesianGrid.h"
#include "stir/recon_buildblock/SymmetryOperation.h"
#include <algorithm>
#include <array>
#include <cstring>
#include <typeinfo>
#include <cxxabi.h>

namespace c03 {
using namespace stir;

struct DataCfg {
  int N = 16, R = 3, span = 1, maxDelta = 2, mash = 1, tofMash = 0, maxT = 0, numTang = 7;
  bool spect = false;           // arc-corrected data of one segment with R axial positions (ProjMatrixByBinSPECTUB)
  int cpb = 0;                  // BlocksOnCylindrical: axial crystals per block (0: one crystal per block, vh::make_scanner)
  float axial_gap = 0.F;        // BlocksOnCylindrical: extra distance between axial blocks in mm
  float ring_spacing = 4.F, tilt = 0.F;
  std::string geom = "Cylindrical";
};
struct GridCfg {
  int nx = 9, ny = 9, nz = 5;   // sizes; x,y index ranges -(n/2) .. -(n/2)+n-1 (STIR convention), z from 0
  float vx = 3.F, vy = 3.F;     // x,y voxel sizes in mm
  int nppr = 2;                 // image planes per ring: z voxel size = ring spacing / nppr
  int oz = 0;                   // z origin in planes
  float ox = 0.F, oy = 0.F;     // x,y origin in mm
};
// options of the matrix object that belong to the "geometry" it is set up for
struct MatOpt { int ntl = 1; bool uadb = false; bool cyl = true; };   // tangential rays, use_actual_detector_boundaries, restrict_to_cylindrical_FOV
struct Sw { bool s90 = true, s180 = true, sseg = true, ss = true, sz = true; };
inline Sw sw_from_bits(int m) { Sw s; s.s90 = m & 1; s.s180 = m & 2; s.sseg = m & 4; s.ss = m & 8; s.sz = m & 16; return s; }
inline std::vector<int> sw_list(const Sw& s) { return { s.s90, s.s180, s.sseg, s.ss, s.sz }; }

// BlocksOnCylindrical scanner with cpb axial crystals per block, R / cpb axial blocks in one bucket, 4 transaxial buckets
inline shared_ptr<Scanner> make_blocks_scanner(const DataCfg& d) {
  const float radius = std::max(40.F, d.N * 4.F / 6.2831853F * 1.2F);
  const int tpb = d.N / 4;
  const float xtal = (float)(2 * 3.14159265358979 * radius / d.N) * 0.9F;
  return shared_ptr<Scanner>(new Scanner(Scanner::User_defined_scanner, "tinyblocks", d.N, d.R, d.N - 1, d.N - 1, radius, 0.F, d.ring_spacing, 3.F, 0.F,
                                         d.R / d.cpb, 1, d.cpb, tpb, d.cpb, tpb, 1, -1.F, -1.F, (short)-1, -1.F, -1.F, "BlocksOnCylindrical",
                                         d.ring_spacing, xtal, d.ring_spacing * d.cpb + d.axial_gap, xtal * tpb));
}
inline shared_ptr<ProjDataInfo> make_pdi(const DataCfg& d) {
  if (d.spect) {
    shared_ptr<Scanner> sc(new Scanner(Scanner::User_defined_scanner, "tinyspect", d.N, d.R, d.numTang, d.numTang, 100.F, 0.F, d.ring_spacing, 4.F, 0.F,
                                       1, 1, 1, 1, 1, 1, 1));
    VectorWithOffset<int> nax(0, 0), mn(0, 0), mx(0, 0);
    nax[0] = d.R; mn[0] = 0; mx[0] = 0;
    return shared_ptr<ProjDataInfo>(new ProjDataInfoCylindricalArcCorr(sc, 4.F, nax, mn, mx, d.N / 2, d.numTang));
  }
  shared_ptr<Scanner> sc = (d.geom == "BlocksOnCylindrical" && d.cpb > 0) ? make_blocks_scanner(d)
                                                                         : vh::make_scanner(d.N, d.R, d.maxT, d.geom, d.ring_spacing, -1, d.tilt);
  return ProjDataInfo::construct_proj_data_info(sc, d.span, d.maxDelta, d.N / 2 / d.mash, d.numTang, false, d.tofMash);
}

inline shared_ptr<VoxelsOnCartesianGrid<float>> make_image(const ProjDataInfo& pdi, const GridCfg& g) {
  const float vz = pdi.get_scanner_ptr()->get_ring_spacing() / g.nppr;
  IndexRange3D range(0, g.nz - 1, -(g.ny / 2), -(g.ny / 2) + g.ny - 1, -(g.nx / 2), -(g.nx / 2) + g.nx - 1);
  return shared_ptr<VoxelsOnCartesianGrid<float>>(new VoxelsOnCartesianGrid<float>(
      range, CartesianCoordinate3D<float>(g.oz * vz, g.oy, g.ox), CartesianCoordinate3D<float>(vz, g.vy, g.vx)));
}

inline void apply_switches(ProjMatrixByBinUsingRayTracing& m, const Sw& s) {
  m.set_do_symmetry_90degrees_min_phi(s.s90);
  m.set_do_symmetry_180degrees_min_phi(s.s180);
  m.set_do_symmetry_swap_segment(s.sseg);
  m.set_do_symmetry_swap_s(s.ss);
  m.set_do_symmetry_shift_z(s.sz);
}
inline shared_ptr<ProjMatrixByBinUsingRayTracing> make_matrix(const Sw& s, int ntl, bool cache_on, bool basic_only) {
  shared_ptr<ProjMatrixByBinUsingRayTracing> m(new ProjMatrixByBinUsingRayTracing);
  apply_switches(*m, s);
  m->set_num_tangential_LORs(ntl);
  m->enable_cache(cache_on);
  m->store_only_basic_bins_in_cache(basic_only);
  return m;
}

// ProjMatrixByBinUsingInterpolation has no setters: its switches and cache mode go through its parameter parsing
inline std::string interpolation_parameters(const Sw& s, bool cache_on, bool basic_only) {
  std::ostringstream o;
  o << "Interpolation Matrix Parameters :=\n"
    << "disable caching := " << (cache_on ? 0 : 1) << "\n"
    << "store_only_basic_bins_in_cache := " << (basic_only ? 1 : 0) << "\n"
    << "do_symmetry_90degrees_min_phi := " << (s.s90 ? 1 : 0) << "\n"
    << "do_symmetry_180degrees_min_phi := " << (s.s180 ? 1 : 0) << "\n"
    << "do_symmetry_swap_segment := " << (s.sseg ? 1 : 0) << "\n"
    << "do_symmetry_swap_s := " << (s.ss ? 1 : 0) << "\n"
    << "do_symmetry_shift_z := " << (s.sz ? 1 : 0) << "\n"
    << "End Interpolation Matrix Parameters :=\n";
  return o.str();
}
inline bool parse_interpolation(ProjMatrixByBinUsingInterpolation& m, const Sw& s, bool cache_on, bool basic_only) {
  std::istringstream in(interpolation_parameters(s, cache_on, basic_only));
  return m.parse(in);
}
inline void apply_options(ProjMatrixByBinUsingRayTracing& m, const MatOpt& o) {
  m.set_num_tangential_LORs(o.ntl);
  m.set_use_actual_detector_boundaries(o.uadb);
  m.set_restrict_to_cylindrical_FOV(o.cyl);
}

// ---------------------------------------------------------------- encodings
inline std::vector<int> bin_list(const Bin& b) {
  return { b.segment_num(), b.axial_pos_num(), b.view_num(), b.tangential_pos_num(), b.timing_pos_num() };
}
inline std::vector<Bin> all_bins(const ProjDataInfo& pdi) {
  std::vector<Bin> bins;
  for (int s = pdi.get_min_segment_num(); s <= pdi.get_max_segment_num(); ++s)
    for (int a = pdi.get_min_axial_pos_num(s); a <= pdi.get_max_axial_pos_num(s); ++a)
      for (int v = pdi.get_min_view_num(); v <= pdi.get_max_view_num(); ++v)
        for (int tp = pdi.get_min_tangential_pos_num(); tp <= pdi.get_max_tangential_pos_num(); ++tp)
          for (int k = pdi.get_min_tof_pos_num(); k <= pdi.get_max_tof_pos_num(); ++k)
            bins.push_back(Bin(s, v, a, tp, k));
  return bins;
}

// the data geometry as the implementation describes it (same fields as C01's Config line) and the grid as
// seen from the scanner.  Real numbers are logged in fixed point, 2^-12 units (ratios: 2^-10).
inline void emit_geometry(vh::Json& j, const DataCfg& d, const ProjDataInfoCylindrical& pdi, const VoxelsOnCartesianGrid<float>& im,
                          const MatOpt& o = MatOpt(), const std::string& impl = "RayTracing") {
  std::vector<std::vector<int>> segs;
  for (int s = pdi.get_min_segment_num(); s <= pdi.get_max_segment_num(); ++s)
    segs.push_back({ s, pdi.get_min_ring_difference(s), pdi.get_max_ring_difference(s), pdi.get_min_axial_pos_num(s), pdi.get_max_axial_pos_num(s) });
  const Scanner& sc = *pdi.get_scanner_ptr();
  j.str("geom", sc.get_scanner_geometry()).num("N", sc.get_num_detectors_per_ring()).num("R", sc.get_num_rings()).num("span", d.span)
      .boolean("ge", false).num("maxDelta", d.maxDelta).num("mash", pdi.get_view_mashing_factor()).num("tofMash", pdi.get_tof_mash_factor())
      .num("maxT", d.maxT).num("minTang", pdi.get_min_tangential_pos_num()).num("maxTang", pdi.get_max_tangential_pos_num())
      .num("minSeg", pdi.get_min_segment_num()).num("maxSeg", pdi.get_max_segment_num()).num("numViews", pdi.get_num_views())
      .num("minView", pdi.get_min_view_num()).num("minTof", pdi.get_min_tof_pos_num()).num("maxTof", pdi.get_max_tof_pos_num())
      .arr2("segs", segs).num("tilt", vh::fx(sc.get_intrinsic_azimuthal_tilt(), 12))
      .num("cpb", sc.get_num_axial_crystals_per_block()).boolean("uniform", pdi.axial_sampling_is_uniform())
      .num("gap", sc.get_scanner_geometry() == "Cylindrical" ? 0 : vh::fx(sc.get_axial_block_spacing() - sc.get_num_axial_crystals_per_block() * sc.get_axial_crystal_spacing(), 12));
  CartesianCoordinate3D<int> lo, hi;
  im.get_regular_range(lo, hi);
  const CartesianCoordinate3D<float> vs = im.get_voxel_size(), org = im.get_origin();
  j.num("zmin", lo.z()).num("zmax", hi.z()).num("ymin", lo.y()).num("ymax", hi.y()).num("xmin", lo.x()).num("xmax", hi.x())
      .num("vx", vh::fx(vs.x(), 12)).num("vy", vh::fx(vs.y(), 12)).num("vz", vh::fx(vs.z(), 12))
      .num("ox", vh::fx(org.x(), 12)).num("oy", vh::fx(org.y(), 12))
      .num("nppr1024", vh::fx(pdi.get_ring_spacing() / vs.z(), 10)).num("oz1024", vh::fx(org.z() / vs.z(), 10))
      .num("ntl", o.ntl).boolean("uadb", o.uadb).boolean("cyl", o.cyl).str("impl", impl);
}

// End points of the rays of a bin on the border of the field of view, in voxel (index) units x 2^12, for the geometric
// screen of rounding ties (Trace_MatrixCache!Tie).  This follows the documented parametrisation of the ray tracer
//   X = s cos(phi) + a sin(phi),  Y = s sin(phi) - a cos(phi),  Z = m - a tan(theta),
// with a = +-sqrt(fovrad^2 - s^2) (cylindrical FOV) or the square of half-side fovrad, fovrad = min(max index, -min index)
// * voxel size.  It is an INPUT DESCRIPTION for the screen (which bins are outside the property), not an oracle: TLC never
// compares a row with it.  Returns [x1,y1,z1,x2,y2,z2] per tangential ray; empty if the ray misses the FOV.
inline std::vector<long long> lor_end_points(const ProjDataInfo& pdi, const VoxelsOnCartesianGrid<float>& im, const Bin& b, const MatOpt& o) {
  std::vector<long long> out;
  CartesianCoordinate3D<int> lo, hi;
  im.get_regular_range(lo, hi);
  const CartesianCoordinate3D<float> vs = im.get_voxel_size(), org = im.get_origin();
  const double phi = pdi.get_phi(b), cphi = std::cos(phi), sphi = std::sin(phi);
  const double tantheta = pdi.get_tantheta(b), m = pdi.get_m(b);
  const double fov = std::min(std::min(hi.x(), -lo.x()) * (double)vs.x(), std::min(hi.y(), -lo.y()) * (double)vs.y());
  const double s0 = pdi.get_s(b), sinc = (o.uadb ? 2 : 1) * pdi.get_sampling_in_s(b) / o.ntl;
  for (int j = 0; j < o.ntl; ++j) {
    const double s = s0 - sinc * (o.ntl - 1) / 2. + j * sinc;
    double amax, amin;
    if (o.cyl) {
      if (std::fabs(s) > fov) continue;
      amax = std::sqrt(fov * fov - s * s); amin = -amax;
    } else {
      if (std::fabs(cphi) < 1.E-3 || std::fabs(sphi) < 1.E-3) { if (fov < std::fabs(s)) continue; amax = fov; amin = -fov; }
      else {
        auto sg = [](double t) { return t < 0 ? -1. : 1.; };
        amax = std::min((fov * sg(sphi) - s * cphi) / sphi, (fov * sg(cphi) + s * sphi) / cphi);
        amin = std::max((-fov * sg(sphi) - s * cphi) / sphi, (-fov * sg(cphi) + s * sphi) / cphi);
        if (amin > amax) continue;
      }
    }
    for (double a : { amax, amin }) {
      out.push_back(vh::fx((s * cphi + a * sphi) / vs.x(), 12));
      out.push_back(vh::fx((s * sphi - a * cphi) / vs.y(), 12));
      // z in image index units: the middle of the image is the centre of the scanner (shifted by the origin)
      out.push_back(vh::fx((m - a * tantheta - org.z()) / vs.z() + (hi.z() + lo.z()) / 2., 12));
    }
  }
  return out;
}

const int ROW_SCALE = 20;   // row values are logged as round(v * 2^20)
// a row as [[z,y,x,value],...] in lexicographic voxel order (a canonical listing; duplicates stay visible)
inline std::string row_json(const ProjMatrixElemsForOneBin& row) {
  std::vector<std::array<long long, 4>> e;
  for (ProjMatrixElemsForOneBin::const_iterator it = row.begin(); it != row.end(); ++it)
    e.push_back({ it->coord1(), it->coord2(), it->coord3(), vh::fx(it->get_value(), ROW_SCALE) });
  std::sort(e.begin(), e.end());
  std::string s = "[";
  for (size_t i = 0; i < e.size(); ++i) {
    if (i) s += ',';
    s += '[' + std::to_string(e[i][0]) + ',' + std::to_string(e[i][1]) + ',' + std::to_string(e[i][2]) + ',' + std::to_string(e[i][3]) + ']';
  }
  return s + "]";
}

// ---------------------------------------------------------------- cache call-outs
// events of the sites "cache.lookup"(view, segment, key, found), "cache.insert"(view, segment, key, already present),
// "cache.clear": [kind(1,2,3), view, segment, key limb0..3 (16 bits each, least significant first), flag]
struct HookLog {
  bool on = false;
  std::vector<std::vector<long long>> ev;
  static HookLog& get() { static HookLog h; return h; }
  void start() { ev.clear(); on = true; }
  std::vector<std::vector<long long>> stop() { on = false; return ev; }
};
inline void hook_event(const char* site, long a, long b, long c, long d) {
  HookLog& h = HookLog::get();
  if (!h.on || std::strncmp(site, "cache.", 6) != 0) return;
  const int kind = !std::strcmp(site, "cache.lookup") ? 1 : !std::strcmp(site, "cache.insert") ? 2 : !std::strcmp(site, "cache.clear") ? 3 : 0;
  const unsigned long long k = (unsigned long long)c;
  h.ev.push_back({ kind, a, b, (long long)(k & 0xFFFF), (long long)((k >> 16) & 0xFFFF), (long long)((k >> 32) & 0xFFFF), (long long)((k >> 48) & 0xFFFF), d });
}

inline std::string demangle(const char* n) {
  int st = 0;
  char* p = abi::__cxa_demangle(n, nullptr, nullptr, &st);
  std::string s = (st == 0 && p) ? p : n;
  free(p);
  return s;
}

} // namespace c03

// the drivers that include this header record the call-outs (weak symbol in the library)
#define C03_DEFINE_HOOK extern "C" void stir_verif_event(const char* site, long a, long b, long c, long d) { c03::hook_event(site, a, b, c, d); }
#endif
