// Recording objective functions for the verification drivers (shared: C06 schedules, C07 OSMAPOSL,
// C08 OSSPS).  Header-only.  Nothing in here contains a property formula or an expected value: the
// classes only FORWARD calls and REPORT them through a callback; TLC decides on the recorded trace.
//
// Contents (all in namespace vh, TargetT is fixed to stir::DiscretisedDensity<3,float>):
//
//   ObjCall            what is handed to the callback: kind of call, subset_num, num_subsets,
//                      before/after flag, pointers to the images involved (valid during the callback only).
//   ObjCallback        std::function<void(const ObjCall&)>
//
//   TrivialObjective   a stand-alone GeneralisedObjectiveFunction with a constant gradient, value 0 and
//                      approximate Hessian -h*input.  It needs no projection data, accepts any number of
//                      subsets (or at most `max_subsets` if set) and reports the balance verdict it was
//                      given.  Meant to be *wrapped*: it records nothing itself.
//
//   WrapObjective      GeneralisedObjectiveFunction subclass that forwards every call of the public
//                      interface to a wrapped objective function and reports it.  Sufficient for
//                      OSSPSReconstruction and for any IterativeReconstruction that only needs the
//                      GeneralisedObjectiveFunction interface.
//
//   TrivialPoissonLL   as TrivialObjective but derived from PoissonLogLikelihoodWithLinearModelForMean
//                      (gradient + sensitivity = constant g, subset sensitivity = constant s/num_subsets).
//
//   WrapPoissonLL      PoissonLogLikelihoodWithLinearModelForMean subclass forwarding to a wrapped
//                      PoissonLogLikelihoodWithLinearModelForMean (e.g. the real
//                      PoissonLogLikelihoodWithLinearModelForMeanAndProjData).  OSMAPOSLReconstruction insists
//                      on this base class (it calls compute_sub_gradient_without_penalty_plus_sensitivity and
//                      get_subset_sensitivity).  The wrapper's own (subset) sensitivities are computed by the
//                      STIR base class through add_subset_sensitivity(), which is forwarded (and reported as
//                      kind "sensitivity"), so they are the wrapped object's sensitivities.
//
// Kinds reported (ObjCall::kind); subset_num is -1 where the call has no subset argument:
//   "set_num_subsets"   (subset_num = -1, num_subsets = value returned by the wrapped object, arg = requested)
//   "set_up"
//   "balanced"          subsets_are_approximately_balanced (flag = verdict in the `after` call)
//   "sub_gradient"      compute_sub_gradient
//   "sub_gradient_wp"   compute_sub_gradient_without_penalty
//   "sub_gradient_ps"   compute_sub_gradient_without_penalty_plus_sensitivity   (WrapPoissonLL only)
//   "gradient", "gradient_wp"          compute_gradient, compute_gradient_without_penalty (all subsets)
//   "value"             compute_objective_function_without_penalty(estimate, subset)
//   "value_all"         compute_objective_function_without_penalty(estimate)
//   "approx_hessian"    add_multiplication_with_approximate_sub_Hessian_without_penalty (per subset)
//   "hessian_times"     accumulate_sub_Hessian_times_input_without_penalty (per subset)
//   "sensitivity"       add_subset_sensitivity                                    (WrapPoissonLL only)
//   "fill_nonidentifiable"
//
// Every forwarded call is reported twice: once with after == false before forwarding (estimate/input set),
// once with after == true afterwards (output / value / flag set).  A callback that only wants the
// sequence of sub-iterations looks at `!c.after && kind == "sub_gradient..."`.
//
// Usage sketch:
//   auto inner = std::make_shared<vh::TrivialObjective>(image_template);
//   auto obj   = std::make_shared<vh::WrapObjective>(inner, [&](const vh::ObjCall& c) { ... emit ... });
//   recon.set_objective_function_sptr(obj);
//
// The prior: WrapObjective/WrapPoissonLL mirror the wrapped object's prior pointer into their own
// prior_sptr (at construction, set_up and via sync_prior()), because reconstruction algorithms query the
// prior through non-virtual members of GeneralisedObjectiveFunction.  Penalised calls are forwarded to the
// wrapped object, which owns the arithmetic.
#ifndef VERIF_VH_WRAP_OBJECTIVE_H
#define VERIF_VH_WRAP_OBJECTIVE_H
#include "stir/recon_buildblock/GeneralisedObjectiveFunction.h"
#include "stir/recon_buildblock/PoissonLogLikelihoodWithLinearModelForMean.h"
#include "stir/recon_buildblock/GeneralisedPrior.h"
#include "stir/DiscretisedDensity.h"
#include "stir/ExamData.h"
#include "stir/ExamInfo.h"
#include "stir/Succeeded.h"
#include "stir/shared_ptr.h"
#include "stir/is_null_ptr.h"
#include <functional>
#include <string>
#include <cstring>
#include <algorithm>

namespace vh {

typedef stir::DiscretisedDensity<3, float> ObjTarget;

struct ObjCall {
  const char* kind = "";
  int subset_num = -1;       // -1: call without subset argument
  int num_subsets = 0;       // number of subsets of the wrapping object at the time of the call
  bool after = false;        // false: reported before forwarding; true: after the wrapped call returned
  long arg = 0;              // set_num_subsets: requested number
  bool flag = false;         // after: balanced verdict / Succeeded::yes
  double value = 0;          // after: objective function value
  const ObjTarget* estimate = nullptr;   // current estimate (where the call has one)
  const ObjTarget* input = nullptr;      // Hessian calls: the vector multiplied
  const ObjTarget* output = nullptr;     // after: gradient / accumulated output / sensitivity
  bool is(const char* k) const { return std::strcmp(kind, k) == 0; }
};
typedef std::function<void(const ObjCall&)> ObjCallback;

namespace detail {
struct Reporter {
  ObjCallback cb;
  void operator()(ObjCall c, bool after) const { if (cb) { c.after = after; cb(c); } }
};
inline ObjCall mk(const char* kind, int subset, int nsub, const ObjTarget* est = nullptr, const ObjTarget* in = nullptr) {
  ObjCall c; c.kind = kind; c.subset_num = subset; c.num_subsets = nsub; c.estimate = est; c.input = in; return c;
}
} // namespace detail

// ------------------------------------------------------------------------------------------------
// stand-alone trivial objective functions (no projection data)
// ------------------------------------------------------------------------------------------------
class TrivialObjective : public stir::GeneralisedObjectiveFunction<ObjTarget> {
public:
  // image_template: cloned by construct_target_ptr(); g: every (sub)gradient element; h: approximate
  // Hessian is -h per subset; max_subsets > 0: set_num_subsets() clamps to it (a STIR objective function
  // is allowed to refuse a number of subsets); balanced: verdict reported
  explicit TrivialObjective(const stir::shared_ptr<const ObjTarget>& image_template, float g = 0.F, float h = 1.F,
                            int max_subsets = 0, bool balanced = true)
      : tmpl(image_template), g(g), h(h), max_subsets(max_subsets), balanced(balanced), exam(new stir::ExamData) {
    this->num_subsets = 1;
  }
  ObjTarget* construct_target_ptr() const override { return tmpl->get_empty_copy(); }
  stir::Succeeded set_up(stir::shared_ptr<ObjTarget> const& t) override {
    if (stir::GeneralisedObjectiveFunction<ObjTarget>::set_up(t) == stir::Succeeded::no) return stir::Succeeded::no;
    this->already_set_up = true;
    return stir::Succeeded::yes;
  }
  void compute_sub_gradient_without_penalty(ObjTarget& gradient, const ObjTarget&, const int) override { gradient.fill(g); }
  int set_num_subsets(const int n) override {
    this->num_subsets = std::max(1, max_subsets > 0 ? std::min(n, max_subsets) : n);
    return this->num_subsets;
  }
  void set_input_data(const stir::shared_ptr<stir::ExamData>& d) override { exam = d; }
  const stir::ExamData& get_input_data() const override { return *exam; }
  void set_additive_proj_data_sptr(const stir::shared_ptr<stir::ExamData>&) override {}
  void set_normalisation_sptr(const stir::shared_ptr<stir::BinNormalisation>&) override {}
  std::string get_registered_name() const override { return "vh::TrivialObjective"; }

protected:
  bool actual_subsets_are_approximately_balanced(std::string&) const override { return balanced; }
  double actual_compute_objective_function_without_penalty(const ObjTarget&, const int) override { return 0.; }
  stir::Succeeded actual_add_multiplication_with_approximate_sub_Hessian_without_penalty(ObjTarget& output, const ObjTarget& input,
                                                                                         const int) const override {
    auto o = output.begin_all(); auto i = input.begin_all_const();
    for (; o != output.end_all(); ++o, ++i) *o -= h * *i;
    return stir::Succeeded::yes;
  }
  stir::Succeeded actual_accumulate_sub_Hessian_times_input_without_penalty(ObjTarget& output, const ObjTarget&, const ObjTarget& input,
                                                                            const int s) const override {
    return actual_add_multiplication_with_approximate_sub_Hessian_without_penalty(output, input, s);
  }

private:
  stir::shared_ptr<const ObjTarget> tmpl;
  float g, h;
  int max_subsets;
  bool balanced;
  stir::shared_ptr<stir::ExamData> exam;
};

class TrivialPoissonLL : public stir::PoissonLogLikelihoodWithLinearModelForMean<ObjTarget> {
  typedef stir::PoissonLogLikelihoodWithLinearModelForMean<ObjTarget> base_type;
public:
  // gradient-plus-sensitivity = g everywhere; total sensitivity = s everywhere (each subset s/num_subsets)
  explicit TrivialPoissonLL(const stir::shared_ptr<const ObjTarget>& image_template, float g = 1.F, float s = 1.F, int max_subsets = 0,
                            bool balanced = true)
      : tmpl(image_template), g(g), s(s), max_subsets(max_subsets), balanced(balanced), exam(new stir::ExamData) {
    base_type::set_defaults();
    this->num_subsets = 1;
    this->set_use_subset_sensitivities(true);
    this->set_recompute_sensitivity(true);
  }
  ObjTarget* construct_target_ptr() const override { return tmpl->get_empty_copy(); }
  int set_num_subsets(const int n) override {
    this->already_set_up = this->already_set_up && n == this->num_subsets;
    this->num_subsets = std::max(1, max_subsets > 0 ? std::min(n, max_subsets) : n);
    return this->num_subsets;
  }
  void add_subset_sensitivity(ObjTarget& sensitivity, const int) const override {
    const float v = s / this->num_subsets;
    for (auto o = sensitivity.begin_all(); o != sensitivity.end_all(); ++o) *o += v;
  }
  void set_input_data(const stir::shared_ptr<stir::ExamData>& d) override { exam = d; }
  const stir::ExamData& get_input_data() const override { return *exam; }
  void set_additive_proj_data_sptr(const stir::shared_ptr<stir::ExamData>&) override {}
  void set_normalisation_sptr(const stir::shared_ptr<stir::BinNormalisation>&) override {}
  std::string get_registered_name() const override { return "vh::TrivialPoissonLL"; }

protected:
  stir::Succeeded set_up_before_sensitivity(stir::shared_ptr<const ObjTarget> const&) override { return stir::Succeeded::yes; }
  void actual_compute_subset_gradient_without_penalty(ObjTarget& gradient, const ObjTarget&, const int, const bool add_sensitivity) override {
    gradient.fill(add_sensitivity ? g : g - s / this->num_subsets);
  }
  bool actual_subsets_are_approximately_balanced(std::string&) const override { return balanced; }
  double actual_compute_objective_function_without_penalty(const ObjTarget&, const int) override { return 0.; }
  stir::Succeeded actual_add_multiplication_with_approximate_sub_Hessian_without_penalty(ObjTarget& output, const ObjTarget& input,
                                                                                         const int) const override {
    auto o = output.begin_all(); auto i = input.begin_all_const();
    for (; o != output.end_all(); ++o, ++i) *o -= *i;
    return stir::Succeeded::yes;
  }
  stir::Succeeded actual_accumulate_sub_Hessian_times_input_without_penalty(ObjTarget& output, const ObjTarget&, const ObjTarget& input,
                                                                            const int sn) const override {
    return actual_add_multiplication_with_approximate_sub_Hessian_without_penalty(output, input, sn);
  }

private:
  stir::shared_ptr<const ObjTarget> tmpl;
  float g, s;
  int max_subsets;
  bool balanced;
  stir::shared_ptr<stir::ExamData> exam;
};

// ------------------------------------------------------------------------------------------------
// the forwarding part common to both wrappers.  Base is the STIR class derived from, Wrapped the
// static type through which the wrapped object is called.
// ------------------------------------------------------------------------------------------------
template <class Base, class Wrapped>
class WrapCommon : public Base {
public:
  WrapCommon(const stir::shared_ptr<Wrapped>& wrapped, ObjCallback cb)
      : w(wrapped) {
    rep.cb = std::move(cb);
    this->num_subsets = w->get_num_subsets();
    sync_prior();
  }
  Wrapped& wrapped() { return *w; }
  const Wrapped& wrapped() const { return *w; }
  stir::shared_ptr<Wrapped> wrapped_sptr() const { return w; }
  void set_callback(ObjCallback cb) { rep.cb = std::move(cb); }
  // copy the wrapped object's prior pointer into this object (call after changing the wrapped prior)
  void sync_prior() { this->prior_sptr = w->get_prior_sptr(); }

  ObjTarget* construct_target_ptr() const override { return w->construct_target_ptr(); }

  int set_num_subsets(const int n) override {
    ObjCall c = detail::mk("set_num_subsets", -1, this->num_subsets); c.arg = n;
    rep(c, false);
    const int r = w->set_num_subsets(n);
    this->already_set_up = this->already_set_up && r == this->num_subsets;
    this->num_subsets = r;
    c.num_subsets = r;
    rep(c, true);
    return r;
  }
  void compute_sub_gradient(ObjTarget& gradient, const ObjTarget& est, const int subset_num) override {
    ObjCall c = detail::mk("sub_gradient", subset_num, this->num_subsets, &est);
    rep(c, false); w->compute_sub_gradient(gradient, est, subset_num); c.output = &gradient; rep(c, true);
  }
  void compute_sub_gradient_without_penalty(ObjTarget& gradient, const ObjTarget& est, const int subset_num) override {
    ObjCall c = detail::mk("sub_gradient_wp", subset_num, this->num_subsets, &est);
    rep(c, false); w->compute_sub_gradient_without_penalty(gradient, est, subset_num); c.output = &gradient; rep(c, true);
  }
  void compute_gradient(ObjTarget& gradient, const ObjTarget& est) override {
    ObjCall c = detail::mk("gradient", -1, this->num_subsets, &est);
    rep(c, false); w->compute_gradient(gradient, est); c.output = &gradient; rep(c, true);
  }
  void compute_gradient_without_penalty(ObjTarget& gradient, const ObjTarget& est) override {
    ObjCall c = detail::mk("gradient_wp", -1, this->num_subsets, &est);
    rep(c, false); w->compute_gradient_without_penalty(gradient, est); c.output = &gradient; rep(c, true);
  }
  double compute_objective_function_without_penalty(const ObjTarget& est, const int subset_num) override {
    ObjCall c = detail::mk("value", subset_num, this->num_subsets, &est);
    rep(c, false); c.value = w->compute_objective_function_without_penalty(est, subset_num); rep(c, true);
    return c.value;
  }
  double compute_objective_function_without_penalty(const ObjTarget& est) override {
    ObjCall c = detail::mk("value_all", -1, this->num_subsets, &est);
    rep(c, false); c.value = w->compute_objective_function_without_penalty(est); rep(c, true);
    return c.value;
  }
  void fill_nonidentifiable_target_parameters(ObjTarget& target, const float value) const override {
    ObjCall c = detail::mk("fill_nonidentifiable", -1, this->num_subsets, &target);
    rep(c, false); w->fill_nonidentifiable_target_parameters(target, value); c.output = &target; rep(c, true);
  }
  std::unique_ptr<stir::ExamInfo> get_exam_info_uptr_for_target() const override { return w->get_exam_info_uptr_for_target(); }
  void set_input_data(const stir::shared_ptr<stir::ExamData>& d) override { this->already_set_up = false; w->set_input_data(d); }
  const stir::ExamData& get_input_data() const override { return w->get_input_data(); }
  void set_additive_proj_data_sptr(const stir::shared_ptr<stir::ExamData>& d) override { this->already_set_up = false; w->set_additive_proj_data_sptr(d); }
  void set_normalisation_sptr(const stir::shared_ptr<stir::BinNormalisation>& n) override { this->already_set_up = false; w->set_normalisation_sptr(n); }

protected:
  bool actual_subsets_are_approximately_balanced(std::string& msg) const override {
    ObjCall c = detail::mk("balanced", -1, this->num_subsets);
    rep(c, false); c.flag = w->subsets_are_approximately_balanced(msg); rep(c, true);
    return c.flag;
  }
  double actual_compute_objective_function_without_penalty(const ObjTarget& est, const int subset_num) override {
    // only reached if someone calls the base-class implementation explicitly
    return this->compute_objective_function_without_penalty(est, subset_num);
  }
  stir::Succeeded actual_add_multiplication_with_approximate_sub_Hessian_without_penalty(ObjTarget& output, const ObjTarget& input,
                                                                                         const int subset_num) const override {
    ObjCall c = detail::mk("approx_hessian", subset_num, this->num_subsets, nullptr, &input);
    rep(c, false);
    const stir::Succeeded r = w->add_multiplication_with_approximate_sub_Hessian_without_penalty(output, input, subset_num);
    c.output = &output; c.flag = r == stir::Succeeded::yes; rep(c, true);
    return r;
  }
  stir::Succeeded actual_accumulate_sub_Hessian_times_input_without_penalty(ObjTarget& output, const ObjTarget& est, const ObjTarget& input,
                                                                            const int subset_num) const override {
    ObjCall c = detail::mk("hessian_times", subset_num, this->num_subsets, &est, &input);
    rep(c, false);
    const stir::Succeeded r = w->accumulate_sub_Hessian_times_input_without_penalty(output, est, input, subset_num);
    c.output = &output; c.flag = r == stir::Succeeded::yes; rep(c, true);
    return r;
  }

  stir::shared_ptr<Wrapped> w;
  detail::Reporter rep;
};

// ------------------------------------------------------------------------------------------------
class WrapObjective : public WrapCommon<stir::GeneralisedObjectiveFunction<ObjTarget>, stir::GeneralisedObjectiveFunction<ObjTarget>> {
  typedef WrapCommon<stir::GeneralisedObjectiveFunction<ObjTarget>, stir::GeneralisedObjectiveFunction<ObjTarget>> base_type;
public:
  WrapObjective(const stir::shared_ptr<stir::GeneralisedObjectiveFunction<ObjTarget>>& wrapped, ObjCallback cb)
      : base_type(wrapped, std::move(cb)) {}
  stir::Succeeded set_up(stir::shared_ptr<ObjTarget> const& target) override {
    ObjCall c = detail::mk("set_up", -1, this->num_subsets, target.get());
    rep(c, false);
    const stir::Succeeded r = w->set_up(target);
    this->num_subsets = w->get_num_subsets();
    sync_prior();
    this->already_set_up = r == stir::Succeeded::yes;
    c.num_subsets = this->num_subsets; c.flag = this->already_set_up; rep(c, true);
    return r;
  }
  std::string get_registered_name() const override { return "vh::WrapObjective"; }
};

// ------------------------------------------------------------------------------------------------
class WrapPoissonLL : public WrapCommon<stir::PoissonLogLikelihoodWithLinearModelForMean<ObjTarget>,
                                        stir::PoissonLogLikelihoodWithLinearModelForMean<ObjTarget>> {
  typedef stir::PoissonLogLikelihoodWithLinearModelForMean<ObjTarget> pll_type;
  typedef WrapCommon<pll_type, pll_type> base_type;
public:
  WrapPoissonLL(const stir::shared_ptr<pll_type>& wrapped, ObjCallback cb)
      : base_type(wrapped, std::move(cb)) {
    pll_type::set_defaults();
    this->num_subsets = w->get_num_subsets();
    sync_prior();
    this->set_recompute_sensitivity(true);   // the wrapper's sensitivities always come from add_subset_sensitivity
    this->set_use_subset_sensitivities(w->get_use_subset_sensitivities());
  }
  // sets up the wrapped object first, then lets the STIR base class fill this object's (subset)
  // sensitivities through the forwarded add_subset_sensitivity()
  stir::Succeeded set_up(stir::shared_ptr<ObjTarget> const& target) override {
    ObjCall c = detail::mk("set_up", -1, this->num_subsets, target.get());
    rep(c, false);
    stir::Succeeded r = w->set_up(target);
    if (r == stir::Succeeded::yes) {
      this->num_subsets = w->get_num_subsets();
      sync_prior();
      this->set_use_subset_sensitivities(w->get_use_subset_sensitivities());
      this->set_recompute_sensitivity(true);
      r = pll_type::set_up(target);
    }
    this->already_set_up = r == stir::Succeeded::yes;
    c.num_subsets = this->num_subsets; c.flag = this->already_set_up; rep(c, true);
    return r;
  }
  void compute_sub_gradient_without_penalty_plus_sensitivity(ObjTarget& gradient, const ObjTarget& est, const int subset_num) override {
    ObjCall c = detail::mk("sub_gradient_ps", subset_num, this->num_subsets, &est);
    rep(c, false); w->compute_sub_gradient_without_penalty_plus_sensitivity(gradient, est, subset_num); c.output = &gradient; rep(c, true);
  }
  void add_subset_sensitivity(ObjTarget& sensitivity, const int subset_num) const override {
    ObjCall c = detail::mk("sensitivity", subset_num, this->num_subsets);
    rep(c, false); w->add_subset_sensitivity(sensitivity, subset_num); c.output = &sensitivity; rep(c, true);
  }
  std::string get_registered_name() const override { return "vh::WrapPoissonLL"; }

protected:
  stir::Succeeded set_up_before_sensitivity(stir::shared_ptr<const ObjTarget> const&) override { return stir::Succeeded::yes; }
  // only reached through base-class code paths that bypass the public virtuals overridden above
  void actual_compute_subset_gradient_without_penalty(ObjTarget& gradient, const ObjTarget& est, const int subset_num,
                                                      const bool add_sensitivity) override {
    if (add_sensitivity) this->compute_sub_gradient_without_penalty_plus_sensitivity(gradient, est, subset_num);
    else this->compute_sub_gradient_without_penalty(gradient, est, subset_num);
  }
};

} // namespace vh
#endif
