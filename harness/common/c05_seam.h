// C05 drivers on the explicit-matrix seam (c05_poissonll, c05_listmode, c05_patlak): the tiny systems, random explicit
// matrices, option sets, exact instances (y = r d^2) and the normalisation objects realising efficiencies 2^e.
// DRIVE AND RECORD ONLY (the only arithmetic is the construction of exact inputs).
#ifndef VERIF_C05_SEAM_H
#define VERIF_C05_SEAM_H
#include "vh_explicit_matrix.h"
#include "c05_common.h"
#include "stir/recon_buildblock/BinNormalisationFromProjData.h"
#include "stir/recon_buildblock/ChainedBinNormalisation.h"
#include "stir/recon_buildblock/TrivialBinNormalisation.h"
#include "stir/ProjDataInMemory.h"
#include <set>

namespace c05 {
// ---------------------------------------------------------------- systems
struct Sys {
  vh::TinySystem t;
  std::vector<Bin> bins;
  std::vector<std::array<int, 3>> vox;
  bool tof;
};

// other data geometries for the re-use histories: N detectors per ring, R rings, tang tangential positions, ntof TOF bins
inline Sys make_sys_geo(int N, int R, int tang, int ntof) {
  Sys s;
  s.tof = ntof > 1;
  s.t = vh::make_tiny_system(N, R, tang, ntof, 2, 2, 3);
  s.bins = vh::xm_all_bins(*s.t.proj_data_info);
  s.vox = vh::xm_voxels(*s.t.image);
  return s;
}

inline Sys make_sys(bool tof) {
  Sys s;
  s.tof = tof;
  s.t = vh::make_tiny_system(8, 3, 3, tof ? 3 : 0, 2, 2, 3);
  s.bins = vh::xm_all_bins(*s.t.proj_data_info);
  s.vox = vh::xm_voxels(*s.t.image);
  return s;
}

struct Matrix {
  shared_ptr<vh::ExplicitMatrixData> data;
  std::vector<std::vector<std::pair<int, int>>> rows;  // per bin: (voxel index 1-based, weight)
  long id;
  vh::Json sysjson;  // the System line describing it
};
static long next_id = 0;
static long last_emitted_sys = 0;
// the trace specification holds one system at a time: (re-)emit the System line whenever the matrix changes
inline void emit_system(vh::Trace& tr, const Matrix& m) {
  if (last_emitted_sys == m.id) return;
  tr.emit(m.sysjson);
  last_emitted_sys = m.id;
}

// rows: up to max_entries distinct voxels with weights 1..max_w; some rows empty
inline Matrix make_matrix(vh::Trace&, const Sys& s, vh::Rng& rng, int max_entries, int max_w, bool allow_empty) {
  Matrix m;
  m.data.reset(new vh::ExplicitMatrixData);
  m.id = ++next_id;
  const int nv = (int)s.vox.size();
  for (const Bin& b : s.bins) {
    int n = rng.range(allow_empty ? 0 : 1, max_entries);
    if (allow_empty && n > 0 && rng.range(0, 9) == 0) n = 0;
    std::set<int> used;
    std::vector<std::pair<int, int>> row;
    std::vector<vh::XmElem> elems;
    for (int i = 0; i < n; ++i) {
      int v = rng.range(1, nv);
      if (used.count(v)) continue;
      used.insert(v);
      int w = rng.range(1, max_w);
      row.push_back({ v, w });
      elems.push_back(vh::XmElem{ s.vox[v - 1][0], s.vox[v - 1][1], s.vox[v - 1][2], (float)w });
    }
    m.data->set_row(b, elems);
    m.rows.push_back(row);
  }
  // the System line: bins, rows (bin-major) and columns (voxel-major; TLC checks that both describe the same matrix)
  m.sysjson = vh::xm_system_json(m.id, s.t, *m.data);
  return m;
}

// ---------------------------------------------------------------- option sets and instances
struct Opts {
  bool tofsens = false, additive = false, zero = false, uss = false, prior = false, supplied = false, cache = true, wrapnorm = true;
  int norm = 0;       // 0 trivial, 1 from proj data, 2 chained (proj data x proj data), 3 harness efficiencies, 4 chained (proj data x efficiencies)
  bool tofnorm = false;
  int maxseg = -1;    // as given to the objective function (-1: all)
  int N = 1;
  int fill = 0;       // byte the storage of the objective function is filled with before construction
  int family = 0;     // 0 general, 1 power-of-two means (additive chosen accordingly), 2 power-of-two means without additive term
  bool approx = false; // power-of-two families: no zero counts, so that the approximate Hessian (which divides by y) can be requested
};
static const char* const norm_names[] = { "trivial", "projdata", "chained", "eff", "chained_eff" };

struct Inst {
  Opts o;
  std::vector<int> lam, x, y, a, e;  // e: exponent of the efficiency (n = 2^e), per bin
  std::vector<int> e1;               // chained: first factor exponent (second = e - e1)
};

inline Inst make_inst(const Sys& s, const Matrix& m, vh::Rng& rng, const Opts& o) {
  Inst in;
  in.o = o;
  const int nv = (int)s.vox.size(), nb = (int)s.bins.size();
  const bool p2 = o.family != 0;
  for (int v = 0; v < nv; ++v) {
    // "any non-negative image": the general family has voxels with value 0 (a bin with mean 0 then has no counts)
    in.lam.push_back(p2 ? (o.family == 2 ? (1 << rng.range(0, 1)) : rng.range(1, 2)) : rng.range(0, 4));
    in.x.push_back(rng.range(0, 3));
  }
  for (int b = 0; b < nb; ++b) {
    int pl = 0;
    for (auto& e : m.rows[b]) pl += e.second * in.lam[e.first - 1];
    int a = 0;
    if (o.additive) {
      if (o.family == 1) { int p = 1; while (p < pl) p *= 2; a = pl == 0 ? (1 << rng.range(0, 2)) : p - pl; }
      else a = rng.range(0, 4);
    }
    const int d = pl + a;
    const int r = p2 ? (o.approx ? rng.range(1, 2) : rng.range(0, 2)) : rng.range(0, 3);
    in.a.push_back(a);
    in.y.push_back(r * d * d);
    in.e.push_back(0);
    in.e1.push_back(0);
  }
  // efficiencies n = 2^e, e in -2..0 (power-of-two family: -1..0); TOF-independent unless o.tofnorm
  if (o.norm != 0) {
    std::map<std::array<int, 4>, std::pair<int, int>> byspatial;
    for (int b = 0; b < nb; ++b) {
      const Bin& bin = s.bins[b];
      std::array<int, 4> k{ { bin.segment_num(), bin.view_num(), bin.axial_pos_num(), bin.tangential_pos_num() } };
      std::pair<int, int> ee;
      if (!o.tofnorm && byspatial.count(k)) ee = byspatial[k];
      else {
        const bool chain = o.norm == 2 || o.norm == 4;
        int f1 = rng.range(-1, 0), f2 = chain ? rng.range(-1, 0) : 0;
        if (!chain && !p2) f1 = rng.range(-2, 0);
        if (chain && p2) { if (rng.coin()) f1 = 0; else f2 = 0; }
        ee = { f1, f2 };
        byspatial[k] = ee;
      }
      in.e1[b] = ee.first;
      in.e[b] = ee.first + ee.second;
    }
  }
  return in;
}

inline shared_ptr<ProjDataInMemory> make_pd(const Sys& s, const shared_ptr<const ProjDataInfo>& pdi, const std::vector<float>& vals, bool spatial_only) {
  shared_ptr<ProjDataInMemory> pd(new ProjDataInMemory(s.t.exam_info, pdi));
  pd->fill(0.F);
  for (size_t b = 0; b < s.bins.size(); ++b) {
    Bin bin = s.bins[b];
    if (spatial_only) { if (bin.timing_pos_num() != 0) continue; }
    bin.set_bin_value(vals[b]);
    pd->set_bin_value(bin);
  }
  return pd;
}

inline shared_ptr<BinNormalisation> make_norm(const Sys& s, const Inst& in, shared_ptr<RecNorm>* rec) {
  const Opts& o = in.o;
  const size_t nb = s.bins.size();
  shared_ptr<BinNormalisation> n;
  // normalisation factors (what apply() multiplies with) are 1/efficiency = 2^-e
  auto pdnorm = [&](const std::vector<int>& ex) {
    std::vector<float> f(nb);
    for (size_t b = 0; b < nb; ++b) f[b] = std::ldexp(1.F, -ex[b]);
    shared_ptr<const ProjDataInfo> pdi = s.t.proj_data_info;
    const bool nontof = s.tof && !o.tofnorm;
    if (nontof) pdi = s.t.proj_data_info->create_non_tof_clone();
    shared_ptr<ProjData> pd = make_pd(s, pdi, f, nontof);
    return shared_ptr<BinNormalisation>(new BinNormalisationFromProjData(pd));
  };
  auto effnorm = [&](const std::vector<int>& ex) {
    shared_ptr<EffNorm> en(new EffNorm);
    en->tof_dependent = s.tof && o.tofnorm;
    for (size_t b = 0; b < nb; ++b) {
      BinKey k = bin_key(s.bins[b]);
      if (!en->tof_dependent) k[4] = 0;
      en->eff[k] = std::ldexp(1.F, ex[b]);
    }
    return shared_ptr<BinNormalisation>(en);
  };
  std::vector<int> e2(nb);
  for (size_t b = 0; b < nb; ++b) e2[b] = in.e[b] - in.e1[b];
  switch (o.norm) {
  case 0: n.reset(new TrivialBinNormalisation); break;
  case 1: n = pdnorm(in.e); break;
  case 2: n.reset(new ChainedBinNormalisation(pdnorm(in.e1), pdnorm(e2))); break;
  case 3: n = effnorm(in.e); break;
  default: n.reset(new ChainedBinNormalisation(pdnorm(in.e1), effnorm(e2))); break;
  }
  if (o.wrapnorm) { rec->reset(new RecNorm(n)); return *rec; }
  rec->reset();
  return n;
}


inline shared_ptr<Img> image_from(const Sys& s, const std::vector<int>& v) {
  shared_ptr<Img> im(s.t.image->get_empty_copy());
  size_t i = 0;
  for (auto it = im->begin_all(); it != im->end_all(); ++it, ++i) *it = (float)v[i];
  return im;
}
} // namespace c05
#endif
