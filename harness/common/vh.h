// Common helpers for the verification drivers.  Drivers DRIVE and RECORD only: no property
// formula lives in C++ — every comparison is made by TLC on the recorded ndjson.
#ifndef VERIF_VH_H
#define VERIF_VH_H
#include <cstdio>
#include <cstdlib>
#include <cstdint>
#include <cmath>
#include <string>
#include <vector>
#include <sstream>
#include <fstream>
#include <exception>
#include <unistd.h>
#include <csignal>
#include <initializer_list>
#include <memory>

namespace vh {

// ---------------------------------------------------------------- ndjson writer
class Json {
  std::string s;
  bool first = true;
  void key(const char* k) { if (!first) s += ','; first = false; s += '"'; s += k; s += "\":"; }
public:
  Json() { s = "{"; }
  explicit Json(const char* ev) { s = "{"; str("e", ev); }
  Json& num(const char* k, long long v) { key(k); s += std::to_string(v); return *this; }
  Json& boolean(const char* k, bool v) { key(k); s += v ? "true" : "false"; return *this; }
  Json& str(const char* k, const std::string& v) {
    key(k); s += '"';
    for (char c : v) { if (c == '"' || c == '\\') { s += '\\'; s += c; } else if (c == '\n') s += "\\n"; else if ((unsigned char)c < 32) s += ' '; else s += c; }
    s += '"'; return *this; }
  template <class V> Json& arr(const char* k, const V& v) {
    key(k); s += '['; bool f = true; for (auto x : v) { if (!f) s += ','; f = false; s += std::to_string((long long)x); } s += ']'; return *this; }
  // array of arrays of ints
  template <class VV> Json& arr2(const char* k, const VV& vv) {
    key(k); s += '['; bool f = true;
    for (auto& v : vv) { if (!f) s += ','; f = false; s += '['; bool g = true; for (auto x : v) { if (!g) s += ','; g = false; s += std::to_string((long long)x); } s += ']'; }
    s += ']'; return *this; }
  Json& raw(const char* k, const std::string& v) { key(k); s += v; return *this; }
  std::string done() const { return s + "}"; }
};

class Trace {
  FILE* f = nullptr;
public:
  long lines = 0;
  static Trace*& current() { static Trace* t = nullptr; return t; }
  explicit Trace(const std::string& path) { f = fopen(path.c_str(), "w"); if (!f) { perror(path.c_str()); _exit(3); } current() = this; }
  ~Trace() { if (f) fclose(f); if (current() == this) current() = nullptr; }
  void emit(const Json& j) { std::string l = j.done(); fputs(l.c_str(), f); fputc('\n', f); ++lines; }
  void flush() { if (f) fflush(f); }
};

// abort inside the code under test => truncated but valid trace + Abort line
inline void on_terminate() {
  if (Trace::current()) { Trace::current()->emit(Json("Abort")); Trace::current()->flush(); }
  _exit(0);
}
// a fatal signal inside the code under test (SIGSEGV, SIGFPE, SIGBUS, SIGABRT from assert/abort) likewise ends the
// trace with an Abort line naming the signal: no trace specification has a rule for "Abort", so the line is
// reported as unexplained (VIOLATION attributed to the last recorded operation) instead of a driver failure.
// Not installed in sanitizer builds (ASan/UBSan have their own handlers and exit codes).
inline void on_fatal_signal(int sig) {
  if (Trace::current()) { Trace::current()->emit(Json("Abort").num("sig", sig)); Trace::current()->flush(); }
  _exit(0);
}
inline void install_terminate() {
  std::set_terminate(on_terminate);
#if !defined(__SANITIZE_ADDRESS__) && !defined(VH_NO_SIGNAL_HANDLERS)
  for (int sig : { SIGSEGV, SIGFPE, SIGBUS, SIGABRT, SIGILL }) std::signal(sig, on_fatal_signal);
#endif
}

// ---------------------------------------------------------------- deterministic PRNG (splitmix64)
struct Rng {
  uint64_t s;
  // the seed is hashed first: with s = seed*phi + c the streams of seeds n and n+1 were the same sequence shifted by one
  explicit Rng(uint64_t seed) {
    uint64_t z = seed + 0x9E3779B97F4A7C15ULL; z = (z ^ (z >> 30)) * 0xBF58476D1CE4E5B9ULL; z = (z ^ (z >> 27)) * 0x94D049BB133111EBULL;
    s = (z ^ (z >> 31)) + 0x1234567ULL;
  }
  uint64_t next() { uint64_t z = (s += 0x9E3779B97F4A7C15ULL); z = (z ^ (z >> 30)) * 0xBF58476D1CE4E5B9ULL; z = (z ^ (z >> 27)) * 0x94D049BB133111EBULL; return z ^ (z >> 31); }
  int range(int lo, int hi) { return lo + (int)(next() % (uint64_t)(hi - lo + 1)); }  // inclusive
  bool coin() { return next() & 1; }
  template <class T> const T& pick(const std::vector<T>& v) { return v[next() % v.size()]; }
};

inline long long seed_from_env() { const char* s = getenv("VERIF_SEED"); return s ? atoll(s) : 1; }

// fixed point: round(v * 2^k)
inline long long fx(double v, int k) { return (long long)std::llround(std::ldexp(v, k)); }

// catch STIR's error() (throws) — returns true if f() threw
template <class F> bool threw(F f, std::string* msg = nullptr) {
  try { f(); return false; }
  catch (std::exception& e) { if (msg) *msg = e.what(); return true; }
  catch (std::string& e) { if (msg) *msg = e; return true; }
  catch (...) { if (msg) *msg = "?"; return true; }
}

} // namespace vh
#endif
