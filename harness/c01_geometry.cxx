// C01 driver: enumerates configurations and records what the real geometry classes answer.
// No property formula here: TLC (Trace_Geometry.tla) decides.
//   c01_geometry small <out.ndjson> <budget-per-config> <stage>   exhaustive small configurations
//   c01_geometry db    <out.ndjson> <samples-per-config>          predefined scanners + big generated rings
#include "vh_stir.h"
#include "stir/SSRB.h"
#include <set>
#include <algorithm>
using namespace stir;

struct Cfg { int N, R, span, maxDelta, mash, tofMash, maxT, numTang, segReduce; bool ge; std::string geom; };

static long cfg_id = 0;

template <class PDI>
static void emit_config(vh::Trace& tr, const Cfg& c, const PDI& pdi, const std::string& name) {
  std::vector<std::vector<int>> segs;
  for (int s = pdi.get_min_segment_num(); s <= pdi.get_max_segment_num(); ++s)
    segs.push_back({ s, pdi.get_min_ring_difference(s), pdi.get_max_ring_difference(s), pdi.get_min_axial_pos_num(s), pdi.get_max_axial_pos_num(s) });
  tr.emit(vh::Json("Config").num("id", ++cfg_id).str("name", name).str("geom", c.geom).num("N", c.N).num("R", c.R).num("span", c.span)
          .boolean("ge", c.ge).num("maxDelta", c.maxDelta).num("mash", c.mash).num("tofMash", pdi.get_tof_mash_factor()).num("maxT", c.maxT)
          .num("minTang", pdi.get_min_tangential_pos_num()).num("maxTang", pdi.get_max_tangential_pos_num())
          .num("minSeg", pdi.get_min_segment_num()).num("maxSeg", pdi.get_max_segment_num())
          .num("numViews", pdi.get_num_views()).num("minView", pdi.get_min_view_num())
          .num("minTof", pdi.get_min_tof_pos_num()).num("maxTof", pdi.get_max_tof_pos_num()).arr2("segs", segs));
}

static void emit_bin(vh::Json& j, const Bin& b) {
  j.num("seg", b.segment_num()).num("ax", b.axial_pos_num()).num("view", b.view_num()).num("tang", b.tangential_pos_num()).num("tof", b.timing_pos_num());
}

template <class PDI> struct Api;
template <> struct Api<ProjDataInfoCylindricalNoArcCorr> {
  static unsigned num(const ProjDataInfoCylindricalNoArcCorr& p, const Bin& b, bool spatial) { return p.get_num_det_pos_pairs_for_bin(b, spatial); }
  static void all(const ProjDataInfoCylindricalNoArcCorr& p, std::vector<DetectionPositionPair<>>& v, const Bin& b, bool spatial) { p.get_all_det_pos_pairs_for_bin(v, b, spatial); }
  static const bool has_flag = true;
};
template <> struct Api<ProjDataInfoGenericNoArcCorr> {
  static unsigned num(const ProjDataInfoGenericNoArcCorr& p, const Bin& b, bool) { return p.get_num_det_pos_pairs_for_bin(b); }
  static void all(const ProjDataInfoGenericNoArcCorr& p, std::vector<DetectionPositionPair<>>& v, const Bin& b, bool) { p.get_all_det_pos_pairs_for_bin(v, b); }
  static const bool has_flag = false;
};

// record everything for one configuration; budget limits the number of PB / BP events (stride)
template <class PDI>
static void record(vh::Trace& tr, const Cfg& c, const PDI& pdi, const std::string& name, long budget, vh::Rng& rng, bool exhaustive_inplane) {
  emit_config(tr, c, pdi, name);
  const int N = c.N, R = c.R;
  // ring pairs -> (segment, axial position)
  for (int r1 = 0; r1 < R; ++r1)
    for (int r2 = 0; r2 < R; ++r2) {
      if ((long)R * R > 4 * budget && rng.range(0, (int)((long)R * R / (2 * budget))) != 0) continue;
      int s = 0, a = 0;
      bool ok = pdi.get_segment_axial_pos_num_for_ring_pair(s, a, r1, r2) == Succeeded::yes;
      tr.emit(vh::Json("RP").num("r1", r1).num("r2", r2).boolean("ok", ok).num("seg", ok ? s : 0).num("ax", ok ? a : 0));
    }
  // (segment, axial position) -> ring pairs
  for (int s = pdi.get_min_segment_num(); s <= pdi.get_max_segment_num(); ++s)
    for (int a = pdi.get_min_axial_pos_num(s); a <= pdi.get_max_axial_pos_num(s); ++a) {
      {
        // few (segment, axial position) pairs: all of them; otherwise both ends of every segment + seeded samples
        const long nsa = (long)pdi.get_num_segments() * pdi.get_num_axial_poss(0);
        const bool edge = a - pdi.get_min_axial_pos_num(s) < 2 || pdi.get_max_axial_pos_num(s) - a < 2;
        if (nsa > budget && !(edge && (std::abs(s) <= 1 || std::abs(s) == pdi.get_max_segment_num())) && rng.range(0, (int)(nsa / budget)) != 0) continue;
      }
      const auto& rps = pdi.get_all_ring_pairs_for_segment_axial_pos_num(s, a);
      std::vector<std::vector<int>> l;
      for (auto& rp : rps) l.push_back({ rp.first, rp.second });
      tr.emit(vh::Json("RPS").num("seg", s).num("ax", a).num("n", pdi.get_num_ring_pairs_for_segment_axial_pos_num(s, a)).arr2("pairs", l));
    }
  // in-plane: ordered detector pair -> (view, tang, flag)
  {
    long total = (long)N * (N - 1);
    long stride = exhaustive_inplane ? 1 : std::max(1L, total / std::max(1L, budget));
    long k = rng.range(0, (int)stride - 1);
    for (; k < total; k += stride) {
      int d1 = (int)(k / (N - 1)), d2 = (int)(k % (N - 1));
      if (d2 >= d1) ++d2;
      int v = 0, tp = 0;
      bool same = pdi.get_view_tangential_pos_num_for_det_num_pair(v, tp, d1, d2);
      tr.emit(vh::Json("DP").num("d1", d1).num("d2", d2).num("view", v).num("tang", tp).boolean("same", same));
    }
  }
  // (unmashed view, tang) -> detectors
  if (c.mash == 1) {
    for (int v = 0; v < pdi.get_num_views(); ++v)
      for (int tp = pdi.get_min_tangential_pos_num(); tp <= pdi.get_max_tangential_pos_num(); ++tp) {
        if ((long)N * N / 2 > 2 * budget && rng.range(0, (int)((long)N * N / (4 * budget))) != 0) continue;
        int d1 = 0, d2 = 0;
        pdi.get_det_num_pair_for_view_tangential_pos_num(d1, d2, v, tp);
        tr.emit(vh::Json("VT").num("view", v).num("tang", tp).num("d1", d1).num("d2", d2));
      }
  }
  // detection position pair (+ unmashed timing position) -> bin
  const int tm = pdi.get_tof_mash_factor();
  std::vector<int> ts;
  if (tm == 0) ts.push_back(0);
  else { int tmax = pdi.get_max_tof_pos_num() * tm + tm / 2; for (int t = -tmax; t <= tmax; ++t) ts.push_back(t); }
  {
    long total = (long)N * (N - 1) * R * R * (long)ts.size();
    long stride = std::max(1L, total / std::max(1L, budget));
    if (stride > 1 && stride % 2 == 0) ++stride;
    long k = stride > 1 ? rng.range(0, (int)std::min(stride - 1, 100000L)) : 0;
    for (; k < total; k += stride) {
      long q = k;
      int ti = (int)(q % ts.size()); q /= ts.size();
      int r2 = (int)(q % R); q /= R;
      int r1 = (int)(q % R); q /= R;
      int d2 = (int)(q % (N - 1)); q /= (N - 1);
      int d1 = (int)q;
      if (d2 >= d1) ++d2;
      DetectionPositionPair<> dp(DetectionPosition<>(d1, r1, 0), DetectionPosition<>(d2, r2, 0), ts[ti]);
      Bin b;
      bool ok = pdi.get_bin_for_det_pos_pair(b, dp) == Succeeded::yes;
      vh::Json j("PB");
      j.num("d1", d1).num("r1", r1).num("d2", d2).num("r2", r2).num("t", ts[ti]).boolean("ok", ok);
      if (ok) emit_bin(j, b); else { Bin z(0, b.view_num(), 0, b.tangential_pos_num(), b.timing_pos_num()); emit_bin(j, z); }
      tr.emit(j);
    }
  }
  // bin -> all detection position pairs, reported count; bin -> single pair for uncompressed data
  {
    // enumerate all bins when there are few, otherwise draw seeded samples (never materialise the full list)
    double total = 0;
    for (int s = pdi.get_min_segment_num(); s <= pdi.get_max_segment_num(); ++s)
      total += (double)pdi.get_num_axial_poss(s) * pdi.get_num_views() * pdi.get_num_tangential_poss() * pdi.get_num_tof_poss();
    std::vector<Bin> bins;
    const long want = std::max(1L, budget / 2);
    if (total <= 4.0 * want) {
      for (int s = pdi.get_min_segment_num(); s <= pdi.get_max_segment_num(); ++s)
        for (int a = pdi.get_min_axial_pos_num(s); a <= pdi.get_max_axial_pos_num(s); ++a)
          for (int v = pdi.get_min_view_num(); v <= pdi.get_max_view_num(); ++v)
            for (int tp = pdi.get_min_tangential_pos_num(); tp <= pdi.get_max_tangential_pos_num(); ++tp)
              for (int k = pdi.get_min_tof_pos_num(); k <= pdi.get_max_tof_pos_num(); ++k)
                bins.push_back(Bin(s, v, a, tp, k));
    } else {
      for (long i = 0; i < want; ++i) {
        int s = rng.range(pdi.get_min_segment_num(), pdi.get_max_segment_num());
        // bias towards the edges of every index range
        auto edge = [&](int lo, int hi) { int r = rng.range(0, 5); return r == 0 ? lo : r == 1 ? hi : rng.range(lo, hi); };
        bins.push_back(Bin(s, edge(pdi.get_min_view_num(), pdi.get_max_view_num()), edge(pdi.get_min_axial_pos_num(s), pdi.get_max_axial_pos_num(s)),
                           edge(pdi.get_min_tangential_pos_num(), pdi.get_max_tangential_pos_num()), edge(pdi.get_min_tof_pos_num(), pdi.get_max_tof_pos_num())));
      }
    }
    long stride = std::max<long>(1, (long)bins.size() / want);
    if (stride > 1 && stride % 2 == 0) ++stride;
    for (size_t i = stride > 1 ? rng.range(0, (int)stride - 1) : 0; i < bins.size(); i += stride) {
      const Bin& b = bins[i];
      for (int spatial = 0; spatial < (Api<PDI>::has_flag ? 2 : 1); ++spatial) {
        std::vector<DetectionPositionPair<>> dps;
        Api<PDI>::all(pdi, dps, b, spatial != 0);
        std::vector<std::vector<int>> l;
        for (auto& dp : dps) l.push_back({ (int)dp.pos1().tangential_coord(), (int)dp.pos1().axial_coord(), (int)dp.pos2().tangential_coord(), (int)dp.pos2().axial_coord(), (int)dp.timing_pos() });
        vh::Json j("BP"); emit_bin(j, b);
        j.boolean("spatialOnly", spatial != 0 || !Api<PDI>::has_flag).num("n", Api<PDI>::num(pdi, b, spatial != 0)).arr2("pairs", l);
        tr.emit(j);
      }
      if (pdi.get_min_ring_difference(b.segment_num()) == pdi.get_max_ring_difference(b.segment_num()) && c.mash == 1) {
        DetectionPositionPair<> dp;
        pdi.get_det_pos_pair_for_bin(dp, b);
        vh::Json j("BD"); emit_bin(j, b);
        j.num("d1", dp.pos1().tangential_coord()).num("r1", dp.pos1().axial_coord()).num("d2", dp.pos2().tangential_coord()).num("r2", dp.pos2().axial_coord()).num("t", dp.timing_pos());
        tr.emit(j);
      }
    }
  }
}

static void run_cfg(vh::Trace& tr, const Cfg& c, const std::string& name, long budget, vh::Rng& rng, bool exh, shared_ptr<Scanner> sc = nullptr, int alias_kind = 0) {
  std::string msg;
  shared_ptr<ProjDataInfo> pdi;
  bool bad = vh::threw([&] {
    if (!sc) sc = vh::make_scanner(c.N, c.R, c.maxT, c.geom);
    const int views = c.N / 2 / c.mash;
    if (c.ge) pdi.reset(ProjDataInfo::ProjDataInfoGE(sc, c.maxDelta, views, c.numTang, false, c.tofMash));
    else pdi = ProjDataInfo::construct_proj_data_info(sc, c.span, c.maxDelta, views, c.numTang, false, c.tofMash);
    if (c.segReduce > 0 && pdi->get_max_segment_num() >= c.segReduce)
      pdi->reduce_segment_range(-(pdi->get_max_segment_num() - c.segReduce), pdi->get_max_segment_num() - c.segReduce);
  }, &msg);
  if (bad) { tr.emit(vh::Json("ConfigRejected").str("name", name).num("N", c.N).num("R", c.R).num("span", c.span).num("maxDelta", c.maxDelta).str("msg", msg)); return; }
  if (auto* p = dynamic_cast<ProjDataInfoCylindricalNoArcCorr*>(pdi.get())) {
    record(tr, c, *p, name, budget, rng, exh);
    if (alias_kind > 0) {
      // History: derive other objects from this one (clone / copy / SSRB), change and USE them (which makes them
      // build their own lazy tables), then ask the ORIGINAL object everything again.  Nothing is recorded for the
      // derived objects; the second set of answers is recorded under the same Config and must be explained like the first.
      std::string m2;
      vh::threw([&] {
        for (int round = 0; round < 2; ++round) {
          shared_ptr<ProjDataInfo> q;
          if ((alias_kind + round) % 3 == 0) {
            q.reset(p->clone());
            if (q->get_max_segment_num() >= 1) q->reduce_segment_range(-(q->get_max_segment_num() - 1), q->get_max_segment_num() - 1);
          } else if ((alias_kind + round) % 3 == 1) {
            q.reset(SSRB(*p, std::min(3, p->get_num_segments() | 1), 1, 0));
          } else {
            auto* cp = new ProjDataInfoCylindricalNoArcCorr(*p);
            q.reset(cp);
            for (int s = cp->get_min_segment_num(); s <= cp->get_max_segment_num(); ++s)
              if (s != 0 && cp->get_max_ring_difference(s) > cp->get_min_ring_difference(s)) {
                if (s > 0) cp->set_max_ring_difference(cp->get_max_ring_difference(s) - 1, s);
                else cp->set_min_ring_difference(cp->get_min_ring_difference(s) + 1, s);
              }
          }
          auto* qc = dynamic_cast<ProjDataInfoCylindrical*>(q.get());
          long sink = 0;
          for (int s = qc->get_min_segment_num(); s <= qc->get_max_segment_num(); ++s)
            for (int a = qc->get_min_axial_pos_num(s); a <= qc->get_max_axial_pos_num(s); ++a)
              sink += (long)qc->get_all_ring_pairs_for_segment_axial_pos_num(s, a).size();
          for (int r1 = 0; r1 < c.R; ++r1) for (int r2 = 0; r2 < c.R; ++r2) { int s = 0, a = 0; sink += qc->get_segment_axial_pos_num_for_ring_pair(s, a, r1, r2) == Succeeded::yes; }
          if (auto* qn = dynamic_cast<ProjDataInfoCylindricalNoArcCorr*>(q.get())) {
            int v = 0, tp = 0; sink += qn->get_view_tangential_pos_num_for_det_num_pair(v, tp, 0, c.N / 2);
            Bin b(0, 0, 0, 0); DetectionPositionPair<> dp; qn->get_det_pos_pair_for_bin(dp, b); sink += dp.pos1().tangential_coord();
          }
          if (sink == -12345) tr.emit(vh::Json("Never"));
        }
      }, &m2);
      record(tr, c, *p, name + "+after-derived-objects", budget, rng, exh);
    }
  }
  else if (auto* g = dynamic_cast<ProjDataInfoGenericNoArcCorr*>(pdi.get())) record(tr, c, *g, name, budget, rng, exh);
}

int main(int argc, char** argv) {
  if (argc < 4) return 2;
  vh::install_terminate(); vh::quiet();
  if (!getenv("VERIF_STDERR")) { if (!freopen("/dev/null", "w", stderr)) return 3; }
  std::string mode = argv[1];
  vh::Trace tr(argv[2]);
  long budget = atol(argv[3]);
  vh::Rng rng(vh::seed_from_env());
  if (mode == "small") {
    int stage = argc > 4 ? atoi(argv[4]) : 0;   // 0: quick family, 1: thorough family
    std::vector<int> Ns = stage ? std::vector<int>{ 4, 6, 8, 10, 12, 14, 16, 18, 20, 24 } : std::vector<int>{ 4, 6, 8, 10, 12 };
    int maxR = stage ? 5 : 4;
    for (int N : Ns)
      for (int R = 1; R <= maxR; ++R)
        for (int layout = 0; layout <= 2 * R; ++layout) {      // 0 = GE, else span = layout
          for (int maxDelta = 0; maxDelta <= R - 1; ++maxDelta)
            for (int mash = 1; mash <= 3; ++mash) {
              if ((N / 2) % mash) continue;
              for (int tof = 0; tof < 4; ++tof) {
                static const int TM[4] = { 0, 1, 3, 5 }, MT[4] = { 0, 5, 9, 5 };
                for (int trunc = 0; trunc < 2; ++trunc)
                  for (const char* geom : { "Cylindrical", "BlocksOnCylindrical" }) {
                    Cfg c;
                    c.N = N; c.R = R; c.ge = layout == 0; c.span = c.ge ? 1 : layout; c.maxDelta = maxDelta; c.mash = mash;
                    c.tofMash = TM[tof]; c.maxT = MT[tof]; c.geom = geom;
                    c.numTang = trunc ? std::max(1, (N - 1) / 2) : N - 1;
                    c.segReduce = trunc;
                    if (c.ge && (maxDelta < 1)) continue;
                    if (!c.ge && (c.span > 2 * R - 1 || maxDelta < (c.span % 2 ? (c.span - 1) / 2 : c.span / 2))) continue;
                    // Generic/Blocks classes: documented as restricted to span 1, no view mashing, non-TOF
                    if (std::string(geom) != "Cylindrical" && (c.tofMash != 0 || N < 8 || c.span != 1 || c.ge || mash != 1)) continue;
                    // thin the product: keep all axial layouts for one in-plane setting and vice versa
                    bool keep = (mash == 1 && tof == 0 && trunc == 0) || (layout <= 3 && maxDelta == R - 1) || rng.range(0, 5) == 0;
                    if (!keep) continue;
                    // every third cylindrical configuration with more than one segment: also the aliasing history
                    const int alias_kind = (std::string(geom) == "Cylindrical" && R >= 2 && maxDelta >= 1 && rng.range(0, 2) == 0) ? 1 + rng.range(0, 2) : 0;
                    run_cfg(tr, c, "gen", budget, rng, true, nullptr, alias_kind);
                  }
              }
            }
        }
  } else if (mode == "db") {
    // every predefined scanner with a cylindrical discrete-detector layout, several samplings each
    for (int t = Scanner::E931; t < Scanner::User_defined_scanner; ++t) {
      shared_ptr<Scanner> sc;
      std::string msg;
      if (vh::threw([&] { sc.reset(new Scanner(static_cast<Scanner::Type>(t))); }, &msg)) continue;
      if (sc->get_type() == Scanner::Unknown_scanner || sc->get_type() == Scanner::HiDAC) continue;
      const int N = sc->get_num_detectors_per_ring(), R = sc->get_num_rings();
      if (N < 4 || N % 2 || R < 1) continue;
      if (sc->get_scanner_geometry() != "Cylindrical") continue;
      for (int variant = 0; variant < 4; ++variant) {
        Cfg c; c.N = N; c.R = R; c.geom = "Cylindrical"; c.ge = false; c.segReduce = 0;
        c.maxT = sc->is_tof_ready() ? sc->get_max_num_timing_poss() : 0;
        c.numTang = std::min(sc->get_max_num_non_arccorrected_bins(), N - 1);
        c.mash = 1; c.tofMash = 0; c.span = 1; c.maxDelta = R - 1;
        if (variant == 1) { c.span = std::min(2 * R - 1, 3); c.maxDelta = std::min(R - 1, std::max(1, (R - 1) / 3 * 3 + 1)); if (c.maxDelta < 1) continue; for (int m : { 2, 3, 4, 5 }) if ((N / 2) % m == 0) { c.mash = m; break; } }
        if (variant == 2) { c.span = std::min(2 * R - 1, 11); if (c.span % 2 == 0) c.span--; c.maxDelta = R - 1; if (c.maxDelta < (c.span - 1) / 2) continue; c.numTang = std::max(1, c.numTang / 2); }
        if (variant == 3) { if (c.maxT <= 0) continue; int m = 1; for (int k : { 3, 5, 9, 11, 13 }) if (c.maxT % k == 0 && (c.maxT / k) % 2 == 1) { m = k; break; } if ((c.maxT / m) % 2 == 0) continue; c.tofMash = m; c.span = 1; c.maxDelta = std::min(R - 1, 3); }
        shared_ptr<Scanner> sc2(new Scanner(*sc));
        run_cfg(tr, c, sc->get_name(), budget, rng, false, sc2);
      }
    }
    // generated big rings
    for (int N : { 32, 64, 100, 256, 500, 720, 1000 })
      for (int R : { 1, 2, 7 }) {
        Cfg c; c.N = N; c.R = R; c.geom = "Cylindrical"; c.ge = false; c.segReduce = 0; c.maxT = 13; c.numTang = N - 1;
        c.mash = rng.pick(std::vector<int>{ 1, 2, 4, 5 }); if ((N / 2) % c.mash) c.mash = 1;
        c.tofMash = rng.pick(std::vector<int>{ 0, 1, 13 });
        c.span = R > 1 ? rng.pick(std::vector<int>{ 1, 2, 3 }) : 1; c.maxDelta = R - 1;
        if (c.maxDelta < c.span / 2) c.span = 1;
        run_cfg(tr, c, "big", budget, rng, false);
      }
  }
  return 0;
}
