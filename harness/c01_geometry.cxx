// C01 driver: enumerates configurations and records what the real geometry classes answer.
// No property formula here: TLC (Trace_Geometry.tla) decides.
//   c01_geometry small <out.ndjson> <budget-per-config> <stage>   exhaustive small configurations
//   c01_geometry db    <out.ndjson> <samples-per-config>          predefined scanners + big generated rings
// Besides the answers of freshly constructed objects the driver records HISTORIES of one object: after objects
// derived from it were changed and used (alias_kind), and after the object itself was changed in place with
// set_num_views / set_min,max_tangential_pos_num / set_tof_mash_factor / reduce_segment_range /
// set_min,max_ring_difference (hist): every change is followed by a new Config line (with an "after" record naming
// the change and the previous configuration) and by the complete set of answers again.
#include "vh_stir.h"
#include "stir/SSRB.h"
#include "stir/ProjDataInfoSubsetByView.h"
#include <set>
#include <algorithm>
#include <fstream>
using namespace stir;

struct Cfg { int N, R, span, maxDelta, mash, tofMash, maxT, numTang, segReduce; bool ge; std::string geom; int segLo = 0, segHi = 0; bool asym = false; };

static long cfg_id = 0;
static std::string g_dir = ".";

// ------------------------------------------------------------------ scanners
// Generic geometry: the crystal map lists the detectors of a cylindrical lay-out (the environment the class needs is a
// file; it is generated here, next to the trace).
static shared_ptr<Scanner> make_generic(int N, int R) {
  const float radius = std::max(40.F, N * 4.F / 6.2831853F * 1.2F), spacing = 4.F;
  const std::string fn = g_dir + "/c01_map_" + std::to_string(N) + "_" + std::to_string(R) + ".csv";
  {
    std::ofstream f(fn);
    f.precision(9);
    for (int r = 0; r < R; ++r)
      for (int d = 0; d < N; ++d) {
        const double psi = 2 * 3.14159265358979323846 * d / N;
        f << r << "," << d << "," << radius * std::sin(psi) << "," << -radius * std::cos(psi) << "," << (r - (R - 1) / 2.0) * spacing << "\n";
      }
  }
  return shared_ptr<Scanner>(new Scanner(Scanner::User_defined_scanner, "tinygeneric", N, R, N - 1, N - 1, radius, 0.F, spacing, 3.F, 0.F,
                                         1, 1, 1, 1, 1, 1, 1, -1.F, -1.F, (short)-1, -1.F, -1.F, "Generic", spacing, 1.F, spacing, 1.F, fn));
}
static shared_ptr<Scanner> make_any_scanner(int N, int R, int maxT, const std::string& geom) {
  if (geom == "Generic") return make_generic(N, R);
  return vh::make_scanner(N, R, maxT, geom);
}

// ------------------------------------------------------------------ Config lines
static std::vector<int> limbs(std::size_t v) { return { (int)(v & 0x7fff), (int)((v >> 15) & 0x7fff), (int)((v >> 30) & 0x7fff), (int)(v >> 45) }; }

// the fields describing one object: parameters it was made with / changed with + what the object itself reports
static void cfg_fields(vh::Json& j, const Cfg& c, const ProjDataInfoCylindrical& pdi, const std::string& name) {
  std::vector<std::vector<int>> segs;
  for (int s = pdi.get_min_segment_num(); s <= pdi.get_max_segment_num(); ++s)
    segs.push_back({ s, pdi.get_min_ring_difference(s), pdi.get_max_ring_difference(s), pdi.get_min_axial_pos_num(s), pdi.get_max_axial_pos_num(s) });
  j.str("name", name).str("geom", c.geom).num("N", c.N).num("R", c.R).num("span", c.span)
      .boolean("ge", c.ge).num("maxDelta", c.maxDelta).num("mash", c.mash).num("tofMash", pdi.get_tof_mash_factor()).num("maxT", c.maxT)
      .num("minTang", pdi.get_min_tangential_pos_num()).num("maxTang", pdi.get_max_tangential_pos_num())
      .num("minSeg", pdi.get_min_segment_num()).num("maxSeg", pdi.get_max_segment_num())
      .num("numViews", pdi.get_num_views()).num("minView", pdi.get_min_view_num())
      .num("minTof", pdi.get_min_tof_pos_num()).num("maxTof", pdi.get_max_tof_pos_num()).arr2("segs", segs)
      .num("numSegs", pdi.get_num_segments()).num("numTang", pdi.get_num_tangential_poss()).num("numTof", pdi.get_num_tof_poss())
      .num("numNonTofSinos", pdi.get_num_non_tof_sinograms()).num("numSinos", pdi.get_num_sinograms()).arr("sizeAll", limbs(pdi.size_all()));
}
static std::string cfg_object(const Cfg& c, const ProjDataInfoCylindrical& pdi, const std::string& name) {
  vh::Json j; cfg_fields(j, c, pdi, name); return j.done();
}
struct After { std::string what; int x = 0, y = 0; std::string prev; };
static void emit_config(vh::Trace& tr, const Cfg& c, const ProjDataInfoCylindrical& pdi, const std::string& name, const After* after = nullptr) {
  vh::Json j("Config");
  j.num("id", ++cfg_id);
  cfg_fields(j, c, pdi, name);
  if (after) { vh::Json a; a.str("what", after->what).num("x", after->x).num("y", after->y).raw("prev", after->prev); j.raw("after", a.done()); }
  tr.emit(j);
}

static void emit_bin(vh::Json& j, const Bin& b) {
  j.num("seg", b.segment_num()).num("ax", b.axial_pos_num()).num("view", b.view_num()).num("tang", b.tangential_pos_num()).num("tof", b.timing_pos_num());
}

template <class PDI> struct Api;
template <> struct Api<ProjDataInfoCylindricalNoArcCorr> {
  static unsigned num(const ProjDataInfoCylindricalNoArcCorr& p, const Bin& b, bool spatial) { return p.get_num_det_pos_pairs_for_bin(b, spatial); }
  static void all(const ProjDataInfoCylindricalNoArcCorr& p, std::vector<DetectionPositionPair<>>& v, const Bin& b, bool spatial) { p.get_all_det_pos_pairs_for_bin(v, b, spatial); }
  static const bool has_flag = true;
};
template <> struct Api<ProjDataInfoGenericNoArcCorr> {
  static unsigned num(const ProjDataInfoGenericNoArcCorr& p, const Bin& b, bool) { return p.get_num_det_pos_pairs_for_bin(b); }
  static void all(const ProjDataInfoGenericNoArcCorr& p, std::vector<DetectionPositionPair<>>& v, const Bin& b, bool) { p.get_all_det_pos_pairs_for_bin(v, b); }
  static const bool has_flag = false;
};

static std::vector<std::vector<int>> pair_list(const std::vector<DetectionPositionPair<>>& dps) {
  std::vector<std::vector<int>> l;
  for (auto& dp : dps) l.push_back({ (int)dp.pos1().tangential_coord(), (int)dp.pos1().axial_coord(), (int)dp.pos2().tangential_coord(), (int)dp.pos2().axial_coord(), (int)dp.timing_pos() });
  return l;
}

// seeded sample of the bins of a ProjDataInfo (all of them when there are few)
static std::vector<Bin> sample_bins(const ProjDataInfo& pdi, long want, vh::Rng& rng) {
  double total = 0;
  for (int s = pdi.get_min_segment_num(); s <= pdi.get_max_segment_num(); ++s)
    total += (double)pdi.get_num_axial_poss(s) * pdi.get_num_views() * pdi.get_num_tangential_poss() * pdi.get_num_tof_poss();
  std::vector<Bin> bins;
  if (total <= 4.0 * want) {
    for (int s = pdi.get_min_segment_num(); s <= pdi.get_max_segment_num(); ++s)
      for (int a = pdi.get_min_axial_pos_num(s); a <= pdi.get_max_axial_pos_num(s); ++a)
        for (int v = pdi.get_min_view_num(); v <= pdi.get_max_view_num(); ++v)
          for (int tp = pdi.get_min_tangential_pos_num(); tp <= pdi.get_max_tangential_pos_num(); ++tp)
            for (int k = pdi.get_min_tof_pos_num(); k <= pdi.get_max_tof_pos_num(); ++k)
              bins.push_back(Bin(s, v, a, tp, k));
  } else {
    for (long i = 0; i < want; ++i) {
      int s = rng.range(pdi.get_min_segment_num(), pdi.get_max_segment_num());
      // bias towards the edges of every index range
      auto edge = [&](int lo, int hi) { int r = rng.range(0, 5); return r == 0 ? lo : r == 1 ? hi : rng.range(lo, hi); };
      bins.push_back(Bin(s, edge(pdi.get_min_view_num(), pdi.get_max_view_num()), edge(pdi.get_min_axial_pos_num(s), pdi.get_max_axial_pos_num(s)),
                         edge(pdi.get_min_tangential_pos_num(), pdi.get_max_tangential_pos_num()), edge(pdi.get_min_tof_pos_num(), pdi.get_max_tof_pos_num())));
    }
  }
  return bins;
}

// record everything for one configuration; budget limits the number of PB / BP events (stride)
template <class PDI>
static void record(vh::Trace& tr, const Cfg& c, const PDI& pdi, const std::string& name, long budget, vh::Rng& rng, bool exhaustive_inplane, const After* after = nullptr) {
  emit_config(tr, c, pdi, name, after);
  const int N = c.N, R = c.R;
  // ring pairs -> (segment, axial position)
  for (int r1 = 0; r1 < R; ++r1)
    for (int r2 = 0; r2 < R; ++r2) {
      if ((long)R * R > 4 * budget && rng.range(0, (int)((long)R * R / (2 * budget))) != 0) continue;
      int s = 0, a = 0;
      bool ok = pdi.get_segment_axial_pos_num_for_ring_pair(s, a, r1, r2) == Succeeded::yes;
      tr.emit(vh::Json("RP").num("r1", r1).num("r2", r2).boolean("ok", ok).num("seg", ok ? s : 0).num("ax", ok ? a : 0));
    }
  // (segment, axial position) -> ring pairs
  for (int s = pdi.get_min_segment_num(); s <= pdi.get_max_segment_num(); ++s)
    for (int a = pdi.get_min_axial_pos_num(s); a <= pdi.get_max_axial_pos_num(s); ++a) {
      {
        // few (segment, axial position) pairs: all of them; otherwise both ends of every segment + seeded samples
        const long nsa = (long)pdi.get_num_non_tof_sinograms();
        const bool edge = a - pdi.get_min_axial_pos_num(s) < 2 || pdi.get_max_axial_pos_num(s) - a < 2;
        const bool outer = s == pdi.get_min_segment_num() || s == pdi.get_max_segment_num() || std::abs(s) <= 1;
        if (nsa > budget && !(edge && outer) && rng.range(0, (int)(nsa / budget)) != 0) continue;
      }
      const auto& rps = pdi.get_all_ring_pairs_for_segment_axial_pos_num(s, a);
      std::vector<std::vector<int>> l;
      for (auto& rp : rps) l.push_back({ rp.first, rp.second });
      tr.emit(vh::Json("RPS").num("seg", s).num("ax", a).num("n", pdi.get_num_ring_pairs_for_segment_axial_pos_num(s, a)).arr2("pairs", l));
    }
  // in-plane: ordered detector pair -> (view, tang, flag)
  {
    long total = (long)N * (N - 1);
    long stride = exhaustive_inplane ? 1 : std::max(1L, total / std::max(1L, budget));
    long k = rng.range(0, (int)stride - 1);
    for (; k < total; k += stride) {
      int d1 = (int)(k / (N - 1)), d2 = (int)(k % (N - 1));
      if (d2 >= d1) ++d2;
      int v = 0, tp = 0;
      bool same = pdi.get_view_tangential_pos_num_for_det_num_pair(v, tp, d1, d2);
      tr.emit(vh::Json("DP").num("d1", d1).num("d2", d2).num("view", v).num("tang", tp).boolean("same", same));
    }
  }
  // (unmashed view, tang) -> detectors
  if (c.mash == 1) {
    for (int v = 0; v < pdi.get_num_views(); ++v)
      for (int tp = pdi.get_min_tangential_pos_num(); tp <= pdi.get_max_tangential_pos_num(); ++tp) {
        if ((long)N * N / 2 > 2 * budget && rng.range(0, (int)((long)N * N / (4 * budget))) != 0) continue;
        int d1 = 0, d2 = 0;
        pdi.get_det_num_pair_for_view_tangential_pos_num(d1, d2, v, tp);
        tr.emit(vh::Json("VT").num("view", v).num("tang", tp).num("d1", d1).num("d2", d2));
      }
  }
  // detection position pair (+ unmashed timing position) -> bin
  const int tm = pdi.get_tof_mash_factor();
  std::vector<int> ts;
  if (tm == 0) ts.push_back(0);
  else { int tmax = pdi.get_max_tof_pos_num() * tm + tm / 2; for (int t = -tmax; t <= tmax; ++t) ts.push_back(t); }
  {
    long total = (long)N * (N - 1) * R * R * (long)ts.size();
    long stride = std::max(1L, total / std::max(1L, budget));
    if (stride > 1 && stride % 2 == 0) ++stride;
    long k = stride > 1 ? rng.range(0, (int)std::min(stride - 1, 100000L)) : 0;
    for (; k < total; k += stride) {
      long q = k;
      int ti = (int)(q % ts.size()); q /= ts.size();
      int r2 = (int)(q % R); q /= R;
      int r1 = (int)(q % R); q /= R;
      int d2 = (int)(q % (N - 1)); q /= (N - 1);
      int d1 = (int)q;
      if (d2 >= d1) ++d2;
      DetectionPositionPair<> dp(DetectionPosition<>(d1, r1, 0), DetectionPosition<>(d2, r2, 0), ts[ti]);
      Bin b;
      bool ok = pdi.get_bin_for_det_pos_pair(b, dp) == Succeeded::yes;
      vh::Json j("PB");
      j.num("d1", d1).num("r1", r1).num("d2", d2).num("r2", r2).num("t", ts[ti]).boolean("ok", ok);
      if (ok) emit_bin(j, b); else { Bin z(0, b.view_num(), 0, b.tangential_pos_num(), b.timing_pos_num()); emit_bin(j, z); }
      tr.emit(j);
    }
  }
  // bin -> all detection position pairs, reported count; bin -> single pair for uncompressed data
  {
    const long want = std::max(1L, budget / 2);
    std::vector<Bin> bins = sample_bins(pdi, want, rng);
    long stride = std::max<long>(1, (long)bins.size() / want);
    if (stride > 1 && stride % 2 == 0) ++stride;
    for (size_t i = stride > 1 ? rng.range(0, (int)stride - 1) : 0; i < bins.size(); i += stride) {
      const Bin& b = bins[i];
      for (int spatial = 0; spatial < (Api<PDI>::has_flag ? 2 : 1); ++spatial) {
        if (tm > 0 && tm % 2 == 0 && spatial == 0) {
          // even TOF mashing factor: get_all_det_pos_pairs_for_bin writes beyond the vector it sized itself (the guard is an
          // assert, compiled out); only the reported count is asked for
          vh::Json j("BN"); emit_bin(j, b);
          j.boolean("spatialOnly", false).num("n", Api<PDI>::num(pdi, b, false));
          tr.emit(j);
          continue;
        }
        std::vector<DetectionPositionPair<>> dps;
        Api<PDI>::all(pdi, dps, b, spatial != 0);
        vh::Json j("BP"); emit_bin(j, b);
        j.boolean("spatialOnly", spatial != 0 || !Api<PDI>::has_flag).num("n", Api<PDI>::num(pdi, b, spatial != 0)).arr2("pairs", pair_list(dps));
        tr.emit(j);
      }
      if (pdi.get_min_ring_difference(b.segment_num()) == pdi.get_max_ring_difference(b.segment_num()) && c.mash == 1) {
        DetectionPositionPair<> dp;
        pdi.get_det_pos_pair_for_bin(dp, b);
        vh::Json j("BD"); emit_bin(j, b);
        j.num("d1", dp.pos1().tangential_coord()).num("r1", dp.pos1().axial_coord()).num("d2", dp.pos2().tangential_coord()).num("r2", dp.pos2().axial_coord()).num("t", dp.timing_pos());
        tr.emit(j);
      }
    }
    // History of the CALLER's container: the API fills a vector supplied by the caller.  ONE vector, pre-filled with
    // rubbish, is re-used for a seeded sequence of bins (shuffled, so that the number of pairs goes up and down; the
    // spatial-only flag alternates as well); what comes back is recorded as BPR and must be explained exactly like BP:
    // the answer must not depend on what the vector held before.
    {
      std::vector<DetectionPositionPair<>> reused(37, DetectionPositionPair<>(DetectionPosition<>(9999, 9999, 1), DetectionPosition<>(9998, 9998, 2), 7));
      std::vector<size_t> order;
      for (size_t i = 0; i < bins.size(); ++i) order.push_back(i);
      for (size_t i = order.size(); i > 1; --i) std::swap(order[i - 1], order[rng.range(0, (int)i - 1)]);
      const size_t n = std::min<size_t>(order.size(), (size_t)std::max(6L, budget / 6));
      for (size_t k = 0; k < n; ++k) {
        const Bin& b = bins[order[k]];
        for (int spatial = 0; spatial < (Api<PDI>::has_flag ? 2 : 1); ++spatial) {
          if (tm > 0 && tm % 2 == 0 && spatial == 0) continue;   // (see BN above)
          Api<PDI>::all(pdi, reused, b, spatial != 0);
          vh::Json j("BPR"); emit_bin(j, b);
          j.boolean("spatialOnly", spatial != 0 || !Api<PDI>::has_flag).num("n", Api<PDI>::num(pdi, b, spatial != 0)).arr2("pairs", pair_list(reused));
          tr.emit(j);
        }
      }
    }
  }
}

// ------------------------------------------------------------------ view subsets
static void emit_sub(vh::Trace& tr, const std::vector<int>& views, const ProjDataInfoSubsetByView& sub) {
  tr.emit(vh::Json("Sub").arr("views", views).num("numViews", sub.get_num_views()).num("minView", sub.get_min_view_num()).num("maxView", sub.get_max_view_num())
          .arr("orgViews", sub.get_original_view_nums()).boolean("full", sub.contains_full_data())
          .num("minSeg", sub.get_min_segment_num()).num("maxSeg", sub.get_max_segment_num())
          .num("minTang", sub.get_min_tangential_pos_num()).num("maxTang", sub.get_max_tangential_pos_num())
          .num("minTof", sub.get_min_tof_pos_num()).num("maxTof", sub.get_max_tof_pos_num())
          .num("numNonTofSinos", sub.get_num_non_tof_sinograms()).num("numSinos", sub.get_num_sinograms()).arr("sizeAll", limbs(sub.size_all())));
}
// a seeded list of distinct views in seeded order (kind 0: proper subset when possible, 1: all views permuted, 2: identity)
static std::vector<int> pick_views(int nv, int kind, vh::Rng& rng) {
  std::vector<int> all;
  for (int v = 0; v < nv; ++v) all.push_back(v);
  if (kind == 2) return all;
  for (int i = nv - 1; i > 0; --i) std::swap(all[i], all[rng.range(0, i)]);
  if (kind == 0 && nv > 1) all.resize(rng.range(1, nv - 1));
  return all;
}
static void record_subsets(vh::Trace& tr, const Cfg& c, const shared_ptr<ProjDataInfo>& pdi, const std::string& name, long budget, vh::Rng& rng) {
  const auto* cyl = dynamic_cast<const ProjDataInfoCylindrical*>(pdi.get());
  const int nv = pdi->get_num_views();
  emit_config(tr, c, *cyl, name + "+subsets");
  std::vector<shared_ptr<ProjDataInfoSubsetByView>> subs;
  std::vector<std::vector<int>> vss;
  for (int kind : { 0, 1, 0, 2 }) {
    std::vector<int> vs = pick_views(nv, kind, rng);
    shared_ptr<ProjDataInfoSubsetByView> sub;
    std::string msg;
    if (vh::threw([&] { sub.reset(new ProjDataInfoSubsetByView(pdi, vs)); }, &msg)) { tr.emit(vh::Json("SubRejected").arr("views", vs).str("msg", msg)); continue; }
    subs.push_back(sub); vss.push_back(vs);
    emit_sub(tr, vs, *sub);
    std::vector<Bin> bins = sample_bins(*sub, std::max(4L, budget / 8), rng);
    long stride = std::max<long>(1, (long)bins.size() / std::max(4L, budget / 8));
    const auto* org = dynamic_cast<const ProjDataInfoCylindricalNoArcCorr*>(sub->get_original_proj_data_info_sptr().get());
    for (size_t i = 0; i < bins.size(); i += stride) {
      const Bin& b = bins[i];
      const Bin o = sub->get_original_bin(b);
      { vh::Json j("SubOrg"); emit_bin(j, b); j.num("oseg", o.segment_num()).num("oax", o.axial_pos_num()).num("oview", o.view_num()).num("otang", o.tangential_pos_num()).num("otof", o.timing_pos_num()); tr.emit(j); }
      const Bin f = sub->get_bin_from_original(o);
      { vh::Json j("SubFrom"); emit_bin(j, f); j.num("oseg", o.segment_num()).num("oax", o.axial_pos_num()).num("oview", o.view_num()).num("otang", o.tangential_pos_num()).num("otof", o.timing_pos_num()); tr.emit(j); }
      if (org && i % (4 * stride) == 0) {
        // the detector pairs of a bin of the subset: asked from the full-data object that the subset owns
        std::vector<DetectionPositionPair<>> dps;
        org->get_all_det_pos_pairs_for_bin(dps, o, false);
        vh::Json j("SubBP"); emit_bin(j, b);
        j.num("n", org->get_num_det_pos_pairs_for_bin(o, false)).arr2("pairs", pair_list(dps));
        tr.emit(j);
      }
    }
  }
  // requests the class documents as errors: empty, out of range, repeated view
  for (int kind = 0; kind < 4; ++kind) {
    std::vector<int> vs;
    if (kind == 1) vs = { nv };
    if (kind == 2) vs = { 0, -1 };
    if (kind == 3) { vs = pick_views(nv, 1, rng); vs.push_back(vs[rng.range(0, (int)vs.size() - 1)]); }
    shared_ptr<ProjDataInfoSubsetByView> sub;
    std::string msg;
    if (vh::threw([&] { sub.reset(new ProjDataInfoSubsetByView(pdi, vs)); }, &msg)) tr.emit(vh::Json("SubRejected").arr("views", vs).str("msg", msg));
    else emit_sub(tr, vs, *sub);
  }
  // order and equality between subsets of the same data, and between a subset and the full data
  for (size_t i = 0; i < subs.size(); ++i)
    for (size_t k = 0; k < subs.size(); ++k) {
      tr.emit(vh::Json("SubCmp").arr("va", vss[i]).arr("vb", vss[k]).boolean("ge", *subs[i] >= *subs[k]).boolean("eq", *subs[i] == *subs[k]).boolean("ne", *subs[i] != *subs[k]));
    }
  for (size_t i = 0; i < subs.size(); ++i) {
    bool identity = true;
    for (size_t k = 0; k < vss[i].size(); ++k) identity = identity && vss[i][k] == (int)k;
    if (!identity && subs[i]->contains_full_data()) continue;   // a permutation of all views: nothing is claimed
    tr.emit(vh::Json("SubMix").arr("va", vss[i]).boolean("ge", *subs[i] >= *pdi).boolean("le", *pdi >= *subs[i]).boolean("eq", *subs[i] == *pdi));
  }
}

// ------------------------------------------------------------------ equality / order of two objects
static shared_ptr<ProjDataInfo> construct(const Cfg& c, shared_ptr<Scanner> sc) {
  shared_ptr<ProjDataInfo> pdi;
  const int views = c.N / 2 / c.mash;
  if (c.ge) pdi.reset(ProjDataInfo::ProjDataInfoGE(sc, c.maxDelta, views, c.numTang, false, c.tofMash));
  else pdi = ProjDataInfo::construct_proj_data_info(sc, c.span, c.maxDelta, views, c.numTang, false, c.tofMash);
  return pdi;
}
static void emit_cmp(vh::Trace& tr, const Cfg& ca, const ProjDataInfo& a, const Cfg& cb, const ProjDataInfo& b, const std::string& how) {
  const auto* pa = dynamic_cast<const ProjDataInfoCylindrical*>(&a);
  const auto* pb = dynamic_cast<const ProjDataInfoCylindrical*>(&b);
  if (!pa || !pb) return;
  tr.emit(vh::Json("Cmp").str("how", how).raw("a", cfg_object(ca, *pa, "a")).raw("b", cfg_object(cb, *pb, "b"))
          .boolean("ge", a >= b).boolean("le", b >= a).boolean("eq", a == b).boolean("ne", a != b));
}
static void record_cmps(vh::Trace& tr, const Cfg& c, const shared_ptr<ProjDataInfo>& pdi, vh::Rng& rng) {
  const auto* cyl = dynamic_cast<const ProjDataInfoCylindrical*>(pdi.get());
  emit_cmp(tr, c, *pdi, c, *pdi, "self");
  std::string msg;
  { // a copy
    shared_ptr<ProjDataInfo> q(pdi->clone());
    emit_cmp(tr, c, *pdi, c, *q, "clone");
  }
  if (pdi->get_max_segment_num() > pdi->get_min_segment_num()) { // fewer segments (any sub-range containing segment 0)
    shared_ptr<ProjDataInfo> q(pdi->clone());
    const int lo = rng.range(pdi->get_min_segment_num(), 0), hi = rng.range(0, pdi->get_max_segment_num());
    q->reduce_segment_range(lo, hi);
    emit_cmp(tr, c, *pdi, c, *q, "segrange");
    if (pdi->get_num_tangential_poss() > 2) {
      q->set_min_tangential_pos_num(pdi->get_min_tangential_pos_num() + 1);
      emit_cmp(tr, c, *pdi, c, *q, "segrange+tang");
      // neither contains the other: p2 has fewer tangential positions at the other end
      shared_ptr<ProjDataInfo> p2(pdi->clone());
      p2->set_max_tangential_pos_num(pdi->get_max_tangential_pos_num() - 1);
      emit_cmp(tr, c, *p2, c, *q, "incomparable");
    }
  }
  if (pdi->get_num_tangential_poss() > 1) { // fewer tangential positions
    shared_ptr<ProjDataInfo> q(pdi->clone());
    if (rng.coin()) q->set_max_tangential_pos_num(pdi->get_max_tangential_pos_num() - 1); else q->set_min_tangential_pos_num(pdi->get_min_tangential_pos_num() + 1);
    emit_cmp(tr, c, *pdi, c, *q, "tang");
  }
  // other constructions over the SAME scanner: another maximum ring difference / span / layout / mashing / TOF mashing
  for (int kind = 0; kind < 5; ++kind) {
    Cfg d = c;
    if (kind == 0) { if (c.maxDelta < 1) continue; d.maxDelta = c.maxDelta - 1; if (d.ge && d.maxDelta < 1) continue; if (!d.ge && d.maxDelta < (d.span % 2 ? (d.span - 1) / 2 : d.span / 2)) continue; }
    if (kind == 1) { if (c.ge) { d.ge = false; d.span = 3; } else d.span = c.span + 1; if (d.span > 2 * d.R - 1 || d.maxDelta < (d.span % 2 ? (d.span - 1) / 2 : d.span / 2)) continue; }
    if (kind == 2) { if (c.geom != "Cylindrical") continue; d.mash = c.mash == 1 ? ((c.N / 2) % 2 == 0 ? 2 : ((c.N / 2) % 3 == 0 ? 3 : 1)) : 1; if (d.mash == c.mash) continue; }
    if (kind == 3) { if (c.maxT <= 0) continue; d.tofMash = c.tofMash == 0 ? 1 : 0; if (d.tofMash == 1 && c.maxT % 2 == 0) continue; }
    if (kind == 4) { if (c.numTang < 2) continue; d.numTang = c.numTang - 1; }
    shared_ptr<ProjDataInfo> q;
    if (vh::threw([&] { q = construct(d, pdi->get_scanner_sptr()); if (c.segReduce > 0 && !c.asym && q->get_max_segment_num() >= c.segReduce) q->reduce_segment_range(-(q->get_max_segment_num() - c.segReduce), q->get_max_segment_num() - c.segReduce); }, &msg)) continue;
    if (c.asym || (c.segReduce > 0 && q->get_max_segment_num() < c.segReduce)) continue;
    static const char* how[5] = { "maxdelta-1", "other-span", "other-mash", "other-tofmash", "numtang-1" };
    emit_cmp(tr, c, *pdi, d, *q, how[kind]);
  }
  (void)cyl;
}

// ------------------------------------------------------------------ one object changed in place
// picks a change the classes document as legal for the CURRENT state of *p, applies it, updates the description c.
// Returns false if no change of that kind is possible.
static bool apply_change(int kind, Cfg& c, ProjDataInfoCylindricalNoArcCorr* p, After& af, vh::Rng& rng) {
  af.prev = cfg_object(c, *p, "prev");
  if (kind == 0) { // number of views <-> view mashing
    std::vector<int> ms;
    for (int m = 1; m <= c.N / 2; ++m) if ((c.N / 2) % m == 0 && m != c.mash && m <= 6) ms.push_back(m);
    if (ms.empty()) return false;
    const int m = rng.pick(ms);
    af.what = "views"; af.x = c.N / 2 / m; af.y = 0;
    p->set_num_views(af.x);
    c.mash = m;
    return true;
  }
  if (kind == 1) { // tangential range: any sub-range of the positions of two different detectors
    const int lim = c.N / 2 - 1;
    int lo = rng.range(-lim, lim), hi = rng.range(-lim, lim);
    if (lo > hi) std::swap(lo, hi);
    if (lo == p->get_min_tangential_pos_num() && hi == p->get_max_tangential_pos_num()) return false;
    af.what = "tang"; af.x = lo; af.y = hi;
    p->set_min_tangential_pos_num(lo); p->set_max_tangential_pos_num(hi);
    return true;
  }
  if (kind == 2) { // TOF mashing factor
    if (c.maxT <= 0) return false;
    std::vector<int> ms = { 0 };
    for (int m = 1; m <= c.maxT; ++m) if ((c.maxT / m) % 2 == 1) ms.push_back(m);
    const int m = rng.pick(ms);
    if (m == p->get_tof_mash_factor()) return false;
    af.what = "tofmash"; af.x = m; af.y = 0;
    p->set_tof_mash_factor(m);
    c.tofMash = m;
    return true;
  }
  if (kind == 3) { // segment range: any sub-range that keeps segment 0
    if (p->get_max_segment_num() == p->get_min_segment_num()) return false;
    const int lo = rng.range(p->get_min_segment_num(), 0), hi = rng.range(0, p->get_max_segment_num());
    if (lo == p->get_min_segment_num() && hi == p->get_max_segment_num()) return false;
    af.what = "segrange"; af.x = lo; af.y = hi;
    p->reduce_segment_range(lo, hi);
    c.asym = true;
    return true;
  }
  if (kind == 4) { // ring differences of the two outermost segments: another maximum ring difference
    const int S = p->get_max_segment_num();
    if (S < 1 || p->get_min_segment_num() != -S || c.ge || c.asym || c.segReduce > 0) return false;
    const int first = p->get_min_ring_difference(S);
    const int last = std::min(c.R - 1, first + c.span - 1);
    if (last <= first) return false;
    int x = rng.range(first, last);
    if (x == p->get_max_ring_difference(S)) x = x == last ? x - 1 : x + 1;
    af.what = "maxdelta"; af.x = x; af.y = 0;
    // the two members are called one after the other, in seeded order, and the object is USED in between (so that its
    // lazy tables are rebuilt for the intermediate state, which is not recorded): each call on its own must invalidate them
    auto use = [&] { int s = 0, a = 0; long sink = p->get_segment_axial_pos_num_for_ring_pair(s, a, 0, c.R - 1) == Succeeded::yes; sink += (long)p->get_all_ring_pairs_for_segment_axial_pos_num(0, 0).size(); return sink; };
    if (rng.coin()) { p->set_max_ring_difference(x, S); use(); p->set_min_ring_difference(-x, -S); }
    else { p->set_min_ring_difference(-x, -S); use(); p->set_max_ring_difference(x, S); }
    c.maxDelta = x;
    return true;
  }
  return false;
}

static void run_cfg(vh::Trace& tr, const Cfg& c0, const std::string& name, long budget, vh::Rng& rng, bool exh, shared_ptr<Scanner> sc = nullptr, int alias_kind = 0, int extras = 0) {
  Cfg c = c0;
  std::string msg;
  shared_ptr<ProjDataInfo> pdi;
  int maxBins = -1;
  bool bad = vh::threw([&] {
    if (!sc) sc = make_any_scanner(c.N, c.R, c.maxT, c.geom);
    maxBins = sc->get_max_num_non_arccorrected_bins();
    pdi = construct(c, sc);
    if (c.asym) pdi->reduce_segment_range(std::max(c.segLo, pdi->get_min_segment_num()), std::min(c.segHi, pdi->get_max_segment_num()));
    else if (c.segReduce > 0 && pdi->get_max_segment_num() >= c.segReduce)
      pdi->reduce_segment_range(-(pdi->get_max_segment_num() - c.segReduce), pdi->get_max_segment_num() - c.segReduce);
  }, &msg);
  if (bad) {
    tr.emit(vh::Json("ConfigRejected").str("name", name).str("geom", c.geom).num("N", c.N).num("R", c.R).num("span", c.span).boolean("ge", c.ge).num("maxDelta", c.maxDelta)
            .num("mash", c.mash).num("tofMash", c.tofMash).num("maxT", c.maxT).num("numTang", c.numTang).num("maxBins", maxBins).str("msg", msg));
    return;
  }
  if (auto* p = dynamic_cast<ProjDataInfoCylindricalNoArcCorr*>(pdi.get())) {
    record(tr, c, *p, name, budget, rng, exh);
    if (alias_kind > 0) {
      // History: derive other objects from this one (clone / copy / SSRB), change and USE them (which makes them
      // build their own lazy tables), then ask the ORIGINAL object everything again.  Nothing is recorded for the
      // derived objects; the second set of answers is recorded under the same Config and must be explained like the first.
      std::string m2;
      vh::threw([&] {
        for (int round = 0; round < 2; ++round) {
          shared_ptr<ProjDataInfo> q;
          if ((alias_kind + round) % 3 == 0) {
            q.reset(p->clone());
            if (q->get_max_segment_num() >= 1 && q->get_min_segment_num() == -q->get_max_segment_num()) q->reduce_segment_range(-(q->get_max_segment_num() - 1), q->get_max_segment_num() - 1);
          } else if ((alias_kind + round) % 3 == 1) {
            q.reset(SSRB(*p, std::min(3, p->get_num_segments() | 1), 1, 0));
          } else {
            auto* cp = new ProjDataInfoCylindricalNoArcCorr(*p);
            q.reset(cp);
            for (int s = cp->get_min_segment_num(); s <= cp->get_max_segment_num(); ++s)
              if (s != 0 && cp->get_max_ring_difference(s) > cp->get_min_ring_difference(s)) {
                if (s > 0) cp->set_max_ring_difference(cp->get_max_ring_difference(s) - 1, s);
                else cp->set_min_ring_difference(cp->get_min_ring_difference(s) + 1, s);
              }
          }
          auto* qc = dynamic_cast<ProjDataInfoCylindrical*>(q.get());
          long sink = 0;
          for (int s = qc->get_min_segment_num(); s <= qc->get_max_segment_num(); ++s)
            for (int a = qc->get_min_axial_pos_num(s); a <= qc->get_max_axial_pos_num(s); ++a)
              sink += (long)qc->get_all_ring_pairs_for_segment_axial_pos_num(s, a).size();
          for (int r1 = 0; r1 < c.R; ++r1) for (int r2 = 0; r2 < c.R; ++r2) { int s = 0, a = 0; sink += qc->get_segment_axial_pos_num_for_ring_pair(s, a, r1, r2) == Succeeded::yes; }
          if (auto* qn = dynamic_cast<ProjDataInfoCylindricalNoArcCorr*>(q.get())) {
            int v = 0, tp = 0; sink += qn->get_view_tangential_pos_num_for_det_num_pair(v, tp, 0, c.N / 2);
            Bin b(0, 0, 0, 0); DetectionPositionPair<> dp; qn->get_det_pos_pair_for_bin(dp, b); sink += dp.pos1().tangential_coord();
          }
          if (sink == -12345) tr.emit(vh::Json("Never"));
        }
      }, &m2);
      record(tr, c, *p, name + "+after-derived-objects", budget, rng, exh);
    }
    if (extras & 1) record_subsets(tr, c, pdi, name, budget, rng);
    if (extras & 2) record_cmps(tr, c, pdi, rng);
    if (extras & 4) {
      // History: the SAME object is changed in place, several times; after every change everything is asked again
      int done = 0;
      for (int attempt = 0; attempt < 8 && done < 3; ++attempt) {
        After af;
        Cfg before = c;
        std::string m3;
        bool ok = false;
        const int kind = attempt == 0 ? 4 : rng.range(0, 4);   // (the ring-difference change first: it is possible least often)
        if (vh::threw([&] { ok = apply_change(kind, c, p, af, rng); }, &m3)) {
          tr.emit(vh::Json("SetRejected").str("what", af.what).num("x", af.x).num("y", af.y).raw("prev", af.prev).str("msg", m3));
          c = before;
          break;   // the object may be half changed: leave it alone
        }
        if (!ok) continue;
        ++done;
        record(tr, c, *p, name + "+after-" + af.what, std::max(20L, budget / 2), rng, exh, &af);
      }
    }
  }
  else if (auto* g = dynamic_cast<ProjDataInfoGenericNoArcCorr*>(pdi.get())) {
    record(tr, c, *g, name, budget, rng, exh);
    if (extras & 1) record_subsets(tr, c, pdi, name, budget, rng);
    if (extras & 2) record_cmps(tr, c, pdi, rng);
  }
}

// ------------------------------------------------------------------ comparisons of positions, pairs, bins
static void record_comparisons(vh::Trace& tr, vh::Rng& rng, int n) {
  auto pos = [&](int span) { return DetectionPosition<>(rng.range(0, span), rng.range(0, span), rng.range(0, span)); };
  auto plist = [](const DetectionPosition<>& p) { return std::vector<int>{ (int)p.tangential_coord(), (int)p.axial_coord(), (int)p.radial_coord() }; };
  for (int i = 0; i < n; ++i) {
    const int span = rng.range(0, 3) == 0 ? 300 : 1;
    DetectionPosition<> x = pos(span), y = rng.range(0, 4) == 0 ? x : pos(span);
    tr.emit(vh::Json("DPCmp").arr("x", plist(x)).arr("y", plist(y)).boolean("lt", x < y).boolean("gt", y < x).boolean("eq", x == y).boolean("ne", x != y));
  }
  for (int i = 0; i < n; ++i) {
    const int span = rng.range(0, 3) == 0 ? 300 : 1;
    DetectionPositionPair<> p(pos(span), pos(span), rng.range(-2, 2)), q;
    switch (rng.range(0, 4)) {
    case 0: q = p; break;
    case 1: q = DetectionPositionPair<>(p.pos2(), p.pos1(), -p.timing_pos()); break;
    case 2: q = DetectionPositionPair<>(p.pos2(), p.pos1(), p.timing_pos()); break;
    case 3: q = DetectionPositionPair<>(p.pos1(), p.pos2(), -p.timing_pos()); break;
    default: q = DetectionPositionPair<>(pos(span), pos(span), rng.range(-2, 2));
    }
    tr.emit(vh::Json("DPPCmp").arr("p1", plist(p.pos1())).arr("p2", plist(p.pos2())).num("pt", p.timing_pos())
            .arr("q1", plist(q.pos1())).arr("q2", plist(q.pos2())).num("qt", q.timing_pos()).boolean("eq", p == q).boolean("ne", p != q));
  }
  auto bin = [&]() { Bin b(rng.range(-1, 1), rng.range(0, 2), rng.range(0, 1), rng.range(-1, 1), rng.range(-1, 1), (float)rng.range(0, 1)); b.time_frame_num() = rng.range(1, 2); return b; };
  auto brec = [](const Bin& b) { vh::Json j; emit_bin(j, b); j.num("frame", b.time_frame_num()).num("val", (long long)b.get_bin_value()); return j.done(); };
  for (int i = 0; i < n; ++i) {
    Bin x = bin(), y = bin();
    const int k = rng.range(0, 7);
    if (k == 0) y = x;
    if (k == 1) { y = x; y.axial_pos_num() += 1; }
    if (k == 2) { y = x; y.tangential_pos_num() += 1; }
    if (k == 3) { y = x; y.time_frame_num() += 1; }
    if (k == 4) { y = x; y.set_bin_value(x.get_bin_value() + 1); }
    if (k == 5) { y = x; y.timing_pos_num() += 1; }
    tr.emit(vh::Json("BinCmp").raw("x", brec(x)).raw("y", brec(y)).boolean("eq", x == y).boolean("ne", x != y).boolean("lt", x < y).boolean("gt", y < x));
  }
}

// ------------------------------------------------------------------ scanners: parameters, consistency, equality
static std::string scanner_object(const Scanner& sc) {
  vh::Json j;
  j.str("name", sc.get_name()).num("type", (int)sc.get_type()).str("geom", sc.get_scanner_geometry()).num("N", sc.get_num_detectors_per_ring()).num("R", sc.get_num_rings())
      .num("maxBins", sc.get_max_num_non_arccorrected_bins()).num("defBins", sc.get_default_num_arccorrected_bins())
      .num("tBlocksPerBucket", sc.get_num_transaxial_blocks_per_bucket()).num("aBlocksPerBucket", sc.get_num_axial_blocks_per_bucket())
      .num("tCrysPerBlock", sc.get_num_transaxial_crystals_per_block()).num("aCrysPerBlock", sc.get_num_axial_crystals_per_block())
      .num("tCrysPerSU", sc.get_num_transaxial_crystals_per_singles_unit()).num("aCrysPerSU", sc.get_num_axial_crystals_per_singles_unit())
      .num("layers", sc.get_num_detector_layers()).num("aVirt", sc.get_num_virtual_axial_crystals_per_block()).num("tVirt", sc.get_num_virtual_transaxial_crystals_per_block())
      .num("tCrysPerBucket", sc.get_num_transaxial_crystals_per_bucket()).num("aCrysPerBucket", sc.get_num_axial_crystals_per_bucket())
      .boolean("tofReady", sc.is_tof_ready()).num("maxT", sc.get_max_num_timing_poss())
      // floats as fixed point (1/1024 units)
      .num("radiusFx", vh::fx(sc.get_inner_ring_radius(), 10)).num("doiFx", vh::fx(sc.get_average_depth_of_interaction(), 10)).num("ringSpacingFx", vh::fx(sc.get_ring_spacing(), 10))
      .num("binSizeFx", vh::fx(sc.get_default_bin_size(), 10)).num("tiltFx", vh::fx(sc.get_intrinsic_azimuthal_tilt(), 10));
  // quotients are only defined when the divisor is set
  if (sc.get_num_transaxial_crystals_per_block() > 0) j.num("tBlocks", sc.get_num_transaxial_blocks()); else j.num("tBlocks", 0);
  if (sc.get_num_axial_crystals_per_block() > 0) j.num("aBlocks", sc.get_num_axial_blocks()); else j.num("aBlocks", 0);
  if (sc.get_num_transaxial_crystals_per_block() > 0 && sc.get_num_transaxial_blocks_per_bucket() > 0) j.num("tBuckets", sc.get_num_transaxial_buckets()); else j.num("tBuckets", 0);
  if (sc.get_num_axial_crystals_per_block() > 0 && sc.get_num_axial_blocks_per_bucket() > 0) j.num("aBuckets", sc.get_num_axial_buckets()); else j.num("aBuckets", 0);
  return j.done();
}
static void record_scanner(vh::Trace& tr, const Scanner& sc, bool predefined) {
  bool ok = false; std::string msg;
  const bool th = vh::threw([&] { ok = sc.check_consistency() == Succeeded::yes; }, &msg);
  tr.emit(vh::Json("Scanner").boolean("predefined", predefined).raw("s", scanner_object(sc)).boolean("consistent", ok).boolean("err", th));
}
// user-defined cylindrical non-TOF scanner with the given block structure (which may or may not be consistent)
static shared_ptr<Scanner> make_block_scanner(int N, int R, int abpb, int tbpb, int acpb, int tcpb, int acsu, int tcsu, int maxT = 0, float radius = 100.F) {
  if (maxT > 0)
    return shared_ptr<Scanner>(new Scanner(Scanner::User_defined_scanner, "blocky", N, R, N - 1, N - 1, radius, 0.F, 4.F, 3.F, 0.F, abpb, tbpb, acpb, tcpb, acsu, tcsu, 1,
                                           0.1F, 511.F, (short)maxT, 400.F, 600.F));
  return shared_ptr<Scanner>(new Scanner(Scanner::User_defined_scanner, "blocky", N, R, N - 1, N - 1, radius, 0.F, 4.F, 3.F, 0.F, abpb, tbpb, acpb, tcpb, acsu, tcsu, 1));
}
static void record_generated_scanners(vh::Trace& tr, vh::Rng& rng, int n) {
  std::vector<shared_ptr<Scanner>> scs;
  for (int i = 0; i < n; ++i) {
    const int tcpb = rng.range(1, 4), tbpb = rng.range(1, 3), tbuckets = rng.range(1, 4), acpb = rng.range(1, 3), abpb = rng.range(1, 2), abuckets = rng.range(1, 2);
    int N = tcpb * tbpb * tbuckets * 2, R = acpb * abpb * abuckets;
    int acsu = rng.pick(std::vector<int>{ 0, 1, acpb, acpb * abpb }), tcsu = rng.pick(std::vector<int>{ 0, 1, tcpb, tcpb * tbpb });
    // half of them are disturbed in one parameter
    const int disturb = rng.range(0, 9);
    if (disturb == 0) N += 2;
    if (disturb == 1) R += 1;
    if (disturb == 2) tcsu = tcpb * tbpb + 1;
    if (disturb == 3) acsu = acpb * abpb + 1;
    if (disturb == 4) N += 2 * tcpb;       // blocks no longer a multiple of blocks per bucket (when tbpb > 1)
    shared_ptr<Scanner> sc;
    std::string msg;
    const int maxT = rng.range(0, 3) == 0 ? 5 : 0;
    if (vh::threw([&] { sc = make_block_scanner(N, R, abpb, tbpb, acpb, tcpb, acsu, tcsu, maxT); }, &msg)) continue;
    record_scanner(tr, *sc, false);
    scs.push_back(sc);
  }
  // equality of scanners: every generated scanner with a copy of itself, with its successor, and with a copy changed in ONE parameter
  for (size_t i = 0; i < scs.size(); ++i) {
    const Scanner& a = *scs[i];
    Scanner copy(a);
    tr.emit(vh::Json("ScCmp").raw("a", scanner_object(a)).raw("b", scanner_object(copy)).boolean("eq", a == copy).boolean("ne", a != copy));
    const Scanner& b = *scs[(i + 1) % scs.size()];
    tr.emit(vh::Json("ScCmp").raw("a", scanner_object(a)).raw("b", scanner_object(b)).boolean("eq", a == b).boolean("ne", a != b));
    Scanner d(a);
    switch (rng.range(0, 5)) {
    case 0: d.set_num_rings(a.get_num_rings() + 1); break;
    case 1: d.set_num_detectors_per_ring(a.get_num_detectors_per_ring() + 2); break;
    case 2: d.set_num_axial_crystals_per_block(a.get_num_axial_crystals_per_block() + 1); break;
    case 3: d.set_num_transaxial_blocks_per_bucket(a.get_num_transaxial_blocks_per_bucket() + 1); break;
    case 4: d.set_max_num_non_arccorrected_bins(a.get_max_num_non_arccorrected_bins() + 1); break;
    default: d.set_inner_ring_radius(a.get_inner_ring_radius() + 8.F); break;
    }
    tr.emit(vh::Json("ScCmp").raw("a", scanner_object(a)).raw("b", scanner_object(d)).boolean("eq", a == d).boolean("ne", a != d));
  }
}
// equality of two data descriptions over DIFFERENT scanners that happen to have the same number of views, tangential
// positions, segments, axial positions (view mashing 2 on twice the detectors), same radius: "check equality"
static void record_cross_scanner_cmp(vh::Trace& tr, int maxT) {
  for (int N : { 64, 96 }) {
    Cfg ca; ca.N = N; ca.R = 2; ca.span = 1; ca.maxDelta = 1; ca.mash = 1; ca.tofMash = maxT > 0 ? 1 : 0; ca.maxT = maxT; ca.numTang = 31; ca.segReduce = 0; ca.ge = false; ca.geom = "Cylindrical";
    Cfg cb = ca; cb.N = 2 * N; cb.mash = 2;
    std::string msg;
    vh::threw([&] {
      shared_ptr<Scanner> sa = make_block_scanner(ca.N, ca.R, 1, 1, 1, 1, 1, 1, maxT, 300.F), sb = make_block_scanner(cb.N, cb.R, 1, 1, 1, 1, 1, 1, maxT, 300.F);
      sb->set_max_num_non_arccorrected_bins(sa->get_max_num_non_arccorrected_bins()); sb->set_default_num_arccorrected_bins(sa->get_default_num_arccorrected_bins());
      shared_ptr<ProjDataInfo> a = construct(ca, sa), b = construct(cb, sb);
      tr.emit(vh::Json("ScCmp").raw("a", scanner_object(*sa)).raw("b", scanner_object(*sb)).boolean("eq", *sa == *sb).boolean("ne", *sa != *sb));
      emit_cmp(tr, ca, *a, cb, *b, "other-scanner");
    }, &msg);
  }
}

int main(int argc, char** argv) {
  if (argc < 4) return 2;
  vh::install_terminate(); vh::quiet();
  if (!getenv("VERIF_STDERR")) { if (!freopen("/dev/null", "w", stderr)) return 3; }
  std::string mode = argv[1];
  vh::Trace tr(argv[2]);
  { std::string o = argv[2]; auto k = o.find_last_of('/'); g_dir = k == std::string::npos ? "." : o.substr(0, k); }
  long budget = atol(argv[3]);
  vh::Rng rng(vh::seed_from_env());
  if (mode == "small") {
    int stage = argc > 4 ? atoi(argv[4]) : 0;   // 0: quick family, 1: thorough family
    std::vector<int> Ns = stage ? std::vector<int>{ 4, 6, 8, 10, 12, 14, 16, 18, 20, 24 } : std::vector<int>{ 4, 6, 8, 10, 12 };
    int maxR = stage ? 5 : 4;
    const int thin = stage ? 7 : 12;
    for (int N : Ns)
      for (int R = 1; R <= maxR; ++R)
        for (int layout = 0; layout <= 2 * R; ++layout) {      // 0 = GE, else span = layout
          for (int maxDelta = 0; maxDelta <= R - 1; ++maxDelta)
            for (int mash = 1; mash <= 3; ++mash) {
              if ((N / 2) % mash) continue;
              for (int tof = 0; tof < 4; ++tof) {
                static const int TM[4] = { 0, 1, 3, 5 }, MT[4] = { 0, 5, 9, 5 };
                for (int trunc = 0; trunc < 3; ++trunc)       // 0: full ranges, 1: fewer tangential positions and segments, 2: asymmetric segment range
                  for (const char* geom : { "Cylindrical", "BlocksOnCylindrical", "Generic" }) {
                    Cfg c;
                    c.N = N; c.R = R; c.ge = layout == 0; c.span = c.ge ? 1 : layout; c.maxDelta = maxDelta; c.mash = mash;
                    c.tofMash = TM[tof]; c.maxT = MT[tof]; c.geom = geom;
                    c.numTang = trunc == 1 ? std::max(1, (N - 1) / 2) : N - 1;
                    c.segReduce = trunc == 1 ? 1 : 0;
                    if (trunc == 2) { c.asym = true; c.segLo = -rng.range(0, R); c.segHi = rng.range(0, R); if (maxDelta < 1) continue; }
                    if (c.ge && (maxDelta < 1)) continue;
                    if (!c.ge && (c.span > 2 * R - 1 || maxDelta < (c.span % 2 ? (c.span - 1) / 2 : c.span / 2))) continue;
                    // Generic/Blocks classes: documented as restricted to span 1, no view mashing, non-TOF
                    if (std::string(geom) != "Cylindrical" && (c.tofMash != 0 || N < 8 || c.span != 1 || c.ge || mash != 1)) continue;
                    // thin the product: keep all axial layouts for one in-plane setting and vice versa
                    bool keep = (mash == 1 && tof == 0 && trunc == 0) || (layout <= 3 && maxDelta == R - 1 && trunc < 2) || rng.range(0, thin) == 0;
                    if (!keep) continue;
                    // every third cylindrical configuration with more than one segment: also the aliasing history
                    const bool cylg = std::string(geom) == "Cylindrical";
                    const int alias_kind = (cylg && R >= 2 && maxDelta >= 1 && rng.range(0, 2) == 0) ? 1 + rng.range(0, 2) : 0;
                    // every fourth configuration: view subsets; every fourth: equality/order; every third cylindrical one: changed in place
                    int extras = 0;
                    if (rng.range(0, 3) == 0) extras |= 1;
                    if (rng.range(0, 3) == 0) extras |= 2;
                    if (cylg && rng.range(0, 2) == 0) extras |= 4;
                    run_cfg(tr, c, "gen", budget, rng, true, nullptr, alias_kind, extras);
                  }
              }
            }
        }
    record_comparisons(tr, rng, stage ? 3000 : 800);
    record_generated_scanners(tr, rng, stage ? 400 : 120);
    record_cross_scanner_cmp(tr, 0);
    record_cross_scanner_cmp(tr, 5);
  } else if (mode == "db") {
    // every predefined scanner: parameters and consistency
    std::vector<shared_ptr<Scanner>> all;
    for (int t = Scanner::E931; t < Scanner::User_defined_scanner; ++t) {
      shared_ptr<Scanner> sc;
      std::string msg;
      if (vh::threw([&] { sc.reset(new Scanner(static_cast<Scanner::Type>(t))); }, &msg)) continue;
      if (sc->get_type() == Scanner::Unknown_scanner) continue;
      record_scanner(tr, *sc, true);
      all.push_back(sc);
    }
    for (size_t i = 0; i < all.size(); ++i) {
      Scanner copy(*all[i]);
      tr.emit(vh::Json("ScCmp").raw("a", scanner_object(*all[i])).raw("b", scanner_object(copy)).boolean("eq", *all[i] == copy).boolean("ne", *all[i] != copy));
      const Scanner& b = *all[(i + 1) % all.size()];
      tr.emit(vh::Json("ScCmp").raw("a", scanner_object(*all[i])).raw("b", scanner_object(b)).boolean("eq", *all[i] == b).boolean("ne", *all[i] != b));
    }
    // every predefined scanner with a cylindrical discrete-detector layout, several samplings each
    for (auto& sc : all) {
      if (sc->get_type() == Scanner::HiDAC) continue;
      const int N = sc->get_num_detectors_per_ring(), R = sc->get_num_rings();
      if (N < 4 || N % 2 || R < 1) continue;
      if (sc->get_scanner_geometry() != "Cylindrical") continue;
      for (int variant = 0; variant < 8; ++variant) {
        Cfg c; c.N = N; c.R = R; c.geom = "Cylindrical"; c.ge = false; c.segReduce = 0;
        c.maxT = sc->is_tof_ready() ? sc->get_max_num_timing_poss() : 0;
        c.numTang = std::min(sc->get_max_num_non_arccorrected_bins(), N - 1);
        c.mash = 1; c.tofMash = 0; c.span = 1; c.maxDelta = R - 1;
        int extras = 0;
        if (variant == 0) extras = 1 | 2;
        if (variant == 1) { c.span = std::min(2 * R - 1, 3); c.maxDelta = std::min(R - 1, std::max(1, (R - 1) / 3 * 3 + 1)); if (c.maxDelta < 1) continue; for (int m : { 2, 3, 4, 5 }) if ((N / 2) % m == 0) { c.mash = m; break; } extras = 4; }
        if (variant == 2) { c.span = std::min(2 * R - 1, 11); if (c.span % 2 == 0) c.span--; c.maxDelta = R - 1; if (c.maxDelta < (c.span - 1) / 2) continue; c.numTang = std::max(1, c.numTang / 2); extras = 2; }
        if (variant == 3) { if (c.maxT <= 0) continue; int m = 1; for (int k : { 3, 5, 9, 11, 13 }) if (c.maxT % k == 0 && (c.maxT / k) % 2 == 1) { m = k; break; } if ((c.maxT / m) % 2 == 0) continue; c.tofMash = m; c.span = 1; c.maxDelta = std::min(R - 1, 3); extras = 4; }
        // even spans: 2 with every ring difference, and a larger one with a reduced maximum ring difference
        if (variant == 4) { if (R < 2) continue; c.span = 2; c.maxDelta = R - 1; c.numTang = std::max(1, c.numTang / 3); }
        if (variant == 5) { if (R < 5) continue; c.span = std::min(2 * R - 2, rng.pick(std::vector<int>{ 4, 6, 8 })); c.span -= c.span % 2; c.maxDelta = std::min(R - 1, c.span / 2 + rng.range(1, 2) * c.span); for (int m : { 2, 3, 4 }) if ((N / 2) % m == 0) { c.mash = m; break; } extras = 1; }
        // the mixed 'GE' layout
        if (variant == 6) { if (R < 3) continue; c.ge = true; c.span = 1; c.maxDelta = std::min(R - 1, rng.range(2, 7)); if (sc->is_tof_ready() && (c.maxT % 2 == 1)) c.tofMash = 1; }
        // asymmetric segment range, few tangential positions
        if (variant == 7) { if (R < 4) continue; c.span = rng.pick(std::vector<int>{ 1, 3 }); c.maxDelta = std::min(R - 1, 7); c.asym = true; c.segLo = -rng.range(0, 2); c.segHi = rng.range(1, 3); c.numTang = std::max(1, c.numTang / 4); }
        shared_ptr<Scanner> sc2(new Scanner(*sc));
        run_cfg(tr, c, sc->get_name(), budget, rng, false, sc2, 0, extras);
      }
    }
    // generated big rings
    int k = 0;
    for (int N : { 32, 64, 100, 256, 500, 720, 1000 })
      for (int R : { 1, 2, 7 }) {
        Cfg c; c.N = N; c.R = R; c.geom = "Cylindrical"; c.ge = false; c.segReduce = 0; c.maxT = 13; c.numTang = N - 1;
        c.mash = rng.pick(std::vector<int>{ 1, 2, 4, 5 }); if ((N / 2) % c.mash) c.mash = 1;
        c.tofMash = rng.pick(std::vector<int>{ 0, 1, 13 });
        c.span = R > 1 ? rng.pick(std::vector<int>{ 1, 2, 3, 4 }) : 1; c.maxDelta = R - 1;
        if (c.maxDelta < c.span / 2) c.span = 1;
        if (c.span > 2 * R - 1) c.span = 1;
        ++k;
        if (R == 7 && k % 2 == 0) { c.ge = true; c.span = 1; c.maxDelta = rng.range(2, 6); }
        // tangential truncation on big rings: a third of them keep only a few positions
        if (k % 3 == 0) c.numTang = std::max(3, N / rng.pick(std::vector<int>{ 4, 8, 16 }));
        if (k % 4 == 1 && R == 7) { c.asym = true; c.segLo = -1; c.segHi = 2; }
        run_cfg(tr, c, "big", budget, rng, false, nullptr, 0, k % 2 ? 4 : 1);
      }
  }
  return 0;
}
