// C03 driver: records (a) what DataSymmetriesForBins_PET_CartesianGrid answers for every bin under every
// requested switch setting ("sym"), (b) the rows ProjMatrixByBinUsingRayTracing returns along seeded
// request histories with cache-mode changes, clear_cache and re-set_up, together with the cache call-outs
// and the rows of a reference matrix without symmetries and cache ("rows").
// No property formula here: TLC (Trace_Symmetries.tla, Trace_MatrixCache.tla) decides.
//   c03_matrix sym  <out.ndjson> <tier 0|1>
//   c03_matrix rows <out.ndjson> <tier 0|1> [family-index]
//   c03_matrix rowops <out.ndjson> <tier 0|1>                 operations on ProjMatrixElemsForOneBin rows
//   c03_matrix count <out.ndjson> <tier 0|1>                  number of families of the rows mode
#include "c03_matrix_common.h"
#include <map>
using namespace stir;
using namespace c03;
C03_DEFINE_HOOK

struct GeomSpec { DataCfg d; GridCfg g; MatOpt o; };
static MatOpt O(int ntl, bool uadb = false, bool cyl = true) { MatOpt o; o.ntl = ntl; o.uadb = uadb; o.cyl = cyl; return o; }

// ------------------------------------------------------------------------------------------- sym
static int g_sym_stride = 1;   // quick tier: every g_sym_stride-th requested switch setting (plus none and all) after the first configuration
static void sym_config(vh::Trace& tr, const DataCfg& d, const GridCfg& g, bool per_bin, long& id) {
  shared_ptr<ProjDataInfo> pdi = make_pdi(d);
  const ProjDataInfoCylindrical& cyl = dynamic_cast<const ProjDataInfoCylindrical&>(*pdi);
  shared_ptr<VoxelsOnCartesianGrid<float>> im = make_image(*pdi, g);
  const std::vector<Bin> bins = all_bins(*pdi);
  for (int mask = 0; mask < 32; ++mask) {
    if (id > 0 && mask != 0 && mask != 31 && mask != 16 && (mask + id / 32) % g_sym_stride != 0) continue;
    const Sw sw = sw_from_bits(mask);
    shared_ptr<DataSymmetriesForBins_PET_CartesianGrid> sym;
    std::string msg;
    if (vh::threw([&] { sym.reset(new DataSymmetriesForBins_PET_CartesianGrid(pdi, im, sw.s90, sw.s180, sw.sseg, sw.ss, sw.sz)); }, &msg)) {
      tr.emit(vh::Json("SymRejected").num("id", ++id).str("msg", msg));
      return;
    }
    vh::Json j("SymCfg");
    j.num("id", ++id);
    emit_geometry(j, d, cyl, *im);
    j.arr("sw", sw_list(sw));
    j.arr("eff", std::vector<int>{ sym->using_symmetry_90degrees_min_phi(), sym->using_symmetry_180degrees_min_phi(),
                                   sym->using_symmetry_swap_segment(), sym->using_symmetry_swap_s(), sym->using_symmetry_shift_z() });
    // the implementation's relation between axial positions and image planes / ring coordinates
    j.num("npprObs", vh::fx(sym->get_num_planes_per_scanner_ring(), 0));
    std::vector<std::vector<long long>> ax;
    for (int s = pdi->get_min_segment_num(); s <= pdi->get_max_segment_num(); ++s) {
      std::vector<long long> l{ s, vh::fx(sym->get_num_planes_per_axial_pos(s), 0), vh::fx(sym->get_axial_pos_to_z_offset(s), 2) };
      // axial middle of every axial position in half ring spacings from the centre of the scanner (x4 fixed point)
      for (int a = pdi->get_min_axial_pos_num(s); a <= pdi->get_max_axial_pos_num(s); ++a)
        l.push_back(vh::fx(cyl.get_m(Bin(s, 0, a, 0)) / (cyl.get_ring_spacing() / 2), 2));
      ax.push_back(l);
    }
    j.arr2("axial", ax);
    // azimuthal angle of every view in units of pi / (detectors per ring) (x 2^10): shows the offset that view mashing adds
    std::vector<long long> phis;
    for (int v = pdi->get_min_view_num(); v <= pdi->get_max_view_num(); ++v)
      phis.push_back(vh::fx(cyl.get_phi(Bin(0, v, 0, 0)) / (3.14159265358979323846 / pdi->get_scanner_ptr()->get_num_detectors_per_ring()), 10));
    j.arr("phiQ", phis);
    j.boolean("perBin", per_bin);
    tr.emit(j);
    if (!per_bin) continue;
    for (const Bin& b : bins) {
      Bin bb = b;
      const bool chg = sym->find_basic_bin(bb);
      Bin bb2 = b;
      unique_ptr<SymmetryOperation> op = sym->find_symmetry_operation_from_basic_bin(bb2);
      Bin tb = bb2;
      op->transform_bin_coordinates(tb);
      BasicCoordinate<3, int> p1 = make_coordinate(3, 2, 1), p2 = make_coordinate(0, 1, -2);
      op->transform_image_coordinates(p1);
      op->transform_image_coordinates(p2);
      tr.emit(vh::Json("Sym").arr("b", bin_list(b)).arr("bb", bin_list(bb)).arr("bb2", bin_list(bb2)).boolean("chg", chg)
                  .str("op", demangle(typeid(*op).name())).boolean("triv", op->is_trivial()).arr("tb", bin_list(tb))
                  .arr("p1", std::vector<int>{ p1[1], p1[2], p1[3] }).arr("p2", std::vector<int>{ p2[1], p2[2], p2[3] }));
      if (!chg && !pdi->is_tof_data()) {
        std::vector<Bin> rel;
        sym->get_related_bins(rel, b);
        std::vector<std::vector<int>> l;
        for (const Bin& r : rel) l.push_back(bin_list(r));
        tr.emit(vh::Json("Rel").arr("b", bin_list(b)).num("n", sym->num_related_bins(b)).arr2("rel", l));
      }
    }
  }
}

static void run_sym(vh::Trace& tr, int tier) {
  long id = 0;
  g_sym_stride = tier > 0 ? 1 : 3;
  auto D = [](int N, int R, int span, int maxDelta, int mash, int tofMash, int maxT, int numTang, float tilt = 0.F, const char* geom = "Cylindrical") {
    DataCfg d; d.N = N; d.R = R; d.span = span; d.maxDelta = maxDelta; d.mash = mash; d.tofMash = tofMash; d.maxT = maxT; d.numTang = numTang; d.tilt = tilt; d.geom = geom; return d; };
  auto G = [](int nx, int ny, int nz, float vx, float vy, int nppr, int oz, float ox = 0.F, float oy = 0.F) {
    GridCfg g; g.nx = nx; g.ny = ny; g.nz = nz; g.vx = vx; g.vy = vy; g.nppr = nppr; g.oz = oz; g.ox = ox; g.oy = oy; return g; };
  // full per-bin replay
  sym_config(tr, D(16, 3, 1, 2, 1, 0, 0, 7), G(15, 15, 5, 3.3F, 3.3F, 2, 0), true, id);
  sym_config(tr, D(12, 2, 1, 1, 1, 0, 0, 6), G(9, 9, 2, 3.F, 3.F, 1, 1), true, id);          // views = 6: no 90 degrees; even tangential count
  sym_config(tr, D(16, 4, 3, 3, 1, 0, 0, 5), G(8, 10, 7, 3.F, 3.F, 2, 0), true, id);          // span 3, last segment truncated (2..3)
  sym_config(tr, D(8, 2, 1, 1, 1, 1, 3, 3), G(9, 9, 3, 3.F, 3.F, 2, 0), true, id);            // TOF
  sym_config(tr, D(16, 2, 1, 1, 2, 0, 0, 5), G(9, 9, 6, 3.F, 3.F, 4, -1), true, id);          // view mashing, quarter-ring planes, shifted z origin
  sym_config(tr, D(16, 2, 1, 1, 1, 0, 0, 3), G(9, 9, 3, 3.F, 2.F, 2, 0), true, id);           // anisotropic voxels
  sym_config(tr, D(14, 2, 1, 1, 1, 0, 0, 3), G(9, 9, 3, 3.F, 3.F, 2, 0), true, id);           // odd number of views
  // guards only
  sym_config(tr, D(16, 2, 1, 1, 1, 0, 0, 3, 0.1F), G(9, 9, 3, 3.F, 3.F, 2, 0), true, id);     // intrinsic tilt
  sym_config(tr, D(16, 2, 1, 1, 1, 0, 0, 3), G(9, 9, 3, 3.F, 3.F, 2, 0, 3.F, 0.F), true, id); // shifted x origin
  sym_config(tr, D(16, 2, 1, 1, 1, 0, 0, 3, 0.F, "BlocksOnCylindrical"), G(9, 9, 3, 3.F, 3.F, 2, 0), false, id);
  // block geometry with several crystals per axial block: the shift_z algebra (per bin)
  { DataCfg d = D(8, 6, 1, 5, 1, 0, 0, 3, 0.F, "BlocksOnCylindrical"); d.cpb = 2; sym_config(tr, d, G(9, 9, 11, 3.F, 3.F, 2, 0), true, id); }
  { DataCfg d = D(8, 6, 1, 5, 1, 0, 0, 3, 0.F, "BlocksOnCylindrical"); d.cpb = 3; d.axial_gap = 1.F; sym_config(tr, d, G(9, 9, 11, 3.F, 3.F, 2, 0), false, id); }
  if (tier > 0) {
    sym_config(tr, D(32, 4, 1, 3, 1, 0, 0, 9), G(21, 21, 7, 2.F, 2.F, 2, 0), true, id);
    sym_config(tr, D(24, 3, 1, 1, 1, 0, 0, 8), G(12, 12, 9, 2.5F, 2.5F, 4, 2), true, id);     // reduced max ring difference
    sym_config(tr, D(32, 5, 3, 4, 1, 0, 0, 7), G(15, 15, 9, 2.F, 2.F, 2, 0), true, id);
    sym_config(tr, D(20, 6, 5, 5, 1, 0, 0, 5), G(11, 11, 11, 3.F, 3.F, 2, 1), true, id);      // span 5
    sym_config(tr, D(16, 3, 1, 2, 1, 3, 9, 5), G(9, 9, 5, 3.F, 3.F, 2, 0), true, id);          // TOF mashing 3 of 9
    sym_config(tr, D(24, 4, 3, 3, 3, 0, 0, 5), G(9, 9, 14, 3.F, 3.F, 4, 0), true, id);         // mash 3, span 3 (last segment 2..3), quarter-ring planes
    sym_config(tr, D(40, 2, 1, 1, 1, 0, 0, 11), G(25, 25, 3, 2.F, 2.F, 2, 0), true, id);
  }
}

// ------------------------------------------------------------------------------------------- rows
struct Family {
  std::string name;
  std::string impl;                // "RayTracing" | "Interpolation": class of the matrix under test (and of the reference)
  std::vector<GeomSpec> geoms;     // gid = index + 1; a geometry flagged `bad` must be refused by set_up
  int quick_masks;                 // quick tier: number of requested switch settings with a history (thorough: all 32)
  int passes;                      // number of full passes (1 or 2)
  bool all_mode = true;            // false: the "cache every row" mode is left out (block geometry, see notes/C03.md)
};

// matrix object of either class behind the ProjMatrixByBin interface
// (for a "FromFile" family this gives the ray-tracing matrix the file is written from / the reference)
static shared_ptr<ProjMatrixByBin> new_spectub(bool keep_all, bool cache_on, bool basic_only) {
  shared_ptr<ProjMatrixByBinSPECTUB> m(new ProjMatrixByBinSPECTUB);
  m->set_keep_all_views_in_cache(keep_all);
  m->set_attenuation_type("no");
  m->set_resolution_model(0.F, 0.F, false);
  m->enable_cache(cache_on);
  m->store_only_basic_bins_in_cache(basic_only);
  return m;
}
static shared_ptr<ProjMatrixByBin> new_matrix(const std::string& impl, const Sw& sw, bool cache_on, bool basic_only) {
  if (impl == "SPECTUB") return new_spectub(true, cache_on, basic_only);
  if (impl == "Interpolation") {
    shared_ptr<ProjMatrixByBinUsingInterpolation> m(new ProjMatrixByBinUsingInterpolation);
    parse_interpolation(*m, sw, cache_on, basic_only);
    return m;
  }
  return make_matrix(sw, 1, cache_on, basic_only);
}
static void options(ProjMatrixByBin& m, const MatOpt& o) {
  if (auto* rt = dynamic_cast<ProjMatrixByBinUsingRayTracing*>(&m)) apply_options(*rt, o);
}

struct Recorder {
  vh::Trace& tr;
  vh::Rng& rng;
  long cfg_line = 0;               // line number of the current Config line
  std::vector<shared_ptr<ProjDataInfo>> pdis;
  std::vector<shared_ptr<VoxelsOnCartesianGrid<float>>> ims;
  std::vector<std::vector<Bin>> bins;
  std::vector<std::map<std::vector<int>, long>> ref_line;   // per gid: bin -> line offset of its Ref line
  std::vector<bool> usable;                                   // per gid: a reference matrix could be set up
  Recorder(vh::Trace& t, vh::Rng& r) : tr(t), rng(r) {}

  void open(const Family& f, long id) {
    pdis.clear(); ims.clear(); bins.clear(); ref_line.clear(); usable.clear();
    tr.emit(vh::Json("Config").num("id", id).str("family", f.name));
    cfg_line = tr.lines;
    for (size_t k = 0; k < f.geoms.size(); ++k) {
      const GeomSpec& gs = f.geoms[k];
      shared_ptr<ProjDataInfo> pdi = make_pdi(gs.d);
      shared_ptr<VoxelsOnCartesianGrid<float>> im = make_image(*pdi, gs.g);
      pdis.push_back(pdi); ims.push_back(im); bins.push_back(all_bins(*pdi));
      vh::Json j("Geom");
      j.num("gid", (long)k + 1);
      emit_geometry(j, gs.d, dynamic_cast<const ProjDataInfoCylindrical&>(*pdi), *im, gs.o, f.impl);
      tr.emit(j);
      // reference: every row computed directly (no symmetries, no cache) by a matrix of its own
      shared_ptr<ProjMatrixByBin> ref = f.impl == "SPECTUB" ? new_spectub(true, true, true) : new_matrix(f.impl, sw_from_bits(0), false, false);
      options(*ref, gs.o);
      std::map<std::vector<int>, long> lines;
      const bool ok = !vh::threw([&] { ref->set_up(pdi, im); });
      usable.push_back(ok);
      if (ok) {
        const CartesianCoordinate3D<float> vs = im->get_voxel_size();
        for (const Bin& b : bins.back()) {
          ProjMatrixElemsForOneBin row;
          ref->get_proj_matrix_elems_for_one_bin(row, b);
          // SPECTUB computes a view at a time into its cache: the row as stored there is the one of the second request
          if (f.impl == "SPECTUB") ref->get_proj_matrix_elems_for_one_bin(row, b);
          const float s = pdi->get_s(b), ds = pdi->get_sampling_in_s(b);
          tr.emit(vh::Json("Ref").num("gid", (long)k + 1).arr("b", bin_list(b)).raw("row", row_json(row))
                      .num("sx", vh::fx(s / vs.x(), 12)).num("sy", vh::fx(s / vs.y(), 12))
                      .num("dsx", vh::fx(ds / vs.x(), 12)).num("dsy", vh::fx(ds / vs.y(), 12))
                      .arr("ep", lor_end_points(*pdi, *im, b, gs.o)));
          lines[bin_list(b)] = tr.lines - cfg_line;
        }
      }
      ref_line.push_back(lines);
    }
  }

  // one matrix object and a history of calls on it
  struct Obj {
    shared_ptr<ProjMatrixByBin> m;
    std::string impl;
    int gid = 0;       // geometry of the last successful set_up call
    Sw sw;
    bool cache_on, basic_only;
  };
  Obj make(const Family& f, const Sw& sw, bool cache_on, bool basic_only) {
    Obj o; o.sw = sw; o.cache_on = cache_on; o.basic_only = basic_only; o.impl = f.impl;
    if (f.impl == "SPECTUB") {
      // no symmetry switches; the first switch bit is used as keep_all_views_in_cache
      o.m = new_spectub(sw.s90, cache_on, basic_only);
      tr.emit(vh::Json("New").str("impl", f.impl).boolean("keepAll", sw.s90).boolean("cacheOn", cache_on).boolean("basicOnly", basic_only));
      return o;
    }
    o.m = new_matrix(f.impl, sw, cache_on, basic_only);
    tr.emit(vh::Json("New").str("impl", f.impl).arr("sw", sw_list(sw)).boolean("cacheOn", cache_on).boolean("basicOnly", basic_only));
    return o;
  }
  void set_sw(Obj& o, const Sw& sw) {
    o.sw = sw;
    if (auto* ip = dynamic_cast<ProjMatrixByBinUsingInterpolation*>(o.m.get())) {
      // parsing sets every parameter: the switches and (again) the current cache mode
      const bool failed = !parse_interpolation(*ip, sw, o.cache_on, o.basic_only);
      tr.emit(vh::Json("Parse").arr("sw", sw_list(sw)).boolean("cacheOn", o.cache_on).boolean("basicOnly", o.basic_only).boolean("failed", failed));
    } else {
      apply_switches(dynamic_cast<ProjMatrixByBinUsingRayTracing&>(*o.m), sw);
      tr.emit(vh::Json("SetSw").arr("sw", sw_list(sw)));
    }
  }
  // returns false if set_up reported an error
  bool set_up(Obj& o, const Family& f, int gid) {
    options(*o.m, f.geoms[gid - 1].o);
    HookLog::get().start();
    std::string msg;
    const bool err = vh::threw([&] { o.m->set_up(pdis[gid - 1], ims[gid - 1]); }, &msg);
    auto ev = HookLog::get().stop();
    if (!err) o.gid = gid;
    vh::Json j("SetUp");
    j.num("gid", gid).arr2("hooks", ev).boolean("err", err);
    const DataSymmetriesForBins_PET_CartesianGrid* sym = dynamic_cast<const DataSymmetriesForBins_PET_CartesianGrid*>(o.m->get_symmetries_ptr());
    if (sym && !err)
      j.arr("eff", std::vector<int>{ sym->using_symmetry_90degrees_min_phi(), sym->using_symmetry_180degrees_min_phi(),
                                     sym->using_symmetry_swap_segment(), sym->using_symmetry_swap_s(), sym->using_symmetry_shift_z() });
    else
      j.arr("eff", std::vector<int>{});
    tr.emit(j);
    return !err;
  }
  void get(Obj& o, const Bin& b) {
    ProjMatrixElemsForOneBin row;
    HookLog::get().start();
    const bool err = vh::threw([&] { o.m->get_proj_matrix_elems_for_one_bin(row, b); });
    auto ev = HookLog::get().stop();
    vh::Json j("Get");
    j.arr("b", bin_list(b)).arr2("hooks", ev).boolean("err", err).arr("rb", bin_list(row.get_bin()));
    if (err) j.raw("row", "[]"); else j.raw("row", row_json(row));
    auto it = ref_line[o.gid - 1].find(bin_list(b));
    j.num("ref", it == ref_line[o.gid - 1].end() ? 0 : it->second);
    tr.emit(j);
  }
  void clear(Obj& o) {
    HookLog::get().start();
    o.m->clear_cache();
    tr.emit(vh::Json("Clear").arr2("hooks", HookLog::get().stop()));
  }
  void enable_cache(Obj& o, bool v) { o.m->enable_cache(v); o.cache_on = v; tr.emit(vh::Json("EnableCache").boolean("v", v)); }
  void store_basic(Obj& o, bool v) { o.m->store_only_basic_bins_in_cache(v); o.basic_only = v; tr.emit(vh::Json("StoreBasic").boolean("v", v)); }

  // ProjMatrixByBinFromFile: a ray-tracing matrix with the requested switches, set up for geometry src, is written
  // with the library's writer; a new object parses the header; then a history of calls on it
  void fromfile_history(const Family& f, int src, const Sw& req, bool cache_on, bool basic_only, int len, const std::string& prefix) {
    shared_ptr<ProjMatrixByBin> source = new_matrix("RayTracing", req, true, true);
    options(*source, f.geoms[src - 1].o);
    source->set_up(pdis[src - 1], ims[src - 1]);
    const DataSymmetriesForBins_PET_CartesianGrid* sym = dynamic_cast<const DataSymmetriesForBins_PET_CartesianGrid*>(source->get_symmetries_ptr());
    const std::vector<int> header_sw{ sym->using_symmetry_90degrees_min_phi(), sym->using_symmetry_180degrees_min_phi(),
                                      sym->using_symmetry_swap_segment(), sym->using_symmetry_swap_s(), sym->using_symmetry_shift_z() };
    const bool written = ProjMatrixByBinFromFile::write_to_file(prefix, *source, pdis[src - 1], *ims[src - 1]) == Succeeded::yes;
    source.reset();
    Obj o; o.impl = "FromFile"; o.cache_on = cache_on; o.basic_only = basic_only;
    shared_ptr<ProjMatrixByBinFromFile> ff(new ProjMatrixByBinFromFile);
    std::string hdr = prefix; hdr += ".hpm";
    const bool parsed = !vh::threw([&] { if (!ff->parse(hdr.c_str())) throw std::runtime_error("parse"); });
    bool repaired = false;
    if (!parsed) {
      // the header as written could not be read back; so that the rest of the class can still be exercised the header
      // is given the name under which the writer actually stored the template projection data (<name>.hs) and parsed again
      std::ifstream in(hdr.c_str()); std::stringstream buf; buf << in.rdbuf(); in.close();
      std::string h = buf.str();
      const std::string key = "_template_proj_data\n";
      const size_t pos = h.find(key);
      if (pos != std::string::npos) h.replace(pos, key.size(), "_template_proj_data.hs\n");
      std::ofstream out(hdr.c_str()); out << h; out.close();
      ff.reset(new ProjMatrixByBinFromFile);
      repaired = !vh::threw([&] { if (!ff->parse(hdr.c_str())) throw std::runtime_error("parse"); });
    }
    ff->enable_cache(cache_on);
    ff->store_only_basic_bins_in_cache(basic_only);
    o.m = ff;
    tr.emit(vh::Json("New").str("impl", "FromFile").arr("req", sw_list(req))
                .arr("sw", header_sw)
                .boolean("cacheOn", cache_on).boolean("basicOnly", basic_only).num("src", src).boolean("written", written).boolean("parsed", parsed).boolean("repaired", repaired));
    if (!parsed && !repaired) return;
    if (!set_up(o, f, src)) return;
    std::vector<Bin> recent;
    const std::vector<Bin>& bl = bins[src - 1];
    for (int i = 0; i < len; ++i) {
      const int r = rng.range(0, 99);
      if (r < 64) { Bin b = bl[rng.next() % bl.size()]; get(o, b); recent.push_back(b); }
      else if (r < 82 && !recent.empty()) get(o, recent[recent.size() - 1 - rng.next() % std::min<size_t>(recent.size(), 6)]);
      else if (r < 85) clear(o);                      // the cache is the storage of this class: rows are gone until the next set_up
      else if (r < 88) enable_cache(o, !o.cache_on);
      else if (r < 92) store_basic(o, !o.basic_only);
      else if (r < 97) set_up(o, f, src);             // reads the file again
      else set_up(o, f, rng.range(1, (int)f.geoms.size()));   // another image geometry must be refused
    }
    for (const char* ext : { ".hpm", ".pm", "_template_density.hv", "_template_density.v", "_template_density.ahv", "_template_proj_data.hs", "_template_proj_data.s" })
      std::remove((prefix + ext).c_str());
  }

  int pick_usable(const Family& f) {
    for (;;) { int g = rng.range(1, (int)f.geoms.size()); if (usable[g - 1]) return g; }
  }
  // seeded history: requests with repeats, cache-mode changes, clear_cache, re-set_up (same / other geometry / other switches)
  void history(const Family& f, const Sw& sw, bool cache_on, bool basic_only, int len) {
    Obj o = make(f, sw, cache_on, basic_only);
    set_up(o, f, 1);
    std::vector<Bin> recent;
    for (int i = 0; i < len; ++i) {
      const int r = rng.range(0, 99);
      const std::vector<Bin>& bl = bins[o.gid - 1];
      if (r < 62) {
        Bin b = bl[rng.next() % bl.size()];
        get(o, b);
        recent.push_back(b);
      } else if (r < 80 && !recent.empty()) {
        // repeat a recent request, if the bin exists in the current data geometry
        Bin b = recent[recent.size() - 1 - rng.next() % std::min<size_t>(recent.size(), 6)];
        if (ref_line[o.gid - 1].count(bin_list(b))) get(o, b);
      } else if (r < 84) clear(o);
      else if (r < 87) enable_cache(o, !o.cache_on);
      else if (r < 90) { if (f.all_mode) store_basic(o, !o.basic_only); }
      else if (r < 95) {
        // same (skipped) or another geometry; a geometry the class documents as unsupported must be refused,
        // after which the object is set up properly again before it is used
        const int g = rng.range(1, (int)f.geoms.size());
        if (!set_up(o, f, g)) set_up(o, f, pick_usable(f));
      }
      else if (f.impl == "SPECTUB") set_up(o, f, o.gid);     // (no switches) set up again for the same geometry
      else if (r < 98) { set_sw(o, sw_from_bits(rng.range(0, 31))); set_up(o, f, o.gid); }
      else {
        // a switch changed without a new set_up: the next request either comes from the cache or must be refused
        set_sw(o, sw_from_bits(rng.range(0, 31)));
        Bin b = bl[rng.next() % bl.size()];
        get(o, b);
        set_up(o, f, o.gid);
      }
    }
  }
  // every bin of geometry gid once, then half of them again in another order
  void full_pass(const Family& f, const Sw& sw, bool cache_on, bool basic_only, int gid) {
    Obj o = make(f, sw, cache_on, basic_only);
    set_up(o, f, gid);
    std::vector<Bin> bl = bins[gid - 1];
    for (const Bin& b : bl) get(o, b);
    for (size_t i = bl.size(); i > 1; --i) std::swap(bl[i - 1], bl[rng.next() % i]);
    for (size_t i = 0; i < bl.size() / 2; ++i) get(o, bl[i]);
  }
};

static std::vector<Family> families(int tier) {
  auto D = [](int N, int R, int span, int maxDelta, int mash, int tofMash, int maxT, int numTang) {
    DataCfg d; d.N = N; d.R = R; d.span = span; d.maxDelta = maxDelta; d.mash = mash; d.tofMash = tofMash; d.maxT = maxT; d.numTang = numTang; return d; };
  auto G = [](int nx, int ny, int nz, float vx, float vy, int nppr, int oz, float ox = 0.F, float oy = 0.F) {
    GridCfg g; g.nx = nx; g.ny = ny; g.nz = nz; g.vx = vx; g.vy = vy; g.nppr = nppr; g.oz = oz; g.ox = ox; g.oy = oy; return g; };
  const std::string RT = "RayTracing", IP = "Interpolation";
  std::vector<Family> fs;
  {
    // 16 detectors, 3 rings, span 1; odd image; second geometry = same data and voxels, other index range;
    // third = two tangential rays; fourth = other data geometry (reduced ring difference)
    DataCfg d = D(16, 3, 1, 2, 1, 0, 0, 7);
    fs.push_back({ "n16r3", RT, { { d, G(15, 15, 5, 3.3F, 3.3F, 2, 0), O(1) }, { d, G(13, 13, 7, 3.3F, 3.3F, 2, 0), O(1) },
                                  { d, G(15, 15, 5, 3.3F, 3.3F, 2, 0), O(2) }, { D(16, 3, 1, 1, 1, 0, 0, 7), G(15, 15, 5, 3.3F, 3.3F, 2, 0), O(1) } }, 32, 2 });
  }
  {
    // span 3 with a truncated last segment, even image sizes, anisotropic voxels in the second geometry, shifted z origin in the third
    DataCfg d = D(16, 4, 3, 3, 1, 0, 0, 6);
    fs.push_back({ "n16r4s3", RT, { { d, G(12, 12, 7, 3.1F, 3.1F, 2, 0), O(1) }, { d, G(12, 14, 7, 3.1F, 2.6F, 2, 0), O(1) }, { d, G(12, 12, 8, 3.1F, 3.1F, 2, 1), O(2) } }, 32, 2 });
  }
  {
    // TOF data; view mashing in the second geometry; quarter-ring planes in the third
    fs.push_back({ "tofmash", RT, { { D(8, 2, 1, 1, 1, 1, 3, 3), G(9, 9, 3, 4.1F, 4.1F, 2, 0), O(1) }, { D(16, 2, 1, 1, 2, 0, 0, 5), G(11, 11, 3, 3.3F, 3.3F, 2, 0), O(1) },
                                    { D(8, 2, 1, 1, 1, 0, 0, 3), G(9, 9, 6, 4.1F, 4.1F, 4, -1), O(1) } }, 32, 2 });
  }
  {
    // even span (segment 0 gets span + 1 ring differences); square FOV; planes = ring spacing / 3; even image sizes;
    // the last geometry has the half-voxel x origin of a centred even-sized image, which the class documents as unsupported
    DataCfg d2 = D(12, 4, 2, 3, 1, 0, 0, 5);
    fs.push_back({ "evenspan", RT, { { d2, G(10, 10, 7, 3.6F, 3.6F, 2, 0), O(1) }, { d2, G(10, 10, 7, 3.6F, 3.6F, 2, 0), O(1, false, false) },
                                     { D(12, 3, 1, 2, 1, 0, 0, 5), G(11, 11, 7, 3.6F, 3.6F, 3, 0), O(2, false, false) },
                                     { d2, G(10, 10, 7, 3.6F, 3.6F, 2, 0, -1.8F, 0.F), O(1) } }, 10, 2 });
  }
  {
    // use_actual_detector_boundaries (span 1, no mashing), one and two tangential rays
    DataCfg d = D(16, 2, 1, 1, 1, 0, 0, 7);
    fs.push_back({ "uadb", RT, { { d, G(15, 15, 3, 3.3F, 3.3F, 2, 0), O(1, true) }, { d, G(15, 15, 3, 3.3F, 3.3F, 2, 0), O(2, true) },
                                 { d, G(15, 15, 3, 3.3F, 3.3F, 2, 0), O(1) } }, 12, 1 });
  }
  {
    // the interpolating matrix (switches and cache mode through its parameter parsing)
    DataCfg d = D(12, 2, 1, 1, 1, 0, 0, 5);
    fs.push_back({ "interp", IP, { { d, G(9, 9, 3, 3.7F, 3.7F, 2, 0), O(1) }, { d, G(7, 7, 3, 3.7F, 3.7F, 2, 0), O(1) },
                                   { D(16, 3, 3, 1, 1, 0, 0, 5), G(9, 9, 5, 3.3F, 3.3F, 2, 0), O(1) } }, 10, 2 });
  }
  {
    // ProjMatrixByBinSPECTUB (no attenuation, geometrical PSF): arc-corrected single-segment data, planes = axial positions
    DataCfg d = D(16, 4, 1, 0, 1, 0, 0, 9); d.spect = true;
    DataCfg e = D(12, 3, 1, 0, 1, 0, 0, 7); e.spect = true;
    fs.push_back({ "spectub", "SPECTUB", { { d, G(9, 9, 4, 4.F, 4.F, 1, 0), O(1) }, { d, G(7, 7, 4, 4.F, 4.F, 1, 0), O(1) }, { e, G(7, 7, 3, 4.F, 4.F, 1, 0), O(1) } }, 4, 1 });
  }
  {
    // block geometry, 2 crystals per axial block (actual detector positions are forced; shift_z is the only symmetry);
    // second geometry: 3 crystals per block with a gap between the blocks
    DataCfg d = D(8, 6, 1, 5, 1, 0, 0, 3); d.geom = "BlocksOnCylindrical"; d.cpb = 2;
    DataCfg e = d; e.cpb = 3; e.axial_gap = 1.F;
    fs.push_back({ "blocks", RT, { { d, G(17, 17, 11, 3.F, 3.F, 2, 0), O(1, true) }, { e, G(17, 17, 11, 3.F, 3.F, 2, 0), O(1, true) } }, 8, 2, false });
  }
  {
    // ProjMatrixByBinFromFile: written by the library's writer from a ray-tracing matrix, read back (non-TOF only)
    DataCfg d = D(12, 3, 1, 2, 1, 0, 0, 6);
    fs.push_back({ "fromfile", "FromFile", { { d, G(11, 11, 5, 3.6F, 3.6F, 2, 0), O(1) }, { d, G(10, 10, 5, 3.6F, 3.6F, 2, 0), O(2) } }, 6, 0 });
  }
  if (tier > 0) {
    fs.push_back({ "n32r4", RT, { { D(32, 4, 1, 3, 1, 0, 0, 9), G(21, 21, 7, 2.1F, 2.1F, 2, 0), O(1) }, { D(32, 4, 1, 3, 1, 0, 0, 9), G(20, 20, 7, 2.1F, 2.1F, 2, 0), O(1) },
                                  { D(32, 4, 1, 3, 1, 0, 0, 9), G(21, 21, 14, 2.1F, 2.1F, 4, 0), O(2) } }, 32, 2 });
    fs.push_back({ "n24r3", RT, { { D(24, 3, 1, 2, 1, 0, 0, 8), G(14, 14, 5, 2.7F, 2.7F, 2, 0), O(1) }, { D(24, 3, 1, 2, 1, 0, 0, 8), G(14, 14, 3, 2.7F, 2.7F, 1, 0), O(1) },
                                  { D(24, 3, 1, 1, 1, 0, 0, 8), G(14, 14, 5, 2.7F, 2.7F, 2, -1), O(1) } }, 32, 2 });
    fs.push_back({ "n20s5", RT, { { D(20, 6, 5, 5, 1, 0, 0, 5), G(11, 11, 11, 3.2F, 3.2F, 2, 0), O(1) }, { D(20, 6, 5, 5, 1, 0, 0, 5), G(11, 11, 11, 3.2F, 3.2F, 2, 1), O(1) },
                                  { D(20, 6, 3, 4, 1, 0, 0, 5), G(11, 9, 11, 3.2F, 3.2F, 2, 0), O(1) } }, 32, 2 });
    fs.push_back({ "tof9", RT, { { D(16, 3, 1, 2, 1, 3, 9, 5), G(11, 11, 5, 3.4F, 3.4F, 2, 0), O(1) }, { D(16, 3, 1, 2, 1, 1, 9, 5), G(11, 11, 5, 3.4F, 3.4F, 2, 0), O(1) } }, 32, 2 });
    fs.push_back({ "n12odd", RT, { { D(12, 2, 1, 1, 1, 0, 0, 5), G(9, 9, 3, 3.7F, 3.7F, 2, 0), O(1) }, { D(14, 2, 1, 1, 1, 0, 0, 5), G(9, 9, 3, 3.7F, 3.7F, 2, 0), O(1) },
                                   { D(12, 2, 1, 1, 3, 0, 0, 5), G(9, 9, 2, 3.7F, 3.7F, 1, 0), O(2) } }, 32, 2 });
    fs.push_back({ "span4", RT, { { D(16, 5, 4, 4, 1, 0, 0, 5), G(11, 11, 9, 3.3F, 3.3F, 2, 0), O(1, false, false) }, { D(16, 5, 4, 4, 2, 0, 0, 5), G(12, 12, 18, 3.3F, 3.3F, 4, 0), O(1) },
                                  { D(16, 3, 1, 2, 1, 0, 0, 5), G(11, 11, 7, 3.3F, 3.3F, 3, 1), O(1) } }, 32, 2 });
    // interpolating matrix: even and non-square image sizes, anisotropic voxels, TOF
    fs.push_back({ "interp2", IP, { { D(16, 3, 1, 2, 1, 0, 0, 5), G(8, 8, 5, 3.3F, 3.3F, 2, 0), O(1) }, { D(16, 3, 1, 2, 1, 0, 0, 5), G(9, 7, 5, 3.3F, 3.3F, 2, 0), O(1) },
                                    { D(8, 2, 1, 1, 1, 1, 3, 3), G(7, 7, 3, 4.1F, 4.1F, 2, 0), O(1) } }, 32, 2 });
  }
  return fs;
}

static void run_rows(vh::Trace& tr, int tier, int only, vh::Rng& rng, const std::string& scratch) {
  std::vector<Family> fs = families(tier);
  long id = 0;
  for (size_t fi = 0; fi < fs.size(); ++fi) {
    if (only >= 0 && (int)fi != only) continue;
    const Family& f = fs[fi];
    vh::Rng frng((uint64_t)vh::seed_from_env() * 1000 + fi);   // per family: the trace of a family does not depend on the others
    Recorder rec(tr, frng);
    const int per_block = 49;          // histories per Config block (the reference rows are repeated per block)
    int nh = 0;
    auto maybe_open = [&] { if (nh % per_block == 0) rec.open(f, ++id); ++nh; };
    if (f.impl == "FromFile") {
      const int nmask = tier > 0 ? 16 : f.quick_masks;
      for (int k = 0; k < nmask; ++k) {
        const int mask = nmask == 32 ? k : (k == 0 ? 31 : frng.range(0, 31));
        for (int mode = 0; mode < 3; ++mode) {
          maybe_open();
          rec.fromfile_history(f, 1 + (k + mode) % 2, sw_from_bits(mask), mode != 0, mode == 1, tier > 0 ? 90 : 60,
                               scratch + "_pm" + std::to_string(fi) + "_" + std::to_string(k) + "_" + std::to_string(mode));
        }
      }
      continue;
    }
    // every bin of the first two geometries under the default setting of the class and with everything cached
    maybe_open(); rec.full_pass(f, sw_from_bits(31), true, true, 1);
    if (f.passes > 1) { maybe_open(); rec.full_pass(f, sw_from_bits(31), true, !f.all_mode, f.geoms.size() > 1 ? 2 : 1); }
    // requested switch settings x cache disabled / basic bins only / everything
    const int len = tier > 0 ? 100 : 80;
    const int nmask = tier > 0 ? (f.quick_masks == 32 ? 32 : 16) : f.quick_masks;
    for (int k = 0; k < nmask; ++k) {
      // all 32 settings, or a seeded selection that always contains "everything on"
      const int mask = nmask == 32 ? k : (k == 0 ? 31 : frng.range(0, 31));
      for (int mode = 0; mode < (f.all_mode ? 3 : 2); ++mode) {
        maybe_open();
        rec.history(f, sw_from_bits(mask), mode != 0, mode == 1 || !f.all_mode, len);
      }
    }
  }
}

// ------------------------------------------------------------------------------------------- row operations
// seeded sequences of operations on two real ProjMatrixElemsForOneBin objects with small integer values; every line
// carries the operation, the answers of the queries and both rows afterwards (in storage order)
static std::string row_raw(const ProjMatrixElemsForOneBin& r) {
  std::string s = "[";
  bool first = true;
  for (ProjMatrixElemsForOneBin::const_iterator it = r.begin(); it != r.end(); ++it) {
    if (!first) s += ',';
    first = false;
    s += '[' + std::to_string(it->coord1()) + ',' + std::to_string(it->coord2()) + ',' + std::to_string(it->coord3()) + ',' + std::to_string((long long)std::llround(it->get_value())) + ']';
  }
  return s + "]";
}
static void run_rowops(vh::Trace& tr, int tier, vh::Rng& rng) {
  const int runs = tier > 0 ? 400 : 120, len = 40;
  for (int run = 0; run < runs; ++run) {
    ProjMatrixElemsForOneBin A, B;
    auto emit = [&](vh::Json& j) {
      j.num("sizeA", (long)A.size()).num("sizeB", (long)B.size()).boolean("checkA", A.check_state() == Succeeded::yes)
          .boolean("checkB", B.check_state() == Succeeded::yes).num("sqA", (long long)std::llround(A.square_sum())).boolean("eq", A == B)
          .raw("A", row_raw(A)).raw("B", row_raw(B));
      tr.emit(j);
    };
    { vh::Json j("Reset"); emit(j); }
    const int span = rng.range(1, 3);     // small voxel ranges make coincidences (duplicates, common voxels) frequent
    auto elem = [&] { return ProjMatrixElemsForOneBin::value_type(Coordinate3D<int>(rng.range(-1, span - 1), rng.range(0, span), rng.range(-span, 0)), (float)rng.range(1, 9)); };
    for (int i = 0; i < len; ++i) {
      const int r = rng.range(0, 99);
      if (r < 30) { auto e = elem(); A.push_back(e); vh::Json j("PushA"); j.arr("el", std::vector<long long>{ e.coord1(), e.coord2(), e.coord3(), (long long)e.get_value() }); emit(j); }
      else if (r < 55) { auto e = elem(); B.push_back(e); vh::Json j("PushB"); j.arr("el", std::vector<long long>{ e.coord1(), e.coord2(), e.coord3(), (long long)e.get_value() }); emit(j); }
      else if (r < 63) { A.sort(); vh::Json j("SortA"); emit(j); }
      else if (r < 68) { B.sort(); vh::Json j("SortB"); emit(j); }
      else if (r < 84) {
        // merge needs rows in which every voxel occurs once (check_state is the library's own test of that)
        if (A.check_state() == Succeeded::yes && B.check_state() == Succeeded::yes) { A.merge(B); vh::Json j("MergeAB"); emit(j); }
        else if (A.size() > 0) { const int k = rng.range(1, (int)A.size()); A.erase(A.begin() + (k - 1)); vh::Json j("EraseAtA"); j.num("i", k); emit(j); }
      }
      else if (r < 88) { if (A.size() > 0) { const int k = rng.range(1, (int)A.size()); A.erase(A.begin() + (k - 1)); vh::Json j("EraseAtA"); j.num("i", k); emit(j); } }
      else if (r < 91) { const int d = rng.range(1, 3); A *= (float)d; vh::Json j("ScaleA"); j.num("d", d); emit(j); A /= (float)d; vh::Json k("DivideA"); k.num("d", d); emit(k); }
      else if (r < 94) { B = A; vh::Json j("CopyAB"); emit(j); }
      else if (r < 97) { B.erase(); vh::Json j("EraseB"); emit(j); }
      else { A.erase(); vh::Json j("EraseA"); emit(j); }
    }
  }
}

int main(int argc, char** argv) {
  if (argc < 4) return 2;
  vh::install_terminate(); vh::quiet();
  if (!getenv("VERIF_STDERR")) { if (!freopen("/dev/null", "w", stderr)) return 3; }
  const std::string mode = argv[1];
  vh::Trace tr(argv[2]);
  const int tier = atoi(argv[3]);
  vh::Rng rng(vh::seed_from_env());
  if (mode == "sym") run_sym(tr, tier);
  else if (mode == "rows") {
    // scratch prefix for matrix files next to the trace: no dots in the file name (the writer replaces "extensions")
    std::string scratch = argv[2];
    const size_t slash = scratch.find_last_of('/');
    for (size_t i = slash == std::string::npos ? 0 : slash + 1; i < scratch.size(); ++i) if (scratch[i] == '.') scratch[i] = '_';
    run_rows(tr, tier, argc > 4 ? atoi(argv[4]) : -1, rng, scratch);
  }
  else if (mode == "rowops") run_rowops(tr, tier, rng);
  else if (mode == "count") tr.emit(vh::Json("Count").num("families", (long)families(tier).size()));
  else return 2;
  return 0;
}
