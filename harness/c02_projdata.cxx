// C02 driver: drives the real projection-data stores (ProjDataFromStream on an fstream, ProjDataInterfile,
// ProjDataFromStream + separately written Interfile header, ProjDataInMemory) through every access path and
// records, after EVERY call, the call, its arguments, what it returned and the WHOLE data file as decoded by
// the driver's own reader (a second std::ifstream opened on the data file, never the writer's stream; own byte
// decoder, not STIR's read_data).  The writer object is never closed while it is observed.
// No property formula here: TLC (Trace_ProjDataStore.tla) decides.
//   c02_projdata rand <out.ndjson> <configs> <ops-per-config> <scratch-dir>
//   c02_projdata exh  <out.ndjson> <max-configs> <scratch-dir>      all histories of 2 writes (+ reads) on tiny geometries
#include "vh_stir.h"
#include "stir/ProjData.h"
#include "stir/ProjDataFromStream.h"
#include "stir/ProjDataInterfile.h"
#include "stir/ProjDataInMemory.h"
#include "stir/ExamInfo.h"
#include "stir/Viewgram.h"
#include "stir/Sinogram.h"
#include "stir/SegmentByView.h"
#include "stir/SegmentBySinogram.h"
#include "stir/RelatedViewgrams.h"
#include "stir/ViewgramIndices.h"
#include "stir/SinogramIndices.h"
#include "stir/SegmentIndices.h"
#include "stir/VoxelsOnCartesianGrid.h"
#include "stir/recon_buildblock/DataSymmetriesForBins_PET_CartesianGrid.h"
#include "stir/IO/interfile.h"
#include "stir/NumericType.h"
#include "stir/ByteOrder.h"
#include "stir/Succeeded.h"
#include "stir/TimeFrameDefinitions.h"
#include "stir/PatientPosition.h"
#include "stir/Radionuclide.h"
#include "stir/MultipleProjData.h"
#include "stir/DynamicProjData.h"
#include "stir/ProjDataInfoSubsetByView.h"
#include <cstring>
#include <csignal>
#include <sys/resource.h>
#include <algorithm>
#include <functional>
using namespace stir;
typedef ProjDataFromStream PDFS;

// ------------------------------------------------------------------ configuration (inputs chosen by the driver)
struct Cfg {
  int N, R, maxDelta, ntang, tofMash, viewMash;  // geometry: N detectors/ring, R rings, span 1; tofMash = TOF bins of the scanner, 0 = non-TOF
  bool tofOne;                                   // TOF-capable scanner, TOF mashing factor = all bins: ONE TOF bin
  int segReduce;                                 // reduce_segment_range(-max+segReduce, max) for raw/in-memory stores (0 = none)
  std::string backing;                           // "stream" | "interfile" | "hdrstream" | "memory"
  bool fresh;                                    // data file not pre-sized (writes only, file grows)
  bool byView;                                   // storage order Segment_View_AxialPos_TangPos (else Segment_AxialPos_View_TangPos)
  bool tofOrderGiven;                            // pass the Timing_... enumerator explicitly for TOF data
  std::vector<int> seq;                          // segment sequence in the stream
  int off;                                       // stream offset in bytes
  NumericType::Type type;
  bool big;                                      // big-endian on disk
  int exam;                                      // exam-info variant
  int scale = 1;                                 // on-disk scale factor (power of two; integer on-disk types only): value = stored number * scale
};

static const char* type_name(NumericType::Type t) {
  switch (t) {
  case NumericType::SCHAR: return "schar"; case NumericType::UCHAR: return "uchar"; case NumericType::SHORT: return "short";
  case NumericType::USHORT: return "ushort"; case NumericType::INT: return "int"; case NumericType::UINT: return "uint";
  case NumericType::LONG: return "long"; case NumericType::ULONG: return "ulong"; case NumericType::FLOAT: return "float";
  case NumericType::DOUBLE: return "double"; default: return "?"; }
}
static long type_max(NumericType::Type t) {   // largest value the driver feeds in (input domain, keeps every type exact)
  // integer output is written with scale factor 1 only while max*1.01 <= largest value of the type (find_scale_factor's
  // documented safety margin), so the input domain stays below that
  switch (t) { case NumericType::SCHAR: return 120; case NumericType::UCHAR: return 250; case NumericType::SHORT: return 32000;
  case NumericType::USHORT: return 64000; default: return 1000000; }
}

// ------------------------------------------------------------------ the driver's own decoder of the data file
static long long decode_one(const unsigned char* p, NumericType::Type t, bool big) {
  unsigned char b[8];
  const int sz = (int)NumericType(t).size_in_bytes();
  for (int i = 0; i < sz; ++i) b[i] = big ? p[sz - 1 - i] : p[i];   // b = little-endian image
  unsigned long long u = 0;
  for (int i = sz - 1; i >= 0; --i) u = (u << 8) | b[i];
  const long long NOTINT = -777777;     // a stored number that is not an integer of moderate size
  switch (t) {
  case NumericType::SCHAR: return (signed char)u;
  case NumericType::UCHAR: return (unsigned char)u;
  case NumericType::SHORT: return (short)u;
  case NumericType::USHORT: return (unsigned short)u;
  case NumericType::INT: return (int)u;
  case NumericType::UINT: { unsigned int x = (unsigned int)u; return x > 2000000000u ? NOTINT : (long long)x; }
  case NumericType::LONG: { long long x = (long long)u; return (x > 2000000000LL || x < -2000000000LL) ? NOTINT : x; }
  case NumericType::ULONG: return u > 2000000000ULL ? NOTINT : (long long)u;
  case NumericType::FLOAT: { float f; unsigned int x = (unsigned int)u; memcpy(&f, &x, 4);
      if (!(f == f) || f > 2e9f || f < -2e9f || f != (float)(long long)f) return NOTINT; return (long long)f; }
  case NumericType::DOUBLE: { double f; memcpy(&f, &u, 8);
      if (!(f == f) || f > 2e9 || f < -2e9 || f != (double)(long long)f) return NOTINT; return (long long)f; }
  default: return NOTINT; }
}

static long long as_int(float f) { if (!(f == f) || f > 2e9f || f < -2e9f || f != (float)(long long)f) return -777777; return (long long)f; }

// ------------------------------------------------------------------ one store under test
struct Store {
  Cfg c;
  shared_ptr<ProjDataInfo> pdi;
  shared_ptr<ExamInfo> exam;
  shared_ptr<ProjData> pd;
  PDFS* pdfs = nullptr;
  ProjDataInMemory* pdm = nullptr;
  shared_ptr<std::iostream> stream;
  std::string data_name, header_name;
  shared_ptr<DataSymmetriesForViewSegmentNumbers> symm;
  long n = 0;
  long next = 0;     // value counter
  long nextval() { ++next; const long v = ((next - 1) % type_max(c.type) + 1) * c.scale; if (v > bound) bound = v; return v; }
  // --- round 2
  long bound = 0;                       // upper bound of |value| in the store (input-domain control for the arithmetic calls)
  shared_ptr<ProjData> pd2;             // a second writer object on the same file
  PDFS* pdfs2 = nullptr;
  shared_ptr<std::iostream> stream2;
  std::vector<long long> last_mul_y;    // operand of an immediately preceding *= (so that /= is exact)
  long last_mul_f = 0;
  bool dead = false;                    // the store could not be re-attached: stop this execution
};
static const long ARITH_LIM = 2000000;   // |values| stay below this (exact in float, sums below 2^31)
static bool wide_type(const Store& s) { return type_max(s.c.type) >= 1000000; }
static bool signed_type(const Store& s) {
  const NumericType::Type t = s.c.type;
  return t == NumericType::INT || t == NumericType::LONG || t == NumericType::FLOAT || t == NumericType::DOUBLE; }

static std::vector<unsigned char> sentinel(int off) { std::vector<unsigned char> v(off); for (int i = 0; i < off; ++i) v[i] = (unsigned char)(0xA5 ^ (i * 37)); return v; }

// observation by the independent reader; appended to every event
static void observe(vh::Json& j, Store& s) {
  std::vector<long long> file;
  if (s.pdm) {
    const ProjDataInMemory& cm = *s.pdm;
    for (auto it = cm.begin_all(); it != cm.end_all(); ++it) file.push_back(as_int(*it));
    j.num("bytes", (long long)file.size() * 4).arr("pre", std::vector<int>()).arr("file", file);
    return;
  }
  std::vector<unsigned char> buf;
  if (s.c.backing == "sstream") {
    // memory-backed stream: the independent reader is a second view (a copy) of the string buffer's contents
    const std::string str = static_cast<std::stringstream*>(s.stream.get())->str();
    buf.assign(str.begin(), str.end());
  } else {
    std::ifstream in(s.data_name.c_str(), std::ios::in | std::ios::binary);   // a fresh, second reader
    buf.assign((std::istreambuf_iterator<char>(in)), std::istreambuf_iterator<char>());
  }
  const int sz = (int)NumericType(s.c.type).size_in_bytes();
  std::vector<int> pre;
  for (int i = 0; i < s.c.off && i < (int)buf.size(); ++i) pre.push_back(buf[i]);
  // decoded value = stored number * scale factor of the layout
  for (size_t p = s.c.off; p + sz <= buf.size(); p += sz) {
    const long long raw = decode_one(&buf[p], s.c.type, s.c.big);
    file.push_back(raw == -777777 ? raw : raw * s.c.scale); }
  j.num("bytes", (long long)buf.size()).arr("pre", pre).arr("file", file);
}

// geometry description (as the implementation reports it)
static std::vector<long long> geo_vector(const ProjDataInfo& p) {
  std::vector<long long> g;
  g.push_back(p.get_min_segment_num()); g.push_back(p.get_max_segment_num());
  auto* cyl = dynamic_cast<const ProjDataInfoCylindrical*>(&p);
  for (int s = p.get_min_segment_num(); s <= p.get_max_segment_num(); ++s) {
    g.push_back(p.get_min_axial_pos_num(s)); g.push_back(p.get_max_axial_pos_num(s));
    g.push_back(cyl ? cyl->get_min_ring_difference(s) : 0); g.push_back(cyl ? cyl->get_max_ring_difference(s) : 0);
  }
  g.push_back(p.get_min_view_num()); g.push_back(p.get_max_view_num());
  g.push_back(p.get_min_tangential_pos_num()); g.push_back(p.get_max_tangential_pos_num());
  g.push_back(p.get_min_tof_pos_num()); g.push_back(p.get_max_tof_pos_num()); g.push_back(p.get_tof_mash_factor());
  const Scanner& sc = *p.get_scanner_ptr();
  g.push_back(sc.get_num_rings()); g.push_back(sc.get_num_detectors_per_ring()); g.push_back(sc.get_max_num_non_arccorrected_bins());
  g.push_back(sc.get_default_num_arccorrected_bins()); g.push_back(sc.get_max_num_timing_poss());
  g.push_back(vh::fx(sc.get_inner_ring_radius(), 8)); g.push_back(vh::fx(sc.get_ring_spacing(), 8));
  g.push_back(vh::fx(sc.get_default_bin_size(), 8)); g.push_back(vh::fx(sc.get_average_depth_of_interaction(), 8));
  g.push_back(vh::fx(p.get_bed_position_horizontal(), 8)); g.push_back(vh::fx(p.get_bed_position_vertical(), 8));
  g.push_back(dynamic_cast<const ProjDataInfoCylindricalNoArcCorr*>(&p) ? 1 : 0);
  return g;
}
static std::string exam_json(const ExamInfo& e) {
  std::vector<std::vector<long long>> fr;
  const TimeFrameDefinitions& t = e.time_frame_definitions;
  for (unsigned f = 1; f <= t.get_num_time_frames(); ++f) fr.push_back({ vh::fx(t.get_start_time(f), 4), vh::fx(t.get_duration(f), 4) });
  vh::Json j;
  j.str("modality", e.imaging_modality.get_name()).num("orient", (int)e.patient_position.get_orientation())
      .num("rot", (int)e.patient_position.get_rotation()).arr2("frames", fr).num("lowE", vh::fx(e.get_low_energy_thres(), 4))
      .num("highE", vh::fx(e.get_high_energy_thres(), 4)).str("nuclide", e.get_radionuclide().get_name())
      .num("halflife", vh::fx(e.get_radionuclide().get_half_life(false), 4));
  return j.done();
}
// fields the projection-data header has no key for (recorded separately, see notes/C02.md)
static std::string exam_extra_json(const ExamInfo& e) {
  vh::Json j;
  j.num("calib", vh::fx(e.get_calibration_factor(), 10)).num("start", (long long)std::llround(e.start_time_in_secs_since_1970));
  return j.done();
}

static shared_ptr<ExamInfo> make_exam(int variant) {
  shared_ptr<ExamInfo> e(new ExamInfo(ImagingModality::PT));
  if (variant == 0) return e;
  e->patient_position = PatientPosition(variant % 2 ? PatientPosition::head_in : PatientPosition::feet_in,
                                        variant % 3 ? PatientPosition::supine : PatientPosition::prone);
  std::vector<std::pair<double, double>> fr;
  fr.push_back(std::make_pair(2.0 * variant, 2.0 * variant + 30.5));
  e->set_time_frame_definitions(TimeFrameDefinitions(fr));
  if (variant >= 2) { e->set_low_energy_thres(425.F); e->set_high_energy_thres(650.F); }
  if (variant >= 2) { e->set_calibration_factor(2.5F); e->start_time_in_secs_since_1970 = 1600000000.0 + 3600 * variant; }
  if (variant >= 3) e->set_radionuclide(Radionuclide("^18^Fluorine", 511.F, 0.9686F, 6584.04F, ImagingModality::PT));
  return e;
}


static bool timing_order_given(const Cfg& c) { return c.tofMash > 0 && c.tofOrderGiven; }
static PDFS::StorageOrder order_enum(const Cfg& c, bool) {
  if (timing_order_given(c))
    return c.byView ? PDFS::Timing_Segment_View_AxialPos_TangPos : PDFS::Timing_Segment_AxialPos_View_TangPos;
  return c.byView ? PDFS::Segment_View_AxialPos_TangPos : PDFS::Segment_AxialPos_View_TangPos;
}

static void write_initial_file(const Store& s) {
  std::ofstream f(s.data_name.c_str(), std::ios::out | std::ios::binary | std::ios::trunc);
  auto pre = sentinel(s.c.off);
  if (!pre.empty()) f.write((const char*)pre.data(), pre.size());
  if (!s.c.fresh) { std::vector<char> z(s.n * NumericType(s.c.type).size_in_bytes(), 0); f.write(z.data(), z.size()); }
}

static long cfg_id = 0;

// builds the store; emits the Config line; returns false if the store could not be constructed
static bool make_store(vh::Trace& tr, Store& s, const Cfg& c, const std::string& dir) {
  s.c = c;
  ++cfg_id;
  auto sc = vh::make_scanner(c.N, c.R, c.tofMash > 0 ? c.tofMash : 0);
  s.pdi = ProjDataInfo::construct_proj_data_info(sc, 1, c.maxDelta, c.N / 2 / c.viewMash, c.ntang, false, c.tofMash > 0 ? (c.tofOne ? c.tofMash : 1) : 0);
  if (c.segReduce > 0) s.pdi->reduce_segment_range(s.pdi->get_min_segment_num() + c.segReduce, s.pdi->get_max_segment_num());
  s.exam = make_exam(c.exam);
  s.n = (long)s.pdi->size_all();
  const bool tof = s.pdi->get_num_tof_poss() > 1;
  s.data_name = dir + "/c" + std::to_string(cfg_id) + ".s";
  s.header_name = dir + "/c" + std::to_string(cfg_id) + ".hs";
  const ByteOrder bo = c.big ? ByteOrder::big_endian : ByteOrder::little_endian;
  std::string msg;
  bool err = false, herr = false;
  if (c.backing == "memory") {
    err = vh::threw([&] { s.pdm = new ProjDataInMemory(s.exam, s.pdi); s.pd.reset(s.pdm); }, &msg);
  } else if (c.backing == "interfile") {
    if (!c.fresh) write_initial_file(s); else std::remove(s.data_name.c_str());
    const std::ios::openmode mode = c.fresh ? (std::ios::in | std::ios::out | std::ios::trunc) : (std::ios::in | std::ios::out);
    err = vh::threw([&] { s.pdfs = new ProjDataInterfile(s.exam, s.pdi, s.header_name, mode, c.seq, order_enum(c, tof), NumericType(c.type), bo, (float)c.scale);
                          s.pd.reset(s.pdfs); }, &msg);
  } else {
    if (c.backing != "sstream") write_initial_file(s);
    err = vh::threw([&] {
      if (c.backing == "sstream") {
        auto pre = sentinel(c.off);
        std::string init(pre.begin(), pre.end());
        init += std::string(s.n * NumericType(c.type).size_in_bytes(), '\0');
        s.stream.reset(new std::stringstream(init, std::ios::in | std::ios::out | std::ios::binary));
      } else
        s.stream.reset(new std::fstream(s.data_name.c_str(), std::ios::in | std::ios::out | std::ios::binary));
      s.pdfs = new PDFS(s.exam, s.pdi, s.stream, c.off, c.seq, order_enum(c, tof), NumericType(c.type), bo, (float)c.scale);
      s.pd.reset(s.pdfs); }, &msg);
    if (!err && c.backing == "hdrstream")
      herr = vh::threw([&] { if (write_basic_interfile_PDFS_header(s.header_name, s.data_name, *s.pdfs) != Succeeded::yes) throw std::string("no"); }, &msg);
  }
  // related viewgrams come from the PET symmetries, which presuppose a symmetric segment range
  if (!err && c.segReduce == 0) {
    bool t = vh::threw([&] {
      shared_ptr<DiscretisedDensity<3, float>> img(new VoxelsOnCartesianGrid<float>(*s.pdi));
      s.symm.reset(new DataSymmetriesForBins_PET_CartesianGrid(s.pdi, img)); });
    if (t) s.symm.reset();
  }
  std::vector<std::vector<int>> ax;
  for (int g = s.pdi->get_min_segment_num(); g <= s.pdi->get_max_segment_num(); ++g)
    ax.push_back({ s.pdi->get_min_axial_pos_num(g), s.pdi->get_max_axial_pos_num(g) });
  std::vector<int> pre; for (auto b : sentinel(c.off)) pre.push_back(b);
  vh::Json j("Config");
  j.num("id", cfg_id).str("backing", c.backing).boolean("fresh", c.fresh).boolean("byView", c.byView).arr("seq", c.seq).num("off", c.off)
      .num("size", (long long)NumericType(c.type).size_in_bytes()).str("type", type_name(c.type)).boolean("big", c.big)
      .num("minSeg", s.pdi->get_min_segment_num()).num("maxSeg", s.pdi->get_max_segment_num()).arr2("ax", ax)
      .num("minView", s.pdi->get_min_view_num()).num("maxView", s.pdi->get_max_view_num())
      .num("minTang", s.pdi->get_min_tangential_pos_num()).num("maxTang", s.pdi->get_max_tangential_pos_num())
      .num("minTof", s.pdi->get_min_tof_pos_num()).num("maxTof", s.pdi->get_max_tof_pos_num()).num("n", s.n)
      .num("scale", c.scale).boolean("timingOrder", timing_order_given(c)).boolean("tofReady", c.tofMash > 0)
      .arr("pre0", pre).boolean("err", err).boolean("herr", herr).boolean("rel", (bool)s.symm);
  if (!err) observe(j, s); else j.num("bytes", 0).arr("pre", std::vector<int>()).arr("file", std::vector<int>());
  tr.emit(j);
  return !err && !herr;
}

// a crash (signal) while a call on the store is in progress is an observation: an Abort line naming the call;
// a crash anywhere else is a tooling failure (exit 3)
static const char* volatile cur_call = nullptr;
static void on_signal(int sig) {
  if (vh::Trace::current() && cur_call) {
    vh::Trace::current()->emit(vh::Json("Abort").num("sig", sig).str("during", cur_call));
    vh::Trace::current()->flush();
    _exit(0);
  }
  if (vh::Trace::current()) vh::Trace::current()->flush();   // keep what was recorded so far
  _exit(3);
}
static bool no_oor_seg = false;   // C02_NO_OORSEG: sanitizer pass leaves out get_* calls with an out-of-range segment (known finding)

// ------------------------------------------------------------------ operations
enum Kind { SETBIN, SETSINO, SETVIEW, SETSEGV, SETSEGS, SETREL, FILL, FILLFROM, FILLITER, ITERSET, ITERCOPY,
            GETBIN, GETSINO, GETVIEW, GETSEGV, GETSEGS, GETREL, COPYTO, REOPEN, WRITETOFILE, CLONEMEM,
            ARITH, STATS, SUBSET, FILLWIDE, FILLNARROW, ARITHBAD, STDSEQ, REATTACH, SECOND, NKINDS };
enum Arith { XAPYB, XAPYBV, SAPYB, SAPYBV, ADDPD, SUBPD, MULPD, DIVPD, ADDF, SUBF, MULF, DIVF, NARITH };
struct Op { int kind; int seg, ax, view, tang, tof; long pos; int sub = 0; int w = 0; long a = 1, b = 1; };

template <class A2> static void put2(Store& s, A2& a, std::vector<long long>& vals) {
  for (int i = a.get_min_index(); i <= a.get_max_index(); ++i)
    for (int k = a[i].get_min_index(); k <= a[i].get_max_index(); ++k) { long v = s.nextval(); a[i][k] = (float)v; vals.push_back(v); }
}
template <class A3> static void put3(Store& s, A3& a, std::vector<long long>& vals) {
  for (int i = a.get_min_index(); i <= a.get_max_index(); ++i) put2(s, a[i], vals);
}
template <class A2> static void take2(const A2& a, std::vector<long long>& vals) {
  for (int i = a.get_min_index(); i <= a.get_max_index(); ++i)
    for (int k = a[i].get_min_index(); k <= a[i].get_max_index(); ++k) vals.push_back(as_int(a[i][k]));
}
template <class A3> static void take3(const A3& a, std::vector<long long>& vals) {
  for (int i = a.get_min_index(); i <= a.get_max_index(); ++i) take2(a[i], vals);
}
template <class A2> static std::vector<int> shape2(const A2& a) {
  if (a.get_length() == 0) return { 0, -1, 0, -1 };
  return { a.get_min_index(), a.get_max_index(), a[a.get_min_index()].get_min_index(), a[a.get_min_index()].get_max_index() };
}
template <class A3> static std::vector<int> shape3(const A3& a) {
  if (a.get_length() == 0) return { 0, -1, 0, -1, 0, -1 };
  auto s2 = shape2(a[a.get_min_index()]);
  return { a.get_min_index(), a.get_max_index(), s2[0], s2[1], s2[2], s2[3] };
}

static void reopen(vh::Json& j, Store& s, const std::string& header_name, bool prior_err = false) {
  // a second object is created from the header while the writer is still open
  shared_ptr<ProjData> r;
  std::string msg;
  bool err = prior_err || vh::threw([&] { r = ProjData::read_from_file(header_name); if (!r) throw std::string("null"); }, &msg);
  j.boolean("err", err);
  j.arr("geo0", geo_vector(*s.pdi)).raw("exam0", exam_json(*s.exam)).raw("examx0", exam_extra_json(*s.exam));
  if (err) { j.arr("geo", std::vector<int>()).raw("exam", "{}").raw("examx", "{}").raw("lay", "{}").boolean("pdiEq", false).boolean("examEq", false)
                 .boolean("verr", true).arr("vals", std::vector<int>()); return; }
  j.arr("geo", geo_vector(*r->get_proj_data_info_sptr())).raw("exam", exam_json(r->get_exam_info())).raw("examx", exam_extra_json(r->get_exam_info()));
  j.boolean("pdiEq", *r->get_proj_data_info_sptr() == *s.pdi).boolean("examEq", r->get_exam_info() == *s.exam);
  vh::Json l;
  if (auto* q = dynamic_cast<PDFS*>(r.get())) {
    const PDFS::StorageOrder o = q->get_storage_order();
    l.boolean("isStream", true)
        .boolean("byView", o == PDFS::Segment_View_AxialPos_TangPos || o == PDFS::Timing_Segment_View_AxialPos_TangPos)
        .boolean("bySino", o == PDFS::Segment_AxialPos_View_TangPos || o == PDFS::Timing_Segment_AxialPos_View_TangPos)
        .arr("seq", q->get_segment_sequence_in_stream()).num("off", (long long)q->get_offset_in_stream())
        .str("type", type_name(q->get_data_type_in_stream().id)).boolean("big", q->get_byte_order_in_stream() == ByteOrder::big_endian)
        .num("scale", vh::fx(q->get_scale_factor(), 10));
  } else l.boolean("isStream", false);
  j.raw("lay", l.done());
  std::vector<float> out((size_t)r->get_proj_data_info_sptr()->size_all(), -5.F);
  bool verr = vh::threw([&] { r->copy_to(out.begin()); });
  std::vector<long long> vals; if (!verr) for (float f : out) vals.push_back(as_int(f));
  j.boolean("verr", verr).arr("vals", vals);
}

static void perform(vh::Trace& tr, Store& s, const Op& op) {
  static const char* names[] = { "SetBin", "SetSino", "SetView", "SetSegV", "SetSegS", "SetRel", "Fill", "FillFrom", "FillIter", "IterSet", "IterCopy",
                                 "GetBin", "GetSino", "GetView", "GetSegV", "GetSegS", "GetRel", "CopyTo", "Reopen", "WriteToFile", "CloneMem",
                                 "Arith", "Stats", "Subset", "FillWide", "FillNarrow", "ArithBad", "StdSeq", "Reattach", "Second" };
  static const char* arith_names[] = { "Xapyb", "XapybV", "Sapyb", "SapybV", "AddPD", "SubPD", "MulPD", "DivPD", "AddF", "SubF", "MulF", "DivF" };
  const char* ename = op.kind == ARITH ? arith_names[op.sub] : names[op.kind];
  vh::Json j(ename);
  cur_call = ename;
  struct Leave { ~Leave() { cur_call = nullptr; } } leave;
  std::vector<long long> vals;
  std::vector<int> shape;
  std::vector<std::vector<int>> pairs;
  bool err = false;
  std::string msg;
  const bool second = op.w && s.pd2;
  ProjData& pd = second ? *s.pd2 : *s.pd;
  PDFS* const pdfs = second ? s.pdfs2 : s.pdfs;
  j.num("w", second ? 2 : 1);
  vh::Rng lr((uint64_t)op.pos * 1000003ULL + (uint64_t)op.sub * 7919ULL + (uint64_t)s.next);   // operands of this call (inputs)
  // an in-memory operand with small positive integers, recorded in the standard order
  auto operand = [&](const shared_ptr<ProjDataInfo>& pdi, int lo, int hi, std::vector<long long>& rec) {
    shared_ptr<ProjDataInMemory> m(new ProjDataInMemory(s.exam, pdi));
    std::vector<float> v(pdi->size_all());
    for (auto& f : v) { const int x = lr.range(lo, hi); f = (float)x; rec.push_back(x); }
    m->fill_from(v.begin());
    return m; };
  // geometry with one more / one less pair of oblique segments than the store's
  auto other_pdi = [&](int dmax) {
    auto sc = vh::make_scanner(s.c.N, s.c.R, s.c.tofMash > 0 ? s.c.tofMash : 0);
    shared_ptr<ProjDataInfo> p(ProjDataInfo::construct_proj_data_info(sc, 1, s.c.maxDelta + dmax, s.c.N / 2 / s.c.viewMash, s.c.ntang, false,
                                                                      s.c.tofMash > 0 ? (s.c.tofOne ? s.c.tofMash : 1) : 0));
    return p; };
  auto geo_of = [&](vh::Json& jj, const ProjDataInfo& p) {
    std::vector<std::vector<int>> ax;
    for (int g = p.get_min_segment_num(); g <= p.get_max_segment_num(); ++g) ax.push_back({ p.get_min_axial_pos_num(g), p.get_max_axial_pos_num(g) });
    jj.num("srcMinSeg", p.get_min_segment_num()).num("srcMaxSeg", p.get_max_segment_num()).arr2("srcAx", ax); };
  const bool keep_mul = op.kind == ARITH && (op.sub == DIVPD || op.sub == DIVF);
  std::vector<long long> mul_y; long mul_f = 0;
  if (keep_mul) { mul_y = s.last_mul_y; mul_f = s.last_mul_f; }
  s.last_mul_y.clear(); s.last_mul_f = 0;
  switch (op.kind) {
  case SETBIN: {
    long v = s.nextval(); vals.push_back(v);
    Bin b(op.seg, op.view, op.ax, op.tang, op.tof, (float)v);
    err = vh::threw([&] { if (s.pdm) s.pdm->set_bin_value(b); else pdfs->set_bin_value(b); }, &msg);
    j.num("seg", op.seg).num("ax", op.ax).num("view", op.view).num("tang", op.tang).num("tof", op.tof);
    break; }
  case GETBIN: {
    Bin b(op.seg, op.view, op.ax, op.tang, op.tof);
    float f = -5.F;
    err = vh::threw([&] { f = s.pdm ? s.pdm->get_bin_value(b) : pdfs->get_bin_value(b); }, &msg);
    if (!err) vals.push_back(as_int(f));
    j.num("seg", op.seg).num("ax", op.ax).num("view", op.view).num("tang", op.tang).num("tof", op.tof);
    break; }
  case SETSINO: {
    err = vh::threw([&] { Sinogram<float> a(s.pdi, SinogramIndices(op.ax, op.seg, op.tof)); put2(s, a, vals);
                          if (pd.set_sinogram(a) != Succeeded::yes) throw std::string("no"); }, &msg);
    j.num("seg", op.seg).num("ax", op.ax).num("tof", op.tof);
    break; }
  case GETSINO: {
    err = vh::threw([&] { Sinogram<float> a = pd.get_sinogram(op.ax, op.seg, false, op.tof); take2(a, vals); shape = shape2(a);
                          j.arr("idx", std::vector<int>{ a.get_segment_num(), a.get_axial_pos_num(), a.get_timing_pos_num() }); }, &msg);
    if (err) { vals.clear(); j.arr("idx", std::vector<int>()); }
    j.num("seg", op.seg).num("ax", op.ax).num("tof", op.tof);
    break; }
  case SETVIEW: {
    err = vh::threw([&] { Viewgram<float> a(s.pdi, ViewgramIndices(op.view, op.seg, op.tof)); put2(s, a, vals);
                          if (pd.set_viewgram(a) != Succeeded::yes) throw std::string("no"); }, &msg);
    j.num("seg", op.seg).num("view", op.view).num("tof", op.tof);
    break; }
  case GETVIEW: {
    err = vh::threw([&] { Viewgram<float> a = pd.get_viewgram(op.view, op.seg, false, op.tof); take2(a, vals); shape = shape2(a);
                          j.arr("idx", std::vector<int>{ a.get_segment_num(), a.get_view_num(), a.get_timing_pos_num() }); }, &msg);
    if (err) { vals.clear(); j.arr("idx", std::vector<int>()); }
    j.num("seg", op.seg).num("view", op.view).num("tof", op.tof);
    break; }
  case SETSEGV: {
    err = vh::threw([&] { SegmentByView<float> a(s.pdi, SegmentIndices(op.seg, op.tof)); put3(s, a, vals);
                          if (pd.set_segment(a) != Succeeded::yes) throw std::string("no"); }, &msg);
    j.num("seg", op.seg).num("tof", op.tof);
    break; }
  case SETSEGS: {
    err = vh::threw([&] { SegmentBySinogram<float> a(s.pdi, SegmentIndices(op.seg, op.tof)); put3(s, a, vals);
                          if (pd.set_segment(a) != Succeeded::yes) throw std::string("no"); }, &msg);
    j.num("seg", op.seg).num("tof", op.tof);
    break; }
  case GETSEGV: {
    err = vh::threw([&] { SegmentByView<float> a = pd.get_segment_by_view(op.seg, op.tof); take3(a, vals); shape = shape3(a);
                          j.arr("idx", std::vector<int>{ a.get_segment_num(), a.get_timing_pos_num() }); }, &msg);
    if (err) { vals.clear(); j.arr("idx", std::vector<int>()); }
    j.num("seg", op.seg).num("tof", op.tof);
    break; }
  case GETSEGS: {
    err = vh::threw([&] { SegmentBySinogram<float> a = pd.get_segment_by_sinogram(op.seg, op.tof); take3(a, vals); shape = shape3(a);
                          j.arr("idx", std::vector<int>{ a.get_segment_num(), a.get_timing_pos_num() }); }, &msg);
    if (err) { vals.clear(); j.arr("idx", std::vector<int>()); }
    j.num("seg", op.seg).num("tof", op.tof);
    break; }
  case SETREL: {
    err = vh::threw([&] {
      RelatedViewgrams<float> rv = pd.get_empty_related_viewgrams(ViewgramIndices(op.view, op.seg, op.tof), s.symm, false, op.tof);
      for (auto it = rv.begin(); it != rv.end(); ++it) {
        pairs.push_back({ it->get_view_num(), it->get_segment_num(), it->get_timing_pos_num() });
        put2(s, *it, vals); }
      if (pd.set_related_viewgrams(rv) != Succeeded::yes) throw std::string("no"); }, &msg);
    j.num("seg", op.seg).num("view", op.view).num("tof", op.tof).arr2("pairs", pairs);
    break; }
  case GETREL: {
    err = vh::threw([&] {
      RelatedViewgrams<float> rv = pd.get_related_viewgrams(ViewgramIndices(op.view, op.seg, op.tof), s.symm, false, op.tof);
      for (auto it = rv.begin(); it != rv.end(); ++it) {
        pairs.push_back({ it->get_view_num(), it->get_segment_num(), it->get_timing_pos_num() });
        take2(*it, vals); } }, &msg);
    if (err) { vals.clear(); pairs.clear(); }
    j.num("seg", op.seg).num("view", op.view).num("tof", op.tof).arr2("pairs", pairs);
    break; }
  case FILL: {
    long v = s.nextval(); vals.push_back(v);
    err = vh::threw([&] { pd.fill((float)v); }, &msg);
    if (!err) s.bound = v;
    break; }
  case FILLFROM: {
    std::vector<float> src(s.n);
    for (long i = 0; i < s.n; ++i) { long v = s.nextval(); src[i] = (float)v; vals.push_back(v); }
    err = vh::threw([&] { ProjDataInMemory m(s.exam, s.pdi); m.fill_from(src.begin()); pd.fill(m); }, &msg);
    if (!err) s.bound = *std::max_element(vals.begin(), vals.end());
    break; }
  case FILLITER: {
    std::vector<float> src(s.n);
    for (long i = 0; i < s.n; ++i) { long v = s.nextval(); src[i] = (float)v; vals.push_back(v); }
    err = vh::threw([&] { pd.fill_from(src.begin()); }, &msg);
    if (!err) s.bound = *std::max_element(vals.begin(), vals.end());
    break; }
  case ITERSET: {
    long v = s.nextval(); vals.push_back(v);
    *(s.pdm->begin_all() + op.pos) = (float)v;
    j.num("pos", op.pos);
    break; }
  case ITERCOPY: {
    std::vector<float> src(s.n);
    for (long i = 0; i < s.n; ++i) { long v = s.nextval(); src[i] = (float)v; vals.push_back(v); }
    std::copy(src.begin(), src.end(), s.pdm->begin_all());
    s.bound = *std::max_element(vals.begin(), vals.end());
    break; }
  case COPYTO: {
    std::vector<float> out(s.n, -5.F);
    err = vh::threw([&] { pd.copy_to(out.begin()); }, &msg);
    if (!err) for (float f : out) vals.push_back(as_int(f));
    break; }
  case REOPEN: {
    reopen(j, s, s.header_name);
    observe(j, s);
    tr.emit(j);
    return; }
  case WRITETOFILE: {
    // ProjData::write_to_file: a new header + data pair written from the store, then read back
    const std::string stem = s.data_name.substr(0, s.data_name.size() - 2) + "_w";
    bool werr = vh::threw([&] { if (pd.write_to_file(stem + ".hs") != Succeeded::yes) throw std::string("no"); });
    reopen(j, s, stem + ".hs", werr);
    std::remove((stem + ".hs").c_str()); std::remove((stem + ".s").c_str());
    observe(j, s);
    tr.emit(j);
    return; }
  case ARITH: {
    std::vector<long long> x, y, av, bv;
    shared_ptr<ProjDataInMemory> X, Y, A, B;
    const float a = (float)op.a, b = (float)op.b;
    long nb = s.bound;
    switch (op.sub) {
    case XAPYB: X = operand(s.pdi, 1, 20, x); Y = operand(s.pdi, 1, 20, y); err = vh::threw([&] { pd.xapyb(*X, a, *Y, b); }, &msg); nb = 20 * (op.a + op.b); break;
    case XAPYBV: X = operand(s.pdi, 1, 20, x); Y = operand(s.pdi, 1, 20, y); A = operand(s.pdi, 1, 3, av); B = operand(s.pdi, 1, 3, bv);
      err = vh::threw([&] { pd.xapyb(*X, *A, *Y, *B); }, &msg); nb = 120; break;
    case SAPYB: Y = operand(s.pdi, 1, 20, y); err = vh::threw([&] { pd.sapyb(a, *Y, b); }, &msg); nb = s.bound * op.a + 20 * op.b; break;
    case SAPYBV: Y = operand(s.pdi, 1, 20, y); A = operand(s.pdi, 1, 2, av); B = operand(s.pdi, 1, 3, bv);
      err = vh::threw([&] { pd.sapyb(*A, *Y, *B); }, &msg); nb = s.bound * 2 + 60; break;
    case ADDPD: Y = operand(s.pdi, 1, 20, y); err = vh::threw([&] { pd += *Y; }, &msg); nb = s.bound + 20; break;
    case SUBPD: Y = operand(s.pdi, 1, 20, y); err = vh::threw([&] { pd -= *Y; }, &msg); nb = s.bound + 20; break;
    case MULPD: Y = operand(s.pdi, 1, 3, y); err = vh::threw([&] { pd *= *Y; }, &msg); nb = s.bound * 3; if (!err) s.last_mul_y = y; break;
    case DIVPD: { y = mul_y; std::vector<float> v(y.begin(), y.end()); Y.reset(new ProjDataInMemory(s.exam, s.pdi)); Y->fill_from(v.begin());
      err = vh::threw([&] { pd /= *Y; }, &msg); break; }
    case ADDF: err = vh::threw([&] { pd += a; }, &msg); nb = s.bound + op.a; break;
    case SUBF: err = vh::threw([&] { pd -= a; }, &msg); nb = s.bound + op.a; break;
    case MULF: err = vh::threw([&] { pd *= a; }, &msg); nb = s.bound * op.a; if (!err) s.last_mul_f = op.a; break;
    case DIVF: { const float d = (float)mul_f; err = vh::threw([&] { pd /= d; }, &msg); j.num("a", mul_f); break; }
    }
    if (!err) s.bound = nb;
    if (op.sub != DIVF) j.num("a", op.a);
    j.num("b", op.b).arr("x", x).arr("y", y).arr("av", av).arr("bv", bv);
    break; }
  case ARITHBAD: {
    // an operand whose geometry has fewer segments: "ProjDataInfo don't match" must be reported, nothing may change
    std::vector<long long> y;
    shared_ptr<ProjDataInfo> np = other_pdi(-1);
    shared_ptr<ProjDataInMemory> Y = operand(np, 1, 20, y), X = operand(s.pdi, 1, 20, vals);
    vals.clear();
    if (op.sub == 0) err = vh::threw([&] { pd.xapyb(*X, 2.F, *Y, 1.F); }, &msg);
    else err = vh::threw([&] { pd.sapyb(2.F, *Y, 1.F); }, &msg);
    geo_of(j, *np);
    j.num("sub", op.sub);
    break; }
  case STATS: {
    double sum = 0, mx = 0, mn = 0, nsq = 0, nrm = 0;
    err = vh::threw([&] { sum = pd.sum(); mx = pd.find_max(); mn = pd.find_min(); nsq = pd.norm_squared(); nrm = pd.norm(); }, &msg);
    auto enc = [](double d) { return (!(d == d) || d > 2e9 || d < -2e9) ? (long long)-777777 : (long long)std::llround(d); };
    j.num("sum", enc(sum)).num("max", enc(mx)).num("min", enc(mn)).num("nsq", enc(nsq)).num("norm", enc(nrm))
        .boolean("nsqInt", nsq == std::floor(nsq));
    break; }
  case SUBSET: {
    // get_subset(views): a ProjDataInMemory with the chosen views; then write_to_file of that subset (announced as unsupported)
    std::vector<int> views;
    for (int v = s.pdi->get_min_view_num(); v <= s.pdi->get_max_view_num(); ++v) if (lr.coin()) views.push_back(v);
    if (views.empty()) views.push_back(s.pdi->get_max_view_num());
    std::vector<int> orig; std::vector<long long> wvals; bool werr = true; int nv = -1;
    err = vh::threw([&] {
      unique_ptr<ProjDataInMemory> sub = pd.get_subset(views);
      const ProjDataInMemory& cs = *sub;
      for (auto it = cs.begin_all(); it != cs.end_all(); ++it) vals.push_back(as_int(*it));
      nv = sub->get_num_views(); orig = sub->get_original_view_nums();
      const std::string stem = (s.data_name.empty() ? std::string("/var/tmp/C02-mem") + std::to_string(cfg_id) + ".s" : s.data_name);
      const std::string ws = stem.substr(0, stem.size() - 2) + "_sub";
      // (sanitizer pass: not for a one-view subset - the header writer asks the subset geometry for view 1 before it announces
      //  that subsets cannot be written: out-of-bounds read, see notes/C02.md "observations")
      if (!(no_oor_seg && views.size() == 1))
      werr = vh::threw([&] { if (sub->write_to_file(ws + ".hs") != Succeeded::yes) throw std::string("no");
                             auto r = ProjData::read_from_file(ws + ".hs"); std::vector<float> o(r->size_all()); r->copy_to(o.begin());
                             for (float f : o) wvals.push_back(as_int(f)); });
      std::remove((ws + ".hs").c_str()); std::remove((ws + ".s").c_str()); }, &msg);
    if (err) vals.clear();
    j.arr("views", views).arr("orig", orig).num("nv", nv).boolean("werr", werr).arr("wvals", werr ? std::vector<long long>() : wvals);
    break; }
  case FILLWIDE: {
    // fill(ProjData) from a source with MORE segments ("the source can have more")
    shared_ptr<ProjDataInfo> wp = other_pdi(+1);
    std::vector<float> src(wp->size_all());
    for (auto& f : src) { long v = s.nextval(); f = (float)v; vals.push_back(v); }
    err = vh::threw([&] { ProjDataInMemory m(s.exam, wp); m.fill_from(src.begin()); pd.fill(m); }, &msg);
    if (!err) s.bound = *std::max_element(vals.begin(), vals.end());
    geo_of(j, *wp);
    break; }
  case FILLNARROW: {
    // fill(ProjData) from a source with FEWER segments: "will call error() if ... the 'source' proj_data is not compatible"
    shared_ptr<ProjDataInfo> np = other_pdi(-1);
    std::vector<float> src(np->size_all());
    for (auto& f : src) { long v = s.nextval(); f = (float)v; vals.push_back(v); }
    err = vh::threw([&] { ProjDataInMemory m(s.exam, np); m.fill_from(src.begin()); pd.fill(m); }, &msg);
    geo_of(j, *np);
    break; }
  case STDSEQ: {
    j.arr("seq", ProjData::standard_segment_sequence(*s.pdi));
    break; }
  case REATTACH: {
    // the writer object(s) are destroyed and the SAME file is re-opened for update from its header; the history continues
    s.pd2.reset(); s.pdfs2 = nullptr; s.stream2.reset();
    s.pd.reset(); s.pdfs = nullptr; s.stream.reset();
    shared_ptr<ProjData> r;
    err = vh::threw([&] { r = ProjData::read_from_file(s.header_name, std::ios::in | std::ios::out); if (!r) throw std::string("null");
                          if (!dynamic_cast<PDFS*>(r.get())) throw std::string("not a stream"); }, &msg);
    if (err) { s.dead = true; j.raw("lay", "{}").boolean("pdiEq", false); }
    else {
      s.pd = r; s.pdfs = dynamic_cast<PDFS*>(r.get());
      const PDFS::StorageOrder o = s.pdfs->get_storage_order();
      vh::Json l;
      l.boolean("isStream", true).boolean("byView", o == PDFS::Segment_View_AxialPos_TangPos || o == PDFS::Timing_Segment_View_AxialPos_TangPos)
          .boolean("bySino", o == PDFS::Segment_AxialPos_View_TangPos || o == PDFS::Timing_Segment_AxialPos_View_TangPos)
          .arr("seq", s.pdfs->get_segment_sequence_in_stream()).num("off", (long long)s.pdfs->get_offset_in_stream())
          .str("type", type_name(s.pdfs->get_data_type_in_stream().id)).boolean("big", s.pdfs->get_byte_order_in_stream() == ByteOrder::big_endian)
          .num("scale", vh::fx(s.pdfs->get_scale_factor(), 10));
      const bool same = *r->get_proj_data_info_sptr() == *s.pdi;
      j.raw("lay", l.done()).boolean("pdiEq", same);
      if (!same) s.dead = true;     // the re-opened object describes another geometry: the history cannot be continued
    }
    break; }
  case SECOND: {
    // a second writer object on the same file (its own stream); from now on calls go through either object
    err = vh::threw([&] {
      if (s.c.backing == "stream") {
        s.stream2.reset(new std::fstream(s.data_name.c_str(), std::ios::in | std::ios::out | std::ios::binary));
        const bool tof = s.pdi->get_num_tof_poss() > 1;
        s.pdfs2 = new PDFS(s.exam, s.pdi, s.stream2, s.c.off, s.c.seq, order_enum(s.c, tof), NumericType(s.c.type),
                           s.c.big ? ByteOrder::big_endian : ByteOrder::little_endian, (float)s.c.scale);
        s.pd2.reset(s.pdfs2);
      } else {
        shared_ptr<ProjData> r = ProjData::read_from_file(s.header_name, std::ios::in | std::ios::out);
        if (!r || !dynamic_cast<PDFS*>(r.get())) throw std::string("null");
        s.pd2 = r; s.pdfs2 = dynamic_cast<PDFS*>(r.get());
      } }, &msg);
    bool same = !err && *s.pd2->get_proj_data_info_sptr() == *s.pdi;
    j.boolean("pdiEq", same);
    if (err || !same) { s.pd2.reset(); s.pdfs2 = nullptr; s.stream2.reset(); }
    break; }
  case CLONEMEM: {
    // ProjDataInMemory(const ProjData&): a copy in memory, read through its const iterators
    err = vh::threw([&] { const ProjDataInMemory m(pd); for (auto it = m.begin_all(); it != m.end_all(); ++it) vals.push_back(as_int(*it)); }, &msg);
    if (err) vals.clear();
    break; }
  }
  j.boolean("err", err).arr("vals", vals);
  if (err) j.str("msg", msg.substr(0, 120));
  if (op.kind == GETSINO || op.kind == GETVIEW || op.kind == GETSEGV || op.kind == GETSEGS) j.arr("shape", shape);
  observe(j, s);
  tr.emit(j);
#if defined(__SANITIZE_ADDRESS__)
  tr.flush();      // a sanitizer report ends the process at once: keep every completed line
#endif
}

// ------------------------------------------------------------------ random histories
static int pick_index(vh::Rng& rng, int lo, int hi, bool& oor, bool allow_oor) {
  if (allow_oor && rng.range(0, 99) < 4) { oor = true; return rng.coin() ? lo - 1 : hi + 1; }
  return rng.range(lo, hi);
}

static Op random_op(vh::Rng& rng, Store& s, bool writes_only) {
  const ProjDataInfo& p = *s.pdi;
  Op op{};
  for (;;) {
    int k;
    const int r = rng.range(0, 99);
    if (writes_only) {
      static const int w[] = { SETBIN, SETBIN, SETBIN, SETSINO, SETSINO, SETVIEW, SETVIEW, SETSEGV, SETSEGS, SETREL, FILL, FILLFROM, FILLITER, REOPEN, REOPEN,
                               FILLWIDE, FILLNARROW, REATTACH, SECOND, STDSEQ };
      k = w[rng.range(0, 19)];
    } else if (r < 50) {
      static const int w[] = { SETBIN, SETBIN, SETBIN, SETBIN, SETSINO, SETSINO, SETSINO, SETVIEW, SETVIEW, SETVIEW, SETSEGV, SETSEGV, SETSEGS, SETSEGS,
                               SETREL, SETREL, FILL, FILLFROM, FILLITER, ITERSET, ITERSET, ITERCOPY,
                               ARITH, ARITH, ARITH, ARITH, ARITH, ARITH, FILLWIDE, FILLNARROW, ARITHBAD, REATTACH, SECOND };
      k = w[rng.range(0, 32)];
    } else {
      static const int g[] = { GETBIN, GETBIN, GETBIN, GETBIN, GETSINO, GETSINO, GETSINO, GETVIEW, GETVIEW, GETVIEW, GETSEGV, GETSEGV, GETSEGS, GETSEGS,
                               GETREL, GETREL, COPYTO, COPYTO, REOPEN, REOPEN, WRITETOFILE, CLONEMEM, STATS, STATS, SUBSET, SUBSET, STDSEQ };
      k = g[rng.range(0, 26)];
    }
    if ((k == ITERSET || k == ITERCOPY) && !s.pdm) continue;
    if (k == REOPEN && s.header_name.empty()) continue;
    if (k == REOPEN && (s.c.backing == "stream" || s.c.backing == "memory" || s.c.backing == "sstream")) continue;
    // set_bin_value on a scaled store writes the unscaled number (known finding C02-setbin-scale): only where that number fits the type
    if (k == SETBIN && s.c.scale != 1 && !wide_type(s)) continue;
    if ((k == SETREL || k == GETREL) && !s.symm) continue;
    const bool files_hdr = s.c.backing == "interfile" || s.c.backing == "hdrstream";
    if (k == REATTACH && (!files_hdr || rng.range(0, 3) != 0)) continue;
    if (k == SECOND && (s.pdm || s.pd2 || s.c.backing == "sstream" || rng.range(0, 2) != 0)) continue;
    if (k == ARITH && s.c.scale != 1) continue;      // (results would have to be multiples of the scale factor)
    if (k == FILLWIDE && (s.c.maxDelta >= s.c.R - 1 || s.c.segReduce)) continue;
    if ((k == FILLNARROW || k == ARITHBAD) && (s.c.maxDelta < 1 || s.c.segReduce)) continue;
    if ((k == ARITHBAD || k == STATS || k == SUBSET || k == ARITH) && s.c.fresh) continue;
    if (k == ARITH) {
      if (!(s.pdm || wide_type(s))) continue;
      const int sub = rng.range(0, NARITH - 1);
      op.sub = sub; op.a = rng.range(1, 3); op.b = rng.range(1, 3);
      if ((sub == SUBPD || sub == SUBF) && !(s.pdm || signed_type(s))) continue;
      if (sub == DIVPD && s.last_mul_y.empty()) op.sub = MULPD;
      if (sub == DIVF && s.last_mul_f == 0) op.sub = MULF;
      long nb = s.bound;
      switch (op.sub) { case SAPYB: nb = s.bound * op.a + 60; break; case SAPYBV: nb = s.bound * 2 + 60; break; case MULPD: nb = s.bound * 3; break;
        case MULF: nb = s.bound * op.a; break; default: nb = s.bound + 120; }
      if (nb > ARITH_LIM) continue;
    }
    if (k == ARITHBAD) op.sub = rng.range(0, 1);
    op.kind = k;
    break;
  }
  op.w = s.pd2 ? (int)rng.coin() : 0;
  bool oor = false;
  const bool a = true;
  // the segment decides the axial range; an out-of-range segment is only used where the request can be formed without
  // asking the geometry object about that segment (single bins, sinograms, the get_* calls)
  const bool seg_oor_ok = op.kind == SETBIN || op.kind == GETBIN || op.kind == SETSINO || op.kind == GETSINO || op.kind == GETVIEW
                          || op.kind == GETSEGV || op.kind == GETSEGS;
  op.seg = pick_index(rng, p.get_min_segment_num(), p.get_max_segment_num(), oor,
                      a && seg_oor_ok && !(no_oor_seg && (op.kind == GETVIEW || op.kind == GETSEGV || op.kind == GETSEGS)));
  const int sref = std::min(std::max(op.seg, p.get_min_segment_num()), p.get_max_segment_num());
  op.ax = pick_index(rng, p.get_min_axial_pos_num(sref), p.get_max_axial_pos_num(sref), oor, a && !oor);
  op.view = pick_index(rng, p.get_min_view_num(), p.get_max_view_num(), oor, a && !oor && op.kind != SETREL && op.kind != GETREL);
  op.tang = pick_index(rng, p.get_min_tangential_pos_num(), p.get_max_tangential_pos_num(), oor, a && !oor);
  op.tof = pick_index(rng, p.get_min_tof_pos_num(), p.get_max_tof_pos_num(), oor, a && !oor && op.kind != SETREL && op.kind != GETREL);
  op.pos = rng.range(0, (int)s.n - 1);
  return op;
}

static std::vector<int> all_types() {
  return { NumericType::FLOAT, NumericType::SHORT, NumericType::USHORT, NumericType::INT, NumericType::UINT, NumericType::SCHAR,
           NumericType::UCHAR, NumericType::LONG, NumericType::ULONG, NumericType::DOUBLE };
}

static Cfg random_cfg(vh::Rng& rng, long i) {
  Cfg c{};
  static const char* backs[] = { "stream", "interfile", "hdrstream", "memory" };
  c.backing = backs[i % 4];
  c.R = rng.range(0, 9) < 6 ? 3 : 2;
  c.N = 2 * rng.range(2, 4);
  // deeper bounds (thorough tier): 4 rings = up to 7 segments with 1..4 axial positions, more often 5 TOF bins
  static const bool deep = getenv("C02_DEEP") != nullptr;
  const bool four = deep && rng.range(0, 3) == 0;
  if (four) { c.R = 4; c.N = 4; }
  c.viewMash = (c.N == 8 && rng.coin()) ? 2 : 1;
  c.maxDelta = rng.range(0, 9) < 7 ? c.R - 1 : rng.range(0, c.R - 1);
  c.ntang = rng.range(2, 3);
  c.tofMash = (i / 4) % 2 ? 3 : 0;     // number of TOF positions (0 = non-TOF)
  if (c.tofMash && rng.range(0, deep ? 1 : 4) == 0) c.tofMash = 5;
  if (four) c.ntang = 2;
  if (c.tofMash == 5 && c.R == 3 && c.maxDelta == 2) c.ntang = 2;
  c.tofOne = c.tofMash > 0 && rng.range(0, 5) == 0;
  c.segReduce = 0;
  if ((c.backing == "stream" || c.backing == "memory") && c.maxDelta >= 1 && rng.range(0, 5) == 0) c.segReduce = 1;
  c.fresh = c.backing != "memory" && rng.range(0, 9) < 3;
  c.byView = (i / 8) % 2 == 0;
  c.tofOrderGiven = rng.coin();
  const int nseg = 2 * c.maxDelta + 1 - c.segReduce;
  const int minseg = -c.maxDelta + c.segReduce;
  for (int k = 0; k < nseg; ++k) c.seq.push_back(minseg + k);
  if (c.backing != "memory") for (int k = nseg - 1; k > 0; --k) std::swap(c.seq[k], c.seq[rng.range(0, k)]);
  c.off = c.backing == "interfile" || c.backing == "memory" ? 0 : (rng.coin() ? 0 : rng.range(1, 13));
  c.type = c.backing == "memory" ? NumericType::FLOAT : (NumericType::Type)all_types()[rng.range(0, 9)];
  c.big = c.backing == "memory" ? false : rng.coin();
  c.exam = rng.range(0, 3);
  // memory-backed stream (separate get and put positions): pre-sized only (a string buffer cannot be extended by seeking)
  if (c.backing == "stream" && rng.coin()) { c.backing = "sstream"; c.fresh = false; }
  // power-of-two scale factor on integer on-disk types
  c.scale = 1;
  if (c.backing != "memory" && c.type != NumericType::FLOAT && c.type != NumericType::DOUBLE && rng.range(0, 2) == 0) c.scale = rng.coin() ? 2 : 4;
  return c;
}

static void cleanup(Store& s) {
  s.pd2.reset(); s.stream2.reset();
  s.pd.reset(); s.stream.reset();
  if (!s.data_name.empty()) std::remove(s.data_name.c_str());
  if (!s.header_name.empty()) std::remove(s.header_name.c_str());
}

static int run_rand(const std::string& out, long nconf, long nops, const std::string& dir) {
  vh::Trace tr(out);
  vh::Rng rng(vh::seed_from_env());
  for (long i = 0; i < nconf; ++i) {
    Cfg c = random_cfg(rng, i);
    Store s;
    if (make_store(tr, s, c, dir)) {
      long ops = nops;
      if (type_max(c.type) < 1000) ops = std::min(ops, 60L);
      for (long k = 0; k < ops && !s.dead; ++k) {
        Op o = random_op(rng, s, c.fresh);
        perform(tr, s, o);
        // a multiplication is often followed at once by the division that undoes it (exact quotients)
        if (o.kind == ARITH && (o.sub == MULPD || o.sub == MULF) && rng.coin() && (!s.last_mul_y.empty() || s.last_mul_f)) {
          Op d = o; d.sub = o.sub == MULPD ? DIVPD : DIVF; perform(tr, s, d); }
      }
      if (!s.dead && (c.backing == "interfile" || c.backing == "hdrstream")) { Op o{}; o.kind = REOPEN; perform(tr, s, o); }
    }
    cleanup(s);
    tr.flush();
  }
  return 0;
}

// ------------------------------------------------------------------ exhaustive short histories on tiny geometries:
// every ordered pair of write operations of the alphabet is executed back to back (the store keeps its state, every
// write has fresh values), each pair followed by one read through a rotating access path
static std::vector<Op> write_alphabet(Store& s) {
  const ProjDataInfo& p = *s.pdi;
  std::vector<Op> al;
  for (int k = p.get_min_tof_pos_num(); k <= p.get_max_tof_pos_num(); ++k) {
    if (k != p.get_min_tof_pos_num() && k != p.get_max_tof_pos_num()) continue;   // first and last TOF bin (keeps the number of pairs manageable)
    for (int g = p.get_min_segment_num(); g <= p.get_max_segment_num(); ++g) {
      for (int a = p.get_min_axial_pos_num(g); a <= p.get_max_axial_pos_num(g); ++a) {
        al.push_back(Op{ SETSINO, g, a, 0, 0, k, 0 });
        for (int v = p.get_min_view_num(); v <= p.get_max_view_num(); ++v)
          for (int t = p.get_min_tangential_pos_num(); t <= p.get_max_tangential_pos_num(); ++t)
            if ((a + v + t + g + k) % 2 == 0) al.push_back(Op{ SETBIN, g, a, v, t, k, 0 });
      }
      for (int v = p.get_min_view_num(); v <= p.get_max_view_num(); ++v) {
        al.push_back(Op{ SETVIEW, g, 0, v, 0, k, 0 });
        if (s.symm && g >= 0) al.push_back(Op{ SETREL, g, 0, v, 0, k, 0 });
      }
      al.push_back(Op{ SETSEGV, g, 0, 0, 0, k, 0 });
      al.push_back(Op{ SETSEGS, g, 0, 0, 0, k, 0 });
    }
  }
  al.push_back(Op{ FILL, 0, 0, 0, 0, 0, 0 });
  al.push_back(Op{ FILLFROM, 0, 0, 0, 0, 0, 0 });
  al.push_back(Op{ FILLITER, 0, 0, 0, 0, 0, 0 });
  if (s.pdm) { al.push_back(Op{ ITERCOPY, 0, 0, 0, 0, 0, 0 }); al.push_back(Op{ ITERSET, 0, 0, 0, 0, 0, s.n / 2 }); }
  return al;
}

static int run_exh(const std::string& out, long maxconf, const std::string& dir) {
  vh::Trace tr(out);
  vh::Rng rng(vh::seed_from_env());
  long done = 0;
  for (int tof = 0; tof <= 1; ++tof)
    for (int back = 0; back < 3; ++back)
      for (int byView = 0; byView <= 1; ++byView) {
        std::vector<int> seq = { -1, 0, 1 };
        do {
          if (done >= maxconf) return 0;
          Cfg c{};
          c.backing = back == 0 ? "stream" : back == 1 ? "interfile" : "memory";
          if (back == 2 && !(byView == 0 && seq[0] == -1 && seq[1] == 0)) continue;
          c.R = 2; c.N = 4; c.viewMash = 1; c.maxDelta = 1; c.ntang = 2; c.tofMash = tof ? 3 : 0; c.segReduce = 0;
          c.fresh = false; c.byView = byView; c.tofOrderGiven = rng.coin(); c.seq = seq;
          c.off = back == 0 ? 5 : 0;
          c.type = back == 2 ? NumericType::FLOAT : (NumericType::Type)all_types()[rng.range(0, 4)];
          c.big = back == 2 ? false : rng.coin(); c.exam = 1;
          Store s;
          if (make_store(tr, s, c, dir)) {
            ++done;
            std::vector<Op> al = write_alphabet(s);
            long r = 0;
            for (size_t i = 0; i < al.size(); ++i)
              for (size_t k = 0; k < al.size(); ++k) {
                perform(tr, s, al[i]);
                perform(tr, s, al[k]);
                Op g{}; static const int reads[] = { COPYTO, GETSEGV, GETSEGS, GETVIEW, GETSINO };
                g.kind = reads[r++ % 5];
                g.seg = al[k].seg; g.tof = al[k].tof; g.view = al[k].view; g.ax = al[k].ax;
                if (al[k].kind == FILL || al[k].kind == FILLFROM || al[k].kind == FILLITER || al[k].kind == ITERCOPY || al[k].kind == ITERSET) {
                  g.seg = rng.range(-1, 1); g.tof = s.pdi->get_min_tof_pos_num(); g.view = 0; g.ax = 0; }
                perform(tr, s, g);
              }
          }
          cleanup(s);
          tr.flush();
        } while (std::next_permutation(seq.begin(), seq.end()));
      }
  return 0;
}

// ------------------------------------------------------------------ one more index: MultipleProjData / DynamicProjData
// (beyond C02's statement: a sequence of stores; index k maps to store k; fill_from / copy_to run over the stores in order)
static int run_multi(const std::string& out, long nconf, long nops, const std::string& dir) {
  vh::Trace tr(out);
  vh::Rng rng(vh::seed_from_env() + 77);
  for (long i = 0; i < nconf; ++i) {
    Cfg c = random_cfg(rng, 4 * i + 1);
    ++cfg_id;
    auto sc = vh::make_scanner(c.N, c.R, c.tofMash > 0 ? c.tofMash : 0);
    shared_ptr<ProjDataInfo> pdi(ProjDataInfo::construct_proj_data_info(sc, 1, std::min(c.maxDelta, 1), c.N / 2 / c.viewMash, c.ntang, false, c.tofMash > 0 ? 1 : 0));
    const long n = (long)pdi->size_all();
    const int K = rng.range(2, 3);
    const bool all_files = rng.coin();
    std::vector<std::string> kinds, headers;
    std::vector<std::vector<long long>> frames;
    std::vector<int> durs;
    std::vector<std::pair<double, double>> fr_all;
    shared_ptr<ExamInfo> exam_all(new ExamInfo(ImagingModality::PT));
    MultipleProjData multi(exam_all, K);
    bool cerr = vh::threw([&] {
      for (int k = 1; k <= K; ++k) {
        const int dur = 1 << rng.range(0, 2);
        const double start = 10.0 * k;
        durs.push_back(dur);
        fr_all.push_back(std::make_pair(start, start + dur));
        frames.push_back({ vh::fx(start, 4), vh::fx((double)dur, 4) });
        shared_ptr<ExamInfo> e(new ExamInfo(ImagingModality::PT));
        e->set_time_frame_definitions(TimeFrameDefinitions(std::vector<std::pair<double, double>>(1, fr_all.back())));
        e->set_radionuclide(Radionuclide("^18^Fluorine", 511.F, 0.9686F, 6584.04F, ImagingModality::PT));
        const bool file = all_files || (k % 2 == 1);
        shared_ptr<ProjData> sub;
        const std::string h = dir + "/m" + std::to_string(cfg_id) + "_f" + std::to_string(k) + ".hs";
        if (file) { sub.reset(new ProjDataInterfile(e, pdi, h, std::ios::in | std::ios::out | std::ios::trunc)); headers.push_back(h); kinds.push_back("interfile"); }
        else { sub.reset(new ProjDataInMemory(e, pdi)); headers.push_back(""); kinds.push_back("memory"); }
        multi.set_proj_data_sptr(sub, k);
      } });
    {
      vh::Json j("Config");
      std::vector<std::string> q; std::string ks = "[";
      for (size_t k = 0; k < kinds.size(); ++k) ks += std::string(k ? "," : "") + "\"" + kinds[k] + "\"";
      ks += "]";
      j.num("id", cfg_id).str("backing", "multi").num("K", K).num("n", n).raw("kinds", ks).arr2("frames", frames).arr("durs", durs).boolean("err", cerr)
          .boolean("herr", false);
      tr.emit(j);
    }
    if (!cerr) {
      long next = 0, bound = 0;
      auto observe_all = [&](vh::Json& j) {
        std::vector<float> o(K * n, -5.F); std::vector<long long> all;
        bool e = vh::threw([&] { multi.copy_to(o.begin()); });
        if (!e) for (float f : o) all.push_back(as_int(f));
        j.boolean("oerr", e).arr("all", all); };
      auto fresh_vals = [&](long m, std::vector<float>& v, std::vector<long long>& rec) {
        v.resize(m); for (long t = 0; t < m; ++t) { ++next; v[t] = (float)next; rec.push_back(next); } if (next > bound) bound = next; };
      bool calib4 = false;
      for (long op = 0; op < nops; ++op) {
        int kind = op == 0 ? 0 : rng.range(0, 8);
        const bool was_calib4 = calib4; calib4 = false;
        std::vector<long long> vals; std::vector<float> v; bool err = false; std::string msg;
        const int idx = rng.range(1, K);
        if (kind == 7 && !was_calib4) kind = 6;
        if (kind == 8) { bool ok = true; for (auto& kd : kinds) ok = ok && kd == "interfile"; if (!ok) kind = 1; }
        if (kind == 6 && bound * 4 > ARITH_LIM) kind = 0;
        switch (kind) {
        case 0: { vh::Json j("MFill"); cur_call = "MFill"; fresh_vals(K * n, v, vals); err = vh::threw([&] { multi.fill_from(v.begin()); }, &msg); bound = next;
          j.boolean("err", err).arr("vals", vals); observe_all(j); tr.emit(j); break; }
        case 1: { vh::Json j("MCopy"); cur_call = "MCopy"; std::vector<float> o(K * n, -5.F); long size = -1, num = -1;
          err = vh::threw([&] { multi.copy_to(o.begin()); size = (long)multi.size_all(); num = multi.get_num_proj_data(); }, &msg);
          if (!err) for (float f : o) vals.push_back(as_int(f));
          j.boolean("err", err).arr("vals", vals).num("size", size).num("num", num); observe_all(j); tr.emit(j); break; }
        case 2: { vh::Json j("MGet"); cur_call = "MGet"; std::vector<float> o(n, -5.F);
          err = vh::threw([&] { multi.get_proj_data(idx).copy_to(o.begin()); }, &msg);
          if (!err) for (float f : o) vals.push_back(as_int(f));
          j.num("idx", idx).boolean("err", err).arr("vals", vals); observe_all(j); tr.emit(j); break; }
        case 3: { vh::Json j("MSetSub"); cur_call = "MSetSub"; fresh_vals(n, v, vals);
          err = vh::threw([&] { multi.get_proj_data_sptr(idx)->fill_from(v.begin()); }, &msg);
          j.num("idx", idx).boolean("err", err).arr("vals", vals); observe_all(j); tr.emit(j); break; }
        case 4: case 5: { vh::Json j("MReplace"); cur_call = "MReplace"; fresh_vals(n, v, vals);
          err = vh::threw([&] { shared_ptr<ProjDataInMemory> m(new ProjDataInMemory(exam_all, pdi)); m->fill_from(v.begin()); multi.set_proj_data_sptr(m, idx); }, &msg);
          if (!err) kinds[idx - 1] = "memory";
          j.num("idx", idx).boolean("err", err).arr("vals", vals); observe_all(j); tr.emit(j); break; }
        case 6: { vh::Json j("MCalib"); cur_call = "MCalib"; const int f = rng.coin() ? 4 : rng.range(2, 3);
          err = vh::threw([&] { DynamicProjData dyn(multi); dyn.set_time_frame_definitions(TimeFrameDefinitions(fr_all));
                                j.num("nframes", dyn.get_num_frames()); dyn.calibrate_frames((float)f); }, &msg);
          if (!err) { bound *= f; calib4 = f == 4; }
          j.num("f", f).boolean("err", err); observe_all(j); tr.emit(j); break; }
        case 7: { vh::Json j("MDivDur"); cur_call = "MDivDur";
          err = vh::threw([&] { DynamicProjData dyn(multi); dyn.set_time_frame_definitions(TimeFrameDefinitions(fr_all)); dyn.divide_with_duration(); }, &msg);
          j.boolean("err", err); observe_all(j); tr.emit(j); break; }
        case 8: { vh::Json j("MRead"); cur_call = "MRead";
          const std::string mh = dir + "/m" + std::to_string(cfg_id) + "_multi.txt";
          { std::ofstream f(mh.c_str()); f << "Multi :=\n  total number of data sets := " << K << "\n";
            for (int k = 1; k <= K; ++k) f << "  data set[" << k << "] := " << headers[k - 1] << "\n"; f << "End :=\n"; }
          long num = -1; std::vector<std::vector<long long>> fr;
          err = vh::threw([&] { unique_ptr<MultipleProjData> r = MultipleProjData::read_from_file(mh);
                                num = r->get_num_proj_data(); std::vector<float> o(r->size_all(), -5.F); r->copy_to(o.begin());
                                for (float f : o) vals.push_back(as_int(f));
                                const TimeFrameDefinitions& t = r->get_exam_info().time_frame_definitions;
                                for (unsigned q = 1; q <= t.get_num_time_frames(); ++q) fr.push_back({ vh::fx(t.get_start_time(q), 4), vh::fx(t.get_duration(q), 4) }); }, &msg);
          std::remove(mh.c_str());
          if (err) vals.clear();
          j.boolean("err", err).num("num", num).arr("vals", vals).arr2("frames", fr); observe_all(j); tr.emit(j); break; }
        }
        cur_call = nullptr;
      }
    }
    for (int k = 1; k <= K; ++k) multi.set_proj_data_sptr(shared_ptr<ProjData>(), k);
    for (int k = 1; k <= K; ++k) { const std::string h = dir + "/m" + std::to_string(cfg_id) + "_f" + std::to_string(k); std::remove((h + ".hs").c_str()); std::remove((h + ".s").c_str()); }
    tr.flush();
  }
  return 0;
}

int main(int argc, char** argv) {
  vh::install_terminate();
  for (int sg : { SIGSEGV, SIGBUS, SIGFPE, SIGILL, SIGABRT }) signal(sg, on_signal);
  no_oor_seg = getenv("C02_NO_OORSEG") != nullptr;
#if !defined(__SANITIZE_ADDRESS__)
  // a container sized from garbage (see C02-oorseg) must end in bad_alloc (= reported error), not in exhausting the machine
  { struct rlimit rl; rl.rlim_cur = rl.rlim_max = (rlim_t)6 << 30; setrlimit(RLIMIT_AS, &rl); }
#endif
  vh::quiet();
  if (!getenv("VERIF_STDERR")) { if (!freopen("/dev/null", "w", stderr)) {} if (!freopen("/dev/null", "w", stdout)) {} }
  if (argc < 4) return 2;
  const std::string mode = argv[1];
  if (mode == "rand" && argc >= 6) return run_rand(argv[2], atol(argv[3]), atol(argv[4]), argv[5]);
  if (mode == "exh" && argc >= 5) return run_exh(argv[2], atol(argv[3]), argv[4]);
  if (mode == "multi" && argc >= 6) return run_multi(argv[2], atol(argv[3]), atol(argv[4]), argv[5]);
  return 2;
}
