// C14 driver: serves in-memory list-mode streams to the REAL LmToProjData (and to the real list-mode
// objective function) and records what happens.  It drives and records only: no expected value, no
// comparison, no property formula — TLC (Trace_LmToProj.tla) decides.
//
//   c14_lmtoproj hist <out.ndjson> <runs> <maxlen> <stage> [<scratch dir>]   histogramming runs (stage 0 quick family, 1 thorough);
//                                                              with a scratch directory some executions write Interfile output
//   c14_lmtoproj long <out.ndjson> <runs> <len>               few long streams (10^3..10^4 records)
//   c14_lmtoproj grad <out.ndjson> <runs> <stage>             list-mode gradient vs projection-data gradient (ray tracing, fixed point)
//   c14_lmtoproj gradx <out.ndjson> <runs> <stage> [<cache dir>]   the same on the explicit-matrix seam (exact instances);
//                                                              both with random event-batch sizes (in memory, and cached on disk
//                                                              when a cache directory is given), plus Hessian times image
//   c14_lmtoproj ecat <out.ndjson> <runs> <words>             synthetic ECAT8 32-bit words through the real CListRecordECAT8_32bit
//   c14_lmtoproj allbatch <out.ndjson> <runs> <maxlen>        every num_segments_in_memory x num_TOF_bins_in_memory
//   c14_lmtoproj reuse <out.ndjson> <runs> <maxlen> [<scratch>]  histories of one LmToProjData object (one setter between executions)
//
// Trace lines of a histogramming run (one execution = Config ... End):
//   Config   scanner + template geometry + all LmToProjData settings + frame definitions (ms)
//   Stream   recs: [[kind, d1|ms, r1, d2, r2, tof], ...]   kind 0 Time, 1 Prompt, 2 Delayed
//   SetUp    err, effective num_segments_in_memory / num_TOF_bins_in_memory after set_up()
//   NewFrame f                       LmToProjData::start_new_time_frame (virtual, called by process_data)
//   Batch    s0 s1 t0 t1             hook lm.batch
//   R        i                       ListModeData::get_next_record served record i (0 = end of stream)
//   Sv       id pos                  ListModeData::save_get_position
//   St       id pos                  ListModeData::set_get_position
//   FrameStart f / Rewind f / Save s0 s1 t0 t1     hooks lm.framestart / lm.rewind / lm.save
//   Out      f, part, nz: [[seg, ax, view, tang, tof, value*16], ...]   non-zero bins of the output projection data
//            (file output: read back from <prefix>_f<n>g1d0b0.hs, with the frame times of its header in ms)
//   End      err
#include "vh_listmode.h"
#include "vh_explicit_matrix.h"
#include "stir/listmode/LmToProjData.h"
#include "stir/listmode/CListRecordECAT8_32bit.h"
#include "stir/listmode/CListEventCylindricalScannerWithDiscreteDetectors.h"
#include "stir/ByteOrder.h"
#include "stir/ProjDataInMemory.h"
#include "stir/ProjData.h"
#include "stir/ExamInfo.h"
#include <cmath>
#include "stir/SegmentByView.h"
#include "stir/TimeFrameDefinitions.h"
#include "stir/VoxelsOnCartesianGrid.h"
#include "stir/IndexRange3D.h"
#include "stir/recon_buildblock/PoissonLogLikelihoodWithLinearModelForMeanAndListModeDataWithProjMatrixByBin.h"
#include "stir/recon_buildblock/PoissonLogLikelihoodWithLinearModelForMeanAndProjData.h"
#include "stir/recon_buildblock/ProjMatrixByBinUsingRayTracing.h"
#include "stir/recon_buildblock/ProjectorByBinPairUsingProjMatrixByBin.h"
#include <cstring>
#include <algorithm>
using namespace stir;

static vh::Trace* g_tr = nullptr;
static std::string g_scratch;    // directory for file output ("" = none)
static bool g_log_reads = true;

// ---------------------------------------------------------------- hook call-out (sites in LmToProjData.cxx)
static std::function<void(const char*, long, long, long, long)> g_hook;
extern "C" void stir_verif_event(const char* site, long a, long b, long c, long d) {
  if (std::strncmp(site, "lm.", 3) != 0) return;     // other properties' sites
  if (g_hook) g_hook(site, a, b, c, d);
}

// ---------------------------------------------------------------- geometry configuration
struct Geo { int N, R, maxT, span, maxDelta, mash, tofMash, numTang, segReduce; };

static shared_ptr<ProjDataInfo> make_template(const shared_ptr<Scanner>& sc, const Geo& g) {
  shared_ptr<ProjDataInfo> pdi = ProjDataInfo::construct_proj_data_info(sc, g.span, g.maxDelta, g.N / 2 / g.mash, g.numTang, false, g.tofMash);
  if (g.segReduce > 0 && pdi->get_max_segment_num() >= g.segReduce)
    pdi->reduce_segment_range(-(pdi->get_max_segment_num() - g.segReduce), pdi->get_max_segment_num() - g.segReduce);
  return pdi;
}

static void geo_fields(vh::Json& j, const Geo& g, const ProjDataInfo& pdi) {
  j.num("N", g.N).num("R", g.R).num("maxT", g.maxT).num("span", g.span).boolean("ge", false).num("maxDelta", g.maxDelta)
      .num("mash", g.mash).num("tofMash", pdi.get_tof_mash_factor())
      .num("minTang", pdi.get_min_tangential_pos_num()).num("maxTang", pdi.get_max_tangential_pos_num())
      .num("minSeg", pdi.get_min_segment_num()).num("maxSeg", pdi.get_max_segment_num());
}

// what the (output) projection data says about itself
static void pdi_fields(vh::Json& j, const ProjDataInfo& pdi) {
  std::vector<std::vector<int>> segs;
  auto* cyl = dynamic_cast<const ProjDataInfoCylindrical*>(&pdi);
  for (int s = pdi.get_min_segment_num(); s <= pdi.get_max_segment_num(); ++s)
    segs.push_back({ s, cyl ? cyl->get_min_ring_difference(s) : 0, cyl ? cyl->get_max_ring_difference(s) : 0, pdi.get_min_axial_pos_num(s), pdi.get_max_axial_pos_num(s) });
  j.num("outMinSeg", pdi.get_min_segment_num()).num("outMaxSeg", pdi.get_max_segment_num()).num("numViews", pdi.get_num_views())
      .num("minView", pdi.get_min_view_num()).num("minTof", pdi.get_min_tof_pos_num()).num("maxTof", pdi.get_max_tof_pos_num())
      .num("oMinTang", pdi.get_min_tangential_pos_num()).num("oMaxTang", pdi.get_max_tangential_pos_num()).arr2("segs", segs);
}

static Geo random_geo(vh::Rng& rng, int stage, bool small_only = false) {
  Geo g;
  g.N = small_only ? 8 : rng.pick(stage ? std::vector<int>{ 8, 8, 12, 16, 20 } : std::vector<int>{ 8, 8, 8, 12, 16 });
  g.R = rng.pick(stage ? std::vector<int>{ 1, 2, 3, 3, 4, 5 } : std::vector<int>{ 2, 3, 3, 4 });
  const int tofkind = rng.range(0, 5);       // 0,1: non-TOF
  static const int MT[6] = { 0, 0, 5, 5, 9, 9 }, TM[6] = { 0, 0, 1, 5, 1, 3 };
  g.maxT = MT[tofkind]; g.tofMash = TM[tofkind];
  if (tofkind == 3 && rng.coin()) g.tofMash = 3;       // 5 div 3 = 1 TOF bin: |t| >= 2 falls outside
  if (tofkind == 5 && rng.range(0, 3) == 0) g.tofMash = 9;
  // span: odd (CTI); the last segment is never truncated to a single ring difference (configuration class of C01-truncseg)
  std::vector<std::pair<int, int>> sd;   // (span, maxDelta)
  for (int d = 0; d <= g.R - 1; ++d) sd.push_back({ 1, d });
  sd.push_back({ 1, g.R - 1 }); sd.push_back({ 1, g.R - 1 });
  for (int span : { 3, 5 })
    for (int k = 0; (span - 1) / 2 + k * span <= g.R - 1; ++k) { sd.push_back({ span, (span - 1) / 2 + k * span }); sd.push_back({ span, (span - 1) / 2 + k * span }); }
  auto p = rng.pick(sd); g.span = p.first; g.maxDelta = p.second;
  std::vector<int> ms{ 1, 1 };
  for (int m : { 2, 3, 4 }) if ((g.N / 2) % m == 0) ms.push_back(m);
  g.mash = rng.pick(ms);
  g.numTang = rng.range(0, 2) ? g.N - 1 : rng.range(1, g.N - 2);
  g.segReduce = rng.range(0, 3) == 0 ? 1 : 0;
  return g;
}

static vh::LmRec random_event(vh::Rng& rng, const Geo& g, bool allow_delayed) {
  int d1 = rng.range(0, g.N - 1), d2 = rng.range(0, g.N - 2);
  if (d2 >= d1) ++d2;
  int r1 = rng.range(0, g.R - 1), r2 = rng.range(0, g.R - 1);
  int t = 0;
  if (g.maxT > 0) { const int h = g.maxT / 2 + (rng.range(0, 4) == 0 ? 2 : 0); t = rng.range(-h, h); }
  return (allow_delayed && rng.range(0, 3) == 0) ? vh::LmRec::delayed(d1, r1, d2, r2, t) : vh::LmRec::prompt(d1, r1, d2, r2, t);
}

// time marks: non-decreasing; steps chosen so that marks land on, just before and just after frame boundaries
// (multiples of 125 ms).  sparse: large steps, so that some frames contain no time mark at all.
static std::vector<vh::LmRec> random_stream(vh::Rng& rng, const Geo& g, int len, bool allow_delayed, bool sparse, bool marks) {
  std::vector<vh::LmRec> s;
  unsigned long now = 0;
  bool first = true;
  for (int i = 0; i < len; ++i) {
    const int k = rng.range(0, 9);
    if (marks && (k < 3 || (i == 0 && rng.coin()))) {
      if (first && rng.coin()) now = rng.coin() ? 0 : rng.range(0, 125);
      else {
        const int c = rng.range(0, 9);
        unsigned long step = sparse ? (unsigned long)rng.range(100, 400) : c < 4 ? (unsigned long)rng.range(0, 40) : c < 7 ? (unsigned long)rng.range(40, 124) : 0;
        now += step;
        if (c >= 7) { unsigned long nb = (now / 125 + 1) * 125; now = c == 7 ? nb : c == 8 ? nb - 1 : (sparse ? nb + 1 : std::min(nb + 1, now + 124)); }
      }
      first = false;
      s.push_back(vh::LmRec::time(now));
    } else
      s.push_back(random_event(rng, g, allow_delayed));
  }
  return s;
}

// ---------------------------------------------------------------- LmToProjData with access to its protected parameters
class LmProbe : public LmToProjData {
public:
  bool fresh_output_per_frame = true;
  std::function<void(unsigned)> on_new_frame;
  void set_num_tof_bins_in_memory(int v) { this->_already_setup = false; this->num_timing_poss_in_memory = v; }   // key "num_TOF_bins_in_memory"
  int get_num_tof_bins_in_memory() const { return this->num_timing_poss_in_memory; }
  void set_max_segment_num_to_process(int v) { this->_already_setup = false; this->max_segment_num_to_process = v; } // key "maximum absolute segment number to process"
  shared_ptr<ProjData> output() const { return this->output_proj_data_sptr; }
  void replace_output(const shared_ptr<ProjData>& p) { this->output_proj_data_sptr = p; }
  shared_ptr<ProjDataInfo> templ() const { return this->template_proj_data_info_ptr; }
protected:
  void start_new_time_frame(const unsigned int f) override { if (on_new_frame) on_new_frame(f); }
};

static void emit_out(vh::Trace& tr, const ProjData& pd, int frame, bool part, bool with_times = false) {
  std::vector<std::vector<long long>> nz;
  for (int k = pd.get_min_tof_pos_num(); k <= pd.get_max_tof_pos_num(); ++k)
    for (int s = pd.get_min_segment_num(); s <= pd.get_max_segment_num(); ++s) {
      const SegmentByView<float> seg = pd.get_segment_by_view(s, k);
      for (int v = seg.get_min_view_num(); v <= seg.get_max_view_num(); ++v)
        for (int a = seg.get_min_axial_pos_num(); a <= seg.get_max_axial_pos_num(); ++a)
          for (int tp = seg.get_min_tangential_pos_num(); tp <= seg.get_max_tangential_pos_num(); ++tp) {
            const float x = seg[v][a][tp];
            if (x != 0.F) nz.push_back({ s, a, v, tp, k, vh::fx(x, 4) });
          }
    }
  vh::Json j("Out");
  j.num("f", frame).boolean("part", part).arr2("nz", nz);
  if (with_times) {
    const TimeFrameDefinitions& tf = pd.get_exam_info().get_time_frame_definitions();
    j.num("hdrFrames", tf.get_num_frames());
    if (tf.get_num_frames() >= 1) j.num("hdrStart", std::llround(tf.get_start_time(1) * 1000.)).num("hdrEnd", std::llround(tf.get_end_time(1) * 1000.));
  }
  tr.emit(j);
}

static void emit_file_out(vh::Trace& tr, const std::string& prefix, int frame) {
  char rest[50];
  sprintf(rest, "_f%dg1d0b0.hs", frame);
  shared_ptr<ProjData> pd = ProjData::read_from_file(prefix + rest);
  emit_out(tr, *pd, frame, false, true);
}

struct Settings {
  int segIM = -1, tofIM = -1, maxSegProc = -1;
  bool storeP = true, storeD = true, hasD = true, fresh = true;
  long nStore = 0;
  std::vector<std::pair<long, long>> frames;   // ms
  std::string cls = "plain";
  std::string file_prefix;                     // non-empty: output to Interfile projection data <prefix>_f<n>g1d0b0.hs
};

static long g_cfg_id = 0;

static bool same_geo(const Geo& a, const Geo& b) {
  return a.N == b.N && a.R == b.R && a.maxT == b.maxT && a.span == b.span && a.maxDelta == b.maxDelta && a.mash == b.mash && a.tofMash == b.tofMash
         && a.numTang == b.numTang && a.segReduce == b.segReduce;
}
static bool same_recs(const std::vector<vh::LmRec>& a, const std::vector<vh::LmRec>& b) {
  if (a.size() != b.size()) return false;
  for (size_t i = 0; i < a.size(); ++i) if (a[i].as_ints() != b[i].as_ints()) return false;
  return true;
}

// One LmToProjData object that is used for several executions: between two set_up() + process_data() only the
// setters of the settings that differ from the previous execution are called.
struct Session {
  LmProbe l2p;
  bool used = false;
  Settings cur;
  Geo g;
  std::vector<vh::LmRec> recs;
  std::shared_ptr<vh::VhListModeData<>> lm;
  std::string changed;
  // history of the object: did an earlier execution use time frames (num_events_to_store = 0); smallest maximum
  // segment number of the templates of the earlier executions
  bool had_time_mode = false;
  int min_max_seg = 1000;
};

// one execution of the real LmToProjData on (geometry, settings, stream); ses: re-use that object
static void run_hist(vh::Trace& tr, const Geo& g, const Settings& st, const std::vector<vh::LmRec>& recs, bool snapshots, Session* ses = nullptr) {
  shared_ptr<Scanner> sc = vh::make_scanner(g.N, g.R, g.maxT);
  shared_ptr<ProjDataInfo> templ = make_template(sc, g);
  Session local;
  Session& S = ses ? *ses : local;
  LmProbe& l2p = S.l2p;
  const bool reuse = S.used;
  const bool file_out = !st.file_prefix.empty();
  // the list-mode data reports the scanner's uncompressed geometry, as real list-mode files do
  shared_ptr<ProjDataInfo> lm_pdi = ProjDataInfo::construct_proj_data_info(sc, 1, g.R - 1, g.N / 2, g.N - 1, false, g.maxT > 0 ? 1 : 0);
  const bool new_input = !reuse || !same_recs(S.recs, recs) || S.cur.hasD != st.hasD;
  if (new_input) {
    S.lm = std::make_shared<vh::VhListModeData<>>(lm_pdi, recs, st.hasD);
    S.lm->observer = [&tr](const char* what, long a, long b) {
      if (!std::strcmp(what, "next")) { if (g_log_reads) tr.emit(vh::Json("R").num("i", a)); }
      else if (!std::strcmp(what, "save")) tr.emit(vh::Json("Sv").num("id", a).num("pos", b));
      else if (!std::strcmp(what, "set")) tr.emit(vh::Json("St").num("id", a).num("pos", b));
      else tr.emit(vh::Json("Reset"));
    };
  }
  auto lm = S.lm;
  // ---- setters (all of them for a new object; only those of the changed settings for a re-used one)
  Settings eff = st;
  std::string msg;
  bool err = vh::threw([&] {
    if (new_input) l2p.set_input_data(lm);
    if (!reuse || !same_geo(S.g, g)) l2p.set_template_proj_data_info_sptr(templ);
    if (!reuse || S.cur.file_prefix != st.file_prefix) l2p.set_output_filename_prefix(file_out ? st.file_prefix : std::string("c14-unused"));
    if (!reuse || S.cur.segIM != st.segIM) l2p.set_num_segments_in_memory(st.segIM);
    if (!reuse || S.cur.tofIM != st.tofIM) l2p.set_num_tof_bins_in_memory(st.tofIM);
    if (!reuse) l2p.set_max_segment_num_to_process(st.maxSegProc);
    if (!reuse || S.cur.storeP != st.storeP) l2p.set_store_prompts(st.storeP);
    if (!reuse || S.cur.storeD != st.storeD) l2p.set_store_delayeds(st.storeD);
    if (!reuse || S.cur.nStore != st.nStore) l2p.set_num_events_to_store(st.nStore);
    if ((!reuse && !st.frames.empty()) || (reuse && S.cur.frames != st.frames)) {
      std::vector<std::pair<double, double>> ft;
      for (auto& f : st.frames) ft.push_back({ (unsigned long)f.first / 1000., (unsigned long)f.second / 1000. });
      l2p.set_time_frame_definitions(TimeFrameDefinitions(ft));
    }
  }, &msg);
  if (reuse) {
    // the settings of the execution are what the object itself reports now
    eff.segIM = l2p.get_num_segments_in_memory(); eff.tofIM = l2p.get_num_tof_bins_in_memory();
    eff.storeP = l2p.get_store_prompts(); eff.storeD = l2p.get_store_delayeds(); eff.nStore = l2p.get_num_events_to_store();
  }
  {
    vh::Json j("Config");
    j.num("id", ++g_cfg_id).str("cls", st.cls).boolean("reuse", reuse).str("changed", reuse ? S.changed : std::string(""))
        .boolean("hadTimeMode", S.had_time_mode).num("histMaxSeg", S.min_max_seg);
    geo_fields(j, g, *templ);
    std::vector<std::vector<long long>> fr;
    for (auto& f : st.frames) fr.push_back({ f.first, f.second });
    j.num("segIM", eff.segIM).num("tofIM", eff.tofIM).num("maxSegProc", st.maxSegProc).boolean("storeP", eff.storeP).boolean("storeD", eff.storeD)
        .boolean("hasD", st.hasD).boolean("fresh", st.fresh).boolean("fileOut", file_out).num("nStore", eff.nStore).arr2("frames", fr).num("len", (long long)recs.size());
    tr.emit(j);
  }
  {
    std::vector<std::vector<long long>> rr;
    for (auto& r : recs) rr.push_back(r.as_ints());
    tr.emit(vh::Json("Stream").arr2("recs", rr));
  }
  int cur_frame = 0;
  shared_ptr<ProjData> out;
  g_hook = [&](const char* site, long a, long b, long c, long d) {
    if (!std::strcmp(site, "lm.batch")) {
      // everything saved so far in this frame is in the output now
      if (snapshots && !file_out && l2p.output()) emit_out(tr, *l2p.output(), cur_frame, true);
      tr.emit(vh::Json("Batch").num("s0", a).num("s1", b).num("t0", c).num("t1", d));
    } else if (!std::strcmp(site, "lm.save")) tr.emit(vh::Json("Save").num("s0", a).num("s1", b).num("t0", c).num("t1", d));
    else if (!std::strcmp(site, "lm.framestart")) tr.emit(vh::Json("FrameStart").num("f", a));
    else if (!std::strcmp(site, "lm.rewind")) tr.emit(vh::Json("Rewind").num("f", a));
    else tr.emit(vh::Json("Hook").str("site", site));
  };
  l2p.on_new_frame = [&](unsigned f) {
    if (file_out) {
      // the previous frame's file is complete and closed by now
      if (cur_frame > 0) emit_file_out(tr, st.file_prefix, cur_frame);
      cur_frame = (int)f;
      tr.emit(vh::Json("NewFrame").num("f", f));
      return;
    }
    if (cur_frame > 0 && l2p.output()) emit_out(tr, *l2p.output(), cur_frame, false);
    cur_frame = (int)f;
    tr.emit(vh::Json("NewFrame").num("f", f));
    if (st.fresh || !l2p.output() || (reuse && f == 1)) {
      out.reset(new ProjDataInMemory(lm->get_exam_info_sptr(), l2p.templ()));
      l2p.replace_output(out);
    }
  };
  // process_data() reads on from the current position of the stream: whoever re-uses the list-mode data rewinds it
  if (reuse && !new_input) lm->reset();
  if (!err) err = vh::threw([&] { l2p.set_up(); }, &msg);
  {
    vh::Json j("SetUp");
    j.boolean("err", err).num("segIM", err ? 0 : l2p.get_num_segments_in_memory()).num("tofIM", err ? 0 : l2p.get_num_tof_bins_in_memory());
    if (!err) pdi_fields(j, *l2p.templ());
    if (err) j.str("msg", msg);
    tr.emit(j);
  }
  if (!err) {
    err = vh::threw([&] { l2p.process_data(); }, &msg);
    if (!err && file_out) err = vh::threw([&] { emit_file_out(tr, st.file_prefix, cur_frame); }, &msg);
    else if (!err && l2p.output()) emit_out(tr, *l2p.output(), cur_frame, false);
  }
  g_hook = nullptr;
  l2p.on_new_frame = nullptr;
  S.used = true; S.cur = st; S.g = g; S.recs = recs;
  S.had_time_mode = S.had_time_mode || st.nStore == 0;
  S.min_max_seg = std::min(S.min_max_seg, templ->get_max_segment_num());
  vh::Json e("End");
  e.boolean("err", err);
  if (err) e.str("msg", msg);
  tr.emit(e);
}

static unsigned long last_mark(const std::vector<vh::LmRec>& recs) {
  unsigned long t = 0;
  for (auto& r : recs) if (r.is_time()) t = r.ms;
  return t;
}

// frame boundaries: multiples of 125 ms spread over the duration of the stream (and a little beyond)
static std::vector<std::pair<long, long>> random_frames(vh::Rng& rng, int maxframes, unsigned long duration) {
  std::vector<std::pair<long, long>> fr;
  const int nb = (int)(duration / 125) + 2;            // boundaries 0, 125, ..., nb * 125
  const int n = rng.range(1, std::min(maxframes, nb));
  const int w = std::max(1, nb / n);                    // typical width in boundaries
  long t = rng.range(0, 3) == 0 ? 125L * rng.range(1, std::max(1, w)) : 0;
  for (int i = 0; i < n; ++i) {
    if (i > 0 && rng.range(0, 5) == 0) t += 125L * rng.range(1, 2);     // gap between frames
    const long e = t + 125L * rng.range(1, std::max(1, w + 1));
    fr.push_back({ t, e });
    t = e;
  }
  return fr;
}

static void mode_hist(vh::Trace& tr, long runs, int maxlen, int stage, vh::Rng& rng) {
  for (long run = 0; run < runs; ++run) {
    Geo g = random_geo(rng, stage);
    shared_ptr<Scanner> sc = vh::make_scanner(g.N, g.R, g.maxT);
    shared_ptr<ProjDataInfo> templ = make_template(sc, g);
    const int nseg = templ->get_num_segments(), ntof = templ->get_num_tof_poss();
    Settings base;
    const int flags = run % 29 == 28 ? 6 : rng.range(0, 5);
    base.storeP = flags < 5; base.storeD = flags != 3 && flags != 4 && flags != 6;       // (T,T) x3, (T,F) x2, (F,T) x1; rarely (F,F): set_up must refuse
    base.hasD = rng.range(0, 5) != 0;
    base.fresh = rng.range(0, 3) != 0;
    if (rng.range(0, 4) == 0) base.maxSegProc = rng.range(0, templ->get_max_segment_num() + 1);
    const int kind = (int)(run % 8);
    const bool sparse = kind == 7;
    std::vector<vh::LmRec> recs;
    if (kind == 5 || kind == 6) {
      // num_events_to_store cut-off (frame definitions not set, as documented)
      recs = random_stream(rng, g, rng.range(1, maxlen), base.hasD, false, rng.coin());
      long nev = 0;
      for (auto& r : recs) nev += r.is_event();
      base.nStore = rng.range(1, (int)std::max(2L, nev));
      base.cls = "nstore";
    } else {
      recs = random_stream(rng, g, rng.range(kind == 0 ? 0 : 1, maxlen), base.hasD, sparse, true);
      if (kind != 4) base.frames = random_frames(rng, 4, last_mark(recs));
      if (sparse) {        // narrow contiguous frames, so that the large steps between time marks jump over some of them
        base.frames.clear();
        const int n = rng.range(3, 4);
        for (int i = 0; i < n; ++i) base.frames.push_back({ 125L * i, 125L * (i + 1) + (i == n - 1 ? 125L * rng.range(0, 4) : 0) });
      }
      base.cls = sparse ? "sparse" : kind == 4 ? "noframes" : "frames";
    }
    // the same stream under several batch sizes (always including 1 and all)
    std::vector<std::pair<int, int>> ims{ { -1, -1 }, { 1, 1 } };
    ims.push_back({ rng.range(1, nseg + 1), rng.range(1, ntof + 1) });
    if (stage) { ims.push_back({ rng.range(1, nseg + 1), -1 }); ims.push_back({ -1, rng.range(1, ntof + 1) }); }
    for (auto& im : ims) {
      Settings st = base;
      st.segIM = im.first; st.tofIM = im.second;
      run_hist(tr, g, st, recs, true);
    }
    // the same through Interfile output files, one per frame (scratch directory given on the command line)
    // (not for TOF scanners with a single mashed TOF bin: the Interfile header written for such data cannot be
    //  read back, "matrix axis label has to be resized to size 5" — projection-data IO, outside this property)
    if (!g_scratch.empty() && run % 4 == 1 && (g.maxT == 0 || ntof > 1)) {
      Settings st = base;
      st.fresh = true;
      st.segIM = ims.back().first; st.tofIM = ims.back().second;
      st.file_prefix = g_scratch + "/c14out" + std::to_string(run);
      run_hist(tr, g, st, recs, false);
      for (int f = 1; f <= 8; ++f)
        for (const char* ext : { ".hs", ".s" }) std::remove((st.file_prefix + "_f" + std::to_string(f) + "g1d0b0" + ext).c_str());
    }
    // frames of a partition add up: the whole interval as one frame (same stream, same settings)
    if (base.frames.size() > 1 && rng.coin()) {
      Settings st = base;
      st.frames = { { base.frames.front().first, base.frames.back().second } };
      bool contiguous = true;
      for (size_t i = 1; i < base.frames.size(); ++i) contiguous = contiguous && base.frames[i].first == base.frames[i - 1].second;
      if (contiguous) { st.cls = base.cls == "sparse" ? "sparse" : "whole"; run_hist(tr, g, st, recs, false); }
    }
  }
}

// histories of ONE LmToProjData object: execution, then one setting changed through its public setter, set_up() and
// process_data() again, and so on; every execution must give the histogram of its CURRENT settings
static void mode_reuse(vh::Trace& tr, long runs, int maxlen, vh::Rng& rng) {
  static const char* FIRST[9] = { "storeD", "storeP", "segIM", "tofIM", "input", "template", "nStore", "frames", "prefix" };
  for (long run = 0; run < runs; ++run) {
    // the first change of the history goes through the setters in turn; the base settings are chosen to allow it
    std::string first = FIRST[run % 9];
    if (first == "prefix" && g_scratch.empty()) first = "storeD";
    const bool files = first == "prefix";
    Geo g = random_geo(rng, 0, true);
    // (file output: not for TOF scanners whose TOF mashing leaves a single TOF bin, see mode_hist)
    while (files && g.maxT != 0 && (g.maxT / g.tofMash) <= 1) g = random_geo(rng, 0, true);
    shared_ptr<Scanner> sc = vh::make_scanner(g.N, g.R, g.maxT);
    shared_ptr<ProjDataInfo> templ = make_template(sc, g);
    Settings st;
    st.cls = "reuse";
    st.fresh = true;
    // 0: frames, 1: no frame definitions, 2: num_events_to_store
    const int base = first == "nStore" ? rng.range(1, 2) : first == "frames" ? rng.range(0, 1) : (int)(rng.next() % 3);
    std::vector<vh::LmRec> recs = random_stream(rng, g, rng.range(6, maxlen), true, false, true);
    if (base == 0) st.frames = random_frames(rng, 3, last_mark(recs));
    if (base == 2) st.nStore = rng.range(1, 6);
    if (files) st.file_prefix = g_scratch + "/c14reuse" + std::to_string(run) + "a";
    st.segIM = rng.coin() ? -1 : 1; st.tofIM = rng.coin() ? -1 : 1;
    Session ses;
    run_hist(tr, g, st, recs, false, &ses);
    std::vector<std::string> kinds{ "storeD", "storeP", "segIM", "tofIM", "input", "template", "storeD" };
    if (st.frames.empty()) { kinds.push_back("nStore"); kinds.push_back("nStore"); }
    if (st.nStore == 0) kinds.push_back("frames");
    if (files) kinds.push_back("prefix");
    const int steps = rng.range(3, 5);
    for (int k = 0; k < steps; ++k) {
      const std::string kind = k == 0 ? first : rng.pick(kinds);
      Settings nx = st;
      Geo ng = g;
      std::vector<vh::LmRec> nrecs = recs;
      if (kind == "storeD") { if (!st.storeP) continue; nx.storeD = !st.storeD; }
      else if (kind == "storeP") { if (!st.storeD) continue; nx.storeP = !st.storeP; }
      else if (kind == "segIM") nx.segIM = st.segIM == 1 ? 2 : 1;
      else if (kind == "tofIM") nx.tofIM = st.tofIM == 1 ? 2 : 1;
      else if (kind == "input") nrecs = random_stream(rng, g, rng.range(6, maxlen), true, false, true);
      else if (kind == "template") { do { ng = random_geo(rng, 0, true); } while (ng.N != g.N || ng.R != g.R || ng.maxT != g.maxT || same_geo(ng, g) || (files && ng.maxT != 0 && ng.maxT / ng.tofMash <= 1)); }
      else if (kind == "nStore") { if (!st.frames.empty()) continue; nx.nStore = st.nStore == 0 ? rng.range(1, 6) : (rng.coin() ? 0 : st.nStore + rng.range(1, 3)); }
      else if (kind == "frames") { if (st.nStore != 0) continue; nx.frames = st.frames.empty() ? random_frames(rng, 3, last_mark(recs)) : (rng.coin() ? std::vector<std::pair<long, long>>() : random_frames(rng, 3, last_mark(recs))); if (nx.frames == st.frames) nx.frames = st.frames.empty() ? std::vector<std::pair<long, long>>{ { 0, 250 } } : std::vector<std::pair<long, long>>(); }
      else if (kind == "prefix") nx.file_prefix = g_scratch + "/c14reuse" + std::to_string(run) + (char)('b' + k);
      ses.changed = kind;
      run_hist(tr, ng, nx, nrecs, false, &ses);
      st = nx; g = ng; recs = nrecs;
    }
    if (files)
      for (char c = 'a'; c <= 'h'; ++c)
        for (int f = 1; f <= 8; ++f)
          for (const char* ext : { ".hs", ".s" }) std::remove((g_scratch + "/c14reuse" + std::to_string(run) + c + "_f" + std::to_string(f) + "g1d0b0" + ext).c_str());
  }
}

// every (num_segments_in_memory, num_TOF_bins_in_memory) for one geometry and stream
static void mode_allbatch(vh::Trace& tr, long runs, int maxlen, vh::Rng& rng) {
  for (long run = 0; run < runs; ++run) {
    Geo g = random_geo(rng, 0, true);
    if (run % 4 < 2) { g.maxT = 5; g.tofMash = 1; g.R = 3; g.span = 1; g.maxDelta = run % 4 == 1 ? 2 : 1; g.segReduce = 0; }
    shared_ptr<Scanner> sc = vh::make_scanner(g.N, g.R, g.maxT);
    shared_ptr<ProjDataInfo> templ = make_template(sc, g);
    const int nseg = templ->get_num_segments(), ntof = templ->get_num_tof_poss();
    Settings base;
    // odd runs: large steps between the time marks and narrow contiguous frames, so that some frames contain no
    // time mark, are empty, or start / end exactly on a time mark - under EVERY batch size
    const bool sparse = run % 2 == 0;
    auto recs = random_stream(rng, g, rng.range(sparse ? 8 : 4, maxlen), true, sparse, true);
    if (sparse) {
      // make sure of it: the 260 ms mark ends frame [0,125) and lies beyond frame [125,250); events follow it
      std::vector<vh::LmRec> pre{ vh::LmRec::time(100), random_event(rng, g, false), vh::LmRec::time(260), random_event(rng, g, false), random_event(rng, g, true) };
      for (auto& r : recs) if (r.is_time()) r.ms += 260;
      recs.insert(recs.begin(), pre.begin(), pre.end());
    }
    base.frames = random_frames(rng, 2, last_mark(recs));
    if (sparse) {
      base.frames.clear();
      const int n = rng.range(3, 4);
      for (int i = 0; i < n; ++i) base.frames.push_back({ 125L * i, 125L * (i + 1) + (i == n - 1 ? 125L * rng.range(0, 4) : 0) });
    }
    base.cls = sparse ? "allbatch-sparse" : "allbatch";
    for (int s = 1; s <= nseg; ++s)
      for (int t = 1; t <= ntof; ++t) {
        Settings st = base; st.segIM = s; st.tofIM = t;
        run_hist(tr, g, st, recs, true);
      }
  }
}

static void mode_long(vh::Trace& tr, long runs, int len, vh::Rng& rng) {
  for (long run = 0; run < runs; ++run) {
    Geo g = random_geo(rng, 0, true);
    while (g.R > 3) g = random_geo(rng, 0, true);
    shared_ptr<Scanner> sc = vh::make_scanner(g.N, g.R, g.maxT);
    shared_ptr<ProjDataInfo> templ = make_template(sc, g);
    Settings st;
    st.cls = "long";
    // dense marks: about one mark per 10 records, ~12 ms apart
    std::vector<vh::LmRec> recs;
    unsigned long now = 0;
    for (int i = 0; i < len; ++i) {
      if (rng.range(0, 9) == 0) { now += (unsigned long)rng.range(0, 25); recs.push_back(vh::LmRec::time(now)); }
      else recs.push_back(random_event(rng, g, true));
    }
    const long total = (long)(now / 125 + 1) * 125;
    const int nf = rng.range(2, 4);
    long t = 0;
    for (int i = 0; i < nf; ++i) { long e = i == nf - 1 ? total : std::max(t + 125, (total * (i + 1) / nf) / 125 * 125); st.frames.push_back({ t, e }); t = e; }
    // at most 2 x 2 passes over the long stream
    st.segIM = rng.coin() ? -1 : (templ->get_num_segments() + 1) / 2; st.tofIM = rng.coin() ? -1 : (templ->get_num_tof_poss() + 1) / 2;
    run_hist(tr, g, st, recs, false);
  }
}

// ---------------------------------------------------------------- clause 2: list-mode gradient vs projection-data gradient
typedef DiscretisedDensity<3, float> Img;

// key "time frame number" of the list-mode objective function (no setter)
class LmObjProbe : public PoissonLogLikelihoodWithLinearModelForMeanAndListModeDataWithProjMatrixByBin<Img> {
public:
  void set_frame_num(unsigned f) { this->current_frame_num = f; }
  // number of events per batch when the events are re-read from the list-mode data for every computation
  // (the class fixes it to 1000000 in set_up; a list-mode file with more prompts than that is read in several batches)
  void set_batch_size_in_memory(unsigned long n) { this->cache_size = n; }
};

static std::vector<long long> img_fx(const Img& im, int k) {
  std::vector<long long> v;
  for (auto it = im.begin_all_const(); it != im.end_all_const(); ++it) v.push_back(vh::fx(*it, k));
  return v;
}

// how the list-mode objective function gets its events: cache = 0: default (one batch); disk: "max cache size" = cache,
// batches cached in files my_CACHE<i>.bin under the cache path; otherwise batches of `cache` events re-read every time
struct CacheMode { long cache = 0; bool disk = false; };
static std::string g_cache_dir;

static CacheMode random_cache(vh::Rng& rng, const std::vector<vh::LmRec>& recs) {
  long np = 0;
  for (auto& r : recs) np += r.kind == vh::LmRec::Prompt;
  CacheMode c;
  // every 4th execution: batches of 1 event cached on disk; every 4th: batches of 2 re-read from the stream
  static long count = 0;
  ++count;
  if (count % 4 == 1 && !g_cache_dir.empty()) { c.cache = 1; c.disk = true; return c; }
  if (count % 4 == 2) { c.cache = 2; c.disk = false; return c; }
  const std::vector<long> sizes{ 0, 1, 2, 3, 5, 7, 11, np, np + 3, np > 1 ? (long)rng.range(1, (int)np) : 1, np > 3 ? np / 2 : 2 };
  c.cache = rng.pick(sizes);
  if (c.cache < 0) c.cache = 0;
  c.disk = c.cache > 0 && !g_cache_dir.empty() && rng.coin();
  return c;
}

static void apply_cache_before_set_up(LmObjProbe& o, const CacheMode& c) {
  if (c.disk) { o.set_cache_path(g_cache_dir); o.set_cache_max_size((unsigned long)c.cache); o.set_recompute_cache(true); }
}
static void apply_cache_after_set_up(LmObjProbe& o, const CacheMode& c) {
  if (!c.disk && c.cache > 0) o.set_batch_size_in_memory((unsigned long)c.cache);
}
static void remove_cache_files() {
  if (g_cache_dir.empty()) return;
  for (int i = 0; i < 400; ++i) if (std::remove((g_cache_dir + "/my_CACHE" + std::to_string(i) + ".bin").c_str()) != 0 && i > 2) break;
}

// Hessian of the log-likelihood (without penalty) times the current image, both objective functions
template <class PD>
static void emit_hessians(vh::Trace& tr, LmObjProbe& lmobj, PD& pdobj, const shared_ptr<Img>& image, int numSubsets, int K) {
  shared_ptr<Img> h1(image->get_empty_copy()), h2(image->get_empty_copy());
  for (int sub = 0; sub < numSubsets; ++sub) {
    h1->fill(0.F); h2->fill(0.F);
    lmobj.accumulate_sub_Hessian_times_input_without_penalty(*h1, *image, *image, sub);
    pdobj.accumulate_sub_Hessian_times_input_without_penalty(*h2, *image, *image, sub);
    tr.emit(vh::Json("Hess").num("subset", sub).num("k", K).arr("lm", img_fx(*h1, K)).arr("pd", img_fx(*h2, K)));
  }
}

// number of subsets: a divisor of the number of views that the projection-data objective function accepts with
// this projector (its set_up refuses unbalanced subsets); 3 and more subsets preferred in two of three executions
template <class MakePair>
static int choose_subsets(vh::Rng& rng, const shared_ptr<ProjDataInfo>& templ, const shared_ptr<Img>& image, MakePair make_pair) {
  const int nv = templ->get_num_views();
  std::vector<int> big, small;
  for (int d = 1; d <= nv; ++d) if (nv % d == 0) (d >= 3 ? big : small).push_back(d);
  std::vector<int> order;
  auto shuffled = [&](std::vector<int> v) { for (size_t k = v.size(); k > 1; --k) std::swap(v[k - 1], v[rng.next() % k]); return v; };
  const bool prefer_big = rng.range(0, 2) != 0;
  for (int d : shuffled(prefer_big ? big : small)) order.push_back(d);
  for (int d : shuffled(prefer_big ? small : big)) order.push_back(d);
  shared_ptr<ExamInfo> ei(new ExamInfo); ei->imaging_modality = ImagingModality::PT;
  for (int n : order) {
    if (n == 1) return 1;
    PoissonLogLikelihoodWithLinearModelForMeanAndProjData<Img> p;
    shared_ptr<ProjData> zeros(new ProjDataInMemory(ei, templ));
    p.set_proj_data_sptr(zeros);
    p.set_projector_pair_sptr(make_pair());
    p.set_num_subsets(n);
    p.set_use_subset_sensitivities(true);
    p.set_recompute_sensitivity(true);
    p.set_zero_seg0_end_planes(false);
    if (!vh::threw([&] { if (p.set_up(image) != Succeeded::yes) error("refused"); })) return n;
  }
  return 1;
}

// "maximum absolute segment number to process" of both objective functions: special values -1 (all), 0, 1, max, max + 1
static int choose_max_seg(vh::Rng& rng, const ProjDataInfo& templ) {
  const int mx = templ.get_max_segment_num();
  static long count = 0;
  ++count;
  if (count % 5 == 2) return 0;
  if (count % 10 == 4) return mx + 1;
  if (count % 10 == 9) return rng.pick(std::vector<int>{ 1, mx });
  return -1;
}

static void run_grad(vh::Trace& tr, vh::Rng& rng, int stage) {
  Geo g;
  g.N = rng.pick(std::vector<int>{ 8, 12, 16, 16, 24 });
  g.R = rng.range(2, 3);
  const bool tof = rng.range(0, 2) == 0;
  g.maxT = tof ? 5 : 0; g.tofMash = tof ? 1 : 0;
  g.span = (g.R == 3 && rng.coin()) ? 3 : 1; g.maxDelta = g.span == 3 ? 1 : g.R - 1;
  g.mash = (rng.range(0, 2) == 0 && (g.N / 2) % 2 == 0) ? 2 : 1;
  g.numTang = std::max(3, g.N / 2 - 1) | 1;     // central LORs only: every bin intersects the image
  g.segReduce = 0;
  shared_ptr<Scanner> sc = vh::make_scanner(g.N, g.R, g.maxT);
  shared_ptr<ProjDataInfo> templ = make_template(sc, g);
  // image: positive dyadic values
  const int nz = 2 * g.R - 1, nxy = 2 * (g.N / 4) + 5;
  const float rs = sc->get_ring_spacing();
  shared_ptr<Img> image(new VoxelsOnCartesianGrid<float>(IndexRange3D(0, nz - 1, -(nxy / 2), nxy / 2, -(nxy / 2), nxy / 2), CartesianCoordinate3D<float>(0, 0, 0),
                                                         CartesianCoordinate3D<float>(rs / 2, sc->get_inner_ring_radius() * 2.2F / nxy, sc->get_inner_ring_radius() * 2.2F / nxy)));
  for (auto it = image->begin_all(); it != image->end_all(); ++it) *it = rng.range(1, 8) / 4.F;
  const int numSubsets = choose_subsets(rng, templ, image, [] {
    return shared_ptr<ProjectorByBinPair>(new ProjectorByBinPairUsingProjMatrixByBin(shared_ptr<ProjMatrixByBin>(new ProjMatrixByBinUsingRayTracing))); });
  const int maxSegProc = choose_max_seg(rng, *templ);
  const bool hasAdd = rng.coin();
  const int K = 12;
  // stream: prompts (and delayeds, which the list-mode objective ignores), frame [125, 500) ms selected by frame number
  std::vector<vh::LmRec> recs = random_stream(rng, g, rng.range(20, stage ? 120 : 60), true, false, true);
  std::vector<std::pair<long, long>> frames{ { 0, 125 }, { 125, 500 }, { 500, 1000 } };
  const CacheMode cm = random_cache(rng, recs);
  const unsigned long dur = last_mark(recs);
  const int frame_num = dur < 125 ? rng.range(0, 1) : dur < 500 ? rng.range(0, 2) : rng.range(0, 3);    // 0: no frame definitions
  {
    vh::Json j("GConfig");
    j.num("id", ++g_cfg_id).boolean("xm", false);
    geo_fields(j, g, *templ);
    std::vector<std::vector<long long>> fr;
    if (frame_num > 0) fr.push_back({ frames[frame_num - 1].first, frames[frame_num - 1].second });
    j.num("numSubsets", numSubsets).boolean("hasAdd", hasAdd).num("k", K).arr2("frames", fr).num("frameNum", frame_num).num("len", (long long)recs.size())
        .num("cache", cm.cache).boolean("disk", cm.disk).num("maxSegProc", maxSegProc);
    pdi_fields(j, *templ);
    tr.emit(j);
    std::vector<std::vector<long long>> rr;
    for (auto& r : recs) rr.push_back(r.as_ints());
    tr.emit(vh::Json("Stream").arr2("recs", rr));
  }
  std::string msg;
  bool err = vh::threw([&] {
    // the list-mode data reports the template geometry: both objective functions then use the same data geometry
    auto lm = std::make_shared<vh::VhListModeData<>>(templ, recs, true);
    // histogram of the prompts of the frame with the real LmToProjData
    shared_ptr<ProjData> hist(new ProjDataInMemory(lm->get_exam_info_sptr(), templ));
    {
      LmProbe l2p;
      l2p.set_input_data(lm);
      l2p.set_template_proj_data_info_sptr(templ);
      l2p.set_output_filename_prefix("c14-unused");
      l2p.set_store_prompts(true);
      l2p.set_store_delayeds(false);
      if (frame_num > 0) {
        std::vector<std::pair<double, double>> ft{ { (unsigned long)frames[frame_num - 1].first / 1000., (unsigned long)frames[frame_num - 1].second / 1000. } };
        l2p.set_time_frame_definitions(TimeFrameDefinitions(ft));
      }
      l2p.set_up();
      l2p.replace_output(hist);
      l2p.process_data();
      emit_out(tr, *hist, 1, false);
    }
    shared_ptr<ProjData> add;
    if (hasAdd) {
      add.reset(new ProjDataInMemory(lm->get_exam_info_sptr(), templ));
      for (int k = add->get_min_tof_pos_num(); k <= add->get_max_tof_pos_num(); ++k)
        for (int s = add->get_min_segment_num(); s <= add->get_max_segment_num(); ++s) {
          SegmentByView<float> seg = add->get_empty_segment_by_view(s, false, k);
          for (auto it = seg.begin_all(); it != seg.end_all(); ++it) *it = rng.range(1, 8) / 8.F;
          add->set_segment(seg);
        }
    }
    shared_ptr<ProjMatrixByBin> pm1(new ProjMatrixByBinUsingRayTracing), pm2(new ProjMatrixByBinUsingRayTracing);
    LmObjProbe lmobj;
    lmobj.set_input_data(lm);
    lmobj.set_proj_matrix(pm1);
    if (hasAdd) lmobj.set_additive_proj_data_sptr(add);
    lmobj.set_num_subsets(numSubsets);
    lmobj.set_use_subset_sensitivities(true);
    lmobj.set_recompute_sensitivity(true);
    lmobj.set_skip_balanced_subsets(true);
    if (frame_num > 0) {
      // the list-mode objective selects one frame of a frame-definition list by number
      std::vector<std::pair<double, double>> ft;
      for (int f = 0; f < frame_num; ++f) ft.push_back({ (unsigned long)frames[f].first / 1000., (unsigned long)frames[f].second / 1000. });
      lmobj.frame_defs = TimeFrameDefinitions(ft);
      lmobj.set_frame_num(frame_num);
    }
    apply_cache_before_set_up(lmobj, cm);
    lmobj.set_max_segment_num_to_process(maxSegProc);
    if (lmobj.set_up(image) != Succeeded::yes) error("list-mode objective set_up failed");
    apply_cache_after_set_up(lmobj, cm);
    PoissonLogLikelihoodWithLinearModelForMeanAndProjData<Img> pdobj;
    pdobj.set_proj_data_sptr(hist);
    pdobj.set_projector_pair_sptr(shared_ptr<ProjectorByBinPair>(new ProjectorByBinPairUsingProjMatrixByBin(pm2)));
    if (hasAdd) pdobj.set_additive_proj_data_sptr(add);
    pdobj.set_num_subsets(numSubsets);
    pdobj.set_max_segment_num_to_process(maxSegProc);
    pdobj.set_use_subset_sensitivities(true);
    pdobj.set_recompute_sensitivity(true);
    pdobj.set_zero_seg0_end_planes(false);
    if (pdobj.set_up(image) != Succeeded::yes) error("projection-data objective set_up failed");
    shared_ptr<Img> g1(image->get_empty_copy()), g2(image->get_empty_copy());
    for (int sub = 0; sub < numSubsets; ++sub)
      tr.emit(vh::Json("Sens").num("subset", sub).num("k", K).arr("lm", img_fx(lmobj.get_subset_sensitivity(sub), K)).arr("pd", img_fx(pdobj.get_subset_sensitivity(sub), K)));
    for (int sub = 0; sub < numSubsets; ++sub)
      for (int plus = 1; plus >= 0; --plus) {
        g1->fill(0.F); g2->fill(0.F);
        if (plus) {
          lmobj.compute_sub_gradient_without_penalty_plus_sensitivity(*g1, *image, sub);
          pdobj.compute_sub_gradient_without_penalty_plus_sensitivity(*g2, *image, sub);
        } else {
          lmobj.compute_sub_gradient_without_penalty(*g1, *image, sub);
          pdobj.compute_sub_gradient_without_penalty(*g2, *image, sub);
        }
        tr.emit(vh::Json("Grad").num("subset", sub).boolean("plusSens", plus != 0).num("k", K).arr("lm", img_fx(*g1, K)).arr("pd", img_fx(*g2, K)));
      }
    emit_hessians(tr, lmobj, pdobj, image, numSubsets, 12);
  }, &msg);
  remove_cache_files();
  vh::Json e("End");
  e.boolean("err", err);
  if (err) e.str("msg", msg);
  tr.emit(e);
}

// Exact instances (encoding E) on the explicit-matrix seam: rows with one or two small integer weights whose
// forward projection of a power-of-two image is a power of two, additive terms that keep it a power of two.
// The driver logs the matrix, the image exponents and the additive codes; TLC computes what must come out.
static void run_gradx(vh::Trace& tr, vh::Rng& rng, int stage) {
  Geo g;
  g.N = rng.range(0, 2) == 0 ? 12 : 8;
  g.R = rng.range(2, 3);
  const int tofkind = rng.range(0, 3);            // 0,1: non-TOF, 2: 3 TOF bins, 3: 5 TOF bins
  g.maxT = tofkind < 2 ? 0 : tofkind == 2 ? 3 : 5; g.tofMash = g.maxT > 0 ? 1 : 0;
  g.span = (g.R == 3 && rng.coin()) ? 3 : 1; g.maxDelta = g.span == 3 ? 1 : g.R - 1;
  g.mash = rng.range(0, 2) == 0 ? 2 : 1;
  g.numTang = rng.pick(std::vector<int>{ 2, 3, 5 });
  g.segReduce = 0;
  shared_ptr<Scanner> sc = vh::make_scanner(g.N, g.R, g.maxT);
  shared_ptr<ProjDataInfo> templ = make_template(sc, g);
  const bool hasAdd = rng.coin();
  const int K = 8;
  shared_ptr<ExamInfo> ei(new ExamInfo); ei->imaging_modality = ImagingModality::PT;
  const int nz = rng.range(1, 2), ny = rng.range(2, 3), nx = rng.range(2, 3);
  shared_ptr<VoxelsOnCartesianGrid<float>> image(new VoxelsOnCartesianGrid<float>(
      ei, IndexRange3D(0, nz - 1, -(ny / 2), -(ny / 2) + ny - 1, -(nx / 2), -(nx / 2) + nx - 1), CartesianCoordinate3D<float>(0.F, 0.F, 0.F),
      CartesianCoordinate3D<float>(4.F, 4.F, 4.F)));
  const auto vox = vh::xm_voxels(*image);
  std::vector<int> lam;                    // exponents: image value 2^lam
  for (auto& v : vox) { int e = rng.range(0, 2); lam.push_back(e); (*image)[v[0]][v[1]][v[2]] = (float)(1 << e); }
  const int maxSegProc = choose_max_seg(rng, *templ);
  // rows, in the order (TOF bin, segment, axial position, view, tangential position)
  shared_ptr<vh::ExplicitMatrixData> data(new vh::ExplicitMatrixData);
  std::vector<std::vector<long long>> rows;
  shared_ptr<ProjData> add;
  if (hasAdd) add.reset(new ProjDataInMemory(ei, templ));
  static const int PAT[7][2] = { { 1, 0 }, { 2, 0 }, { 4, 0 }, { 1, 1 }, { 2, 2 }, { 1, 3 }, { 3, 1 } };
  for (int k = templ->get_min_tof_pos_num(); k <= templ->get_max_tof_pos_num(); ++k)
    for (int sg = templ->get_min_segment_num(); sg <= templ->get_max_segment_num(); ++sg) {
      SegmentByView<float> aseg = templ->get_empty_segment_by_view(sg, false, k);
      for (int a = templ->get_min_axial_pos_num(sg); a <= templ->get_max_axial_pos_num(sg); ++a)
        for (int v = templ->get_min_view_num(); v <= templ->get_max_view_num(); ++v)
          for (int tp = templ->get_min_tangential_pos_num(); tp <= templ->get_max_tangential_pos_num(); ++tp) {
            const int v1 = rng.range(0, (int)vox.size() - 1);
            const int* pat = PAT[rng.range(0, 6)];
            int v2 = -1;
            if (pat[1]) {
              std::vector<int> same;
              for (int q = 0; q < (int)vox.size(); ++q) if (q != v1 && lam[q] == lam[v1]) same.push_back(q);
              if (!same.empty()) v2 = rng.pick(same);
            }
            const int w1 = (pat[1] && v2 < 0) ? pat[0] + pat[1] : pat[0], w2 = v2 >= 0 ? pat[1] : 0;
            std::vector<vh::XmElem> r{ { vox[v1][0], vox[v1][1], vox[v1][2], (float)w1 } };
            if (v2 >= 0) r.push_back({ vox[v2][0], vox[v2][1], vox[v2][2], (float)w2 });
            data->set_row(Bin(sg, v, a, tp, k), r);
            const int fwd = (w1 + w2) << lam[v1];
            const int ac = hasAdd ? rng.range(1, 2) : 0;               // additive term: fwd (code 1) or 3 fwd (code 2)
            if (hasAdd) aseg[v][a][tp] = (float)(ac == 1 ? fwd : 3 * fwd);
            rows.push_back({ sg, a, v, tp, k, v1 + 1, w1, v2 + 1, w2, ac });
          }
      if (hasAdd) add->set_segment(aseg);
    }
  const int numSubsets = choose_subsets(rng, templ, image, [&] { return shared_ptr<ProjectorByBinPair>(vh::make_explicit_projector_pair(data)); });
  std::vector<vh::LmRec> recs = random_stream(rng, g, rng.range(10, stage ? 100 : 50), true, false, true);
  std::vector<std::pair<long, long>> frames{ { 0, 125 }, { 125, 500 }, { 500, 1000 } };
  const unsigned long dur = last_mark(recs);
  // the settings of one execution of the list-mode objective function object
  struct GP { int numSubsets, maxSegProc, frame_num; CacheMode cm; };
  GP cur{ numSubsets, maxSegProc, dur < 125 ? rng.range(0, 1) : dur < 500 ? rng.range(0, 2) : rng.range(0, 3), random_cache(rng, recs) };
  auto lm = std::make_shared<vh::VhListModeData<>>(templ, recs, true);
  LmObjProbe lmobj;          // ONE object: after the first execution one setting is changed and set_up() is called again
  static long call = 0;
  const int executions = (++call % 2 == 0) ? rng.range(2, 3) : 1;
  GP prev = cur;
  for (int ex = 0; ex < executions; ++ex) {
    std::string changed;
    if (ex > 0) {
      prev = cur;
      static long pick = 0;
      const int what = (int)(++pick % 4);
      if (what == 0) {
        int n = cur.numSubsets;
        for (int attempt = 0; attempt < 8 && n == cur.numSubsets; ++attempt)
          n = choose_subsets(rng, templ, image, [&] { return shared_ptr<ProjectorByBinPair>(vh::make_explicit_projector_pair(data)); });
        if (n != cur.numSubsets) { cur.numSubsets = n; changed = "numSubsets"; }
      } else if (what == 1) { cur.maxSegProc = cur.maxSegProc == -1 ? 0 : -1; changed = "maxSegProc"; }
      else if (what == 2) { const int nf = dur < 125 ? 1 : dur < 500 ? 2 : 3; cur.frame_num = (cur.frame_num + 1 + rng.range(0, nf - 1)) % (nf + 1); changed = "frame"; }
      if (changed.empty()) { cur.cm = random_cache(rng, recs); changed = "cache"; }
    }
    const int nsub = cur.numSubsets, frame_num = cur.frame_num;
    {
      vh::Json j("GConfig");
      j.num("id", ++g_cfg_id).boolean("xm", true).boolean("reuse", ex > 0).str("changed", changed);
      geo_fields(j, g, *templ);
      std::vector<std::vector<long long>> fr;
      if (frame_num > 0) fr.push_back({ frames[frame_num - 1].first, frames[frame_num - 1].second });
      j.num("numSubsets", nsub).boolean("hasAdd", hasAdd).num("k", K).arr2("frames", fr).num("frameNum", frame_num).num("len", (long long)recs.size())
          .num("cache", cur.cm.cache).boolean("disk", cur.cm.disk).num("maxSegProc", cur.maxSegProc);
      pdi_fields(j, *templ);
      j.num("nvox", (long long)vox.size()).arr("lam", lam).arr2("rows", rows);
      tr.emit(j);
      std::vector<std::vector<long long>> rr;
      for (auto& r : recs) rr.push_back(r.as_ints());
      tr.emit(vh::Json("Stream").arr2("recs", rr));
    }
    std::string msg;
    bool err = vh::threw([&] {
      shared_ptr<ProjData> hist(new ProjDataInMemory(lm->get_exam_info_sptr(), templ));
      {
        lm->reset();
        LmProbe l2p;
        l2p.set_input_data(lm);
        l2p.set_template_proj_data_info_sptr(templ);
        l2p.set_output_filename_prefix("c14-unused");
        l2p.set_store_prompts(true);
        l2p.set_store_delayeds(false);
        if (frame_num > 0) {
          std::vector<std::pair<double, double>> ft{ { (unsigned long)frames[frame_num - 1].first / 1000., (unsigned long)frames[frame_num - 1].second / 1000. } };
          l2p.set_time_frame_definitions(TimeFrameDefinitions(ft));
        }
        l2p.set_up();
        l2p.replace_output(hist);
        l2p.process_data();
        emit_out(tr, *hist, 1, false);
      }
      if (ex == 0) {
        lmobj.set_input_data(lm);
        lmobj.set_proj_matrix(shared_ptr<ProjMatrixByBin>(new vh::ExplicitProjMatrix(data)));
        if (hasAdd) lmobj.set_additive_proj_data_sptr(add);
        lmobj.set_use_subset_sensitivities(true);
        lmobj.set_recompute_sensitivity(true);
        lmobj.set_skip_balanced_subsets(true);
      }
      // only the setter of the changed setting is called on the re-used object
      if (ex == 0 || prev.numSubsets != cur.numSubsets) lmobj.set_num_subsets(nsub);
      if (ex == 0 || prev.frame_num != cur.frame_num) {
        std::vector<std::pair<double, double>> ft;
        for (int f = 0; f < frame_num; ++f) ft.push_back({ (unsigned long)frames[f].first / 1000., (unsigned long)frames[f].second / 1000. });
        lmobj.frame_defs = TimeFrameDefinitions(ft);
        lmobj.set_frame_num(frame_num > 0 ? frame_num : 1);
      }
      if (ex == 0 || prev.cm.cache != cur.cm.cache || prev.cm.disk != cur.cm.disk) {
        if (cur.cm.disk) apply_cache_before_set_up(lmobj, cur.cm); else lmobj.set_cache_max_size(0);
      }
      if (ex == 0 || prev.maxSegProc != cur.maxSegProc) lmobj.set_max_segment_num_to_process(cur.maxSegProc);
      if (lmobj.set_up(image) != Succeeded::yes) error("list-mode objective set_up failed");
      apply_cache_after_set_up(lmobj, cur.cm);
      PoissonLogLikelihoodWithLinearModelForMeanAndProjData<Img> pdobj;
      pdobj.set_proj_data_sptr(hist);
      pdobj.set_projector_pair_sptr(vh::make_explicit_projector_pair(data));
      if (hasAdd) pdobj.set_additive_proj_data_sptr(add);
      pdobj.set_num_subsets(nsub);
      pdobj.set_max_segment_num_to_process(cur.maxSegProc);
      pdobj.set_use_subset_sensitivities(true);
      pdobj.set_recompute_sensitivity(true);
      pdobj.set_zero_seg0_end_planes(false);
      if (pdobj.set_up(image) != Succeeded::yes) error("projection-data objective set_up failed");
      shared_ptr<Img> g1(image->get_empty_copy()), g2(image->get_empty_copy());
      for (int sub = 0; sub < nsub; ++sub)
        tr.emit(vh::Json("Sens").num("subset", sub).num("k", K).arr("lm", img_fx(lmobj.get_subset_sensitivity(sub), K)).arr("pd", img_fx(pdobj.get_subset_sensitivity(sub), K)));
      for (int sub = 0; sub < nsub; ++sub)
        for (int plus = 1; plus >= 0; --plus) {
          g1->fill(0.F); g2->fill(0.F);
          if (plus) {
            lmobj.compute_sub_gradient_without_penalty_plus_sensitivity(*g1, *image, sub);
            pdobj.compute_sub_gradient_without_penalty_plus_sensitivity(*g2, *image, sub);
          } else {
            lmobj.compute_sub_gradient_without_penalty(*g1, *image, sub);
            pdobj.compute_sub_gradient_without_penalty(*g2, *image, sub);
          }
          tr.emit(vh::Json("Grad").num("subset", sub).boolean("plusSens", plus != 0).num("k", K).arr("lm", img_fx(*g1, K)).arr("pd", img_fx(*g2, K)));
        }
      emit_hessians(tr, lmobj, pdobj, image, nsub, 12);
    }, &msg);
    remove_cache_files();
    vh::Json e("End");
    e.boolean("err", err);
    if (err) e.str("msg", msg);
    tr.emit(e);
    if (err) break;
  }
}

// ---------------------------------------------------------------- scanner-specific record decoder: ECAT8 32-bit (PETLINK) words
// Synthetic raw 32-bit words are given to the real CListRecordECAT8_32bit; what it decodes is recorded.
//   EConfig  scanner (N, R, maxT, uncompressed number of tangential positions) + the (span 1) template geometry
//   W        hi, lo: the two 16-bit halves of the word, swap: bytes given in the other byte order;
//            isTime, isEvent; time: ms; event: prompt, detection positions d1 r1 d2 r2 t, bin in the template (ok, seg ...)
static void run_ecat(vh::Trace& tr, vh::Rng& rng, int nwords) {
  // template geometry the decoded events are binned into: anything LmToProjData accepts
  Geo g = random_geo(rng, 0);
  while (g.N > 12 || g.R > 3) g = random_geo(rng, 0);
  shared_ptr<Scanner> sc = vh::make_scanner(g.N, g.R, g.maxT);
  shared_ptr<ProjDataInfo> templ = make_template(sc, g);
  // the geometry the offsets of the words point into: the scanner's uncompressed (TOF) sinogram, which is what the
  // record class is constructed with (it requires span 1 and takes its segment / TOF bin order from it)
  shared_ptr<ProjDataInfo> unc = ProjDataInfo::construct_proj_data_info(sc, 1, g.R - 1, g.N / 2, sc->get_max_num_non_arccorrected_bins(), false, g.maxT > 0 ? 1 : 0);
  {
    vh::Json j("EConfig");
    j.num("id", ++g_cfg_id);
    geo_fields(j, g, *templ);
    j.num("uNumTang", sc->get_max_num_non_arccorrected_bins());
    tr.emit(j);
  }
  std::string msg;
  bool err = vh::threw([&] {
    ecat::CListRecordECAT8_32bit rec(unc);
    CListRecord& r = rec;
    const unsigned long total = (unsigned long)unc->size_all();
    for (int w = 0; w < nwords; ++w) {
      boost::uint32_t word;
      const int kind = rng.range(0, 9);
      if (kind < 7) {
        const unsigned long off = kind == 0 ? 0 : kind == 1 ? total - 1 : (unsigned long)(rng.next() % total);
        word = (boost::uint32_t)off | ((boost::uint32_t)rng.range(0, 1) << 30);
      } else {
        const boost::uint32_t t = kind == 7 ? (boost::uint32_t)rng.range(0, 70000) : (boost::uint32_t)(rng.next() % (1UL << 29));
        const boost::uint32_t tag = kind == 9 ? (boost::uint32_t)rng.range(1, 3) : 0U;
        word = (1U << 31) | (tag << 29) | t;
      }
      const bool swap = rng.range(0, 3) == 0;
      boost::uint32_t raw = word;
      if (swap) ByteOrder::swap_order(raw);
      rec.init_from_data_ptr(reinterpret_cast<const char*>(&raw), 4, swap);
      vh::Json j("W");
      j.num("hi", word >> 16).num("lo", word & 0xFFFFU).boolean("swap", swap).boolean("isTime", r.is_time()).boolean("isEvent", r.is_event());
      if (r.is_time()) j.num("ms", (long long)r.time().get_time_in_millisecs());
      if (r.is_event()) {
        j.boolean("prompt", r.event().is_prompt());
        DetectionPositionPair<> dp;
        dynamic_cast<const CListEventCylindricalScannerWithDiscreteDetectors&>(r.event()).get_detection_position(dp);
        j.num("d1", dp.pos1().tangential_coord()).num("r1", dp.pos1().axial_coord()).num("d2", dp.pos2().tangential_coord()).num("r2", dp.pos2().axial_coord()).num("t", dp.timing_pos());
        Bin b;
        b.set_bin_value(1.F);
        r.event().get_bin(b, *templ);
        const bool ok = b.get_bin_value() > 0;
        j.boolean("ok", ok).num("seg", ok ? b.segment_num() : 0).num("ax", ok ? b.axial_pos_num() : 0).num("view", b.view_num()).num("tang", b.tangential_pos_num()).num("tof", b.timing_pos_num());
      }
      tr.emit(j);
    }
  }, &msg);
  vh::Json e("End");
  e.boolean("err", err);
  if (err) e.str("msg", msg);
  tr.emit(e);
}

int main(int argc, char** argv) {
  if (argc < 4) return 2;
  vh::install_terminate(); vh::quiet();
  if (!getenv("VERIF_STDERR")) { if (!freopen("/dev/null", "w", stderr)) return 3; if (!freopen("/dev/null", "w", stdout)) return 3; }
  const std::string mode = argv[1];
  vh::Trace tr(argv[2]);
  g_tr = &tr;
  const long runs = atol(argv[3]);
  vh::Rng rng(vh::seed_from_env());
  if ((mode == "grad" || mode == "gradx") && argc > 5) g_cache_dir = argv[5];
  if (mode == "hist") { if (argc > 6) g_scratch = argv[6]; mode_hist(tr, runs, argc > 4 ? atoi(argv[4]) : 40, argc > 5 ? atoi(argv[5]) : 0, rng); }
  else if (mode == "reuse") { if (argc > 5) g_scratch = argv[5]; mode_reuse(tr, runs, argc > 4 ? atoi(argv[4]) : 30, rng); }
  else if (mode == "allbatch") mode_allbatch(tr, runs, argc > 4 ? atoi(argv[4]) : 30, rng);
  else if (mode == "long") mode_long(tr, runs, argc > 4 ? atoi(argv[4]) : 2000, rng);
  else if (mode == "ecat") for (long i = 0; i < runs; ++i) run_ecat(tr, rng, argc > 4 ? atoi(argv[4]) : 40);
  else if (mode == "gradx") for (long i = 0; i < runs; ++i) run_gradx(tr, rng, argc > 4 ? atoi(argv[4]) : 0);
  else if (mode == "grad") for (long i = 0; i < runs; ++i) run_grad(tr, rng, argc > 4 ? atoi(argv[4]) : 0);
  else return 2;
  return 0;
}
