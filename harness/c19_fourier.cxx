// C19 driver: drives STIR's array filters and Fourier transforms and records inputs and outputs.
// No property formula, no expected value, no comparison here: TLC (Trace_Conv.tla, Trace_DFT4.tla) decides.
//   c19_fourier conv <out.ndjson> <n-random> <tier>    exact integer/dyadic instances of the convolution filters
//   c19_fourier dft  <out.ndjson> <max-total-size> <repeats> <max-table-length> <max-size-per-axis-tables>   fourier / inverse_fourier / real-data transforms
//   c19_fourier filt <out.ndjson> <n>                  separable Gaussian / Metz filters on piecewise constant data
//   c19_fourier more <out.ndjson> <n>                  median/minimal/threshold/truncate/chained processors, ramp filter, array functions, parsing round trips
// Number encodings: kernel and data values are integers times 2^-scale (exact in single precision);
// results are logged as round(v * 2^k) together with the largest rounding residual in 2^-(k+20) units
// ("res", 0 = every result is exactly representable at the scale) or, for the DFT routes, only rounded.
#include "vh.h"
#include "stir/Array.h"
#include "stir/Array_complex_numbers.h"
#include "stir/IndexRange.h"
#include "stir/BasicCoordinate.h"
#include "stir/VectorWithOffset.h"
#include "stir/ArrayFilter1DUsingConvolution.h"
#include "stir/ArrayFilter1DUsingConvolutionSymmetricKernel.h"
#include "stir/ArrayFilter2DUsingConvolution.h"
#include "stir/ArrayFilter3DUsingConvolution.h"
#include "stir/ArrayFilterUsingRealDFTWithPadding.h"
#include "stir/SeparableArrayFunctionObject.h"
#include "stir/SeparableConvolutionImageFilter.h"
#include "stir/SeparableGaussianArrayFilter.h"
#include "stir/SeparableGaussianImageFilter.h"
#include "stir/SeparableMetzArrayFilter.h"
#include "stir/SeparableCartesianMetzImageFilter.h"
#include "stir/MedianArrayFilter3D.h"
#include "stir/MedianImageFilter3D.h"
#include "stir/MinimalArrayFilter3D.h"
#include "stir/ThresholdMinToSmallPositiveValueDataProcessor.h"
#include "stir/ChainedDataProcessor.h"
#include "stir/TruncateToCylindricalFOVImageProcessor.h"
#include "stir/ArrayFunction.h"
#include "stir/analytic/FBP2D/RampFilter.h"
#include "stir/Coordinate3D.h"
#include "stir/VoxelsOnCartesianGrid.h"
#include "stir/numerics/fourier.h"
#include "stir/Verbosity.h"
#include "stir/shared_ptr.h"
#include <complex>
#include <sys/types.h>
#include <sys/wait.h>
#include <csignal>
#include <algorithm>
using namespace stir;

// ------------------------------------------------------------------ integer arrays with index ranges
struct A3 {
  int lo[3] = { 0, 0, 0 }, n[3] = { 1, 1, 1 };
  std::vector<long long> v;
  long size() const { return (long)n[0] * n[1] * n[2]; }
  void pos(long q, int* p) const { p[0] = lo[0] + (int)(q / ((long)n[1] * n[2])); p[1] = lo[1] + (int)((q / n[2]) % n[1]); p[2] = lo[2] + (int)(q % n[2]); }
};
static std::vector<int> v3(const int* p) { return { p[0], p[1], p[2] }; }

template <int D, class T> struct Acc;
template <class T> struct Acc<1, T> { static T& at(Array<1, T>& a, const int* p) { return a[p[2]]; } };
template <class T> struct Acc<2, T> { static T& at(Array<2, T>& a, const int* p) { return a[p[1]][p[2]]; } };
template <class T> struct Acc<3, T> { static T& at(Array<3, T>& a, const int* p) { return a[p[0]][p[1]][p[2]]; } };

template <int D> static IndexRange<D> range_of(const int* lo, const int* n) {
  BasicCoordinate<D, int> mn, mx;
  for (int d = 1; d <= D; ++d) { mn[d] = lo[3 - D + d - 1]; mx[d] = lo[3 - D + d - 1] + n[3 - D + d - 1] - 1; }
  return IndexRange<D>(mn, mx);
}
template <int D> static Array<D, float> to_array(const A3& a, int scale) {
  Array<D, float> r(range_of<D>(a.lo, a.n));
  int p[3];
  for (long q = 0; q < a.size(); ++q) { a.pos(q, p); Acc<D, float>::at(r, p) = (float)std::ldexp((double)a.v[q], -scale); }
  return r;
}
// values of r on the range (lo, n), as round(v*2^k); res = largest |v*2^k - round| in 2^-20 units
template <int D> static std::vector<long long> from_array(Array<D, float>& r, const int* lo, const int* n, int k, long long* res) {
  A3 t; for (int d = 0; d < 3; ++d) { t.lo[d] = lo[d]; t.n[d] = n[d]; }
  std::vector<long long> out((size_t)t.size());
  int p[3];
  for (long q = 0; q < t.size(); ++q) {
    t.pos(q, p);
    const double x = std::ldexp((double)Acc<D, float>::at(r, p), k);
    out[(size_t)q] = vh::fx(Acc<D, float>::at(r, p), k);
    if (res) *res = std::max(*res, (long long)std::llround(std::fabs(x - (double)out[(size_t)q]) * 1048576.0));
  }
  return out;
}
static A3 rand_array(vh::Rng& rng, const int* lo, const int* n, int amp) {
  A3 a; for (int d = 0; d < 3; ++d) { a.lo[d] = lo[d]; a.n[d] = n[d]; }
  a.v.resize((size_t)a.size());
  for (auto& x : a.v) x = rng.range(-amp, amp);
  return a;
}
static const char* BCN[3] = { "zero", "constant", "periodic" };
static BoundaryConditions::BC BCV[3] = { BoundaryConditions::zero, BoundaryConditions::constant, BoundaryConditions::periodic };

static long ev_id = 0;

// a fatal signal inside the code under test: truncated but valid trace + Abort line (which no specification accepts)
static void on_fatal_signal(int) {
  if (vh::Trace::current()) { vh::Trace::current()->emit(vh::Json("Abort")); vh::Trace::current()->flush(); }
  _exit(0);
}
static void install_signal_handlers(bool on) {
  for (int sig : { SIGSEGV, SIGBUS, SIGFPE, SIGILL, SIGABRT }) std::signal(sig, on ? on_fatal_signal : SIG_DFL);
}

// ------------------------------------------------------------------ mode conv
static VectorWithOffset<float> kernel1d(int lo, const std::vector<long long>& v, int scale) {
  if (v.empty()) return VectorWithOffset<float>();
  VectorWithOffset<float> k(lo, lo + (int)v.size() - 1);
  for (size_t i = 0; i < v.size(); ++i) k[lo + (int)i] = (float)std::ldexp((double)v[i], -scale);
  return k;
}

static void one_c1(vh::Trace& tr, int klo, const std::vector<long long>& kv, int sk, int bc, const A3& d, int sd, int olo, int on, bool inplace) {
  if (kv.empty()) sk = 0;   // no kernel: nothing to scale
  VectorWithOffset<float> k = kernel1d(klo, kv, sk);
  Array<1, float> in = to_array<1>(d, sd);
  Array<1, float> out(olo, olo + on - 1);
  out.fill(777.F);   // stale contents must not survive
  bool err = false; std::string msg;
  Array<1, float>* res = &out;
  err = vh::threw([&] {
    ArrayFilter1DUsingConvolution<float> f(k, BCV[bc]);
    if (inplace) { f(in); res = &in; } else f(out, in);
  }, &msg);
  vh::Json j("C1");
  j.num("id", ++ev_id).str("bc", BCN[bc]).num("klo", klo).arr("k", kv).num("sk", sk).num("dlo", d.lo[2]).arr("d", d.v).num("sd", sd)
      .boolean("inpl", inplace).boolean("err", err);
  if (!err) {
    long long r = 0;
    int lo[3] = { 0, 0, inplace ? d.lo[2] : olo }, n[3] = { 1, 1, inplace ? d.n[2] : on };
    std::vector<long long> o = from_array<1>(*res, lo, n, sk + sd, &r);
    j.num("olo", lo[2]).arr("o", o).num("res", r);
  } else j.num("olo", inplace ? d.lo[2] : olo).num("on", inplace ? d.n[2] : on);
  tr.emit(j);
}

static void one_cs(vh::Trace& tr, const std::vector<long long>& h, int sk, const A3& d, int sd, bool inplace) {
  if (h.empty()) sk = 0;
  VectorWithOffset<float> k = kernel1d(0, h, sk);
  Array<1, float> in = to_array<1>(d, sd);
  Array<1, float> out(in.get_index_range());
  out.fill(777.F);
  Array<1, float>* res = &out;
  bool err = vh::threw([&] {
    ArrayFilter1DUsingConvolutionSymmetricKernel<float> f(k);
    if (inplace) { f(in); res = &in; } else f(out, in);
  });
  vh::Json j("CS");
  j.num("id", ++ev_id).arr("h", h).num("sk", sk).num("dlo", d.lo[2]).arr("d", d.v).num("sd", sd).boolean("inpl", inplace).boolean("err", err);
  if (!err) { long long r = 0; j.arr("o", from_array<1>(*res, d.lo, d.n, sk + sd, &r)).num("res", r); }
  tr.emit(j);
}

template <int D, class Filter> static void one_cn(vh::Trace& tr, const A3& k, int sk, const A3& d, int sd, const int* olo, const int* on, bool inplace, bool isolated = false) {
  // A kernel whose first index range is 0..0 makes is_trivial() read element [0]..[0] whether or not it exists; when the
  // middle index range of a 3-D kernel does not contain 0 that read goes through a non-existing Array<1> and can kill the
  // process.  Such instances run in a child process; if the child dies the event is recorded with "crash":true.
  if (!isolated && D == 3 && k.size() > 0 && k.lo[0] == 0 && k.n[0] == 1 && !(k.lo[1] <= 0 && 0 < k.lo[1] + k.n[1])) {
    tr.flush();
    const pid_t pid = fork();
    if (pid == 0) { install_signal_handlers(false); std::set_terminate([] { std::abort(); }); one_cn<D, Filter>(tr, k, sk, d, sd, olo, on, inplace, true); tr.flush(); _exit(0); }
    int status = 0;
    waitpid(pid, &status, 0);
    if (!(WIFEXITED(status) && WEXITSTATUS(status) == 0)) {
      ++ev_id;
      tr.emit(vh::Json("CN").num("id", ev_id).num("dim", D).arr("klo", v3(k.lo)).arr("kn", v3(k.n)).arr("k", k.v).num("sk", sk)
                  .arr("dlo", v3(d.lo)).arr("dn", v3(d.n)).arr("d", d.v).num("sd", sd).boolean("inpl", inplace).boolean("err", false).boolean("crash", true)
                  .arr("olo", v3(inplace ? d.lo : olo)).arr("on", v3(inplace ? d.n : on)));
    } else ++ev_id;
    return;
  }
  Array<D, float> in = to_array<D>(d, sd);
  Array<D, float> out(range_of<D>(olo, on));
  out.fill(777.F);
  Array<D, float>* res = &out;
  bool err = vh::threw([&] {
    if (k.size() == 0) { Filter f; if (inplace) { f(in); res = &in; } else f(out, in); }
    else { Filter f(to_array<D>(k, sk)); if (inplace) { f(in); res = &in; } else f(out, in); }
  });
  vh::Json j("CN");
  j.num("id", ++ev_id).num("dim", D).arr("klo", v3(k.lo)).arr("kn", v3(k.n)).arr("k", k.v).num("sk", sk)
      .arr("dlo", v3(d.lo)).arr("dn", v3(d.n)).arr("d", d.v).num("sd", sd).boolean("inpl", inplace).boolean("err", err).boolean("crash", false)
      .arr("olo", v3(inplace ? d.lo : olo)).arr("on", v3(inplace ? d.n : on));
  if (!err) { long long r = 0; j.arr("o", from_array<D>(*res, inplace ? d.lo : olo, inplace ? d.n : on, sk + sd, &r)).num("res", r); }
  tr.emit(j);
}

struct K1 { int lo; std::vector<long long> v; int bc; };
static void emit_sep_head(vh::Json& j, const K1* ks, int sk, const A3& d, int sd, int via) {
  std::vector<std::vector<long long>> kv = { ks[0].v, ks[1].v, ks[2].v };
  std::vector<int> klo = { ks[0].lo, ks[1].lo, ks[2].lo };
  j.num("via", via).arr("klo", klo).arr2("kv", kv).raw("bc", std::string("[\"") + BCN[ks[0].bc] + "\",\"" + BCN[ks[1].bc] + "\",\"" + BCN[ks[2].bc] + "\"]")
      .num("sk", sk).arr("dlo", v3(d.lo)).arr("dn", v3(d.n)).arr("d", d.v).num("sd", sd);
}
static void one_sep(vh::Trace& tr, const K1* ks, int sk, const A3& d, int sd, int via, bool isolated = false) {
  // via 0: SeparableArrayFunctionObject in place, 1: same, 2-argument call, 2: SeparableConvolutionImageFilter (coefficients
  // through the setter) apply(image), 3: same, apply(out, in), 4: SeparableConvolutionImageFilter(coefficients) constructor,
  // 5: that constructor, then parameter_info() parsed by a second filter which is the one applied.
  // The constructor once wrote outside a std::vector for kernels reaching further right than left (fixed by 532e517b9):
  // such instances run in a child process so that a corrupted heap cannot take the recording down; a child that dies is
  // recorded with "crash":true (which no specification accepts).
  bool right_heavy = false;
  for (int a = 0; a < 3; ++a) if (!ks[a].v.empty() && ks[a].lo + (int)ks[a].v.size() - 1 > -ks[a].lo) right_heavy = true;
  if (!isolated && via >= 4 && right_heavy) {
    tr.flush();
    const pid_t pid = fork();
    if (pid == 0) { install_signal_handlers(false); std::set_terminate([] { std::abort(); }); one_sep(tr, ks, sk, d, sd, via, true); tr.flush(); _exit(0); }
    int status = 0;
    waitpid(pid, &status, 0);
    ++ev_id;
    if (!(WIFEXITED(status) && WEXITSTATUS(status) == 0)) {
      vh::Json j("SEP");
      j.num("id", ev_id); emit_sep_head(j, ks, sk, d, sd, via); j.boolean("err", false).boolean("crash", true);
      tr.emit(j);
    }
    return;
  }
  Array<3, float> in = to_array<3>(d, sd);
  Array<3, float> out(in.get_index_range());
  out.fill(777.F);
  Array<3, float>* res = &in;
  bool err = vh::threw([&] {
    if (via == 6) {          // three null pointers: "either all null (a trivial object) or all non-null"
      VectorWithOffset<shared_ptr<ArrayFunctionObject<1, float>>> fs(3);
      SeparableArrayFunctionObject<3, float> f(fs);
      f(in);
    } else if (via == 7) {   // default constructor, 2-argument call
      SeparableArrayFunctionObject<3, float> f;
      f(out, in); res = &out;
    } else if (via <= 1) {
      VectorWithOffset<shared_ptr<ArrayFunctionObject<1, float>>> fs(3);
      for (int a = 0; a < 3; ++a) fs[a].reset(new ArrayFilter1DUsingConvolution<float>(kernel1d(ks[a].lo, ks[a].v, sk), BCV[ks[a].bc]));
      SeparableArrayFunctionObject<3, float> f(fs);
      if (via == 0) f(in); else { f(out, in); res = &out; }
    } else {
      VectorWithOffset<VectorWithOffset<float>> co(3);
      for (int a = 0; a < 3; ++a) co[a] = kernel1d(ks[a].lo, ks[a].v, sk);
      const CartesianCoordinate3D<float> origin(0.F, 0.F, 0.F);
      const CartesianCoordinate3D<float> spacing(2.F, 1.5F, 1.F);
      VoxelsOnCartesianGrid<float> image(in, origin, spacing), image_out(out, origin, spacing);
      shared_ptr<SeparableConvolutionImageFilter<float>> f;
      if (via == 4) f.reset(new SeparableConvolutionImageFilter<float>(co));
      else if (via == 5) {
        SeparableConvolutionImageFilter<float> first(co);
        std::istringstream text(first.parameter_info());
        f.reset(new SeparableConvolutionImageFilter<float>());
        if (!f->parse(text)) throw std::runtime_error("parse");
      } else { f.reset(new SeparableConvolutionImageFilter<float>()); f->set_filter_coefficients(co); }
      if (f->set_up(image) != Succeeded::yes) throw std::runtime_error("set_up");
      if (via == 3) { if (f->apply(image_out, image) != Succeeded::yes) throw std::runtime_error("apply"); out = image_out; res = &out; }
      else { if (f->apply(image) != Succeeded::yes) throw std::runtime_error("apply"); in = image; }
    }
  });
  vh::Json j("SEP");
  j.num("id", ++ev_id); emit_sep_head(j, ks, sk, d, sd, via); j.boolean("err", err).boolean("crash", false);
  int so = sd;
  for (int a = 0; a < 3; ++a) if (!ks[a].v.empty()) so += sk;
  if (!err) { long long r = 0; j.arr("o", from_array<3>(*res, d.lo, d.n, so, &r)).num("res", r); }
  tr.emit(j);
}

template <int D> static void one_df(vh::Trace& tr, const A3& k, const A3& d, const int* olo, const int* on, int fk, bool inplace) {
  Array<D, float> in = to_array<D>(d, 0);
  Array<D, float> out(range_of<D>(olo, on));
  out.fill(777.F);
  Array<D, float>* res = &out;
  bool err = vh::threw([&] {
    ArrayFilterUsingRealDFTWithPadding<D, float> f;
    if (f.set_kernel(to_array<D>(k, 0)) != Succeeded::yes) throw std::runtime_error("set_kernel");
    if (inplace) { f(in); res = &in; } else f(out, in);
  });
  vh::Json j("DF");
  j.num("id", ++ev_id).num("dim", D).arr("klo", v3(k.lo)).arr("kn", v3(k.n)).arr("k", k.v).arr("dlo", v3(d.lo)).arr("dn", v3(d.n)).arr("d", d.v)
      .boolean("inpl", inplace).boolean("err", err).arr("olo", v3(inplace ? d.lo : olo)).arr("on", v3(inplace ? d.n : on)).num("fk", fk);
  if (!err) j.arr("o", from_array<D>(*res, inplace ? d.lo : olo, inplace ? d.n : on, fk, nullptr));
  tr.emit(j);
}

static std::vector<long long> rand_vals(vh::Rng& rng, int len, int amp) { std::vector<long long> v((size_t)len); for (auto& x : v) x = rng.range(-amp, amp); return v; }

static void mode_conv(vh::Trace& tr, long nrandom, int tier, vh::Rng& rng) {
  // (a) every small combination of index ranges of kernel, data and output, every boundary condition
  for (int klo = -2; klo <= 2; ++klo)
    for (int klen = 0; klen <= 3; ++klen)
      for (int dlo : { -1, 0, 2 })
        for (int dlen = 1; dlen <= 3; ++dlen)
          for (int bc = 0; bc < 3; ++bc)
            for (int os = -3; os <= 3; ++os)
              for (int on : { 1, 2, 5 }) {
                if (klen == 0 && klo != 0) continue;
                if (tier == 0 && bc == 2 && (os != 0 || on != 2)) continue;
                if (tier == 0 && ((klo + klen + dlo + dlen + os + on) % 2) != 0) continue;   // quick tier: every other combination
                std::vector<long long> kv = rand_vals(rng, klen, 8);
                if (klen == 1 && rng.range(0, 2) == 0) kv[0] = 1;                              // "trivial" kernels and their shifted relatives
                const int sk = (klen == 1 && kv[0] == 1) ? 0 : rng.range(0, 2), sd = rng.range(0, 3);
                int lo[3] = { 0, 0, dlo }, n[3] = { 1, 1, dlen };
                A3 d = rand_array(rng, lo, n, 15);
                one_c1(tr, klo, kv, sk, bc, d, sd, dlo + os, on, false);
                if (os == 0 && on == 2) one_c1(tr, klo, kv, sk, bc, d, sd, dlo, dlen, true);
              }
  // (b) random larger ones
  for (long it = 0; it < nrandom; ++it) {
    const int klen = rng.range(0, 7), klo = klen == 0 ? 0 : rng.range(-6, 4), dlen = rng.range(1, 12), dlo = rng.range(-9, 9);
    std::vector<long long> kv = rand_vals(rng, klen, 8);
    int lo[3] = { 0, 0, dlo }, n[3] = { 1, 1, dlen };
    A3 d = rand_array(rng, lo, n, 15);
    const int bc = rng.range(0, 9) == 0 ? 2 : rng.range(0, 1);
    one_c1(tr, klo, kv, rng.range(0, 2), bc, d, rng.range(0, 3), dlo + rng.range(-9, 9), rng.range(1, 16), rng.range(0, 3) == 0);
  }
  // symmetric kernels: all small lengths, random values
  for (int hlen = 0; hlen <= 5; ++hlen)
    for (int dlo : { -3, 0, 4 })
      for (int dlen = 1; dlen <= 7; ++dlen)
        for (int rep = 0; rep < (tier ? 4 : 1); ++rep) {
          std::vector<long long> h = rand_vals(rng, hlen, 8);
          if (hlen == 1 && rep == 0) h[0] = 1;
          int lo[3] = { 0, 0, dlo }, n[3] = { 1, 1, dlen };
          one_cs(tr, h, (hlen == 1 && h[0] == 1) ? 0 : rng.range(0, 2), rand_array(rng, lo, n, 15), rng.range(0, 3), rng.coin());
        }
  // 2-D and 3-D kernels
  const long ncn = nrandom / 2 + 40;
  for (long it = 0; it < ncn; ++it) {
    const int D = 2 + (int)(it % 2);
    A3 k, d; int olo[3] = { 0, 0, 0 }, on[3] = { 1, 1, 1 };
    int klo[3] = { 0, 0, 0 }, kn[3] = { 1, 1, 1 }, dlo[3] = { 0, 0, 0 }, dn[3] = { 1, 1, 1 };
    for (int a = 3 - D; a < 3; ++a) {
      klo[a] = rng.range(-2, 1); kn[a] = rng.range(1, 3); dlo[a] = rng.range(-2, 2); dn[a] = rng.range(1, 4);
      olo[a] = dlo[a] + rng.range(-3, 3); on[a] = rng.range(1, 5);
    }
    const int special = rng.range(0, 7);
    if (special == 0) { for (int a = 0; a < 3; ++a) { klo[a] = 0; kn[a] = 1; } }            // 1-element kernel at the origin
    if (special == 1) { klo[3 - D] = 0; kn[3 - D] = 1; }                                       // one row/plane only
    k = rand_array(rng, klo, kn, 6);
    if (special <= 1 && rng.range(0, 2) != 0) {                                                // ... whose element at index 0,..,0 is 1
      int p[3];
      for (long q = 0; q < k.size(); ++q) { k.pos(q, p); if (p[0] == 0 && p[1] == 0 && p[2] == 0) k.v[(size_t)q] = 1; }
    }
    int sk = rng.range(0, 2);
    if (special <= 1) sk = 0;
    if (special == 2) { k.n[3 - D] = 0; k.v.clear(); sk = 0; }                                 // no kernel at all ("trivial")
    d = rand_array(rng, dlo, dn, 15);
    const bool inplace = rng.range(0, 3) == 0;
    if (D == 2) one_cn<2, ArrayFilter2DUsingConvolution<float>>(tr, k, sk, d, rng.range(0, 3), olo, on, inplace);
    else one_cn<3, ArrayFilter3DUsingConvolution<float>>(tr, k, sk, d, rng.range(0, 3), olo, on, inplace);
  }
  // separable filters
  const long nsep = nrandom / 2 + 40;
  for (long it = 0; it < nsep; ++it) {
    K1 ks[3];
    int via = (int)(it % 8);
    for (int a = 0; a < 3; ++a) {
      const int len = via >= 6 ? 0 : rng.range(0, 3);
      ks[a].lo = len == 0 ? 0 : rng.range(-2, 1);
      ks[a].v = rand_vals(rng, len, 5);
      if (len == 1 && rng.range(0, 2) == 0) ks[a].v[0] = 1;
      ks[a].bc = via <= 1 ? rng.range(0, 1) : 0;
    }
    int dlo[3], dn[3];
    for (int a = 0; a < 3; ++a) { dlo[a] = rng.range(-2, 2); dn[a] = rng.range(1, 4); }
    int sk = rng.range(0, 1);
    for (int a = 0; a < 3; ++a) if (ks[a].v.size() == 1 && ks[a].v[0] == 1) sk = 0;
    one_sep(tr, ks, sk, rand_array(rng, dlo, dn, 12), rng.range(0, 2), via);
  }
  // padded DFT route
  const long ndf = nrandom / 2 + 60;
  for (long it = 0; it < ndf; ++it) {
    const int D = 1 + (int)(it % 3);
    int L[3] = { 1, 1, 1 }, klo[3] = { 0, 0, 0 }, dlo[3] = { 0, 0, 0 }, dn[3] = { 1, 1, 1 }, olo[3] = { 0, 0, 0 }, on[3] = { 1, 1, 1 };
    const bool nowrap = rng.range(0, 3) != 0;   // most instances satisfy "padded length >= 2 x data length"; the others exercise the periodic wrap
    for (int a = 3 - D; a < 3; ++a) {
      L[a] = 1 << rng.range(a == 2 ? 1 : 0, D == 1 ? 6 : (D == 2 ? 4 : 3));
      klo[a] = rng.range(0, 3) == 0 ? 0 : (rng.range(0, 2) == 0 ? rng.range(-L[a], L[a]) : -(L[a] / 2));
      const int half = std::max(1, L[a] / 2);
      if (nowrap) {
        const int w0 = rng.range(-5, 5), w = rng.range(1, half);     // window of at most half the padded length
        dn[a] = rng.range(1, w); dlo[a] = w0 + rng.range(0, w - dn[a]);
        on[a] = rng.range(1, w); olo[a] = w0 + rng.range(0, w - on[a]);
      } else {
        // one in three of these: data longer than the padded length (copied "using wrap-around")
        dn[a] = rng.range(0, 2) == 0 ? rng.range(L[a] + 1, 2 * L[a] + 2) : rng.range(1, L[a]); dlo[a] = rng.range(-5, 5);
        on[a] = rng.range(1, L[a] + 2); olo[a] = rng.range(-7, 7);
      }
    }
    A3 k; for (int a = 0; a < 3; ++a) { k.lo[a] = klo[a]; k.n[a] = L[a]; }
    k.v.assign((size_t)k.size(), 0);
    const int nz = rng.range(1, 6);
    for (int z = 0; z < nz; ++z) k.v[(size_t)rng.range(0, (int)k.size() - 1)] = rng.range(-8, 8);
    A3 d = rand_array(rng, dlo, dn, 15);
    const bool inplace = rng.range(0, 4) == 0;
    if (D == 1) one_df<1>(tr, k, d, olo, on, 10, inplace);
    else if (D == 2) one_df<2>(tr, k, d, olo, on, 10, inplace);
    else one_df<3>(tr, k, d, olo, on, 10, inplace);
  }
}

// ------------------------------------------------------------------ mode dft
typedef std::complex<float> cf;
template <int D> static Array<D, cf> to_carray(const int* n, const std::vector<long long>& re, const std::vector<long long>& im, int scale) {
  int lo[3] = { 0, 0, 0 };
  Array<D, cf> r(range_of<D>(lo, n));
  A3 t; for (int d = 0; d < 3; ++d) t.n[d] = n[d];
  int p[3];
  for (long q = 0; q < t.size(); ++q) { t.pos(q, p); Acc<D, cf>::at(r, p) = cf((float)std::ldexp((double)re[(size_t)q], -scale), (float)std::ldexp((double)im[(size_t)q], -scale)); }
  return r;
}
template <int D> static double cmaxabs(Array<D, cf>& a, const int* n) {
  A3 t; for (int d = 0; d < 3; ++d) t.n[d] = n[d];
  int p[3]; double m = 0;
  for (long q = 0; q < t.size(); ++q) { t.pos(q, p); const cf z = Acc<D, cf>::at(a, p); m = std::max(m, std::max(std::fabs((double)z.real()), std::fabs((double)z.imag()))); }
  return m;
}
template <int D> static void clog(vh::Json& j, const char* kre, const char* kim, Array<D, cf>& a, const int* n, int k) {
  A3 t; for (int d = 0; d < 3; ++d) t.n[d] = n[d];
  std::vector<long long> re((size_t)t.size()), im((size_t)t.size());
  int p[3];
  for (long q = 0; q < t.size(); ++q) { t.pos(q, p); const cf z = Acc<D, cf>::at(a, p); re[(size_t)q] = vh::fx(z.real(), k); im[(size_t)q] = vh::fx(z.imag(), k); }
  j.arr(kre, re).arr(kim, im);
}
// scale (number of fractional bits, possibly negative) at which every logged value stays below 2^15
static int scale_for(double maxabs, int cap) { int k = cap; while (k > -24 && std::ldexp(maxabs, k) >= 32000.0) --k; return k; }

template <int D> static void one_fi(vh::Trace& tr, const int* n, int sign, const std::vector<long long>& re, const std::vector<long long>& im, int sx, const char* kind) {
  Array<D, cf> c = to_carray<D>(n, re, im, sx);
  vh::Json j("FI");
  j.num("id", ++ev_id).num("dim", D).str("kind", kind).arr("n", v3(n)).num("sign", sign).num("sx", sx).arr("xre", re).arr("xim", im);
  bool err = vh::threw([&] { fourier(c, sign); });
  if (!err) {
    const int kX = scale_for(cmaxabs<D>(c, n), sx + 8);
    j.num("kX", kX); clog<D>(j, "Xre", "Xim", c, n, kX);
    err = vh::threw([&] { inverse_fourier(c, sign); });
    if (!err) { const int ky = scale_for(cmaxabs<D>(c, n), sx + 7); j.num("ky", ky); clog<D>(j, "yre", "yim", c, n, ky); }
  }
  j.boolean("err", err);
  tr.emit(j);
}
template <int D> static void one_rc(vh::Trace& tr, const int* n, int sign, const std::vector<long long>& x, int sx) {
  A3 a; for (int d = 0; d < 3; ++d) a.n[d] = n[d];
  a.v = x;
  Array<D, float> v = to_array<D>(a, sx);
  std::vector<long long> zero(x.size(), 0);
  Array<D, cf> c = to_carray<D>(n, x, zero, sx);
  int h[3] = { n[0], n[1], n[2] / 2 + 1 };
  vh::Json j("RC");
  j.num("id", ++ev_id).num("dim", D).arr("n", v3(n)).num("sign", sign).num("sx", sx).arr("x", x);
  Array<D, cf> R;
  bool err = vh::threw([&] {
    R = fourier_for_real_data(v, sign);
    Array<D, cf> A = pos_frequencies_to_all(R);
    fourier(c, sign);
    const int k = scale_for(std::max(cmaxabs<D>(c, n), std::max(cmaxabs<D>(A, n), cmaxabs<D>(R, h))), sx + 8);
    j.num("k", k).arr("hn", v3(h));
    clog<D>(j, "Rre", "Rim", R, h, k); clog<D>(j, "Are", "Aim", A, n, k); clog<D>(j, "Cre", "Cim", c, n, k);
  });
  j.boolean("err", err);
  if (!err) {
    const bool yerr = vh::threw([&] {
      Array<D, float> y = inverse_fourier_for_real_data(R, sign);
      int lo[3] = { 0, 0, 0 };
      double m = 0; { int p[3]; for (long q = 0; q < a.size(); ++q) { a.pos(q, p); m = std::max(m, std::fabs((double)Acc<D, float>::at(y, p))); } }
      const int ky = scale_for(m, sx + 7);
      j.num("ky", ky).arr("y", from_array<D>(y, lo, n, ky, nullptr));
    });
    j.boolean("yerr", yerr);
  }
  tr.emit(j);
}
// twiddle table and transform values of a 1-D transform: transforms of unit impulses and of random integer data
static void one_tw(vh::Trace& tr, int n, int sign, vh::Rng& rng) {
  const int nn[3] = { 1, 1, n };
  const int wk = 15;
  auto impulse = [&](int m) { Array<1, cf> c(0, n - 1); c[m] = cf(1.F, 0.F); fourier(c, sign); return c; };
  vh::Json j("TW");
  j.num("id", ++ev_id).num("dim", 1).arr("n", v3(nn)).num("sign", sign).num("wk", wk);
  bool err = vh::threw([&] {
    Array<1, cf> w = impulse(n > 1 ? 1 : 0);
    clog<1>(j, "wre", "wim", w, nn, wk);
    std::vector<int> pm;
    if (n > 1) { pm = { 0, 2 % n, 3 % n, n / 2, n - 1, rng.range(0, n - 1), rng.range(0, n - 1) }; }
    std::string pre = "[", pim = "[";
    for (size_t i = 0; i < pm.size(); ++i) {
      Array<1, cf> e = impulse(pm[i]);
      vh::Json t; clog<1>(t, "re", "im", e, nn, wk);
      const std::string d = t.done();     // {"re":[...],"im":[...]}
      const size_t a = d.find("\"re\":") + 5, b = d.find(",\"im\":"), c2 = b + 6;
      pre += (i ? "," : "") + d.substr(a, b - a);
      pim += (i ? "," : "") + d.substr(c2, d.size() - 1 - c2);
    }
    j.arr("pm", pm).raw("pre", pre + "]").raw("pim", pim + "]");
    std::vector<long long> re = rand_vals(rng, n, 50), im = rand_vals(rng, n, 50);
    Array<1, cf> c = to_carray<1>(nn, re, im, 0);
    fourier(c, sign);
    const int kX = scale_for(cmaxabs<1>(c, nn), 8);
    j.arr("xre", re).arr("xim", im).num("kX", kX);
    clog<1>(j, "Xre", "Xim", c, nn, kX);
  });
  j.boolean("err", err);
  tr.emit(j);
}
// multi-dimensional transform characterised through per-axis twiddle tables: transforms of the unit impulses at 1 along each
// axis (the tables) and of sparse integer data
template <int D> static void one_twn(vh::Trace& tr, const int* n, int sign, vh::Rng& rng) {
  A3 t; for (int d = 0; d < 3; ++d) t.n[d] = n[d];
  const size_t N = (size_t)t.size();
  const int wk = 15;
  vh::Json j("TWN");
  j.num("id", ++ev_id).num("dim", D).arr("n", v3(n)).num("sign", sign).num("wk", wk);
  bool err = vh::threw([&] {
    static const char* KRE[3] = { "t1re", "t2re", "t3re" }; static const char* KIM[3] = { "t1im", "t2im", "t3im" };
    for (int d = 0; d < 3; ++d) {
      std::vector<long long> re(N, 0), im(N, 0);
      int p[3] = { 0, 0, 0 }; p[d] = n[d] > 1 ? 1 : 0;
      re[(size_t)((p[0] * n[1] + p[1]) * n[2] + p[2])] = 1;
      Array<D, cf> c = to_carray<D>(n, re, im, 0);
      fourier(c, sign);
      clog<D>(j, KRE[d], KIM[d], c, n, wk);
    }
    // sparse data: up to 4 non-zero Gaussian integers
    const int nz = rng.range(1, 4);
    std::vector<long long> re(N, 0), im(N, 0), are, aim; std::vector<std::vector<int>> pos;
    for (int z = 0; z < nz; ++z) {
      const size_t q = (size_t)rng.range(0, (int)N - 1);
      if (re[q] != 0 || im[q] != 0) continue;
      re[q] = rng.range(-60, 60); im[q] = rng.range(-60, 60);
      if (re[q] == 0 && im[q] == 0) re[q] = 1;
      int p[3]; t.pos((long)q, p);
      pos.push_back({ p[0], p[1], p[2] }); are.push_back(re[q]); aim.push_back(im[q]);
    }
    Array<D, cf> c = to_carray<D>(n, re, im, 0);
    fourier(c, sign);
    const int kX = scale_for(cmaxabs<D>(c, n), 7);
    j.arr2("pos", pos).arr("are", are).arr("aim", aim).num("kX", kX);
    clog<D>(j, "Xre", "Xim", c, n, kX);
  });
  j.boolean("err", err);
  tr.emit(j);
}
template <int D> static void dft_shape(vh::Trace& tr, const int* n, vh::Rng& rng, int repeats) {
  A3 t; for (int d = 0; d < 3; ++d) t.n[d] = n[d];
  const size_t N = (size_t)t.size();
  for (int rep = 0; rep < repeats; ++rep) {
    const int sign = (rep + n[2]) % 2 ? 1 : -1;
    const int sx = rng.pick(std::vector<int>{ 0, 3, 7 });
    std::vector<long long> re = rand_vals(rng, (int)N, 100), im = rand_vals(rng, (int)N, 100);
    one_fi<D>(tr, n, sign, re, im, sx, "random");
    one_fi<D>(tr, n, -sign, re, im, sx, "random");
    // unit impulse at the origin and somewhere else
    std::vector<long long> ire(N, 0), iim(N, 0);
    ire[0] = rng.range(1, 100); iim[0] = rng.range(-100, 100);
    one_fi<D>(tr, n, sign, ire, iim, sx, "impulse0");
    std::vector<long long> jre(N, 0), jim(N, 0);
    const size_t at = (size_t)rng.range(0, (int)N - 1);
    jre[at] = rng.range(-100, 100); jim[at] = rng.range(1, 100);
    one_fi<D>(tr, n, sign, jre, jim, sx, "impulse");
    if (n[2] >= 2) { one_rc<D>(tr, n, 1, re, sx); one_rc<D>(tr, n, -1, im, sx); }
  }
}
static void mode_dft(vh::Trace& tr, long max_total, int repeats, vh::Rng& rng, int max_tw, long max_twn) {
  // per-axis tables: every shape with axis lengths 1, 2, 4, 8, 16 (at least one axis >= 8), total size bounded
  for (int e1 = 0; e1 <= 4; ++e1) for (int e2 = 0; e2 <= 4; ++e2) for (int e3 = 0; e3 <= 4; ++e3) {
    const int n[3] = { 1 << e1, 1 << e2, 1 << e3 };
    if (std::max(e1, std::max(e2, e3)) < 3 || (long)n[0] * n[1] * n[2] > max_twn) continue;
    const int sign = (e1 + e2 + e3) % 2 ? 1 : -1;
    if (e1 > 0) { one_twn<3>(tr, n, sign, rng); if (max_twn > 1024) one_twn<3>(tr, n, -sign, rng); }
    else if (e2 > 0) { one_twn<2>(tr, n, sign, rng); one_twn<2>(tr, n, -sign, rng); }
  }
  for (int e = 0; (1 << e) <= max_tw; ++e)
    for (int sign : { 1, -1 })
      for (int rep = 0; rep < (e <= 6 ? 2 : 1); ++rep) one_tw(tr, 1 << e, sign, rng);
  // all power-of-two lengths 1..1024 per axis, 1 to 3 dimensions, total size bounded
  for (int e3 = 0; e3 <= 10; ++e3) {
    int n[3] = { 1, 1, 1 << e3 };
    dft_shape<1>(tr, n, rng, repeats + (e3 <= 2 ? 3 : 1));
    for (int e2 = 0; e2 <= 10; ++e2) {
      n[1] = 1 << e2;
      if ((long)n[1] * n[2] > max_total) continue;
      dft_shape<2>(tr, n, rng, repeats + (e3 <= 2 && e2 <= 2 ? 2 : 0));
      for (int e1 = 0; e1 <= 10; ++e1) {
        n[0] = 1 << e1;
        if ((long)n[0] * n[1] * n[2] > max_total) continue;
        dft_shape<3>(tr, n, rng, repeats + (e3 <= 2 && e2 <= 2 && e1 <= 2 ? 1 : 0));
      }
      n[0] = 1;
    }
    n[1] = 1;
  }
}

// ------------------------------------------------------------------ mode filt
struct FiltCfg { int kind; float fwhm[3], vox[3]; int mk[3]; float power[3]; };   // kind 0 gauss_array 1 gauss_image 2 metz_array 3 metz_image (parsed)
static const char* FKN[4] = { "gauss_array", "gauss_image", "metz_array", "metz_image" };
static std::string metz_text(const FiltCfg& c) {
  std::ostringstream t; t.precision(10);
  t << "Separable Cartesian Metz Filter Parameters :=\n";
  const char* ax[3] = { "z", "y", "x" };
  for (int d = 0; d < 3; ++d) t << ax[d] << "-dir filter FWHM (in mm) := " << c.fwhm[d] << "\n" << ax[d] << "-dir filter Metz power := " << c.power[d] << "\n"
                                << ax[d] << "-dir maximum kernel size := " << c.mk[d] << "\n";
  t << "END Separable Cartesian Metz Filter Parameters :=\n";
  return t.str();
}

struct SilenceStdout {   // SeparableMetzArrayFilter prints its kernels with printf
  int saved;
  SilenceStdout() { fflush(stdout); saved = dup(1); FILE* f = fopen("/dev/null", "w"); dup2(fileno(f), 1); fclose(f); }
  ~SilenceStdout() { fflush(stdout); dup2(saved, 1); close(saved); }
};
static void apply_filter(const FiltCfg& c, Array<3, float>& a) {
  if (c.kind == 0) {
    BasicCoordinate<3, float> f; BasicCoordinate<3, int> mk;
    for (int d = 1; d <= 3; ++d) { f[d] = c.fwhm[d - 1] / c.vox[d - 1]; mk[d] = c.mk[d - 1]; }
    SeparableGaussianArrayFilter<3, float> g(f, mk, true);
    g(a);
  } else if (c.kind == 1) {
    SeparableGaussianImageFilter<float> g;
    BasicCoordinate<3, float> f; BasicCoordinate<3, int> mk;
    for (int d = 1; d <= 3; ++d) { f[d] = c.fwhm[d - 1]; mk[d] = c.mk[d - 1]; }
    g.set_fwhms(f); g.set_max_kernel_sizes(mk);
    VoxelsOnCartesianGrid<float> image(a, CartesianCoordinate3D<float>(0.F, 0.F, 0.F), CartesianCoordinate3D<float>(c.vox[0], c.vox[1], c.vox[2]));
    if (g.set_up(image) != Succeeded::yes) throw std::runtime_error("set_up");
    if (g.apply(image) != Succeeded::yes) throw std::runtime_error("apply");
    a = image;
  } else if (c.kind == 3) {
    SeparableCartesianMetzImageFilter<float> m;
    std::istringstream text(metz_text(c));
    if (!m.parse(text)) throw std::runtime_error("parse");
    VoxelsOnCartesianGrid<float> image(a, CartesianCoordinate3D<float>(0.F, 0.F, 0.F), CartesianCoordinate3D<float>(c.vox[0], c.vox[1], c.vox[2]));
    SilenceStdout s;
    if (m.set_up(image) != Succeeded::yes) throw std::runtime_error("set_up");
    if (m.apply(image) != Succeeded::yes) throw std::runtime_error("apply");
    a = image;
  } else {
    VectorWithOffset<float> f(1, 3), pw(1, 3); VectorWithOffset<int> mk(1, 3);
    BasicCoordinate<3, float> sd;
    for (int d = 1; d <= 3; ++d) { f[d] = c.fwhm[d - 1]; pw[d] = c.power[d - 1]; mk[d] = c.mk[d - 1]; sd[d] = c.vox[d - 1]; }
    SilenceStdout s;
    SeparableMetzArrayFilter<3, float> m(f, pw, sd, mk);
    m(a);
  }
}
static void mode_filt(vh::Trace& tr, long count, vh::Rng& rng) {
  for (long it = 0; it < count; ++it) {
    FiltCfg c; c.kind = (int)(it % 4);
    for (int d = 0; d < 3; ++d) c.power[d] = c.kind >= 2 && (it / 4) % 2 == 1 ? (float)rng.range(0, 6) / 2.F : 0.F;   // Metz powers 0 .. 3
    // one axis may carry a long kernel, the others short ones or none (Metz kernels have long tails unless the FWHM is
    // several voxels, so there the other axes are mostly switched off)
    const int longax = rng.range(0, 2);
    int half[3];
    for (int d = 0; d < 3; ++d) {
      c.vox[d] = (float)rng.range(4, 16) / 4.F;                       // 1 .. 4 mm in quarters
      const bool off = d == longax ? rng.range(0, 5) == 0 : (c.kind >= 2 ? rng.range(0, 2) != 0 : rng.range(0, 2) == 0);
      if (off) { c.fwhm[d] = 0.F; c.mk[d] = -1; }
      else {
        float ratio;                                                   // FWHM in voxels
        if (d == longax) ratio = (float)rng.range(8, 40) / 8.F;       // 1 .. 5
        else if (c.kind >= 2) ratio = (float)rng.range(28, 36) / 8.F; // 3.5 .. 4.5
        else ratio = (float)rng.range(8, 16) / 8.F;                   // 1 .. 2
        c.fwhm[d] = ratio * c.vox[d];
        const int mkc = rng.range(0, 3);
        c.mk[d] = mkc == 0 ? -1 : (mkc == 1 ? 2 * rng.range(1, 6) + 1 : (mkc == 2 ? rng.range(2, 12) : 31));
      }
    }
    // find the extent of the kernels: impulse response on a generous array, enlarged until its faces are empty
    int n[3], lo[3] = { 0, 0, 0 };
    Array<3, float> ir;
    int grow[3] = { 3, 3, 3 };
    bool usable = false, threw = false;
    for (int attempt = 0; attempt < 7 && !usable && !threw; ++attempt) {
      for (int d = 0; d < 3; ++d) n[d] = c.fwhm[d] == 0.F ? 1 : 2 * grow[d] + 1;
      if ((long)n[0] * n[1] * n[2] > 20000) break;
      ir = Array<3, float>(range_of<3>(lo, n));
      ir[n[0] / 2][n[1] / 2][n[2] / 2] = 1.F;
      if (vh::threw([&] { apply_filter(c, ir); })) { threw = true; break; }
      usable = true;
      for (int d = 0; d < 3; ++d) {
        if (n[d] == 1) continue;
        bool face = false;
        for (int i = 0; i < n[0]; ++i) for (int jx = 0; jx < n[1]; ++jx) for (int k = 0; k < n[2]; ++k) {
          const int p[3] = { i, jx, k };
          if ((p[d] == 0 || p[d] == n[d] - 1) && ir[i][jx][k] != 0.F) face = true;
        }
        if (face) { grow[d] *= 2; usable = false; }
      }
    }
    if (threw) { tr.emit(vh::Json("MEAN").num("id", ++ev_id).str("filter", FKN[c.kind]).boolean("err", true)); continue; }
    if (!usable) { --it; continue; }   // kernel too long for an array we can log: other parameters
    for (int d = 0; d < 3; ++d) {
      half[d] = 0;
      for (int i = 0; i < n[0]; ++i) for (int jx = 0; jx < n[1]; ++jx) for (int k = 0; k < n[2]; ++k) {
        const int p[3] = { i, jx, k };
        if (ir[i][jx][k] != 0.F) half[d] = std::max(half[d], std::abs(p[d] - n[d] / 2));
      }
    }
    // data: constant c on a box, random elsewhere; array just large enough to hold box + margins
    int dn[3], dlo[3], blo[3], bhi[3];
    for (int d = 0; d < 3; ++d) {
      const int inner = rng.range(1, 3), margin = rng.range(0, 2);
      dlo[d] = rng.range(-4, 4);
      if (c.fwhm[d] == 0.F && rng.coin()) { dn[d] = 1; blo[d] = bhi[d] = dlo[d]; continue; }
      dn[d] = 2 * half[d] + inner + 2 * margin;
      blo[d] = dlo[d] + margin; bhi[d] = dlo[d] + dn[d] - 1 - margin;
    }
    if ((long)dn[0] * dn[1] * dn[2] > 20000) { --it; continue; }
    A3 d = rand_array(rng, dlo, dn, 60);
    const int cval = rng.range(1, 60), sd = rng.range(0, 2);
    { int p[3]; for (long q = 0; q < d.size(); ++q) { d.pos(q, p); bool in = true; for (int a = 0; a < 3; ++a) in = in && p[a] >= blo[a] && p[a] <= bhi[a]; if (in) d.v[(size_t)q] = cval; } }
    Array<3, float> data = to_array<3>(d, sd);
    // impulse response on an array of the same shape as the probe (same filter parameters)
    const int ipos[3] = { n[0] / 2, n[1] / 2, n[2] / 2 };
    vh::Json j("MEAN");
    j.num("id", ++ev_id).str("filter", FKN[c.kind]);
    std::vector<long long> fw(3), vx(3), pw(3); std::vector<int> mk(3);
    for (int a = 0; a < 3; ++a) { fw[a] = vh::fx(c.fwhm[a], 10); vx[a] = vh::fx(c.vox[a], 10); mk[a] = c.mk[a]; pw[a] = vh::fx(c.power[a], 10); }
    j.arr("fwhm", fw).arr("vox", vx).arr("mk", mk).arr("power", pw);
    bool err = vh::threw([&] { apply_filter(c, data); });
    j.boolean("err", err);
    if (!err) {
      const int fk = 14;
      j.arr("irn", v3(n)).arr("ipos", v3(ipos)).num("irk", 24).arr("ir", from_array<3>(ir, lo, n, 24, nullptr));
      j.arr("dlo", v3(dlo)).arr("dn", v3(dn)).arr("blo", v3(blo)).arr("bhi", v3(bhi)).num("c", cval).num("sd", sd).arr("d", d.v)
          .num("fk", fk).arr("o", from_array<3>(data, dlo, dn, fk, nullptr));
    }
    tr.emit(j);
  }
}


// ------------------------------------------------------------------ mode more (beyond the property text)
static VoxelsOnCartesianGrid<float> as_image(const Array<3, float>& a) {
  return VoxelsOnCartesianGrid<float>(a, CartesianCoordinate3D<float>(0.F, 0.F, 0.F), CartesianCoordinate3D<float>(2.F, 1.5F, 1.F));
}
typedef DataProcessor<DiscretisedDensity<3, float>> Proc;

static void one_med(vh::Trace& tr, bool median, int via, const int* r, const A3& d, int sd) {
  Array<3, float> in = to_array<3>(d, sd);
  Array<3, float> out(in.get_index_range());
  out.fill(777.F);
  Array<3, float>* res = &out;
  bool trivial = false;
  bool err = vh::threw([&] {
    const Coordinate3D<int> rad(r[0], r[1], r[2]);
    if (via <= 1) {
      shared_ptr<ArrayFunctionObject<3, float>> f;
      if (median) f.reset(new MedianArrayFilter3D<float>(rad)); else f.reset(new MinimalArrayFilter3D<float>(rad));
      trivial = f->is_trivial();
      if (via == 0) (*f)(out, in); else { (*f)(in); res = &in; }
    } else {
      MedianImageFilter3D<float> f(CartesianCoordinate3D<int>(r[0], r[1], r[2]));
      VoxelsOnCartesianGrid<float> image = as_image(in), image_out = as_image(out);
      if (f.set_up(image) != Succeeded::yes) throw std::runtime_error("set_up");
      if (via == 2) { if (f.apply(image) != Succeeded::yes) throw std::runtime_error("apply"); in = image; res = &in; }
      else { if (f.apply(image_out, image) != Succeeded::yes) throw std::runtime_error("apply"); out = image_out; }
    }
  });
  vh::Json j("MED");
  j.num("id", ++ev_id).str("kind", median ? "median" : "minimal").num("via", via).arr("r", v3(r)).arr("dlo", v3(d.lo)).arr("dn", v3(d.n)).arr("d", d.v).num("sd", sd)
      .boolean("trivial", trivial).boolean("err", err);
  if (!err) { long long rs = 0; j.arr("o", from_array<3>(*res, d.lo, d.n, sd + (median ? 1 : 0), &rs)).num("res", rs); }
  tr.emit(j);
}

// a float exactly: odd mantissa (or 0) and binary exponent
static void mant_exp(float v, long long& m, int& e) {
  if (v == 0.F || !std::isfinite(v)) { m = 0; e = std::isfinite(v) ? 0 : 9999; return; }
  int ex; const double fr = std::frexp((double)v, &ex);
  m = (long long)std::ldexp(fr, 24); e = ex - 24;
  while (m % 2 == 0) { m /= 2; ++e; }
}
static void one_thr(vh::Trace& tr, int via, const A3& d, int sd) {
  Array<3, float> in = to_array<3>(d, sd);
  Array<3, float> out(in.get_index_range());
  out.fill(777.F);
  Array<3, float>* res = &in;
  bool err = vh::threw([&] {
    ThresholdMinToSmallPositiveValueDataProcessor<DiscretisedDensity<3, float>> f;
    VoxelsOnCartesianGrid<float> image = as_image(in), image_out = as_image(out);
    if (via == 0) { if (f.apply(image) != Succeeded::yes) throw std::runtime_error("apply"); in = image; }
    else { if (f.apply(image_out, image) != Succeeded::yes) throw std::runtime_error("apply"); out = image_out; res = &out; }
  });
  vh::Json j("THR");
  j.num("id", ++ev_id).num("via", via).arr("dlo", v3(d.lo)).arr("dn", v3(d.n)).arr("d", d.v).num("sd", sd).boolean("err", err);
  if (!err) {
    std::vector<long long> om((size_t)d.size()); std::vector<int> oe((size_t)d.size());
    int p[3];
    for (long q = 0; q < d.size(); ++q) { d.pos(q, p); mant_exp(Acc<3, float>::at(*res, p), om[(size_t)q], oe[(size_t)q]); }
    j.arr("om", om).arr("oe", oe);
  }
  tr.emit(j);
}

// a stage of a chain of data processors
struct Stage { int t; K1 ks[3]; int sk; int r[3]; int rim; bool strict; };   // t 0 conv 1 median 2 trunc 3 none
static shared_ptr<Proc> make_proc(const Stage& st) {
  shared_ptr<Proc> p;
  if (st.t == 0) {
    VectorWithOffset<VectorWithOffset<float>> co(3);
    for (int a = 0; a < 3; ++a) co[a] = kernel1d(st.ks[a].lo, st.ks[a].v, st.sk);
    p.reset(new SeparableConvolutionImageFilter<float>(co));
  } else if (st.t == 1) p.reset(new MedianImageFilter3D<float>(CartesianCoordinate3D<int>(st.r[0], st.r[1], st.r[2])));
  else if (st.t == 2) {
    TruncateToCylindricalFOVImageProcessor<float>* t = new TruncateToCylindricalFOVImageProcessor<float>();
    t->set_strictly_less_than_radius(st.strict); t->set_truncate_rim(st.rim);
    p.reset(t);
  }
  return p;
}
static std::string stage_json(const Stage& st) {
  vh::Json j;
  if (st.t == 0) {
    std::vector<int> klo = { st.ks[0].lo, st.ks[1].lo, st.ks[2].lo };
    std::vector<std::vector<long long>> kv = { st.ks[0].v, st.ks[1].v, st.ks[2].v };
    j.str("t", "conv").arr("klo", klo).arr2("kv", kv);
  } else if (st.t == 1) j.str("t", "median").arr("r", v3(st.r));
  else if (st.t == 2) j.str("t", "trunc").num("rim", st.rim).boolean("strict", st.strict);
  else j.str("t", "none");
  return j.done();
}
static int stage_bits(const Stage& st) {
  if (st.t == 0) { int b = 0; for (int a = 0; a < 3; ++a) if (!st.ks[a].v.empty()) b += st.sk; return b; }
  return st.t == 1 ? 1 : 0;
}
static Stage rand_stage(vh::Rng& rng, int t) {
  Stage st; st.t = t; st.sk = rng.range(0, 1); st.rim = rng.range(0, 1); st.strict = rng.coin();
  for (int a = 0; a < 3; ++a) {
    const int len = rng.range(0, 2);
    st.ks[a].lo = len == 0 ? 0 : rng.range(-1, 1); st.ks[a].v = rand_vals(rng, len, 3); st.ks[a].bc = 0;
    st.r[a] = rng.range(0, 1);
  }
  return st;
}
// shape 0: (A,B)  1: (A,(B,C))  2: ((A,B),C); "none" stages are null pointers
static shared_ptr<Proc> make_chain(const std::vector<Stage>& st, int shape) {
  typedef ChainedDataProcessor<DiscretisedDensity<3, float>> Chain;
  if (shape == 0) return shared_ptr<Proc>(new Chain(make_proc(st[0]), make_proc(st[1])));
  if (shape == 1) return shared_ptr<Proc>(new Chain(make_proc(st[0]), shared_ptr<Proc>(new Chain(make_proc(st[1]), make_proc(st[2])))));
  return shared_ptr<Proc>(new Chain(shared_ptr<Proc>(new Chain(make_proc(st[0]), make_proc(st[1]))), make_proc(st[2])));
}
static void one_chain(vh::Trace& tr, const std::vector<Stage>& st, int shape, int via, const A3& d, int sd) {
  Array<3, float> in = to_array<3>(d, sd);
  Array<3, float> out(in.get_index_range());
  out.fill(777.F);
  Array<3, float>* res = &in;
  bool err = vh::threw([&] {
    shared_ptr<Proc> c = make_chain(st, shape);
    VoxelsOnCartesianGrid<float> image = as_image(in), image_out = as_image(out);
    if (via == 0) { if (c->apply(image) != Succeeded::yes) throw std::runtime_error("apply"); in = image; }
    else { if (c->apply(image_out, image) != Succeeded::yes) throw std::runtime_error("apply"); out = image_out; res = &out; }
  });
  std::string sj = "[";
  int so = sd;
  for (size_t i = 0; i < st.size(); ++i) { sj += (i ? "," : "") + stage_json(st[i]); so += stage_bits(st[i]); }
  // the same processors applied one after the other by hand (fresh objects), for "composition = successive application"
  Array<3, float> seq = to_array<3>(d, sd);
  const bool serr = vh::threw([&] {
    VoxelsOnCartesianGrid<float> image = as_image(seq);
    for (size_t i = 0; i < st.size(); ++i) { shared_ptr<Proc> p = make_proc(st[i]); if (p && p->apply(image) != Succeeded::yes) throw std::runtime_error("apply"); }
    seq = image;
  });
  vh::Json j("CHAIN");
  j.num("id", ++ev_id).num("shape", shape).num("via", via).raw("stages", sj + "]").arr("dlo", v3(d.lo)).arr("dn", v3(d.n)).arr("d", d.v).num("sd", sd).boolean("err", err || serr);
  if (!err && !serr) { long long rs = 0; j.arr("o", from_array<3>(*res, d.lo, d.n, so, &rs)).arr("seq", from_array<3>(seq, d.lo, d.n, so, &rs)).num("res", rs); }
  tr.emit(j);
}
static void one_trunc(vh::Trace& tr, int via, int rim, bool strict, const A3& d, int sd) {
  Array<3, float> in = to_array<3>(d, sd);
  Array<3, float> out(in.get_index_range());
  out.fill(777.F);
  Array<3, float>* res = &in;
  bool err = vh::threw([&] {
    TruncateToCylindricalFOVImageProcessor<float> f;
    f.set_strictly_less_than_radius(strict); f.set_truncate_rim(rim);
    VoxelsOnCartesianGrid<float> image = as_image(in), image_out = as_image(out);
    if (via == 0) { if (f.apply(image) != Succeeded::yes) throw std::runtime_error("apply"); in = image; }
    else { if (f.apply(image_out, image) != Succeeded::yes) throw std::runtime_error("apply"); out = image_out; res = &out; }
  });
  vh::Json j("TRUNC");
  j.num("id", ++ev_id).num("via", via).num("rim", rim).boolean("strict", strict).arr("dlo", v3(d.lo)).arr("dn", v3(d.n)).arr("d", d.v).num("sd", sd).boolean("err", err);
  if (!err) { long long rs = 0; j.arr("o", from_array<3>(*res, d.lo, d.n, sd, &rs)).num("res", rs); }
  tr.emit(j);
}
template <int D> static void one_on1(vh::Trace& tr, int via, int klo, const std::vector<long long>& kv, int sk, int bc, const A3& d, int sd, int olo1, int on1) {
  if (kv.empty()) sk = 0;
  Array<D, float> in = to_array<D>(d, sd);
  int olo[3] = { d.lo[0], d.lo[1], d.lo[2] }, on[3] = { d.n[0], d.n[1], d.n[2] };
  if (via == 1) { olo[3 - D] = olo1; on[3 - D] = on1; }
  Array<D, float> out(range_of<D>(olo, on));
  out.fill(777.F);
  Array<D, float>* res = &in;
  bool err = vh::threw([&] {
    shared_ptr<ArrayFunctionObject<1, float>> f(new ArrayFilter1DUsingConvolution<float>(kernel1d(klo, kv, sk), BCV[bc]));
    if (via == 0) in_place_apply_array_function_on_1st_index(in, f);
    else { apply_array_function_on_1st_index(out, in, f); res = &out; }
  });
  vh::Json j("ON1");
  j.num("id", ++ev_id).num("dim", D).num("via", via).str("bc", BCN[bc]).num("klo", klo).arr("k", kv).num("sk", sk).arr("dlo", v3(d.lo)).arr("dn", v3(d.n)).arr("d", d.v).num("sd", sd)
      .arr("olo", v3(olo)).arr("on", v3(on)).boolean("err", err);
  if (!err) { long long rs = 0; j.arr("o", from_array<D>(*res, olo, on, sk + sd, &rs)).num("res", rs); }
  tr.emit(j);
}
template <int D> static void one_elt(vh::Trace& tr, const char* fn, const A3& d, int sx, int fk) {
  Array<D, float> a = to_array<D>(d, sx);
  bool err = vh::threw([&] {
    if (fn[0] == 'a') in_place_abs(a); else if (fn[0] == 'l') in_place_log(a); else in_place_exp(a);
  });
  vh::Json j("ELT");
  j.num("id", ++ev_id).str("fn", fn).num("dim", D).arr("lo", v3(d.lo)).arr("n", v3(d.n)).arr("x", d.v).num("sx", sx).num("fk", fk).boolean("err", err);
  if (!err) { long long rs = 0; j.arr("o", from_array<D>(a, d.lo, d.n, fk, &rs)).num("res", rs); }
  tr.emit(j);
}
static void one_ramp(vh::Trace& tr, int L, float alpha, float fc, float sampledist) {
  vh::Json j("RAMP");
  j.num("id", ++ev_id).num("L", L).num("alpha", vh::fx(alpha, 10)).num("fc", vh::fx(fc, 10)).num("sampledist", vh::fx(sampledist, 10)).num("hk", 20);
  bool err = vh::threw([&] {
    RampFilter f(sampledist, L, alpha, fc);
    Array<1, float> in(0, 0); in[0] = 1.F;
    Array<1, float> out(-(L / 2), L / 2 - 1);
    f(out, in);
    int lo[3] = { 0, 0, -(L / 2) }, n[3] = { 1, 1, L };
    j.arr("h", from_array<1>(out, lo, n, 20, nullptr));
  });
  j.boolean("err", err);
  tr.emit(j);
}
// parameter_info() -> parse(): apply the original and the re-parsed processor to the same data
static void one_rt(vh::Trace& tr, const char* type, Proc& first, Proc& second, const A3& d, int sd, int fk) {
  Array<3, float> in = to_array<3>(d, sd);
  bool parsed = false;
  vh::Json j("RT");
  j.num("id", ++ev_id).str("type", type).arr("dlo", v3(d.lo)).arr("dn", v3(d.n)).arr("d", d.v).num("sd", sd).num("fk", fk);
  bool err = vh::threw([&] {
    SilenceStdout s;
    const std::string text = first.parameter_info();
    std::istringstream is(text);
    parsed = second.parse(is);
    VoxelsOnCartesianGrid<float> i1 = as_image(in), i2 = as_image(in);
    if (first.apply(i1) != Succeeded::yes) throw std::runtime_error("apply");
    if (parsed && second.apply(i2) != Succeeded::yes) throw std::runtime_error("apply");
    j.arr("o1", from_array<3>(i1, d.lo, d.n, fk, nullptr)).arr("o2", from_array<3>(i2, d.lo, d.n, fk, nullptr));
  });
  j.boolean("parsed", parsed).boolean("err", err);
  tr.emit(j);
}

static void mode_more(vh::Trace& tr, long count, vh::Rng& rng) {
  for (long it = 0; it < count; ++it) {
    int dlo[3], dn[3];
    for (int a = 0; a < 3; ++a) { dlo[a] = rng.range(-3, 3); dn[a] = rng.range(1, 5); }
    // median / minimal
    { int r[3]; for (int a = 0; a < 3; ++a) r[a] = rng.range(0, 9) == 0 ? 2 : rng.range(0, 1);
      if (it % 7 == 0) r[0] = r[1] = r[2] = 0;
      const bool median = it % 3 != 2;
      one_med(tr, median, median ? (int)(it % 4) : (int)(it % 2), r, rand_array(rng, dlo, dn, 15), rng.range(0, 2)); }
    // threshold
    { A3 d = rand_array(rng, dlo, dn, 20);
      if (it % 5 == 0) for (auto& x : d.v) x = -std::llabs(x);          // nothing positive
      if (it % 5 == 1) for (auto& x : d.v) x = std::llabs(x) + 1;      // everything positive
      one_thr(tr, (int)(it % 2), d, rng.range(0, 3)); }
    // truncate to cylindrical FOV: odd and even sizes, index ranges around and away from 0
    { int tlo[3] = { rng.range(-1, 1), 0, 0 }, tn[3] = { rng.range(1, 2), rng.range(1, 9), rng.range(1, 9) };
      tlo[1] = it % 2 ? -(tn[1] / 2) : rng.range(-6, 3); tlo[2] = it % 3 ? -(tn[2] / 2) : rng.range(-6, 3);
      A3 d = rand_array(rng, tlo, tn, 15);
      for (auto& x : d.v) if (x == 0) x = 7;
      one_trunc(tr, (int)(it % 2), it % 4 == 3 ? rng.range(1, 2) : 0, (it / 2) % 2 == 0, d, rng.range(0, 2)); }
    // chains
    { const int shape = (int)(it % 3);
      std::vector<Stage> st;
      for (int i = 0; i < (shape == 0 ? 2 : 3); ++i) st.push_back(rand_stage(rng, rng.range(0, 9) == 0 ? 3 : rng.range(0, 2)));
      int clo[3], cn[3];
      for (int a = 0; a < 3; ++a) { clo[a] = a == 0 ? rng.range(-1, 1) : -rng.range(1, 3); cn[a] = a == 0 ? rng.range(1, 3) : rng.range(3, 6); }
      one_chain(tr, st, shape, (int)((it / 3) % 2), rand_array(rng, clo, cn, 12), rng.range(0, 1)); }
    // apply a 1-D function object on the first index
    { const int klen = rng.range(0, 3), klo = klen == 0 ? 0 : rng.range(-2, 1), bc = rng.range(0, 1);
      std::vector<long long> kv = rand_vals(rng, klen, 8);
      int lo2[3] = { 0, dlo[1], dlo[2] }, n2[3] = { 1, dn[1], dn[2] };
      const int D = 2 + (int)(it % 2), via = (int)((it / 2) % 2);
      if (D == 2) one_on1<2>(tr, via, klo, kv, rng.range(0, 2), bc, rand_array(rng, lo2, n2, 15), rng.range(0, 2), lo2[1] + rng.range(-2, 2), rng.range(1, 6));
      else one_on1<3>(tr, via, klo, kv, rng.range(0, 2), bc, rand_array(rng, dlo, dn, 15), rng.range(0, 2), dlo[0] + rng.range(-2, 2), rng.range(1, 6)); }
    // elementwise functions
    { const int D = 1 + (int)(it % 3);
      int elo[3] = { 0, 0, 0 }, en[3] = { 1, 1, 1 };
      for (int a = 3 - D; a < 3; ++a) { elo[a] = rng.range(-3, 3); en[a] = rng.range(2, 4); }
      A3 d = rand_array(rng, elo, en, 100);
      d.v[0] = -1; d.v[1] = 1;   // values just below and above 0
      if (D == 1) { const int sa = rng.range(0, 4); if (D == 1) one_elt<1>(tr, "abs", d, sa, sa); else if (D == 2) one_elt<2>(tr, "abs", d, sa, sa); else one_elt<3>(tr, "abs", d, sa, sa); }
      // log: data m * 2^j, m in {1,3,5}, always containing 1, 2, 3, 5 (in units of 2^-3)
      A3 l = d; static const int M[3] = { 1, 3, 5 };
      for (auto& x : l.v) x = (long long)M[rng.range(0, 2)] << rng.range(0, 9);
      const long long must[4] = { 8, 16, 24, 40 };
      if (l.v.size() >= 4) { for (int i = 0; i < 4; ++i) l.v[(size_t)i] = must[i]; for (size_t i = l.v.size() - 1; i > 0; --i) std::swap(l.v[i], l.v[(size_t)rng.range(0, (int)i)]); }
      else { l.n[2] = 4; l.v.assign(must, must + 4); for (int a = 0; a < 2; ++a) l.n[a] = 1; }
      A3 e = l; for (auto& x : e.v) x = rng.range(-4, 4);
      for (int i = 0; i < 3 && (size_t)i < e.v.size(); ++i) e.v[(size_t)i] = i - 1;     // -1, 0, 1
      const bool isl = it % 2 == 0;
      const A3& w = isl ? l : e;
      const long sz = w.size(); (void)sz;
      if (w.n[0] == 1 && w.n[1] == 1) one_elt<1>(tr, isl ? "log" : "exp", w, isl ? 3 : 0, isl ? 16 : 10);
      else if (w.n[0] == 1) one_elt<2>(tr, isl ? "log" : "exp", w, isl ? 3 : 0, isl ? 16 : 10);
      else one_elt<3>(tr, isl ? "log" : "exp", w, isl ? 3 : 0, isl ? 16 : 10); }
    // parsing round trips
    { A3 d = rand_array(rng, dlo, dn, 15);
      const int which = (int)(it % 5);
      if (which == 0) {
        SeparableGaussianImageFilter<float> f1, f2;
        BasicCoordinate<3, float> fw; BasicCoordinate<3, int> mk;
        for (int a = 1; a <= 3; ++a) { fw[a] = (float)rng.range(0, 24) / 4.F; mk[a] = rng.range(0, 2) == 0 ? -1 : 2 * rng.range(1, 4) + 1; }
        f1.set_fwhms(fw); f1.set_max_kernel_sizes(mk);
        one_rt(tr, "gauss_image", f1, f2, d, 0, 14);
      } else if (which == 1) {
        FiltCfg c; c.kind = 3;
        for (int a = 0; a < 3; ++a) { c.fwhm[a] = rng.range(0, 2) == 0 ? 0.F : (float)rng.range(24, 40) / 4.F; c.power[a] = (float)rng.range(0, 4) / 2.F; c.mk[a] = rng.range(0, 1) ? -1 : 2 * rng.range(2, 5) + 1; c.vox[a] = 1.F; }
        SeparableCartesianMetzImageFilter<float> f1, f2;
        std::istringstream text(metz_text(c));
        if (f1.parse(text)) one_rt(tr, "metz_image", f1, f2, d, 0, 14);
        else tr.emit(vh::Json("RT").num("id", ++ev_id).str("type", "metz_image").boolean("parsed", false).boolean("err", true));
      } else if (which == 2) {
        MedianImageFilter3D<float> f1(CartesianCoordinate3D<int>(rng.range(0, 2), rng.range(0, 2), rng.range(0, 2))), f2;
        one_rt(tr, "median", f1, f2, d, 0, 4);
      } else if (which == 3) {
        TruncateToCylindricalFOVImageProcessor<float> f1, f2;
        f1.set_strictly_less_than_radius(rng.coin());
        int tlo[3] = { 0, -3, -3 }, tn[3] = { 2, 7, 7 };
        one_rt(tr, "trunc", f1, f2, rand_array(rng, tlo, tn, 15), 0, 4);
      } else {
        std::vector<Stage> st;
        for (int i = 0; i < 3; ++i) st.push_back(rand_stage(rng, rng.range(0, 2)));
        for (auto& s : st) s.rim = 0;     // the rim is not a parsing key
        shared_ptr<Proc> f1 = make_chain(st, (int)((it / 5) % 3));
        ChainedDataProcessor<DiscretisedDensity<3, float>> f2;
        int clo[3] = { 0, -2, -3 }, cn[3] = { 2, 5, 6 };
        one_rt(tr, "chain", *f1, f2, rand_array(rng, clo, cn, 12), 0, 6);
      } }
  }
  // ramp filter: every power-of-two length 8..256, plain ramp and windowed / lower cut-off variants
  for (int L = 8; L <= 256; L *= 2)
    for (int v = 0; v < 4; ++v) {
      static const float AL[4] = { 1.F, 0.5F, 1.F, 0.75F }, FC[4] = { 0.5F, 0.5F, 0.25F, 0.375F };
      one_ramp(tr, L, AL[v], FC[v], v % 2 ? 2.5F : 1.F);
    }
}

int main(int argc, char** argv) {
  if (argc < 3) { fprintf(stderr, "usage: c19_fourier conv|dft|filt|more <out.ndjson> [args]\n"); return 2; }
  const std::string mode = argv[1];
  if (!getenv("VERIF_STDERR")) { if (!freopen("/dev/null", "w", stderr)) return 3; }
  Verbosity::set(0);
  vh::install_terminate();
  install_signal_handlers(true);
  vh::Trace tr(argv[2]);
  vh::Rng rng((uint64_t)vh::seed_from_env());
  if (mode == "conv") mode_conv(tr, argc > 3 ? atol(argv[3]) : 200, argc > 4 ? atoi(argv[4]) : 0, rng);
  else if (mode == "dft") mode_dft(tr, argc > 3 ? atol(argv[3]) : 1024, argc > 4 ? atoi(argv[4]) : 1, rng, argc > 5 ? atoi(argv[5]) : 256, argc > 6 ? atol(argv[6]) : 512);
  else if (mode == "filt") mode_filt(tr, argc > 3 ? atol(argv[3]) : 30, rng);
  else if (mode == "more") mode_more(tr, argc > 3 ? atol(argv[3]) : 30, rng);
  else return 2;
  return 0;
}
